"""C11 — layer decomposition honours every constraint and never worsens its fit.  Model: coq/Model/Decomp.v."""
import numpy as np
import core
from core import Prop, q, qv, qm, cbool, cnat
from p_C04 import kmat_lit, base_vec, C04
import gen_sys as gs
import dualcert

TIGHT = dict(solver="CLARABEL", tol_gap_abs=1e-10, tol_gap_rel=1e-10, tol_feas=1e-10)


def xstep_M(Ap, P, W):
    """numpy twin of Decomp.xstep_M: row (i,j) = W_ij * kron(P_i, A'_j)"""
    S, L = P.shape; m, n = Ap.shape
    M = np.zeros((S * m, L * n))
    for i in range(S):
        for j in range(m):
            M[i * m + j] = W[i, j] * np.kron(P[i], Ap[j])
    return M


def pstep_M(Ap, X, W, S):
    L = X.shape[0]; m = Ap.shape[0]
    M = np.zeros((S * m, S * L))
    C = Ap @ X.T                                  # m x L
    for i in range(S):
        for j in range(m):
            M[i * m + j, i * L:(i + 1) * L] = W[i, j] * C[j]
    return M


def l1_rows(L, n):
    G = []
    for l in range(L - 1):
        r = np.zeros(L * n); r[l * n:(l + 1) * n] = 1; r[(l + 1) * n:(l + 2) * n] = -1
        G += [r, -r]
    return np.array(G).reshape(-1, L * n), np.zeros(2 * (L - 1))


class C11(Prop):
    id = "C11"
    coq_imports = "From DV Require Import Model.Linear Cert.Duality Cert.Qp Model.Decomp."
    case_type = "Decomp.dcase"
    verdict = "Decomp.dverdict"
    shard = 6
    rule = ("well-scaled systems (2-4 receptors, 2-6 sources, lb = 0, finite ub, K none/scalar/vector/matrix, baseline), 8-24 samples (quick; up to 60 thorough) that are images of "
            "random layered stimuli plus multiplicative noise (or unstructured in-regime targets), 1-3 layers (or the default n_layers = receptors - 1), random 0/1 masks with at least one "
            "source per layer or no mask, with/without the equal-L1 constraint, subsample in {None, 'fast', 0.5, 0.75}, opacity bounds in {(0,1),(0.1,1),(0,0.5),(0.2,0.8)}, seeds, "
            "max_iter in {1,2,5,15,30}, per-receptor weights; the default solver (SCS, loose tolerances) and CLARABEL with tight settings. non-trivial = at least 2 layers, or a mask with a "
            "zero, or a subsample")
    assumptions = ["the conic solvers are opaque: the factor fitted last is judged by a weak-duality certificate (multipliers from a HiGHS LP over the dual, untrusted) against the formulation model",
                   "tolerances: CLARABEL(tight) constraints 1e-6, optimality 1e-5*(1+loss^2), descent 1e-6*(1+loss); default SCS: constraints 1e-3, optimality 2e-2*(1+loss^2), descent 5e-3*(1+loss)",
                   "the per-iteration losses are those the implementation computed (hook decomp.loss: value of the X sub-problem, then the loss after the P sub-problem); "
                   "the final loss is recomputed exactly from the returned factors when there is no subsampling",
                   "same seed => same result is a test (T): every case is run twice and compared to 1e-9"]
    modelled = ("lsq_linear.py: lsq_linear_decomposition (x_problem and p_problem as least-squares programmes over vec X / vec P; bound, mask and equal-total constraints; opacity box; "
                "prediction P X A'^T + baseline'); prepare_parameters_for_linear (K, baseline); estimator.fit_decomposition dispatch. NOT modelled: the NMF initialisation and the "
                "termination rule (the theorems hold for any start and any number of iterations)")

    def sizes(self, tier):
        return 48 if tier == "quick" else 600

    def gen(self, rng, n, tier):
        cases = []
        while len(cases) < n:
            sys = gs.gen_system(rng, mrange=(2, 4), nrange=(2, 6), finite_ub=True, lb_zero=True, Kkind=rng.choice(["none", "scalar", "vector", "matrix"]))
            m, nn = sys["m"], sys["n"]
            if np.any(np.asarray(sys["lb"]) != 0):
                continue
            Lmode = rng.choice(["given", "given", "given", "default"])
            L = rng.randint(1, 3) if Lmode == "given" else m - 1
            if L < 1:
                continue
            mask = None
            if Lmode == "given" and rng.random() < 0.6:
                while True:
                    mask = [[float(rng.random() < 0.6) for _ in range(nn)] for _ in range(L)]
                    if all(sum(r) >= 1 for r in mask):
                        break
            S = rng.randint(8, 24 if tier == "quick" else 60)
            Ap, bp = gs.K_apply(sys["K"], sys["A"], base_vec(sys["baseline"], m))
            Ap = np.asarray(Ap, dtype=float); bp = np.asarray(bp, dtype=float)
            if np.any(Ap < 0) or np.any(bp < 0):
                continue                      # NMF initialisation needs non-negative targets above the baseline
            ub = np.asarray(sys["ub"], dtype=float)
            kindB = rng.choice(["layered", "layered", "noisy", "free"])
            mk = np.ones((L, nn)) if mask is None else np.array(mask)
            Xt = np.array([[ub[k] * rng.randint(1, 16) / 16 * mk[l, k] for k in range(nn)] for l in range(L)])
            Pt = np.array([[rng.randint(0, 16) / 16 for _ in range(L)] for _ in range(S)])
            Bs = Pt @ Xt @ Ap.T
            if kindB == "noisy":
                Bs = Bs * np.array([[1 + rng.randint(-8, 8) / 64 for _ in range(m)] for _ in range(S)])
            elif kindB == "free":
                x = np.array([[ub[k] * rng.randint(0, 16) / 16 for k in range(nn)] for _ in range(S)])
                Bs = x @ Ap.T
            B = Bs + bp
            if not np.all(np.isfinite(B)) or np.max(Bs) <= 0:
                continue
            lbp, ubp = rng.choice([(0.0, 1.0), (0.0, 1.0), (0.125, 1.0), (0.0, 0.5), (0.25, 0.75)])
            sub = rng.choice([None, None, "fast", 0.5, 0.75])
            if sub not in (None, "fast") and int(S * sub) < max(L, 2):
                continue
            w = [1.0] * m if rng.random() < 0.6 else [rng.randint(2, 8) / 4 for _ in range(m)]
            # per-SAMPLE weights (register_targets(B, W) followed by fit_decomposition() on the registered targets)
            Wrows = [[rng.randint(1, 8) / 4 for _ in range(m)] for _ in range(S)] if rng.random() < 0.3 else None
            cases.append({"sys": {k: (v.tolist() if isinstance(v, np.ndarray) else v) for k, v in sys.items()}, "B": B.tolist(), "w": w,
                          "L": L, "Lmode": Lmode, "mask": mask, "equal": rng.random() < 0.6, "Wrows": Wrows, "sub": sub, "lbp": lbp, "ubp": ubp,
                          "seed": rng.randint(0, 10 ** 6), "max_iter": rng.choice([1, 2, 5, 15, 30]), "solver": rng.choice(["default", "tight", "tight"]),
                          "kind": "L%d%s/%s/%s/sub-%s/%s" % (L, "" if Lmode == "given" else "d", "mask" if mask else "nomask",
                                                              "eq" if cases is not None and False else "", sub, kindB)})
            c = cases[-1]
            c["kind"] = "L%d%s/%s/%s/sub-%s/%s/%s" % (L, "" if Lmode == "given" else "d", "mask" if mask else "nomask", "eqL1" if c["equal"] else "free",
                                                      sub, kindB, c["solver"]) + ("/Wrows" if Wrows else "")
        return cases

    def call(self, case):
        sys = C04.sysnp(case)
        est = gs.make_estimator(sys, w=np.array(case["w"]))
        kw = dict(lbp=case["lbp"], ubp=case["ubp"], max_iter=case["max_iter"], seed=case["seed"], subsample=case["sub"],
                  equal_l1norm_constraint=case["equal"])
        if case["Lmode"] == "given":
            kw["n_layers"] = case["L"]
            if case["mask"] is not None:
                kw["mask"] = np.array(case["mask"])
        if case["solver"] == "tight":
            kw.update(TIGHT)
        core.drain_hooks()
        if case.get("Wrows"):
            est.register_targets(np.array(case["B"]), W=np.array(case["Wrows"]))
            est.fit_decomposition(**kw)
            X, P, Bp = est.X, est.P, est.B
        else:
            X, P, Bp = est.fit_decomposition(np.array(case["B"]), **kw)
        recs = [kw2 for tag, kw2 in core.drain_hooks() if tag == "decomp.loss"]
        return np.asarray(X, dtype=float), np.asarray(P, dtype=float), np.asarray(Bp, dtype=float), recs

    def run_impl(self, case):
        fallback = False
        try:
            X, P, Bp, recs = self.call(case)
        except Exception as e:  # noqa
            # the extreme tolerances of the 'tight' configuration are the harness's choice, not the library's: when the solver gives up on them,
            # judge the library's own default configuration instead
            if case["solver"] != "tight" or type(e).__name__ != "SolverError":
                raise
            case = dict(case, solver="default"); fallback = True
            X, P, Bp, recs = self.call(case)
        X2, P2, Bp2, recs2 = self.call(case)
        same = float(max(np.max(np.abs(X - X2)), np.max(np.abs(P - P2)), np.max(np.abs(Bp - Bp2)))) if (X.shape == X2.shape and P.shape == P2.shape) else float("inf")
        steps = []
        for r in recs:
            steps += [float(r["x_value"]), float(r["loss"])]
        return {"X": X.tolist(), "P": P.tolist(), "Bpred": Bp.tolist(), "steps": steps, "pvals": [float(r["p_value"]) for r in recs],
                "status": sorted(set([r["x_status"] for r in recs] + [r["p_status"] for r in recs])), "iters": len(recs), "same": same, "fallback": fallback}

    def tols(self, case, out):
        l0 = max(out["steps"]) if out["steps"] else 0.0
        # tight tolerances only when the solver itself reports full accuracy for every half-step
        if case["solver"] == "tight" and not out.get("fallback") and set(out.get("status") or ["optimal"]) <= {"optimal"}:
            return 1e-6, 1e-5, 1e-6 * (1 + l0)
        return 1e-3, 2e-2, 5e-3 * (1 + l0)

    def prep(self, case, out):
        if "_p" in case:
            return case["_p"]
        sys = C04.sysnp(case); m, n = sys["m"], sys["n"]
        Ap, bp = gs.K_apply(sys["K"], sys["A"], base_vec(sys["baseline"], m))
        Ap = np.asarray(Ap, dtype=float); bp = np.asarray(bp, dtype=float)
        X = np.array(out["X"]); P = np.array(out["P"]); L = X.shape[0]; S = P.shape[0]
        B = np.array(case["B"]); Bs = B - bp
        W = np.asarray(case["Wrows"], dtype=float) if case.get("Wrows") else np.tile(np.asarray(case["w"], dtype=float), (S, 1))
        mask = np.ones((L, n)) if case["mask"] is None else np.array(case["mask"])
        e = (W * Bs).ravel()
        lastX = case["sub"] is None
        if lastX:
            M = xstep_M(Ap, P, W); z = X.ravel()
            lo = np.where(mask.ravel() == 0, 0.0, np.tile(sys["lb"], L)); hi = np.where(mask.ravel() == 0, 0.0, np.tile(sys["ub"], L))
            G, h = l1_rows(L, n) if (case["equal"]) else (np.zeros((0, L * n)), np.zeros(0))
        else:
            M = pstep_M(Ap, X, W, S); z = P.ravel()
            lo = np.full(S * L, case["lbp"]); hi = np.full(S * L, case["ubp"])
            G, h = np.zeros((0, S * L)), np.zeros(0)
        r = M @ z - e
        loss2 = float(r @ r)
        # reference point (untrusted): an accurate optimum of the same sub-problem; the certificate is the duality bound at that point
        import cvxpy as cp
        zz = cp.Variable(len(z))
        cons = [zz >= lo, zz <= hi] + ([G @ zz <= h] if len(h) else [])
        pr = cp.Problem(cp.Minimize(cp.sum_squares(M @ zz - e)), cons)
        x0 = z; ref = None
        try:
            pr.solve(solver="CLARABEL", tol_gap_abs=1e-12, tol_gap_rel=1e-12, tol_feas=1e-12)
            if pr.status in ("optimal", "optimal_inaccurate") and zz.value is not None:
                x0 = np.clip(np.asarray(zz.value, dtype=float), lo, hi); ref = float(pr.value)
        except Exception:  # noqa
            pass
        # the conic re-solve is sometimes less accurate than the library's own result (FA-25): among the re-solve, the returned point and, for pure
        # box constraints, an active-set (BVLS) solution, the certificate is taken at the feasible point with the smallest squared error
        cands = [x0, np.clip(z, lo, hi)] if not len(h) else [x0]
        if not len(h):
            try:
                from scipy.optimize import lsq_linear as _bvls
                free = hi > lo
                zb = np.array(lo, dtype=float)
                if free.any():
                    rb = _bvls(M[:, free], e - M[:, ~free] @ lo[~free], bounds=(lo[free], hi[free]), method="bvls", tol=1e-15, max_iter=2000)
                    zb[free] = np.clip(rb.x, lo[free], hi[free])
                cands.append(zb)
            except Exception:  # noqa
                pass
        x0 = min(cands, key=lambda v: float(np.sum((M @ v - e) ** 2)))
        if ref is not None:
            ref = min(ref, float(np.sum((M @ x0 - e) ** 2)))
        g = 2 * M.T @ (M @ x0 - e)
        cert = dualcert.best_cert(g, x0, lo, hi, G, h, [])
        case["_p"] = dict(x0=x0, ref=ref, sys=sys, Ap=Ap, bp=bp, W=W, mask=mask, M=M, e=e, z=z, lo=lo, hi=hi, G=G, h=h, cert=cert, loss2=loss2, lastX=lastX, L=L, S=S, Bs=Bs)
        return case["_p"]

    def emit(self, case, out):
        if "error" in out:
            raise ValueError("raised %s: %s" % (out["error"], out.get("msg")))
        p = self.prep(case, out); sys = p["sys"]; m = sys["m"]
        tol, tobj, tloss = self.tols(case, out)
        return "(Decomp.Build_dcase %s %s %s %s %s %s %s %s %s %s %s %s %s %s %s %s %s %s %s %s %s %s)" % (
            kmat_lit(sys["K"], m), qm(sys["A"].tolist()), cnat(sys["n"]), qv(sys["lb"].tolist()), qv(sys["ub"].tolist()),
            qv(base_vec(sys["baseline"], m).tolist()), qm(case["B"]), qm(p["W"].tolist()), qm(p["mask"].tolist()), cbool(bool(case["equal"])),
            q(case["lbp"]), q(case["ubp"]), qm(out["X"]), qm(out["P"]), qm(out["Bpred"]), cbool(p["lastX"]), qv(p["x0"].tolist()), dualcert.cert_lit(*p["cert"]),
            qv(out["steps"]), q(tol), q(tobj * (1 + p["loss2"])), q(tloss))

    def spec_violation(self, case, out):
        if "error" in out:
            return {"what": "fit_decomposition raised %s: %s" % (out["error"], out.get("msg", "")[:140]), "class": "raises:%s" % out["error"]}
        p = self.prep(case, out); sys = p["sys"]; n = sys["n"]
        tol, tobj, tloss = self.tols(case, out)
        X = np.array(out["X"]); P = np.array(out["P"]); L, S = p["L"], p["S"]
        if X.shape != (L, n) or P.shape != (len(case["B"]), L) or L != case["L"]:
            return {"what": "shapes X %s, P %s for %d layers, %d sources, %d samples" % (X.shape, P.shape, case["L"], n, len(case["B"])), "class": "shape"}
        if np.any(np.abs(X[p["mask"] == 0]) > tol):
            return {"what": "masked sources are on: max |X[mask==0]| = %.3g" % np.max(np.abs(X[p["mask"] == 0])), "class": "mask"}
        if np.any(X < sys["lb"] - tol) or np.any(X > sys["ub"] + tol):
            return {"what": "intensities outside the source bounds (min %.6g, max excess %.3g)" % (X.min(), np.max(X - sys["ub"])), "class": "x-bounds"}
        if case["equal"] and L > 1 and np.max(np.abs(np.diff(X.sum(axis=1)))) > tol:
            return {"what": "layer totals differ: %s" % X.sum(axis=1).tolist(), "class": "equal-l1"}
        if np.any(P < case["lbp"] - tol) or np.any(P > case["ubp"] + tol):
            return {"what": "opacities outside [%g, %g]: min %.6g max %.6g" % (case["lbp"], case["ubp"], P.min(), P.max()), "class": "p-bounds"}
        Bp = P @ X @ p["Ap"].T + p["bp"]
        if np.max(np.abs(Bp - np.array(out["Bpred"]))) > 1e-8 * (1 + np.max(np.abs(Bp))):
            return {"what": "B_pred is not the model capture of opacities times intensities (max diff %.3g)" % np.max(np.abs(Bp - np.array(out["Bpred"]))), "class": "prediction"}
        st = out["steps"]
        for i in range(len(st) - 1):
            if st[i + 1] > st[i] + tloss:
                return {"what": "fitting error rose from %.9g to %.9g at half-step %d (%s)" % (st[i], st[i + 1], i + 1, "P" if i % 2 == 0 else "X"), "class": "ascent"}
        for lv, pv in zip(st[1::2], out["pvals"]):
            if abs(lv - pv) > tloss:
                return {"what": "loss after the P step %.9g differs from the P sub-problem value %.9g" % (lv, pv), "class": "loss-mismatch"}
        if p["lastX"] and st and np.sqrt(p["loss2"]) > st[-1] + tloss:
            return {"what": "final refit of X raised the fitting error from %.9g to %.9g" % (st[-1], np.sqrt(p["loss2"])), "class": "ascent-final"}
        if p["ref"] is not None and p["loss2"] > p["ref"] + tobj * (1 + p["loss2"]):
            return {"what": "the factor fitted last (%s) is not optimal given the other: squared error %.9g, attainable %.9g" % ("X" if p["lastX"] else "P", p["loss2"], p["ref"]),
                    "class": "not-optimal:" + ("X" if p["lastX"] else "P")}
        if not (out["same"] <= 1e-9):
            return {"what": "two runs with seed %d differ by %.3g" % (case["seed"], out["same"]), "class": "seed"}
        return None

    # (T) sample counts far beyond what the Coq VM can evaluate (the P-step decouples per sample: each row checked against a bounded least-squares reference)
    def extra_checks(self, ctx):
        from scipy.optimize import lsq_linear as bvls
        import random
        rng = random.Random(int(ctx.get("seed", 0)) + 1711)
        bad = []; n = 0
        for S, sub in ((2300, "fast"), (1100, 0.5)):
            for _ in range(20):
                sys = gs.gen_system(rng, mrange=(3, 3), nrange=(3, 4), finite_ub=True, lb_zero=True, Kkind="vector")
                Ap, bp = gs.K_apply(sys["K"], sys["A"], base_vec(sys["baseline"], 3))
                if np.all(np.asarray(Ap) >= 0) and np.all(np.asarray(bp) >= 0) and not np.any(sys["lb"]):
                    break
            Ap = np.asarray(Ap, dtype=float); bp = np.asarray(bp, dtype=float); nn = sys["n"]; L = 2
            nr = np.random.default_rng(rng.randint(0, 10 ** 6))
            Xt = nr.uniform(0.1, 1.0, (L, nn)) * sys["ub"]; Pt = nr.uniform(0, 1, (S, L))
            B = (Pt @ Xt @ Ap.T) * nr.uniform(0.9, 1.1, (S, 3)) + bp
            lbp, ubp = 0.0625, 1.0
            n += 1
            try:
                est = gs.make_estimator(sys)
                X, P, Bp = est.fit_decomposition(B, n_layers=L, lbp=lbp, ubp=ubp, max_iter=3, seed=5, subsample=sub, **TIGHT)
            except Exception as e:  # noqa
                bad.append({"class": "large:raises:%s" % type(e).__name__, "what": "fit_decomposition on %d samples raised %s" % (S, str(e)[:120]), "payload": {}, "found": True}); continue
            X = np.asarray(X, dtype=float); P = np.asarray(P, dtype=float)
            what = None
            if P.shape != (S, L) or np.any(P < lbp - 1e-6) or np.any(P > ubp + 1e-6):
                what = "opacities outside [%g, %g] (min %.4g, max %.4g) for %d samples" % (lbp, ubp, float(P.min()), float(P.max()), S)
            elif np.max(np.abs(P @ X @ Ap.T + bp - np.asarray(Bp))) > 1e-8 * (1 + np.max(np.abs(Bp))):
                what = "B_pred is not the model capture of opacities times intensities for %d samples" % S
            else:
                C = Ap @ X.T; worst = 0.0; wi = -1
                for i in range(S):
                    r = bvls(C, B[i] - bp, bounds=(lbp, ubp), method="bvls")
                    mine = float(np.sum((C @ P[i] - (B[i] - bp)) ** 2)); ref = float(2 * r.cost)
                    if mine - ref > worst:
                        worst, wi = mine - ref, i
                if worst > 1e-5 * (1 + float(np.sum((B - bp) ** 2)) / S):
                    what = "sample %d of %d: squared error of the returned opacities exceeds the bounded least-squares optimum by %.4g (the factor fitted last is not optimal)" % (wi, S, worst)
            if what:
                bad.append({"class": "large:" + ("p-bounds" if "opacities" in what else ("prediction" if "B_pred" in what else "not-optimal:P")), "what": what,
                            "payload": {"S": S, "subsample": sub, "seed": int(ctx.get("seed", 0)) + 1711}, "found": True})
        ctx["large_n"] = n; ctx["large_bad"] = len(bad)
        return bad

    def extra_obligations(self, ctx):
        return ctx.get("large_n", 0)

    def extra_failed(self, ctx):
        return ctx.get("large_bad", 0)

    def nontrivial(self, case, out):
        return case["L"] >= 2 or (case["mask"] is not None and any(0.0 in r for r in case["mask"])) or case["sub"] is not None

    def entry(self, case):
        return "ReceptorEstimator.fit_decomposition(n_layers=%s, subsample=%r)" % (case["L"] if case["Lmode"] == "given" else None, case["sub"])

    def extra_coverage(self, ctx):
        it = {}; stt = {}
        for o in ctx["outs"]:
            if "iters" in o:
                it[o["iters"]] = it.get(o["iters"], 0) + 1
                for s in o["status"]:
                    stt[s] = stt.get(s, 0) + 1
        return {"alternating_iterations_histogram": {str(k): v for k, v in sorted(it.items())}, "solver_status": stt,
                "large_sample_runs_vs_bvls_reference (T)": ctx.get("large_n", 0)}

    def describe(self, case, out):
        return {"case": core.hexf(core.pub(case)), "out": core.hexf(out)}

    def plant(self, cases, outs):
        k = next(i for i, (c, o) in enumerate(zip(cases, outs)) if "X" in o)
        self.planted_index = k
        outs[k]["Bpred"][0][0] += 1e-4 * (1 + abs(outs[k]["Bpred"][0][0]))


PROP = C11()
