#!/bin/sh
# usage: thorough.sh ids...   (run inside a vp snapshot)
export DREYE_REPO="$VP_RUN_REPO" VERIF_NO_EVIDENCE=1
(cd coq && coq_makefile -f _CoqProject -o Makefile >/dev/null && timeout 3000 make -j8 >/dev/null 2>&1; echo build rc=$?)
for id in "$@"; do
  s=$(date +%s); ./check $id --tier thorough 2>&1 | grep -v "^KNOWN-FINDING" | tail -4 | cut -c1-300; echo "== $id took $(( $(date +%s) - s )) s"
done
