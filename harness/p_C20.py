"""C20 — irradiance <-> photon flux.  Model: coq/Model/Units.v."""
from fractions import Fraction
import numpy as np
from core import Prop, q, qv, qm, cbool, F, dyad, hexf

H = Fraction(662607015, 10**42)
C = Fraction(299792458)
NA = Fraction(602214076) * 10**15
NM = Fraction(1, 10**9)
PRE = {"": ("PNone", 1), "milli": ("PMilli", 10**3), "micro": ("PMicro", 10**6), "nano": ("PNano", 10**9)}


class C20(Prop):
    id = "C20"
    coq_imports = "From DV Require Import Model.Units."
    case_type = "Units.case"
    verdict = "Units.verdict"
    shard = 250
    rule = ("cases from one PRNG: direction (irr2flux/flux2irr) x prefix x shape (scalar, 1-D, 2-D, 3-D with the "
            "wavelength on any axis via axis=) x wavelength kind (array / scalar) x with/without pint units "
            "(incl. non-base units mW, um); values dyadic or arbitrary doubles, wavelengths 100-2000 nm. "
            "non-trivial = more than one element and a non-empty prefix or a unit-carrying input or an axis argument")
    assumptions = ["pint's unit algebra is outside the model; magnitudes and the unit string are compared",
                   "N-D arrays are flattened by the harness to rows along the wavelength axis (numpy moveaxis/reshape)"]
    modelled = "dreye/api/units/convert.py: irr2flux, flux2irr (numerics); pint registry constants pinned by comparison"

    def sizes(self, tier):
        return 300 if tier == "quick" else 6000

    def gen(self, rng, n, tier):
        cases = []
        for i in range(n):
            flux = rng.random() < 0.5
            prefix = rng.choice(list(PRE))
            shape_kind = rng.choice(["scalar", "1d", "2d", "3d", "2d-axis", "3d-axis"])
            nl = rng.randint(1, 7)
            arb = rng.random() < 0.3
            ints = (not arb) and rng.random() < 0.2      # whole-number spectra (photon counts, 8/16-bit images) handed over with an integer dtype
            neg = (not ints) and rng.random() < 0.2      # difference spectra / dark-corrected readings: negative samples are data like any other
            def val():
                if ints:
                    return float(rng.randint(0, 255))
                v_ = rng.uniform(0.001, 50.0) if arb else dyad(rng, 0, 64, 16)
                return -v_ if (neg and rng.random() < 0.4) else v_
            def wl():
                return rng.uniform(100.0, 2000.0) if arb else float(rng.randint(100 * 4, 2000 * 4)) / 4
            units = rng.choice(["none", "none", "base", "scaled"])
            axis = None
            if shape_kind == "scalar":
                arr = val(); lam = wl()
            elif shape_kind == "1d":
                arr = [val() for _ in range(nl)]
                lam = [wl() for _ in range(nl)] if rng.random() < 0.8 else wl()
            else:
                nd = 2 if shape_kind.startswith("2d") else 3
                shp = [rng.randint(1, 3) for _ in range(nd)]
                if shape_kind.endswith("axis"):
                    axis = rng.randrange(nd)
                    if rng.random() < 0.3:
                        axis -= nd
                    shp[axis] = nl
                else:
                    shp[-1] = nl
                arr = np.array([val() for _ in range(int(np.prod(shp)))]).reshape(shp).tolist()
                lam = [wl() for _ in range(nl)] if (axis is not None or rng.random() < 0.8) else wl()
            # whole-number wavelengths handed over with an integer dtype (np.arange(300, 701, 5)); a wavelength buffer that held another grid in an earlier call
            ilam = (not arb) and rng.random() < 0.25
            if ilam:
                lam = [float(int(v)) for v in lam] if isinstance(lam, list) else float(int(lam))
            reuse = isinstance(lam, list) and rng.random() < 0.3
            cases.append({"flux": flux, "prefix": prefix, "arr": arr, "lam": lam, "axis": axis, "ilam": ilam, "reuse": reuse,
                          "units": units, "ints": ints, "kind": "%s/%s/%s%s%s" % (shape_kind, units, "arb" if arb else ("int" if ints else "dyadic"), "/ilam" if ilam else "", "/reuse" if reuse else "")})
        return cases

    def run_impl(self, case):
        import dreye
        ureg = dreye.ureg
        arr = np.asarray(case["arr"], dtype=float)
        if case.get("ints"):
            arr = arr.astype(np.int64)
        lam = np.asarray(case["lam"], dtype=float) if isinstance(case["lam"], list) else float(case["lam"])
        if case.get("ilam"):
            lam = lam.astype(np.int64) if isinstance(lam, np.ndarray) else int(lam)
        fn = dreye.flux2irr if case["flux"] else dreye.irr2flux
        if case.get("reuse"):
            # the caller's wavelength buffer was used for another grid before (recalibration in place): only its present content counts
            buf = (lam * 2 + 7).copy()
            try:
                fn(arr, buf, prefix=(case["prefix"] or None), **({} if case["axis"] is None else {"axis": case["axis"]}))
            except Exception:  # noqa
                pass
            buf[:] = lam
            lam = buf
        a_in, l_in = arr, lam
        base_in = "E" if case["flux"] else "I"
        top = case["units"] != "none" and (len(str(case["arr"])) + int(bool(case["flux"]))) % 3 == 0
        if top:
            # quantities built with pint's top-level classes (what unpickling and third-party code produce): same registry, same numbers
            import pint as _pint
            if case["units"] == "base":
                a_in = _pint.Quantity(arr, base_in); l_in = _pint.Quantity(lam, "nm")
            else:
                a_in = _pint.Quantity(arr * 1000.0, "m" + base_in); l_in = (lam / 1000.0) * _pint.Unit("um")
        elif case["units"] == "base":
            a_in = arr * ureg(base_in); l_in = lam * ureg("nm")
        elif case["units"] == "scaled":
            # same physical quantity expressed in milli-units / micrometres
            a_in = (arr * 1000.0) * ureg("m" + base_in); l_in = (lam / 1000.0) * ureg("um")
        kw = {"prefix": case["prefix"] or None}
        if case["axis"] is not None:
            kw["axis"] = case["axis"]
        import core as _core
        for v_ in (a_in, l_in):
            _core.watch(getattr(v_, "magnitude", v_))
        r = fn(a_in, l_in, **kw)
        unit = None
        if hasattr(r, "magnitude"):
            unit = str(r.units)
            r = r.magnitude
        return {"value": np.asarray(r, dtype=float).tolist(), "unit": unit}

    # rows along the wavelength axis
    def _rows(self, case, arr):
        a = np.asarray(arr, dtype=float)
        if a.ndim == 0:
            return a.reshape(1, 1)
        ax = case["axis"] if case["axis"] is not None else -1
        a = np.moveaxis(a, ax, -1)
        return a.reshape(-1, a.shape[-1])

    def _inputs(self, case):
        rows = self._rows(case, case["arr"])
        lam = case["lam"] if isinstance(case["lam"], list) else [case["lam"]]
        if case["units"] == "scaled":
            # the harness handed (arr*1000) mI and (lam/1000) um to dreye; the physical
            # quantity in base units is what float arithmetic produced:
            rows = (rows * 1000.0)
            lam = [l / 1000.0 for l in lam]
        return rows, lam

    def emit(self, case, out):
        if "error" in out:
            raise ValueError("implementation raised %s: %s" % (out["error"], out.get("msg")))
        rows, lam = self._inputs(case)
        if case["units"] == "scaled":
            rows_q = [[Fraction(x) / 1000 for x in r] for r in rows.tolist()]
            lam_q = [Fraction(l) * 1000 for l in lam]
        else:
            rows_q = [[Fraction(x) for x in r] for r in rows.tolist()]
            lam_q = [Fraction(l) for l in lam]
        if np.asarray(case["arr"]).ndim == 0:
            impl = np.asarray(out["value"], dtype=float).reshape(1, 1)
        else:
            impl = self._rows(case, out["value"])
        return "(Units.Build_case %s Units.%s %s %s %s)" % (
            cbool(case["flux"]), PRE[case["prefix"]][0], qm(rows_q), qv(lam_q), qm(impl.tolist()))

    def spec_violation(self, case, out):
        if "error" in out:
            return {"what": "conversion raised %s: %s" % (out["error"], out.get("msg")), "class": "raises:" + out["error"]}
        rows, lam = self._inputs(case)
        sc = PRE[case["prefix"]][1]
        impl = self._rows(case, out["value"]) if np.asarray(case["arr"]).ndim else np.asarray(out["value"]).reshape(1, 1)
        if impl.shape != rows.shape:
            return {"what": "shape of result %s differs from input %s" % (impl.shape, rows.shape), "class": "shape"}
        k = Fraction(1000) if case["units"] == "scaled" else Fraction(1)
        for r in range(rows.shape[0]):
            for j in range(rows.shape[1]):
                I = Fraction(float(rows[r, j])) / k
                l = Fraction(float(lam[j] if len(lam) > 1 else lam[0])) * k
                want = I * (H * C * NA) / (l * NM) * sc if case["flux"] else I * l * NM / (H * C * NA) * sc
                got = Fraction(float(impl[r, j]))
                if abs(got - want) > Fraction(1, 10**11) * abs(want):
                    return {"what": "%s element (%d,%d): got %r, physical law gives %r" % (
                        "flux2irr" if case["flux"] else "irr2flux", r, j, float(got), float(want)),
                        "class": "value", "required": float(want), "observed": float(got)}
        if case["units"] != "none":
            want_unit = ("%sspectral_irradiance" if case["flux"] else "%sspectral_E_Q") % case["prefix"]
            if out["unit"] != want_unit:
                return {"what": "unit %r, expected %r" % (out["unit"], want_unit), "class": "unit"}
        elif out["unit"] is not None:
            return {"what": "plain input returned a Quantity", "class": "unit"}
        return None

    def nontrivial(self, case, out):
        return np.asarray(case["arr"]).size > 1 and (case["prefix"] != "" or case["units"] != "none" or case["axis"] is not None)

    def entry(self, case):
        return "dreye.flux2irr" if case["flux"] else "dreye.irr2flux"

    def plant(self, cases, outs):
        v = np.asarray(outs[7]["value"], dtype=float)
        outs[7]["value"] = (v * (1 + 1e-9)).tolist()


PROP = C20()
