"""C09 — variance minimisation keeps the fit quality and minimises capture variance.  Model: coq/Model/Fits.v."""
from fractions import Fraction as Fr
import numpy as np
import core
from core import Prop, q, qv, qm, cnat, coption
from p_C04 import kmat_lit, base_vec, C04, HI, exact_model, fobj
import gen_sys as gs
import dualcert
import exactqp as xq


def make_est_unc(sys, w, sigma):
    """estimator with delta-like filters (as gen_sys.make_estimator) and a filter uncertainty (std) array"""
    import dreye
    m, n = sys["m"], sys["n"]
    filters = np.zeros((m, m + 2)); unc = np.zeros((m, m + 2))
    for j in range(m):
        filters[j, j + 1] = 1.0; unc[j, j + 1] = sigma[j]
    sources = np.zeros((n, m + 2)); sources[:, 1:m + 1] = sys["A"].T
    est = dreye.ReceptorEstimator(filters, domain=1.0, w=w, filters_uncertainty=unc,
                                  K=(1.0 if sys["K"] is None else sys["K"]), baseline=sys["baseline"])
    est.register_system(sources, lb=sys["lb"], ub=sys["ub"])
    return est


class C09(Prop):
    id = "C09"
    coq_imports = "From DV Require Import Model.Linear Cert.Duality Cert.Qp Model.Fits."
    case_type = "Fits.gcase"
    verdict = "Fits.gverdict"
    shard = 20
    rule = ("well-scaled systems (2-4 receptors; under- and exactly-determined), lb >= 0, finite ub, K none/scalar/vector/matrix, baseline; in- and out-of-gamut targets; "
            "variance model: default heteroscedastic (squared transformed capture matrix) / explicit Epsilon / derived from a registered filter uncertainty; with and without an "
            "L1 request; l2_eps in {1e-4, 1e-3, 1e-2}; tight CLARABEL settings. non-trivial = out-of-gamut target, an L1 request, or a non-default variance model")
    assumptions = ["solver opaque: result judged by a weak-duality certificate against the SPEC problem whose error budget is (exact best error + l2_eps); the exact best error comes "
                   "from the exact-rational active-set solver of the harness (untrusted: a wrong value can only make the verdict fail or the bound weaker)",
                   "feasibility slack 1e-4 capture units (solver accuracy of the implementation's own first stage), objective optimality 1e-4 relative"]
    modelled = "lsq_linear.py: lsq_linear_minimize (second stage: diagonal objective sum(Epsilon x^2), fit-quality cone with budget norm + l2_eps, optional L1 window), utils.propagate_error, default Epsilon of register_system"

    def sizes(self, tier):
        return 110 if tier == "quick" else 1800

    def gen(self, rng, n, tier):
        cases = []
        while len(cases) < n:
            m = rng.randint(2, 4); extra = rng.randint(0, 3)
            sys = gs.gen_system(rng, mrange=(m, m), nrange=(m + extra, m + extra), finite_ub=True)
            nn = sys["n"]
            got = gs.gen_target_regime(rng, sys, rng.choice(["inside", "inside", "outside", "face", "far"]))
            if got is None:
                continue
            kind, b, xt = got
            ek = rng.choice(["default", "default", "explicit", "uncertainty"])
            Eps = None; sigma = None
            if ek == "explicit":
                Eps = [[rng.randint(1, 16) / 8 for _ in range(nn)] for _ in range(m)]
            elif ek == "uncertainty":
                sigma = [rng.randint(1, 8) / 8 for _ in range(m)]
            l1 = None
            if rng.random() < 0.3 and xt is not None:
                l1 = float(np.sum(xt))
            extra = []
            if rng.random() < 0.35:
                # other in-gamut targets fitted in the same call (our target first), with their own L1 requests, batched
                for _ in range(rng.choice([1, 2, 2, 4, 6])):
                    g2 = gs.gen_target_regime(rng, sys, "inside")
                    if g2 is not None:
                        extra.append({"b": np.asarray(g2[1]).tolist(), "l1": float(np.sum(g2[2]))})
            cases.append({"extra": extra, "batch": (rng.choice([1, 2, 3, 4, "full", len(extra) + 2]) if extra else 1), "row": (rng.randint(0, len(extra)) if extra else 0),
                          "sys": {k: (v.tolist() if isinstance(v, np.ndarray) else v) for k, v in sys.items()}, "b": np.asarray(b).tolist(),
                          "w": [1.0] * m if rng.random() < 0.5 else [rng.randint(2, 8) / 4 for _ in range(m)],
                          "ek": ek, "Eps": Eps, "sigma": sigma, "l1": l1, "l1_eps": 1e-2, "l2_eps": rng.choice([1e-4, 1e-3, 1e-2]), "tk": kind,
                          "kind": "%s/%s/%s/%s%s" % (kind, ek, "l1" if l1 else "nol1", "under" if sys["n"] > sys["m"] else "det", "/multi" if extra else "")})
        return cases

    def run_impl(self, case):
        sys = C04.sysnp(case); w = np.array(case["w"])
        if case["ek"] == "uncertainty":
            est = make_est_unc(sys, w, case["sigma"])
        else:
            est = gs.make_estimator(sys, w=w)
        kw = dict(HI)
        Bin = np.asarray(case["b"])[None]
        extra = case.get("extra") or []
        row = case.get("row", 0)
        if extra:
            rows_ = [np.asarray(e["b"])[None] for e in extra]; rows_.insert(row, Bin)      # the judged target sits at a random position of the call
            Bin = np.vstack(rows_)
            kw["batch_size"] = case["batch"]
        if case["l1"] is not None:
            l1s = [e["l1"] for e in extra]; l1s.insert(row, case["l1"])
            kw.update(L1=(np.array(l1s) if extra else case["l1"]), l1_eps=case["l1_eps"])
        core.watch(Bin)
        Eps = None if case["Eps"] is None else core.watch(np.array(case["Eps"]))
        # warm-up with another tolerance on the same object: must leave no trace (also exercises "asked twice")
        gs.warm(lambda: est.minimize_variance(Bin, Epsilon=Eps, l2_eps=(1e-2 if case["l2_eps"] < 1e-3 else 1e-5), **kw))
        fallback = False
        try:
            X, Bp, Bv = est.minimize_variance(Bin, Epsilon=Eps, l2_eps=case["l2_eps"], **kw)
        except Exception as e:  # noqa
            if type(e).__name__ != "SolverError":
                raise
            # the harness's extreme solver tolerances (1e-10) made CLARABEL give up on the stacked problem: that is the harness's doing,
            # the library's own default configuration is judged instead (FA-23)
            kw = {k: v for k, v in kw.items() if k not in HI}
            X, Bp, Bv = est.minimize_variance(Bin, Epsilon=Eps, l2_eps=case["l2_eps"], **kw); fallback = True
        Xo, Bo = est.fit(np.asarray(case["b"])[None], **HI)
        return {"X": np.asarray(X, dtype=float)[row].tolist(), "Bpred": np.asarray(Bp, dtype=float)[row].tolist(), "Bvar": np.asarray(Bv, dtype=float)[row].tolist(),
                "X_ordinary": np.asarray(Xo, dtype=float)[0].tolist(), "fallback": fallback,
                "Eps_attr": (None if isinstance(est.Epsilon, str) else np.asarray(est.Epsilon, dtype=float).tolist())}

    def eps_input(self, case, sys):
        """the variance matrix handed to the model (before propagation through K): None = default"""
        if case["ek"] == "explicit":
            return np.array(case["Eps"])
        if case["ek"] == "uncertainty":
            # variance capture of source k by filter j: integral of sigma_j^2 * source_k^2 (delta filters, unit step)
            sig2 = np.array(case["sigma"]) ** 2
            return sig2[:, None] * (np.asarray(sys["A"]) ** 2)
        return None

    def prep(self, case, out):
        if "_p" in case:
            return case["_p"]
        sys = C04.sysnp(case); m, n = sys["m"], sys["n"]
        Ap, bp, M0, e0 = exact_model(sys, case["w"], case["b"])
        lb = [float(l) for l in sys["lb"]]; ub = [float(u) for u in sys["ub"]]
        xb, exact = xq.box_ls(M0, e0, lb, ub, out.get("X_ordinary", [0.0] * n))
        best = xq.sqrt_ceil(fobj(M0, e0, xb)) if exact else Fr(0)
        rho = best + Fr(case["l2_eps"])
        Apn = np.array([[float(v) for v in r] for r in Ap]); bpn = np.array([float(v) for v in bp])
        w = np.asarray(case["w"])
        M = Apn * w[:, None]; e = (np.asarray(case["b"]) - bpn) * w
        E_in = self.eps_input(case, sys)
        if E_in is None:
            E = Apn ** 2
        else:
            K = sys["K"]
            if K is None:
                E = E_in
            else:
                Kn = np.atleast_1d(np.asarray(K, dtype=float)) ** 2
                E = E_in * Kn[:, None] if Kn.ndim < 2 else Kn @ E_in
        d = E.sum(axis=0)
        x = np.asarray(out["X"], dtype=float)
        G = np.zeros((0, n)); h = np.zeros(0)
        if case["l1"] is not None:
            G = np.vstack([np.ones(n), -np.ones(n)]); h = np.array([case["l1"] + case["l1_eps"], -(case["l1"] - case["l1_eps"])])
        # reference point (untrusted): an accurate optimum of the same programme; the duality bound is evaluated there
        import cvxpy as cp
        x0 = x; ref = None
        try:
            z = cp.Variable(n)
            cons = [z >= sys["lb"], z <= sys["ub"], cp.norm2(M @ z - e) <= float(rho)]
            if case["l1"] is not None:
                cons += [cp.sum(z) <= case["l1"] + case["l1_eps"], cp.sum(z) >= case["l1"] - case["l1_eps"]]
            pr = cp.Problem(cp.Minimize(d @ cp.square(z)), cons)
            pr.solve(solver="CLARABEL", tol_gap_abs=1e-11, tol_gap_rel=1e-11, tol_feas=1e-11)
            if pr.status in ("optimal", "optimal_inaccurate") and z.value is not None:
                x0 = np.clip(np.asarray(z.value, dtype=float), sys["lb"], sys["ub"]); ref = float(pr.value)
        except Exception:  # noqa
            pass
        lam, ys, ss = dualcert.best_cert(2 * d * x0, x0, sys["lb"], sys["ub"], G, h, [(M, e, float(rho))])
        obj = float(d @ (x * x))
        # optimality tolerance: 1e-4 relative, plus the sensitivity of the optimum to the fit-quality budget (its multiplier s) times the
        # slack 1e-4 that the verdict itself grants on that constraint (thin feasible slivers around far targets have multipliers of several hundred)
        tol_obj = 1e-4 * max(1.0, obj) + 2e-4 * (float(ss[0]) if ss else 0.0)
        case["_p"] = dict(tol_obj=tol_obj, x0=x0, ref=ref, sys=sys, M=M, e=e, rho=rho, best=float(best), E=E, d=d, E_in=E_in, cert=(lam, ys, ss), obj=obj, G=G, h=h, exact=exact, Apn=Apn, bpn=bpn)
        return case["_p"]

    def emit(self, case, out):
        if "error" in out:
            raise ValueError("raised %s: %s" % (out["error"], out.get("msg")))
        p = self.prep(case, out); sys = p["sys"]; m = sys["m"]
        l1 = "None" if case["l1"] is None else "(Some (%s, %s))" % (q(case["l1"]), q(case["l1_eps"]))
        Eps = "None" if p["E_in"] is None else "(Some %s)" % qm(p["E_in"].tolist())
        return "(Fits.GV (Fits.Build_vcase %s %s %s %s %s %s %s %s %s %s %s %s %s %s %s %s %s %s))" % (
            kmat_lit(sys["K"], m), qm(sys["A"].tolist()), cnat(sys["n"]), qv(sys["lb"].tolist()), qv(sys["ub"].tolist()),
            qv(base_vec(sys["baseline"], m).tolist()), qv(case["w"]), qv(case["b"]), Eps, q(p["rho"]), l1,
            qv(out["X"]), qv(p["x0"].tolist()), qv(out["Bpred"]), qv(out["Bvar"]), dualcert.cert_lit(*p["cert"]), q(p["tol_obj"]), q(1e-4))

    def spec_violation(self, case, out):
        if "error" in out:
            return {"what": "minimize_variance raised %s: %s" % (out["error"], out.get("msg", "")[:140]), "class": "raises:%s:%s" % (out["error"], case["ek"])}
        import cvxpy as cp
        p = self.prep(case, out); sys = p["sys"]; n = sys["n"]
        x = np.asarray(out["X"])
        if np.any(x < sys["lb"] - 1e-4) or np.any(x > sys["ub"] + 1e-4):
            return {"what": "intensities outside the bounds: %s" % x.tolist(), "class": "bounds"}
        err = np.linalg.norm(p["M"] @ x - p["e"])
        if err > p["best"] + case["l2_eps"] + 2e-3:
            return {"what": "capture error %.6g exceeds the best achievable error %.6g by more than l2_eps=%g" % (err, p["best"], case["l2_eps"]), "class": "error-budget"}
        if case["l1"] is not None and abs(x.sum() - case["l1"]) > case["l1_eps"] + 1e-4:
            return {"what": "total intensity %.6g, requested %g +- %g" % (x.sum(), case["l1"], case["l1_eps"]), "class": "l1-window"}
        if np.max(np.abs(p["E"] @ (x * x) - np.asarray(out["Bvar"]))) > 1e-8 * (1 + np.max(np.abs(out["Bvar"]))):
            return {"what": "reported capture variance is not the variance model (%s) applied to the returned intensities" % case["ek"], "class": "bvar:" + case["ek"]}
        if np.max(np.abs(p["Apn"] @ x + p["bpn"] - np.asarray(out["Bpred"]))) > 1e-8:
            return {"what": "B_pred is not the model capture of the returned intensities", "class": "prediction"}
        if p["ref"] is not None and p["obj"] > p["ref"] + p["tol_obj"] + 1e-6:
            return {"what": "summed capture variance %.9g but %s (in bounds, within the error budget) achieves %.9g" % (p["obj"], p["x0"].round(6).tolist(), p["ref"]),
                    "class": "variance-not-minimal:" + case["ek"]}
        xo = np.asarray(out["X_ordinary"])
        if case["l1"] is None and p["obj"] > float(p["d"] @ (xo * xo)) * (1 + 1e-4) + 1e-6:
            return {"what": "variance after minimisation (%.9g) is larger than that of the ordinary fit (%.9g)" % (p["obj"], float(p["d"] @ (xo * xo))), "class": "worse-than-ordinary"}
        return None

    def nontrivial(self, case, out):
        return case["tk"] in ("outside", "far") or case["l1"] is not None or case["ek"] != "default"

    def entry(self, case):
        return "ReceptorEstimator.minimize_variance(Epsilon=%s, L1=%r, l2_eps=%g)" % (case["ek"], case["l1"], case["l2_eps"])

    def describe(self, case, out):
        return {"case": core.hexf(core.pub(case)), "out": core.hexf(out)}

    def plant(self, cases, outs):
        k = next(i for i, (c, o) in enumerate(zip(cases, outs)) if "Bvar" in o)
        self.planted_index = k
        outs[k]["Bvar"][0] = outs[k]["Bvar"][0] * (1 + 1e-6) + 1e-7


PROP = C09()
