"""C08 — underdetermined fits reproduce the target and optimise the secondary goal.  Model: coq/Model/Fits.v."""
from fractions import Fraction as Fr
import numpy as np
import core
from core import Prop, q, qv, qm, cnat
from p_C04 import kmat_lit, base_vec, C04, HI
import gen_sys as gs
import dualcert


def uopt_lit(o):
    if isinstance(o, str):
        return {"l2": "Fits.Ol2", "min": "Fits.Omin", "max": "Fits.Omax", "var": "Fits.Ovar"}[o]
    if isinstance(o, list):
        return "(Fits.Ovec %s)" % qv(o)
    return "(Fits.Onum %s)" % q(o)


def objective(o, x):
    x = np.asarray(x, dtype=float)
    if o == "l2":
        return float(x @ x)
    if o == "min":
        return float(x.sum())
    if o == "max":
        return float(-x.sum())
    if o == "var":
        return float(((x - x.mean()) ** 2).sum())
    if isinstance(o, list):
        return float(((x - np.asarray(o)) ** 2).sum())
    return float((x.sum() - o) ** 2)


def gradient(o, x):
    x = np.asarray(x, dtype=float)
    if o == "l2":
        return 2 * x
    if o == "min":
        return np.ones(len(x))
    if o == "max":
        return -np.ones(len(x))
    if o == "var":
        return 2 * (x - x.mean())
    if isinstance(o, list):
        return 2 * (x - np.asarray(o))
    return 2 * (x.sum() - o) * np.ones(len(x))


class C08(Prop):
    id = "C08"
    coq_imports = "From DV Require Import Model.Linear Cert.Duality Cert.Qp Model.Fits."
    case_type = "Fits.gcase"
    verdict = "Fits.gverdict"
    shard = 20
    rule = ("underdetermined well-scaled systems (2-4 receptors, 1-3 surplus sources), lb >= 0, finite ub, K none/scalar/vector/matrix, baseline; in-gamut targets "
            "(images of interior intensities); every option 'l2' | 'min' | 'max' | 'var' | number | vector; l2_eps in {1e-6, 1e-5, 1e-4, 1e-3}; per-receptor weights; "
            "tight CLARABEL settings through **opt_kwargs. non-trivial = an option other than 'l2' or a bound active at the optimum")
    assumptions = ["the conic solver is opaque: the result is judged by a weak-duality certificate (multipliers from a HiGHS LP over the dual, untrusted)",
                   "objective optimality asserted to 1e-4 of the objective's range over the solution polytope (at least 1e-6); reproduction to l2_eps*(1+1e-3)+1e-7"]
    modelled = "lsq_linear.py: lsq_linear_underdetermined (fit-quality cone, bounds), _get_underdetermined_objective (six options); estimator.fit_underdetermined dispatch"

    def sizes(self, tier):
        return 120 if tier == "quick" else 2000

    def gen(self, rng, n, tier):
        cases = []
        while len(cases) < n:
            m = rng.randint(2, 4); surplus = rng.randint(1, 3)
            sys = gs.gen_system(rng, mrange=(m, m), nrange=(m + surplus, m + surplus), finite_ub=True)
            if sys["Kkind"] == "matrix" and rng.random() < 0.5:
                # opponent channels: transformed captures may DEcrease with intensity (in-gamut targets below the dark level in some channel)
                K2 = np.eye(m)
                for i in range(m):
                    if rng.random() < 0.7:
                        K2[i, rng.choice([j for j in range(m) if j != i])] = -rng.choice([0.5, 0.75, 1.0])
                if gs.well_scaled(sys["A"], sys["lb"], sys["ub"], K2, sys["baseline"]):
                    sys = dict(sys, K=K2)
            nn = sys["n"]; lb, ub = sys["lb"], sys["ub"]
            held = False
            if surplus >= 2 and rng.random() < 0.35:
                # a background light held at a fixed non-zero level (lb == ub there); still a member of every total / variance
                j = rng.randrange(nn); lbh = np.array(lb, dtype=float); ubh = np.array(ub, dtype=float)
                lbh[j] = ubh[j] = float(np.round(ubh[j] * rng.choice([0.25, 0.5]) * 16) / 16) or 0.25
                if gs.well_scaled(sys["A"], lbh, np.where(ubh > lbh, ubh, lbh + 1e-9), sys["K"], sys["baseline"]):
                    sys = dict(sys, lb=lbh, ub=ubh); lb, ub = lbh, ubh; held = True
            x = np.array([lb[i] + (ub[i] - lb[i]) * rng.randint(2, 14) / 16 for i in range(nn)])
            b = gs.rel_capture(sys, x)
            opt = rng.choice(["l2", "min", "max", "var", "num", "vec"] + (["num", "var", "num", "var"] if held else []))
            if opt == "num":
                # requested totals: attainable (the total of an interior solution) or beyond the attainable range
                opt = float(np.round(x.sum() * (1.0 if held else rng.choice([0.5, 1.0, 1.0, 1.5])) * 8) / 8)
            elif opt == "vec":
                # requested intensities: inside the bounds, or partly beyond them (the closest feasible point is still well defined)
                opt = [float(lb[i] + (ub[i] - lb[i]) * rng.randint(-8, 24) / 16) for i in range(nn)] if rng.random() < 0.5 else \
                      [float(lb[i] + (ub[i] - lb[i]) * rng.randint(0, 16) / 16) for i in range(nn)]
            w = [1.0] * m if rng.random() < 0.5 else [rng.randint(2, 8) / 4 for _ in range(m)]
            # intensities in units 2^30 times larger (sources calibrated per Watt instead of per nW): exact rescaling, asked of the linear goals only
            # (the quadratic goals are below the solver's absolute accuracy in such units even on the unchanged tree: observation O-1 in DESIGN)
            usc = -30 if (opt in ("min", "max") and not held and rng.random() < 0.4) else 0
            # the judged target is the last of a fine ramp of targets fitted in one call (4 ppm steps)
            ramp = rng.choice([0, 0, 0, 6, 12]) if usc == 0 else 0
            cases.append({"sys": {k: (v.tolist() if isinstance(v, np.ndarray) else v) for k, v in sys.items()}, "b": b.tolist(), "w": w,
                          "opt": opt, "l2_eps": rng.choice([1e-6, 1e-5, 1e-4, 1e-3]), "usc": usc, "ramp": ramp,
                          "kind": "%s/surplus%d/K-%s%s%s" % (opt if isinstance(opt, str) else ("vec" if isinstance(opt, list) else "num"), surplus, sys["Kkind"],
                                                            "/held" if held else "", "/unit2^%d" % usc if usc else "")})
        return cases

    def run_impl(self, case):
        sys = C04.sysnp(case)
        u = 2.0 ** case.get("usc", 0)
        if u != 1.0:
            sys = dict(sys, A=sys["A"] / u, lb=sys["lb"] * u, ub=sys["ub"] * u)
        est = gs.make_estimator(sys, w=np.array(case["w"]))
        opt = case["opt"]
        optin = np.array(opt) if isinstance(opt, list) else opt
        # warm-ups: the same system with another tolerance, and a sibling system (other baseline), must leave no trace in the call that is judged
        Bw = np.asarray(case["b"], dtype=float)[None]
        nr = int(case.get("ramp") or 0)
        if nr:
            Bw = np.vstack([Bw * (1 - 4e-6 * k) for k in range(nr, -1, -1)])
        core.watch(Bw)
        gs.warm(lambda: est.fit_underdetermined(Bw, underdetermined_opt=optin, l2_eps=(1e-2 if case["l2_eps"] < 1e-3 else 1e-6), **HI))
        gs.warm(lambda: gs.make_estimator(gs.sibling(sys), w=np.array(case["w"])).fit_underdetermined(Bw + 0.75, underdetermined_opt=optin, l2_eps=case["l2_eps"], **HI))
        X, Bp = est.fit_underdetermined(Bw, underdetermined_opt=optin, l2_eps=case["l2_eps"], **HI)
        return {"X": (np.asarray(X, dtype=float)[-1] / u).tolist(), "Bpred": np.asarray(Bp, dtype=float)[-1].tolist()}

    def prep(self, case, out):
        if "_p" in case:
            return case["_p"]
        sys = C04.sysnp(case); m = sys["m"]
        Ap, bp = gs.K_apply(sys["K"], sys["A"], base_vec(sys["baseline"], m))
        w = np.asarray(case["w"])
        M = np.asarray(Ap) * w[:, None]; e = (np.asarray(case["b"]) - np.asarray(bp)) * w
        x = np.asarray(out["X"], dtype=float)
        # reference point (untrusted): an accurate optimum of the same programme; the duality bound is evaluated there
        # (the gap at the returned point itself is first order in the solver error, the true excess second order)
        import cvxpy as cp
        x0 = x; ref = None
        try:
            z = cp.Variable(sys["n"]); o = case["opt"]
            obj = {"l2": cp.sum_squares(z), "min": cp.sum(z), "max": -cp.sum(z), "var": cp.sum_squares(z - cp.sum(z) / sys["n"])}.get(o if isinstance(o, str) else "", None)
            if obj is None:
                obj = cp.sum_squares(z - np.asarray(o)) if isinstance(o, list) else cp.square(cp.sum(z) - o)
            pr = cp.Problem(cp.Minimize(obj), [z >= sys["lb"], z <= sys["ub"], cp.norm2(M @ z - e) <= case["l2_eps"]])
            pr.solve(solver="CLARABEL", tol_gap_abs=1e-11, tol_gap_rel=1e-11, tol_feas=1e-11)
            if pr.status in ("optimal", "optimal_inaccurate") and z.value is not None:
                x0 = np.clip(np.asarray(z.value, dtype=float), sys["lb"], sys["ub"]); ref = float(pr.value)
        except Exception:  # noqa
            pass
        g = gradient(case["opt"], x0)
        lam, ys, ss = dualcert.best_cert(g, x0, sys["lb"], sys["ub"], np.zeros((0, sys["n"])), np.zeros(0), [(M, e, case["l2_eps"])])
        # range of the objective over the (equality) solution polytope for the tolerance
        from scipy.optimize import linprog
        rng_obj = 1.0
        try:
            lo = linprog(np.ones(sys["n"]), A_eq=Ap, b_eq=np.asarray(case["b"]) - bp, bounds=list(zip(sys["lb"], sys["ub"])), method="highs")
            hi = linprog(-np.ones(sys["n"]), A_eq=Ap, b_eq=np.asarray(case["b"]) - bp, bounds=list(zip(sys["lb"], sys["ub"])), method="highs")
            if lo.status == 0 and hi.status == 0:
                rng_obj = max(1.0, abs(objective(case["opt"], hi.x) - objective(case["opt"], lo.x)))
        except Exception:
            pass
        case["_p"] = dict(x0=x0, ref=ref, sys=sys, M=M, e=e, cert=(lam, ys, ss), tol_obj=max(1e-6, 1e-4 * rng_obj), Ap=np.asarray(Ap), bp=np.asarray(bp))
        return case["_p"]

    def emit(self, case, out):
        if "error" in out:
            raise ValueError("raised %s: %s" % (out["error"], out.get("msg")))
        p = self.prep(case, out); sys = p["sys"]; m = sys["m"]
        tolf = case["l2_eps"] * 1e-3 + 1e-7
        return "(Fits.GU (Fits.Build_ucase %s %s %s %s %s %s %s %s %s %s %s %s %s %s %s %s))" % (
            kmat_lit(sys["K"], m), qm(sys["A"].tolist()), cnat(sys["n"]), qv(sys["lb"].tolist()), qv(sys["ub"].tolist()),
            qv(base_vec(sys["baseline"], m).tolist()), qv(case["w"]), qv(case["b"]), q(case["l2_eps"]), uopt_lit(case["opt"]),
            qv(out["X"]), qv(p["x0"].tolist()), qv(out["Bpred"]), dualcert.cert_lit(*p["cert"]), q(p["tol_obj"]), q(tolf))

    def spec_violation(self, case, out):
        if "error" in out:
            return {"what": "fit_underdetermined(%r) raised %s: %s" % (case["opt"], out["error"], out.get("msg", "")[:140]), "class": "raises:%s" % out["error"]}
        import cvxpy as cp
        p = self.prep(case, out); sys = p["sys"]
        x = np.asarray(out["X"])
        if np.any(x < sys["lb"] - 1e-6) or np.any(x > sys["ub"] + 1e-6):
            return {"what": "intensities outside the bounds: %s" % x.tolist(), "class": "bounds"}
        res = np.linalg.norm(p["M"] @ x - p["e"])
        if res > case["l2_eps"] * (1 + 1e-3) + 1e-7:
            return {"what": "weighted reproduction error %.3g exceeds l2_eps=%g" % (res, case["l2_eps"]), "class": "reproduction"}
        if np.max(np.abs(p["Ap"] @ x + p["bp"] - np.asarray(out["Bpred"]))) > 1e-8:
            return {"what": "B_pred is not the model capture of the returned intensities", "class": "prediction"}
        o = case["opt"]
        if p["ref"] is not None and objective(o, x) > p["ref"] + p["tol_obj"] + 1e-7:
            return {"what": "secondary objective %r: returned intensities give %.9g but %s (also in bounds, reproducing the target) gives %.9g" % (
                o, objective(o, x), p["x0"].round(6).tolist(), p["ref"]), "class": "suboptimal:%s" % (o if isinstance(o, str) else ("vec" if isinstance(o, list) else "num"))}
        return None

    def nontrivial(self, case, out):
        if "X" not in out:
            return False
        sys = C04.sysnp(case); x = np.asarray(out["X"])
        return case["opt"] != "l2" or bool(np.any(np.isclose(x, sys["lb"], atol=1e-4)) or np.any(np.isclose(x, sys["ub"], atol=1e-4)))

    def entry(self, case):
        return "ReceptorEstimator.fit_underdetermined(underdetermined_opt=%r, l2_eps=%g)" % (case["opt"], case["l2_eps"])

    def describe(self, case, out):
        return {"case": core.hexf(core.pub(case)), "out": core.hexf(out)}

    def plant(self, cases, outs):
        k = next(i for i, (c, o) in enumerate(zip(cases, outs)) if "X" in o)
        self.planted_index = k
        outs[k]["Bpred"][0] += 1e-5


PROP = C08()
