"""Untrusted search for weak-duality certificates (Cert/Duality.v format) by an LP over the multipliers.

Instance:  box lb<=x<=ub (finite), rows G x <= h, cones |M_k x - e_k| <= rho_k.
Given the gradient g of the objective at the tangent point x0, the certified lower bound is
    L = q(x0) - g.x0 - lam.h - sum_k (s_k rho_k - y_k.e_k) + sum_i min(r_i lb_i, r_i ub_i),
    r = g + G^T lam - sum_k M_k^T y_k,    lam >= 0,  s_k >= |y_k|_2.
We maximise it over lam and y_k = -mu_k u_k + (free part bounded in the 1-norm), u_k the residual direction."""
from fractions import Fraction as Fr
import numpy as np
from scipy.optimize import linprog
import exactqp as xq


def best_cert(g, x0, lb, ub, G, h, cones, lam_cap=None):
    n = len(x0)
    g = np.asarray(g, dtype=float); lb = np.asarray(lb, dtype=float); ub = np.asarray(ub, dtype=float)
    G = np.asarray(G, dtype=float).reshape(-1, n); h = np.asarray(h, dtype=float)
    p = len(h)
    # variable layout: lam (p) | per cone: mu (1), yp (m_k), ym (m_k) | t (n)
    sizes = []
    us = []
    for (M, e, rho) in cones:
        M = np.asarray(M, dtype=float); e = np.asarray(e, dtype=float)
        v = M @ x0 - e
        nv = np.linalg.norm(v)
        u = v / nv if nv > 1e-12 else np.zeros(len(e))
        us.append(u); sizes.append(len(e))
    nv_tot = p + sum(1 + 2 * m for m in sizes) + n
    off_t = nv_tot - n
    c = np.zeros(nv_tot)
    c[:p] = h                                     # minimise  lam.h + ... - sum t
    A_ub = np.zeros((2 * n, nv_tot)); b_ub = np.zeros(2 * n)
    # r = g + G^T lam + sum_k [ mu_k M^T u_k - M^T (yp - ym) ... ]  with y_k = -mu_k u_k + (yp - ym)
    R = np.zeros((n, nv_tot))                      # r = g + R z
    R[:, :p] = G.T
    pos = p
    for (M, e, rho), u, m in zip(cones, us, sizes):
        M = np.asarray(M, dtype=float); e = np.asarray(e, dtype=float)
        R[:, pos] = M.T @ u                        # y = -mu u  ->  -M^T y = mu M^T u
        R[:, pos + 1:pos + 1 + m] = -M.T           # y += yp     ->  -M^T yp
        R[:, pos + 1 + m:pos + 1 + 2 * m] = M.T    # y -= ym
        # cost: s rho - y.e  with s = mu + sum(yp + ym),  y.e = -mu u.e + yp.e - ym.e
        c[pos] = rho + u @ e
        c[pos + 1:pos + 1 + m] = rho - e
        c[pos + 1 + m:pos + 1 + 2 * m] = rho + e
        pos += 1 + 2 * m
    c[off_t:] = -1.0
    for i in range(n):
        # t_i <= lb_i r_i ,  t_i <= ub_i r_i      (ub_i = +inf: r_i >= 0 instead)
        A_ub[2 * i, :] = -lb[i] * R[i]; A_ub[2 * i, off_t + i] = 1.0; b_ub[2 * i] = lb[i] * g[i]
        if np.isfinite(ub[i]):
            A_ub[2 * i + 1, :] = -ub[i] * R[i]; A_ub[2 * i + 1, off_t + i] = 1.0; b_ub[2 * i + 1] = ub[i] * g[i]
        else:
            A_ub[2 * i + 1, :] = -R[i]; b_ub[2 * i + 1] = g[i]
    bounds = [(0, lam_cap)] * (nv_tot - n) + [(None, None)] * n      # lam_cap normalises Farkas rays
    r = linprog(c, A_ub=A_ub, b_ub=b_ub, bounds=bounds, method="highs")
    lam = np.zeros(p); ys = [np.zeros(m) for m in sizes]
    if r.status == 0:
        z = r.x
        lam = np.maximum(z[:p], 0)
        pos = p
        for k, (u, m) in enumerate(zip(us, sizes)):
            mu = max(z[pos], 0.0)
            ys[k] = -mu * u + z[pos + 1:pos + 1 + m] - z[pos + 1 + m:pos + 1 + 2 * m]
            pos += 1 + 2 * m
    # unbounded coordinates need r_i >= 0 EXACTLY in the checker: push them to a small positive margin by
    # raising the multiplier of a row with a positive coefficient there (costs nothing when lb_i = 0)
    inf_idx = [i for i in range(n) if not np.isfinite(ub[i])]
    if inf_idx and p:
        for _ in range(3):
            rr = g + G.T @ lam - sum((np.asarray(M, dtype=float).T @ y for (M, e, rho), y in zip(cones, ys)), np.zeros(n))
            for i in inf_idx:
                if rr[i] < 1e-9:
                    f = int(np.argmax(G[:, i]))
                    if G[f, i] > 0:
                        lam[f] += (1e-9 - rr[i]) / G[f, i] * 1.000001
    lam_f = [Fr(float(v)) for v in lam]
    ys_f = [[Fr(float(v)) for v in y] for y in ys]
    ss_f = [xq.sqrt_ceil(sum(a * a for a in y)) if any(y) else Fr(0) for y in ys_f]
    return lam_f, ys_f, ss_f


def cert_lit(lam, ys, ss):
    from core import qv
    return "{| Duality.lam := %s; Duality.ys := [%s]; Duality.ss := %s |}" % (qv(lam), ";".join(qv(y) for y in ys), qv(ss))
