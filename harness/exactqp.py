"""Exact (Fraction) helpers used to *produce certificates*.  Untrusted: a wrong result can only
make a Coq verdict fail."""
from fractions import Fraction as Fr


def fmat(M):
    return [[Fr(x) for x in r] for r in M]


def fvec(v):
    return [Fr(x) for x in v]


def matvec(M, x):
    return [sum(a * b for a, b in zip(r, x)) for r in M]


def tmatvec(M, y, n):
    out = [Fr(0)] * n
    for r, yi in zip(M, y):
        for j, a in enumerate(r):
            out[j] += a * yi
    return out


def dot(u, v):
    return sum(a * b for a, b in zip(u, v))


def solve_any(N, rhs, prefer=None):
    """Gaussian elimination over Fractions; returns one solution of N z = rhs (free variables
    set to prefer[j] or 0) or None when inconsistent."""
    n = len(N[0]) if N else 0
    rows = [list(r) + [b] for r, b in zip(N, rhs)]
    piv = []
    r = 0
    for c in range(n):
        p = None
        for i in range(r, len(rows)):
            if rows[i][c] != 0:
                p = i
                break
        if p is None:
            continue
        rows[r], rows[p] = rows[p], rows[r]
        pv = rows[r][c]
        rows[r] = [a / pv for a in rows[r]]
        for i in range(len(rows)):
            if i != r and rows[i][c] != 0:
                f = rows[i][c]
                rows[i] = [a - f * b for a, b in zip(rows[i], rows[r])]
        piv.append(c)
        r += 1
        if r == len(rows):
            break
    for i in range(r, len(rows)):
        if rows[i][n] != 0:
            return None
    z = [Fr(0)] * n
    free = [c for c in range(n) if c not in piv]
    for c in free:
        z[c] = Fr(prefer[c]) if prefer is not None else Fr(0)
    for i, c in enumerate(piv):
        z[c] = rows[i][n] - sum(rows[i][j] * z[j] for j in free)
    return z


def box_ls(M, e, lb, ub, xinit, iters=40):
    """Exact minimiser of |M x - e|^2 over the box (None = infinite side), started from the
    float solution `xinit` (used to guess the active set).  Returns (x, exact?)"""
    n = len(lb)
    M = fmat(M); e = fvec(e)
    lbf = [None if l is None else Fr(l) for l in lb]
    ubf = [None if u is None else Fr(u) for u in ub]
    x = []
    state = []  # -1 at lb, +1 at ub, 0 free
    for i in range(n):
        xi = Fr(xinit[i])
        rng = 1.0
        if lbf[i] is not None and ubf[i] is not None:
            rng = float(ubf[i] - lbf[i]) or 1.0
        tol = Fr(1e-6 * max(1.0, rng))
        if lbf[i] is not None and xi <= lbf[i] + tol:
            state.append(-1); x.append(lbf[i])
        elif ubf[i] is not None and xi >= ubf[i] - tol:
            state.append(1); x.append(ubf[i])
        else:
            state.append(0); x.append(xi)
    for it in range(iters):
        free = [i for i in range(n) if state[i] == 0]
        # solve normal equations on the free set
        if free:
            MF = [[r[i] for i in free] for r in M]
            resid = [ei - sum(r[i] * x[i] for i in range(n) if state[i] != 0) for r, ei in zip(M, e)]
            N = [[sum(MF[k][a] * MF[k][b] for k in range(len(M))) for b in range(len(free))] for a in range(len(free))]
            rhs = [sum(MF[k][a] * resid[k] for k in range(len(M))) for a in range(len(free))]
            z = solve_any(N, rhs, prefer=[x[i] for i in free])
            if z is None:
                return x, False
            # step towards z, stop at the first bound hit
            alpha = Fr(1); hit = None
            for a, i in enumerate(free):
                d = z[a] - x[i]
                if d < 0 and lbf[i] is not None and z[a] < lbf[i]:
                    t = (lbf[i] - x[i]) / d
                    if t < alpha:
                        alpha, hit = t, (i, -1)
                elif d > 0 and ubf[i] is not None and z[a] > ubf[i]:
                    t = (ubf[i] - x[i]) / d
                    if t < alpha:
                        alpha, hit = t, (i, 1)
            for a, i in enumerate(free):
                x[i] = x[i] + alpha * (z[a] - x[i])
            if hit is not None:
                i, sgn = hit
                state[i] = sgn
                x[i] = lbf[i] if sgn < 0 else ubf[i]
                continue
        # multipliers
        g = tmatvec(M, [a - b for a, b in zip(matvec(M, x), e)], n)
        worst, wi = Fr(0), None
        for i in range(n):
            if state[i] == -1 and g[i] < worst:
                worst, wi = g[i], i
            if state[i] == 1 and -g[i] < worst:
                worst, wi = -g[i], i
        if wi is None:
            return x, True
        state[wi] = 0
    return x, False


def sqrt_floor(q, digits=30):
    """a rational s >= 0 with s*s <= q (tight to ~digits decimal digits)"""
    if q <= 0:
        return Fr(0)
    from math import isqrt
    scale = 10 ** digits
    num = isqrt((q.numerator * scale * scale) // q.denominator)
    s = Fr(num, scale)
    while s * s > q:
        s -= Fr(1, scale)
    return max(s, Fr(0))


def sqrt_ceil(q, digits=30):
    s = sqrt_floor(q, digits) + Fr(2, 10 ** digits)
    while s * s < q:
        s += Fr(1, 10 ** digits)
    return s
