"""C07 — Poisson and excitation models minimise their objective; all three models agree in gamut.
Model: coq/Model/PoisExc.v."""
from fractions import Fraction as Fr
import numpy as np
import core
from core import Prop, q, qv, qm, cbool, cnat
from p_C04 import kmat_lit, base_vec, obounds, C04, HI
import gen_sys as gs
import lp_cert
import dualcert


class C07(Prop):
    id = "C07"
    coq_imports = "From DV Require Import Model.Linear Cert.Duality Cert.Hull Model.PoisExc."
    case_type = "PoisExc.gcase"
    verdict = "PoisExc.gverdict"
    shard = 15
    rule = ("well-scaled systems as in C04 with non-negative A (1-4 receptors x 1-6 sources), finite bounds, targets >= 0, baseline zero and non-zero, K none/scalar/vector, Poisson cases with per-receptor importance weights and fitted as one row of a 2-5 row batch with batch_size in {1, 2, n, n+2}, "
            "in- and out-of-gamut targets; model='poisson' (tight CLARABEL settings and defaults) and model='excitation' (default SCS bisection); in-gamut targets are also "
            "fitted with model='gaussian' and all three must reproduce the target. non-trivial = out-of-gamut target or non-zero baseline")
    assumptions = ["solvers opaque: Poisson optimality through the rational Frank-Wolfe gap at the returned point (clipped into the box by <= 1e-6), excitation optimality through a "
                   "Farkas certificate (HiGHS, untrusted) for emptiness of the level set {error <= achieved - delta}",
                   "accuracies: Poisson gap 1e-3 (tight) / 2e-2 (default) in likelihood units relative to the weights; excitation delta 1e-3 in excitation units; in-gamut reproduction 2e-2 capture units",
                   "infinite upper bounds are not covered by the Poisson certificate (the gap needs a bounded box); the asserted stream uses finite bounds"]
    modelled = "lsq_linear.py: lsq_linear(model='poisson') objective, lsq_linear_excitation objective and level sets; estimator.fit dispatch; predict_values"

    def sizes(self, tier):
        return 70 if tier == "quick" else 1200

    def gen(self, rng, n, tier):
        cases = []
        while len(cases) < n:
            sys = gs.gen_system(rng, mrange=(1, 4), nrange=(1, 6), finite_ub=True, Kkind=rng.choice(["none", "scalar", "vector"]))
            tk = rng.choice(["inside", "inside", "outside", "face", "far", "below"])     # below: one receptor's target under its (transformed) baseline
            got = gs.gen_target_regime(rng, sys, tk)
            if got is None:
                continue
            kind, b, x = got
            model = rng.choice(["poisson", "poisson", "excitation"])
            acc = rng.choice(["default", "high"]) if model == "poisson" else "default"
            if model == "excitation" and sys["bkind"] == "zero" and not np.any(sys["lb"]) and rng.random() < 0.5:
                # darkness: every capture exactly zero (all sources off, no baseline) -- an in-gamut target like any other
                b = np.zeros(sys["m"]); kind = "dark"
            # Poisson: per-receptor importance weights (the documented objective is the WEIGHTED likelihood) and the target fitted as one row of a batch
            w = [1.0] * sys["m"]; extra = []; bs = 1; row = 0
            if model == "poisson":
                if rng.random() < 0.4:
                    w = [rng.randint(2, 8) / 4 for _ in range(sys["m"])]
                if rng.random() < 0.5:
                    for _ in range(rng.randint(1, 4)):
                        g2 = gs.gen_target_regime(rng, sys, rng.choice(["inside", "outside", "far"]))
                        if g2 is not None:
                            extra.append(np.asarray(g2[1]).tolist())
                    if extra:
                        bs = rng.choice([1, 2, len(extra) + 1, len(extra) + 3]); row = rng.randint(0, len(extra))
            if model == "excitation" and kind in ("inside", "face") and rng.random() < 0.6:
                # an in-gamut target fitted together with other in-gamut targets: zero error is attainable for every row at once, so each row
                # must still be reproduced (the batch-wide maximum of the excitation model couples rows only when one of them is out of gamut, D14)
                for _ in range(rng.randint(1, 4)):
                    g2 = gs.gen_target_regime(rng, sys, "inside")
                    if g2 is not None:
                        extra.append(np.asarray(g2[1]).tolist())
                if extra:
                    bs = rng.choice([2, 3, len(extra) + 1, len(extra) + 3]); row = rng.randint(0, len(extra))
            # photon counts: whole-number targets handed over with an integer dtype
            intB = rng.random() < 0.2
            if intB:
                b = np.maximum(1.0, np.round(np.asarray(b, dtype=float)))
                extra = [np.maximum(1.0, np.round(np.asarray(e, dtype=float))).tolist() for e in extra]
                if model == "excitation" and extra:
                    extra = []; bs = 1; row = 0          # rounded companions may leave the gamut
            cases.append({"sys": {k: (v.tolist() if isinstance(v, np.ndarray) else v) for k, v in sys.items()}, "b": np.asarray(b).tolist(), "tk": kind, "intB": intB,
                          "model": model, "acc": acc, "w": w, "extra": extra, "bs": bs, "row": row,
                          "kind": "%s/%s/base-%s/K-%s/%s%s%s" % (model, kind, sys["bkind"], sys["Kkind"], acc, "/w" if any(v != 1.0 for v in w) else "", "/bs%d" % bs if extra else "") + ("/int" if intB else "")})
        return cases

    def run_impl(self, case):
        sys = C04.sysnp(case)
        w = np.asarray(case.get("w", [1.0] * sys["m"]), dtype=float)
        est = gs.make_estimator(sys, w=w) if np.any(w != 1.0) else gs.make_estimator(sys)
        extra = case.get("extra", []); row = case.get("row", 0)
        rows = [list(e) for e in extra]; rows.insert(row, list(case["b"]))
        B = np.asarray(rows, dtype=float)
        if case.get("intB"):
            B = B.astype(np.int64)
        elif extra and (len(extra) + int(case["bs"])) % 2 == 0:
            B = np.asfortranarray(B)          # a transposed stack of targets: column-major memory order
        core.watch(B)
        kw = dict(HI) if case["acc"] == "high" else ({"solver": "CLARABEL"} if case["model"] == "poisson" else {})
        if extra:
            kw["batch_size"] = case["bs"]
        # warm-up: the same model on a sibling system (other baseline) must leave no trace
        gs.warm(lambda: (gs.make_estimator(gs.sibling(sys), w=w) if np.any(w != 1.0) else gs.make_estimator(gs.sibling(sys))).fit(B, model=case["model"], **kw))
        X, Bp = est.fit(B, model=case["model"], **kw)
        out = {"X": np.asarray(X, dtype=float)[row].tolist(), "Bpred": np.asarray(Bp, dtype=float)[row].tolist()}
        Xg, Bg = est.fit(np.asarray(case["b"])[None], model="gaussian", **HI)
        out["Bpred_gaussian"] = np.asarray(Bg, dtype=float)[0].tolist()
        return out

    def prep(self, case, out):
        if "_p" in case:
            return case["_p"]
        sys = C04.sysnp(case); m = sys["m"]
        Ap, bp = gs.K_apply(sys["K"], sys["A"], base_vec(sys["baseline"], m))
        Ap = np.asarray(Ap, dtype=float); bp = np.asarray(bp, dtype=float)
        b = np.asarray(case["b"], dtype=float)
        xm, inf = lp_cert.member(Ap, bp, sys["lb"], sys["ub"], b)
        in_gamut = xm is not None and inf <= 1e-9
        p = dict(sys=sys, Ap=Ap, bp=bp, in_gamut=in_gamut)
        if "X" in out:
            x = np.clip(np.asarray(out["X"], dtype=float), sys["lb"], sys["ub"])
            p["xclip"] = x
            if case["model"] == "poisson":
                # reference point (untrusted): an accurate minimiser of the weighted likelihood; the certificate is tangent(x -> x0) + gap(x0)
                import cvxpy as cp
                wv = np.asarray(case.get("w", [1.0] * m), dtype=float)
                z = cp.Variable(sys["n"]); pz = Ap @ z + bp
                x0 = x; ref = None
                try:
                    pr = cp.Problem(cp.Minimize(cp.sum(cp.multiply(wv, pz - cp.multiply(b, cp.log(pz))))), [z >= sys["lb"], z <= sys["ub"]])
                    pr.solve(solver="CLARABEL", tol_gap_abs=1e-11, tol_gap_rel=1e-11, tol_feas=1e-11)
                    if pr.status in ("optimal", "optimal_inaccurate") and z.value is not None:
                        cand = np.clip(np.asarray(z.value, dtype=float), sys["lb"], sys["ub"])
                        if np.all(Ap @ cand + bp > 0):
                            x0 = cand; ref = float(pr.value)
                except Exception:  # noqa
                    pass
                # polish: pick, among the candidates and their L-BFGS-B refinements, the point with the smallest Frank-Wolfe gap
                # (the conic solver's own accuracy on the exponential cone is sometimes only ~1e-3 in the objective)
                from scipy.optimize import minimize
                lbv, ubv = np.asarray(sys["lb"], dtype=float), np.asarray(sys["ub"], dtype=float)
                def nll(zv):
                    pv = Ap @ zv + bp
                    return float(np.sum(wv * (pv - b * np.log(pv)))) if np.all(pv > 0) else np.inf
                def grad(zv):
                    pv = Ap @ zv + bp
                    return Ap.T @ (wv * (1 - b / pv))
                def fwgap(zv):
                    if not np.all(Ap @ zv + bp > 0):
                        return np.inf
                    gv = grad(zv)
                    return float(gv @ zv - np.sum(np.minimum(gv * lbv, gv * ubv)))
                cands = [x0, x]
                for st in list(cands):
                    try:
                        r = minimize(nll, st, jac=grad, method="L-BFGS-B", bounds=list(zip(lbv, ubv)), options={"ftol": 1e-16, "gtol": 1e-13, "maxiter": 500})
                        cands.append(np.clip(r.x, lbv, ubv))
                    except Exception:  # noqa
                        pass
                x0 = min(cands, key=fwgap)
                if np.isfinite(nll(x0)):
                    ref = nll(x0) if ref is None else min(ref, nll(x0))
                p["x0"] = x0; p["ref"] = ref; p["wv"] = wv
            if case["model"] == "excitation":
                pred = Ap @ x + bp
                t = float(np.max(np.abs(b / (1 + b) - pred / (1 + pred))))
                # accuracy: 3e-3 in excitation units (default SCS bisection: <= 5e-4 in 150 calibration cases, one outlier of 2.0e-3 in about 400), plus what clipping the returned point into the box cost (the bound tolerance of the
                # default solver, at most 1 % of the range, is granted separately; its effect on the objective must not be counted twice)
                praw = Ap @ np.asarray(out["X"], dtype=float) + bp
                traw = float(np.max(np.abs(b / (1 + b) - praw / (1 + praw)))) if np.all(1 + praw > 0) else t
                delta = 3e-3 + max(0.0, t - traw)
                p["t"] = t; p["delta"] = delta
                lam = []
                if t > delta:
                    s = t - delta
                    G, h = [], []
                    for j in range(m):
                        beta = b[j]; c = s * (1 + beta); a = Ap[j]; k = bp[j]
                        G.append(-(1 + c) * a); h.append(c - beta + (1 + c) * k)
                        G.append((1 - c) * a); h.append(beta + c - (1 - c) * k)
                    lamf, _, _ = dualcert.best_cert(np.zeros(sys["n"]), np.zeros(sys["n"]), sys["lb"], sys["ub"], np.array(G), np.array(h), [], lam_cap=1.0)
                    lam = lamf
                p["lam"] = lam
        case["_p"] = p
        return p

    def emit(self, case, out):
        if "error" in out:
            raise ValueError("raised %s: %s" % (out["error"], out.get("msg")))
        p = self.prep(case, out); sys = p["sys"]; m = sys["m"]
        common = "%s %s %s" % (kmat_lit(sys["K"], m), qm(sys["A"].tolist()), cnat(sys["n"]))
        base = qv(base_vec(sys["baseline"], m).tolist()); w = qv(case.get("w", [1.0] * m))
        if case["model"] == "poisson":
            eps = 1e-3 if case["acc"] == "high" else 2e-2
            return "(PoisExc.GPo (PoisExc.Build_pcase %s %s %s %s %s %s %s %s %s %s %s %s %s %s))" % (
                common, qv(sys["lb"].tolist()), qv(sys["ub"].tolist()), base, w, qv(case["b"]), qv(p["xclip"].tolist()), qv(p["x0"].tolist()), qv(out["X"]), qv(out["Bpred"]),
                cbool(p["in_gamut"]), q(eps), qv([(1e-5 if case["acc"] == "high" else 1e-2 * float(r_)) for r_ in (sys["ub"] - sys["lb"])]), q(2e-2))
        return "(PoisExc.GEx (PoisExc.Build_ecase %s %s %s %s %s %s %s %s %s %s %s %s %s %s))" % (
            common, obounds(sys["lb"]), obounds(sys["ub"]), base, w, qv(case["b"]), qv(p["xclip"].tolist()), qv(out["X"]), qv(out["Bpred"]),
            cbool(p["in_gamut"]), q(p["delta"]), qv(p["lam"]), qv([1e-2 * float(r_) for r_ in (sys["ub"] - sys["lb"])]), q(2e-2))

    def spec_violation(self, case, out):
        cfg = "%s:base-%s" % (case["model"], "zero" if case["sys"]["bkind"] == "zero" else "nonzero")
        if "error" in out:
            return {"what": "fit(model=%r) raised %s: %s" % (case["model"], out["error"], out.get("msg", "")[:140]), "class": "raises:%s:%s" % (out["error"], cfg)}
        import cvxpy as cp
        p = self.prep(case, out); sys = p["sys"]
        x = np.asarray(out["X"]); b = np.asarray(case["b"])
        if np.any(x < sys["lb"] - 1e-2 * (sys["ub"] - sys["lb"])) or np.any(x > sys["ub"] + 1e-2 * (sys["ub"] - sys["lb"])):
            return {"what": "intensities outside the bounds: %s" % x.tolist(), "class": "bounds:" + cfg}
        pred = p["Ap"] @ x + p["bp"]
        if np.max(np.abs(pred - np.asarray(out["Bpred"]))) > 1e-7:
            return {"what": "B_pred is not the model's total capture of the returned intensities", "class": "prediction:" + cfg}
        if p["in_gamut"]:
            for name, bp_ in ((case["model"], out["Bpred"]), ("gaussian", out["Bpred_gaussian"])):
                d = np.max(np.abs(np.asarray(bp_) - b))
                if d > 2e-2:
                    return {"what": "in-gamut target not reproduced by model=%r: max |B_pred - b| = %.4g" % (name, d), "class": "in-gamut-not-reproduced:%s" % cfg}
        z = cp.Variable(sys["n"]); pz = p["Ap"] @ z + p["bp"]
        if case["model"] == "poisson":
            wv = p["wv"]
            mine = float(np.sum(wv * (pred - b * np.log(pred))))
            eps = 1e-3 if case["acc"] == "high" else 2e-2
            if p["ref"] is not None and mine > p["ref"] + eps:
                return {"what": "weighted Poisson negative log-likelihood %.9g, but in-bound %s achieves %.9g" % (mine, p["x0"].round(5).tolist(), p["ref"]), "class": "poisson-suboptimal:" + cfg}
        else:
            t = float(np.max(np.abs(b / (1 + b) - pred / (1 + pred))))
            lo, hi = 0.0, t
            from scipy.optimize import linprog
            for _ in range(40):
                s = (lo + hi) / 2
                # the level set at s is a polyhedron (two linear rows per receptor): feasibility decided by an LP (HiGHS)
                G_, h_ = [], []
                for j in range(sys["m"]):
                    c = s * (1 + b[j]); a_ = p["Ap"][j]; k_ = p["bp"][j]
                    G_.append(-(1 + c) * a_); h_.append(c - b[j] + (1 + c) * k_)
                    G_.append((1 - c) * a_); h_.append(b[j] + c - (1 - c) * k_)
                r_ = linprog(np.zeros(sys["n"]), A_ub=np.array(G_), b_ub=np.array(h_), bounds=list(zip(sys["lb"], sys["ub"])), method="highs")
                if r_.status == 0:
                    hi = s
                else:
                    lo = s
            if t > hi + p.get("delta", 3e-3) + 1e-6:
                return {"what": "largest excitation difference %.6g, but an in-bound intensity vector achieves %.6g" % (t, hi), "class": "excitation-suboptimal:" + cfg}
        return None

    def nontrivial(self, case, out):
        return case["tk"] in ("outside", "far") or case["sys"]["bkind"] != "zero"

    def entry(self, case):
        return "ReceptorEstimator.fit(model=%r)" % case["model"]

    def describe(self, case, out):
        return {"case": core.hexf(core.pub(case)), "out": core.hexf(out)}

    def plant(self, cases, outs):
        k = next(i for i, (c, o) in enumerate(zip(cases, outs)) if "X" in o)
        self.planted_index = k
        outs[k]["Bpred"][0] += 1e-5


PROP = C07()
