import argparse
import importlib
import os
import sys

sys.path.insert(0, os.path.dirname(os.path.abspath(__file__)))
import core  # noqa


def main():
    ap = argparse.ArgumentParser()
    ap.add_argument("id")
    ap.add_argument("--tier", default=os.environ.get("VERIF_TIER", "quick"))
    ap.add_argument("--replay")
    ap.add_argument("--selftest", action="store_true")
    ap.add_argument("--n", type=int)
    a = ap.parse_args()
    seed = int(os.environ.get("VERIF_SEED", "0") or 0)
    os.chdir(core.VERIF)
    mod = importlib.import_module("p_" + a.id)
    prop = mod.PROP
    if a.selftest:
        prop._noplant = True
        base = core.run_check(prop, "quick", seed, selftest=True, ncases=a.n or 40)
        prop._noplant = False
        failing = core.run_check(prop, "quick", seed, selftest=True, ncases=a.n or 40)
        want = prop.planted_index if hasattr(prop, "planted_index") else 7
        failing = sorted(set(failing) - set(base))
        ok = failing == [want]
        print("SELFTEST %s: planted index %d, returned %s -> %s" % (a.id, want, failing, "ok" if ok else "BROKEN"))
        sys.exit(0 if ok else 2)
    import time
    t0 = time.time()
    rc = core.run_check(prop, a.tier, seed, replay=a.replay, ncases=a.n)
    # the library source differs from the tree the models were validated against (anchors.json): not a violation by itself, but the
    # search for a failing input is widened -- further seeds with the same generators, within a time budget, until one fails
    if rc == 0 and a.tier == "quick" and not a.replay and not a.n:
        import anchors, json
        ch = anchors.changed()
        if ch:
            print("SOURCE-CHANGED: %s differ(s) from the validated tree; widening the search" % ", ".join(ch[:6]))
            rounds = []
            base_wall = time.time() - t0
            noev = os.environ.get("VERIF_NO_EVIDENCE")
            os.environ["VERIF_NO_EVIDENCE"] = "1"
            for k in (1, 2):
                if (time.time() - t0) + base_wall > 420:
                    break
                rc = core.run_check(prop, a.tier, seed + 101 * k)
                rounds.append({"seed": seed + 101 * k, "exit": rc})
                if rc:
                    break
            if noev is None:
                os.environ.pop("VERIF_NO_EVIDENCE")
                evp = os.path.join(core.VERIF, "evidence", a.id + ".json")
                if os.path.exists(evp):
                    ev = json.load(open(evp))
                    ev["coverage"]["source_changed_since_validation"] = ch
                    ev["coverage"]["widened_search_rounds"] = rounds
                    if rc:
                        ev["violations"] = max(1, ev.get("violations", 0))
                    json.dump(ev, open(evp, "w"), indent=1, default=str)
    sys.exit(rc)


if __name__ == "__main__":
    main()
