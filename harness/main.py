import argparse
import importlib
import os
import sys

sys.path.insert(0, os.path.dirname(os.path.abspath(__file__)))
import core  # noqa


def main():
    ap = argparse.ArgumentParser()
    ap.add_argument("id")
    ap.add_argument("--tier", default=os.environ.get("VERIF_TIER", "quick"))
    ap.add_argument("--replay")
    ap.add_argument("--selftest", action="store_true")
    ap.add_argument("--n", type=int)
    a = ap.parse_args()
    seed = int(os.environ.get("VERIF_SEED", "0") or 0)
    os.chdir(core.VERIF)
    mod = importlib.import_module("p_" + a.id)
    prop = mod.PROP
    if a.selftest:
        prop._noplant = True
        base = core.run_check(prop, "quick", seed, selftest=True, ncases=a.n or 40)
        prop._noplant = False
        failing = core.run_check(prop, "quick", seed, selftest=True, ncases=a.n or 40)
        want = prop.planted_index if hasattr(prop, "planted_index") else 7
        failing = sorted(set(failing) - set(base))
        ok = failing == [want]
        print("SELFTEST %s: planted index %d, returned %s -> %s" % (a.id, want, failing, "ok" if ok else "BROKEN"))
        sys.exit(0 if ok else 2)
    sys.exit(core.run_check(prop, a.tier, seed, replay=a.replay, ncases=a.n))


if __name__ == "__main__":
    main()
