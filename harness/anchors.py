"""Fingerprints of the modelled library source (comment- and layout-insensitive: hash of the parsed AST per file).

The committed baseline anchors.json records the fingerprints of the tree against which the hand-written Coq models were last
validated.  A difference is NOT a violation (a harmless rewrite differs too); it only tells the check that the code the models
describe has changed, so the search for a failing input is widened (more seeds) and the evidence names the changed files.
usage: anchors.py --update   (after a `fix:` commit in /repo)"""
import ast, glob, hashlib, json, os, subprocess, sys

VERIF = os.path.dirname(os.path.dirname(os.path.abspath(__file__)))
BASE = os.path.join(VERIF, "anchors.json")


def repo():
    return os.environ.get("DREYE_REPO", "/repo")


def fingerprints(root=None):
    root = root or repo()
    out = {}
    for f in sorted(glob.glob(os.path.join(root, "dreye", "**", "*.py"), recursive=True)):
        rel = os.path.relpath(f, root)
        try:
            out[rel] = hashlib.sha256(ast.dump(ast.parse(open(f).read())).encode()).hexdigest()[:16]
        except Exception as e:  # noqa
            out[rel] = "unparsable:%s" % type(e).__name__
    return out


def changed(root=None):
    """files whose parsed source differs from the baseline (added and removed files included)"""
    if not os.path.exists(BASE):
        return []
    base = json.load(open(BASE))["files"]
    cur = fingerprints(root)
    return sorted(f for f in set(base) | set(cur) if base.get(f) != cur.get(f))


if __name__ == "__main__":
    if "--update" in sys.argv:
        head = subprocess.run("git -C %s rev-parse --short HEAD" % repo(), shell=True, capture_output=True, text=True).stdout.strip()
        json.dump({"repo_commit": head, "files": fingerprints()}, open(BASE, "w"), indent=1)
        print("anchors.json written for", head)
    else:
        print(changed())
