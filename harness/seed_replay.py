#!/usr/bin/env python3
"""Re-run the registered checks against every stored seeded change (seeded/<name>/patch.diff) on the CURRENT /repo HEAD.
usage: seed_replay.py [name ...]   -> seeded/REPLAY.json  (what caught what, at which /repo commit)"""
import json, os, re, subprocess, sys, glob
VERIF = os.path.dirname(os.path.dirname(os.path.abspath(__file__)))


def sh(cmd, cwd=None, timeout=7200, env=None):
    p = subprocess.run(cmd, shell=True, cwd=cwd, stdout=subprocess.PIPE, stderr=subprocess.STDOUT, text=True, timeout=timeout, env=env)
    return p.returncode, p.stdout


def main():
    names = sys.argv[1:] or sorted(os.path.basename(d) for d in glob.glob(os.path.join(VERIF, "seeded", "C*-*")))
    head = sh("git -C /repo rev-parse --short HEAD")[1].strip()
    assert sh("git -C /repo status --porcelain")[1].strip() == "", "/repo is not clean"
    outp = os.path.join(VERIF, "seeded", "REPLAY.json")
    res = json.load(open(outp)) if os.path.exists(outp) else {}
    for name in names:
        d = os.path.join(VERIF, "seeded", name); pid = name.split("-")[0]
        extra = json.load(open(os.path.join(d, "meta.json"))).get("also_checks", [])
        rc, out = sh("git -C /repo apply --check %s" % os.path.join(d, "patch.diff"))
        if rc:
            res[name] = {"repo": head, "applies": False, "note": out.strip()[:200]}
            print(name, "PATCH DOES NOT APPLY"); continue
        r = {"repo": head, "applies": True, "checks": {}}
        try:
            sh("git -C /repo apply %s" % os.path.join(d, "patch.diff"))
            for c in [pid] + extra:
                rc, out = sh("./check %s" % c, cwd=VERIF, env=dict(os.environ, VERIF_NO_EVIDENCE="1"))
                viol = [l for l in out.splitlines() if l.startswith("VIOLATION")]
                classes = []
                for l in viol:
                    m = re.search(r"replay=(\S+)", l)
                    if m and os.path.exists(os.path.join(VERIF, m.group(1))):
                        classes.append(json.load(open(os.path.join(VERIF, m.group(1)))).get("class"))
                r["checks"][c] = {"exit": rc, "violations": len(viol), "classes": classes[:4], "with_failing_input": sum(1 for l in viol if not l.rstrip().endswith("no-failing-input-found"))}
        finally:
            sh("git -C /repo checkout -- .")
        r["caught_by"] = [c for c, v in r["checks"].items() if v["exit"] == 1 and v["violations"]]
        res[name] = r
        print(name, "caught by", r["caught_by"], flush=True)
        json.dump(res, open(outp, "w"), indent=1)
    assert sh("git -C /repo status --porcelain")[1].strip() == ""


if __name__ == "__main__":
    main()
