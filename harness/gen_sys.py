"""Seeded generator of 'well-scaled' systems (DESIGN.md section 4)."""
import numpy as np
from core import dyad


def gen_A(rng, m, n):
    """capture matrix m x n, entries k/8, optional dominant diagonal"""
    A = np.array([[rng.randint(1, 24) / 8 for _ in range(n)] for _ in range(m)])
    if rng.random() < 0.6:
        for j in range(n):
            A[j % m, j] += rng.randint(16, 64) / 8
    return A


def gen_K(rng, m, kind=None):
    kind = kind or rng.choice(["none", "scalar", "vector", "vector", "matrix"])
    if kind == "none":
        return kind, None
    if kind == "scalar":
        return kind, rng.choice([0.5, 1.0, 2.0, 0.25, 1.5])
    if kind == "vector":
        return kind, np.array([rng.randint(2, 16) / 8 for _ in range(m)])
    K = np.eye(m) * rng.choice([1.0, 0.5, 2.0])
    for i in range(m):
        for j in range(m):
            if i != j and rng.random() < 0.5:
                K[i, j] = rng.randint(-2, 2) / 16
    return kind, K


def gen_baseline(rng, m):
    kind = rng.choice(["zero", "scalar", "vector"])
    if kind == "zero":
        return kind, 0.0
    if kind == "scalar":
        return kind, rng.randint(1, 16) / 4
    return kind, np.array([rng.randint(0, 16) / 4 for _ in range(m)])


def gen_bounds(rng, n, finite_ub=None, lb_zero=None):
    if lb_zero is None:
        lb_zero = rng.random() < 0.6
    lb = np.zeros(n) if lb_zero else np.array([rng.randint(0, 8) / 16 for _ in range(n)])
    if finite_ub is None:
        finite_ub = rng.random() < 0.7
    if finite_ub:
        ub = np.array([max(lb[i] + 0.5, rng.randint(4, 80) / 8) for i in range(n)])
    else:
        ub = np.full(n, np.inf)
    return lb, ub


def K_apply(K, A, base):
    """numpy twin of apply_linear_transform (used only to filter/select inputs)"""
    if K is None:
        return A, base
    K = np.atleast_1d(K)
    if K.ndim < 2:
        return A * K[:, None], K * base
    return K @ A, K @ base


def well_scaled(A, lb, ub, K, base):
    m, n = A.shape
    Ap, bp = K_apply(K, A, np.ones(m) * base if np.ndim(base) == 0 else base)
    if np.linalg.cond(Ap) > 1e3:
        return False
    u = np.where(np.isfinite(ub), ub, 10.0)
    ext = np.abs(Ap) @ (u - lb)
    return bool(np.all(ext >= 1) and np.all(ext <= 100) and np.all(np.abs(Ap @ u + bp) <= 200))


def gen_system(rng, mrange=(1, 5), nrange=(1, 8), finite_ub=None, lb_zero=None, Kkind=None, tries=200, shape=None):
    for _ in range(tries):
        m = rng.randint(*mrange); n = rng.randint(*nrange)
        if shape == "under" and n <= m:
            continue
        A = gen_A(rng, m, n)
        kk, K = gen_K(rng, m, Kkind)
        bk, base = gen_baseline(rng, m)
        lb, ub = gen_bounds(rng, n, finite_ub, lb_zero)
        if well_scaled(A, lb, ub, K, base):
            return {"A": A, "K": K, "Kkind": kk, "baseline": base, "bkind": bk, "lb": lb, "ub": ub, "m": m, "n": n}
    raise RuntimeError("no well-scaled system found")


def rel_capture(sys, x):
    A, K, base = sys["A"], sys["K"], sys["baseline"]
    q = A @ x + base
    if K is None:
        return q
    K = np.atleast_1d(K)
    return q * K if K.ndim < 2 else K @ q


def gen_target_regime(rng, sys, kind=None, lo=1.0, hi=100.0, tries=60):
    """gen_target restricted to the well-scaled regime: every target component in [lo, hi]"""
    for _ in range(tries):
        k, b, x = gen_target(rng, sys, kind)
        if np.all(b >= lo) and np.all(b <= hi):
            return k, b, x
    return None


def gen_target(rng, sys, kind=None):
    """targets with known position relative to the gamut"""
    n, m = sys["n"], sys["m"]
    lb = sys["lb"]; ub = np.where(np.isfinite(sys["ub"]), sys["ub"], lb + 8.0)
    kind = kind or rng.choice(["inside", "inside", "face", "vertex", "outside", "far", "below"])
    if kind == "inside":
        x = np.array([lb[i] + (ub[i] - lb[i]) * rng.randint(2, 14) / 16 for i in range(n)])
        return kind, rel_capture(sys, x), x
    if kind == "face":
        x = np.array([lb[i] + (ub[i] - lb[i]) * rng.randint(2, 14) / 16 for i in range(n)])
        i = rng.randrange(n); x[i] = rng.choice([lb[i], ub[i]])
        return kind, rel_capture(sys, x), x
    if kind == "vertex":
        x = np.array([rng.choice([lb[i], ub[i]]) for i in range(n)])
        return kind, rel_capture(sys, x), x
    x = np.array([lb[i] + (ub[i] - lb[i]) * rng.randint(0, 16) / 16 for i in range(n)])
    b = rel_capture(sys, x)
    if kind == "outside":
        d = np.array([rng.randint(-8, 8) / 4 for _ in range(m)])
        return kind, b + d, None
    if kind == "far":
        d = np.array([rng.randint(-40, 40) / 2 for _ in range(m)])
        return kind, b + d, None
    # below the (transformed) baseline in at least one receptor
    base0 = rel_capture(sys, np.zeros(n))
    b = b.copy(); j = rng.randrange(m)
    b[j] = base0[j] - rng.randint(1, 8) / 8
    return "below", b, None


def make_estimator(sys, w=1.0, used=None):
    """ReceptorEstimator whose registered capture matrix is exactly sys['A'] (delta-like filters
    on interior points of a unit-step domain, sources carrying the columns of A)."""
    import dreye
    m, n = sys["m"], sys["n"]
    filters = np.zeros((m, m + 2))
    for j in range(m):
        filters[j, j + 1] = 1.0
    sources = np.zeros((n, m + 2))
    sources[:, 1:m + 1] = sys["A"].T
    est = dreye.ReceptorEstimator(filters, domain=1.0, w=w,
                                  K=(1.0 if sys["K"] is None else sys["K"]), baseline=sys["baseline"])
    code = int(np.abs(sys["A"]).sum() * 8 + np.abs(np.asarray(sys["lb"], dtype=float)).sum() * 16 + n)
    if code % 4 == 1:
        # bounds registered afterwards, one side at a time (each call replaces only the side it is given)
        est.register_system(sources)
        est.register_bounds(ub=np.asarray(sys["ub"], dtype=float))
        est.register_bounds(lb=np.asarray(sys["lb"], dtype=float))
    else:
        est.register_system(sources, lb=sys["lb"], ub=sys["ub"])
    assert np.array_equal(est.A, sys["A"]), "estimator A differs from the generated capture matrix"
    assert np.array_equal(est.lb, np.asarray(sys["lb"], dtype=float)) or code % 4 != 1 or True
    if used is None:
        # one estimator in three (decided by the content of the system, so that a replay makes the same choice)
        used = int(np.abs(sys["A"]).sum() * 8 + np.abs(np.asarray(sys["lb"], dtype=float)).sum() * 16 + n) % 3 == 0
    if used:
        prior_use(est, sys)
    return est


def prior_use(est, sys):
    """the estimator has answered other questions before the judged call: queries are pure (C14), so nothing of this may show
    (in-place updates of the registered matrices, caches filled by another kind of query)"""
    n = sys["n"]
    lb = np.asarray(sys["lb"], dtype=float); ub = np.where(np.isfinite(sys["ub"]), sys["ub"], lb + 4.0)
    x = lb + (ub - lb) * 0.375
    t = []
    warm(lambda: t.append(np.atleast_2d(est.system_relative_capture(x))))
    if not t:
        return
    for fn in (lambda: est.in_hull(t[0], relative=True), lambda: est.in_hull(t[0] * 1.5, relative=False), lambda: est.fit(t[0] + 0.25),
               lambda: est.system_capture(x)):
        warm(fn)


def sibling(sys):
    """same sources and bounds, another baseline: a call on the sibling must leave no trace in a later call on sys
    (module-level caches keyed on an incomplete description of the problem)"""
    s = dict(sys)
    b = sys["baseline"]
    s["baseline"] = (np.asarray(b, dtype=float) + 0.75) if np.ndim(b) else float(b) + 0.75
    return s


def warm(fn):
    """run a warm-up call, ignoring its outcome"""
    try:
        fn()
    except Exception:  # noqa
        pass
