"""Common machinery of the /verif checks (see DESIGN.md section 2).

Runs under /venv/bin/python with PYTHONPATH=/repo so that the *working tree* of /repo is
what gets imported.  Every property module (harness/p_<id>.py) provides a subclass of
`Prop`; `run_check` drives: Coq build -> Props/<id>.v re-check (+ Print Assumptions) ->
forbidden-word grep -> case generation -> real dreye run -> cases_*.v emission ->
kernel (vm_compute / interval) verdicts -> search for a failing input -> evidence.
"""
import fnmatch
import hashlib
import json
import math
import os
import random
import re
import shutil
import subprocess
import sys
import time
import traceback
from fractions import Fraction

VERIF = os.path.dirname(os.path.dirname(os.path.abspath(__file__)))
COQ = os.path.join(VERIF, "coq")
GEN = os.path.join(COQ, "Run", "gen")
REPO = os.environ.get("DREYE_REPO", "/repo")
NPROC = int(os.environ.get("VERIF_JOBS", "16"))

FORBIDDEN = re.compile(
    r"\b(Admitted|admit|Axiom|Axioms|Parameter|Parameters|Conjecture|Conjectures|"
    r"Admit Obligations|bypass_check)\b|Unset Guard|Unset Positivity|Unset Universe|"
    r"type-in-type|impredicative-set"
)


# ----------------------------------------------------------------------------- literals
def q(x):
    """Exact Coq Q literal of a python float / int / Fraction."""
    if isinstance(x, Fraction):
        n, d = x.numerator, x.denominator
    elif isinstance(x, (int,)) and not isinstance(x, bool):
        n, d = int(x), 1
    else:
        x = float(x)
        if not math.isfinite(x):
            raise ValueError("non-finite value cannot be a Q literal: %r" % (x,))
        n, d = x.as_integer_ratio()
    if n < 0:
        return "((%d)#%d)" % (n, d)
    return "(%d#%d)" % (n, d)


def qv(v):
    return "[" + ";".join(q(x) for x in v) + "]"


def qm(m):
    return "[" + ";".join(qv(r) for r in m) + "]"


def qt(t):
    return "[" + ";".join(qm(m) for m in t) + "]"


def cbool(b):
    return "true" if b else "false"


def cnat(n):
    return "%d%%nat" % int(n)


def cnats(ns):
    return "[" + ";".join(cnat(n) for n in ns) + "]"


def coption(x, f):
    return "None" if x is None else "(Some %s)" % f(x)


ERR_ENUM = {
    "ValueError": "ValueError", "AssertionError": "AssertionError",
    "LinAlgError": "LinAlgError", "UnboundLocalError": "UnboundLocalError",
    "TypeError": "TypeErr", "AttributeError": "AttributeError",
    "SolverError": "SolverError", "QhullError": "QhullError",
}


def cerr(name):
    return ERR_ENUM.get(name, "OtherError")


def hexf(x):
    import numpy as np
    if isinstance(x, (list, tuple)):
        return [hexf(y) for y in x]
    if isinstance(x, np.ndarray):
        return hexf(x.tolist())
    if isinstance(x, (float, np.floating)):
        return float(x).hex()
    if isinstance(x, (np.integer,)):
        return int(x)
    if isinstance(x, (np.bool_,)):
        return bool(x)
    if isinstance(x, dict):
        return {k: hexf(v) for k, v in x.items()}
    return x


def unhex(x):
    if isinstance(x, list):
        return [unhex(y) for y in x]
    if isinstance(x, dict):
        return {k: unhex(v) for k, v in x.items()}
    if isinstance(x, str) and re.match(r"^-?0x[0-9a-f.]+p[+-]?\d+$|^-?(inf|nan)$", x):
        return float.fromhex(x)
    return x


def F(x):
    """exact Fraction of a float (or nested lists)."""
    if isinstance(x, (list, tuple)):
        return [F(y) for y in x]
    import numpy as np
    if isinstance(x, np.ndarray):
        return F(x.tolist())
    return Fraction(x)


def dyad(rng, lo, hi, den):
    """random dyadic k/den in [lo, hi]."""
    return rng.randint(int(lo * den), int(hi * den)) / den


# ----------------------------------------------------------------------------- property base
class Prop:
    id = "C00"
    coq_imports = ""          # extra `From DV Require Import ...` line(s)
    case_type = "case"        # Coq type name of a case (defined in a Model/Run file)
    verdict = "verdict"       # Coq function case -> bool
    shard = 250
    rule = ""
    assumptions = []
    modelled = ""

    def sizes(self, tier):
        return 200 if tier == "quick" else 4000

    # -- to override -----------------------------------------------------------------
    def gen(self, rng, n, tier):
        raise NotImplementedError

    def run_impl(self, case):
        """run real dreye; return JSON-able dict (floats) or {'error': 'ClassName', 'msg':..}"""
        raise NotImplementedError

    def emit(self, case, out):
        """Coq term of type `case_type` holding inputs and the implementation's outputs."""
        raise NotImplementedError

    def spec_violation(self, case, out):
        """Evaluate the property predicate itself (exact Fractions) on the implementation's
        behaviour.  Return None when the property holds on this case, else a dict
        {'what': str, 'class': str, 'required':…, 'observed':…}."""
        return None

    def nontrivial(self, case, out):
        return True

    def describe(self, case, out):
        return {"case": hexf(pub(case)), "out": hexf(out)}

    def classify(self, case, out):
        """coarse description for the input-distribution histogram"""
        return case.get("kind", "default")

    def extra_checks(self, ctx):
        """optional additional (T)/(C) stages; return list of violation dicts"""
        return []

    def preamble(self):
        return ""


# ----------------------------------------------------------------------------- coq driving
def sh(cmd, timeout=3000, cwd=None, env=None):
    p = subprocess.run(cmd, shell=True, cwd=cwd, env=env, timeout=timeout,
                       stdout=subprocess.PIPE, stderr=subprocess.STDOUT, text=True)
    return p.returncode, p.stdout


def coq_build():
    """full .vo build of the development (no-op when up to date)."""
    if not os.path.exists(os.path.join(COQ, "Makefile")):
        rc, out = sh("coq_makefile -f _CoqProject -o Makefile", cwd=COQ)
        if rc:
            return rc, out
    rc, out = sh("timeout 3000 make -j%d 2>&1 | tail -40" % NPROC, cwd=COQ, timeout=3100)
    rc2, out2 = sh("make -q 2>/dev/null; echo rc=$?", cwd=COQ)
    ok = os.path.exists(os.path.join(COQ, "Run", "Verdict.vo"))
    return (0 if ok and "Error" not in out else 1), out


def props_check(pid):
    """Re-compile Props/<id>.v: its theorems are re-checked by the kernel and
    Print Assumptions output captured.  Returns dict."""
    src = os.path.join(COQ, "Props", pid + ".v")
    res = {"file": src, "ok": False, "theorems": [], "assumptions": {}, "log": ""}
    if not os.path.exists(src):
        res["log"] = "missing " + src
        return res
    text = open(src).read()
    res["theorems"] = re.findall(r"^\s*(?:Theorem|Corollary)\s+([A-Za-z0-9_']+)", text, re.M)
    # compiled into a private output file: concurrent runs of the same check must not overwrite each other's Props/<id>.vo
    tmpd = os.path.join(COQ, "Run", "gen", "props_%s_%d" % (pid, os.getpid()))
    os.makedirs(tmpd, exist_ok=True)
    rc, out = sh("timeout 900 coqc -Q . DV -o %s Props/%s.v" % (os.path.join(tmpd, pid + ".vo"), pid), cwd=COQ, timeout=1000)
    shutil.rmtree(tmpd, ignore_errors=True)
    res["log"] = out[-6000:]
    res["ok"] = rc == 0
    # parse Print Assumptions blocks
    cur = None
    closed = 0
    axioms = set()
    for line in out.splitlines():
        if line.startswith("Closed under the global context"):
            closed += 1
        m = re.match(r"^([A-Za-z_][A-Za-z0-9_.']*)(\s*:|\s*$)", line)
        if m and not line.startswith(" ") and "." in m.group(1):
            axioms.add(m.group(1))
    res["closed"] = closed
    res["axioms"] = sorted(axioms)
    res["n_print_assumptions"] = len(re.findall(r"Print Assumptions", text))
    if res["ok"] and res["n_print_assumptions"] < len(res["theorems"]):
        res["ok"] = False
        res["log"] += "\nnot every theorem is followed by Print Assumptions"
    return res


def forbidden_scan():
    """grep the whole development (not generated case files) for forbidden words."""
    hits = []
    for root, _, files in os.walk(COQ):
        if root.startswith(GEN):
            continue
        for f in files:
            if not f.endswith(".v"):
                continue
            p = os.path.join(root, f)
            txt = open(p).read()
            txt_nc = strip_comments(txt)
            for i, line in enumerate(txt_nc.splitlines(), 1):
                if FORBIDDEN.search(line):
                    hits.append("%s:%d: %s" % (os.path.relpath(p, VERIF), i, line.strip()[:120]))
                if re.match(r"^\s*(Variable|Variables|Hypothesis|Hypotheses|Context)\b", line):
                    # allowed only inside a Section: check nesting
                    if not inside_section(txt_nc, i):
                        hits.append("%s:%d: section-less %s" % (os.path.relpath(p, VERIF), i, line.strip()[:80]))
    proj = open(os.path.join(COQ, "_CoqProject")).read()
    if FORBIDDEN.search(proj) or "-vos" in proj:
        hits.append("_CoqProject has a forbidden flag")
    return hits


def strip_comments(txt):
    out = []
    depth = 0
    i = 0
    n = len(txt)
    while i < n:
        if txt.startswith("(*", i):
            depth += 1
            i += 2
        elif txt.startswith("*)", i) and depth:
            depth -= 1
            i += 2
        else:
            if depth == 0 or txt[i] == "\n":
                out.append(txt[i])
            i += 1
    return "".join(out)


def inside_section(txt, lineno):
    depth = 0
    for i, line in enumerate(txt.splitlines(), 1):
        if i >= lineno:
            break
        if re.match(r"^\s*Section\s+\w+", line):
            depth += 1
        elif re.match(r"^\s*End\s+\w+\s*\.", line) and depth:
            depth -= 1
    return depth > 0


HEADER = """From Coq Require Import QArith Qabs Qminmax List Bool ZArith.
From DV Require Import Base.QVec Run.Verdict.
%s
Import ListNotations.
Open Scope Q_scope.
"""


def run_shards(prop, terms, tag):
    """write cases_<k>.v files, compile them in parallel, return (failing global indices,
    errors)."""
    d = os.path.join(GEN, "%s_%s_%d" % (prop.id, tag, os.getpid()))
    shutil.rmtree(d, ignore_errors=True)
    os.makedirs(d)
    names = []
    for k in range(0, len(terms), prop.shard):
        chunk = terms[k:k + prop.shard]
        name = "cases_%s_%d" % (prop.id, k // prop.shard)
        with open(os.path.join(d, name + ".v"), "w") as fh:
            fh.write(HEADER % prop.coq_imports)
            fh.write(prop.preamble())
            fh.write("Definition cases : list %s := [\n" % prop.case_type)
            fh.write(";\n".join(chunk))
            fh.write("\n].\n")
            fh.write("Eval vm_compute in (length cases, failing %s cases).\n" % prop.verdict)
        names.append(name)
    listing = os.path.join(d, "list.txt")
    open(listing, "w").write("\n".join(names) + "\n")
    cmd = ("cd %s && cat list.txt | xargs -P %d -I{} sh -c "
           "'ulimit -s unlimited 2>/dev/null; timeout 1200 coqc -Q %s DV -Q . DVgen {}.v > {}.out 2>&1; echo $? > {}.rc'"
           % (d, NPROC, COQ))
    sh(cmd, timeout=4000)
    failing, errors = [], []
    for k, name in enumerate(names):
        rc = open(os.path.join(d, name + ".rc")).read().strip() if os.path.exists(os.path.join(d, name + ".rc")) else "?"
        out = open(os.path.join(d, name + ".out")).read() if os.path.exists(os.path.join(d, name + ".out")) else ""
        flat = " ".join(out.split())
        m = re.search(r"=\s*\(\s*(\d+)%?n?a?t?\s*,\s*(\[[^\]]*\]|nil)\s*\)", flat)
        n_here = len(terms[k * prop.shard:(k + 1) * prop.shard])
        if rc != "0" or not m:
            errors.append({"shard": name, "rc": rc, "log": out[-1500:]})
            continue
        if int(m.group(1)) != n_here:
            errors.append({"shard": name, "rc": rc, "log": "case count mismatch %s vs %d" % (m.group(1), n_here)})
            continue
        idx = [int(t) for t in re.findall(r"\d+", m.group(2))]
        failing += [k * prop.shard + i for i in idx]
    if not errors and not os.environ.get("VERIF_KEEP"):
        shutil.rmtree(d, ignore_errors=True)
    return failing, errors


def run_goal_files(prop, files, tag):
    """compile stand-alone .v files (e.g. one Interval goal set per case); a file that
    fails to compile is a failing case.  files: list of (name, text).  Returns failing names."""
    d = os.path.join(GEN, "%s_%s_%d" % (prop.id, tag, os.getpid()))
    shutil.rmtree(d, ignore_errors=True)
    os.makedirs(d)
    for name, text in files:
        open(os.path.join(d, name + ".v"), "w").write(text)
    open(os.path.join(d, "list.txt"), "w").write("\n".join(n for n, _ in files) + "\n")
    cmd = ("cd %s && cat list.txt | xargs -P %d -I{} sh -c "
           "'timeout 1200 coqc -Q %s DV -Q . DVgen {}.v > {}.out 2>&1; echo $? > {}.rc'" % (d, NPROC, COQ))
    sh(cmd, timeout=4000)
    bad = []
    for name, _ in files:
        rcf = os.path.join(d, name + ".rc")
        rc = open(rcf).read().strip() if os.path.exists(rcf) else "?"
        if rc != "0":
            out = open(os.path.join(d, name + ".out")).read() if os.path.exists(os.path.join(d, name + ".out")) else ""
            bad.append((name, out[-1200:]))
    if not bad and not os.environ.get("VERIF_KEEP"):
        shutil.rmtree(d, ignore_errors=True)
    return bad


# ----------------------------------------------------------------------------- findings
def load_known():
    p = os.path.join(VERIF, "known_findings.json")
    if not os.path.exists(p):
        return []
    return json.load(open(p)).get("findings", [])


def match_known(pid, vclass, known):
    for k in known:
        if k.get("property") == pid and k.get("status") == "open" and fnmatch.fnmatchcase(vclass, k.get("class", "")):
            return k
    return None


# ----------------------------------------------------------------------------- main driver
def import_dreye():
    os.environ["DREYE_VERIF"] = "1"
    if REPO not in sys.path:
        sys.path.insert(0, REPO)
    import warnings
    warnings.filterwarnings("ignore")
    import dreye  # noqa
    assert os.path.abspath(dreye.__file__).startswith(os.path.abspath(REPO)), dreye.__file__
    return dreye


def drain_hooks():
    """records collected by the DREYE_VERIF hooks since the last call ([] if hooks absent)"""
    try:
        from dreye.api import _verif
        return _verif.drain()
    except Exception:  # noqa
        return []


def has_nonfinite(x):
    if isinstance(x, float):
        return not math.isfinite(x)
    if isinstance(x, (list, tuple)):
        return any(has_nonfinite(y) for y in x)
    if isinstance(x, dict):
        return any(has_nonfinite(v) for k, v in x.items() if k not in getattr(has_nonfinite, "skip", ()))
    return False


WATCHED = []


def watch(a):
    """register an array handed to the library: it must come back unchanged (the caller's data are never modified, C14)"""
    import numpy as np
    if isinstance(a, np.ndarray):
        WATCHED.append((a, a.copy()))
    return a


def safe_impl(prop, case):
    try:
        del WATCHED[:]
        out = prop.run_impl(case)
        import numpy as np
        for a, a0 in WATCHED:
            if not (a.shape == a0.shape and np.array_equal(a, a0, equal_nan=True)):
                del WATCHED[:]
                return {"error": "InputMutated", "msg": "an array supplied by the caller was modified in place (max change %.3g)" % (
                    float(np.max(np.abs(np.asarray(a, dtype=float) - np.asarray(a0, dtype=float)))) if a.shape == a0.shape else float("nan"))}
        del WATCHED[:]
        if isinstance(out, dict) and "error" not in out and not getattr(prop, "allow_nonfinite", False) and has_nonfinite(out):
            return {"error": "NonFinite", "msg": "the implementation returned NaN/inf values", "raw": repr(out)[:400]}
        return out
    except Exception as e:  # noqa
        return {"error": type(e).__name__, "msg": str(e)[:300],
                "tb": traceback.format_exc()[-800:]}


def pub(case):
    """case without harness-private (underscore) keys"""
    return {k: v for k, v in case.items() if not str(k).startswith("_")} if isinstance(case, dict) else case


def case_hash(case):
    return hashlib.sha1(json.dumps(hexf(case), sort_keys=True, default=str).encode()).hexdigest()


def write_replay(prop, seed, n, payload):
    os.makedirs(os.path.join(VERIF, "replays"), exist_ok=True)
    path = os.path.join("replays", "%s-%d-%d.json" % (prop.id, seed, n))
    json.dump(payload, open(os.path.join(VERIF, path), "w"), indent=1, default=str)
    return path


def load_corpus(prop):
    d = os.path.join(VERIF, "corpus", prop.id)
    cases = []
    if os.path.isdir(d):
        for f in sorted(os.listdir(d)):
            if f.endswith(".json"):
                c = unhex(json.load(open(os.path.join(d, f))))
                c = c.get("case", c)
                c["_corpus"] = f
                cases.append(c)
    return cases


def run_check(prop, tier="quick", seed=0, replay=None, selftest=False, ncases=None):
    t0 = time.time()
    pid = prop.id
    lines = []          # VIOLATION / KNOWN-FINDING lines
    violations = []     # dicts
    known = load_known()
    info = {"stages": {}}
    if not replay:
        import glob
        for f in glob.glob(os.path.join(VERIF, "replays", "%s-%d-*.json" % (pid, seed))):
            os.remove(f)

    # (a) build
    rc, out = coq_build()
    info["stages"]["build"] = "ok" if rc == 0 else "FAILED"
    build_ok = rc == 0
    if not build_ok:
        info["build_log"] = out[-3000:]

    # (b) Props/<id>.v
    pc = props_check(pid)
    info["stages"]["props"] = "ok" if pc["ok"] else "FAILED"
    # (c) forbidden words
    hits = forbidden_scan()
    info["stages"]["forbidden_scan"] = "ok" if not hits else hits

    import_dreye()
    rng = random.Random((seed + 1) * 1000003 + sum(map(ord, pid)))

    # (d) cases
    if replay:
        rp = json.load(open(replay if os.path.isabs(replay) else os.path.join(VERIF, replay)))
        cases = [unhex(rp["case"])] if "case" in rp else []
    else:
        n = ncases or prop.sizes(tier)
        cases = load_corpus(prop) + prop.gen(rng, n, tier)
    outs = [safe_impl(prop, c) for c in cases]
    if selftest and outs and not getattr(prop, "_noplant", False):
        prop.plant(cases, outs)
    terms, emit_err = [], []
    for i, (c, o) in enumerate(zip(cases, outs)):
        try:
            terms.append(prop.emit(c, o))
        except Exception as e:  # noqa
            emit_err.append((i, repr(e), traceback.format_exc()[-600:]))
            terms.append(None)
    live = [i for i, t in enumerate(terms) if t is not None]
    failing, shard_errors = ([], [])
    if build_ok and live:
        f_local, shard_errors = run_shards(prop, [terms[i] for i in live], tier)
        failing = [live[i] for i in f_local]
    failing = sorted(set(failing) | set(i for i, _, _ in emit_err))
    info["stages"]["cases"] = {"n": len(cases), "failing": len(failing), "shard_errors": len(shard_errors)}

    ctx = {"cases": cases, "outs": outs, "tier": tier, "seed": seed, "rng": rng,
           "build_ok": build_ok, "info": info}
    extra = []
    if build_ok and not replay:
        try:
            extra = prop.extra_checks(ctx)
        except Exception as e:  # noqa
            extra = [{"class": "extra-crashed:%s" % type(e).__name__, "what": "supporting check crashed: %r" % (e,),
                      "payload": {"tb": traceback.format_exc()[-800:]}, "found": False}]

    # (e) search: evaluate the property predicate itself on every case (cheap, exact);
    #     failing verdicts are the obligation, spec violations the concrete inputs.
    spec_hits = {}
    for i, (c, o) in enumerate(zip(cases, outs)):
        try:
            sv = prop.spec_violation(c, o)
        except Exception as e:  # noqa
            sv = {"what": "spec evaluation crashed: %r" % (e,), "class": "harness", "tb": traceback.format_exc()[-600:]}
        if sv:
            spec_hits[i] = sv

    nrep = 0
    known_hits = {}

    def report(vclass, what, payload, found):
        nonlocal nrep
        k = match_known(pid, vclass, known)
        if k:
            line = "KNOWN-FINDING: property=%s %s%s" % (pid, ("[%s] " % k["id"]) if k.get("id") else "", k.get("what", what))
            if line not in lines:
                lines.append(line)
            known_hits.setdefault(k.get("id") or k.get("class"), []).append(vclass)
            return
        nrep += 1
        payload = dict(payload)
        payload.update({"property": pid, "class": vclass, "what": what,
                        "failing_input_found": found, "seed": seed, "tier": tier})
        path = write_replay(prop, seed, nrep, payload)
        tail = "" if found else " no-failing-input-found"
        lines.append("VIOLATION property=%s replay=%s%s" % (pid, path, tail))
        violations.append({"class": vclass, "what": what, "replay": path, "found": found})

    seen_classes = set()
    known_case_idx = set()
    for i in sorted(set(failing) | set(spec_hits)):
        sv = spec_hits.get(i)
        c, o = cases[i], outs[i]
        if sv:
            vclass = sv.get("class", "spec")
            if match_known(pid, vclass, known):
                known_case_idx.add(i)
            key = ("spec", vclass)
            if key in seen_classes:
                continue
            seen_classes.add(key)
            report(vclass, sv["what"], {"case": hexf(pub(c)), "out": hexf(o), "detail": hexf(sv),
                                        "flagged_by": ("verdict %s" % prop.verdict) if i in failing else "spec predicate only (Coq verdict passed!)",
                                        "entry": prop.entry(c)}, True)
        else:
            vclass = "correspondence:" + prop.classify(c, o)
            key = ("corr", vclass)
            if key in seen_classes:
                continue
            seen_classes.add(key)
            report(vclass, "model/implementation correspondence `%s` fails on case %d but the property predicate "
                   "holds on it" % (prop.verdict, i),
                   {"case": hexf(pub(c)), "out": hexf(o), "correspondence": prop.verdict, "entry": prop.entry(c)}, False)
    for v in extra:
        report(v.get("class", "extra"), v["what"], v.get("payload", {}), v.get("found", True))
    if not pc["ok"]:
        report("theorem", "Props/%s.v no longer checks" % pid,
               {"theorem_file": "coq/Props/%s.v" % pid, "log": pc["log"][-2000:]},
               False)
    if not build_ok:
        report("build", "Coq development does not build", {"log": info.get("build_log", "")}, False)
    if hits:
        report("forbidden", "forbidden declaration in the development", {"hits": hits}, False)
    for se in shard_errors:
        report("shard", "case shard did not evaluate", se, False)

    # (f) evidence
    n_theorems = len(pc["theorems"])
    n_eval = len(cases)
    # cases that hit a recorded known finding are reported as KNOWN-FINDING and are not counted as
    # (discharged or undischarged) obligations of this run
    n_known = len(known_case_idx)
    obligations = n_theorems + (n_eval - n_known) + prop.extra_obligations(ctx)
    bad = len(set(failing) - known_case_idx) + (0 if pc["ok"] else n_theorems) + prop.extra_failed(ctx)
    distinct = {}
    hist = {}
    for c, o in zip(cases, outs):
        kcls = prop.classify(c, o)
        hist[kcls] = hist.get(kcls, 0) + 1
        try:
            nt = prop.nontrivial(c, o)
        except Exception:  # noqa
            nt = False
        if nt:
            distinct[case_hash({k: v for k, v in c.items() if not k.startswith("_")})] = 1
    errkinds = {}
    for o in outs:
        e = o.get("error", "Ok") if isinstance(o, dict) else "Ok"
        errkinds[e] = errkinds.get(e, 0) + 1
    samples = []
    for c, o in list(zip(cases, outs))[:3]:
        try:
            samples.append(prop.describe(c, o))
        except Exception as e:  # noqa
            samples.append({"describe_failed": repr(e)})
    ev = {
        "property_id": pid, "tier": tier, "seed": seed, "level": "proof",
        "coverage": {
            "obligations": obligations, "discharged": obligations - bad,
            "checker_cmd": "coqc -Q coq DV coq/Props/%s.v ; coqc (vm_compute) on generated coq/Run/gen/%s_*/cases_*.v" % (pid, pid),
            "trusted_base": [
                "Coq 8.16.1 kernel incl. its VM (vm_compute); native_compute not used",
                "Print Assumptions of Props/%s.v: %s" % (pid, ("Closed under the global context x%d" % pc.get("closed", 0)) + ("; axioms: " + ", ".join(pc.get("axioms", [])) if pc.get("axioms") else "")),
                "correspondence harness /verif/harness (generation, running dreye from /repo working tree, exact float->Q printing, shard orchestration)",
            ] + prop.assumptions,
            "theorems_rechecked": pc["theorems"],
            "evaluations": n_eval,
            "distinct_nontrivial": len(distinct),
            "rule": prop.rule,
            "input_distribution": hist,
            "impl_outcomes": errkinds,
            "samples": samples,
            "stages": info["stages"],
            "modelled": prop.modelled,
            "known_findings_hit": known_hits,
            "cases_excluded_as_known_findings": n_known,
        },
        "assumptions": prop.assumptions,
        "wall_s": round(time.time() - t0, 2),
        "violations": len(violations),
    }
    ev["coverage"].update(prop.extra_coverage(ctx))
    if not replay and not selftest and not os.environ.get("VERIF_NO_EVIDENCE"):
        os.makedirs(os.path.join(VERIF, "evidence"), exist_ok=True)
        json.dump(ev, open(os.path.join(VERIF, "evidence", pid + ".json"), "w"), indent=1, default=str)
    for l in lines:
        print(l)
    print("[%s] tier=%s seed=%d theorems=%d cases=%d failing=%d violations=%d wall=%.1fs"
          % (pid, tier, seed, n_theorems, n_eval, len(failing), len(violations), time.time() - t0))
    if selftest:
        return failing
    return 1 if violations else 0


# defaults for optional hooks on Prop
def _zero(self, ctx):
    return 0


def _empty(self, ctx):
    return {}


def _entry(self, case):
    return case.get("entry", self.id)


def _plant(self, cases, outs):
    raise NotImplementedError("no self-test plant for " + self.id)


Prop.extra_obligations = _zero
Prop.extra_failed = _zero
Prop.extra_coverage = _empty
Prop.entry = _entry
Prop.plant = _plant
