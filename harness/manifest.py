"""Regenerates MANIFEST.json from the table below (run by hand after adding a check)."""
import json, os
HERE = os.path.dirname(os.path.dirname(os.path.abspath(__file__)))
TRUST = ("Trusted: Coq 8.16.1 kernel + VM (vm_compute; no native_compute), the correspondence harness "
         "(/verif/harness: seeded generation, running dreye from /repo's working tree, exact float->Q literals, "
         "shard orchestration). Axioms: see evidence (Print Assumptions output per Props file). ")
CHECKS = {}
def add(pid, text, note, technique, design):
    CHECKS[pid] = dict(text=text, note=note, technique=technique, design=design)

add("C20",
    "Theorems over all inputs of the Gallina model of irr2flux/flux2irr (physical law with exact SI constants, two-sided inverse on arrays, "
    "linearity, element-wise action, prefix scaling, positivity), model tied to dreye.irr2flux/flux2irr by kernel-evaluated agreement "
    "(rtol 1e-12) on seeded cases incl. N-D/axis/pint inputs.",
    TRUST + "Not modelled: pint unit algebra (unit strings compared as data); N-D -> rows reshaping done by the harness with numpy.",
    "Coq proof over Q (field/lra) + vm_compute correspondence on real outputs", "DESIGN.md §5 C20")

add("C01",
    "Theorems over all inputs of the Gallina model of calculate_capture/integral: entry (i,j) = integral of signal i x filter j for every shape "
    "(incl. batch axis), locality, linearity in signals and in filters for trapezoid/explicit-domain/plain-sum rules, scalar step = explicit grid, "
    "plain sum = trapezoid + end-point term, helper rule; model tied to dreye.calculate_capture, dreye.integral and ReceptorEstimator.capture by "
    "kernel-evaluated agreement on seeded cases of all rank combinations.",
    TRUST + "Not modelled: numpy broadcasting and float summation (absorbed by rtol 1e-12 on exact dyadic inputs, 1e-9 on arbitrary doubles); "
    "length-1 broadcasting along the domain axis and domain/array length mismatches are outside the generator.",
    "Coq proof over Q (induction on lists, ring/field) + vm_compute correspondence on real outputs", "DESIGN.md §5 C01")

add("C04",
    "(F) formulation theorem: the problem handed to cvxpy equals the documented objective sum_j w_j^2 (K(Ax+baseline)-b)_j^2 for every x and all three K kinds; "
    "prediction = model capture; zero error iff reproduced. (C) weak-duality theorem (Cert/Duality.v): a passing certificate verdict implies, for ALL in-bound x, "
    "sqrt f(X) <= sqrt f(x) + tol; the verdict is evaluated by the Coq VM on the real output of every generated fit (ReceptorEstimator.fit and lsq_linear), "
    "with bounds and prediction checks. Instances are quantified by a seeded generator, not by proof.",
    TRUST + "The solver (cvxpy + OSQP/CLARABEL) is opaque: only its result is certified. Certificate points come from an exact-rational active-set "
    "solver in the harness (untrusted). Tolerances are the property's: 2e-2 capture units / 1% of bound range (default), 2e-3 / 1e-6 (CLARABEL tight settings).",
    "Coq weak-duality certificate checker (proved sound) run by vm_compute on real fits + formulation theorems", "DESIGN.md §5 C04, §3.2")

add("C02",
    "Theorems over all inputs: system capture of x == capture of the mixed spectrum sum_k x_k source_k (any sizes, all integration rules); "
    "the transformed-matrix route K@A, K@baseline == K(Ax+baseline) for scalar/vector/matrix K; after replace-mode background adaptation with baseline the "
    "relative capture of the background is the all-ones vector (add-mode refuted by witness). Model tied to ReceptorEstimator by kernel-evaluated "
    "agreement on A, system_capture, system_relative_capture, capture/relative_capture of mixtures, and K / relative capture after both adaptation calls.",
    TRUST + "Not modelled: numpy float arithmetic (tolerance 1e-9), domain equalisation (C19).",
    "Coq proof over Q (linearity by induction over sources) + vm_compute correspondence", "DESIGN.md §5 C02")

add("C05",
    "Theorems for ALL n and ALL batch sizes >= 1 (induction / div-mod arithmetic): the batches partition rows 0..n-1 in order, each row solved exactly once, "
    "bs slots per batch with only the last padded, ceil(n/bs) solves, scatter writes each slot back to the row it was built from; slot s of what is handed to the "
    "solver is that row's data only, padded slots are zero; the stacked (block-diagonal) least-squares objective is the sum of per-slot objectives, so a stacked "
    "eps-minimiser eps-minimises every row's own problem; the max-type excitation objective is refuted to decouple (witness). Tie: hook records of EVERY solve "
    "(index, padded, rows, stacked b_ and w_) on the exhaustive (procedure, n, batch_size) grid are compared with the Coq plan by vm_compute, and every run's predicted "
    "captures with the batch_size=1 run.",
    TRUST + "Solvers opaque: 'same predicted captures' asserted to 2e-3 capture units (tight CLARABEL settings) / 2e-2 (excitation, SCS). Hook faithfulness "
    "(values copied after each solve). Separability is proved for the sum-type objective (gaussian; poisson/variance share the block structure), not for the solver itself. "
    "Known finding D14 (excitation couples rows) is reported as KNOWN-FINDING.",
    "Coq proof (nat/list induction, Q algebra) + exact comparison of hook records with the model plan", "DESIGN.md §5 C05")
add("C19",
    "Theorems over all inputs of the Gallina model of equalize_domains: grid starts/ends exactly at the overlap, is uniform, has round-half-even(overlap/step)+1 points; "
    "overlap = [max min, min max], step = coarsest mean step (telescoping lemma); linear interpolation exact at knots, chord between neighbours, linear in values, 0 outside; "
    "identical domains returned unchanged; rejection iff no/too narrow overlap; estimator capture with a foreign domain = capture of interpolated arrays on the grid. "
    "Model tied to dreye.equalize_domains (2-4 domains, unsorted/non-uniform/nested/disjoint/tie cases, rank 1-3 arrays on any axis, stack/concatenate) and "
    "ReceptorEstimator.capture(signals, domain=) by kernel-evaluated agreement.",
    TRUST + "scipy interp1d internals opaque (agreement within 1e-9); N-D <-> rows reshaping and un-stacking done by the harness with numpy; duplicate abscissae "
    "and one-point domains are outside the generator. Reading of 'closest step': nearest integer number of intervals (what arange_with_interval documents); the stricter "
    "reading is refuted in Props/C19.v and not alarmed on.",
    "Coq proof over Q/Z (lists, rounding, interpolation) + vm_compute correspondence", "DESIGN.md §5 C19")

add("C03",
    "(F) for finite bounds the set of captures reproducible by in-bound intensities equals the convex hull of the images of the 2^n box corners (both directions, all sizes); "
    "for unbounded sources (ub = inf; mixed bounds are rejected by the library) the reproducible set equals the cone with apex at the capture of the lower bounds that in_hull_from_A tests (unbounded_gamut_is_cone, all sizes, opponent K included); offset subtraction does not change membership; chromatic (L1-normalised) membership equals membership in the cone over the points. (C) certificate theorems: a checked "
    "in-bound x within tol => target reproducible within tol; a checked hyperplane => NO in-bound intensity reproduces the target (for all x), also in the cone form. Every "
    "answer of ReceptorEstimator.in_hull on seeded systems/targets is judged by these checkers in the Coq VM: interior images must be accepted (every configuration), "
    "targets outside by margin must be rejected (finite bounds, full-dimensional gamut), accepted targets must be reproducible within 1e-6.",
    TRUST + "qhull point location and the cvxpy NNLS fallback are opaque. Certificates from scipy/HiGHS LPs (untrusted). Instances and margins come from a seeded "
    "generator. Known findings D6/D12 (NNLS fallback rejects interior images for unbounded / flat gamuts) are reported as KNOWN-FINDING; rejections are not asserted in "
    "those configurations (as the property says).",
    "Coq proof (zonotope = hull of corner images, by induction on sources) + certificate checkers proved sound and run by vm_compute on real answers", "DESIGN.md §5 C03")

add("C06",
    "(F) EXACTNESS of the Q-model of the basic-solution enumeration, for all sizes: soundness (only in-bound solutions of A'x=b' are kept, so both reported ends of every source are "
    "attained, min<=max, ends within bounds) AND completeness (enumeration_complete / range_is_exact: whenever the capture matrix has m independent columns, every in-bound solution "
    "is bracketed, per source and in both directions, by a kept basic solution -- the fundamental theorem of linear programming for this polytope, proved from scratch over Q: "
    "Gaussian elimination, Steinitz exchange, purification; 1400 lines, no axioms); the enumeration never aborts; the full-rank hypothesis is re-decided exactly inside every verdict (has_basis_b, proved sound), so verdict_gives_exact_range holds case by case: a passing verdict on a real output means the returned ends bracket EVERY in-bound solution within the comparison tolerance, without any further certificate. (C) weak-LP-duality theorems: a multiplier vector bounds x_k over "
    "the WHOLE solution polytope (independent per-case certificate of both ends). Tie: (Xmin, Xmax) of ReceptorEstimator.range_of_solutions / dreye.range_of_solutions agree with the "
    "exact elimination-based enumeration evaluated in the Coq VM, HiGHS dual vectors certify both ends of every source, every spaced solution is re-checked (bounds, reproduction), "
    "out-of-gamut contract (raise / best fit as both ends) judged with separation certificates.",
    TRUST + "np.linalg.solve and the qhull in-gamut gate are opaque (results re-derived / certified); the model solves exactly by elimination (Model/Gauss.v) and accepts without the "
    "code's 1e-9 round-off tolerance (absorbed by the comparison tolerance). _spaced_solutions is judged only through its results.",
    "Coq proof (soundness and completeness of the vertex enumeration over Q, all sizes) + LP-duality certificate checker proved sound, run by vm_compute on real outputs", "DESIGN.md §5 C06, §11.2")

add("C16",
    "(F, over R, every dimension) the closed form of the simplex matrix satisfies the recursion of the code and the recursion determines it uniquely; its rows form a regular "
    "simplex with unit edges; entries are non-negative with squares equal to the rational closed form T2q; the code's equidistance assertion always holds. (F, Q) the "
    "barycentric-to-cartesian map is affine; chromatic reduction is scale invariant. (F, over R) n-sphere round trip s2c(c2s x) = x for every point of every dimension >= 2 "
    "(origin, axes, negative coordinates), radius = Euclidean norm, polar angles in [0,pi], azimuth in [0,2pi]. Tie: the implementation's matrix (n=2..12) is compared "
    "entry-wise (squares, sign) with T2q and its row distances with 1 in the Coq VM; b2c / c2b / dim-reduction outputs are re-derived exactly from that matrix (c2b through "
    "the defining inverse relations and the row sums = L1); n-sphere outputs are checked through the defining relations (radius^2, ranges, zero-tail convention, "
    "reconstruction) in both directions.",
    TRUST + "Axioms: the standard library's real-number axioms (ClassicalDedekindReals.sig_forall_dec, sig_not_dec, FunctionalExtensionality.functional_extensionality_dep) "
    "and Classical_Prop.classic (via stdlib acos), exactly as Print Assumptions reports for Props/C16.v. numpy cos/sin of the angles are supplied as data (checked to lie on "
    "the unit circle with the right quadrant signs); np.linalg.inv is an oracle checked through its defining products; tolerance 1e-9.",
    "Coq proof over R (closed form = recursion, regular simplex, spherical round trip) + rational shadow evaluated by vm_compute on real outputs", "DESIGN.md §5 C16")

add("C12",
    "(F) intensity scaling: one common factor on the light-induced part of every target, ratios unchanged, largest capture = smallest single-source maximum; chromatic scaling "
    "L1*(n^ + alpha(b^ - n^)): total kept, hue direction kept with saturation contracted by alpha, alpha=1 identity, zero rows kept. (C) cone-separation certificate theorem. "
    "Tie: gamut_l1_scaling outputs agree with the exact Q model; for gamut_dist_scaling the common alpha recovered from the output is re-applied exactly (all rows must "
    "agree: common factor, totals, hue), every scaled chromaticity carries a chromatic-gamut membership certificate, maximality of alpha is certified by a separating "
    "hyperplane at alpha+1e-5, and certified-inside sets must be returned unchanged — all evaluated in the Coq VM.",
    TRUST + "qhull facet equations / alpha search are opaque; certificates from HiGHS LPs (untrusted). Systems are restricted to the property's quantifier: finite ub, "
    "full-dimensional chromatic gamut, neutral point strictly inside. The barycentric map's affinity (C16) is what reduces the sqrt-valued computation to the rational formula.",
    "Coq proof over Q (scaling algebra) + cone certificate checkers run by vm_compute on real outputs", "DESIGN.md §5 C12")

add("C13",
    "(F) a sample built from non-negative weights summing to 1 on a simplex whose vertices are rows of the estimator's point cloud (images of box corners) is reproducible "
    "by in-bound intensities (uses the zonotope theorem of C03); it is a convex combination of its simplex; L1-variant totals. Tie: the hook exposes the simplices, "
    "volumes, chosen indices and barycentric weights of every call; the Coq VM checks count = n, weights valid, every simplex vertex is a row of the cloud, volumes = "
    "|det|/d!, and every returned sample = the exact weighted combination; L1 variant: totals on every sample and chromatic-gamut certificates on a subsample. "
    "Uniformity and same-seed determinism are NOT proved: tested only (chi-square on simplex occupancy, run-twice equality).",
    TRUST + "qhull, numpy Generator, scipy QMC opaque. No measure theory for polytopes is available in the installed libraries, so the distributional clause is labelled (T). "
    "Known finding D15 (L1-variant samples outside the gamut) is reported as KNOWN-FINDING.",
    "Coq proof (convexity + zonotope theorem) + exact re-computation of every sample from hooked draws by vm_compute; statistics only as supporting test", "DESIGN.md §5 C13")

add("C17",
    "(C) weak-duality theorem: a passing verdict means NO point satisfying all facet inequalities is closer to the query point than the implementation's projection (for all z). "
    "(F) boundary hit: alpha exists, is positive, alpha*b satisfies every facet inequality and one with equality, no larger multiple stays inside; every crossing point lies on "
    "the plane and on its segment, and conv(all-pairs crossing points) is EXACTLY conv(P) cut by the plane (both inclusions, any dimension). Tie: proj_B_to_hull outputs judged by "
    "KKT-multiplier certificates, alpha_for_B_with_P / B_with_P compared with the exact Q model, proj_P_to_simplex outputs checked to lie on the plane and on segments of the cloud "
    "and to contain every all-pairs crossing point in their hull (convex-weight certificates) — all in the Coq VM. Generators include sharp hulls (d+1..d+3 points) with a fan of "
    "10 queries each and hulls with hundreds of facets (24-40 points in 4-5 D) with rays through facet centroids.",
    TRUST + "quadprog and qhull opaque; multipliers (scipy NNLS) and convex weights (HiGHS) are untrusted certificates; facet equations from scipy ConvexHull define the instance.",
    "Coq proof (weak duality, ray/facet algebra, slice = hull of crossings) + certificate checkers run by vm_compute", "DESIGN.md §5 C17")
add("C18",
    "(F, Q, any fixed direction set) mean width: non-negative, translation invariant, positively homogeneous, monotone under adding points, unchanged by centring; gamut metric: "
    "scale invariant, 1 relative to itself, <= 1 relative to a superset, and <= 1 for ANY cloud of non-negative combinations S R of the reference points R (mean width is monotone under "
    "convex combinations; L1-normalisation + linear barycentric reduction turn non-negative into convex combinations): the estimator's fractional gamut in absolute capture is at most 1; "
    "the reduced-fraction executable model equals the specification model; the exact reference volumes (shoelace polygon area, simplex |det|/d!, box) are translation "
    "invariant and homogeneous of degree d. (F, R) Jensen-Shannon divergence: "
    "symmetric, normalisation invariant, zero exactly for proportional inputs, within [0, 1 bit]. Tie: compute_mean_width / compute_gamut re-computed exactly with the regenerated "
    "directions; compute_volume against shoelace polygons, simplices (det/d!), boxes (also k-dim boxes moved rigidly into R^D), 1-D extents; ReceptorEstimator.compute_gamut(relative=False, "
    "fraction=True) against the exact model on independently recomputed S and R with 0 < value <= 1 in the verdict; JS values enclosed by one Coq Interval goal per case.",
    TRUST + "Axioms: the standard library's real-number axioms + Classical_Prop.classic (stdlib ln/exp), as printed by Props/C18.v; the Interval tactic (checked reflexive evaluator). "
    "numpy's random generator regenerates the directions (opaque). NOT proved, tested only: Monte-Carlo mean width ~ geometric mean width, rotation invariance, hull volume in d >= 3 "
    "beyond simplices/boxes (qhull only witness), invariance of the volume under the harness's rigid embedding, the volume-metric fraction (spec predicate only). Known finding D22.",
    "Coq proof over Q and R + exact re-computation by vm_compute + Interval enclosures for ln", "DESIGN.md §5 C18")

add("C14",
    "(F, by induction over arbitrary histories of the Gallina state machine) queries are pure and can be dropped from any history; every answer is a function of the registered "
    "values; re-registering the adaptation / baseline / targets / system fully replaces the old value for EVERY intermediate history that does not read or write it; registrations "
    "of independent values commute (background adaptation vs baseline refuted, since adaptation reads the baseline). Tie — the substance of this property: EXHAUSTIVE histories "
    "(all ordered pairs of 19 pool operations after a system registration; all triples in the thorough tier) plus random histories of length 4-10 are run on the real object; "
    "after EVERY step its registered values and two capture probes are compared with the model state by the Coq VM; every read-only query is asked twice, caller arrays are "
    "hashed, and a freshly registered twin must answer in_hull / fit(B) / seeded sampling bit-identically (T).",
    TRUST + "The immutable model cannot exhibit aliasing or caching: purity on the real object, bit-identical twins and untouched caller arrays are runtime facts, tested not proved. "
    "fit() with B=None takes the solver's prediction as an oracle input of the model (FitInternal).",
    "Coq proof (state-machine laws by induction over histories) + step-by-step stateful differential run against the model, exhaustive for short histories", "DESIGN.md §5 C14")

add("C15",
    "(F, all s, c > 0) gamut membership is unchanged; the solution polytope is mapped by x -> x/s (ranges scale by exactly 1/s); the weighted squared error of the twin at "
    "x/s is c^2 times the original (scalar/vector/matrix K), so exact minimisers correspond and predictions scale by c. Tie: every problem and its rescaled twin are both run "
    "through the real code; both fits carry the C04 weak-duality certificate in their own units and their predictions must agree up to c at the C04 accuracy of both; range "
    "ends must scale by 1/s (rtol 1e-9); in_hull answers on relative-margin targets must coincide — evaluated in the Coq VM. Asserted while both twins are well-scaled, and in a WIDE stream "
    "(c in [100, 1e4], bounds kept in [0.05, 10]) where the twin's fit certificate is judged at c times the tolerance and a twin fit that does not converge is counted, not asserted; a "
    "stress stream (s, c in [2^-13, 2^13]) is recorded in the evidence, never asserted. Hull targets include points 0.3 % of the gamut extent inside/outside the surface.",
    TRUST + "Solvers/qhull opaque. Known findings D12 / D21 (the flat-gamut NNLS fallback is unit dependent: different answers, or no convergence at small capture units) are reported as KNOWN-FINDING.",
    "Coq proof over Q (equivariance algebra) + paired certified runs compared by vm_compute", "DESIGN.md §5 C15")

add("C08",
    "(F) each of the six secondary objectives handed to cvxpy equals its documented meaning for every x (squared norm with the same minimisers as the norm, total intensity "
    "min/max, n x variance across sources, squared distance of the total to a number, squared distance to a vector); the added constraint is exactly 'weighted capture error "
    "<= l2_eps'. (C) generic weak-duality theorem with second-order-cone rows (Cert/Qp.v): a passing verdict means the returned X optimises the selected objective among ALL "
    "in-bound intensities reproducing the target within l2_eps. Verdict evaluated in the Coq VM on every ReceptorEstimator.fit_underdetermined result, with bounds, "
    "reproduction and prediction checks.",
    TRUST + "Conic solver opaque. Multipliers from a HiGHS LP over the dual (untrusted). Tolerances: objective 1e-4 of its range over the solution polytope, reproduction l2_eps*(1+1e-3)+1e-7.",
    "Coq weak-duality certificate checker with cone rows (proved sound) + formulation theorems", "DESIGN.md §5 C08, §3.2")
add("C09",
    "(F) the code's objective sum(Epsilon @ x^2) is the summed capture variance; explicit variances propagate through K with K^2; default model = squared transformed capture matrix. "
    "(C) a passing verdict means the returned intensities have minimal summed capture variance among ALL in-bound intensities within the error budget (exact best error + l2_eps) "
    "and inside the L1 window when requested — hence never above the ordinary fit. Verdict (incl. reported B_var = variance model applied to X, prediction, feasibility) evaluated "
    "in the Coq VM on every ReceptorEstimator.minimize_variance result; the exact best error comes from an exact-rational active-set solve.",
    TRUST + "Conic solver opaque; dual multipliers from HiGHS (untrusted); the exact best error is computed by the harness (a wrong value can only fail the verdict or weaken the bound). "
    "Feasibility slack 1e-4 capture units, optimality 1e-4 relative. Batched behaviour is C05's.",
    "Coq weak-duality certificate checker with cone + linear rows (proved sound) + formulation theorems", "DESIGN.md §5 C09, §3.2")

add("C10",
    "(F) target = neutral part + offset with zero total; a stacked constraint row acts only on its own sample's intensities and the two common scales; column sums give the total "
    "capture; with zero deltas the scales (1,1) are feasible for a sample exactly when its target is reproduced. (C) weak-duality theorem: a passing verdict means no feasible "
    "(intensities, scales) of the formulation model has a better objective ('unity' distance to (1,1) / 'max' weighted sum). Verdict (bounds, both constraint groups within the "
    "deltas, positive scales, prediction, optimality) evaluated in the Coq VM on every ReceptorEstimator.fit_adaptive result.",
    TRUST + "Solver opaque (CLARABEL passed explicitly: the default ECOS is not installed here — recorded per run in the evidence as an environment fact, not a violation). "
    "Dual multipliers from HiGHS (untrusted). Instances where no feasible (X, scales) exists are outside the property's premise and skipped (feasibility decided by an LP).",
    "Coq weak-duality certificate checker (linear rows, unbounded scale variables) + formulation lemmas", "DESIGN.md §5 C10, §3.2")

add("C11",
    "(F) the X-step and P-step matrices of the formulation model applied to vec X / vec P reproduce the weighted residual W o (P X A'^T - Bs), so both sub-problem objectives ARE the "
    "squared fitting error (all shapes); the mask bounds force masked entries to 0 and the paired equal-total rows force equal layer totals; alternating eps-optimal half-steps form a "
    "descent sequence whatever the start and the iteration count. (C) a passing verdict on a run means: every intensity within bounds / zero under the mask, equal layer totals when "
    "requested, opacities within bounds (entrywise theorems, tolerance explicit), B_pred = model capture of P X, the recorded error sequence (one value per half-step, hook) never "
    "rose, the final X refit did not raise it, and (weak duality) NO admissible factor of the same shape has a smaller squared error than the factor fitted last given the other. "
    "Verdict evaluated in the Coq VM on every ReceptorEstimator.fit_decomposition result. (T) same seed => same result: every case run twice.",
    TRUST + "Solvers (default SCS, CLARABEL) opaque; multipliers from HiGHS (untrusted). The NMF initialisation and the termination rule are not modelled (the theorems hold for any "
    "start and any number of iterations); the per-iteration losses are the implementation's own numbers read through the DREYE_VERIF hook decomp.loss. lb = 0 in every generated system "
    "(a positive lower bound on a masked source makes the implementation's problem infeasible; the model replaces the bound by 0 there). Seed determinism is a test, not a theorem.",
    "Coq weak-duality certificate checker (proved sound) + formulation/descent theorems + hook-observed loss sequence", "DESIGN.md §5 C11, §3.2")

add("C07",
    "(F) excitation: |b/(1+b) - p/(1+p)| = |b-p|/((1+b)(1+p)); error >= 0 and zero iff captures agree; every point with error <= s lies in an explicit polyhedron, so a Farkas "
    "certificate for that polyhedron proves that EVERY in-bound intensity vector has error > s. (F over R) Poisson: the rational Frank-Wolfe gap at a point bounds its WEIGHTED "
    "negative-log-likelihood excess over EVERY in-bound vector with positive capture (from ln t <= t - 1); through an untrusted reference point x0 the excess of the returned point is "
    "bounded by tangent(x -> x0) + gap(x0), tight to first order; the likelihood is minimised exactly at capture = target. Verdicts (bounds, positivity, prediction, reference "
    "certificate / Farkas certificate at error - 3e-3 (the accuracy of the default SCS bisection), in-gamut reproduction by poisson, excitation and gaussian) evaluated in the Coq VM on every fit; Poisson cases carry per-receptor "
    "weights and are fitted as one row of a batch with several batch sizes.",
    TRUST + "Axioms for the Poisson theorems: the standard library's real-number axioms + Classical_Prop.classic (stdlib ln/exp), as printed by Props/C07.v. Solvers (CLARABEL, SCS "
    "bisection) opaque; Farkas multipliers from HiGHS (untrusted). The Poisson certificate needs a bounded box: the asserted stream uses finite bounds (infinite ub not covered). "
    "The returned point is clipped into the box (by at most 1% of the bound range with default settings) before the certificates are evaluated.",
    "Coq proof over Q and R (convexity via ln t <= t-1, level-set polyhedron) + gap / Farkas certificate checkers run by vm_compute", "DESIGN.md §5 C07")

NOT_APPLICABLE = []
ALL = ["C%02d" % i for i in range(1, 21)]

def main():
    checks = []
    for pid in ALL:
        if pid not in CHECKS:
            continue
        c = CHECKS[pid]
        checks.append({
            "property_id": pid,
            "quick_cmd": "./check %s --tier quick" % pid,
            "thorough_cmd": "./check %s --tier thorough" % pid,
            "evidence_file": "evidence/%s.json" % pid,
            "replay_cmd_template": "./check %s --replay {path}" % pid,
            "engine": "coq-correspondence",
            "level_claimed": {"category": "proof", "text": c["text"], "design_ref": c["design"]},
            "level_note": c["note"],
            "technique": c["technique"],
        })
    na = [x for x in NOT_APPLICABLE]
    claimed = set(CHECKS)
    listed = {x["property_id"] for x in na}
    for pid in ALL:
        if pid not in claimed and pid not in listed:
            na.append({"property_id": pid, "reason": "check not built yet in this snapshot (work in progress; see DESIGN.md §8 order of work) — not a statement that the technique cannot apply"})
    m = {
        "version": 1,
        "setup_cmd": "cd coq && coq_makefile -f _CoqProject -o Makefile && timeout 3000 make -j16",
        "hooks": {"guard": "DREYE_VERIF", "enable": "DREYE_VERIF=1 in the environment (set by ./check); hooks live in dreye/api/_verif.py",
                  "baseline_off_cmd": "cd /repo && /venv/bin/python -m pytest -ra -q -p no:cacheprovider --timeout=900 --continue-on-collection-errors",
                  "source_commits": json.load(open(os.path.join(HERE, "hooks.json")))["source_commits"] if os.path.exists(os.path.join(HERE, "hooks.json")) else [],
                  "add_only": True},
        "engines": [{"name": "coq-correspondence", "path": "check", "serves_properties": sorted(claimed),
                     "kind_free_text": "Coq 8.16 development (coq/) + python harness (harness/) that re-checks Props/<id>.v and evaluates model-vs-implementation verdicts with vm_compute on every run"}],
        "checks": checks,
        "not_applicable": na,
        "notes": "See DESIGN.md. known_findings.json lists recorded/fixed defects; seeded/ holds validated breaking changes.",
    }
    json.dump(m, open(os.path.join(HERE, "MANIFEST.json"), "w"), indent=1)
    print("wrote MANIFEST.json with", len(checks), "checks;", len(na), "not_applicable")

if __name__ == "__main__":
    main()
