"""C15 — results are equivariant under a change of physical units.  Model: coq/Model/Equiv.v."""
import numpy as np
import core
from core import Prop, q, qv, qm, cbool, cnat
from p_C04 import C04, HI, lsq_case_term, base_vec
import gen_sys as gs
import lp_cert


def twin_sys(sys, s, c):
    t = dict(sys)
    t["A"] = np.asarray(sys["A"]) * (c * s)
    t["lb"] = np.asarray(sys["lb"]) / s
    t["ub"] = np.asarray(sys["ub"]) / s
    t["baseline"] = (np.asarray(sys["baseline"]) * c) if np.ndim(sys["baseline"]) else sys["baseline"] * c
    return t


def in_regime(sys, b):
    lbv, ubv = np.asarray(sys["lb"]), np.asarray(sys["ub"])
    fin = np.isfinite(ubv)
    if np.any(ubv[fin] > 10) or np.any(ubv[fin] < 0.05) or np.any(lbv > 10) or np.any((lbv > 0) & (lbv < 0.05)):
        return False
    return bool(gs.well_scaled(np.asarray(sys["A"]), lbv, ubv, sys["K"], sys["baseline"]) and np.all(np.asarray(b) >= 1) and np.all(np.asarray(b) <= 100))


class C15(Prop):
    id = "C15"
    coq_imports = "From DV Require Import Model.Linear Cert.Duality Cert.Hull Model.Lsq Model.Range Model.Equiv."
    case_type = "Equiv.case"
    verdict = "Equiv.verdict"
    shard = 20
    rule = ("well-scaled systems and targets as in C03/C04/C06, unit changes s (intensity) and c (capture) that are powers of two (exact rescaling in floating point) or "
            "arbitrary, chosen so that BOTH twins stay in the well-scaled regime (asserted stream), plus a WIDE asserted stream with c in [100, 1e4] (captures >= 1 without upper limit, bounds kept in [0.05, 10]) in which membership, range ends and predictions must still scale exactly and the twin's fit certificate is judged at c times the tolerance; per pair: fit (default and tight solver settings), in_hull on targets "
            "inside/outside by a relative margin, range_of_solutions for underdetermined systems (with equally spaced solutions requested when there is one surplus source); the fitted target is the first row of a call with up to three more targets in 40 % of the pairs. A stress stream with s, c in [1e-4, 1e4] outside the regime is run and "
            "recorded in the evidence but never asserted (as the property says). non-trivial = s != 1 and c != 1")
    assumptions = ["both fits carry the C04 weak-duality certificate in their own units; predictions are compared at the C04 accuracy of both twins (2e-2 / 2e-3 capture units each)",
                   "range ends compared at rtol 1e-9; membership compared on targets with a relative margin"]
    modelled = "no rescaling anywhere in lsq_linear / in_hull / _range_of_solutions: equivariance theorems on the spec level (Proofs/EquivP.v), both twins run through the real code"

    def sizes(self, tier):
        return 90 if tier == "quick" else 1500

    def gen(self, rng, n, tier):
        cases = []
        tries = 0
        while len(cases) < n and tries < 50 * n:
            tries += 1
            under = rng.random() < 0.4
            sys = gs.gen_system(rng, mrange=(2, 4), nrange=(2, 6), finite_ub=True, shape=("under" if under else None))
            intb = False
            if rng.random() < 0.2:
                # whole-number bounds, handed over as integer arrays in the original units (the twin's bounds ub/s are floats)
                lb2 = np.zeros(sys["n"]); ub2 = np.ceil(np.asarray(sys["ub"], dtype=float))
                if gs.well_scaled(sys["A"], lb2, ub2, sys["K"], sys["baseline"]):
                    sys = dict(sys, lb=lb2, ub=ub2); intb = True
            got = gs.gen_target_regime(rng, sys, rng.choice(["inside", "outside", "face", "far"]))
            if got is None:
                continue
            kind, b, x = got
            stress = rng.random() < 0.15
            wide = (not stress) and rng.random() < 0.3
            if stress:
                s = 2.0 ** rng.randint(-13, 13); c = 2.0 ** rng.randint(-13, 13)
            elif wide:
                # captures >= 1 with no upper limit: capture units up to 1e4 times smaller, intensity bounds kept in [0.05, 10]
                c = rng.choice([2.0 ** rng.choice([7, 8, 9, 10, 11, 12, 12, 13, 13, 13]), float(int(10 ** rng.uniform(2, 4)))]); s = rng.choice([0.25, 0.5, 1.0, 2.0, 4.0, 4.0, rng.uniform(0.3, 3.0)])
            else:
                s = rng.choice([0.25, 0.5, 2.0, 4.0, 1.0, rng.uniform(0.3, 3.0), 0.0625, 0.125, 8.0, 16.0, 32.0]); c = rng.choice([0.25, 0.5, 2.0, 4.0, 8.0, 1.0, rng.uniform(0.3, 6.0), 0.0625, 0.03125])
            ts = twin_sys(sys, s, c)
            if wide:
                tub = np.asarray(ts["ub"]); tlb = np.asarray(ts["lb"])
                ok = in_regime(sys, b) and not (np.any(tub > 10) or np.any(tub < 0.05) or np.any(tlb > 10) or np.any((tlb > 0) & (tlb < 0.05)))
            else:
                ok = in_regime(sys, b) and in_regime(ts, np.asarray(b) * c)
            if not stress and not ok:
                continue
            ser = lambda d: {k: (v.tolist() if isinstance(v, np.ndarray) else v) for k, v in d.items()}
            extra = []
            if rng.random() < 0.4:
                for _ in range(rng.randint(1, 3)):
                    g2 = gs.gen_target_regime(rng, sys, rng.choice(["inside", "outside", "far"]))
                    if g2 is not None and (stress or wide or in_regime(ts, np.asarray(g2[1]) * c)):
                        extra.append(np.asarray(g2[1]).tolist())
            cases.append({"sys": ser(sys), "b": np.asarray(b).tolist(), "x": None if x is None else np.asarray(x).tolist(), "tk": kind,
                          "extra": extra, "spaced": (rng.choice([3, 5]) if rng.random() < 0.6 else None),
                          "s": float(s), "c": float(c), "acc": rng.choice(["default", "high"]), "stress": bool(stress and not ok), "under": under, "wide": bool(wide), "intb": intb,
                          "kind": "%s/%s/%s" % ("stress" if (stress and not ok) else ("wide" if wide else "asserted"), kind, "under" if sys["n"] > sys["m"] else "det")})
        return cases

    def one(self, sys, b, case, hull_targets, ints=False, extra=()):
        if ints:
            sys = dict(sys, lb=np.asarray(sys["lb"]).astype(int), ub=np.asarray(sys["ub"]).astype(int))
        est = gs.make_estimator(sys)
        kw = dict(HI) if case["acc"] == "high" else {}
        r = {}
        try:
            # the judged target is the first of several fitted in one call (the others: the same targets in the twin's units)
            X, Bp = est.fit(np.vstack([np.asarray(b)[None]] + ([np.asarray(extra)] if len(extra) else [])), **kw)
            r["X"] = np.asarray(X, dtype=float)[0].tolist(); r["Bpred"] = np.asarray(Bp, dtype=float)[0].tolist()
        except Exception as e:  # noqa
            r["fit_error"] = "%s: %s" % (type(e).__name__, str(e)[:80])
        try:
            r["hull"] = [bool(v) for v in np.asarray(est.in_hull(np.asarray(hull_targets))).ravel()]
        except Exception as e:  # noqa
            r["hull_error"] = type(e).__name__
        if sys["n"] > sys["m"] and case["tk"] == "inside":
            try:
                if sys["n"] == sys["m"] + 1 and case.get("spaced"):
                    # equally spaced solutions requested as well (one surplus source: exactly n of them, in a fixed order)
                    mn, mx, Xs = est.range_of_solutions(np.asarray(b)[None], n=case["spaced"])
                    r["spaced"] = np.asarray(Xs[0], dtype=float).tolist()
                else:
                    mn, mx = est.range_of_solutions(np.asarray(b)[None])
                r["rng"] = [np.asarray(mn, dtype=float)[0].tolist(), np.asarray(mx, dtype=float)[0].tolist()]
            except Exception as e:  # noqa
                r["rng_error"] = type(e).__name__
        return r

    def hull_targets(self, case, sys):
        """targets with a RELATIVE margin: images of interior intensities, and those pushed outside by 5 % of the gamut extent"""
        lb, ub = np.asarray(sys["lb"]), np.asarray(sys["ub"])
        rs = np.random.default_rng(abs(hash(str(case["b"]))) % (2**31))
        T = []
        Ap, bp = gs.K_apply(sys["K"], np.asarray(sys["A"]), base_vec(sys["baseline"], sys["m"]))
        ext = np.abs(Ap) @ (ub - lb)
        for k in range(4):
            x = lb + (ub - lb) * rs.integers(3, 14, size=sys["n"]) / 16
            p = gs.rel_capture(sys, x)
            T.append(p)
            y, gap = None, -1
            cand = p + ext * np.where(rs.random(sys["m"]) < 0.5, 1.5, -1.5)
            y, gap = lp_cert.separation(np.asarray(Ap, dtype=float), np.asarray(bp, dtype=float), lb, ub, cand)
            if y is not None and gap / (np.max(ext) or 1) > 0.05:
                T.append(cand)
                # targets hugging the gamut surface: 0.3 % of the gamut extent inside / outside the crossing of the segment p -> cand
                Apf, bpf = np.asarray(Ap, dtype=float), np.asarray(bp, dtype=float)
                lo, hi = 0.0, 1.0
                for _ in range(40):
                    mid = (lo + hi) / 2
                    xm, inf = lp_cert.member(Apf, bpf, lb, ub, p + mid * (cand - p))
                    if xm is not None and inf <= 1e-9:
                        lo = mid
                    else:
                        hi = mid
                d = 0.003 * np.max(ext) / (np.linalg.norm(cand - p) or 1)
                for t in (lo - d, hi + d):
                    pt = p + t * (cand - p)
                    xm, inf = lp_cert.member(Apf, bpf, lb, ub, pt)
                    if t < lo and t > 0 and xm is not None and inf <= 1e-9:
                        T.append(pt)
                    elif t > hi:
                        y2, gap2 = lp_cert.separation(Apf, bpf, lb, ub, pt)
                        if y2 is not None and gap2 / (np.max(ext) or 1) > 5e-4:
                            T.append(pt)
        return np.array(T)

    def run_impl(self, case):
        sys = C04.sysnp(case)
        s, c = case["s"], case["c"]
        ts = twin_sys(sys, s, c)
        T = self.hull_targets(case, sys)
        ex = np.asarray(case.get("extra") or np.zeros((0, sys["m"])), dtype=float)
        r1 = self.one(sys, np.asarray(case["b"]), case, T, ints=bool(case.get("intb")), extra=ex)
        r2 = self.one(ts, np.asarray(case["b"]) * c, case, T * c, extra=ex * c)
        return {"orig": r1, "twin": r2}

    def tols(self, case):
        return 2e-3 if case["acc"] == "high" else 2e-2

    def emit(self, case, out):
        if "error" in out:
            raise ValueError("raised %s" % out["error"])
        if case["stress"]:
            return None          # stress exploration: recorded, never asserted
        sys = C04.sysnp(case); s, c = case["s"], case["c"]; ts = twin_sys(sys, s, c)
        r1, r2 = out["orig"], out["twin"]
        tolc = self.tols(case)
        wide = case.get("wide", False)
        def fitterm(sy, b, r, scale=1.0):
            if "X" not in r:
                return "None"
            rngs = [(u - l) for l, u in zip(sy["lb"], sy["ub"])]
            tolb = [(1e-6 if case["acc"] == "high" else 1e-2) * v for v in rngs]
            return "(Some %s)" % lsq_case_term(sy, [1.0] * sy["m"], list(b), r["X"], r["Bpred"], tolc * scale, tolb)
        # wide stream: the twin's captures are beyond C04's 100 units, so its fit accuracy (and a failure to converge) is judged in ITS units: errors scale by c
        f1 = fitterm(sys, case["b"], r1); f2 = fitterm(ts, (np.asarray(case["b"]) * c).tolist(), r2, max(1.0, c) if wide else 1.0)
        if wide and (f1 == "None" or f2 == "None"):
            f1 = f2 = "None"
        bl = lambda v: "[" + ";".join(cbool(x) for x in v) + "]"
        rg = lambda r: "(Some (%s, %s))" % (qv(r["rng"][0]), qv(r["rng"][1])) if "rng" in r else "None"
        sp = lambda r: qm(r["spaced"]) if ("spaced" in r and "spaced" in r1 and "spaced" in r2) else "[]"
        return "(Equiv.Build_case %s %s %s %s %s %s %s %s %s %s %s %s)" % (
            q(s), q(c), f1, f2, bl(r1.get("hull", [])), bl(r2.get("hull", [])), rg(r1), rg(r2), sp(r1), sp(r2), q(tolc * (1 + 1 / c)), q(1e-9))

    def spec_violation(self, case, out):
        if "error" in out:
            return {"what": "raised %s: %s" % (out["error"], out.get("msg", "")[:120]), "class": "raises:" + out["error"]}
        if case["stress"]:
            return None
        r1, r2 = out["orig"], out["twin"]; s, c = case["s"], case["c"]
        for k in ("fit_error", "hull_error", "rng_error"):
            if k == "fit_error" and case.get("wide") and "fit_error" not in r1:
                continue          # recorded in the evidence: a twin with captures far above 100 units is outside the regime in which C04 asserts convergence
            if (k in r1) != (k in r2):
                return {"what": "%s only for one of the twins (s=%r, c=%r): %r vs %r" % (k, s, c, r1.get(k), r2.get(k)), "class": "one-twin-fails:" + k + (":flat" if case["sys"]["n"] < case["sys"]["m"] else "")}
        if r1.get("hull") != r2.get("hull"):
            return {"what": "gamut membership differs between a problem and its rescaled twin (s=%r, c=%r): %s vs %s" % (s, c, r1.get("hull"), r2.get("hull")), "class": "hull-differs:%s" % ("flat" if case["sys"]["n"] < case["sys"]["m"] else "fulldim")}
        if "rng" in r1 and "rng" in r2:
            a = np.array(r1["rng"]) / s; b_ = np.array(r2["rng"])
            if np.max(np.abs(a - b_)) > 1e-9 * (1 + np.max(np.abs(b_))):
                return {"what": "solution ranges do not scale by 1/s (s=%r): %s vs %s" % (s, a.tolist(), b_.tolist()), "class": "range-scale"}
        if "spaced" in r1 and "spaced" in r2:
            a = np.array(r1["spaced"]) / s; b_ = np.array(r2["spaced"])
            if a.shape != b_.shape or np.max(np.abs(a - b_)) > 1e-9 * (1 + np.max(np.abs(b_))):
                return {"what": "equally spaced solutions do not scale by 1/s (s=%r): %s vs %s" % (s, a.tolist()[:2], b_.tolist()[:2]), "class": "spaced-scale"}
        if "Bpred" in r1 and "Bpred" in r2:
            tol = self.tols(case) * (1 + c)
            d = np.max(np.abs(np.array(r1["Bpred"]) * c - np.array(r2["Bpred"])))
            if d > tol:
                return {"what": "predicted captures do not scale by c=%r (s=%r): max deviation %.3g in the twin's units (> %.3g)" % (c, s, d, tol), "class": "pred-scale"}
        return None

    def nontrivial(self, case, out):
        return (not case["stress"]) and case["s"] != 1.0 and case["c"] != 1.0

    def entry(self, case):
        return "ReceptorEstimator.fit / in_hull / range_of_solutions on a problem and its rescaled twin"

    def extra_coverage(self, ctx):
        st = [(c, o) for c, o in zip(ctx["cases"], ctx["outs"]) if c["stress"]]
        dev = []
        for c, o in st:
            r1, r2 = o.get("orig", {}), o.get("twin", {})
            if "Bpred" in r1 and "Bpred" in r2:
                dev.append(float(np.max(np.abs(np.array(r1["Bpred"]) * c["c"] - np.array(r2["Bpred"]))) / c["c"]))
        wd = [(c, o) for c, o in zip(ctx["cases"], ctx["outs"]) if c.get("wide")]
        return {"wide_pairs_asserted (c in [100, 1e4])": len(wd),
                "wide_twin_fit_failures_recorded_not_asserted": sum(1 for c, o in wd if "fit_error" in o.get("twin", {}) and "fit_error" not in o.get("orig", {})),
                "stress_pairs_recorded_not_asserted": len(st), "stress_max_prediction_deviation_in_original_units": (max(dev) if dev else None),
                "stress_failures": sum(1 for c, o in st if "fit_error" in o.get("twin", {}) or "fit_error" in o.get("orig", {}))}

    def describe(self, case, out):
        return {"case": core.hexf(core.pub(case)), "out": core.hexf(out)}

    def plant(self, cases, outs):
        k = next(i for i, (c, o) in enumerate(zip(cases, outs)) if not c["stress"] and "rng" in o.get("twin", {}))
        self.planted_index = k
        outs[k]["twin"]["rng"][1][0] *= (1 + 1e-6)


PROP = C15()
