#!/usr/bin/env python3
"""seeded/README.md from seeded/REPLAY.json and the metas: which registered check catches which stored change."""
import json, os, glob
VERIF = os.path.dirname(os.path.dirname(os.path.abspath(__file__)))
rep = json.load(open(os.path.join(VERIF, "seeded", "REPLAY.json")))
rows = []
R3 = {"C02", "C03", "C04", "C05", "C06", "C09", "C12", "C13", "C17", "C19"}
for d in sorted(glob.glob(os.path.join(VERIF, "seeded", "C*-*"))):
    name = os.path.basename(d); m = json.load(open(os.path.join(d, "meta.json"))); r = rep.get(name, {})
    what = " ".join((m.get("what") or "").split())[:170]
    if not r.get("applies", False):
        res = "patch does not apply to %s" % r.get("repo", "?")
    else:
        parts = []
        for c, v in r["checks"].items():
            parts.append("%s: %s" % (c, ("VIOLATION x%d (%s)%s" % (v["violations"], ", ".join(sorted(set(x for x in v["classes"] if x)))[:90],
                                                              "" if v["with_failing_input"] else " no-failing-input-found") if v["violations"] else "passes")))
        res = "; ".join(parts)
    rows.append((name, "round %d" % (1 if int(name.split("-")[1]) <= 3 else 2 if int(name.split("-")[1]) <= 6 else 5 if int(name.split("-")[1]) >= 10 else (3 if name.split("-")[0] in R3 else 4)), ", ".join(r.get("caught_by", [])) or "**not caught (quick tier)**", res, what))
caught = sum(1 for r in rows if not r[2].startswith("**"))
out = ["# Seeded changes", "",
       "Each directory holds `patch.diff` (against /repo), `demo.py` (passes on the clean tree, fails with the patch) and `meta.json`.",
       "Written by fresh sub-agents that saw only the property text and a scratch worktree; validated (demo clean/patched, pytest pass-set unchanged) before use.",
       "Replayed by `harness/seed_replay_wt.py` (each patch applied in its own scratch worktree of /repo HEAD, the registered quick check(s) run against it through `DREYE_REPO`, `VERIF_NO_EVIDENCE=1`); `harness/seed_replay.py` does the same on /repo itself (112 of the changes were also replayed that way in this session, with the same outcome). /repo commit of the replay: %s." % (
           sorted(set(v.get("repo", "?") for v in rep.values()))),
       "", "%d of %d stored changes are caught by a registered quick check." % (caught, len(rows)), "",
       "| change | round | caught by | detail | what the change does |", "|---|---|---|---|---|"]
for r in rows:
    out.append("| %s | %s | %s | %s | %s |" % r)
open(os.path.join(VERIF, "seeded", "README.md"), "w").write("\n".join(out) + "\n")
print("%d/%d caught" % (caught, len(rows)))
