"""C13 — samples drawn in the gamut are in the gamut, reproducible and uniform.  Model: coq/Model/Sampling.v."""
from fractions import Fraction as Fr
import numpy as np
import core
from core import Prop, q, qv, qm, qt, cnat, cnats, dyad
from p_C04 import kmat_lit, base_vec, C04
import gen_sys as gs
import lp_cert


class C13(Prop):
    id = "C13"
    coq_imports = "From DV Require Import Model.Linear Cert.Hull Model.Range Model.Sampling."
    case_type = "Sampling.gcase"
    verdict = "Sampling.gverdict"
    shard = 12
    rule = ("dreye.sample_in_hull on point clouds in 2-4 dimensions (random, with interior points, nearly collinear points, strongly skewed hulls) and "
            "ReceptorEstimator.sample_in_gamut on systems with 2-4 receptors (with and without l1); n in {1, 2, 10, 300}; engines None / Halton / Sobol / LHC; several seeds. "
            "Hook sample.draw exposes the Delaunay simplices, volumes, chosen simplex indices and barycentric weights of every call. "
            "non-trivial = more than one simplex and n >= 10, or a QMC engine, or the l1 variant")
    assumptions = ["qhull triangulation, numpy Generator and scipy QMC engines are opaque: the draws are read from the hook and the deterministic combination is re-computed exactly",
                   "NOT proved (T): uniformity (fixed-seed chi-square over simplices, threshold p<1e-6) and same-seed determinism (run twice, array equality)",
                   "L1 variant: totals checked on every sample, chromatic-gamut certificates (HiGHS, untrusted) on a subsample of <= 25"]
    modelled = "sampling.sample_in_hull: einsum combination, volume weights |det|/d!; estimator.sample_in_hull wrapper (P = corner images; L1 variant via barycentric reduction). Opaque: ConvexHull/Delaunay, rng.choice, dirichlet, QMC"

    def sizes(self, tier):
        return 100 if tier == "quick" else 1000

    def gen(self, rng, n, tier):
        cases = []
        for i in range(n):
            engine = rng.choice([None, None, "Halton", "Sobol", "LHC"])
            nn = rng.choice([1, 2, 10, 10, 300 if tier == "quick" else 2000])
            if engine == "Sobol" and nn not in (1, 2):
                nn = rng.choice([8, 16, 256])
            seed = rng.choice([0, 0, 1] + [rng.randint(0, 10**6)] * 12)      # seed 0 is a seed like any other
            if rng.random() < 0.6:
                d = rng.randint(2, 4)
                shape = rng.choice(["random", "interior", "collinear", "skewed"])
                npts = rng.randint(d + 2, d + 8)
                P = [[dyad(rng, 0, 8, 8) for _ in range(d)] for _ in range(npts)]
                if shape == "interior":
                    c = np.mean(P, axis=0); P += [(c + 0.125 * np.array([rng.randint(-2, 2) for _ in range(d)])).tolist() for _ in range(3)]
                elif shape == "collinear":
                    a, b = np.array(P[0]), np.array(P[1])
                    P += [(a + (b - a) * t + 1 / 1024 * np.array([rng.randint(-1, 1) for _ in range(d)])).tolist() for t in (0.25, 0.5, 0.75)]
                elif shape == "skewed":
                    P = [[v * (64 if j == 0 else 1) for j, v in enumerate(r)] for r in P]
                # the same cloud in other units (exact power-of-two rescaling, undone on everything returned), or whole-number clouds with an integer dtype
                scale = 1.0 if rng.random() < 0.3 else 2.0 ** -rng.randint(1, 24)      # every order of magnitude down to 6e-8: derived volumes cross any absolute threshold
                ints = False
                if shape == "random" and rng.random() < 0.3:
                    for _ in range(50):
                        P = [[float(rng.randint(0, 6)) for _ in range(d)] for _ in range(npts)]
                        Pa = np.array(P)
                        if np.linalg.matrix_rank(Pa - Pa.mean(axis=0)) == d:       # a flat cloud has no interior to sample from: outside the property
                            break
                    ints = True; scale = 1.0
                cases.append({"entry": "function", "P": P, "n": nn, "engine": engine, "seed": seed, "scale": scale, "ints": ints,
                              "kind": "cloud/%dd/%s/%s/n%d%s%s" % (d, shape, engine, nn, "" if scale == 1.0 else "/scaled", "/int" if ints else "")})
            else:
                m0 = rng.randint(2, 4)
                sys = gs.gen_system(rng, mrange=(m0, m0), nrange=(m0, 5), finite_ub=True, lb_zero=(rng.random() < 0.6), Kkind=rng.choice(["none", "scalar", "vector"]))
                if rng.random() < 0.25:
                    # one source held at a fixed non-zero intensity (a constant background light): lb == ub there
                    j = rng.randrange(sys["n"]); lbh = np.array(sys["lb"], dtype=float); ubh = np.array(sys["ub"], dtype=float)
                    lbh[j] = ubh[j] = float(ubh[j]) / 2
                    if sys["n"] - 1 >= m0 and gs.well_scaled(sys["A"], lbh, np.where(ubh > lbh, ubh, lbh + 1e-9), sys["K"], sys["baseline"]):
                        sys = dict(sys, lb=lbh, ub=ubh)
                l1 = None
                if rng.random() < 0.35:
                    ext = float(np.sum(gs.rel_capture(sys, sys["ub"] * 0.5)))
                    l1 = float(np.round(ext * rng.choice([0.5, 1.0, 1.5]) * 8) / 8)
                relative = rng.random() < 0.7
                cases.append({"entry": "estimator", "sys": {k: (v.tolist() if isinstance(v, np.ndarray) else v) for k, v in sys.items()},
                              "n": nn, "engine": engine, "seed": seed, "l1": l1, "relative": relative,
                              "kind": "estimator/m%d/%s/n%d/%s" % (m0, engine, nn, "l1" if l1 else "plain")})
        return cases

    def call(self, case):
        import dreye
        core.drain_hooks()
        if case["entry"] == "function":
            sc = case.get("scale", 1.0)
            Pin = np.array(case["P"], dtype=float) * sc
            if case.get("ints"):
                Pin = Pin.astype(np.int64)
            out = np.asarray(dreye.sample_in_hull(Pin, case["n"], seed=case["seed"], engine=case["engine"]), dtype=float) / sc
        else:
            est = gs.make_estimator(C04.sysnp(case))
            out = est.sample_in_gamut(n=case["n"], seed=case["seed"], engine=case["engine"], l1=case["l1"], relative=case["relative"])
        rec = [h[1] for h in core.drain_hooks() if h[0] == "sample.draw"]
        sc = case.get("scale", 1.0) if case["entry"] == "function" else 1.0
        if sc != 1.0:
            for r in rec:
                r["deln"] = np.asarray(r["deln"], dtype=float) / sc
                r["vols"] = np.asarray(r["vols"], dtype=float) / sc ** np.asarray(r["deln"]).shape[-1]
        return np.asarray(out, dtype=float), rec

    def run_impl(self, case):
        out, rec = self.call(case)
        out2, _ = self.call(case)
        r = rec[-1] if rec else None
        res = {"out": out.tolist(), "same_seed_same_result": bool(np.array_equal(out, out2))}
        if r is not None:
            res.update({"deln": np.asarray(r["deln"], dtype=float).tolist(), "vols": np.asarray(r["vols"], dtype=float).tolist(),
                        "idx": [int(i) for i in np.asarray(r["sample_indices"]).ravel()], "probs": np.asarray(r["probs"], dtype=float).tolist()})
        return res

    def transformed(self, case):
        sys = C04.sysnp(case)
        m = sys["m"]
        if case["relative"]:
            Ap, bp = gs.K_apply(sys["K"], sys["A"], base_vec(sys["baseline"], m))
        else:
            Ap, bp = sys["A"], np.zeros(m)
        return sys, np.asarray(Ap, dtype=float), np.asarray(bp, dtype=float)

    def cloud(self, case):
        if case["entry"] == "function":
            return np.array(case["P"], dtype=float)
        from dreye.api.convex import get_P_from_A
        sys = C04.sysnp(case)
        return get_P_from_A(sys["A"], sys["lb"], sys["ub"], K=(np.atleast_1d(sys["K"]) if (case["relative"] and sys["K"] is not None) else None),
                            baseline=(sys["baseline"] if case["relative"] else None), bounded=True)

    def emit(self, case, out):
        if "error" in out:
            raise ValueError("raised %s: %s" % (out["error"], out.get("msg")))
        if case["entry"] == "estimator" and case["l1"] is not None:
            sys, Ap, bp = self.transformed(case)
            m = sys["m"]
            O = np.array(out["out"], dtype=float)
            step = max(1, len(O) // 25)
            sub = O[::step][:25]
            xs = []
            for o in sub:
                x, t, inf = lp_cert.cone_member(Ap, bp, sys["lb"], sys["ub"], o)
                xs.append(np.clip(x, sys["lb"], sys["ub"]).tolist() if x is not None else [0.0] * sys["n"])
            K = sys["K"] if case["relative"] else None
            base = base_vec(sys["baseline"], m) if case["relative"] else np.zeros(m)
            return "(Sampling.GL (Sampling.Build_lcase %s %s %s %s %s %s %s %s %s %s %s %s %s))" % (
                qm(sys["A"].tolist()), cnat(sys["n"]), qv(sys["lb"].tolist()), qv(sys["ub"].tolist()), kmat_lit(K, m), qv(base.tolist()),
                q(case["l1"]), cnat(case["n"]), qm(out["out"]), qm(sub.tolist()), qm(xs), q(1e-9), q(1e-6))
        P = self.cloud(case)
        from scipy.spatial import ConvexHull
        hv = float(ConvexHull(P).volume) if P.shape[1] > 1 else float(P.max() - P.min())
        return "(Sampling.GS (Sampling.Build_case %s %s %s %s %s %s %s %s %s %s %s))" % (
            qm(P.tolist()), cnat(P.shape[1]), cnat(case["n"]), qt(out["deln"]), qv(out["vols"]), cnats(out["idx"]), qm(out["probs"]),
            qm(out["out"]), q(hv), q(1e-10), q(1e-9))

    def spec_violation(self, case, out):
        cfg = "%s/%s" % (case["entry"], "l1" if case.get("l1") else "plain")
        if "error" in out:
            return {"what": "sampling raised %s: %s" % (out["error"], out.get("msg", "")[:140]), "class": "raises:%s:%s" % (out["error"], cfg)}
        O = np.array(out["out"], dtype=float)
        if O.shape[0] != case["n"]:
            return {"what": "requested %d samples, got %d" % (case["n"], O.shape[0]), "class": "count:" + cfg}
        if not out["same_seed_same_result"]:
            return {"what": "two calls with the same seed returned different samples", "class": "seed-determinism"}
        if case["entry"] == "function":
            from scipy.spatial import Delaunay, ConvexHull
            P = np.array(case["P"], dtype=float)
            if "vols" in out:
                hv = float(ConvexHull(P).volume); tv = float(np.sum(out["vols"]))
                if abs(tv - hv) > 1e-9 * (1 + hv):
                    return {"what": "the simplices sampled from have total volume %r but the hull has volume %r: they do not tile the hull (uniformity broken)" % (tv, hv),
                            "class": "simplices-do-not-tile"}
            inside = Delaunay(P).find_simplex(O, tol=1e-9) >= 0
            if not inside.all():
                return {"what": "%d of %d samples lie outside the convex hull of the points" % ((~inside).sum(), len(O)), "class": "outside-hull"}
            return None
        sys, Ap, bp = self.transformed(case)
        if case["l1"] is not None and np.max(np.abs(O.sum(axis=1) - case["l1"])) > 1e-9 * (1 + case["l1"]):
            return {"what": "l1=%r requested but sample totals are %s" % (case["l1"], O.sum(axis=1)[:5].tolist()), "class": "l1-total"}
        step = max(1, len(O) // 60)
        if case["l1"] is not None:
            for o in O[::step]:
                x, t, inf = lp_cert.cone_member(Ap, bp, sys["lb"], sys["ub"], o)
                if x is None or inf > 1e-6 * (1 + np.abs(o).sum()):
                    return {"what": "l1 variant: the CHROMATICITY of sample %s is outside the chromatic gamut (LP residual %r)" % (o.tolist(), inf),
                            "class": "l1-chromaticity-outside"}
        elif "deln" in out:
            from scipy.spatial import ConvexHull
            Pc = self.cloud(case)
            hv = float(ConvexHull(Pc).volume) if Pc.shape[1] > 1 else float(Pc.max() - Pc.min())
            tv = float(np.sum(out["vols"]))
            if abs(tv - hv) > 1e-9 * (1 + hv):
                return {"what": "the simplices sampled from have total volume %r but the hull has volume %r: they do not tile the hull (uniformity broken)" % (tv, hv),
                        "class": "simplices-do-not-tile"}
        bad = 0; worst = 0.0
        for o in O[::step]:
            x, inf = lp_cert.member(Ap, bp, sys["lb"], sys["ub"], o)
            if x is None or inf > 1e-6:
                bad += 1; worst = max(worst, inf if x is not None else 1.0)
        if bad:
            return {"what": "%d of %d checked samples are NOT reproducible by in-bound intensities (worst LP residual %.3g)%s" % (
                bad, len(O[::step]), worst, "; l1=%r" % case["l1"] if case["l1"] else ""), "class": "sample-outside-gamut:" + cfg}
        return None

    def nontrivial(self, case, out):
        return case["engine"] is not None or case.get("l1") is not None or (case["n"] >= 10 and len(out.get("vols", [])) > 1)

    def entry(self, case):
        return "dreye.sample_in_hull" if case["entry"] == "function" else "ReceptorEstimator.sample_in_gamut"

    def extra_checks(self, ctx):
        """(T) uniformity: fixed-seed chi-square of simplex occupancy against volume fractions"""
        import dreye
        from scipy.stats import chisquare
        vio = []
        rng = np.random.default_rng(12345)
        P = rng.uniform(0, 1, size=(9, 2)) * np.array([4.0, 1.0])
        core.drain_hooks()
        S = dreye.sample_in_hull(P, 20000, seed=7)
        rec = [h[1] for h in core.drain_hooks() if h[0] == "sample.draw"][-1]
        counts = np.bincount(np.asarray(rec["sample_indices"]), minlength=len(rec["vols"]))
        exp = np.asarray(rec["vols"]) / np.sum(rec["vols"]) * counts.sum()
        chi, p = chisquare(counts, exp)
        ctx["uniformity"] = {"n": 20000, "simplices": int(len(exp)), "chi2": float(chi), "p": float(p)}
        # independent of the implementation's triangulation: share of samples in half-planes vs exact clipped hull area
        from scipy.spatial import ConvexHull
        from scipy.stats import norm
        for cloudseed in (1, 2):
            r2 = np.random.default_rng(cloudseed)
            P2 = np.vstack([r2.uniform(0, 1, size=(7, 2)) * np.array([3.0, 1.0]), [[1.5, 0.5], [1.4, 0.45], [1.6, 0.55]]])   # with interior points
            S2 = dreye.sample_in_hull(P2, 20000, seed=11)
            hull = ConvexHull(P2); poly = P2[hull.vertices]
            def clip_area(poly, u, t):
                out = []
                for a, b in zip(poly, np.roll(poly, -1, axis=0)):
                    ia, ib = a @ u <= t, b @ u <= t
                    if ia:
                        out.append(a)
                    if ia != ib:
                        out.append(a + (t - a @ u) / ((b - a) @ u) * (b - a))
                if len(out) < 3:
                    return 0.0
                o = np.array(out); x, y = o[:, 0], o[:, 1]
                return abs(np.dot(x, np.roll(y, -1)) - np.dot(y, np.roll(x, -1))) / 2
            worst = 1.0
            for u in (np.array([1.0, 0.0]), np.array([0.0, 1.0]), np.array([0.6, 0.8]), np.array([-0.8, 0.6])):
                for qt_ in (0.3, 0.5, 0.7):
                    t = np.quantile(poly @ u, qt_)
                    frac = clip_area(poly, u, t) / hull.volume
                    obs = np.mean(S2 @ u <= t)
                    z = (obs - frac) / np.sqrt(max(frac * (1 - frac), 1e-12) / len(S2))
                    worst = min(worst, 2 * (1 - norm.cdf(abs(z))))
            ctx["uniformity"]["halfplane_min_p_cloud%d" % cloudseed] = float(worst)
            if worst < 1e-7:
                vio.append({"class": "uniformity-halfplane", "what": "share of samples in a half-plane differs from the hull's area share (p=%.2g) on a cloud with interior points" % worst,
                            "payload": {"cloud": P2.tolist(), "p": float(worst)}})
        if p < 1e-6:
            vio.append({"class": "uniformity", "what": "simplex occupancy is not proportional to volume (chi2=%.1f, p=%.2g)" % (chi, p), "payload": ctx["uniformity"]})
        return vio

    def extra_coverage(self, ctx):
        return {"uniformity_test(T)": ctx.get("uniformity"), "same_seed_checked": sum(1 for o in ctx["outs"] if "same_seed_same_result" in o)}

    def describe(self, case, out):
        o = {k: v for k, v in out.items() if k in ("same_seed_same_result",)}
        o["out_head"] = out.get("out", [])[:2]
        return {"case": core.hexf(core.pub(case)), "out": core.hexf(o)}

    def plant(self, cases, outs):
        k = next(i for i, (c, o) in enumerate(zip(cases, outs)) if "probs" in o and not (c["entry"] == "estimator" and c.get("l1")))
        self.planted_index = k
        outs[k]["out"][0][0] += 1e-6


PROP = C13()
