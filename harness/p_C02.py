"""C02 — registered system = exact linear model.  Model: coq/Model/Estimator.v."""
from fractions import Fraction as Fr
import numpy as np
import core
from core import Prop, q, qv, qm, cbool, cnat, dyad
from p_C04 import kmat_lit, base_vec
import gen_sys as gs


def dom_lit(dom):
    return "(Capture.Xs %s)" % qv(dom) if isinstance(dom, list) else "(Capture.Dx %s)" % q(dom)


class C02(Prop):
    id = "C02"
    coq_imports = "From DV Require Import Model.Capture Model.Linear Model.Estimator."
    case_type = "Estimator.case"
    verdict = "Estimator.verdict"
    shard = 60
    rule = ("ReceptorEstimator built from random dyadic filters (2-5 receptors) and sources (1-8), 3-12 domain points, scalar-step or "
            "(non-)uniform array domain, 30 % band-limited filters (all exactly zero at the ends of the domain), 40 % of the estimators used for gamut/fit queries before they are asked, K none/scalar/vector/matrix, baseline zero/scalar/vector, batches of 1-4 intensity vectors; compared: est.A, "
            "system_capture, system_relative_capture, capture/relative_capture of the mixed spectra, K and relative capture after "
            "register_background_adaptation and register_system_adaptation (add_baseline True/False). non-trivial = K not identity and "
            "(baseline non-zero or matrix K)")
    assumptions = ["float rounding of numpy absorbed by atol=rtol=1e-9 (inputs dyadic so that most sums are exact)"]
    modelled = "estimator.py: register_system (A), system_capture, system_relative_capture, _relative_capture, capture, relative_capture, register_background_adaptation, register_system_adaptation (replace mode)"

    def sizes(self, tier):
        return 240 if tier == "quick" else 4000

    def gen(self, rng, n, tier):
        cases = []
        for _ in range(n):
            m = rng.randint(2, 5); ns = rng.randint(1, 8); nd = rng.randint(3, 12)
            dk = rng.choice(["dx", "uniform", "nonuniform"])
            if dk == "dx":
                dom = rng.choice([0.5, 1.0, 2.0, 5.0])
            elif dk == "uniform":
                x0 = dyad(rng, 300, 400, 2); st = rng.choice([1.0, 2.0, 5.0, 10.0]); dom = [x0 + st * k for k in range(nd)]
            else:
                dom = [p / 4 for p in sorted(rng.sample(range(1200, 2800), nd))]
            F = [[dyad(rng, 0, 2, 16) for _ in range(nd)] for _ in range(m)]
            band = None
            if nd >= 5 and rng.random() < 0.3:
                # sensitivities measured on a sub-range of a wider spectrometer domain: every filter exactly zero on a leading and/or trailing stretch
                a = rng.randint(0, 2); z = rng.randint(0 if a else 1, 2)
                F = [[(0.0 if (t < a or t >= nd - z) else (v or 0.5)) for t, v in enumerate(row)] for row in F]; band = (a, z)
            S = [[dyad(rng, 0, 2, 16) for _ in range(nd)] for _ in range(ns)]
            kk, K = gs.gen_K(rng, m)
            bk, base = gs.gen_baseline(rng, m)
            if bk == "zero" and rng.random() < 0.5:
                base = 0.0
            nb = rng.randint(1, 4)
            X = [[dyad(rng, 0, 8, 8) for _ in range(ns)] for _ in range(nb)]
            if not any(X[0]):
                X[0][0] = 1.0        # adapting to a background without any capture (and no baseline) is undefined: outside the property
            bg = [dyad(rng, 1, 8, 8) for _ in range(nd)]
            # other physical units (e.g. photon flux): spectra and baseline 2^50 times larger, adaptation 2^50 times smaller -- exact rescaling
            unit = 2.0 ** 50 if rng.random() < 0.15 else 1.0
            if unit != 1.0:
                S = [[v * unit for v in r] for r in S]; bg = [v * unit for v in bg]
                base = (base * unit) if isinstance(base, np.ndarray) else base * unit
                K = None if K is None else (K / unit)
            # intensity bounds registered with the system (backgrounds may lie outside them) and sampled filters as uncertainty description
            bounds = None
            if rng.random() < 0.5:
                bounds = {"lb": [rng.choice([0.0, 0.0, 0.5]) for _ in range(ns)], "ub": [rng.randint(4, 24) / 4 for _ in range(ns)]}
            unc = None
            if rng.random() < 0.2:
                unc = [[[v * (1 + rng.randint(-8, 16) / 32) for v in row] for row in F] for _ in range(rng.randint(2, 5))]
            cases.append({"dom": dom, "F": F, "S": S, "K": (K.tolist() if isinstance(K, np.ndarray) else K), "Kkind": kk, "unit": unit, "bounds": bounds, "unc": unc,
                          "baseline": (base.tolist() if isinstance(base, np.ndarray) else base), "bkind": bk,
                          "X": X, "bg": bg, "addb": rng.random() < 0.75, "decoy": rng.random() < 0.6, "used": rng.random() < 0.4,
                          "kind": "K-%s/base-%s/%s%s%s%s%s" % (kk, bk, dk, "/unit2^50" if unit != 1.0 else "", "/bounds" if bounds else "", "/unc" if unc else "", "/band" if band else "")})
        return cases

    def run_impl(self, case):
        import dreye
        dom = np.asarray(case["dom"], dtype=float) if isinstance(case["dom"], list) else float(case["dom"])
        F, S = np.array(case["F"]), np.array(case["S"])
        K = case["K"]; K = 1.0 if K is None else (np.array(K) if isinstance(K, list) else K)
        base = np.array(case["baseline"]) if isinstance(case["baseline"], list) else case["baseline"]
        def mk():
            e = dreye.ReceptorEstimator(F, domain=dom, K=K, baseline=base, **({} if case.get("unc") is None else {"filters_uncertainty": np.array(case["unc"])}))
            if case.get("decoy", True):
                # a different system is registered and queried first: the answers below must depend
                # only on the system registered last
                e.register_system(S[::-1] * 0.5 + 0.25)
                e.system_relative_capture(np.ones(S.shape[0])); e.system_capture(np.ones(S.shape[0]))
                e.relative_capture(S[0])
            bd = case.get("bounds")
            e.register_system(S, **({} if bd is None else {"lb": np.array(bd["lb"]), "ub": np.array(bd["ub"])}))
            if case.get("used"):
                # the estimator has been in use before it is asked: gamut and fit queries in relative captures (their outcome is not judged here)
                t = np.atleast_2d(e.system_relative_capture(np.full(S.shape[0], 0.5)))
                for fn in (lambda: e.in_hull(t, relative=True), lambda: e.fit(t), lambda: e.range_of_solutions(t, relative=True) if bd is not None else None):
                    gs.warm(fn)
            return e
        est = mk()
        X = np.array(case["X"])
        out = {"A": est.A.tolist(), "syscap": est.system_capture(X).tolist(), "sysrel": est.system_relative_capture(X).tolist()}
        mix = X @ S
        out["capmix"] = est.capture(mix).tolist(); out["relmix"] = est.relative_capture(mix).tolist()
        bg = np.array(case["bg"])
        e2 = mk(); e2.register_background_adaptation(bg, add_baseline=case["addb"])
        out["Kbg"] = np.broadcast_to(e2.K, (F.shape[0],)).tolist(); out["relbg"] = np.atleast_1d(e2.relative_capture(bg)).tolist()
        e3 = mk(); e3.register_system_adaptation(X[0], add_baseline=case["addb"])
        out["Ksys"] = np.broadcast_to(e3.K, (F.shape[0],)).tolist(); out["relsys"] = np.atleast_1d(e3.system_relative_capture(X[0])).tolist()
        return out

    def emit(self, case, out):
        if "error" in out:
            raise ValueError("estimator raised %s: %s" % (out["error"], out.get("msg")))
        m = len(case["F"]); nd = len(case["F"][0])
        return "(Estimator.Build_case %s %s %s %s %s %s %s %s %s %s %s %s %s %s %s %s %s %s %s)" % (
            dom_lit(case["dom"]), cnat(nd), qm(case["F"]), qm(case["S"]), kmat_lit(case["K"], m),
            qv(base_vec(case["baseline"], m).tolist()), qm(case["X"]), qv(case["bg"]), cbool(case["addb"]), q(1e-9),
            qm(out["A"]), qm(out["syscap"]), qm(out["sysrel"]), qm(out["capmix"]), qm(out["relmix"]),
            qv(out["Kbg"]), qv(out["relbg"]), qv(out["Ksys"]), qv(out["relsys"]))

    # property predicate in exact arithmetic, independent of the Coq model
    def spec_violation(self, case, out):
        if "error" in out:
            return {"what": "estimator raised %s: %s" % (out["error"], out.get("msg", "")[:150]), "class": "raises:" + out["error"]}
        from p_C01 import finteg
        c1 = {"domain": case["dom"], "trapz": True}
        F = case["F"]; S = case["S"]; m = len(F)
        def cap(sig):
            return [finteg(c1, [Fr(a) * Fr(b) for a, b in zip(f, sig)]) for f in F]
        base = [Fr(float(v)) for v in base_vec(case["baseline"], m)]
        K = case["K"]
        def rel(qv_):
            t = [a + b for a, b in zip(qv_, base)]
            if K is None:
                return t
            Kn = np.atleast_1d(np.array(K, dtype=float))
            if Kn.ndim == 1:
                kk = [Fr(float(Kn[j if Kn.size > 1 else 0])) for j in range(m)]
                return [kk[j] * t[j] for j in range(m)]
            return [sum(Fr(float(Kn[i, j])) * t[j] for j in range(m)) for i in range(m)]
        tol = Fr(1, 10**8)
        def bad(want, got, name):
            for j, (w, g) in enumerate(zip(want, got)):
                if abs(w - Fr(float(g))) > tol * (1 + abs(w)):
                    return {"what": "%s[%d] = %r, exact linear model gives %r" % (name, j, g, float(w)), "class": "value:" + name}
            return None
        for r, x in enumerate(case["X"]):
            mixs = [sum(Fr(x[k]) * Fr(S[k][t]) for k in range(len(S))) for t in range(len(S[0]))]
            qm_ = cap(mixs)
            for want, got, nm in [(qm_, out["syscap"][r], "system_capture"), (rel(qm_), out["sysrel"][r], "system_relative_capture"),
                                  (qm_, out["capmix"][r], "capture(mixture)"), (rel(qm_), out["relmix"][r], "relative_capture(mixture)")]:
                b = bad(want, got, nm)
                if b:
                    return b
        if case["addb"]:
            for nm in ("relbg", "relsys"):
                b = bad([Fr(1)] * m, out[nm], "relative capture of the adapting background (%s)" % nm)
                if b:
                    return b
        return None

    def nontrivial(self, case, out):
        return case["Kkind"] != "none" and (case["bkind"] != "zero" or case["Kkind"] == "matrix")

    def entry(self, case):
        return "ReceptorEstimator.system_capture/system_relative_capture/capture/relative_capture/register_*_adaptation"

    def plant(self, cases, outs):
        outs[7]["sysrel"][0][0] = outs[7]["sysrel"][0][0] * (1 + 1e-6) + 1e-6


PROP = C02()
