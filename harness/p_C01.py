"""C01 — capture = pairwise trapezoid integral.  Model: coq/Model/Capture.v."""
from fractions import Fraction
import numpy as np
from core import Prop, q, qv, qm, qt, cbool, cnat, cerr, dyad, hexf


def arr_lit(a):
    a = np.asarray(a, dtype=float)
    if a.ndim == 0:
        return "(Capture.A0 %s)" % q(float(a))
    if a.ndim == 1:
        return "(Capture.A1 %s)" % qv(a.tolist())
    if a.ndim == 2:
        return "(Capture.A2 %s)" % qm(a.tolist())
    if a.ndim == 3:
        return "(Capture.A3 %s)" % qt(a.tolist())
    raise ValueError("rank")


def ftrapz(xs, ys):
    return sum((xs[k + 1] - xs[k]) * (ys[k] + ys[k + 1]) / 2 for k in range(len(ys) - 1))


def finteg(case, ys):
    ys = [Fraction(float(y)) for y in ys]
    d = case["domain"]
    if isinstance(d, list):
        return ftrapz([Fraction(x) for x in d], ys)
    dx = Fraction(d)
    if case["trapz"]:
        return ftrapz([dx * k for k in range(len(ys))], ys)
    return sum(y * dx for y in ys)


class C01(Prop):
    id = "C01"
    coq_imports = "From DV Require Import Model.Capture."
    case_type = "Capture.case"
    verdict = "Capture.verdict"
    shard = 150
    rule = ("(domains also rescaled by 2^-30, 2^-20, 2^20: same grid in other length units; three inputs with > 4 million product elements are compared with a numpy reference, (T)) "
            "entry points calculate_capture / integral / ReceptorEstimator.capture; filter rank x signal rank in {1,2,3}^2 "
            "(batch sizes 1..3 incl. size-1 broadcasting), 1..4 filters, 1..4 signals, 1..12 (thorough 40) domain points, "
            "domain = scalar step | uniform array | non-uniform ascending array, trapz True/False; dyadic values "
            "(exact in float, rtol 1e-12) and arbitrary doubles (rtol 1e-9); 20 % of the dyadic cases hand the data over as int64 / float32 arrays; integral() also called without an axis argument on arrays whose every axis is as long as the domain. non-trivial = (>=2 signals and >=2 filters "
            "and #signals != #filters) or non-uniform domain or a batch axis")
    assumptions = ["numpy's broadcasting/trapezoid arithmetic is outside the model; its results are compared within rtol 1e-12 (dyadic stream) / 1e-9",
                   "keepdims of integral() only re-inserts a unit axis: compared after numpy squeeze"]
    modelled = "dreye/api/capture.py:calculate_capture (all rank combinations), dreye/api/utils.py:integral (rank 1-3, axis -1 / 0), estimator.capture without domain equalisation"

    def sizes(self, tier):
        return 400 if tier == "quick" else 8000

    def gen(self, rng, n, tier):
        cases = []
        ndmax = 12 if tier == "quick" else 40
        for i in range(n):
            arb = rng.random() < 0.25
            nd = rng.randint(1, ndmax) if rng.random() < 0.9 else rng.randint(1, 2)
            def val():
                return rng.uniform(-5, 5) if arb else dyad(rng, -8, 8, 16)
            dk = rng.choice(["dx", "dx", "uniform", "nonuniform", "nonuniform"])
            fine = dk == "nonuniform" and rng.random() < 0.5
            if dk == "dx":
                domain = rng.uniform(0.1, 10) if arb else rng.choice([0.25, 0.5, 1.0, 2.0, 5.0, 10.0, 0.125, 3.0])
            elif dk == "uniform":
                x0 = dyad(rng, 0, 700, 4); st = rng.choice([0.5, 1.0, 2.0, 5.0, 10.0])
                domain = [x0 + st * k for k in range(nd)]
            else:
                pts = sorted(rng.sample(range(0, 4000), nd))
                domain = [p / 8 for p in pts]
                if fine:
                    # spectrometer-like grid: irregular steps of 0.5 .. 3 units
                    x0 = dyad(rng, 300, 400, 4); domain = [x0]
                    for _ in range(nd - 1):
                        domain.append(domain[-1] + rng.choice([0.5, 1.0, 1.5, 2.0, 3.0]))
                elif arb:
                    domain = sorted(set(rng.uniform(300, 700) for _ in range(nd)))
                    while len(domain) < nd:
                        domain = sorted(set(domain) | {rng.uniform(300, 700)})
            # physical units are arbitrary: the same grid in metres / picometres (exact power-of-two rescaling)
            dscale = rng.choice([1.0] * 6 + [2.0 ** -30, 2.0 ** -20, 2.0 ** 20])
            if dscale != 1.0:
                domain = [v * dscale for v in domain] if isinstance(domain, list) else domain * dscale
            trapz = rng.random() < 0.7
            entry = rng.choice(["calculate_capture"] * 6 + ["integral"] * 2 + ["estimator"] * 2)
            nf, ns = rng.randint(1, 4), rng.randint(1, 4)
            def mk(shape):
                return np.array([val() for _ in range(int(np.prod(shape)))]).reshape(shape).tolist()
            c = {"entry": entry, "domain": domain, "trapz": trapz, "dkind": dk, "arb": arb, "dscale": dscale}
            # data handed over in another dtype: whole numbers as int64 (photon counts x boxcar masks), dyadic values as float32 (image stacks);
            # the sample positions stay float64 (0.5-unit steps, large offsets)
            dt = None
            if not arb and entry != "estimator" and rng.random() < 0.2:
                dt = rng.choice(["int", "f32"])
                if dt == "int":
                    def val():
                        return float(rng.randint(-8, 8))
                c["dt"] = dt
            if entry == "calculate_capture":
                rf, rs = rng.choice([1, 2, 2, 3]), rng.choice([1, 2, 2, 3])
                bf = rng.randint(1, 3); bs = rng.choice([bf, bf, 1, rng.randint(1, 3)])
                if rng.random() < 0.2:
                    bf = 1
                c["F"] = mk({1: (nd,), 2: (nf, nd), 3: (bf, nf, nd)}[rf])
                c["S"] = mk({1: (nd,), 2: (ns, nd), 3: (bs, ns, nd)}[rs])
                c["kind"] = "cc/F%d/S%d/%s/%s" % (rf, rs, dk, "tz" if trapz else "sum")
            elif entry == "integral":
                r = rng.choice([1, 2, 2, 3, 3])
                axis = rng.randrange(r)
                shape = [rng.randint(1, 4) for _ in range(r)]
                if rng.random() < 0.3:
                    shape = [shape[0]] * r          # equal sizes: transposition bugs keep the shape
                shape[axis] = nd
                if rng.random() < 0.5:
                    axis_arg = axis - r             # negative form
                else:
                    axis_arg = axis
                if axis == r - 1 and rng.random() < 0.6:
                    # the documented default (last axis), no axis argument; half of these with every axis as long as the domain
                    axis_arg = None
                    if rng.random() < 0.5 and nd <= 6:
                        shape = [nd] * r
                c["S"] = mk(tuple(shape)); c["F"] = [0.0]
                c["axis"] = axis_arg; c["axis_pos"] = axis; c["keepdims"] = rng.random() < 0.3; c["trapz"] = True
                c["kind"] = "integral/r%d/axis%s/%s" % (r, "default" if axis_arg is None else axis, dk)
            else:
                rs = rng.choice([1, 2, 2])
                c["F"] = mk((nf, nd)); c["S"] = mk({1: (nd,), 2: (ns, nd)}[rs]); c["trapz"] = True
                if rng.random() < 0.5 and nd >= 4:
                    # band-limited filters: exactly zero at leading / trailing samples
                    Fz = np.array(c["F"]); a0 = rng.randint(0, 2); a1 = rng.randint(0, 2)
                    if a0:
                        Fz[:, :a0] = 0.0
                    if a1:
                        Fz[:, nd - a1:] = 0.0
                    c["F"] = Fz.tolist()
                c["kind"] = "estimator/S%d/%s" % (rs, dk)
            cases.append(c)
        return cases

    def run_impl(self, case):
        import dreye
        dom = case["domain"]
        dom_in = np.asarray(dom, dtype=float) if isinstance(dom, list) else float(dom)
        dt = {"int": np.int64, "f32": np.float32}.get(case.get("dt"), float)
        if case["entry"] == "calculate_capture":
            r = dreye.calculate_capture(np.array(case["F"], dtype=float).astype(dt), np.array(case["S"], dtype=float).astype(dt),
                                        domain=dom_in, trapz=case["trapz"])
        elif case["entry"] == "integral":
            a = np.array(case["S"], dtype=float).astype(dt)
            r = dreye.integral(a, dom_in, keepdims=case["keepdims"], **({} if case["axis"] is None else {"axis": case["axis"]}))
            if case["keepdims"]:
                if np.ndim(r) != a.ndim:
                    return {"error": "KeepdimsShape", "msg": "keepdims result rank %d" % np.ndim(r)}
                if np.shape(r)[case["axis_pos"]] != 1:
                    return {"error": "KeepdimsShape", "msg": "keepdims result shape %s" % (np.shape(r),)}
                r = np.squeeze(r, axis=case["axis_pos"])
        else:
            est = dreye.ReceptorEstimator(np.array(case["F"], dtype=float), domain=dom_in)
            r = est.capture(np.array(case["S"], dtype=float))
        return {"value": np.asarray(r, dtype=float).tolist()}

    def emit(self, case, out):
        kind = 0
        if case["entry"] == "integral":
            kind = 1 + case["axis_pos"]
        dom = case["domain"]
        d = "(Capture.Xs %s)" % qv(dom) if isinstance(dom, list) else "(Capture.Dx %s)" % q(dom)
        tol = "tol_arb" if case["arb"] else "tol_exact"
        impl = "(Err %s)" % cerr(out["error"]) if "error" in out else "(Ok %s)" % arr_lit(out["value"])
        return "(Capture.Build_case %s %s %s %s %s %s %s)" % (
            cnat(kind), d, cbool(case["trapz"]), arr_lit(case["F"]), arr_lit(case["S"]), tol, impl)

    # the property predicate, evaluated exactly on the implementation's output
    def expected(self, case):
        F_, S_ = np.array(case["F"], dtype=float), np.array(case["S"], dtype=float)
        if case["entry"] == "integral":
            ax = case["axis_pos"]
            oshape = S_.shape[:ax] + S_.shape[ax + 1:]
            res = np.empty(oshape, dtype=object)
            for idx in (np.ndindex(*oshape) if oshape else [()]):
                full = idx[:ax] + (slice(None),) + idx[ax:]
                res[idx] = finteg(case, S_[full])
            return res
        def c22(Fm, Sm):
            return [[finteg(case, [Fraction(a) * Fraction(b) for a, b in zip(f, s)]) for f in Fm] for s in Sm]
        if F_.ndim == 1 and S_.ndim == 1:
            return np.array(c22([F_], [S_])[0][0], dtype=object)
        if F_.ndim == 1:
            if S_.ndim == 2:
                return np.array([r[0] for r in c22([F_], S_)], dtype=object)
            return np.array([[r[0] for r in c22([F_], Sm)] for Sm in S_], dtype=object)
        if S_.ndim == 1:
            if F_.ndim == 2:
                return np.array(c22(F_, [S_])[0], dtype=object)
            return np.array([c22(Fm, [S_])[0] for Fm in F_], dtype=object)
        if F_.ndim == 2 and S_.ndim == 2:
            return np.array(c22(F_, S_), dtype=object)
        Fb = F_ if F_.ndim == 3 else F_[None]
        Sb = S_ if S_.ndim == 3 else S_[None]
        nb = max(len(Fb), len(Sb))
        if len(Fb) != len(Sb) and 1 not in (len(Fb), len(Sb)):
            return None  # numpy must reject
        return np.array([c22(Fb[k if len(Fb) > 1 else 0], Sb[k if len(Sb) > 1 else 0]) for k in range(nb)], dtype=object)

    def spec_violation(self, case, out):
        want = self.expected(case)
        if want is None:
            if "error" in out and out["error"] == "ValueError":
                return None
            return {"what": "incompatible batch sizes were not rejected with ValueError", "class": "batch-mismatch-accepted"}
        if "error" in out:
            return {"what": "%s raised %s: %s" % (case["entry"], out["error"], out.get("msg", "")[:120]),
                    "class": "raises:%s" % out["error"]}
        got = np.asarray(out["value"], dtype=float)
        if got.shape != want.shape:
            return {"what": "result shape %s, expected %s" % (got.shape, want.shape), "class": "shape"}
        tol = Fraction(1, 10**8) if case["arb"] else Fraction(1, 10**11)
        for idx in np.ndindex(*want.shape) if want.shape else [()]:
            w = want[idx] if want.shape else want.item()
            g = Fraction(float(got[idx])) if want.shape else Fraction(float(got))
            if abs(g - w) > tol * max(abs(w), Fraction(1, 10**6)) and abs(g - w) > tol * abs(w):
                return {"what": "%s entry %s = %r but the integral of signal x filter is %r" % (case["entry"], idx, float(g), float(w)),
                        "class": "value", "required": float(w), "observed": float(g)}
        return None

    # (T) sizes far beyond what the Coq VM can evaluate: the same rule against a plain numpy reference (size-dependent code paths)
    def extra_checks(self, ctx):
        import dreye
        rs = np.random.default_rng(int(ctx.get("seed", 0)) + 17)
        bad = []; n = 0
        for (fs, ss, nd, dom_kind) in [((4,), (3907,), 277, "array"), ((3, 2), (3, 2503), 141, "dx"), ((5,), (1, 4099), 211, "array")]:
            F = rs.uniform(0, 1, fs + (nd,)); S = rs.uniform(0, 1, ss + (nd,))
            dom = np.cumsum(rs.uniform(0.5, 2.0, nd)) + 300 if dom_kind == "array" else 0.75
            w = np.zeros(nd); dx = np.diff(dom) if dom_kind == "array" else np.full(nd - 1, dom); w[:-1] += dx / 2; w[1:] += dx / 2
            for trapz in (True, False):
                wt = w if trapz else np.full(nd, dom if dom_kind == "dx" else np.nan)
                if not trapz and dom_kind == "array":
                    continue
                n += 1
                try:
                    got = np.asarray(dreye.calculate_capture(F, S, domain=dom, trapz=trapz), dtype=float)
                except Exception as e:  # noqa
                    bad.append({"class": "large:raises:%s" % type(e).__name__, "what": "calculate_capture on filters %s, signals %s raised %s" % (F.shape, S.shape, e), "payload": {}, "found": True}); continue
                want = np.einsum("...sd,...fd,d->...sf", S, F, wt) if F.ndim == S.ndim else np.einsum("...sd,fd,d->...sf", S, F, wt)
                if got.shape != want.shape or np.max(np.abs(got - want)) > 1e-9 * (1 + np.max(np.abs(want))):
                    k = np.unravel_index(np.argmax(np.abs(got - want)), want.shape) if got.shape == want.shape else None
                    bad.append({"class": "large:value", "what": "calculate_capture on filters %s, signals %s (trapz=%s): entry %s = %r but the integral is %r" % (
                        F.shape, S.shape, trapz, k, None if k is None else float(got[k]), None if k is None else float(want[k])),
                                "payload": {"shapes": [list(F.shape), list(S.shape)], "seed": int(ctx.get("seed", 0)) + 17}, "found": True})
        ctx["large_n"] = n; ctx["large_bad"] = len(bad)
        return bad

    def extra_obligations(self, ctx):
        return ctx.get("large_n", 0)

    def extra_failed(self, ctx):
        return ctx.get("large_bad", 0)

    def extra_coverage(self, ctx):
        return {"large_inputs_vs_numpy_reference (T)": ctx.get("large_n", 0)}

    def nontrivial(self, case, out):
        F_, S_ = np.array(case["F"]), np.array(case["S"])
        if case["dkind"] == "nonuniform" and S_.shape[-1] >= 3:
            return True
        if F_.ndim == 3 or S_.ndim == 3:
            return True
        return F_.ndim == 2 and S_.ndim == 2 and F_.shape[0] >= 2 and S_.shape[0] >= 2 and F_.shape[0] != S_.shape[0]

    def entry(self, case):
        return {"calculate_capture": "dreye.calculate_capture", "integral": "dreye.integral",
                "estimator": "ReceptorEstimator.capture"}[case["entry"]]

    def plant(self, cases, outs):
        v = np.asarray(outs[7]["value"], dtype=float)
        outs[7]["value"] = (v * (1 + 1e-6) + 1e-6).tolist()


PROP = C01()
