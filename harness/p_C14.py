"""C14 — estimator answers depend only on what is registered; queries are pure.  Model: coq/Model/History.v."""
import hashlib
import itertools
import numpy as np
import core
from core import Prop, q, qv, qm, cbool, cnat, dyad
from p_C04 import kmat_lit, HI
from p_C02 import dom_lit


def ob(v):
    return "[" + ";".join("None" if not np.isfinite(x) else "(Some %s)" % q(float(x)) for x in np.atleast_1d(v)) + "]"


def barg(b):
    if b is None:
        return "History.BNone"
    if np.ndim(b) == 0:
        return "(History.BNum %s)" % ("None" if not np.isfinite(b) else "(Some %s)" % q(float(b)))
    return "(History.BVec %s)" % ob(b)


def ahash(a):
    return hashlib.sha1(np.ascontiguousarray(a).tobytes()).hexdigest()


class C14(Prop):
    id = "C14"
    coq_imports = "From DV Require Import Model.Capture Model.Linear Model.Estimator Model.History."
    case_type = "History.case"
    verdict = "History.verdict"
    shard = 25
    allow_nonfinite = True          # infinite upper bounds are legitimate registered values
    rule = ("histories over {register_system (3 systems, one of them measured on its own sub-grid of a uniform filter grid), register_bounds, register_adaptation (scalar/vector/matrix), register_baseline (scalar/vector), "
            "register_background_adaptation and register_system_adaptation (add_baseline x add), register_targets, fit(), query}: EXHAUSTIVE over all ordered pairs of pool "
            "operations after a system registration (quick; all triples in the thorough tier) plus random histories of length 4-10; after EVERY step the registered values and "
            "two capture probes are compared with the Coq state machine, every read-only query is asked twice (purity), caller arrays are hashed before/after, and a fresh twin "
            "object registered from the current values must answer the solver-backed queries (in_hull, range_of_solutions, seeded sampling, fit with explicit targets) "
            "bit-identically. non-trivial = history with a re-registration or an adaptation that reads earlier state")
    assumptions = ["(T) not proved: bit-identical twins, purity of queries on the real object and 'caller arrays untouched' are runtime facts (aliasing, caches) outside the immutable model: tested at every step",
                   "fit() with B=None is modelled with the solver's prediction as an oracle input (FitInternal)"]
    modelled = "estimator.py: __init__, register_system, register_bounds, register_adaptation, register_baseline, register_background_adaptation, register_system_adaptation, register_targets, fit() bookkeeping (self.B, self.X), capture/relative/system_* queries"

    def sizes(self, tier):
        return 0

    # ---- pools ----
    DOMS = [1.0, 2.0, [300.0, 310.0, 325.0, 340.0, 350.0, 365.0], [300.0, 310.0, 320.0, 330.0, 340.0, 350.0]]

    def make_pool(self, rng, dom=None):
        m = 3; nd = 6
        F = [[dyad(rng, 0, 2, 8) + (1.0 if abs(j - 2 * i) <= 1 else 0.0) for j in range(nd)] for i in range(m)]
        S1 = [[dyad(rng, 0, 2, 8) + (1.0 if j == k else 0.0) for j in range(nd)] for k in range(4)]
        S2 = [[dyad(rng, 0, 2, 8) + (1.0 if j == 2 * k else 0.0) for j in range(nd)] for k in range(3)]
        pool = {
            "F": F, "dom": dom if dom is not None else rng.choice(self.DOMS),
            # system 2 is measured on its OWN wavelength grid (the interior samples of a uniform filter grid; on other filter domains it is an ordinary system)
            "systems": [{"S": S1, "lb": None, "ub": [4.0, 5.0, 6.0, 4.5]}, {"S": S2, "lb": [0.25, 0.0, 0.5], "ub": None, "Eps": [[dyad(rng, 1, 8, 8) for _ in range(3)] for _ in range(m)]},
                        {"S": [[dyad(rng, 0, 2, 8) + (1.0 if j == k + 1 else 0.0) for j in range(nd)] for k in range(3)], "lb": None, "ub": [3.0, 4.0, 5.0], "sub": True}],
            "Ks": [2.0, [0.5, 1.5, 0.75], [[1.0, 0.125, 0.0], [0.0, 1.0, -0.125], [0.0625, 0.0, 1.0]]],
            "bases": [0.5, [1.0, 0.0, 2.0]],
            "bgs": [[dyad(rng, 1, 4, 8) for _ in range(nd)], [dyad(rng, 1, 4, 8) for _ in range(nd)]],
            "probe_sig": [dyad(rng, 0, 4, 8) for _ in range(nd)],
        }
        return pool

    def op_pool(self):
        ops = [("system", 0), ("system", 1), ("system", 2), ("bounds", "ub"), ("bounds", "lb"), ("bounds", "both"), ("bounds", "shift"),
               ("adapt", 0), ("adapt", 1), ("adapt", 2), ("baseline", 0), ("baseline", 1),
               ("background", 0, True, False), ("background", 1, False, False), ("background", 0, True, True),
               ("sysadapt", True, False), ("sysadapt", False, True), ("targets", False), ("targets", True), ("fit",), ("query",)]
        return ops

    def gen(self, rng, n_unused, tier):
        # one pool per kind of filter domain (scalar steps, non-uniform grid, uniform grid); histories are spread over them,
        # those that register the sub-grid system always run on the uniform grid (elsewhere it is an ordinary system)
        pools = [self.make_pool(rng, d) for d in self.DOMS]
        ops = self.op_pool()
        hists = []
        L = 2 if tier == "quick" else 3
        for combo in itertools.product(ops, repeat=L):
            hists.append([("system", 0)] + list(combo))
        for _ in range(60 if tier == "quick" else 600):
            hists.append([("system", rng.randrange(3))] + [rng.choice(ops) for _ in range(rng.randint(3, 9))])
        cases = []
        off = rng.randrange(len(pools))
        for i, h in enumerate(hists):
            pool = pools[3] if any(tuple(o) == ("system", 2) for o in h) else pools[(i + off) % len(pools)]
            cases.append({"pool": pool, "hist": [list(o) for o in h], "seed": rng.randint(0, 10**6), "ext": bool(len(h) > (3 if tier == "quick" else 4) or (i + off) % (5 if tier == "quick" else 40) == 0),
                          "kind": "len%d/%s" % (len(h), "step" if not isinstance(pool["dom"], list) else ("uniform" if len(set(np.diff(pool["dom"]))) == 1 else "nonuniform"))})
        return cases

    # ---- running a history on the real object ----
    def run_impl(self, case):
        import dreye
        pool = case["pool"]
        F = np.array(pool["F"]); m = F.shape[0]
        dom = np.array(pool["dom"]) if isinstance(pool["dom"], list) else pool["dom"]
        est = dreye.ReceptorEstimator(F, domain=dom, K=1.0, baseline=0.0)
        rs = np.random.default_rng(case["seed"])
        steps, concrete = [], []
        problems = []
        last_sys = {"args": None}
        sig = np.array(pool["probe_sig"])

        def call(fn, *arrs, **kw):
            hs = [ahash(a) for a in arrs if isinstance(a, np.ndarray)]
            r = fn(*arrs, **kw)
            hs2 = [ahash(a) for a in arrs if isinstance(a, np.ndarray)]
            if hs != hs2:
                problems.append("caller array modified by %s" % getattr(fn, "__name__", fn))
            return r

        for o in case["hist"]:
            kind = o[0]
            n_cur = est.A.shape[1] if est.registered else 0
            rec = {"op": kind}
            if kind == "system":
                sysd = pool["systems"][o[1]]
                S = np.array(sysd["S"]); lb = None if sysd["lb"] is None else np.array(sysd["lb"]); ub = None if sysd["ub"] is None else np.array(sysd["ub"])
                sub = bool(sysd.get("sub")) and isinstance(pool["dom"], list) and len(set(np.diff(pool["dom"]))) == 1
                if sub:
                    # sources given on the interior samples of the filter grid: A is the trapezoid integral over THAT grid, which equals the integral
                    # over the full grid of the zero-padded sources with their two end samples halved (exactly); the filters stay as registered
                    d2 = np.array(pool["dom"])[1:-1]; S2_ = S[:, 1:-1].copy()
                    call(est.register_system, S2_, lb=lb, ub=ub, domain=d2)
                    Seq = np.zeros_like(S); Seq[:, 1:-1] = S2_; Seq[:, 1] *= 0.5; Seq[:, -2] *= 0.5
                    last_sys["args"] = (S2_, d2)
                    rec.update(S=Seq.tolist(), lb=None if lb is None else lb.tolist(), ub=None if ub is None else ub.tolist())
                else:
                    Eps = None if sysd.get("Eps") is None else np.array(sysd["Eps"])
                    if Eps is None:
                        call(est.register_system, S, lb=lb, ub=ub)
                    else:
                        call(lambda S_, E_: est.register_system(S_, lb=lb, ub=ub, Epsilon=E_), S, Eps)
                    last_sys["args"] = (S, None)
                    rec.update(S=S.tolist(), lb=None if lb is None else lb.tolist(), ub=None if ub is None else ub.tolist())
            elif kind == "bounds":
                lb = (np.array([0.125 * (i + 1) for i in range(n_cur)]) if o[1] in ("lb", "both") else None)
                ub = (np.array([3.0 + 0.5 * i for i in range(n_cur)]) if o[1] in ("ub", "both") else None)
                if o[1] == "shift":
                    # the operating window is moved up, one side at a time (new lower bounds above the old upper bounds); nothing is asked in between
                    lb = np.array([6.5 + 0.5 * i for i in range(n_cur)]); ub = np.array([8.0 + 0.5 * i for i in range(n_cur)])
                    est.register_bounds(lb=lb); est.register_bounds(ub=ub)
                else:
                    est.register_bounds(lb=lb, ub=ub)
                rec.update(lb=None if lb is None else lb.tolist(), ub=None if ub is None else ub.tolist())
            elif kind == "adapt":
                K = pool["Ks"][o[1]]
                Kin = np.array(K) if isinstance(K, list) else K
                call(est.register_adaptation, Kin) if isinstance(Kin, np.ndarray) else est.register_adaptation(Kin)
                rec.update(K=K)
            elif kind == "baseline":
                b = pool["bases"][o[1]]
                bin_ = np.array(b) if isinstance(b, list) else b
                call(est.register_baseline, bin_) if isinstance(bin_, np.ndarray) else est.register_baseline(bin_)
                rec.update(b=b)
            elif kind == "background":
                bg = np.array(pool["bgs"][o[1]])
                call(est.register_background_adaptation, bg, add_baseline=o[2], add=o[3])
                rec.update(bg=bg.tolist(), addb=o[2], add=o[3])
            elif kind == "sysadapt":
                x = np.array([1.0 + 0.25 * i for i in range(n_cur)])
                call(est.register_system_adaptation, x, add_baseline=o[1], add=o[2])
                rec.update(x=x.tolist(), addb=o[1], add=o[2])
            elif kind == "targets":
                B = np.array([[3.0, 2.5, 4.0], [1.5, 6.0, 2.0]]); W = np.array([[1.0, 2.0, 0.5], [1.5, 1.0, 1.0]]) if o[1] else None
                call(est.register_targets, B, W=W) if W is not None else call(est.register_targets, B)
                rec.update(B=B.tolist(), W=None if W is None else W.tolist())
            elif kind == "fit":
                if not hasattr(est, "B"):
                    rec["op"] = "query"      # fit() without targets asserts: skip (treated as a query step)
                else:
                    try:
                        est.fit(**HI)
                        rec.update(Bpred=np.asarray(est.B, dtype=float).tolist())
                    except Exception as e:  # noqa
                        problems.append("fit() raised %s: %s" % (type(e).__name__, str(e)[:80])); rec["op"] = "query"
            # observation + purity after every step
            n_cur = est.A.shape[1] if est.registered else 0
            xprobe = np.array([0.5 + 0.25 * i for i in range(n_cur)])
            def snapshot():
                return (np.atleast_2d(np.array(est.K, dtype=float)).copy(), np.broadcast_to(est.baseline, (m,)).astype(float).copy(),
                        (est.A.copy(), est.lb.copy(), est.ub.copy()) if est.registered else None,
                        (np.asarray(est.B, dtype=float).copy(), np.broadcast_to(est.W, np.shape(est.B)).astype(float).copy()) if hasattr(est, "B") else None,
                        np.asarray(est.Epsilon, dtype=float).copy() if (est.registered and isinstance(est.Epsilon, np.ndarray)) else None)
            snap = snapshot()
            def queries():
                r = [est.relative_capture(sig), est.capture(sig)]
                if est.registered:
                    r += [est.system_relative_capture(xprobe), est.system_capture(xprobe), est.in_system(xprobe), est.in_hull(np.array([[3.0, 2.5, 4.0]]))]
                    if np.all(np.isfinite(est.ub)):
                        # queries that go through the gamut's vertex set
                        Bq = np.array([[3.0, 2.5, 4.0], [0.0, 0.0, 0.0], [9.0, 0.5, 0.5]])
                        for f in (lambda: est.sample_in_gamut(3, seed=1), lambda: est.compute_gamut(seed=1), lambda: est.compute_gamut(seed=1, fraction=True),
                                  lambda: call(est.gamut_l1_scaling, Bq), lambda: call(est.gamut_dist_scaling, Bq),
                                  lambda: est.in_hull(Bq[[0, 2]], normalized=True)):
                            try:
                                r.append(f())
                            except Exception as e:  # noqa  (e.g. neutral point outside the chromatic gamut: same on both calls)
                                r.append(np.array([hash(type(e).__name__) % 1000], dtype=float))
                if est.registered and hasattr(est, "B"):
                    # fitting with EXPLICIT targets is a query too: the registered targets stay what they are
                    try:
                        r.append(np.hstack(call(lambda B_: est.fit(B_, **HI), np.array([[2.0, 3.5, 1.0]]))))
                    except Exception as e:  # noqa
                        r.append(np.array([hash(type(e).__name__) % 1000], dtype=float))
                return [np.asarray(v, dtype=float) for v in r]
            q1 = queries(); q2 = queries(); snap2 = snapshot()
            def same(a, b):
                if a is None or b is None:
                    return a is b
                if isinstance(a, tuple):
                    return all(same(x, y) for x, y in zip(a, b))
                return np.array_equal(a, b, equal_nan=True)
            if not all(np.array_equal(a, b, equal_nan=True) for a, b in zip(q1, q2)):
                problems.append("repeating a read-only query after step %r gave a different answer" % (o,))
            if not all(same(a, b) for a, b in zip(snap, snap2)):
                problems.append("a read-only query changed the registered values after step %r" % (o,))
            rec["obs"] = {"K": snap[0].tolist(), "base": snap[1].tolist(),
                          "A": snap[2][0].tolist() if snap[2] else [], "lb": snap[2][1].tolist() if snap[2] else [], "ub": snap[2][2].tolist() if snap[2] else [],
                          "B": snap[3][0].tolist() if snap[3] else [], "W": snap[3][1].tolist() if snap[3] else [],
                          "relcap": q1[0].tolist(), "sysrel": q1[2].tolist() if est.registered else []}
            rec["xprobe"] = xprobe.tolist()
            steps.append(rec)
        # twin: a fresh object registered from the current values must answer solver-backed queries identically
        try:
            twin_bad = self.twin_compare(dreye, est, F, dom, last_sys["args"], case.get("ext", True))
            if twin_bad:
                problems.append(twin_bad)
        except Exception as e:  # noqa
            problems.append("twin comparison raised %s: %s" % (type(e).__name__, str(e)[:120]))
        return {"steps": steps, "problems": problems}

    def twin_compare(self, dreye, est, F, dom, sysargs=None, ext=True):
        if not est.registered:
            return None
        tw = dreye.ReceptorEstimator(F, domain=dom, K=np.array(est.K), baseline=np.array(est.baseline))
        if sysargs is not None and sysargs[1] is not None:
            tw.register_system(np.array(sysargs[0]), lb=np.array(est.lb), ub=np.array(est.ub), domain=np.array(sysargs[1]))
        else:
            tw.register_system(np.array(est.sources), lb=np.array(est.lb), ub=np.array(est.ub),
                               Epsilon=(np.array(est.Epsilon) if isinstance(est.Epsilon, np.ndarray) else None))
        if hasattr(est, "B"):
            # registered targets / per-sample weights are registered values too
            tw.register_targets(np.array(est.B), W=(None if est.W is est.w else np.array(est.W)))
        Bq = np.array([[3.0, 2.5, 4.0], [40.0, 1.0, 1.0]])
        fin = bool(np.all(np.isfinite(est.ub)))
        ubf = np.where(np.isfinite(est.ub), est.ub, est.lb + 4.0)
        Bin = np.asarray(est.system_relative_capture(np.vstack([est.lb + (ubf - est.lb) * 0.5, est.lb + (ubf - est.lb) * 0.25])), dtype=float)   # in gamut
        under = est.A.shape[1] > est.A.shape[0]
        Bq0 = Bq.copy(); Bin0 = Bin.copy()
        none = lambda e: np.zeros(1)
        # (name, query on the object with history, query on the fresh twin): the object may be asked something ELSE first —
        # an earlier query with other options must not change the answer to a later one
        def warm_then(first, then):
            def f(e):
                try:
                    first(e)
                except Exception:  # noqa
                    pass
                return then(e)
            return f
        fitd = lambda e: np.hstack(e.fit(Bq))
        und6 = lambda e: np.hstack(e.fit_underdetermined(Bin, l2_eps=1e-6, **HI))
        pairs = [("in_hull", lambda e: e.in_hull(Bq), None), ("fit(B)", lambda e: np.hstack(e.fit(Bq, **HI)), None),
                 ("sample_in_gamut(seed)", (lambda e: e.sample_in_gamut(5, seed=3)) if fin else none, None),
                 ("compute_gamut(seed)", (lambda e: np.atleast_1d(e.compute_gamut(seed=2))) if fin else none, None),
                 ("compute_gamut(fraction)", (lambda e: np.atleast_1d(e.compute_gamut(seed=1, fraction=True))) if fin else none, None),
                 ("in_hull(normalized)", (lambda e: e.in_hull(Bq, normalized=True)) if fin else none, None),
                 ("gamut_dist_scaling", (lambda e: e.gamut_dist_scaling(Bq)) if fin else none, None),
                 ("range_of_solutions", (lambda e: np.hstack(e.range_of_solutions(Bin))) if (fin and under) else none, None),
                 ("fit(B) with default options after a fit with other solver options", warm_then(lambda e: e.fit(Bq, solver="SCS", max_iters=3, eps=1e-1), fitd), fitd),
                 ("fit_underdetermined(l2_eps=1e-6) after l2_eps=1e-2", warm_then(lambda e: e.fit_underdetermined(Bin, l2_eps=1e-2, **HI), und6) if under else none, und6 if under else none),
                 ("minimize_variance asked twice", warm_then(lambda e: e.minimize_variance(Bin, **HI), lambda e: np.hstack(e.minimize_variance(Bin, **HI))) if isinstance(est.Epsilon, np.ndarray) else none,
                  (lambda e: np.hstack(e.minimize_variance(Bin, **HI))) if isinstance(est.Epsilon, np.ndarray) else none),
                 ("fit(B, model='poisson') after an excitation fit", warm_then(lambda e: e.fit(Bin, model="excitation"), lambda e: np.hstack(e.fit(Bin, model="poisson", **HI))),
                  lambda e: np.hstack(e.fit(Bin, model="poisson", **HI)))]
        if not ext:
            pairs = pairs[:8]      # the sequence-sensitive (warm-up) pairs are run on every random history and on a fifth of the exhaustive ones
        for name, f, ftw in pairs:
            ftw = ftw or f
            try:
                a = np.asarray(f(est), dtype=float)
            except Exception as ea:  # noqa
                try:
                    ftw(tw)
                except Exception as eb:  # noqa
                    if type(ea) is type(eb):
                        continue
                return "%s raises %s on the object with history but not on a freshly registered twin" % (name, type(ea).__name__)
            if not (np.array_equal(Bq, Bq0) and np.array_equal(Bin, Bin0)):
                return "caller array (targets) modified by %s" % name
            f = ftw
            b = np.asarray(f(tw), dtype=float)
            if a.shape != b.shape or not np.array_equal(a, b, equal_nan=True):
                return "%s differs between the object with history and a freshly registered twin (max |diff| %.3g)" % (name, float(np.max(np.abs(a - b))) if a.shape == b.shape else -1)
        return None

    # ---- Coq terms ----
    def op_term(self, rec, m):
        k = rec["op"]
        if k == "system":
            return "(History.RegSystem %s %s %s)" % (qm(rec["S"]), barg(None if rec["lb"] is None else np.array(rec["lb"])), barg(None if rec["ub"] is None else np.array(rec["ub"])))
        if k == "bounds":
            return "(History.RegBounds %s %s)" % (barg(None if rec["lb"] is None else np.array(rec["lb"])), barg(None if rec["ub"] is None else np.array(rec["ub"])))
        if k == "adapt":
            return "(History.RegAdapt %s)" % kmat_lit(rec["K"], m)
        if k == "baseline":
            return "(History.RegBaseline %s)" % qv(np.atleast_1d(rec["b"]).tolist())
        if k == "background":
            return "(History.RegBackground %s %s %s)" % (qv(rec["bg"]), cbool(rec["addb"]), cbool(rec["add"]))
        if k == "sysadapt":
            return "(History.RegSysAdapt %s %s %s)" % (qv(rec["x"]), cbool(rec["addb"]), cbool(rec["add"]))
        if k == "targets":
            B = rec["B"]; W = rec["W"] if rec["W"] is not None else [[1.0] * m for _ in B]
            return "(History.RegTargets %s %s)" % (qm(B), qm(W))
        if k == "fit":
            return "(History.FitInternal %s)" % qm(rec["Bpred"])
        return "History.Query"

    def emit(self, case, out):
        if "error" in out:
            raise ValueError("history raised %s: %s" % (out["error"], out.get("msg")))
        pool = case["pool"]; m = len(pool["F"])
        ops = "[" + ";".join(self.op_term(r, m) for r in out["steps"]) + "]"
        obs = "[" + ";".join("(History.Build_obs %s %s %s %s %s %s %s %s %s)" % (
            qm(r["obs"]["K"]), qv(r["obs"]["base"]), qm(r["obs"]["A"]), ob(r["obs"]["lb"]) if r["obs"]["A"] else "[]", ob(r["obs"]["ub"]) if r["obs"]["A"] else "[]",
            qm(r["obs"]["B"]), qm(r["obs"]["W"]), qv(r["obs"]["relcap"]), qv(r["obs"]["sysrel"])) for r in out["steps"]) + "]"
        xs = qm([r["xprobe"] for r in out["steps"]])
        return "(History.Build_case %s %s (Linear.Ks 1) [0] %s %s %s %s %s)" % (
            dom_lit(pool["dom"]), qm(pool["F"]), ops, qv(pool["probe_sig"]), xs, obs, q(1e-9))

    def spec_violation(self, case, out):
        if "error" in out:
            return {"what": "history %s raised %s: %s" % (case["hist"], out["error"], out.get("msg", "")[:140]), "class": "raises:" + out["error"]}
        if out["problems"]:
            p = out["problems"][0]
            cls = "twin" if "twin" in p else ("caller-array" if "caller array" in p else ("impure-query" if "query" in p else "other"))
            return {"what": "history %s: %s" % (case["hist"], p), "class": cls}
        return None

    def nontrivial(self, case, out):
        kinds = [o[0] for o in case["hist"]]
        return len(set(kinds)) < len(kinds) or any(k in ("background", "sysadapt", "fit") for k in kinds[1:])

    def entry(self, case):
        return "ReceptorEstimator history " + " ; ".join(o[0] for o in case["hist"])

    def describe(self, case, out):
        return {"history": case["hist"], "problems": out.get("problems"), "n_steps": len(out.get("steps", []))}

    def extra_coverage(self, ctx):
        n2 = sum(1 for c in ctx["cases"] if len(c["hist"]) == 3)
        return {"exhaustive": True, "exhaustive_pairs_after_system_registration": n2, "random_histories": len(ctx["cases"]) - n2,
                "steps_compared_with_model": sum(len(o.get("steps", [])) for o in ctx["outs"])}

    def plant(self, cases, outs):
        k = 7
        self.planted_index = k
        outs[k]["steps"][-1]["obs"]["relcap"][0] += 1e-6 * (1 + abs(outs[k]["steps"][-1]["obs"]["relcap"][0]))


PROP = C14()
