"""C19 — domain equalisation.  Model: coq/Model/Domain.v."""
from fractions import Fraction as Fr
import numpy as np
import core
from core import Prop, q, qv, qm, cerr, dyad


def rows_of(arr, axis):
    a = np.moveaxis(np.asarray(arr, dtype=float), axis, -1)
    return a.reshape(-1, a.shape[-1])


def lit_lm(ms):
    return "[" + ";".join(qm(m.tolist()) for m in ms) + "]"


def lit_lv(vs):
    return "[" + ";".join(qv(v) for v in vs) + "]"


def rhe(x):
    """round half even of a Fraction"""
    n = x.numerator // x.denominator
    fr = x - n
    if fr < Fr(1, 2):
        return n
    if fr > Fr(1, 2):
        return n + 1
    return n if n % 2 == 0 else n + 1


def finterp(xs, ys, t):
    ps = sorted(zip(xs, ys))
    xs = [p[0] for p in ps]; ys = [p[1] for p in ps]
    if t < xs[0] or t > xs[-1]:
        return Fr(0)
    for k in range(len(xs) - 1):
        if xs[k] <= t <= xs[k + 1]:
            return ys[k] + (ys[k + 1] - ys[k]) * (t - xs[k]) / (xs[k + 1] - xs[k])
    return Fr(0)


class C19(Prop):
    id = "C19"
    coq_imports = "From DV Require Import Model.Capture Model.Domain."
    case_type = "Domain.gcase"
    verdict = "Domain.gverdict"
    shard = 80
    rule = ("2-4 domains of 2-12 points: uniform / non-uniform / unsorted / nested / partially overlapping / disjoint / identical / exact ties for "
            "np.around (overlap = (k+1/2) step); arrays of rank 1-3 with the domain on any axis, stack / concatenate / neither; plus "
            "ReceptorEstimator.capture(signals, domain=...) with a foreign signal domain. non-trivial = the new grid is not a subset of every input "
            "domain (interpolation is not the identity) or a domain is unsorted or more than two inputs")
    assumptions = ["scipy interp1d internals are opaque: compared within atol=rtol=1e-9 with the exact piecewise-linear model",
                   "N-D arrays are flattened to rows along the domain axis by the harness (numpy moveaxis/reshape); stacked/concatenated results are split back with numpy"]
    modelled = "domain.py: equalize_domains, _is_equal_domains, _get_domain_bounds_and_diff, _interpolate_domains; utils.arange_with_interval; estimator._check_domain + capture"

    def sizes(self, tier):
        return 320 if tier == "quick" else 6000

    def gen_domain(self, rng, kind, base=None):
        n = rng.randint(2, 12)
        if kind == "uniform":
            x0 = dyad(rng, 300, 360, 2); st = rng.choice([0.5, 1.0, 2.0, 2.5, 5.0, 10.0])
            return [x0 + st * k for k in range(n)]
        if kind == "nonuniform":
            return [p / 4 for p in sorted(rng.sample(range(1200, 1700), n))]
        if kind == "unsorted":
            d = [p / 4 for p in sorted(rng.sample(range(1200, 1700), n))]
            rng.shuffle(d)
            return d
        if kind == "far":
            x0 = dyad(rng, 600, 700, 2)
            return [x0 + 2.0 * k for k in range(n)]
        raise ValueError(kind)

    def gen(self, rng, n, tier):
        cases = []
        for i in range(n):
            r = rng.random()
            if r < 0.15:
                cases.append(self.gen_est(rng))
                continue
            nd = rng.choice([2, 2, 3, 4])
            scen = rng.choice(["mixed", "mixed", "mixed", "identical", "disjoint", "tie", "nested", "decimal"])
            if scen == "identical":
                d0 = self.gen_domain(rng, rng.choice(["uniform", "nonuniform", "unsorted"]))
                ds = [list(d0) for _ in range(nd)]
            elif scen == "disjoint":
                ds = [self.gen_domain(rng, "nonuniform") for _ in range(nd - 1)] + [self.gen_domain(rng, "far")]
            elif scen == "tie":
                # overlap = (k + 1/2) * step exactly
                st = rng.choice([1.0, 2.0, 4.0]); k = rng.randint(1, 5)
                d1 = [300.0 + st * j for j in range(k + 4)]
                lo = 300.0 + st; hi = lo + (k + 0.5) * st
                d2 = [lo, lo + st / 2, hi]
                if (hi - lo) / 2 > st:
                    d2 = [lo, hi]
                ds = [d1, d2][:nd] if nd == 2 else [d1, d2] + [list(d1) for _ in range(nd - 2)]
            elif scen == "decimal":
                # a coarse table with one-decimal end points inside a fine 1-nm grid: the table sets both the overlap and the step.
                # Half of the time the end points are picked so that rebuilding the grid by multiplication (start + i*step) would NOT land on the end
                # point exactly (floating-point end-point hazard): the last sample must still be interpolated, not filled
                want_hazard = rng.random() < 0.6
                for _ in range(3000):
                    a = rng.randint(3000, 3300) / 10; b = a + rng.randint(2500, 3800) / 10; k = rng.randint(30, 90)
                    st = (b - a) / (k - 1)
                    if st <= 1.0:
                        continue
                    hazard = (a + st * (k - 1)) > b
                    if hazard or not want_hazard:
                        break
                d2 = np.linspace(a, b, k).tolist()
                d1 = [float(v) for v in range(int(a) - 2, int(b) + 4)]
                ds = [d1, d2] if rng.random() < 0.5 else [d2, d1]
                nd = 2
            elif scen == "nested":
                d1 = self.gen_domain(rng, "uniform")
                inner = [d1[0] + (d1[-1] - d1[0]) * rng.randint(1, 6) / 16, d1[0] + (d1[-1] - d1[0]) * rng.randint(9, 15) / 16]
                d2 = sorted(set(inner + [inner[0] + (inner[1] - inner[0]) * rng.randint(1, 15) / 16 for _ in range(rng.randint(0, 5))]))
                ds = [d1, d2] + [self.gen_domain(rng, "uniform") for _ in range(nd - 2)]
            else:
                ds = [self.gen_domain(rng, rng.choice(["uniform", "nonuniform", "nonuniform", "unsorted"])) for _ in range(nd)]
            intdom = False
            if scen == "mixed" and rng.random() < 0.3:
                # integer-valued domains handed over as integer arrays (wavelengths in nm are usually ints)
                intdom = True
                ds = []
                for _ in range(nd):
                    k = rng.randint(2, 9)
                    if rng.random() < 0.5:
                        x0 = rng.randint(300, 320); st = rng.choice([1, 2, 3, 5, 7])
                        ds.append([float(x0 + st * j) for j in range(k)])
                    else:
                        ds.append([float(v) for v in sorted(rng.sample(range(300, 340), k))])
            arrs, axes = [], []
            rank = rng.choice([1, 2, 2, 3])
            stack = rng.choice([None, None, "stack", "concat"])
            lead = [rng.randint(1, 3) for _ in range(rank - 1)]
            same_axis = rng.randrange(rank) - (rank if rng.random() < 0.5 else 0)
            for d in ds:
                ax = same_axis if (stack or rng.random() < 0.5) else rng.randrange(rank)
                shp = list(lead)
                axp = ax % rank
                shp.insert(axp, len(d))
                arrs.append(np.array([dyad(rng, -4, 4, 8) for _ in range(int(np.prod(shp)))]).reshape(shp).tolist())
                axes.append(ax)
            use_axes = axes if rng.random() < 0.7 or len(set(axes)) > 1 else axes[0]
            if all(a in (-1, rank - 1) for a in axes) and rng.random() < 0.5:
                use_axes = None
            sa = None
            if stack:
                sa = rng.randrange(rank) if stack == "concat" else rng.randrange(rank + 1)
                if stack == "concat" and sa == same_axis % rank:
                    pass  # concatenating along the domain axis is legal after equalisation
            cases.append({"entry": "equalize_domains", "ds": ds, "arrs": arrs, "axes": axes, "use_axes": use_axes,
                          "stack": stack, "stack_axis": sa, "scen": scen, "rank": rank, "intdom": intdom,
                          "kind": "%s%s/n%d/rank%d/%s" % (scen, "-int" if intdom else "", nd, rank, stack)})
        return cases

    def gen_est(self, rng):
        df = self.gen_domain(rng, rng.choice(["uniform", "nonuniform"]))
        dsig = self.gen_domain(rng, rng.choice(["uniform", "nonuniform", "unsorted"]))
        m = rng.randint(2, 4); ns = rng.randint(1, 3)
        F = [[dyad(rng, 0, 2, 8) for _ in df] for _ in range(m)]
        S = [[dyad(rng, 0, 4, 8) for _ in dsig] for _ in range(ns)]
        return {"entry": "estimator.capture", "df": df, "F": F, "dsig": dsig, "S": S, "kind": "estimator", "scen": "est"}

    def run_impl(self, case):
        import dreye
        if case["entry"] == "estimator.capture":
            est = dreye.ReceptorEstimator(np.array(case["F"]), domain=np.array(case["df"]))
            return {"cap": np.asarray(est.capture(np.array(case["S"]), domain=np.array(case["dsig"]))).tolist()}
        ds = [np.array(d, dtype=(int if case.get("intdom") else float)) for d in case["ds"]]
        arrs = [np.array(a, dtype=float) for a in case["arrs"]]
        kw = {}
        if case["use_axes"] is not None:
            kw["axes"] = case["use_axes"]
        if case["stack"]:
            kw["stack_axis"] = case["stack_axis"]; kw["concatenate"] = case["stack"] == "concat"
        nd, out = dreye.equalize_domains(ds, arrs, **kw)
        if case["stack"]:
            out = np.asarray(out)
            if case["stack"] == "stack":
                pieces = [np.take(out, k, axis=case["stack_axis"]) for k in range(out.shape[case["stack_axis"]])]
            else:
                # lengths of the pieces along the concatenation axis
                sa = case["stack_axis"]
                lens = []
                for a, ax in zip(arrs, case["axes"]):
                    shp = list(a.shape)
                    shp[ax % a.ndim] = len(nd)
                    lens.append(shp[sa])
                pieces = np.split(out, np.cumsum(lens)[:-1], axis=sa)
            if len(pieces) != len(arrs):
                return {"error": "StackShape", "msg": "stack returned %d pieces" % len(pieces)}
            out = pieces
        return {"nd": np.asarray(nd, dtype=float).tolist(), "arrs": [np.asarray(a, dtype=float).tolist() for a in out]}

    def emit(self, case, out):
        tol = q(1e-9)
        if case["entry"] == "estimator.capture":
            impl = "(Err %s)" % cerr(out["error"]) if "error" in out else "(Ok %s)" % qm(out["cap"])
            return "(Domain.GC (Domain.Build_ecase %s %s %s %s %s %s))" % (qv(case["df"]), qm(case["F"]), qv(case["dsig"]), qm(case["S"]), tol, impl)
        rows = [rows_of(a, ax) for a, ax in zip(case["arrs"], case["axes"])]
        if "error" in out:
            impl = "(Err %s)" % cerr(out["error"])
        else:
            orows = [rows_of(a, ax) for a, ax in zip(out["arrs"], case["axes"])]
            impl = "(Ok (%s, %s))" % (qv(out["nd"]), lit_lm(orows))
        return "(Domain.GE (Domain.Build_case %s %s %s %s))" % (lit_lv(case["ds"]), lit_lm(rows), tol, impl)

    # the property predicate, evaluated exactly
    def spec_violation(self, case, out):
        if case["entry"] == "estimator.capture":
            ds = [case["df"], case["dsig"]]
        else:
            ds = case["ds"]
        dsf = [[Fr(x) for x in d] for d in ds]
        identical = all(d == dsf[0] for d in dsf)
        lo = max(min(d) for d in dsf); hi = min(max(d) for d in dsf)
        st = max((max(d) - min(d)) / (len(d) - 1) for d in dsf)
        must_reject = (not identical) and (lo >= hi or hi - lo < st)
        if must_reject:
            if out.get("error") == "ValueError":
                return None
            return {"what": "non-overlapping (or too narrowly overlapping) domains were not rejected", "class": "not-rejected"}
        if "error" in out:
            return {"what": "%s raised %s: %s" % (case["entry"], out["error"], out.get("msg", "")[:150]), "class": "raises:" + out["error"]}
        tol = Fr(1, 10**8)
        if identical:
            grid = dsf[0]
        else:
            num = rhe((hi - lo) / st) + 1
            grid = [lo + k * (hi - lo) / (num - 1) for k in range(num)]
        if case["entry"] == "estimator.capture":
            from p_C01 import ftrapz
            Fi = [[finterp(dsf[0], [Fr(v) for v in f], t) for t in grid] for f in case["F"]] if not identical else [[Fr(v) for v in f] for f in case["F"]]
            Si = [[finterp(dsf[1], [Fr(v) for v in s], t) for t in grid] for s in case["S"]] if not identical else [[Fr(v) for v in s] for s in case["S"]]
            got = np.asarray(out["cap"], dtype=float)
            for i, s in enumerate(Si):
                for j, f in enumerate(Fi):
                    w = ftrapz(grid, [a * b for a, b in zip(f, s)])
                    if abs(w - Fr(float(got[i][j]))) > tol * (1 + abs(w)):
                        return {"what": "capture[%d][%d] = %r; capture of interpolated signal and filters on the common domain = %r" % (i, j, got[i][j], float(w)), "class": "est-capture"}
            return None
        nd = out["nd"]
        if len(nd) != len(grid):
            return {"what": "new domain has %d points, expected %d (overlap [%s,%s], coarsest step %s)" % (len(nd), len(grid), float(lo), float(hi), float(st)), "class": "grid-count"}
        for a, b in zip(nd, grid):
            if abs(Fr(a) - b) > tol * (1 + abs(b)):
                return {"what": "new domain point %r, expected %r" % (a, float(b)), "class": "grid-value"}
        if not identical and (Fr(nd[0]) != lo or Fr(nd[-1]) != hi):
            return {"what": "new domain [%r, %r] does not start/end exactly at the overlap [%r, %r]" % (nd[0], nd[-1], float(lo), float(hi)), "class": "grid-ends"}
        for k, (d, a, ax) in enumerate(zip(dsf, case["arrs"], case["axes"])):
            rin = rows_of(a, ax); rout = rows_of(out["arrs"][k], ax)
            if rout.shape != (rin.shape[0], len(grid)):
                return {"what": "array %d: interpolated shape %s" % (k, rout.shape), "class": "shape"}
            for r in range(rin.shape[0]):
                for c, t in enumerate(grid):
                    w = Fr(float(rin[r][c])) if identical else finterp(d, [Fr(float(v)) for v in rin[r]], t)
                    if abs(w - Fr(float(rout[r][c]))) > tol * (1 + abs(w)):
                        return {"what": "array %d row %d at new-domain point %d: %r, linear interpolation gives %r" % (k, r, c, rout[r][c], float(w)), "class": "interp-value"}
        return None

    def nontrivial(self, case, out):
        if case["scen"] in ("identical", "disjoint"):
            return False
        if case["entry"] == "estimator.capture":
            return True
        if any(d != sorted(d) for d in case["ds"]) or len(case["ds"]) > 2:
            return True
        nd = out.get("nd", [])
        return any(any(t not in d for t in nd) for d in case["ds"])

    def entry(self, case):
        return "dreye.equalize_domains" if case["entry"] == "equalize_domains" else "ReceptorEstimator.capture(signals, domain=)"

    def plant(self, cases, outs):
        k = next(i for i, o in enumerate(outs) if "arrs" in o)
        self.planted_index = k
        a = np.asarray(outs[k]["arrs"][0], dtype=float); a.flat[0] += 1e-4
        outs[k]["arrs"][0] = a.tolist()


PROP = C19()
