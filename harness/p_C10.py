"""C10 — adaptive fit scales intensity and chroma uniformly and stays inside the gamut.  Model: coq/Model/Adaptive.v."""
from fractions import Fraction as Fr
import numpy as np
import core
from core import Prop, q, qv, qm, cbool, cnat
from p_C04 import kmat_lit, base_vec, C04
import gen_sys as gs
import dualcert

SOLVE = dict(solver="CLARABEL", tol_gap_abs=1e-10, tol_gap_rel=1e-10, tol_feas=1e-10)


def build(Ap, bp, lb, ub, neutral, B, d1, dr):
    """numpy twin of Adaptive.adaptive_inst (used only to search certificates / spec check)"""
    S, m = B.shape; n = Ap.shape[1]; N = S * n
    nh = neutral / neutral.sum()
    G, h = [], []
    for i in range(S):
        b = B[i]; bs = b.sum(); npt = nh * bs; br = b - npt
        r = np.zeros(N + 2); r[i * n:(i + 1) * n] = Ap.sum(axis=0); r[N] = -bs
        G += [r, -r]; h += [d1 - bp.sum(), d1 + bp.sum()]
        for j in range(m):
            r = np.zeros(N + 2); r[i * n:(i + 1) * n] = Ap[j]; r[N] = -npt[j]; r[N + 1] = -br[j]
            G += [r, -r]; h += [dr - bp[j], dr + bp[j]]
    zlb = np.concatenate([np.tile(lb, S), [0.0, 0.0]]); zub = np.concatenate([np.tile(ub, S), [np.inf, np.inf]])
    return np.array(G), np.array(h), zlb, zub


class C10(Prop):
    id = "C10"
    coq_imports = "From DV Require Import Model.Linear Cert.Duality Cert.Qp Model.Adaptive."
    case_type = "Adaptive.acase"
    verdict = "Adaptive.averdict"
    shard = 10
    rule = ("well-scaled systems (2-4 receptors, 2-6 sources, finite bounds), target sets of 1-8 samples (quick; up to 50 thorough) from well inside to far outside the gamut, "
            "default and explicit neutral points, objectives 'unity' and 'max', scale weights, deltas in {1e-6..1e-3}; ReceptorEstimator.fit_adaptive with solver=CLARABEL "
            "(the default ECOS is not installed: environment fact E1). non-trivial = at least one target outside the gamut (scales != 1) or the 'max' objective")
    assumptions = ["solver opaque: judged by an LP/QP weak-duality certificate (HiGHS, untrusted) against the formulation model; the default solver ECOS is not installed in this "
                   "sandbox, so solver=cp.CLARABEL is passed through the documented keyword (recorded in the evidence, not a violation of the property)",
                   "constraints asserted to delta*(1+1e-3)+1e-7, optimality of the scale objective to 1e-4",
                   "target sets of 17-50 samples (thorough tier) are judged by the spec predicate (LP re-solve) only, not by the Coq verdict (T)"]
    modelled = "lsq_linear.py: lsq_linear_adaptive (Bsum, neutral_points, Brad; the two max-abs constraint groups as linear rows; bounds; 'unity' / 'max' objectives); estimator.fit_adaptive dispatch"

    def sizes(self, tier):
        return 70 if tier == "quick" else 900

    def gen(self, rng, n, tier):
        cases = []
        while len(cases) < n:
            sys = gs.gen_system(rng, mrange=(2, 4), nrange=(2, 6), finite_ub=True, Kkind=rng.choice(["none", "scalar", "vector"]))
            m = sys["m"]
            S = rng.randint(1, 8 if tier == "quick" else 50)
            scen = rng.choice(["all-inside", "mixed", "mixed", "far", "far-neg", "bright-desat"])
            B = []
            for _ in range(S):
                want = {"all-inside": "inside", "mixed": rng.choice(["inside", "outside"]), "far": rng.choice(["outside", "far"]), "far-neg": rng.choice(["outside", "far"]),
                        "bright-desat": "inside"}[scen]
                got = gs.gen_target_regime(rng, sys, want)
                if got is None:
                    break
                bb = np.asarray(got[1], dtype=float).copy()
                if scen == "bright-desat":
                    # too bright but less saturated than the gamut allows: the best pair dims the total and may STRETCH the chroma (scale > 1)
                    tot = bb.sum(); nh = np.ones(m) / m
                    bb = nh * tot * rng.choice([1.5, 2.0, 3.0]) + (bb - nh * tot) * rng.choice([0.25, 0.5, 0.75])
                if scen == "far-neg" and (len(B) == 0 or rng.random() < 0.5):
                    bb[rng.randrange(m)] = -rng.randint(1, 8) / 4        # so far outside in the chromatic direction that one capture is negative
                B.append(bb.tolist())
            if len(B) != S:
                continue
            neutral = None if rng.random() < 0.6 else [rng.randint(4, 12) / 8 for _ in range(m)]
            cases.append({"sys": {k: (v.tolist() if isinstance(v, np.ndarray) else v) for k, v in sys.items()}, "B": B, "neutral": neutral,
                          "objective": rng.choice(["unity", "unity", "max"]), "scale_w": rng.choice([1.0, [1.0, 2.0], [0.5, 1.0]]),
                          "d1": rng.choice([1e-6, 1e-5, 1e-4, 1e-3]), "dr": rng.choice([1e-6, 1e-5, 1e-4, 1e-3]), "scen": scen,
                          "w": ([rng.choice([0.05, 0.25, 0.5, 2.0, 4.0]) for _ in range(m)] if rng.random() < 0.4 else None),
                          "kind": "%s/S%d/%s/%s" % (scen, S, "np" if neutral else "ones", "max" if cases and False else "")})
            cases[-1]["kind"] = "%s/%s/%s" % (scen, cases[-1]["objective"], "np" if neutral else "ones")
        return cases

    def run_impl(self, case):
        sys = C04.sysnp(case)
        # importance weights of the estimator play no role in the adaptive fit (the deltas are absolute): some estimators carry them
        est = gs.make_estimator(sys, **({"w": np.array(case["w"])} if case.get("w") else {}))
        core.watch(est.A); sw = np.array(case["scale_w"]) if isinstance(case["scale_w"], list) else case["scale_w"]
        kw = {}
        if case["neutral"] is not None:
            kw["neutral_point"] = np.array(case["neutral"])
        default_solver = None
        try:
            est.fit_adaptive(np.array(case["B"]), **kw)
            default_solver = "ok"
        except Exception as e:  # noqa
            default_solver = type(e).__name__
        gs.warm(lambda: gs.make_estimator(gs.sibling(sys)).fit_adaptive(np.array(case["B"]) + 0.75, delta_norm1=case["d1"] * 10, delta_radius=case["dr"], adaptive_objective=case["objective"],
                                                                         scale_w=sw, **kw, **SOLVE))
        X, scales, Bp = est.fit_adaptive(np.array(case["B"]), delta_norm1=case["d1"], delta_radius=case["dr"], adaptive_objective=case["objective"],
                                         scale_w=sw, **kw, **SOLVE)
        return {"X": np.asarray(X, dtype=float).tolist(), "scales": np.asarray(scales, dtype=float).tolist(), "Bpred": np.asarray(Bp, dtype=float).tolist(),
                "default_solver": default_solver}

    def prep(self, case, out):
        if "_p" in case:
            return case["_p"]
        sys = C04.sysnp(case); m, n = sys["m"], sys["n"]
        Ap, bp = gs.K_apply(sys["K"], sys["A"], base_vec(sys["baseline"], m))
        Ap = np.asarray(Ap, dtype=float); bp = np.asarray(bp, dtype=float)
        B = np.array(case["B"]); S = len(B)
        neutral = np.ones(m) if case["neutral"] is None else np.array(case["neutral"])
        G, h, zlb, zub = build(Ap, bp, sys["lb"], sys["ub"], neutral, B, case["d1"], case["dr"])
        sw = np.broadcast_to(np.atleast_1d(np.asarray(case["scale_w"], dtype=float)), (2,))
        z = np.concatenate([np.asarray(out["X"]).ravel(), out["scales"]])
        N = S * n
        # reference point (untrusted): an accurate optimum of the same programme; the duality bound is evaluated there
        import cvxpy as cp
        z0 = z; ref = None
        try:
            zz = cp.Variable(N + 2); fin = np.isfinite(zub)
            ob = cp.sum_squares(cp.multiply(sw, zz[N:] - 1)) if case["objective"] != "max" else -(sw @ zz[N:])
            pr = cp.Problem(cp.Minimize(ob), [G @ zz <= h, zz >= zlb, zz[fin] <= zub[fin]])
            pr.solve(solver="CLARABEL", tol_gap_abs=1e-11, tol_gap_rel=1e-11, tol_feas=1e-11)
            if pr.status in ("optimal", "optimal_inaccurate") and zz.value is not None:
                z0 = np.maximum(np.asarray(zz.value, dtype=float), zlb); z0 = np.where(fin, np.minimum(z0, zub), z0); ref = float(pr.value)
        except Exception:  # noqa
            pass
        g = np.zeros(N + 2)
        if case["objective"] == "max":
            g[N:] = -sw
            obj = float(-sw @ z[N:])
        else:
            g[N:] = 2 * sw ** 2 * (z0[N:] - 1)
            obj = float(((sw * (z[N:] - 1)) ** 2).sum())
        lam, ys, ss = dualcert.best_cert(g, z0, zlb, zub, G, h, [])
        case["_p"] = dict(z0=z0, ref=ref, sys=sys, Ap=Ap, bp=bp, G=G, h=h, zlb=zlb, zub=zub, z=z, sw=sw, cert=(lam, ys, ss), obj=obj, neutral=neutral, N=N)
        return case["_p"]

    def infeasible(self, case):
        """the spec problem itself has no feasible point (several far targets cannot share one pair of scales)"""
        if "_inf" in case:
            return case["_inf"]
        import cvxpy as cp
        sys = C04.sysnp(case); m = sys["m"]
        Ap, bp = gs.K_apply(sys["K"], sys["A"], base_vec(sys["baseline"], m))
        neutral = np.ones(m) if case["neutral"] is None else np.array(case["neutral"])
        G, h, zlb, zub = build(np.asarray(Ap, dtype=float), np.asarray(bp, dtype=float), sys["lb"], sys["ub"], neutral, np.array(case["B"]), case["d1"], case["dr"])
        z = cp.Variable(G.shape[1]); fin = np.isfinite(zub)
        pr = cp.Problem(cp.Minimize(0), [G @ z <= h, z >= zlb, z[fin] <= zub[fin]])
        pr.solve(solver="CLARABEL")
        case["_inf"] = pr.status in ("infeasible", "infeasible_inaccurate")
        return case["_inf"]

    def emit(self, case, out):
        if "error" in out and self.infeasible(case):
            return None          # no feasible (X, scales) exists: outside the property's premise
        if "error" in out:
            raise ValueError("raised %s: %s" % (out["error"], out.get("msg")))
        if len(case["B"]) > 16:
            return None          # 17-50 samples: hundreds of constraint rows are beyond what the Coq VM evaluates in reasonable time; judged by the spec predicate only (T)
        p = self.prep(case, out); sys = p["sys"]; m = sys["m"]
        tolf = max(case["d1"], case["dr"]) * 1e-3 + 1e-7
        return "(Adaptive.Build_acase %s %s %s %s %s %s %s %s %s %s %s %s %s %s %s %s %s %s %s)" % (
            kmat_lit(sys["K"], m), qm(sys["A"].tolist()), cnat(sys["n"]), qv(sys["lb"].tolist()), qv(sys["ub"].tolist()),
            qv(base_vec(sys["baseline"], m).tolist()), qv(p["neutral"].tolist()), qm(case["B"]), q(case["d1"]), q(case["dr"]), qv(p["sw"].tolist()),
            cbool(case["objective"] == "max"), qm(out["X"]), qv(out["scales"]), qv(p["z0"].tolist()), qm(out["Bpred"]), dualcert.cert_lit(*p["cert"]), q(1e-4), q(tolf))

    def spec_violation(self, case, out):
        if "error" in out and self.infeasible(case):
            return None
        if "error" in out:
            return {"what": "fit_adaptive raised %s: %s" % (out["error"], out.get("msg", "")[:140]), "class": "raises:%s" % out["error"]}
        import cvxpy as cp
        p = self.prep(case, out); sys = p["sys"]
        X = np.array(out["X"]); s = np.array(out["scales"]); B = np.array(case["B"])
        if np.any(X < sys["lb"] - 1e-6) or np.any(X > sys["ub"] + 1e-6) or np.any(s < -1e-9):
            return {"what": "intensities outside the bounds or negative scales %s" % s.tolist(), "class": "bounds"}
        if np.any(s <= 1e-9):
            # a scale that is not positive: is it forced (every optimal pair has it at zero) or did the fit lose a positive optimum?
            N = p["N"]; k = int(np.argmin(s)); forced = False
            try:
                z = cp.Variable(N + 2); fin = np.isfinite(p["zub"])
                obj = cp.sum_squares(cp.multiply(p["sw"], z[N:] - 1)) if case["objective"] != "max" else -(p["sw"] @ z[N:])
                pr = cp.Problem(cp.Minimize(obj), [p["G"] @ z <= p["h"], z >= p["zlb"], z[fin] <= p["zub"][fin]])
                pr.solve(solver="CLARABEL", tol_gap_abs=1e-12, tol_gap_rel=1e-12, tol_feas=1e-12)
                forced = pr.status in ("optimal", "optimal_inaccurate") and float(np.asarray(z.value)[N + k]) <= 1e-7
            except Exception:  # noqa
                pass
            return {"what": "scale %d is %r, not positive (scales %s, objective %r)%s" % (
                k, float(s[k]), s.tolist(), case["objective"], ": the optimal pair itself has this scale at zero (targets so far outside that all %s is removed)" % ("chroma" if k else "intensity") if forced else ""),
                    "class": "zero-scale:%s%s" % (case["objective"], ":forced" if forced else "")}
        Bp = X @ p["Ap"].T + p["bp"]
        if np.max(np.abs(Bp - np.array(out["Bpred"]))) > 1e-8:
            return {"what": "B_pred is not the model capture of the returned intensities", "class": "prediction"}
        nh = p["neutral"] / p["neutral"].sum()
        tot = np.abs(Bp.sum(axis=1) - s[0] * B.sum(axis=1)).max()
        rad = np.abs(s[1] * (B - nh * B.sum(axis=1)[:, None]) - (Bp - s[0] * nh * B.sum(axis=1)[:, None])).max()
        if tot > case["d1"] * (1 + 1e-3) + 1e-7:
            return {"what": "fitted total capture deviates from scale0 * target total by %.3g (> delta_norm1=%g)" % (tot, case["d1"]), "class": "total-constraint"}
        if rad > case["dr"] * (1 + 1e-3) + 1e-7:
            return {"what": "fitted offset from the neutral direction deviates from scale1 * target offset by %.3g (> delta_radius=%g)" % (rad, case["dr"]), "class": "radial-constraint"}
        N = p["N"]
        z = cp.Variable(N + 2)
        obj = cp.sum_squares(cp.multiply(p["sw"], z[N:] - 1)) if case["objective"] != "max" else -(p["sw"] @ z[N:])
        fin = np.isfinite(p["zub"])
        pr = cp.Problem(cp.Minimize(obj), [p["G"] @ z <= p["h"], z >= p["zlb"], z[fin] <= p["zub"][fin]])
        pr.solve(solver="CLARABEL", tol_gap_abs=1e-11, tol_gap_rel=1e-11, tol_feas=1e-11)
        if pr.status in ("optimal", "optimal_inaccurate") and p["obj"] > pr.value + 1e-4:
            return {"what": "objective %s: returned scales %s give %.6g but the feasible pair %s gives %.6g" % (
                case["objective"], s.tolist(), p["obj"], np.asarray(z.value)[N:].tolist(), pr.value), "class": "scales-not-optimal:" + case["objective"]}
        if case["objective"] != "max" and case["scen"] == "all-inside" and np.max(np.abs(s - 1)) > 1e-3:
            return {"what": "all targets are in gamut but the 'unity' scales are %s" % s.tolist(), "class": "unity-not-one"}
        return None

    def nontrivial(self, case, out):
        return case["objective"] == "max" or ("scales" in out and np.max(np.abs(np.array(out["scales"]) - 1)) > 1e-3)

    def entry(self, case):
        return "ReceptorEstimator.fit_adaptive(adaptive_objective=%r)" % case["objective"]

    def extra_coverage(self, ctx):
        h = {}
        for o in ctx["outs"]:
            k = o.get("default_solver")
            h[k] = h.get(k, 0) + 1
        return {"default_solver_ECOS_outcome (environment fact E1)": h}

    def describe(self, case, out):
        return {"case": core.hexf(core.pub(case)), "out": core.hexf(out)}

    def plant(self, cases, outs):
        k = next(i for i, (c, o) in enumerate(zip(cases, outs)) if "scales" in o)
        self.planted_index = k
        outs[k]["Bpred"][0][0] += 1e-5


PROP = C10()
