#!/usr/bin/env python3
"""Parallel variant of seed_replay.py: every stored change is applied in its own scratch worktree of /repo HEAD (never to /repo itself) and the
registered quick check(s) run against that worktree through DREYE_REPO.  One stream per property (a property's replay files are shared), N streams
in parallel.  Results are merged into seeded/REPLAY.json with "mode": "worktree".
usage: seed_replay_wt.py [-j N] [name ...]"""
import json, os, re, subprocess, sys, glob, tempfile, shutil
from concurrent.futures import ThreadPoolExecutor
VERIF = os.path.dirname(os.path.dirname(os.path.abspath(__file__)))


def sh(cmd, cwd=None, timeout=7200, env=None):
    p = subprocess.run(cmd, shell=True, cwd=cwd, stdout=subprocess.PIPE, stderr=subprocess.STDOUT, text=True, timeout=timeout, env=env)
    return p.returncode, p.stdout


def one(name, head):
    d = os.path.join(VERIF, "seeded", name); pid = name.split("-")[0]
    extra = json.load(open(os.path.join(d, "meta.json"))).get("also_checks", [])
    wt = tempfile.mkdtemp(prefix="rwt_", dir="/tmp"); os.rmdir(wt)
    r = {"repo": head, "mode": "worktree", "checks": {}}
    try:
        assert sh("git -C /repo worktree add -q --detach %s HEAD" % wt)[0] == 0
        rc, out = sh("git apply %s" % os.path.join(d, "patch.diff"), cwd=wt)
        if rc:
            return name, {"repo": head, "applies": False, "note": out.strip()[:200]}
        r["applies"] = True
        for c in [pid] + extra:
            if any(v["exit"] == 1 and v["violations"] for v in r["checks"].values()):
                break          # already caught by an earlier check of the list
            rc, out = sh("./check %s" % c, cwd=VERIF, env=dict(os.environ, VERIF_NO_EVIDENCE="1", DREYE_REPO=wt))
            viol = [l for l in out.splitlines() if l.startswith("VIOLATION")]
            classes = []
            for l in viol:
                m = re.search(r"replay=(\S+)", l)
                if m and os.path.exists(os.path.join(VERIF, m.group(1))):
                    classes.append(json.load(open(os.path.join(VERIF, m.group(1)))).get("class"))
            r["checks"][c] = {"exit": rc, "violations": len(viol), "classes": classes[:4], "widened": "SOURCE-CHANGED" in out and "seed=101" in out,
                              "with_failing_input": sum(1 for l in viol if not l.rstrip().endswith("no-failing-input-found"))}
    finally:
        sh("git -C /repo worktree remove --force %s" % wt); shutil.rmtree(wt, ignore_errors=True)
    r["caught_by"] = [c for c, v in r["checks"].items() if v["exit"] == 1 and v["violations"]]
    return name, r


def main():
    args = sys.argv[1:]; j = 6
    if args and args[0] == "-j":
        j = int(args[1]); args = args[2:]
    names = args or sorted(os.path.basename(d) for d in glob.glob(os.path.join(VERIF, "seeded", "C*-*")))
    head = sh("git -C /repo rev-parse --short HEAD")[1].strip()
    outp = os.path.join(VERIF, "seeded", "REPLAY.json")
    res = json.load(open(outp)) if os.path.exists(outp) else {}
    groups = {}
    for n in names:
        # streams are keyed by every check a change needs, so that no two streams run the same property's check at once
        groups.setdefault(n.split("-")[0], []).append(n)
    also = {n: json.load(open(os.path.join(VERIF, "seeded", n, "meta.json"))).get("also_checks", []) for n in names}
    plain = {p: [n for n in ns if not also[n]] for p, ns in groups.items()}
    cross = [n for n in names if also[n]]

    def stream(ns):
        out = []
        for n in ns:
            k, r = one(n, head); out.append((k, r)); print(k, "caught by", r.get("caught_by"), flush=True)
        return out
    with ThreadPoolExecutor(max_workers=j) as ex:
        for chunk in ex.map(stream, [v for v in plain.values() if v]):
            for k, r in chunk:
                res[k] = r
            json.dump(res, open(outp, "w"), indent=1)
    for k, r in stream(cross):           # changes that also need another property's check: alone, afterwards
        res[k] = r
    json.dump(res, open(outp, "w"), indent=1)


if __name__ == "__main__":
    main()
