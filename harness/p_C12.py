"""C12 — gamut-corrective scalings.  Model: coq/Model/Scaling.v."""
from fractions import Fraction as Fr
import numpy as np
import core
from core import Prop, q, qv, qm, cbool, cnat, dyad
from p_C04 import kmat_lit, base_vec, C04
from p_C03 import C03
import gen_sys as gs
import lp_cert


class C12(Prop):
    id = "C12"
    coq_imports = "From DV Require Import Model.Linear Cert.Hull Model.Scaling."
    case_type = "Scaling.gcase"
    verdict = "Scaling.gverdict"
    shard = 25
    rule = ("systems 2-4 receptors x 2-6 sources, finite ub, lb = 0, K none/scalar/vector, baseline zero/scalar/vector, relative and absolute capture, default (all-ones) "
            "and explicit neutral points inside the chromatic gamut; target sets of 1-6 non-negative rows incl. all-zero rows, all-inside sets and sets with outside rows; "
            "entries ReceptorEstimator.gamut_l1_scaling / gamut_dist_scaling. non-trivial = dist scaling with at least one chromaticity outside, or l1 scaling with >= 2 rows")
    assumptions = ["qhull (ConvexHull facet equations) and the chromatic membership test are opaque; the result is judged by cone membership / separation certificates from HiGHS (untrusted)",
                   "the common factor alpha is recovered from the output by the harness and re-applied exactly in Q (rows must then agree to 1e-9); maximality of alpha asserted to 1e-5"]
    modelled = "estimator.hull_l1_scaling (all of it), arithmetic of hull_dist_scaling after alpha (L1 * (n^ + alpha (b^ - n^)) via affinity of the barycentric map); alpha search (ConvexHull, alpha_for_B_with_P) opaque"

    def sizes(self, tier):
        return 120 if tier == "quick" else 2500

    def gen(self, rng, n, tier):
        cases = []
        while len(cases) < n:
            kind = rng.choice(["l1", "dist", "dist", "dist"])
            m0 = rng.randint(2, 4)
            sys = gs.gen_system(rng, mrange=(m0, m0), nrange=(m0, 6), finite_ub=True, lb_zero=True,
                                Kkind=rng.choice(["none", "scalar", "vector"]))
            m, nn = sys["m"], sys["n"]
            relative = rng.random() < 0.7
            nrows = rng.randint(1, 6)
            sysr = sys if relative else dict(sys, K=None, baseline=0.0)
            if kind == "l1":
                B = [[dyad(rng, 1, 60, 8) for _ in range(m)] for _ in range(nrows)]
                base0 = gs.rel_capture(sysr, np.zeros(nn))
                B = [[max(v, float(base0[j]) + 0.125) for j, v in enumerate(r)] for r in B]
                cases.append({"op": "l1", "sys": self.ser(sys), "relative": relative, "B": B, "kind": "l1/%s/K-%s/base-%s" % ("rel" if relative else "abs", sys["Kkind"], sys["bkind"])})
                continue
            # chromatic scaling: rows from inside (images of x) and outside (random non-negative)
            scen = rng.choice(["mixed", "mixed", "all-inside", "all-inside-zero", "with-zero"])
            B = []
            for r in range(nrows):
                inside = scen.startswith("all-inside") or rng.random() < 0.4
                if inside:
                    x = np.array([sys["ub"][i] * rng.randint(1, 15) / 16 for i in range(nn)])
                    B.append(gs.rel_capture(sysr, x).tolist())
                else:
                    B.append([dyad(rng, 0, 40, 8) + (0.125 if j == r % m else 0) for j in range(m)])
            if scen in ("all-inside-zero", "with-zero") and nrows >= 2:
                B[rng.randrange(nrows)] = [0.0] * m
            neutral = None
            if rng.random() < 0.4:
                xm = np.array([sys["ub"][i] * rng.randint(6, 10) / 16 for i in range(nn)])
                neutral = gs.rel_capture(sysr, xm).tolist()
            c0 = {"sys": self.ser(sys), "relative": relative}
            if not self.neutral_inside(c0, np.ones(m) if neutral is None else np.array(neutral)):
                continue
            cases.append({"op": "dist", "sys": self.ser(sys), "relative": relative, "B": B, "neutral": neutral, "scen": scen,
                          "kind": "dist/%s/%s/m%d/%s" % (scen, "rel" if relative else "abs", m, "np" if neutral else "ones")})
        return cases

    def neutral_inside(self, c0, neutral, eps=0.05):
        """the neutral chromaticity is strictly inside the (full-dimensional) chromatic gamut"""
        sys, Ap, bp = self.transformed(c0)
        if np.linalg.matrix_rank(Ap) < sys["m"]:
            return False
        nhat = neutral / neutral.sum()
        for j in range(sys["m"]):
            for sgn in (1, -1):
                e = np.zeros(sys["m"]); e[j] = 1
                pt = nhat + sgn * eps * (e - nhat)
                if np.any(pt <= 0):
                    return False
                x, t, inf = lp_cert.cone_member(Ap, bp, sys["lb"], sys["ub"], pt)
                if x is None or inf > 1e-9:
                    return False
        return True

    @staticmethod
    def ser(sys):
        return {k: (v.tolist() if isinstance(v, np.ndarray) else v) for k, v in sys.items()}

    def run_impl(self, case):
        sys = C04.sysnp(case)
        # the same problem in other capture units (exact power-of-two rescaling of sources, baseline and targets; undone on the result);
        # chosen per case from its own data so that the generator's random stream is unchanged
        u = self.unit(case)
        if u != 1.0:
            sys = dict(sys, A=sys["A"] * u, baseline=(np.asarray(sys["baseline"], dtype=float) * u if np.ndim(sys["baseline"]) else sys["baseline"] * u))
        est = gs.make_estimator(sys)
        B = np.array(case["B"], dtype=float) * u
        Bin = B.copy()
        if case["op"] == "l1":
            r = est.gamut_l1_scaling(B, relative=case["relative"])
        else:
            kw = {}
            if case["neutral"] is not None:
                kw["neutral_point"] = np.array(case["neutral"])
            r = est.gamut_dist_scaling(B, relative=case["relative"], **kw)
        return {"out": (np.asarray(r, dtype=float) / u).tolist(), "input_untouched": bool(np.array_equal(B, Bin)), "unit": u}

    @staticmethod
    def unit(case):
        h = int(round(abs(float(np.sum(np.array(case["B"], dtype=float))) * 64))) % 10
        return {0: 2.0 ** -30, 1: 2.0 ** -40, 2: 2.0 ** 20}.get(h, 1.0)

    def transformed(self, case):
        sys = C04.sysnp(case)
        m = sys["m"]
        if case["relative"]:
            Ap, bp = gs.K_apply(sys["K"], sys["A"], base_vec(sys["baseline"], m))
        else:
            Ap, bp = sys["A"], np.zeros(m)
        return sys, np.asarray(Ap, dtype=float), np.asarray(bp, dtype=float)

    def analyse(self, case, out):
        """LP-based analysis of a dist case (cached)"""
        if "_an" in case:
            return case["_an"]
        sys, Ap, bp = self.transformed(case)
        lb, ub = sys["lb"], sys["ub"]
        m = sys["m"]
        B = np.array(case["B"], dtype=float)
        neutral = np.ones(m) if case["neutral"] is None else np.array(case["neutral"])
        nhat = neutral / neutral.sum()
        nz = ~np.all(B == 0, axis=1)
        Bhat = np.where(nz[:, None], B / np.where(nz, B.sum(axis=1), 1.0)[:, None], 0.0)
        # all inside?
        xin, inside = [], []
        for i in range(len(B)):
            if not nz[i]:
                xin.append(np.zeros(sys["n"])); inside.append(True); continue
            x, t, inf = lp_cert.cone_member(Ap, bp, lb, ub, Bhat[i])
            ok = x is not None and inf <= 1e-9
            xin.append(np.clip(x, lb, ub) if x is not None else np.zeros(sys["n"])); inside.append(ok)
        # maximal alpha per row
        amaxs = []
        for i in range(len(B)):
            if not nz[i]:
                amaxs.append(np.inf); continue
            a, x, t = lp_cert.cone_max_alpha(Ap, bp, lb, ub, nhat, Bhat[i] - nhat)
            amaxs.append(np.inf if a is None else a)
        an = dict(sys=sys, Ap=Ap, bp=bp, nhat=nhat, Bhat=Bhat, nz=nz, xin=xin, inside=inside, amaxs=np.array(amaxs), neutral=neutral)
        if out is not None and "out" in out:
            O = np.array(out["out"], dtype=float)
            alphas = []
            for i in range(len(B)):
                d = Bhat[i] - nhat
                if nz[i] and np.dot(d, d) > 1e-18 and O[i].sum() != 0:
                    alphas.append(float(np.dot(O[i] / B[i].sum() - nhat, d) / np.dot(d, d)))
            an["alphas"] = alphas
            an["alpha"] = float(np.median(alphas)) if alphas else 1.0
            xs = []
            for i in range(len(B)):
                if not nz[i]:
                    xs.append(np.zeros(sys["n"])); continue
                pt = nhat + an["alpha"] * (Bhat[i] - nhat)
                x, t, inf = lp_cert.cone_member(Ap, bp, lb, ub, pt)
                xs.append(np.clip(x, lb, ub) if x is not None else np.zeros(sys["n"]))
            an["xs"] = xs
            k = int(np.argmin(an["amaxs"])) if np.isfinite(np.min(an["amaxs"])) else 0
            an["bind"] = k
            delta = 1e-5 * max(1.0, an["alpha"])
            pt = nhat + (an["alpha"] + delta) * (Bhat[k] - nhat)
            y, gap = lp_cert.separation(Ap, bp, lb, ub, pt, cone=True)
            if y is not None and gap > 0:
                y = C03.fix_cone_y(Ap, bp, lb, ub, y)
                mu = float(sum(Fr(float(a)) * Fr(float(b_)) for a, b_ in zip(y, pt))) / 2
            else:
                y = np.zeros(m); mu = 0.0
            an.update(delta=delta, y=y, mu=mu)
        case["_an"] = an
        return an

    def emit(self, case, out):
        if "error" in out:
            raise ValueError("raised %s: %s" % (out["error"], out.get("msg")))
        sys = C04.sysnp(case)
        m = sys["m"]
        K = sys["K"] if case["relative"] else None
        base = base_vec(sys["baseline"], m) if case["relative"] else np.zeros(m)
        if case["op"] == "l1":
            return "(Scaling.GL (Scaling.Build_lcase %s %s %s %s %s %s %s %s))" % (
                qm(sys["A"].tolist()), cnat(sys["n"]), qv(sys["ub"].tolist()), kmat_lit(K, m), qv(base.tolist()),
                qm(case["B"]), qm(out["out"]), q(1e-9))
        an = self.analyse(case, out)
        all_inside = bool(all(an["inside"]))
        return "(Scaling.GD (Scaling.Build_dcase %s %s %s %s %s %s %s %s %s %s %s %s %s %s %s %s %s %s %s))" % (
            qm(sys["A"].tolist()), cnat(sys["n"]), qv(sys["lb"].tolist()), qv(sys["ub"].tolist()), kmat_lit(K, m), qv(base.tolist()),
            qv(an["neutral"].tolist()), qm(case["B"]), qm(out["out"]), q(an["alpha"]),
            qm([x.tolist() for x in an["xs"]]), cbool(all_inside), qm([x.tolist() for x in an["xin"]]),
            cnat(an["bind"]), qv(np.asarray(an["y"]).tolist()), q(an["mu"]), q(an["delta"]), q(1e-9), q(1e-6))

    def spec_violation(self, case, out):
        cfg = "%s/m%d" % ("rel" if case["relative"] else "abs", case["sys"]["m"])
        if "error" in out:
            return {"what": "%s scaling raised %s: %s" % (case["op"], out["error"], out.get("msg", "")[:140]), "class": "raises:%s:%s:%s" % (case["op"], out["error"], cfg)}
        if not out.get("input_untouched", True):
            return {"what": "the caller's target array was modified in place", "class": "mutates-input"}
        sys, Ap, bp = self.transformed(case)
        B = np.array(case["B"], dtype=float); O = np.array(out["out"], dtype=float)
        if case["op"] == "l1":
            Bs = B - bp; Os = O - bp
            f = Os.flat[np.argmax(np.abs(Bs))] / Bs.flat[np.argmax(np.abs(Bs))]
            amax = np.min(np.max(Ap * sys["ub"], axis=1))
            if f <= 0 or np.max(np.abs(Os - f * Bs)) > 1e-9 * (1 + np.max(np.abs(Os))):
                return {"what": "intensity scaling is not one common positive factor on the light-induced part (factor %r)" % f, "class": "l1-factor"}
            if abs(np.max(Os) - amax) > 1e-9 * (1 + amax):
                return {"what": "largest light-induced capture after scaling is %r, the smallest single-source maximum is %r" % (np.max(Os), amax), "class": "l1-max"}
            return None
        an = self.analyse(case, out)
        nz = an["nz"]
        if np.max(np.abs(O.sum(axis=1) - B.sum(axis=1))) > 1e-9 * (1 + np.max(B.sum(axis=1))):
            return {"what": "chromatic scaling changed a target's total capture (%s -> %s)" % (B.sum(axis=1).tolist(), O.sum(axis=1).tolist()), "class": "dist-total:" + cfg}
        if all(an["inside"]):
            if np.max(np.abs(O - B)) > 1e-9 * (1 + np.max(B)):
                zr = "+zero-row" if np.any(~nz) else ""
                return {"what": "all chromaticities are already inside the chromatic gamut but the targets were changed (alpha=%r)" % an.get("alpha"),
                        "class": "dist-inside-changed:%s%s" % (cfg, zr)}
            return None
        al = an.get("alphas", [])
        if al and (max(al) - min(al)) > 1e-9 * max(1.0, abs(an["alpha"])):
            return {"what": "saturations are not contracted by one common factor (alphas %s)" % al, "class": "dist-alpha-spread:" + cfg}
        for i in range(len(B)):
            if nz[i]:
                pt = an["nhat"] + an["alpha"] * (an["Bhat"][i] - an["nhat"])
                if np.max(np.abs(O[i] / B[i].sum() - pt)) > 1e-9:
                    return {"what": "row %d is not L1 * (neutral + alpha (chromaticity - neutral))" % i, "class": "dist-hue:" + cfg}
                x, t, inf = lp_cert.cone_member(an["Ap"], an["bp"], an["sys"]["lb"], an["sys"]["ub"], pt)
                if x is None or inf > 1e-6:
                    return {"what": "scaled chromaticity of row %d lies OUTSIDE the chromatic gamut (LP residual %r, alpha=%r)" % (i, inf, an["alpha"]), "class": "dist-outside:" + cfg}
        astar = float(np.min(an["amaxs"]))
        if np.isfinite(astar) and abs(an["alpha"] - min(astar, np.inf)) > 1e-5 * max(1.0, astar):
            return {"what": "common factor alpha=%r but the largest factor keeping every chromaticity inside is %r" % (an["alpha"], astar), "class": "dist-alpha-not-max:" + cfg}
        return None

    def nontrivial(self, case, out):
        if case["op"] == "l1":
            return len(case["B"]) >= 2
        return "out" in out and not all(self.analyse(case, out)["inside"])

    def entry(self, case):
        return "ReceptorEstimator.gamut_l1_scaling" if case["op"] == "l1" else "ReceptorEstimator.gamut_dist_scaling"

    def describe(self, case, out):
        return {"case": core.hexf(core.pub(case)), "out": core.hexf(out)}

    def plant(self, cases, outs):
        k = next(i for i, (c, o) in enumerate(zip(cases, outs)) if c["op"] == "l1" and "out" in o)
        self.planted_index = k
        outs[k]["out"][0][0] = outs[k]["out"][0][0] * (1 + 1e-6)


PROP = C12()
