"""C06 — range of solutions = exact per-source extent of the solution polytope.  Model: coq/Model/Range.v."""
from fractions import Fraction as Fr
import numpy as np
from scipy.optimize import linprog
import core
from core import Prop, q, qv, qm, cnat, cerr, cbool
from p_C04 import kmat_lit, base_vec
import gen_sys as gs
import lp_cert
import exactqp as xq
from p_C04 import exact_model, fobj


def extent_lp(Ap, bq, lb, ub, k, sign):
    n = Ap.shape[1]
    c = np.zeros(n); c[k] = sign
    r = linprog(c, A_eq=Ap, b_eq=bq, bounds=list(zip(lb, ub)), method="highs")
    if r.status != 0:
        return None, None
    return sign * r.fun, np.asarray(r.eqlin.marginals, dtype=float)


class C06(Prop):
    id = "C06"
    coq_imports = "From DV Require Import Model.Linear Cert.Hull Model.Range."
    case_type = "Range.case"
    verdict = "Range.verdict"
    shard = 8
    rule = ("underdetermined well-scaled systems (2-4 receptors, 1-3 surplus sources), lb zero/positive, finite ub, K none/scalar/vector/matrix, baseline; targets "
            "constructed strictly inside, exactly on faces / edges / vertices of the gamut (dyadic, so the code's tolerance-free comparison is exercised) and outside; "
            "error='raise'|'ignore'; n spaced solutions for n in 2..10 on part of the cases; entry ReceptorEstimator.range_of_solutions / dreye.range_of_solutions. "
            "non-trivial = in-gamut target with >= 2 accepted basic solutions that differ in some source")
    assumptions = ["np.linalg.solve is re-derived by Cramer's rule in Q (model) and every kept candidate is re-checked (guard A x == b)",
                   "extent multipliers come from scipy/HiGHS LP duals (untrusted); the in-gamut gate of the code (qhull) is opaque: its outcome is judged by separation certificates",
                   "ends compared at atol=rtol=1e-9 (dyadic inputs), certified extents within 1e-9, spaced solutions within 1e-6"]
    modelled = "(range model solves by exact Gaussian elimination, Model/Gauss.v; the verdict re-decides full row rank by elimination: has_basis_b) convex.py: _range_of_solutions (subset/pattern enumeration, exact acceptance, running min/max), gate/fallback contract of range_of_solutions; _spaced_solutions only through its results"

    def sizes(self, tier):
        return 180 if tier == "quick" else 3000

    def gen(self, rng, n, tier):
        cases = []
        while len(cases) < n:
            m = rng.randint(2, 4); surplus = rng.randint(1, 3)
            sys = gs.gen_system(rng, mrange=(m, m), nrange=(m + surplus, m + surplus), finite_ub=True)
            nn = sys["n"]
            if sys["Kkind"] == "matrix" and rng.random() < 0.6:
                # opponent-type adaptation matrices: transformed captures may DEcrease with intensity
                K2 = np.eye(m) * rng.choice([1.0, 0.5, 2.0])
                for i in range(m):
                    for j in range(m):
                        if i != j and rng.random() < 0.6:
                            K2[i, j] = rng.randint(-8, 8) / 16
                if gs.well_scaled(sys["A"], sys["lb"], sys["ub"], K2, sys["baseline"]):
                    sys = dict(sys, K=K2)
            dep = ib = False
            if rng.random() < 0.2:
                # linearly dependent sources: one LED twice, at half or double power
                A2 = np.array(sys["A"], dtype=float); j1, j2 = rng.sample(range(nn), 2); A2[:, j2] = A2[:, j1] * rng.choice([0.5, 1.0, 2.0])
                if gs.well_scaled(A2, sys["lb"], sys["ub"], sys["K"], sys["baseline"]):
                    sys = dict(sys, A=A2); dep = True
            if rng.random() < 0.25:
                # whole-number bounds, handed over as integer arrays
                lb2 = np.zeros(nn); ub2 = np.array([float(rng.randint(2, 9)) for _ in range(nn)])
                if gs.well_scaled(sys["A"], lb2, ub2, sys["K"], sys["baseline"]):
                    sys = dict(sys, lb=lb2, ub=ub2); ib = True
            lb, ub = sys["lb"], sys["ub"]
            tk = rng.choice(["inside", "inside", "face", "edge", "edge", "vertex", "outside", "outside-ignore"])
            x = np.array([lb[i] + (ub[i] - lb[i]) * rng.randint(2, 14) / 16 for i in range(nn)])
            if tk in ("face", "edge", "vertex"):
                k = {"face": 1, "edge": max(1, nn - m + 0), "vertex": nn}[tk]
                if tk == "edge":
                    k = min(nn, nn - m + 1 + rng.randint(0, 1))
                for i in rng.sample(range(nn), k):
                    x[i] = lb[i] if rng.random() < 0.65 else ub[i]      # pinned sources mostly switched off (at a zero lower bound: exact-zero comparisons)
            b = gs.rel_capture(sys, x)
            if tk.startswith("outside"):
                b = b + np.array([rng.choice([-1, 1]) * rng.randint(8, 40) / 4 for _ in range(m)])
            nsp = rng.randint(2, 10) if (rng.random() < 0.35 and surplus <= 2) else None
            cases.append({"sys": {k_: (v.tolist() if isinstance(v, np.ndarray) else v) for k_, v in sys.items()},
                          "b": b.tolist(), "x": x.tolist(), "tk": tk, "nsp": nsp, "error": "ignore" if tk == "outside-ignore" else "raise",
                          "entry": rng.choice(["estimator", "function"]), "dep": dep, "ib": ib,
                          "extra": ([gs.rel_capture(sys, np.array([lb[i] + (ub[i] - lb[i]) * rng.randint(3, 13) / 16 for i in range(nn)])).tolist()
                                     for _ in range(rng.randint(1, 2))] if (rng.random() < 0.4 and not tk.startswith("outside")) else []),
                          "kind": "%s/surplus%d/K-%s/lb-%s/%s" % (tk, surplus, sys["Kkind"], "zero" if not np.any(lb) else "pos", "spaced" if nsp else "ends") + ("/dep" if dep else "") + ("/intbounds" if ib else "")})
        return cases

    def run_impl(self, case):
        import dreye
        from p_C04 import C04
        sys = C04.sysnp(case)
        if case.get("ib"):
            sys = dict(sys, lb=sys["lb"].astype(int), ub=sys["ub"].astype(int))
        B = np.asarray(case["b"], dtype=float)
        kw = {"error": case["error"]}
        if case["nsp"]:
            kw["n"] = case["nsp"]
        # warm-up: the same query on a sibling system (other baseline) must leave no trace
        gs.warm(lambda: gs.make_estimator(gs.sibling(sys)).range_of_solutions(B[None], **dict(kw, error="ignore")))
        core.drain_hooks()
        if case.get("extra"):
            # several targets in one call; ours comes first, the others are in-gamut decoys
            Bm = np.vstack([B[None], np.asarray(case["extra"], dtype=float)])
            if case["entry"] == "estimator":
                r = gs.make_estimator(sys).range_of_solutions(Bm, **kw)
            else:
                r = dreye.range_of_solutions(Bm, sys["A"], sys["lb"], sys["ub"], K=(None if sys["K"] is None else np.atleast_1d(sys["K"])),
                                             baseline=sys["baseline"], **kw)
            r = tuple(np.asarray(v)[0] for v in r)
        elif case["entry"] == "estimator":
            est = gs.make_estimator(sys)
            r = est.range_of_solutions(B[None], **kw)
            r = tuple(np.asarray(v)[0] for v in r)
        else:
            r = dreye.range_of_solutions(B, sys["A"], sys["lb"], sys["ub"], K=(None if sys["K"] is None else np.atleast_1d(sys["K"])),
                                         baseline=sys["baseline"], **kw)
        hooks = core.drain_hooks()
        cands = [h[1] for h in hooks if h[0] == "range.cands"]
        out = {"Xmin": np.asarray(r[0], dtype=float).tolist(), "Xmax": np.asarray(r[1], dtype=float).tolist(),
               "accepted": int(sum(c["accepted"] for c in cands)), "candidates": int(sum(c["candidates"] for c in cands)),
               "paths": [h[1]["path"] for h in hooks if h[0] == "inhull.path"]}
        if case["nsp"]:
            out["Xs"] = np.asarray(r[2], dtype=float).reshape(-1, sys["n"]).tolist()
        return out

    def prep(self, case):
        if "_prep" in case:
            return case["_prep"]
        from p_C04 import C04
        sys = C04.sysnp(case)
        m = sys["m"]
        Ap, bp = gs.K_apply(sys["K"], sys["A"], base_vec(sys["baseline"], m))
        Ap = np.asarray(Ap, dtype=float); bq = np.asarray(case["b"], dtype=float) - np.asarray(bp, dtype=float)
        lb, ub = sys["lb"], sys["ub"]
        y, gap = lp_cert.separation(Ap, np.zeros(m), lb, ub, bq)
        ext = float(np.max(np.abs(Ap) @ (ub - lb))) or 1.0
        outside = y is not None and gap / ext > 1e-6
        expect = 0
        if outside:
            expect = 2 if case["error"] == "ignore" else 1
        los, his, ylo, yhi = [], [], [], []
        if not outside:
            for k in range(sys["n"]):
                lo, lam = extent_lp(Ap, bq, lb, ub, k, 1.0)
                hi, lam2 = extent_lp(Ap, bq, lb, ub, k, -1.0)
                los.append(lo); his.append(hi)
                ylo.append(None if lam is None else -lam); yhi.append(None if lam2 is None else -lam2)
        x0, s_ = [0.0] * sys["n"], Fr(0)
        if expect == 2:
            _, _, M0, e0 = exact_model(sys, [1.0] * m, case["b"])
            xe, exact = xq.box_ls(M0, e0, [float(v) for v in lb], [float(v) for v in ub], [float(v) for v in (lb + ub) / 2])
            if exact:
                x0, s_ = xe, xq.sqrt_floor(fobj(M0, e0, xe))
        case["_prep"] = dict(sys=sys, Ap=Ap, bq=bq, expect=expect, x0=x0, s=s_, sep=(y if y is not None else np.zeros(m)), mu=(gap / 2 if outside else 0.0),
                             los=los, his=his, ylo=ylo, yhi=yhi)
        return case["_prep"]

    def emit(self, case, out):
        p = self.prep(case)
        sys = p["sys"]; m, n = sys["m"], sys["n"]
        if "error" in out:
            impl = "(Err %s)" % cerr(out["error"])
        else:
            impl = "(Ok (%s, %s))" % (qv(out["Xmin"]), qv(out["Xmax"]))
        zeros = [[0.0] * m for _ in range(n)]
        ylo = [(v.tolist() if v is not None else [0.0] * m) for v in p["ylo"]] if p["ylo"] else zeros
        yhi = [(v.tolist() if v is not None else [0.0] * m) for v in p["yhi"]] if p["yhi"] else zeros
        # full row rank of the transformed capture matrix, as numpy sees it: only a claim -- the Coq verdict re-decides it exactly by elimination
        # (has_basis_b) and then `verdict_exact` applies: the returned ends bracket every in-bound solution
        Apn, _ = gs.K_apply(sys["K"], np.asarray(sys["A"], dtype=float), np.zeros(m))
        fullrank = bool(np.linalg.matrix_rank(np.asarray(Apn, dtype=float)) == m)
        return "(Range.Build_case %s %s %s %s %s %s %s %s %s %s %s %s %s %s %s %s %s %s %s)" % (
            qm(sys["A"].tolist()), cnat(n), qv(sys["lb"].tolist()), qv(sys["ub"].tolist()), kmat_lit(sys["K"], m),
            qv(base_vec(sys["baseline"], m).tolist()), qv(case["b"]), impl, cbool(fullrank), qm(out.get("Xs", [])),
            qm(ylo), qm(yhi), cnat(p["expect"]), qv(p["sep"].tolist()), q(p["mu"]), qv(p["x0"]), q(p["s"]), q(1e-9), q(1e-6))

    def spec_violation(self, case, out):
        p = self.prep(case)
        sys = p["sys"]; lb, ub = sys["lb"], sys["ub"]
        tk = case["tk"]
        if p["expect"] == 1:
            if out.get("error") == "ValueError":
                return None
            return {"what": "out-of-gamut target (margin %.3g) with error='raise' did not raise ValueError (%s)" % (2 * p["mu"], out.get("error", "returned")),
                    "class": "outside-not-raised"}
        if "error" in out:
            return {"what": "range_of_solutions raised %s for a%s target on/in the gamut (%s): %s" % (
                out["error"], "n" if p["expect"] == 0 else " out-of-gamut (error=ignore)", tk, out.get("msg", "")[:120]),
                "class": "raises:%s:%s%s" % (out["error"], tk, ":dependent-sources" if case.get("dep") else "")}
        mn, mx = np.asarray(out["Xmin"]), np.asarray(out["Xmax"])
        if p["expect"] == 2:
            if np.max(np.abs(mn - mx)) > 1e-9 or np.any(mn < lb - 1e-2 * (ub - lb)) or np.any(mn > ub + 1e-2 * (ub - lb)):
                return {"what": "error='ignore' on an out-of-gamut target did not return one in-bound best fit as both ends", "class": "ignore-contract"}
            res = float(np.linalg.norm(p["Ap"] @ mn - p["bq"])); best = float(p["s"])
            if res > best + 2e-2:
                return {"what": "error='ignore': the point returned as both ends has capture error %.6g but the best in-bound fit achieves %.6g" % (res, best),
                        "class": "ignore-not-best-fit"}
            return None
        if np.any(mn > mx + 1e-9):
            k = int(np.argmax(mn - mx))
            return {"what": "min > max for source %d (%r > %r) on a %s target (accepted %d of %d basic solutions)" % (
                k, mn[k], mx[k], tk, out.get("accepted", -1), out.get("candidates", -1)), "class": "min>max:%s" % tk}
        for k in range(sys["n"]):
            lo, hi = p["los"][k], p["his"][k]
            if lo is None or hi is None:
                continue
            if abs(mn[k] - lo) > 1e-6 * (1 + abs(lo)) or abs(mx[k] - hi) > 1e-6 * (1 + abs(hi)):
                return {"what": "source %d: reported range [%r, %r] but the solution polytope extends over [%r, %r] (%s target)" % (
                    k, mn[k], mx[k], lo, hi, tk), "class": "extent:%s" % tk}
        for r_, xs in enumerate(out.get("Xs", [])):
            xs = np.asarray(xs)
            if np.any(xs < lb - 1e-6) or np.any(xs > ub + 1e-6) or np.max(np.abs(p["Ap"] @ xs - p["bq"])) > 1e-6:
                return {"what": "spaced solution %d %s is out of bounds or does not reproduce the target (residual %.3g)" % (
                    r_, xs.tolist(), np.max(np.abs(p["Ap"] @ xs - p["bq"]))), "class": "spaced"}
        return None

    def nontrivial(self, case, out):
        return "Xmin" in out and self.prep(case)["expect"] == 0 and np.max(np.abs(np.asarray(out["Xmax"]) - np.asarray(out["Xmin"]))) > 1e-9 and out.get("accepted", 0) >= 2

    def entry(self, case):
        return "ReceptorEstimator.range_of_solutions" if case["entry"] == "estimator" else "dreye.range_of_solutions"

    def describe(self, case, out):
        return {"case": core.hexf({k: v for k, v in case.items() if not k.startswith("_")}), "out": core.hexf(out)}

    def extra_coverage(self, ctx):
        acc = [o.get("accepted", 0) for o in ctx["outs"] if "accepted" in o]
        fr = 0
        for c in ctx["cases"]:
            p_ = self.prep(c); sy = p_["sys"]
            if p_["expect"] == 0:
                Apn, _ = gs.K_apply(sy["K"], np.asarray(sy["A"], dtype=float), np.zeros(sy["m"]))
                fr += int(np.linalg.matrix_rank(np.asarray(Apn, dtype=float)) == sy["m"])
        return {"accepted_basic_solutions_total": int(sum(acc)), "candidate_basic_solutions_total": int(sum(o.get("candidates", 0) for o in ctx["outs"])),
                "in_gamut_cases_with_full_rank_decided_in_coq (verdict_gives_exact_range applies)": fr}

    def plant(self, cases, outs):
        k = next(i for i, (c, o) in enumerate(zip(cases, outs)) if "Xmin" in o and self.prep(c)["expect"] == 0)
        self.planted_index = k
        outs[k]["Xmax"][0] += 1e-3


PROP = C06()
