"""C04 — default fit = global bounded weighted least-squares optimum.  Model: coq/Model/Lsq.v."""
from fractions import Fraction as Fr
import numpy as np
import core
from core import Prop, q, qv, qm, cnat, coption, hexf
import gen_sys as gs
import exactqp as xq

HI = dict(solver="CLARABEL", tol_gap_abs=1e-10, tol_gap_rel=1e-10, tol_feas=1e-10)


def kmat_lit(K, m):
    if K is None:
        return "(Linear.Ks 1)"
    K = np.atleast_1d(np.asarray(K, dtype=float))
    if K.ndim == 1 and K.size == 1:
        return "(Linear.Ks %s)" % q(float(K[0]))
    if K.ndim == 1:
        return "(Linear.Kv %s)" % qv(K.tolist())
    return "(Linear.Km %s)" % qm(K.tolist())


def obounds(v):
    return "[" + ";".join("None" if not np.isfinite(x) else "(Some %s)" % q(float(x)) for x in v) + "]"


def base_vec(base, m):
    return (np.ones(m) * base) if np.ndim(base) == 0 else np.asarray(base, dtype=float)


def exact_model(sys, w, b):
    """exact (Fraction) M0, e0 of the documented objective  sum_j w_j^2 (K(Ax+base) - b)_j^2"""
    m, n = sys["m"], sys["n"]
    A = xq.fmat(sys["A"].tolist()); base = xq.fvec(base_vec(sys["baseline"], m).tolist())
    K = sys["K"]
    if K is None:
        Ap, bp = A, base
    else:
        Kn = np.atleast_1d(np.asarray(K, dtype=float))
        if Kn.ndim == 1 and Kn.size == 1:
            k = Fr(float(Kn[0])); Ap = [[k * a for a in r] for r in A]; bp = [k * a for a in base]
        elif Kn.ndim == 1:
            kk = xq.fvec(Kn.tolist()); Ap = [[kk[j] * a for a in A[j]] for j in range(m)]; bp = [kk[j] * base[j] for j in range(m)]
        else:
            KK = xq.fmat(Kn.tolist())
            Ap = [[sum(KK[i][j] * A[j][c] for j in range(m)) for c in range(n)] for i in range(m)]
            bp = [sum(KK[i][j] * base[j] for j in range(m)) for i in range(m)]
    wf = xq.fvec(w); bf = xq.fvec(b)
    M0 = [[wf[j] * a for a in Ap[j]] for j in range(m)]
    e0 = [wf[j] * (bf[j] - bp[j]) for j in range(m)]
    return Ap, bp, M0, e0


def fobj(M0, e0, x):
    r = [a - b for a, b in zip(xq.matvec(M0, x), e0)]
    return xq.dot(r, r)


def lsq_case_term(sys, w, b, X, Bpred, tolc, tolb, tolp=1e-9):
    """Coq term of type Lsq.case for one fitted row, with an exact-rational certificate point"""
    Ap, bp, M0, e0 = exact_model(sys, w, b)
    lb = [float(l) for l in sys["lb"]]
    ub = [None if not np.isfinite(u) else float(u) for u in sys["ub"]]
    x0, exact = xq.box_ls(M0, e0, lb, ub, X)
    L = fobj(M0, e0, x0) if exact else Fr(0)
    s_ = xq.sqrt_floor(L)
    m, n = sys["m"], sys["n"]
    return ("(Lsq.Build_case %s %s %s %s %s %s %s %s %s %s %s %s %s %s %s)" % (
        qm(np.asarray(sys["A"]).tolist()), cnat(n), obounds(sys["lb"]), obounds(sys["ub"]), kmat_lit(sys["K"], m),
        qv(base_vec(sys["baseline"], m).tolist()), qv(w), qv(b),
        qv(X), qv(Bpred), qv(x0), q(s_), q(tolc), qv(tolb), q(tolp)))


class C04(Prop):
    id = "C04"
    coq_imports = "From DV Require Import Model.Linear Cert.Duality Model.Lsq."
    case_type = "Lsq.case"
    verdict = "Lsq.verdict"
    shard = 60
    rule = ("well-scaled systems (1-5 receptors x 1-8 sources, cond(KA)<=1e3, gamut extent in [1,100]); lb zero/non-zero, ub finite/inf; "
            "K none/scalar/vector/matrix; baseline zero/scalar/vector; per-receptor and per-sample weights; targets constructed inside / on a face / "
            "on a vertex / outside / far outside / below the baseline; weights up to 64 for targets outside; 40 % of the judged targets are one row (random position) "
            "of a call with 2-6 targets (as many rows as receptors in half of these) fitted with batch_size 1/2/3/full/n/n+2; entry ReceptorEstimator.fit(B) or lsq_linear(return_pred=True); default solver "
            "settings (accuracy 2e-2 capture units, 1% of bound range) and CLARABEL tight settings via **opt_kwargs (2e-3, 1e-6 of range). "
            "non-trivial = at least one active bound with positive residual, or an under-determined system")
    assumptions = ["the conic/QP solver behind cvxpy is opaque: only its result is judged, by the weak-duality certificate checked in Coq",
                   "certificate point x0 computed by an exact-rational active-set solver in the harness (untrusted: can only weaken the bound)"]
    modelled = ("optimize/utils.py:prepare_parameters_for_linear, lsq_linear.py:_prepare_parameters + gaussian objective (formulation theorem "
                "form_lsq_meets_spec), utils.py:apply_linear_transform/predict_values; estimator.fit dispatch for model='gaussian'")

    def sizes(self, tier):
        return 160 if tier == "quick" else 3000

    def gen(self, rng, n, tier):
        cases = []
        while len(cases) < n:
            sys = gs.gen_system(rng)
            m = sys["m"]
            want = rng.choice(["inside", "inside", "face", "vertex", "outside", "outside", "far", "below", "below"])
            got = gs.gen_target_regime(rng, sys, want)
            if got is None:
                continue
            kind, b, xtrue = got
            wk = rng.choice(["one", "receptor", "sample"])
            w = [1.0] * m if wk == "one" else [rng.randint(1, 12) / 4 for _ in range(m)]
            if wk != "one" and rng.random() < (0.6 if kind in ("far", "outside", "below") else 0.15):
                w = [float(rng.choice([4, 8, 16, 32, 64])) for _ in range(m)]        # importance weights of order ten to sixty: weighted residuals of several hundred for far targets
            entry = rng.choice(["estimator.fit", "estimator.fit", "lsq_linear"])
            acc = rng.choice(["default", "default", "high"])
            # the judged target is one row of a call with several targets (as many rows as receptors in half of these), fitted in batches
            extra = []
            if rng.random() < 0.4:
                for _ in range(m - 1 if (m > 1 and rng.random() < 0.5) else rng.randint(1, 5)):
                    g2 = gs.gen_target_regime(rng, sys, rng.choice(["inside", "face", "outside", "far", "below"]))
                    if g2 is not None:
                        extra.append({"b": np.asarray(g2[1]).tolist(), "w": ([rng.randint(1, 12) / 4 for _ in range(m)] if wk == "sample" else None)})
            cases.append({"sys": {k: (v.tolist() if isinstance(v, np.ndarray) else v) for k, v in sys.items()},
                          "extra": extra, "row": (rng.randint(0, len(extra)) if extra else 0),
                          "batch": (rng.choice([1, 2, 3, "full", len(extra) + 1, len(extra) + 3]) if extra else 1),
                          "b": b.tolist(), "w": w, "wkind": wk, "entry": entry, "acc": acc, "tkind": kind,
                          "kind": "%s/K-%s/base-%s/ub-%s/%s/%s%s" % (kind, sys["Kkind"], sys["bkind"],
                                                                    "fin" if np.isfinite(sys["ub"][0]) else "inf", wk, acc, "/rows" if extra else "")})
        return cases

    @staticmethod
    def sysnp(case):
        s = dict(case["sys"])
        for k in ("A", "lb", "ub"):
            s[k] = np.asarray(s[k], dtype=float)
        if isinstance(s["K"], list):
            s["K"] = np.asarray(s["K"], dtype=float)
        if isinstance(s["baseline"], list):
            s["baseline"] = np.asarray(s["baseline"], dtype=float)
        return s

    def run_impl(self, case):
        sys = self.sysnp(case)
        B = np.asarray(case["b"], dtype=float)[None]
        kw = dict(HI) if case["acc"] == "high" else {}
        w = np.asarray(case["w"], dtype=float)
        extra = case.get("extra") or []; row = case.get("row", 0)
        Wfull = w[None]
        if extra:
            rows_ = [np.asarray(e["b"], dtype=float)[None] for e in extra]; rows_.insert(row, B)
            B = np.vstack(rows_)
            if case["wkind"] == "sample":
                ws_ = [np.asarray(e["w"], dtype=float)[None] for e in extra]; ws_.insert(row, w[None])
                Wfull = np.vstack(ws_)
            kw["batch_size"] = case["batch"]
        core.watch(B); core.watch(Wfull); core.watch(w)
        # warm-up: the same fit on a sibling system (other baseline) must leave no trace
        gs.warm(lambda: gs.make_estimator(gs.sibling(sys), w=w).fit(B + 0.75, **kw))
        core.drain_hooks()
        if case["entry"] == "lsq_linear":
            from dreye.api.optimize.lsq_linear import lsq_linear
            W = Wfull if case["wkind"] == "sample" else w
            X, Bp = lsq_linear(sys["A"], B, lb=sys["lb"], ub=sys["ub"], W=W,
                               K=(None if sys["K"] is None else np.atleast_1d(sys["K"])), baseline=sys["baseline"],
                               return_pred=True, **kw)
        else:
            est = gs.make_estimator(sys, w=w)
            if case["wkind"] == "sample":
                est.register_targets(B, W=Wfull)
                X, Bp = est.fit(B, **kw)
            else:
                X, Bp = est.fit(B, **kw)
        st = [r[1]["status"] for r in core.drain_hooks() if r[0] == "solve"]
        return {"X": np.asarray(X, dtype=float)[row].tolist(), "Bpred": np.asarray(Bp, dtype=float)[row].tolist(), "status": st}

    def tols(self, case, sys):
        hi = case["acc"] == "high"
        # the accuracy is stated in capture units; the judged error is the WEIGHTED one, so importance weights above 1 scale it (FA-22)
        tolc = (2e-3 if hi else 2e-2) * max(1.0, max(float(v) for v in case["w"]))
        rngs = [(u - l) if np.isfinite(u) else 10.0 for l, u in zip(sys["lb"], sys["ub"])]
        tolb = [(1e-6 if hi else 1e-2) * r for r in rngs]
        return tolc, tolb

    def certificate(self, case, out):
        sys = self.sysnp(case)
        Ap, bp, M0, e0 = exact_model(sys, case["w"], case["b"])
        lb = [float(l) for l in sys["lb"]]
        ub = [None if not np.isfinite(u) else float(u) for u in sys["ub"]]
        xinit = out["X"] if "X" in out else [max(l, 0.0) for l in lb]
        x0, exact = xq.box_ls(M0, e0, lb, ub, xinit)
        return sys, Ap, bp, M0, e0, x0, exact

    def emit(self, case, out):
        if "error" in out:
            raise ValueError("fit raised %s: %s" % (out["error"], out.get("msg")))
        sys = self.sysnp(case)
        tolc, tolb = self.tols(case, sys)
        return lsq_case_term(sys, case["w"], case["b"], out["X"], out["Bpred"], tolc, tolb)

    def spec_violation(self, case, out):
        if "error" in out:
            return {"what": "%s raised %s: %s" % (case["entry"], out["error"], out.get("msg", "")[:140]),
                    "class": "raises:%s:%s" % (out["error"], self.errclass(case, out))}
        sys, Ap, bp, M0, e0, x0, exact = self.certificate(case, out)
        tolc, tolb = self.tols(case, sys)
        X = xq.fvec(out["X"])
        for i in range(sys["n"]):
            if X[i] < Fr(float(sys["lb"][i])) - Fr(tolb[i]) or (np.isfinite(sys["ub"][i]) and X[i] > Fr(float(sys["ub"][i])) + Fr(tolb[i])):
                return {"what": "intensity %d = %r outside [%r, %r] by more than %g" % (i, float(X[i]), sys["lb"][i], sys["ub"][i], tolb[i]),
                        "class": "bounds"}
        pred = [a + b for a, b in zip(xq.matvec(Ap, X), bp)]
        for j in range(sys["m"]):
            if abs(pred[j] - Fr(out["Bpred"][j])) > Fr(1, 10**8) * (1 + abs(pred[j])):
                return {"what": "B_pred[%d] = %r but the model capture of the returned intensities is %r" % (j, out["Bpred"][j], float(pred[j])),
                        "class": "prediction"}
        if exact:
            fX, f0 = fobj(M0, e0, X), fobj(M0, e0, x0)
            # sqrt(fX) > sqrt(f0) + tolc  <=>  fX > (s+tolc)^2 with s = sqrt f0
            s = xq.sqrt_ceil(f0)
            if fX > (s + Fr(tolc)) ** 2:
                return {"what": "weighted capture error %.6g exceeds the global minimum %.6g (attained at in-bound x=%s) by more than %g"
                                % (float(fX) ** 0.5, float(f0) ** 0.5, [float(v) for v in x0], tolc),
                        "class": "suboptimal", "better_x": [float(v) for v in x0]}
        return None

    def errclass(self, case, out):
        msg = out.get("msg", "")
        if "must be positive" in msg:
            return "target-below-baseline"
        if "matmul" in msg and case["sys"]["Kkind"] == "matrix":
            return "matrixK-scalar-baseline"
        return "other"

    def nontrivial(self, case, out):
        if "X" not in out:
            return False
        sys = self.sysnp(case)
        if sys["n"] > sys["m"]:
            return True
        X = np.asarray(out["X"]); 
        active = np.any(np.isclose(X, sys["lb"], atol=1e-3)) or np.any(np.isfinite(sys["ub"]) & np.isclose(X, sys["ub"], atol=1e-3))
        return bool(active and case["tkind"] in ("outside", "far", "below"))

    def extra_coverage(self, ctx):
        h = {}
        for o in ctx["outs"]:
            for st in o.get("status", []):
                h[st] = h.get(st, 0) + 1
        return {"solver_status_histogram": h}

    def entry(self, case):
        return "ReceptorEstimator.fit" if case["entry"] != "lsq_linear" else "dreye.api.optimize.lsq_linear.lsq_linear"

    def plant(self, cases, outs):
        k = next(i for i, o in enumerate(outs) if "X" in o)
        self.planted_index = k
        outs[k]["Bpred"] = [v + 1e-3 for v in outs[k]["Bpred"]]


PROP = C04()
