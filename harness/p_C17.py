"""C17 — hull projections: nearest point, boundary hit, exact slice.  Model: coq/Model/Project.v."""
from fractions import Fraction as Fr
import numpy as np
from scipy.optimize import linprog, nnls
from scipy.spatial import ConvexHull
import core
from core import Prop, q, qv, qm, cbool, cnat, dyad


def cloud(rng, d, kind):
    npts = rng.randint(d + 2, d + 7)
    if kind == "sharp":          # few vertices, sharp corners
        npts = rng.randint(d + 1, d + 3)
    elif kind == "big":          # many facets (hundreds in 4-5 dimensions)
        npts = rng.randint(24, 40) if d >= 4 else rng.randint(12, 30)
    if kind == "lattice":
        P = [[float(rng.randint(0, 3)) for _ in range(d)] for _ in range(npts + 4)]
        P += [[0.0] * d, [3.0] * d]
    else:
        P = [[dyad(rng, 0, 8, 8) for _ in range(d)] for _ in range(npts)]
    P = np.unique(np.array(P), axis=0)
    return P


def conv_weights(points, p):
    """convex weights w >= 0, sum 1, points^T w = p (least infeasibility)"""
    k, d = points.shape
    c = np.zeros(k + 1); c[-1] = 1
    A_ub = np.vstack([np.hstack([points.T, -np.ones((d, 1))]), np.hstack([-points.T, -np.ones((d, 1))])])
    b_ub = np.concatenate([p, -p])
    A_eq = np.zeros((1, k + 1)); A_eq[0, :k] = 1
    r = linprog(c, A_ub=A_ub, b_ub=b_ub, A_eq=A_eq, b_eq=[1.0], bounds=[(0, None)] * (k + 1), method="highs")
    if r.status != 0:
        return None, np.inf
    return r.x[:k], float(r.x[-1])


class C17(Prop):
    id = "C17"
    coq_imports = "From DV Require Import Model.Linear Cert.Duality Cert.Hull Model.Project."
    case_type = "Project.gcase"
    verdict = "Project.gverdict"
    shard = 40
    rule = ("point clouds in 2-5 dimensions (random dyadic, lattice-like with many coplanar points, 'sharp' clouds of d+1..d+3 points, 'big' clouds of 24-40 points with hundreds of facets); proj_B_to_hull on facet equations from scipy ConvexHull with query "
            "points inside / just outside / far outside / beyond a vertex off the centre line / beyond an edge midpoint / random directions at 0.5-3 hull radii (ten queries per sharp hull); alpha_for_B_with_P and B_with_P on centred clouds (origin strictly inside) with random directions; "
            "proj_P_to_simplex on non-negative clouds incl. clouds with no more points than dimensions (exact all-pairs branch) for admissible plane levels c. "
            "non-trivial = outside query point (nearest), dimension >= 3, or a slice with >= 3 returned points")
    assumptions = ["quadprog and qhull are opaque: nearest points are certified by KKT multipliers (scipy NNLS, untrusted) through the weak-duality theorem; slices by "
                   "segment membership and convex-weight certificates (HiGHS, untrusted)",
                   "facet equations from scipy ConvexHull only DEFINE the instance"]
    modelled = "project.py: alpha_for_B_with_P, B_with_P, line_to_simplex, pair selection of yieldPpairs4proj2simplex when P.shape[0] <= P.shape[1], proj_P_to_simplex; proj_B_to_hull only through certificates"

    def sizes(self, tier):
        return 400 if tier == "quick" else 6000

    def gen(self, rng, n, tier):
        cases = []
        while len(cases) < n:
            op = rng.choice(["nearest", "nearest", "alpha", "slice", "slice"])
            d = rng.randint(2, 5)
            kind = rng.choice(["random", "random", "lattice"])
            if op != "slice":
                kind = rng.choice(["random", "lattice", "sharp", "sharp", "big"] if op == "nearest" else ["random", "lattice", "sharp", "big", "big", "big"])
                if kind == "big" and d < 4 and (op == "alpha" or rng.random() < 0.7):
                    d = rng.randint(4, 5)
            if op == "slice":
                few = rng.random() < 0.3
                thin = (not few) and d >= 3 and rng.random() < 0.25
                if few:
                    npts = rng.randint(2, d)
                    P = np.array([[dyad(rng, 0, 8, 8) for _ in range(d)] for _ in range(npts)])
                elif thin:
                    # exactly flat (2-D) cloud in R^d, 16 to 4096 times longer than wide: a + s u + t v with dyadic coefficients
                    a = np.array([dyad(rng, 1, 3, 4) for _ in range(d)]); u = np.array([float(rng.randint(0, 2)) for _ in range(d)]); v = np.array([float(rng.randint(0, 2)) for _ in range(d)])
                    if not u.any() or not v.any() or np.linalg.matrix_rank(np.vstack([u, v])) < 2:
                        continue
                    L_ = rng.choice([16.0, 32.0, 64.0, 256.0, 1024.0, 4096.0])
                    P = np.array([a + (L_ * rng.randint(0, 16) / 16) * u + (rng.randint(0, 8) / 8) * v for _ in range(rng.randint(d + 2, d + 8))])
                    P = np.unique(P, axis=0); kind = "thin"
                else:
                    P = cloud(rng, d, kind)
                sums = P.sum(axis=1)
                if sums.max() - sums.min() < 0.5:
                    continue
                c = float(np.round((sums.min() + (sums.max() - sums.min()) * rng.randint(2, 14) / 16) * 16) / 16)
                if not (sums.min() <= c < sums.max()) or c <= 0:
                    continue
                cases.append({"op": "slice", "P": P.tolist(), "c": c, "kind": "slice/%dd/%s/%s" % (d, kind, "few" if few else "many")})
                continue
            P = cloud(rng, d, kind)
            try:
                hull = ConvexHull(P)
            except Exception:
                continue
            if op == "nearest":
                eqs = hull.equations
                ctr = P[hull.vertices].mean(axis=0)
                diam = float(np.max(np.linalg.norm(P - ctr, axis=1))) or 1.0
                # sharp hulls get a fan of queries each (wrong active sets show up for a few per cent of the directions only)
                for _ in range(10 if kind == "sharp" else 1):
                    qk = rng.choice(["inside", "near", "far", "far", "vertexdir", "vertexoff", "edge", "randdir", "randdir", "randdir"])
                    if qk == "inside":
                        b = ctr + 0.25 * (P[rng.randrange(len(P))] - ctr)
                    elif qk == "near":
                        v = P[hull.vertices[rng.randrange(len(hull.vertices))]]
                        b = ctr + 1.125 * (v - ctr)
                    elif qk == "far":
                        b = ctr + np.array([rng.randint(-40, 40) / 4 for _ in range(d)])
                    elif qk == "randdir":        # any direction, 0.5 to 3 hull radii away from the centre
                        u = np.array([rng.gauss(0, 1) for _ in range(d)]); u /= (np.linalg.norm(u) or 1.0)
                        b = ctr + np.round(u * diam * rng.choice([0.5, 1.0, 1.5, 2.0, 3.0]) * 64) / 64
                    elif qk == "vertexoff":      # beyond a vertex, off the centre line: the nearest point is on a low-dimensional face
                        v = P[hull.vertices[rng.randrange(len(hull.vertices))]]
                        b = v + (v - ctr) * rng.choice([0.25, 0.5, 1.0, 2.0]) + np.array([rng.randint(-8, 8) / 8 for _ in range(d)])
                    elif qk == "edge":           # beyond the midpoint of two vertices
                        i1, i2 = rng.randrange(len(hull.vertices)), rng.randrange(len(hull.vertices))
                        mid = (P[hull.vertices[i1]] + P[hull.vertices[i2]]) / 2
                        b = mid + (mid - ctr) * rng.choice([0.5, 1.0, 2.0]) + np.array([rng.randint(-4, 4) / 8 for _ in range(d)])
                    else:
                        v = P[hull.vertices[rng.randrange(len(hull.vertices))]]
                        b = v + (v - ctr) * 2
                    cases.append({"op": "nearest", "eqs": eqs.tolist(), "b": b.tolist(), "d": d, "qk": qk, "kind": "nearest/%dd/%s/%s" % (d, kind, qk)})
            else:
                ctr = P[hull.vertices].mean(axis=0)
                Pc = P - ctr
                eqs = ConvexHull(Pc).equations
                if np.max(eqs[:, -1]) > -1e-6:
                    continue
                b = np.array([rng.randint(-16, 16) / 8 for _ in range(d)])
                r = rng.random()
                if r < 0.2:
                    b = Pc[rng.randrange(len(Pc))] * rng.choice([0.5, 2.0])
                elif r < 0.6:                 # through the centroid of a facet chosen uniformly (every facet gets its share of rays)
                    hc = ConvexHull(Pc)
                    b = Pc[hc.simplices[rng.randrange(len(hc.simplices))]].mean(axis=0) * rng.choice([0.5, 1.0, 2.0])
                if not np.any(b):
                    continue
                cases.append({"op": "alpha", "eqs": eqs.tolist(), "b": b.tolist(), "d": d, "kind": "alpha/%dd/%s" % (d, kind)})
        return cases[:n]

    def run_impl(self, case):
        import dreye
        # the same geometry in other length units (exact power-of-two rescaling of offsets and points, undone on the result);
        # chosen from the case's own data so that the generator's random stream is unchanged
        sc = self.unit(case)
        if case["op"] == "nearest":
            E = np.array(case["eqs"], dtype=float); E[:, -1] *= sc
            x = dreye.proj_B_to_hull(np.array([case["b"]], dtype=float) * sc, E)[0]
            return {"x": (np.asarray(x, dtype=float) / sc).tolist()}
        if case["op"] == "alpha":
            B = np.array([case["b"]], dtype=float) * sc; E = np.array(case["eqs"], dtype=float); E[:, -1] *= sc
            a = dreye.alpha_for_B_with_P(B, E)[0]
            s = dreye.B_with_P(B, E)[0]
            return {"alpha": (None if np.isnan(a) else float(a)), "scaled": (np.asarray(s, dtype=float) / sc).tolist()}
        out = dreye.proj_P_to_simplex(np.array(case["P"]), case["c"])
        return {"out": np.asarray(out, dtype=float).tolist()}

    @staticmethod
    def unit(case):
        if case["op"] == "slice":
            return 1.0
        h = int(round(abs(float(np.sum(np.array(case["b"], dtype=float))) * 64))) % 8
        return {0: 2.0 ** -10, 1: 2.0 ** -20, 2: 2.0 ** -30}.get(h, 1.0)

    def emit(self, case, out):
        if "error" in out:
            raise ValueError("raised %s: %s" % (out["error"], out.get("msg")))
        if case["op"] == "nearest":
            E = np.array(case["eqs"]); N, o = E[:, :-1], E[:, -1]
            b = np.array(case["b"]); x = np.array(out["x"])
            inside = bool(np.all(N @ b + o <= 1e-12))
            slack = -(N @ x + o)
            act = np.flatnonzero(slack < 1e-7)
            lam = np.zeros(len(E))
            if len(act) and not inside:
                sol, _ = nnls(N[act].T, 2 * (b - x))
                lam[act] = sol
            lamf = [Fr(float(v)) for v in lam]
            x0 = [Fr(float(b[i])) - sum(lamf[f] * Fr(float(N[f, i])) for f in range(len(E))) / 2 for i in range(len(b))]
            return "(Project.GP (Project.Build_pcase %s %s %s %s %s %s %s %s %s))" % (
                cnat(case["d"]), qm(case["eqs"]), qv(case["b"]), qv(out["x"]), qv(lamf), qv(x0), cbool(inside), q(1e-7), q(1e-7))
        if case["op"] == "alpha":
            a = "None" if out["alpha"] is None else "(Some %s)" % q(out["alpha"])
            sc = out["scaled"] if out["alpha"] is not None else [0.0] * len(case["b"])
            return "(Project.GA (Project.Build_acase %s %s %s %s %s))" % (qm(case["eqs"]), qv(case["b"]), a, qv(sc), q(1e-9))
        P = np.array(case["P"]); O = np.array(out["out"]); c = case["c"]
        frm = []
        for o_ in O:
            best = (0, 0, 0.0, np.inf)
            for i in range(len(P)):
                for j in range(len(P)):
                    if i == j:
                        continue
                    dvec = P[j] - P[i]
                    den = dvec @ dvec
                    if den == 0:
                        continue
                    t = float(np.clip((o_ - P[i]) @ dvec / den, 0, 1))
                    err = np.max(np.abs(P[i] + t * dvec - o_))
                    if err < best[3]:
                        best = (i, j, t, err)
            frm.append(best[:3])
        sums = P.sum(axis=1)
        below = P[sums <= c]; above = P[~(sums <= c)]
        allp = [p + (c - p.sum()) / (q_ - p).sum() * (q_ - p) for p in below for q_ in above]
        W = []
        for p in allp:
            w, inf = conv_weights(O, p)
            W.append((np.maximum(w, 0) if w is not None else np.zeros(len(O))).tolist())
        frm_s = "[" + ";".join("(%s, %s, %s)" % (cnat(i), cnat(j), q(t)) for i, j, t in frm) + "]"
        return "(Project.GS (Project.Build_scase %s %s %s %s %s %s %s %s))" % (
            qm(P.tolist()), cnat(P.shape[1]), q(c), qm(O.tolist()), cbool(P.shape[0] <= P.shape[1]), frm_s, qm(W), q(1e-8))

    def spec_violation(self, case, out):
        if "error" in out:
            return {"what": "%s raised %s: %s" % (case["op"], out["error"], out.get("msg", "")[:140]), "class": "raises:%s:%s" % (case["op"], out["error"])}
        if case["op"] == "nearest":
            import cvxpy as cp
            E = np.array(case["eqs"]); N, o = E[:, :-1], E[:, -1]
            b = np.array(case["b"]); x = np.array(out["x"])
            if np.max(N @ x + o) > 1e-7:
                return {"what": "projected point violates a facet inequality by %.3g" % np.max(N @ x + o), "class": "nearest-infeasible"}
            z = cp.Variable(len(b)); pr = cp.Problem(cp.Minimize(cp.sum_squares(z - b)), [N @ z + o <= 0]); pr.solve(solver="CLARABEL")
            if np.linalg.norm(x - b) > np.sqrt(max(pr.value, 0)) + 1e-6:
                return {"what": "returned point is at distance %.9g from the query, but the hull point %s is at %.9g" % (
                    np.linalg.norm(x - b), z.value.tolist(), np.sqrt(max(pr.value, 0))), "class": "nearest-not-nearest:" + case["qk"]}
            if case["qk"] == "inside" and np.max(np.abs(x - b)) > 1e-7:
                return {"what": "a point inside the hull was moved by %.3g" % np.max(np.abs(x - b)), "class": "nearest-inside-moved"}
            return None
        if case["op"] == "alpha":
            E = np.array(case["eqs"]); N, o = E[:, :-1], E[:, -1]; b = np.array(case["b"])
            den = N @ b
            ratios = [-o[f] / den[f] for f in range(len(E)) if den[f] != 0 and -o[f] / den[f] > 0]
            want = min(ratios) if ratios else None
            if (want is None) != (out["alpha"] is None) or (want is not None and abs(want - out["alpha"]) > 1e-9 * (1 + want)):
                return {"what": "alpha = %r, the smallest positive -offset/(b.normal) is %r" % (out["alpha"], want), "class": "alpha-value"}
            if want is not None:
                s = np.array(out["scaled"])
                if np.max(N @ s + o) > 1e-9 or np.min(np.abs(N @ s + o)) > 1e-9 or np.max(np.abs(s - want * b)) > 1e-9:
                    return {"what": "B_with_P result is not the positive multiple of b on the hull boundary", "class": "alpha-boundary"}
            return None
        P = np.array(case["P"]); O = np.array(out["out"]); c = case["c"]
        if len(O) == 0 or np.max(np.abs(O.sum(axis=1) - c)) > 1e-8 * (1 + c):
            return {"what": "returned points are not on the plane sum = %r" % c, "class": "slice-plane"}
        # support functions of conv(out) and of conv(P) /\ plane in random directions
        rs = np.random.default_rng(5)
        k, d = P.shape
        for _ in range(12):
            u = rs.standard_normal(d)
            r = linprog(-(P @ u), A_eq=np.vstack([np.ones(k), P.sum(axis=1)]), b_eq=[1.0, c], bounds=[(0, None)] * k, method="highs")
            if r.status != 0:
                continue
            hs = -r.fun; ho = np.max(O @ u)
            if abs(hs - ho) > 1e-7 * (1 + abs(hs)):
                return {"what": "in direction %s the slice of the hull extends to %.9g but the returned points to %.9g" % (u.round(3).tolist(), hs, ho),
                        "class": "slice-support:%s" % ("few" if k <= d else "many")}
        return None

    def nontrivial(self, case, out):
        if case["op"] == "nearest":
            return case["qk"] != "inside"
        if case["op"] == "alpha":
            return case["d"] >= 3
        return len(out.get("out", [])) >= 3

    def entry(self, case):
        return {"nearest": "dreye.proj_B_to_hull", "alpha": "dreye.alpha_for_B_with_P / B_with_P", "slice": "dreye.proj_P_to_simplex"}[case["op"]]

    def plant(self, cases, outs):
        k = next(i for i, (c, o) in enumerate(zip(cases, outs)) if c["op"] == "alpha" and o.get("alpha"))
        self.planted_index = k
        outs[k]["alpha"] *= (1 + 1e-6)


PROP = C17()
