"""Untrusted certificate search with scipy/HiGHS LPs (DESIGN 2.2 step 5)."""
import numpy as np
from scipy.optimize import linprog


def member(Ap, bp, lb, ub, b):
    """x in box with Ap x + bp = b (least infeasibility), or None"""
    m, n = Ap.shape
    # minimise t s.t. |Ap x + bp - b| <= t
    c = np.zeros(n + 1); c[-1] = 1
    A_ub = np.vstack([np.hstack([Ap, -np.ones((m, 1))]), np.hstack([-Ap, -np.ones((m, 1))])])
    b_ub = np.concatenate([b - bp, -(b - bp)])
    bounds = [(lb[i], None if not np.isfinite(ub[i]) else ub[i]) for i in range(n)] + [(0, None)]
    r = linprog(c, A_ub=A_ub, b_ub=b_ub, bounds=bounds, method="highs")
    if r.status != 0:
        return None, np.inf
    return r.x[:n], float(r.x[-1])


def separation(Ap, bp, lb, ub, b, cone=False):
    """y in [-1,1]^m maximising  y.b - max_{x in box} y.(Ap x + bp)   (cone: subject to that max <= 0,
    maximising y.b).  Returns (y, gap)"""
    m, n = Ap.shape
    fin = np.isfinite(ub)
    width = np.where(fin, ub - lb, 0.0)
    # variables: y (m), z (n) with z_i >= r_i = (Ap^T y)_i, z_i >= 0
    nv = m + n
    A_ub, b_ub = [], []
    for i in range(n):
        row = np.zeros(nv); row[:m] = Ap[:, i]; row[m + i] = -1
        A_ub.append(row); b_ub.append(0.0)              # r_i - z_i <= 0
        if not fin[i]:
            row2 = np.zeros(nv); row2[:m] = Ap[:, i]
            A_ub.append(row2); b_ub.append(0.0)         # r_i <= 0 for unbounded sources
    # max over box of y.p(x) = y.bp + r.lb + sum width_i z_i
    maxexpr = np.zeros(nv); maxexpr[:m] = bp + Ap @ lb; maxexpr[m:] = width
    obj = np.zeros(nv); obj[:m] = b
    if cone:
        A_ub.append(maxexpr.copy()); b_ub.append(0.0)
        c = -obj
    else:
        c = -(obj - maxexpr)
    bounds = [(-1, 1)] * m + [(0, None)] * n
    r = linprog(c, A_ub=np.array(A_ub), b_ub=np.array(b_ub), bounds=bounds, method="highs")
    if r.status != 0:
        return None, -np.inf
    return r.x[:m], float(-r.fun)


def cone_member(Ap, bp, lb, ub, b):
    """t >= 0, z with t*lb <= z <= t*ub, Ap z + t bp = b ; returns (x = z/t, t, infeasibility)"""
    m, n = Ap.shape
    nv = n + 2  # z, t, s (slack)
    c = np.zeros(nv); c[-1] = 1
    A_ub, b_ub = [], []
    for j in range(m):
        row = np.zeros(nv); row[:n] = Ap[j]; row[n] = bp[j]; row[-1] = -1
        A_ub.append(row); b_ub.append(b[j])
        row = np.zeros(nv); row[:n] = -Ap[j]; row[n] = -bp[j]; row[-1] = -1
        A_ub.append(row); b_ub.append(-b[j])
    for i in range(n):
        row = np.zeros(nv); row[i] = -1; row[n] = lb[i]
        A_ub.append(row); b_ub.append(0.0)             # t lb_i - z_i <= 0
        if np.isfinite(ub[i]):
            row = np.zeros(nv); row[i] = 1; row[n] = -ub[i]
            A_ub.append(row); b_ub.append(0.0)         # z_i - t ub_i <= 0
    bounds = [(None, None)] * n + [(1e-9, None), (0, None)]
    r = linprog(c, A_ub=np.array(A_ub), b_ub=np.array(b_ub), bounds=bounds, method="highs")
    if r.status != 0 or r.x[n] <= 0:
        return None, None, np.inf
    t = r.x[n]
    return r.x[:n] / t, float(t), float(r.x[-1])


def cone_max_alpha(Ap, bp, lb, ub, nhat, d):
    """largest alpha with nhat + alpha*d in the cone over {Ap x + bp : lb<=x<=ub}; (alpha, x, t)"""
    m, n = Ap.shape
    nv = n + 2  # z, t, alpha
    c = np.zeros(nv); c[-1] = -1
    A_eq = np.zeros((m, nv)); A_eq[:, :n] = Ap; A_eq[:, n] = bp; A_eq[:, n + 1] = -d
    b_eq = nhat
    A_ub, b_ub = [], []
    for i in range(n):
        row = np.zeros(nv); row[i] = -1; row[n] = lb[i]; A_ub.append(row); b_ub.append(0.0)
        row = np.zeros(nv); row[i] = 1; row[n] = -ub[i]; A_ub.append(row); b_ub.append(0.0)
    bounds = [(None, None)] * n + [(0, None), (0, None)]
    r = linprog(c, A_ub=np.array(A_ub), b_ub=np.array(b_ub), A_eq=A_eq, b_eq=b_eq, bounds=bounds, method="highs")
    if r.status == 3:
        return np.inf, None, None
    if r.status != 0:
        return None, None, None
    t = r.x[n]
    return float(r.x[-1]), (r.x[:n] / t if t > 0 else None), float(t)
