"""C03 — gamut membership is exact.  Model: coq/Model/Gamut.v, certificates coq/Cert/Hull.v."""
from fractions import Fraction as Fr
import numpy as np
import core
from core import Prop, q, qv, qm, cbool, cnat
from p_C04 import kmat_lit, base_vec, obounds
import gen_sys as gs
import lp_cert


class C03(Prop):
    id = "C03"
    coq_imports = "From DV Require Import Model.Linear Cert.Hull Model.Gamut."
    case_type = "Gamut.case"
    verdict = "Gamut.verdict"
    shard = 80
    rule = ("systems 2-5 receptors x 1-8 sources, lb zero/non-zero, ub finite/inf, K none/scalar/vector/matrix, baseline zero/scalar/vector, relative and "
            "absolute capture, plain and L1-normalised (chromatic) membership; opponent-type matrix K (negative entries in K A); 15 % of the finite-bound "
            "systems asked in other units (spectra, baseline, target x 2^20, 2^30, 2^-20); entry ReceptorEstimator.in_hull / in_gamut; targets: images of strictly "
            "interior intensities (kind 0: must be accepted, in EVERY configuration), targets with a HiGHS separating hyperplane of margin >= 1e-3 x gamut "
            "extent (kind 1: must be rejected; asserted for finite bounds and full-dimensional gamut only), faces/vertices/near-boundary/far targets with no "
            "prior claim (kind 2: if accepted, a reproducing in-bound x within 1e-6 must exist). non-trivial = kind 1, or kind 0 with non-identity K and non-zero lb or baseline")
    assumptions = ["qhull / cvxpy-NNLS decision procedures are opaque: every answer is judged by certificates checked in Coq",
                   "certificates (in-bound x, separating y) come from scipy/HiGHS LPs (untrusted; a bad certificate can only make a verdict fail)",
                   "the margin classes (inside by 1/16 of the bound range, outside by >= 1e-3 of the gamut extent) follow the property's 'stated margin'"]
    modelled = "convex.py: all_combinations_of_bounds, get_P_from_A (corner order), in_hull_from_A data flow via transform_values; estimator.in_hull (relative/absolute/normalized dispatch). Opaque: Delaunay.find_simplex, convex_combination NNLS"

    def sizes(self, tier):
        return 600 if tier == "quick" else 8000

    def gen(self, rng, n, tier):
        cases = []
        while len(cases) < n:
            norm = rng.random() < 0.3
            fin = True if norm else (rng.random() < 0.75)
            mm = rng.randint(2, 5)
            sys = gs.gen_system(rng, mrange=(mm, mm), nrange=((mm, 8) if (norm and rng.random() < 0.8) else (1, 8)), finite_ub=fin,
                                Kkind=(rng.choice(["none", "scalar", "vector"]) if norm else None))
            relative = rng.random() < 0.75
            m, nn = sys["m"], sys["n"]
            if not fin and rng.random() < 0.4:
                # unbounded sources that cannot be switched off below a level of 1 .. 3 (the gamut is a cone with its apex at lb, not at 1)
                lb2 = np.array([rng.randint(8, 24) / 8 for _ in range(nn)])
                if gs.well_scaled(sys["A"], lb2, sys["ub"], sys["K"], sys["baseline"]):
                    sys = dict(sys, lb=lb2)
            if sys["Kkind"] == "matrix" and rng.random() < 0.6:
                # strongly mixing adaptation matrices with receptor-specific baselines (the translation K.baseline then matters for membership)
                K2 = np.eye(m) * rng.choice([1.0, 0.5, 2.0])
                for i in range(m):
                    for j in range(m):
                        if i != j and rng.random() < 0.6:
                            K2[i, j] = rng.randint(-8, 8) / 16
                base2 = np.array([rng.randint(0, 16) / 4 for _ in range(m)])
                if gs.well_scaled(sys["A"], sys["lb"], sys["ub"], K2, base2):
                    sys = dict(sys, K=K2, baseline=base2, bkind="vector")
            opp = False
            if sys["Kkind"] == "matrix" and not norm and rng.random() < 0.5:
                # opponent channels (receptor i minus 0.5 .. 1 times receptor j): transformed captures DEcrease with the intensity of some
                # sources, so reproducible targets lie below the dark corner of the gamut in those channels
                K2 = np.eye(m)
                for i in range(m):
                    if rng.random() < 0.7:
                        K2[i, rng.choice([j for j in range(m) if j != i])] = -rng.choice([0.5, 0.75, 1.0])
                base2 = np.array([rng.randint(0, 16) / 4 for _ in range(m)])
                if gs.well_scaled(sys["A"], sys["lb"], sys["ub"], K2, base2) and np.any(K2 @ sys["A"] < 0):
                    sys = dict(sys, K=K2, baseline=base2, bkind="vector"); opp = True
            lb = sys["lb"]; ubf = np.where(np.isfinite(sys["ub"]), sys["ub"], lb + 8.0)
            tk = rng.choice((["interior", "nearin", "interior", "dim"] if (opp and rng.random() < 0.6) else []) or ["interior", "interior", "nearin", "outside", "outside", "nearout", "nearout", "beyond", "beyond", "face", "vertex", "near", "far", "dim", "below"])
            if norm and rng.random() < 0.6:
                # a baseline concentrated on one receptor: its chromaticity (the dark corner of the chromatic gamut) is then an extreme point
                base2 = np.array([rng.randint(0, 2) / 4 for _ in range(m)]); base2[rng.randrange(m)] = rng.randint(16, 48) / 4
                if gs.well_scaled(sys["A"], sys["lb"], sys["ub"], sys["K"], base2):
                    sys = dict(sys, baseline=base2, bkind="vector")
            if norm and rng.random() < 0.6:
                tk = rng.choice(["interior", "nearin", "dim", "dim"])     # chromatic membership hinges on every vertex of the cloud, the dark corner included
            via_adapt = None
            if relative and not norm and sys["Kkind"] in ("none", "vector") and rng.random() < 0.35:
                # the adaptation is reached through register_system_adaptation AFTER a first gamut query
                x0 = np.array([sys["lb"][i] + (np.where(np.isfinite(sys["ub"]), sys["ub"], sys["lb"] + 8.0)[i] - sys["lb"][i]) * rng.randint(4, 12) / 16 for i in range(sys["n"])])
                est0 = gs.make_estimator(dict(sys, K=None))
                est0.register_system_adaptation(x0)
                sys = dict(sys, K=np.array(est0.K, dtype=float), Kkind="vector")
                via_adapt = x0.tolist()
            x = None
            if tk == "interior":
                x = np.array([lb[i] + (ubf[i] - lb[i]) * rng.randint(2, 14) / 16 for i in range(nn)])
            elif tk == "nearin":
                # strictly inside, but only 1/128 of the range away from one or more faces
                x = np.array([lb[i] + (ubf[i] - lb[i]) * rng.choice([1, 1, 127, 127, 64, 32, 96]) / 128 for i in range(nn)])
            elif tk == "dim":
                # all sources close to their lower bound: near the dark corner of the gamut
                x = np.array([lb[i] + (ubf[i] - lb[i]) * rng.choice([1, 1, 2, 4]) / 64 for i in range(nn)])
            elif tk == "below":
                # would need sources below their lower bound (0.4 .. 0.85 of lb): outside whenever lb > 0
                x = np.array([lb[i] * rng.choice([0.4, 0.6, 0.85]) for i in range(nn)])
            elif tk == "beyond":
                x = ubf.copy()
            elif tk in ("face", "nearout") and rng.random() < 0.5:
                x = np.array([rng.choice([lb[i], ubf[i]]) for i in range(nn)])
            elif tk == "face":
                x = np.array([lb[i] + (ubf[i] - lb[i]) * rng.randint(2, 14) / 16 for i in range(nn)])
                i = rng.randrange(nn); x[i] = rng.choice([lb[i], ubf[i]])
            elif tk == "vertex":
                x = np.array([rng.choice([lb[i], ubf[i]]) for i in range(nn)])
            else:
                x = np.array([lb[i] + (ubf[i] - lb[i]) * rng.randint(0, 16) / 16 for i in range(nn)])
            sysr = dict(sys)
            if not relative:
                sysr = dict(sys, K=None, baseline=0.0)
            b = gs.rel_capture(sysr, x)
            if tk == "outside":
                b = b + np.array([rng.randint(-32, 32) / 8 for _ in range(m)])
            elif tk == "far":
                b = b + np.array([rng.randint(-80, 80) / 2 for _ in range(m)])
            elif tk == "beyond":
                # just beyond the all-upper-bound vertex, along a non-negative combination of the source directions
                Apx = gs.K_apply(sysr["K"], sysr["A"], np.zeros(m))[0]
                w = np.array([rng.randint(0, 8) / 8 for _ in range(nn)]); w[rng.randrange(nn)] += 0.5
                b = b + (Apx @ (w * np.maximum(lb, 0.25))) * rng.choice([0.25, 0.5, 0.9])
            elif tk == "near":
                b = b + np.array([rng.randint(-4, 4) / 1024 for _ in range(m)])
            elif tk == "nearout":
                ext = float(np.max(np.abs(gs.K_apply(sysr["K"], sysr["A"], np.zeros(m))[0]) @ (ubf - lb)))
                b = b + np.array([rng.randint(-8, 8) / 8 for _ in range(m)]) * ext * rng.choice([1 / 256, 1 / 64, 1 / 16])
            if norm and (np.any(b <= 0)):
                continue
            # other physical units (photon flux instead of adapted units): spectra, baseline and target exactly 2^20 / 2^30 / 2^-20 times
            # larger; asked of the triangulation path only (finite bounds, as many sources as receptors) -- the absolute tests of the
            # fallback paths are the known findings D6 / D12
            unit = 0
            if fin and nn >= m and via_adapt is None and rng.random() < 0.15:
                unit = rng.choice([20, 30, 30, -20])
            cases.append({"sys": {k: (v.tolist() if isinstance(v, np.ndarray) else v) for k, v in sys.items()},
                          "relative": relative, "norm": norm, "b": b.tolist(), "x": x.tolist(), "tk": tk, "via_adapt": via_adapt, "unit": unit,
                          "kind": "%s/%s/%s/ub-%s/%s%s%s" % (tk, "norm" if norm else "plain", "rel" if relative else "abs",
                                                         "fin" if fin else "inf", "flat" if nn < m else "full", "/opponent" if opp else "", "/unit2^%d" % unit if unit else "")})
        return cases

    def run_impl(self, case):
        from p_C04 import C04
        sys = C04.sysnp(case)
        B = np.asarray(case["b"], dtype=float)[None]
        if case.get("via_adapt") is not None:
            est = gs.make_estimator(dict(sys, K=None))
            est.in_hull(B, relative=case["relative"], normalized=case["norm"])      # a first query, before adapting
            est.register_system_adaptation(np.asarray(case["via_adapt"], dtype=float))
            assert np.array_equal(est.K, sys["K"]), "adaptation K differs from the recorded one"
        else:
            u = 2.0 ** case.get("unit", 0)
            if u != 1.0:
                sys = dict(sys, A=sys["A"] * u, baseline=(np.asarray(sys["baseline"], dtype=float) * u if np.ndim(sys["baseline"]) else float(sys["baseline"]) * u))
                B = B * u
            est = gs.make_estimator(sys)
        core.drain_hooks()
        r = est.in_hull(B, relative=case["relative"], normalized=case["norm"])
        paths = [h[1]["path"] for h in core.drain_hooks() if h[0] == "inhull.path"]
        return {"answer": bool(np.asarray(r).ravel()[0]), "paths": paths}

    # ---- certificates ----
    def transformed(self, case):
        from p_C04 import C04
        sys = C04.sysnp(case)
        m = sys["m"]
        if case["relative"]:
            Ap, bp = gs.K_apply(sys["K"], sys["A"], base_vec(sys["baseline"], m))
        else:
            Ap, bp = sys["A"], np.zeros(m)
        return sys, np.asarray(Ap, dtype=float), np.asarray(bp, dtype=float)

    def classify_target(self, case):
        """(kind, x_cert, margin, y_cert, mu, info) using LPs; cached on the case"""
        if "_cert" in case:
            return case["_cert"]
        sys, Ap, bp = self.transformed(case)
        lb, ub = sys["lb"], sys["ub"]
        b = np.asarray(case["b"], dtype=float)
        m, n = Ap.shape
        fin = bool(np.all(np.isfinite(ub)))
        fulldim = n >= m and np.linalg.matrix_rank(Ap) == m
        ubf = np.where(np.isfinite(ub), ub, lb + 8.0)
        extent = float(np.max(np.abs(Ap) @ (ubf - lb))) or 1.0
        kind, x, marg, y, mu = 2, np.zeros(n), np.zeros(n), np.zeros(m), 0.0
        if case["tk"] in ("interior", "nearin", "dim"):
            kind = 0; x = np.asarray(case["x"], dtype=float)
            marg = np.array([(ubf[i] - lb[i]) / (16 if case["tk"] == "interior" else 256) for i in range(n)])
        else:
            if case["norm"]:
                yy, gap = lp_cert.separation(Ap, bp, lb, ub, b, cone=True)
                gap_rel = gap / (np.abs(b).sum() or 1.0) if yy is not None else -1
            else:
                yy, gap = lp_cert.separation(Ap, bp, lb, ub, b)
                gap_rel = gap / extent if yy is not None else -1
            if yy is not None and gap_rel >= 1e-3 and fin and fulldim and case["norm"]:
                # the cone certificate needs max_box y.p(x) <= 0 EXACTLY: lower y until it holds
                yy = self.fix_cone_y(Ap, bp, lb, ub, yy)
                gap = float(yy @ b)
            if yy is not None and gap_rel >= 1e-3 and fin and fulldim:
                kind = 1; y = yy; mu = gap / 2
            else:
                if case["norm"]:
                    xx, t, inf = lp_cert.cone_member(Ap, bp, lb, ub, b)
                else:
                    xx, inf = lp_cert.member(Ap, bp, lb, ub, b)
                if xx is not None:
                    x = np.clip(xx, lb, ub)
                if yy is not None and gap > 0:
                    y = yy; mu = gap / 2
        case["_cert"] = (kind, x, marg, y, mu, {"fin": fin, "fulldim": fulldim, "extent": extent})
        return case["_cert"]

    @staticmethod
    def fix_cone_y(Ap, bp, lb, ub, y):
        """lower y by a multiple of the all-ones vector until max_{x in box} y.(Ap x + bp) <= 0 holds EXACTLY
        (captures are non-negative, so subtracting eps*1 lowers y.p(x) by eps*sum p(x) >= 0)"""
        m, n = Ap.shape
        Af = [[Fr(float(v)) for v in r] for r in Ap]; bf = [Fr(float(v)) for v in bp]
        colsum = np.abs(Ap).sum(axis=0)
        scale = max(1e-9, float(np.min(colsum * np.where(ub > 0, ub, 1.0))))
        y = np.array(y, dtype=float)
        eps = 0.0
        for it in range(80):
            yf = [Fr(float(v)) for v in y]
            r = [sum(yf[j] * Af[j][i] for j in range(m)) for i in range(n)]
            mx = sum(yf[j] * bf[j] for j in range(m)) + sum(max(r[i] * Fr(float(lb[i])), r[i] * Fr(float(ub[i]))) for i in range(n))
            if mx <= 0:
                return y
            eps = max(2 * float(mx) / scale, eps * 2, 1e-300)
            y = y - eps
        return y

    def emit(self, case, out):
        if "error" in out:
            raise ValueError("in_hull raised %s: %s" % (out["error"], out.get("msg")))
        sys, Ap, bp = self.transformed(case)
        kind, x, marg, y, mu, info = self.classify_target(case)
        m = sys["m"]
        K = sys["K"] if case["relative"] else None
        base = base_vec(sys["baseline"], m) if case["relative"] else np.zeros(m)
        return "(Gamut.Build_case %s %s %s %s %s %s %s %s %s %s %s %s %s %s %s)" % (
            qm(sys["A"].tolist()), cnat(sys["n"]), obounds(sys["lb"]), obounds(sys["ub"]), kmat_lit(K, m), qv(base.tolist()),
            cbool(case["norm"]), qv(case["b"]), cbool(out["answer"]), cnat(kind), qv(x.tolist()), qv(marg.tolist()),
            qv(y.tolist()), q(mu), q(1e-6))

    def config(self, case):
        sys = case["sys"]
        c = []
        if case["norm"]:
            c.append("normalized")
            if sys["m"] == 2:
                c.append("dichromat")
        if not np.isfinite(sys["ub"][0]):
            c.append("unbounded")
        if sys["n"] < sys["m"]:
            c.append("flat")
        return "+".join(c) or "bounded-fulldim"

    def spec_violation(self, case, out):
        cfg = self.config(case)
        if "error" in out:
            return {"what": "in_hull(%s) raised %s: %s" % (cfg, out["error"], out.get("msg", "")[:140]),
                    "class": "raises:%s:%s" % (out["error"], cfg)}
        kind, x, marg, y, mu, info = self.classify_target(case)
        sys, Ap, bp = self.transformed(case)
        ans = out["answer"]
        if kind == 0 and not ans:
            return {"what": "the capture of intensities strictly inside the bounds (x=%s) was reported OUT of gamut [%s, path %s]" % (
                [float(v) for v in x], cfg, out.get("paths")), "class": "interior-rejected:%s" % cfg}
        if kind == 1 and ans:
            return {"what": "a target separated from the gamut by margin %.3g (hyperplane y=%s) was reported IN gamut [%s]" % (
                2 * mu, [float(v) for v in y], cfg), "class": "outside-accepted:%s" % cfg}
        if kind == 2 and ans:
            b = np.asarray(case["b"], dtype=float)
            p = Ap @ x + bp
            if case["norm"]:
                err = np.max(np.abs(p / p.sum() - b / b.sum())) if p.sum() > 0 else np.inf
            else:
                err = np.max(np.abs(p - b))
            if err > 1e-6:
                return {"what": "target reported in gamut but no in-bound intensity reproduces it within 1e-6 (best LP residual %.3g) [%s]" % (err, cfg),
                        "class": "accepted-not-reproducible:%s" % cfg}
        return None

    def nontrivial(self, case, out):
        kind = self.classify_target(case)[0]
        s = case["sys"]
        return kind == 1 or (kind == 0 and s["Kkind"] != "none" and (s["bkind"] != "zero" or any(v != 0 for v in s["lb"])))

    def entry(self, case):
        return "ReceptorEstimator.in_hull(relative=%s, normalized=%s)" % (case["relative"], case["norm"])

    def extra_coverage(self, ctx):
        paths, kinds = {}, {}
        for c, o in zip(ctx["cases"], ctx["outs"]):
            for p in o.get("paths", []):
                paths[p] = paths.get(p, 0) + 1
            k = self.classify_target(c)[0]
            kinds[k] = kinds.get(k, 0) + 1
        return {"decision_paths": paths, "target_kinds(0 interior,1 outside-by-margin,2 no-claim)": kinds}

    def describe(self, case, out):
        c = {k: v for k, v in case.items() if not k.startswith("_")}
        return {"case": core.hexf(c), "out": core.hexf(out)}

    def plant(self, cases, outs):
        k = next(i for i, (c, o) in enumerate(zip(cases, outs)) if "answer" in o and self.classify_target(c)[0] == 1)
        self.planted_index = k
        outs[k]["answer"] = True


PROP = C03()
