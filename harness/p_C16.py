"""C16 — barycentric and n-sphere transforms.  Models: coq/Model/Bary.v, coq/Model/Sphere.v."""
from fractions import Fraction as Fr
import math
import numpy as np
import core
from core import Prop, q, qv, qm, cbool, cnat, dyad


class C16(Prop):
    id = "C16"
    coq_imports = "From DV Require Import Model.Bary Model.Sphere Model.C16."
    case_type = "C16.gcase"
    verdict = "C16.gverdict"
    shard = 60
    rule = ("barycentric: dimensions n = 2..12, transformer matrix, barycentric_to_cartesian / cartesian_to_barycentric (L1 none / scalar / per-row, centred and not) / "
            "barycentric_dim_reduction on 1-5 random dyadic rows; n-sphere: dimensions 2..12, points incl. origin, points on coordinate axes and planes (zero tails), "
            "negative coordinates, 40 % full-mantissa doubles instead of multiples of 1/8, both directions (cartesian_to_spherical, spherical_to_cartesian). non-trivial = dimension >= 4, or a point with a zero tail / "
            "negative last coordinate, or a centred / L1-scaled barycentric conversion")
    assumptions = ["libm cos/sin (numpy) of the angles are supplied as data and only checked to lie on the unit circle with the right quadrant signs (trusted: numpy cos/sin)",
                   "np.linalg.inv is an oracle: its result is checked through the defining products (the returned barycentric rows map back to the input)",
                   "tolerance atol=rtol=1e-9"]
    modelled = "barycentric.py (transformer, b2c, c2b, dim_reduction: rational shadow with the implementation's matrix as data, squares checked against the closed form), spherical.py (both directions via the defining relations)"

    def sizes(self, tier):
        return 260 if tier == "quick" else 5000

    def gen(self, rng, n, tier):
        cases = []
        for i in range(n):
            if rng.random() < 0.5:
                dim = rng.choice(list(range(2, 13)))
                kind = rng.choice(["transformer", "b2c", "b2c", "c2b", "c2b", "reduce"])
                nrows = rng.randint(1, 5)
                center = rng.random() < 0.4
                c = {"fam": "bary", "n": dim, "op": kind, "center": center, "kind": "bary/%s/n%d%s" % (kind, dim, "/c" if center else "")}
                if kind == "b2c":
                    X = [[dyad(rng, 0, 4, 16) for _ in range(dim)] for _ in range(nrows)]
                    r0 = rng.random()
                    if r0 < 0.4:   # proper barycentric rows (sum 1)
                        X = [[v / (sum(r) or 1.0) for v in r] for r in X]
                    elif r0 < 0.6:  # whole-number data (photon counts, corner indicators) handed over with an integer dtype
                        X = [[float(rng.randint(0, 40)) for _ in range(dim)] for _ in range(nrows)] if rng.random() < 0.6 else np.eye(dim)[:nrows].tolist()
                        c["int"] = True; c["kind"] += "/int"
                    c["X"] = X
                elif kind == "c2b":
                    c["X"] = [[dyad(rng, -1, 1, 32) for _ in range(dim - 1)] for _ in range(nrows)]
                    lk = rng.choice(["none", "scalar", "rows"])
                    c["L1"] = None if lk == "none" else (dyad(rng, 1, 40, 4) if lk == "scalar" else [dyad(rng, 1, 40, 4) for _ in range(nrows)])
                    c["kind"] += "/L1-" + lk
                elif kind == "reduce":
                    c["X"] = [[dyad(rng, 0, 8, 16) + (1 / 16 if j == 0 else 0) for j in range(dim)] for _ in range(nrows)]
                # the same captures in other units (exact power-of-two rescaling): the chromatic reduction does not depend on them, b2c is linear
                if kind in ("reduce", "b2c") and not c.get("int") and rng.random() < 0.3:
                    c["bscale"] = rng.choice([2.0 ** -40, 2.0 ** -30, 2.0 ** 30]); c["kind"] += "/scaled"
                cases.append(c)
            else:
                dim = rng.choice(list(range(2, 13)))
                shape = rng.choice(["generic", "generic", "axis", "plane", "origin", "neglast", "zerotail"])
                arbx = rng.random() < 0.4
                # full-mantissa doubles (not multiples of 1/8): sums of squares are then rounded, as for measured data
                x = [rng.uniform(-4, 4) for _ in range(dim)] if arbx else [dyad(rng, -4, 4, 8) for _ in range(dim)]
                if shape == "axis":
                    k = rng.randrange(dim); x = [0.0] * dim; x[k] = rng.choice([-1, 1]) * (rng.uniform(1, 4) if arbx else dyad(rng, 1, 4, 8))
                elif shape == "plane":
                    for k in rng.sample(range(dim), max(1, dim // 2)):
                        x[k] = 0.0
                elif shape == "origin":
                    x = [0.0] * dim
                elif shape == "neglast":
                    x[-1] = -abs(x[-1]) - 0.125
                elif shape == "zerotail":
                    k = rng.randrange(dim)
                    for j in range(k, dim):
                        x[j] = 0.0
                direction = rng.choice(["c2s", "c2s", "s2c"])
                # the same point in other length units: exact power-of-two rescaling of the input, undone on the returned radius
                scale = rng.choice([1.0] * 5 + [2.0 ** -40, 2.0 ** -30, 2.0 ** 30])
                idt = None
                if direction == "c2s" and scale == 1.0 and rng.random() < 0.15:
                    idt = rng.choice(["uint8", "int16", "int32"])
                    top = {"uint8": 255, "int16": 3000, "int32": 60000}[idt]
                    x = [float(rng.randint(0 if idt == "uint8" else -top, top)) if v != 0.0 else 0.0 for v in x]
                c = {"fam": "sphere", "dir": direction, "x": x, "shape": shape, "scale": scale, "idt": idt,
                     "kind": "sphere/%s/n%d/%s%s%s" % (direction, dim, shape, "" if scale == 1.0 else "/scaled", "/arb" if arbx else "")}
                if direction == "s2c":
                    r = dyad(rng, 0, 8, 8)
                    ang = [dyad(rng, 0, 3, 64) for _ in range(dim - 2)] + [dyad(rng, 0, 6, 64)]
                    if shape in ("axis", "origin"):
                        ang[rng.randrange(len(ang))] = 0.0
                    c["y"] = [r] + ang
                cases.append(c)
        return cases

    def run_impl(self, case):
        import dreye
        from dreye.api.barycentric import barycentric_to_cartesian_transformer, barycentric_dim_reduction
        if case["fam"] == "bary":
            n = case["n"]
            A = barycentric_to_cartesian_transformer(n)
            out = {"A": A.tolist()}
            bsc = case.get("bscale", 1.0)
            if case["op"] == "b2c" and bsc != 1.0 and not case["center"]:
                out["Y"] = (dreye.barycentric_to_cartesian(np.array(case["X"], dtype=float) * bsc, center=False) / bsc).tolist()
            elif case["op"] == "b2c":
                out["Y"] = dreye.barycentric_to_cartesian(np.array(case["X"], dtype=(int if case.get("int") else float)), center=case["center"]).tolist()
            elif case["op"] == "c2b":
                L1 = case["L1"]
                L1a = None if L1 is None else (np.array(L1) if isinstance(L1, list) else L1)
                Xin = core.watch(np.array(case["X"], dtype=float))
                dreye.cartesian_to_barycentric(Xin, L1=L1a, centered=case["center"])      # asked twice with the same array: the caller's points stay where they are
                out["Y"] = dreye.cartesian_to_barycentric(Xin, L1=L1a, centered=case["center"]).tolist()
            elif case["op"] == "reduce":
                out["Y"] = barycentric_dim_reduction(np.array(case["X"]) * bsc, center=case["center"]).tolist()
            return out
        sc = case.get("scale", 1.0)
        if case["dir"] == "c2s":
            xin = np.array([case["x"]]) * sc
            if case.get("idt"):
                xin = xin.astype(case["idt"])          # whole-number coordinates in a narrow integer dtype (8-bit RGB triples, 16-bit sensor counts)
            y = np.array(dreye.cartesian_to_spherical(core.watch(xin))[0], dtype=float)
            y[0] = y[0] / sc
            ang = y[1:]
            return {"y": y.tolist(), "cos": np.cos(ang).tolist(), "sin": np.sin(ang).tolist()}
        yin = np.array([case["y"]])
        ysc = yin.copy(); ysc[0, 0] *= sc
        x = np.asarray(dreye.spherical_to_cartesian(ysc)[0], dtype=float) / sc
        ang = yin[0][1:]
        return {"x": x.tolist(), "cos": np.cos(ang).tolist(), "sin": np.sin(ang).tolist()}

    def emit(self, case, out):
        if "error" in out:
            raise ValueError("raised %s: %s" % (out["error"], out.get("msg")))
        tol = q(1e-9)
        if case["fam"] == "bary":
            kind = {"transformer": 0, "b2c": 1, "c2b": 2, "reduce": 3}[case["op"]]
            X = case.get("X", [])
            L1 = [1.0] * len(X)
            if case["op"] == "c2b" and case["L1"] is not None:
                L1 = case["L1"] if isinstance(case["L1"], list) else [case["L1"]] * len(X)
            return "(C16.GB (Bary.Build_case %s %s %s %s %s %s %s %s))" % (
                cnat(case["n"]), qm(out["A"]), cnat(kind), cbool(case["center"]), qm(X), qv(L1), qm(out.get("Y", [])), tol)
        if case["dir"] == "c2s":
            return "(C16.GS (Sphere.Build_case false %s %s %s %s %s))" % (qv(case["x"]), qv(out["y"]), qv(out["cos"]), qv(out["sin"]), tol)
        return "(C16.GS (Sphere.Build_case true %s %s %s %s %s))" % (qv(case["y"]), qv(out["x"]), qv(out["cos"]), qv(out["sin"]), tol)

    # property predicate with floats/Fractions, independent of the Coq shadows
    def spec_violation(self, case, out):
        if "error" in out:
            return {"what": "%s raised %s: %s" % (case["kind"], out["error"], out.get("msg", "")[:120]), "class": "raises:%s:%s" % (out["error"], case["fam"])}
        if case["fam"] == "bary":
            n = case["n"]
            A = np.array(out["A"])
            D = np.linalg.norm(A[:, None, :] - A[None, :, :], axis=-1)
            off = D[~np.eye(n, dtype=bool)]
            if A.shape != (n, n - 1) or np.max(np.abs(off - 1)) > 1e-9:
                return {"what": "simplex corners are not at unit distance (max deviation %.3g) for n=%d" % (np.max(np.abs(off - 1)), n), "class": "not-regular"}
            ctr = (np.ones(n) / n) @ A if case["center"] else 0.0
            if case["op"] == "b2c":
                want = np.array(case["X"]) @ A - ctr
                if np.max(np.abs(want - np.array(out["Y"]))) > 1e-9:
                    return {"what": "barycentric_to_cartesian is not the affine map of the simplex matrix", "class": "b2c"}
            if case["op"] == "c2b":
                Y = np.array(out["Y"]); X = np.array(case["X"])
                L1 = case["L1"]; L = np.ones(len(X)) if L1 is None else (np.array(L1) if isinstance(L1, list) else np.ones(len(X)) * L1)
                if np.max(np.abs(Y.sum(axis=1) - L)) > 1e-9 * (1 + np.max(L)):
                    return {"what": "cartesian_to_barycentric rows sum to %s, requested L1 %s" % (Y.sum(axis=1).tolist(), L.tolist()), "class": "c2b-sum"}
                back = (Y / L[:, None]) @ A - ctr
                if np.max(np.abs(back - X)) > 1e-9:
                    return {"what": "barycentric_to_cartesian(cartesian_to_barycentric(X)) differs from X by %.3g" % np.max(np.abs(back - X)), "class": "c2b-inverse"}
            if case["op"] == "reduce":
                X = np.array(case["X"]); Xn = X / np.abs(X).sum(axis=1, keepdims=True)
                if np.max(np.abs(Xn @ A - ctr - np.array(out["Y"]))) > 1e-9:
                    return {"what": "barycentric_dim_reduction is not b2c of the L1-normalised rows", "class": "reduce"}
            return None
        if case["dir"] == "c2s":
            x = np.array(case["x"]); y = np.array(out["y"]); ang = y[1:]
            if abs(y[0] - np.linalg.norm(x)) > 1e-9 * (1 + np.linalg.norm(x)) or y[0] < 0:
                return {"what": "radius %r is not the Euclidean norm %r" % (y[0], np.linalg.norm(x)), "class": "radius"}
            if np.any(ang[:-1] < 0) or np.any(ang[:-1] > math.pi + 1e-12) or ang[-1] < 0 or ang[-1] > 2 * math.pi + 1e-12:
                return {"what": "angles %s outside [0,pi] / [0,2pi]" % ang.tolist(), "class": "angle-range"}
            back = self.s2c_ref(y)
            if np.max(np.abs(back - x)) > 1e-9 * (1 + np.max(np.abs(x))):
                return {"what": "converting %s to n-sphere coordinates and back gives %s" % (x.tolist(), back.tolist()), "class": "roundtrip"}
            return None
        y = np.array(case["y"]); x = np.array(out["x"])
        want = self.s2c_ref(y)
        if np.max(np.abs(want - x)) > 1e-9 * (1 + abs(y[0])):
            return {"what": "spherical_to_cartesian(%s) = %s, expected %s" % (y.tolist(), x.tolist(), want.tolist()), "class": "s2c"}
        return None

    @staticmethod
    def s2c_ref(y):
        r, ang = y[0], y[1:]
        n = len(y); x = np.zeros(n); prod = 1.0
        for i in range(n - 1):
            x[i] = r * prod * math.cos(ang[i]); prod *= math.sin(ang[i])
        x[n - 1] = r * prod
        return x

    def nontrivial(self, case, out):
        if case["fam"] == "bary":
            return case["n"] >= 4 or case.get("center") or (case["op"] == "c2b" and case.get("L1") is not None)
        return len(case["x"]) >= 4 or case["shape"] in ("axis", "plane", "origin", "neglast", "zerotail")

    def entry(self, case):
        if case["fam"] == "bary":
            return {"transformer": "barycentric_to_cartesian_transformer", "b2c": "dreye.barycentric_to_cartesian", "c2b": "dreye.cartesian_to_barycentric",
                    "reduce": "barycentric_dim_reduction"}[case["op"]]
        return "dreye.cartesian_to_spherical" if case["dir"] == "c2s" else "dreye.spherical_to_cartesian"

    def plant(self, cases, outs):
        k = next(i for i, (c, o) in enumerate(zip(cases, outs)) if c["fam"] == "sphere" and c["dir"] == "c2s" and "y" in o and len(c["x"]) >= 3)
        self.planted_index = k
        outs[k]["y"][0] = outs[k]["y"][0] * (1 + 1e-6) + 1e-6


PROP = C16()
