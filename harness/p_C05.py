"""C05 — samples are fitted independently; batch size is only a performance setting.
Model: coq/Model/Batch.v (plan / written / sent), hook records compared exactly."""
from fractions import Fraction as Fr
import numpy as np
import core
from core import Prop, q, qv, qm, cbool, cnat, cnats
from p_C04 import kmat_lit, base_vec, HI
import gen_sys as gs

PROCS = ["gaussian", "poisson", "excitation", "variance"]


def bspec_lit(b):
    if b is None:
        return "Batch.BNone"
    if b == "full":
        return "Batch.BFull"
    return "(Batch.BInt %s)" % cnat(b)


def combo_kind(n, b):
    if b is None:
        return "none"
    if b == "full":
        return "full"
    if b == 1:
        return "one"
    if b > n:
        return "bs>n"
    return "dividing" if n % b == 0 else "nondividing"


class C05(Prop):
    id = "C05"
    coq_imports = "From DV Require Import Model.Linear Model.Batch."
    case_type = "Batch.case"
    verdict = "Batch.verdict"
    shard = 40
    rule = ("exhaustive grid n_samples 1..N x batch_size in 1..N+2, 'full', None (N=6 gaussian, 4 poisson/variance, 3 excitation in the quick tier; "
            "8/6/4 thorough) on seeded well-scaled systems with finite bounds, baseline and per-sample weights, rows mixed in- and out-of-gamut and "
            "pairwise distinct (excitation, n = 3: all rows in gamut, where the batch-wide maximum of D14 does not couple them); half of the variance systems with a requested total intensity (L1) per row; W='inverse' systems with one target 4096 times brighter than the others; every run is compared with the batch_size=1 run (predicted captures) and its hook records (batch index, padded?, rows "
            "written, stacked targets and weights handed to the solver) with the Coq plan. non-trivial = batch_size >= 2 and n >= 2 (padded or multi-row batch)")
    assumptions = ["solver opaque; 'same predicted captures' is asserted to 2e-3 capture units (gaussian/poisson/variance with tight CLARABEL settings) and 2e-2 (excitation, SCS bisection)",
                   "hook `solve` in lsq_linear._solve_problem / lsq_linear_minimize copies (idx, padded, rows, w_, b_) after each solve"]
    modelled = "optimize/parallel.py (batched_iteration, ravel_iarrays, ravel_last_iarrays), optimize/utils.get_batch_size, scatter in lsq_linear._solve_problem and lsq_linear_minimize"

    def sizes(self, tier):
        return 0

    def grid(self, tier):
        N = {"quick": {"gaussian": 6, "poisson": 4, "variance": 4, "excitation": 3},
             "thorough": {"gaussian": 9, "poisson": 6, "variance": 6, "excitation": 4}}[tier]
        out = []
        for proc in PROCS:
            n_max = N[proc]
            for n in range(1, n_max + 1):
                for b in list(range(1, n_max + 3)) + ["full", None]:
                    out.append((proc, n, b))
        return out

    def gen(self, rng, n_unused, tier):
        cases = []
        systems = {}
        for proc, n, b in self.grid(tier):
            key = (proc, n)
            if key not in systems:
                # weights: one row of W per sample, or ONE per-receptor vector for all samples (then the number of samples is made equal to the
                # number of receptors where possible: a vector of that length must still be read per receptor)
                wvec = rng.random() < 0.4
                force = {("gaussian", 2): "winv", ("gaussian", 5): "winv", ("gaussian", 3): "wvec"}.get(key)     # every run has these, whatever the seed
                if force:
                    wvec = force == "wvec"
                for _ in range(50):
                    sys = gs.gen_system(rng, mrange=((n, n) if (wvec and 2 <= n <= 4) else (2, 4)), nrange=(2, 5), finite_ub=True, Kkind=rng.choice(["none", "scalar", "vector"]))
                    if proc in ("poisson", "excitation") and (np.ndim(sys["baseline"]) == 0 and sys["baseline"] == 0):
                        sys["baseline"] = 1.0; sys["bkind"] = "scalar"
                    rows, kinds = [], []
                    for r in range(n):
                        got = gs.gen_target_regime(rng, sys, ("inside" if (proc == "excitation" and n == 3) else rng.choice(["inside", "outside", "face", "far"])))
                        if got is None:
                            break
                        rows.append(got[1].tolist()); kinds.append(got[0])
                    if len(rows) == n and len({tuple(r) for r in rows}) == n:
                        break

                if proc == "gaussian" and n >= 2 and np.any(np.asarray(sys["lb"]) > 0) and rng.random() < 0.6:
                    # a target equal to the capture in darkness (no light-induced capture at all) although the sources cannot be switched off
                    rows[n - 1] = gs.rel_capture(sys, np.zeros(sys["n"])).tolist(); kinds[n - 1] = "dark"
                if n >= 3 and rng.random() < 0.5:
                    # two rows share a target but not their weights (row independence must still hold)
                    rows[n - 1] = list(rows[0]); kinds[n - 1] = kinds[0]
                W = [[rng.randint(2, 8) / 4 for _ in range(sys["m"])] for _ in range(n)]
                if wvec:
                    W = [list(W[0]) for _ in range(n)]
                sys["wvec"] = bool(wvec)
                # targets handed over in column-major memory order (e.g. a transposed stack, DataFrame.to_numpy())
                sys["forder"] = bool(rng.random() < 0.35)
                # W='inverse' of the library function: every weight is one over its own target (gaussian only, direct call)
                sys["winv"] = bool(proc == "gaussian" and (not wvec) and (force == "winv" or rng.random() < 0.3) and all(v > 0 for r in rows for v in r))
                if sys["winv"] and n >= 2 and (force == "winv" or rng.random() < 0.5):
                    # one bright target (x 4096) in the same call: the weights of the other rows are still one over THEIR OWN captures
                    rows[0] = [v * 4096.0 for v in rows[0]]; kinds[0] = "bright"
                if sys["winv"]:
                    W = [[1.0 / v for v in r] for r in rows]
                # variance minimisation with a requested total intensity per row (the total of the row's own ordinary fit)
                sys["l1"] = bool(proc == "variance" and (n % 2 == 0 or rng.random() < 0.3))
                systems[key] = ({k: (v.tolist() if isinstance(v, np.ndarray) else v) for k, v in sys.items()}, rows, W, kinds)
            sysd, rows, W, kinds = systems[key]
            cases.append({"proc": proc, "n": n, "bs": b, "sys": sysd, "B": rows, "W": W, "tk": kinds,
                          "kind": "%s/%s%s" % (proc, combo_kind(n, b), "/wvec" if sysd.get("wvec") else "") + ("/F" if sysd.get("forder") else "") + ("/Winv" if sysd.get("winv") else "")
                                  + ("/bright" if "bright" in kinds else "") + ("/L1" if sysd.get("l1") else "")})
        return cases

    def call(self, case, bs):
        from p_C04 import C04
        sys = C04.sysnp(case)
        B = np.array(case["B"], dtype=float); W = np.array(case["W"], dtype=float)
        if case["sys"].get("forder"):
            B = np.asfortranarray(B)
        if case["sys"].get("winv"):
            from dreye.api.optimize.lsq_linear import lsq_linear
            core.drain_hooks()
            X, Bp = lsq_linear(sys["A"], B, lb=sys["lb"], ub=sys["ub"], W="inverse", K=(None if sys["K"] is None else np.atleast_1d(sys["K"])),
                               baseline=sys["baseline"], batch_size=bs, return_pred=True, **HI)
            recs = [r[1] for r in core.drain_hooks() if r[0] == "solve"]
            return np.asarray(X, dtype=float), np.asarray(Bp, dtype=float), recs
        if case["sys"].get("wvec"):
            est = gs.make_estimator(sys, w=W[0])          # per-receptor weights given once, as a vector
            est.register_targets(B)
        else:
            est = gs.make_estimator(sys, w=1.0)
            est.register_targets(B, W=W)
        proc = case["proc"]
        if bs == "full" and proc == "gaussian" and len(B) >= 2:
            # the same system was fitted with batch_size='full' for another number of rows just before
            gs.warm(lambda: est.fit(B[:-1], model="gaussian", batch_size="full", **HI))
        core.drain_hooks()
        if proc == "variance" and case["sys"].get("l1"):
            Xo, _ = est.fit(B, **HI)
            core.drain_hooks()
            X, Bp, Bv = est.minimize_variance(B, batch_size=bs, L1=np.asarray(Xo, dtype=float).sum(axis=1), l1_eps=1e-2, **HI)
        elif proc == "variance":
            X, Bp, Bv = est.minimize_variance(B, batch_size=bs, **HI)
        elif proc == "excitation":
            X, Bp = est.fit(B, model="excitation", batch_size=bs)
        elif proc == "poisson":
            X, Bp = est.fit(B, model="poisson", batch_size=bs, **HI)
        else:
            X, Bp = est.fit(B, model="gaussian", batch_size=bs, **HI)
        recs = [r[1] for r in core.drain_hooks() if r[0] == "solve"]
        return np.asarray(X, dtype=float), np.asarray(Bp, dtype=float), recs

    def single_rows(self, case):
        """each row fitted alone in its own call (n_samples = 1): the reference for row independence"""
        out = []
        for i in range(case["n"]):
            c1 = dict(case, n=1, B=[case["B"][i]], W=[case["W"][i]])
            try:
                X, Bp, _ = self.call(c1, 1)
                out.append(Bp[0].tolist())
            except Exception as e:  # noqa
                out.append(None)
        return out

    def run_impl(self, case):
        ref = None
        try:
            X1, Bp1, _ = self.call(case, 1)
            ref = {"X": X1.tolist(), "Bpred": Bp1.tolist()}
        except Exception as e:  # noqa
            ref = {"error": type(e).__name__, "msg": str(e)[:200]}
        try:
            X, Bp, recs = self.call(case, case["bs"])
        except Exception as e:  # noqa
            return {"error": type(e).__name__, "msg": str(e)[:300], "ref": ref}
        site = "lsq_linear_minimize" if case["proc"] == "variance" else "_solve_problem"
        recs = [r for r in recs if r["site"] == site]
        if case["proc"] == "variance":
            # the first-stage ordinary fit also records through _solve_problem; keep the second stage only
            pass
        single = self.single_rows(case) if (case["proc"] in ("gaussian", "variance") and case["bs"] in (2, "full")) else None
        return {"X": X.tolist(), "Bpred": Bp.tolist(), "ref": ref, "single": single,
                "recs": [{"idx": int(r["idx"]), "padded": bool(r["padded"]), "rows": [int(i) for i in r["rows"]],
                          "b": np.asarray(r["b"], dtype=float).ravel().tolist(), "w": np.asarray(r["w"], dtype=float).ravel().tolist(),
                          "status": r["status"]} for r in recs]}

    def emit(self, case, out):
        if "error" in out:
            raise ValueError("%s raised %s: %s" % (case["proc"], out["error"], out.get("msg")))
        from p_C04 import C04
        sys = C04.sysnp(case)
        m = sys["m"]
        recs = "[" + ";".join("(Batch.Build_hookrec %s %s %s %s %s)" % (
            cnat(r["idx"]), cbool(r["padded"]), cnats(r["rows"]), qv(r["b"]), qv(r["w"])) for r in out["recs"]) + "]"
        return "(Batch.Build_case %s %s %s %s %s %s %s %s %s %s)" % (
            cnat(case["n"]), cnat(m), bspec_lit(case["bs"]), kmat_lit(sys["K"], m), qv(base_vec(sys["baseline"], m).tolist()),
            qm(case["B"]), qm(case["W"]), cbool(case["proc"] in ("gaussian", "variance")), q(1e-9), recs)

    def spec_violation(self, case, out):
        ck = combo_kind(case["n"], case["bs"])
        ref = out.get("ref") or {}
        if "error" in out:
            if "error" in ref:
                # fails for batch size one as well: not "because of the combination"
                return {"what": "%s fails even with batch_size=1: %s %s" % (case["proc"], ref["error"], ref.get("msg", "")[:100]),
                        "class": "raises-at-bs1:%s:%s" % (case["proc"], ref["error"])}
            return {"what": "%s with n_samples=%d, batch_size=%r raised %s: %s (batch_size=1 succeeds)" % (
                case["proc"], case["n"], case["bs"], out["error"], out.get("msg", "")[:120]),
                "class": "raises:%s:%s:%s" % (case["proc"], ck, out["error"])}
        tol = 2e-2 if case["proc"] == "excitation" else 2e-3
        if out.get("single"):
            for i, sp in enumerate(out["single"]):
                if sp is not None:
                    d1 = np.abs(np.asarray(out["Bpred"][i]) - np.asarray(sp)).max()
                    if d1 > tol:
                        return {"what": "%s n=%d batch_size=%r: row %d fitted together with the other rows differs by %.3g from the same row fitted alone (row independence)" % (
                            case["proc"], case["n"], case["bs"], i, d1), "class": "row-dependence:%s:%s" % (case["proc"], ck)}
        if "error" in ref:
            return None
        d = np.abs(np.asarray(out["Bpred"]) - np.asarray(ref["Bpred"]))
        if d.max() > tol:
            i = int(np.argmax(d.max(axis=1)))
            return {"what": "%s n=%d batch_size=%r: predicted capture of row %d differs from the batch_size=1 result by %.3g (> %g)" % (
                case["proc"], case["n"], case["bs"], i, d.max(), tol),
                "class": "batch-dependence%s:%s:%s" % ("-ingamut" if all(k in ("inside", "face") for k in case["tk"]) else "", case["proc"], ck)}
        return None

    def nontrivial(self, case, out):
        b = case["bs"]
        return case["n"] >= 2 and (b == "full" or (isinstance(b, int) and b >= 2))

    def entry(self, case):
        return "ReceptorEstimator.%s(batch_size=%r)" % ("minimize_variance" if case["proc"] == "variance" else "fit[model=%s]" % case["proc"], case["bs"])

    def extra_coverage(self, ctx):
        padded = sum(1 for o in ctx["outs"] for r in o.get("recs", []) if r["padded"])
        solves = sum(len(o.get("recs", [])) for o in ctx["outs"])
        return {"solves_recorded": solves, "padded_batches_exercised": padded, "exhaustive": True,
                "grid": "see rule; %d (procedure, n, batch_size) points" % len(ctx["cases"])}

    def plant(self, cases, outs):
        k = next(i for i, o in enumerate(outs) if o.get("recs") and len(o["recs"][0]["rows"]) >= 2)
        self.planted_index = k
        outs[k]["recs"][0]["rows"] = list(reversed(outs[k]["recs"][0]["rows"]))


PROP = C05()
