#!/usr/bin/env python3
"""Validate a seeded breaking change and run the checks against it.

usage: seed_eval.py <mutant_dir> <property_id> <name> [--tier quick] [--extra-check Cxx ...]
 1. scratch worktree of /repo HEAD: demo passes clean, fails with the patch, pytest pass-set unchanged
 2. apply the patch to /repo, run ./check <id>, undo (git checkout -- .)
 3. keep it as /verif/seeded/<name>/ with meta.json recording what was run and what caught it
"""
import json, os, re, shutil, subprocess, sys, tempfile

VERIF = os.path.dirname(os.path.dirname(os.path.abspath(__file__)))
SCRATCH = os.environ.get("SEED_SCRATCH") == "1"


def sh(cmd, cwd=None, timeout=3600, env=None):
    p = subprocess.run(cmd, shell=True, cwd=cwd, stdout=subprocess.PIPE, stderr=subprocess.STDOUT, text=True, timeout=timeout, env=env)
    return p.returncode, p.stdout


def passset(wt):
    rc, out = sh("/venv/bin/python -m pytest -q -p no:cacheprovider --timeout=900 -rA 2>&1 | grep '^PASSED' | sort", cwd=wt,
                 env=dict(os.environ, PYTHONPATH=wt, DREYE_VERIF="0"))
    return set(out.split("\n")) - {""}


def main():
    mdir, pid, name = sys.argv[1:4]
    checks = [pid] + [a for a in sys.argv[4:] if re.match(r"^C\d+$", a)]
    patch = os.path.join(mdir, "patch.diff")
    demo = os.path.join(mdir, "demo.py")
    meta = json.load(open(os.path.join(mdir, "meta.json"))) if os.path.exists(os.path.join(mdir, "meta.json")) else {}
    wt = tempfile.mkdtemp(prefix="seedwt_", dir="/tmp")
    os.rmdir(wt)
    res = {"property": pid, "name": name}
    try:
        assert sh("git -C /repo worktree add -q %s HEAD" % wt)[0] == 0
        env = dict(os.environ, PYTHONPATH=wt, DREYE_VERIF="0")
        base = passset(wt)
        rc0, o0 = sh("/venv/bin/python -W ignore %s" % demo, cwd=wt, env=env)
        rca, oa = sh("git apply %s" % patch, cwd=wt)
        if rca:
            print("PATCH DOES NOT APPLY:", oa); res["applies"] = False
            return res
        rc1, o1 = sh("/venv/bin/python -W ignore %s" % demo, cwd=wt, env=env)
        mut = passset(wt)
        res.update({"demo_clean_rc": rc0, "demo_mutant_rc": rc1, "tests_lost": sorted(base - mut), "n_pass_clean": len(base), "n_pass_mutant": len(mut),
                    "demo_mutant_tail": o1[-400:]})
    finally:
        if not SCRATCH:
            sh("git -C /repo worktree remove --force %s" % wt)
            shutil.rmtree(wt, ignore_errors=True)
    res["valid"] = (res.get("demo_clean_rc") == 0 and res.get("demo_mutant_rc") != 0 and not res.get("tests_lost"))
    print("validity:", {k: res[k] for k in ("demo_clean_rc", "demo_mutant_rc", "tests_lost", "valid")})
    # run the checks against it (SEED_SCRATCH=1: in the scratch worktree through DREYE_REPO, for triage while /repo is busy;
    # the stored result of record comes from seed_replay.py, which applies the patch to /repo itself)
    if not SCRATCH:
        assert sh("git -C /repo status --porcelain")[1].strip() == "", "/repo not clean"
    res["checks"] = {}; res["mode"] = "scratch-worktree" if SCRATCH else "applied-to-/repo"
    try:
        if not SCRATCH:
            assert sh("git -C /repo apply %s" % patch)[0] == 0
        for c in checks:
            rc, out = sh("./check %s --tier quick" % c, cwd=VERIF, env=dict(os.environ, VERIF_NO_EVIDENCE="1", **({"DREYE_REPO": wt} if SCRATCH else {})))
            lines = [l for l in out.splitlines() if l.startswith("VIOLATION") or l.startswith("KNOWN")]
            detail = []
            for l in lines:
                m = re.search(r"replay=(\S+)", l)
                if m and os.path.exists(os.path.join(VERIF, m.group(1))):
                    d = json.load(open(os.path.join(VERIF, m.group(1))))
                    detail.append({"class": d.get("class"), "what": d.get("what", "")[:200], "found": d.get("failing_input_found")})
            res["checks"][c] = {"exit": rc, "lines": lines, "detail": detail, "tail": out.splitlines()[-1] if out else ""}
            print(c, "exit", rc, lines[:3], detail[:2])
    finally:
        if SCRATCH:
            sh("git -C /repo worktree remove --force %s" % wt)
            shutil.rmtree(wt, ignore_errors=True)
        else:
            sh("git -C /repo checkout -- .")
            assert sh("git -C /repo status --porcelain")[1].strip() == ""
    res["caught_by"] = [c for c, r in res["checks"].items() if r["exit"] == 1 and any(l.startswith("VIOLATION") for l in r["lines"])]
    if res["valid"]:
        d = os.path.join(VERIF, "seeded", name)
        os.makedirs(d, exist_ok=True)
        if os.path.abspath(mdir) != os.path.abspath(d):
            shutil.copy(patch, os.path.join(d, "patch.diff"))
            shutil.copy(demo, os.path.join(d, "demo.py"))
        meta.update({"breaks_property": pid, "validation": res,
                     "ran": ["demo on clean scratch worktree (exit %s)" % res["demo_clean_rc"], "demo with patch (exit %s)" % res["demo_mutant_rc"],
                             "pytest pass-set clean vs patched (lost: %s)" % res["tests_lost"]] + ["./check %s --tier quick with the patch applied to /repo" % c for c in checks]})
        json.dump(meta, open(os.path.join(d, "meta.json"), "w"), indent=1)
    print("CAUGHT BY:", res["caught_by"])
    return res


if __name__ == "__main__":
    main()
