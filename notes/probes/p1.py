import numpy as np, math, warnings
np.trapz = np.trapezoid
np.math = math
import dreye, cvxpy as cp
from dreye.api.optimize.lsq_linear import lsq_linear, lsq_linear_minimize, lsq_linear_excitation, lsq_linear_underdetermined, lsq_linear_adaptive
rng = np.random.default_rng(0)
A = rng.uniform(1,5,(3,4))
B = rng.uniform(1,10,(5,3))
def t(name, f):
    try:
        r = f()
        print(name, "OK", (r[0] if isinstance(r, tuple) else r)[:2])
    except Exception as e:
        print(name, "EXC", type(e).__name__, str(e)[:150])
t("lsq b1", lambda: lsq_linear(A,B,ub=np.ones(4)*2,batch_size=1))
t("lsq b2", lambda: lsq_linear(A,B,ub=np.ones(4)*2,batch_size=2))
t("lsq b5", lambda: lsq_linear(A,B,ub=np.ones(4)*2,batch_size=5))
t("lsq b7", lambda: lsq_linear(A,B,ub=np.ones(4)*2,batch_size=7))
t("lsq full", lambda: lsq_linear(A,B,ub=np.ones(4)*2,batch_size='full'))
t("lsq below baseline", lambda: lsq_linear(A,B,ub=np.ones(4)*2,baseline=20.0))
t("lsq neg lb", lambda: lsq_linear(A,B,lb=-np.ones(4), ub=np.ones(4)*2,baseline=20.0))
t("poisson", lambda: lsq_linear(A,B,ub=np.ones(4)*2,model='poisson'))
t("excitation", lambda: lsq_linear_excitation(A,B,ub=np.ones(4)*2))
t("minimize b1", lambda: lsq_linear_minimize(A,B,ub=np.ones(4)*2,batch_size=1, return_pred=True))
t("minimize b2", lambda: lsq_linear_minimize(A,B,ub=np.ones(4)*2,batch_size=2, return_pred=True))
t("minimize b5", lambda: lsq_linear_minimize(A,B,ub=np.ones(4)*2,batch_size=5, return_pred=True))
t("underdet", lambda: lsq_linear_underdetermined(A,B[:2]*0.3,ub=np.ones(4)*2, l2_eps=1e-4))
t("adaptive default", lambda: lsq_linear_adaptive(A,B,ub=np.ones(4)*2))
t("adaptive clarabel", lambda: lsq_linear_adaptive(A,B,ub=np.ones(4)*2, solver=cp.CLARABEL))
