From Coq Require Import QArith Qabs List Lia Lqa Setoid Morphisms.
Import ListNotations.
Open Scope Q_scope.

Fixpoint dot (u v : list Q) : Q :=
  match u, v with
  | a :: u', b :: v' => a * b + dot u' v'
  | _, _ => 0
  end.
Fixpoint vsub (u v : list Q) : list Q :=
  match u, v with a :: u', b :: v' => (a - b) :: vsub u' v' | _, _ => [] end.
Fixpoint vadd (u v : list Q) : list Q :=
  match u, v with a :: u', b :: v' => (a + b) :: vadd u' v' | _, _ => [] end.
Definition vscale (t : Q) (u : list Q) := map (Qmult t) u.
Definition sq v := dot v v.

Lemma sq_nonneg v : 0 <= sq v.
Proof. unfold sq. induction v as [|a v IH]; simpl; [lra|]. 
  assert (0 <= a*a) by (destruct (Qlt_le_dec a 0); nra). lra. Qed.

Lemma sq_expand t u v : length u = length v ->
  sq (vsub (vscale t u) v) == t*t*sq u - 2*t*dot u v + sq v.
Proof.
  unfold sq, vscale. revert v; induction u as [|a u IH]; intros [|b v] H; simpl in *; try discriminate; try lra.
  assert (H' : length u = length v) by lia. specialize (IH v H').
  set (X := dot (vsub _ _) (vsub _ _)) in *. set (U := dot u u) in *. set (P := dot u v) in *. set (V := dot v v) in *.
  rewrite IH. ring.
Qed.

Lemma sq_zero_dot u v : length u = length v -> sq u == 0 -> dot u v == 0.
Proof.
  unfold sq. revert v; induction u as [|a u IH]; intros [|b v] H H0; simpl in *; try discriminate; try lra.
  assert (H' : length u = length v) by lia.
  pose proof (sq_nonneg u) as Hu. unfold sq in Hu.
  assert (Haa : 0 <= a*a) by (destruct (Qlt_le_dec a 0); nra).
  assert (Ha : a*a == 0) by lra. assert (Hu0 : dot u u == 0) by lra.
  assert (Ha0 : a == 0) by (destruct (Qeq_dec a 0) as [|N]; [assumption|]; exfalso; destruct (Qlt_le_dec a 0); nra).
  rewrite (IH v H' Hu0). rewrite Ha0. ring.
Qed.

Lemma cauchy_schwarz u v : length u = length v -> dot u v * dot u v <= sq u * sq v.
Proof.
  intros H. destruct (Qeq_dec (sq u) 0) as [E|N].
  - rewrite (sq_zero_dot u v H E), E. lra.
  - pose proof (sq_nonneg u) as HU. assert (0 < sq u) as HUp by lra. clear N.
    pose proof (sq_nonneg (vsub (vscale (dot u v / sq u) u) v)) as Hs.
    rewrite (sq_expand _ u v H) in Hs.
    set (U := sq u) in *. set (P := dot u v) in *. set (V := sq v) in *.
    assert (E : P / U * (P / U) * U - 2 * (P / U) * P + V == V - P*P/U) by (field; lra).
    rewrite E in Hs.
    assert (Hle : P*P/U <= V) by lra.
    assert (Heq : P*P == (P*P/U)*U) by (field; lra).
    rewrite Heq. nra.
Qed.

Lemma dot_le_of_sq (a s r : Q) : 0 <= s -> 0 <= r -> a*a <= s*s*(r*r) -> a <= s*r.
Proof. intros. destruct (Qlt_le_dec (s*r) a); [|assumption]. assert (0 <= s*r) by nra. nra. Qed.
