import numpy as np, warnings, collections
warnings.filterwarnings("ignore")
from dreye.api.convex import range_of_solutions
from scipy.optimize import linprog
rng=np.random.default_rng(7)
stats=collections.Counter()
def lp_ext(A,b,lb,ub):
    n=A.shape[1]; mins=[];maxs=[]
    for k in range(n):
        c=np.zeros(n); c[k]=1
        r1=linprog(c,A_eq=A,b_eq=b,bounds=list(zip(lb,ub)),method='highs'); r2=linprog(-c,A_eq=A,b_eq=b,bounds=list(zip(lb,ub)),method='highs')
        if r1.status!=0 or r2.status!=0: return None
        mins.append(r1.fun); maxs.append(-r2.fun)
    return np.array(mins),np.array(maxs)
for t in range(400):
    m=int(rng.integers(2,5)); n=m+int(rng.integers(1,4))
    A=rng.integers(1,65,(m,n))/8.
    lb=np.zeros(n); ub=rng.integers(2,40,n)/8.
    kind=["inside","face","vertex","arb"][t%4]
    if kind=="arb":
        A=rng.uniform(.5,8,(m,n)); ub=rng.uniform(.3,5,n)
        x=lb+(ub-lb)*rng.uniform(.1,.9,n)
    else:
        x=lb+(ub-lb)*rng.integers(1,8,n)/8.
        if kind=="face": 
            k=rng.integers(0,n); x[k]=[lb,ub][rng.integers(0,2)][k]
        if kind=="vertex": x=np.where(rng.random(n)<.5,lb,ub)
    b=A@x
    try:
        mn,mx=range_of_solutions(b,A,lb,ub)
    except Exception as e:
        stats[(kind,"EXC",type(e).__name__)]+=1; continue
    ref=lp_ext(A,b,lb,ub)
    if ref is None: stats[(kind,"lpfail")]+=1; continue
    err=max(np.abs(mn-ref[0]).max(),np.abs(mx-ref[1]).max())
    bad = err>1e-6 or (mn>mx+1e-12).any()
    stats[(kind,"bad" if bad else "ok")]+=1
    if bad and stats[(kind,"bad")]<3: print(kind,m,n,"err",err,"mn>mx",(mn>mx).any(), mn, ref[0])
for k,v in sorted(stats.items(),key=str): print(k,v)
