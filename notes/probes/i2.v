From Coq Require Import Reals QArith Qreals List.
From Interval Require Import Tactic.
Import ListNotations.
Open Scope R_scope.
Definition nrm2 (l : list Q) : R := sqrt (fold_right (fun q acc => Q2R q * Q2R q + acc) 0 l).
Definition all0 (l : list Q) : bool := forallb (fun q => Qeq_bool q 0) l.
Definition ang (t : R) : R := PI/2 - atan (t / sqrt (1 - t*t)).
Fixpoint polar (l : list Q) : list R :=
  match l with
  | a :: ((_ :: _ :: _) as tl) =>
      (if all0 l then 0 else if all0 tl then (if Qle_bool 0 a then 0 else PI) else ang (Q2R a / nrm2 l)) :: polar tl
  | [a; b] => [ if all0 l then 0 else if all0 [b] then (if Qle_bool 0 a then 0 else PI)
                else if Qle_bool 0 b then ang (Q2R a / nrm2 l) else 2*PI - ang (Q2R a / nrm2 l) ]
  | _ => []
  end.
Definition c2s (l : list Q) : list R := nrm2 l :: polar l.
Goal Rabs (nth 1 (c2s [(-1#1)%Q; (2#1)%Q; (-2#1)%Q]) 0 - 1.9106332362490186) <= 1/1000000000.
Proof. cbv [c2s polar nth all0 forallb Qeq_bool Qle_bool nrm2 fold_right Qnum Qden Z.mul Pos.mul Zeq_bool Z.compare Pos.compare Pos.compare_cont Z.leb andb ang Q2R]. simpl IZR. 
  interval with (i_prec 80). Qed.
Goal Rabs (nth 2 (c2s [(-1#1)%Q; (2#1)%Q; (-2#1)%Q]) 0 - 5.497787143782138) <= 1/1000000000.
Proof. cbv [c2s polar nth all0 forallb Qeq_bool Qle_bool nrm2 fold_right Qnum Qden Z.mul Pos.mul Zeq_bool Z.compare Pos.compare Pos.compare_cont Z.leb andb ang Q2R]. simpl IZR.
  interval with (i_prec 80). Qed.
