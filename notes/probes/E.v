From Coq Require Import QArith Qabs Qminmax List Lia Lqa Setoid Morphisms.
Require Import D.
Import ListNotations.
Open Scope Q_scope.

Definition matvec (M : list (list Q)) (x : list Q) := map (fun r => dot r x) M.
(* G^T lam = sum_i lam_i * row_i, as a vector of length n *)
Fixpoint tmatvec (G : list (list Q)) (lam : list Q) (n : nat) : list Q :=
  match G, lam with
  | row :: G', l :: lam' => vadd (vscale l row) (tmatvec G' lam' n)
  | _, _ => repeat 0 n
  end.

Lemma dot_repeat0 n x : dot (repeat 0 n) x == 0.
Proof. revert x; induction n; intros [|a x]; simpl; try lra. rewrite IHn. ring. Qed.
Lemma len_vscale t u : length (vscale t u) = length u. Proof. apply map_length. Qed.
Lemma len_vadd u v : length u = length v -> length (vadd u v) = length u.
Proof. revert v; induction u; intros [|b v] H; simpl in *; try discriminate; auto. Qed.
Lemma dot_vadd_l u v x : length u = length v -> dot (vadd u v) x == dot u x + dot v x.
Proof. revert v x; induction u as [|a u IH]; intros [|b v] [|c x] H; simpl in *; try discriminate; try lra.
  rewrite IH by lia. ring. Qed.
Lemma dot_vscale_l t u x : dot (vscale t u) x == t * dot u x.
Proof. revert x; induction u as [|a u IH]; intros [|c x]; simpl; try lra. rewrite IH. ring. Qed.
Lemma len_tmatvec G lam n : Forall (fun r => length r = n) G -> length (tmatvec G lam n) = n.
Proof. revert lam; induction G as [|row G IH]; intros [|l lam] HG; simpl; try apply repeat_length.
  inversion HG; subst. rewrite len_vadd; rewrite len_vscale; auto. rewrite IH; auto. Qed.

Lemma transpose_id G lam x n : Forall (fun r => length r = n) G -> length lam = length G ->
  dot lam (matvec G x) == dot (tmatvec G lam n) x.
Proof.
  revert lam; induction G as [|row G IH]; intros [|l lam] HG HL; simpl in *; try discriminate.
  - rewrite dot_repeat0. lra.
  - inversion HG; subst. rewrite dot_vadd_l, dot_vscale_l, IH; auto; try lra.
    rewrite len_vscale, len_tmatvec; auto.
Qed.

(* box minimum of r.x *)
Fixpoint boxmin (r lb ub : list Q) : Q :=
  match r, lb, ub with
  | a :: r', l :: lb', u :: ub' => Qmin (a*l) (a*u) + boxmin r' lb' ub'
  | _, _, _ => 0
  end.
Fixpoint in_box (x lb ub : list Q) : Prop :=
  match x, lb, ub with
  | a :: x', l :: lb', u :: ub' => l <= a /\ a <= u /\ in_box x' lb' ub'
  | [], [], [] => True
  | _, _, _ => False
  end.
Lemma boxmin_le r x lb ub : length r = length x -> in_box x lb ub -> boxmin r lb ub <= dot r x.
Proof.
  revert x lb ub; induction r as [|a r IH]; intros [|c x] [|l lb] [|u ub] HL HB; simpl in *; try discriminate; try tauto; try lra.
  destruct HB as (H1 & H2 & HB). specialize (IH x lb ub ltac:(lia) HB).
  assert (Qmin (a*l) (a*u) <= a*c).
  { destruct (Qlt_le_dec a 0).
    - apply Qle_trans with (a*u); [apply Q.le_min_r| nra].
    - apply Qle_trans with (a*l); [apply Q.le_min_l| nra]. }
  lra.
Qed.
