import numpy as np, cvxpy as cp, warnings
warnings.filterwarnings("ignore")
rng=np.random.default_rng(1)
m,n=3,5
A=rng.uniform(.5,4,(m,n)); lb=np.zeros(n); ub=np.ones(n)*2
x0=rng.uniform(.3,1.7,n); b=A@x0; eps=1e-4
# min sum x s.t. ||Ax-b||<=eps, box
x=cp.Variable(n)
cone=cp.norm2(A@x-b)<=eps
prob=cp.Problem(cp.Minimize(cp.sum(x)),[x>=lb,x<=ub,cone]); prob.solve(solver=cp.CLARABEL)
xs=x.value; print("obj",prob.value, "status",prob.status)
print("cone dual", cone.dual_value)
# Build certificate: y for cone row. Lagrangian: c.x + y.(Ax-b) with ||y||<=? ; bound: c.x >= (c + A^T y).x - y.(Ax - b) >= sum min(r lb, r ub) + y.b - eps||y||   where r = c + A^T y  ... sign: c.x = r.x - y.Ax = r.x - y.(Ax-b) - y.b >= boxmin(r) - eps||y|| - y.b
c=np.ones(n)
# find y by solving dual LP-ish numerically: maximize boxmin(c + A^T y) - y.b - eps||y||
y=cp.Variable(m); r=c+A.T@y
dual=cp.Problem(cp.Maximize(cp.sum(cp.minimum(cp.multiply(r,lb),cp.multiply(r,ub))) - y@b - eps*cp.norm2(y))); dual.solve(solver=cp.CLARABEL)
print("dual bound",dual.value, "gap", prob.value-dual.value)
# QP objective: min ||x||^2 -> linearise at xs2
prob2=cp.Problem(cp.Minimize(cp.sum_squares(x)),[x>=lb,x<=ub,cone]); prob2.solve(solver=cp.CLARABEL); xs2=x.value
g=2*xs2; r2=g+A.T@y
dual2=cp.Problem(cp.Maximize(xs2@xs2 - g@xs2 + cp.sum(cp.minimum(cp.multiply(r2,lb),cp.multiply(r2,ub))) - y@b - eps*cp.norm2(y))); dual2.solve(solver=cp.CLARABEL)
print("qp", prob2.value, dual2.value, prob2.value-dual2.value)
