import numpy as np, math, warnings
warnings.filterwarnings("ignore")
np.trapz = np.trapezoid; np.math = math
import dreye, cvxpy as cp
from scipy.optimize import linprog
from dreye.api.convex import in_hull_from_A, range_of_solutions, _range_of_solutions
print(linprog([1,1],A_ub=[[-1,-1]],b_ub=[-1],method='highs').x)
A=np.array([[1.,2,3,1],[2,1,1,3],[1,1,2,2]])
lb=np.zeros(4); ub=np.ones(4)
x=np.array([.5,.5,.5,.5]); b=A@x
print("in", in_hull_from_A(np.array([b, b*10, A@ub, A@lb, A@np.array([1,0,0,0])]),A,lb,ub))
print(range_of_solutions(b,A,lb,ub))
print("vertex target", range_of_solutions(A@np.array([1.,0,0,0]),A,lb,ub, error='warn'))
# degenerate: duplicate columns
A2=np.array([[1.,1,2],[2,2,1]])
try: print(range_of_solutions(A2@np.array([.5,.5,.5]),A2,np.zeros(3),np.ones(3)))
except Exception as e: print("dup cols:",type(e).__name__,e)
# fewer sources than receptors
A3=np.array([[1.,2],[2,1],[1,1]])
print("flat", in_hull_from_A(np.array([A3@[.5,.5], A3@[.5,.5]+[0,0,.1]]),A3,np.zeros(2),np.ones(2)))
print("unbounded", in_hull_from_A(np.array([A3@[.5,5], A3@[.5,.5]+[0,0,.1]]),A3,np.zeros(2),np.ones(2)*np.inf))
# estimator
est = dreye.ReceptorEstimator(np.array([[1.,2,3,2,1],[0,1,2,3,4.]]), domain=1.0)
est.register_system(np.eye(5)[:3]+0.1, ub=np.ones(3))
print(est.A, est.K, est.baseline)
print(est.in_hull(np.array([[1.,1.]])), est.in_hull(np.array([[1.,1.]]), normalized=True))
print(est.sample_in_gamut(3, seed=1))
print(est.gamut_dist_scaling(np.array([[1.,1.],[5,.1]])))
print(est.gamut_l1_scaling(np.array([[1.,1.],[5,.1]])))
