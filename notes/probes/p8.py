import numpy as np, warnings, collections
warnings.filterwarnings("ignore")
from dreye.api.convex import in_hull_from_A
from scipy.optimize import linprog
rng=np.random.default_rng(5)
stats=collections.Counter()
for t in range(300):
    m=int(rng.integers(2,6)); n=int(rng.integers(1,9))
    A=rng.integers(1,65,(m,n))/8.
    lb=rng.choice([0.,.25],n) if rng.random()<.5 else np.zeros(n)
    ub=lb+rng.integers(1,40,n)/8.
    kind=rng.integers(0,3)
    K=[None, rng.integers(1,9,m)/4., np.eye(m)+rng.integers(0,3,(m,m))/16.][kind]
    base=[None,0.5,rng.integers(0,8,m)/4.][rng.integers(0,3)]
    def model(x):
        q=A@x+(0 if base is None else base)
        if K is None: return q
        return K*q if K.ndim==1 else K@q
    # interior
    x=lb+(ub-lb)*rng.uniform(.1,.9,n); b=model(x)
    try:
        r=in_hull_from_A(b[None],A,lb,ub,K=K,baseline=base)[0]
    except Exception as e:
        stats[("EXC",type(e).__name__,m,n)]+=1; continue
    stats[("interior",bool(r),"flat" if n<m else "full")]+=1
    if not r: print("interior rejected",m,n,kind)
    # vertex
    xv=np.where(rng.random(n)<.5,lb,ub); bv=model(xv)
    r=in_hull_from_A(bv[None],A,lb,ub,K=K,baseline=base)[0]
    stats[("vertex",bool(r),"flat" if n<m else "full")]+=1
    # outside: push along random direction far
    bo=b+ (model(ub)-model(lb))*rng.choice([-1,1],m)*2
    r=in_hull_from_A(bo[None],A,lb,ub,K=K,baseline=base)[0]
    stats[("far",bool(r),"flat" if n<m else "full")]+=1
for k,v in sorted(stats.items(),key=str): print(k,v)
