import numpy as np, math, warnings
warnings.filterwarnings("ignore")
np.trapz = np.trapezoid; np.math = math
import dreye, cvxpy as cp
from dreye.api.optimize.lsq_linear import *
A=np.array([[4.,1,2,1],[1,4,1,2],[1,1,3,3]])
lb=np.zeros(4); ub=np.ones(4)*2
x0=np.array([1.,.5,1.2,.7]); 
def t(name,f):
    try: r=f(); print(name,"OK",r)
    except Exception as e: print(name,"EXC",type(e).__name__,str(e)[:120])
for opt in ['l2','min','max','var',3.0,np.ones(4)]:
    t(f"under {opt}", lambda: (lambda X,B:(X.round(4),np.abs(B-A@x0).max()))(*lsq_linear_underdetermined(A,(A@x0)[None],lb=lb,ub=ub,l2_eps=1e-4,underdetermined_opt=opt,return_pred=True)))
# excitation with baseline
base=np.array([2.,2,2])
b=A@x0+base
t("excit base in-gamut", lambda: (lambda X,B:(X.round(4),np.abs(B-b).max()))(*lsq_linear_excitation(A,b[None],lb=lb,ub=ub,baseline=base,return_pred=True)))
t("poisson base in-gamut", lambda: (lambda X,B:(X.round(4),np.abs(B-b).max()))(*lsq_linear(A,b[None],lb=lb,ub=ub,baseline=base,model='poisson',return_pred=True)))
t("minimize", lambda: (lambda X,B,V:(X.round(4),np.abs(B-b).max(),V))(*lsq_linear_minimize(A,b[None],lb=lb,ub=ub,baseline=base,return_pred=True,l2_eps=1e-4)))
t("adaptive", lambda: (lambda X,s,B:(X.round(4),s,np.abs(B-b).max()))(*lsq_linear_adaptive(A,b[None],lb=lb,ub=ub,baseline=base,return_pred=True,solver=cp.CLARABEL,delta_norm1=1e-4,delta_radius=1e-4)))
B5=np.abs(np.random.default_rng(0).normal(5,2,(12,3)))
t("decomp", lambda: (lambda X,P,B:(X.round(3),P.shape,np.abs(B-B5).max()))(*lsq_linear_decomposition(A,B5,lb=lb,ub=ub,n_layers=2,seed=1,return_pred=True,max_iter=20)))
