import random
random.seed(1)
def q(x):
    n,d = x.as_integer_ratio()
    return f"({n}#{d})"
cases=[]
for c in range(500):
    n=30
    xs=sorted(random.sample(range(0,4000),n)); xs=[x/8 for x in xs]
    ys=[random.randint(-64,64)/16*random.randint(0,64)/8 for _ in range(n)]
    val=sum((xs[i+1]-xs[i])*(ys[i]+ys[i+1])/2 for i in range(n-1))
    val*= (1+ (1e-6 if c==77 else 0))
    cases.append(f"([{';'.join(map(q,xs))}],[{';'.join(map(q,ys))}],{q(val)})")
open('c1.v','w').write("""From Coq Require Import QArith Qabs List. Import ListNotations. Open Scope Q_scope.
Fixpoint trapz (x y : list Q) : Q :=
  match x, y with
  | x0 :: ((x1 :: _) as xs), y0 :: ((y1 :: _) as ys) => (x1 - x0) * (y0 + y1) / 2 + trapz xs ys
  | _, _ => 0
  end.
Definition close (a b : Q) := Qle_bool (Qabs (a-b)) ((1#1000000000000) * Qabs a).
Definition cases : list (list Q * list Q * Q) := [
""" + ";\n".join(cases) + """].
Fixpoint bad (i:nat) (l: list (list Q * list Q * Q)) : list nat := match l with [] => [] | (x,y,v)::t => if close (Qred (trapz x y)) v then bad (S i) t else i :: bad (S i) t end.
Eval vm_compute in bad 0 cases.
""")
