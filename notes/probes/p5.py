import numpy as np, math, warnings
warnings.filterwarnings("ignore")
np.trapz = np.trapezoid; np.math = math
import dreye
from dreye import *
def t(name,f):
    try: r=f(); print(name,"OK",r)
    except Exception as e: print(name,"EXC",type(e).__name__,str(e)[:160])
X=np.array([[0.,0,0],[1,0,0],[0,2,0],[0,0,-3],[1,1,1],[-1,2,-2],[0,0,3],[0,1,0.]])
S=cartesian_to_spherical(X); print(S.round(4)); print(np.abs(spherical_to_cartesian(S)-X).max())
X2=np.array([[0.,0],[1,0],[0,-1],[-1,0],[-1,-1e-300]])
S2=cartesian_to_spherical(X2); print(S2); print(np.abs(spherical_to_cartesian(S2)-X2).max())
t("c2s 1d", lambda: cartesian_to_spherical(np.array([1.,2,3])))
# domains
t("eq unsorted", lambda: equalize_domains([np.array([0.,1,2,3,4]), np.array([4.,0,2,1,3])],[np.arange(5.)[None], np.array([4.,0,2,1,3])[None]]))
t("eq half", lambda: equalize_domains([np.array([0.,1,2,3,4,5]), np.array([0.,2.5,5])],[np.arange(6.)[None], np.arange(3.)[None]])[0])
t("eq 1.45", lambda: equalize_domains([np.array([0.,1,2,3]), np.array([0.,2,2.9])],[np.arange(4.)[None], np.arange(3.)[None]])[0])
t("eq disjoint", lambda: equalize_domains([np.array([0.,1]), np.array([2.,3])],[np.arange(2.), np.arange(2.)])[0])
# flux
print(irr2flux(1.0, 500.0), irr2flux(np.ones((2,3)), np.array([400.,500,600]), prefix='micro'))
print(flux2irr(irr2flux(np.array([1.,2,3]), np.array([400.,500,600])), np.array([400.,500,600])))
t("axis", lambda: irr2flux(np.ones((3,2)), np.array([400.,500,600]), axis=0))
t("units", lambda: irr2flux(np.ones(3)*ureg('W/m^2/nm'), np.array([400.,500,600])*ureg('nm')))
# sampling
P=np.array([[0.,0],[1,0],[0,1],[1,1],[.5,.5],[2,.5]])
t("sample", lambda: sample_in_hull(P,4,seed=1))
for e in ['Halton','Sobol','LHC']:
    t("sample "+e, lambda: sample_in_hull(P,5,seed=1,engine=e).shape)
print(compute_mean_width(P,seed=0), compute_volume(P), compute_jensen_shannon_divergence([1,0],[0,1]), compute_jensen_shannon_divergence([1,2],[2,4]))
