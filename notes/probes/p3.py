import numpy as np, math, warnings
warnings.filterwarnings("ignore")
np.trapz = np.trapezoid; np.math = math
import dreye, cvxpy as cp
from dreye.api.optimize.lsq_linear import lsq_linear
rng=np.random.default_rng(3)
mx=0
for t in range(200):
    m=rng.integers(1,6); n=rng.integers(1,9)
    A=rng.uniform(0.5,8,(m,n)); ub=rng.uniform(0.5,10,n); lb=np.zeros(n)
    B=rng.uniform(1,100,(1,m)); w=rng.uniform(.5,2,m)
    try:
        X,Bp=lsq_linear(A,B,lb=lb,ub=ub,W=w,return_pred=True)
    except Exception as e:
        print("exc",type(e).__name__,e); continue
    x=np.clip(X[0],lb,ub); r=w*(A@x-B[0]); g=2*A.T@(w*r)
    gap=np.sum(np.where(g>0,g*(x-lb),-g*(ub-x)))
    f=r@r
    viol=max(np.max(lb-X[0]),np.max(X[0]-ub))
    mx=max(mx,gap)
    if gap>1e-3 or viol>1e-6: print(m,n,"f",f,"gap",gap,"viol",viol)
print("max gap",mx)
