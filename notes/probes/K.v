From Coq Require Import QArith Qabs List Lia Lqa Setoid Morphisms.
Import ListNotations.
Open Scope Q_scope.

Fixpoint dot (u v : list Q) : Q :=
  match u, v with
  | a :: u', b :: v' => a * b + dot u' v'
  | _, _ => 0
  end.
Definition vsub (u v : list Q) := map (fun p => fst p - snd p) (combine u v).
Definition matvec (M : list (list Q)) (x : list Q) := map (fun r => dot r x) M.
Definition sq (v : list Q) := dot v v.
(* f x = | M x - d |^2 *)
Definition f M d x := sq (vsub (matvec M x) d).
(* gradient / 2 : M^T (M x - d), computed column-free: g_i = sum_r M_ri * res_r *)
Fixpoint tmatvec (M : list (list Q)) (r : list Q) (n : nat) : list Q :=
  match M, r with
  | row :: M', a :: r' => map (fun p => a * fst p + snd p) (combine row (tmatvec M' r' n))
  | _, _ => repeat 0 n
  end.

Lemma dot_sub_sq u v : length u = length v ->
  sq u == sq v + 2 * dot v (vsub u v) + sq (vsub u v).
Proof.
  unfold sq, vsub. revert v; induction u as [|a u IH]; intros [|b v] H; simpl in *; try discriminate; try lra.
  assert (H' : length u = length v) by lia. specialize (IH v H'). simpl.
  set (X := dot u u) in *. set (Y := dot v v) in *.
  set (Z := dot v (map _ _)) in *. set (W := dot (map _ _) (map _ _)) in *. 
  rewrite IH. ring.
Qed.

Lemma sq_nonneg v : 0 <= sq v.
Proof. unfold sq. induction v as [|a v IH]; simpl; [lra|]. 
  assert (0 <= a*a) by (destruct (Qlt_le_dec a 0); nra). lra. Qed.

Lemma convex_lower u v : length u = length v -> sq v + 2 * dot v (vsub u v) <= sq u.
Proof. intros H. rewrite (dot_sub_sq u v H). pose proof (sq_nonneg (vsub u v)). lra. Qed.
