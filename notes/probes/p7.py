import numpy as np
from fractions import Fraction as F
from dreye.api.barycentric import barycentric_to_cartesian_transformer as T
for n in range(2,9):
    A=T(n)
    ok=True
    for i in range(n):
        for j in range(n-1):
            if j+1<i: t2=F(j+2,2*(j+1))/ (j+2)**2
            elif j+1==i: t2=F(i+1,2*i)
            else: t2=F(0)
            if abs(A[i,j]**2-float(t2))>1e-12: ok=False; print(n,i,j,A[i,j]**2,float(t2))
    D=((A[:,None,:]-A[None,:,:])**2).sum(-1)
    print(n,ok,np.allclose(D[~np.eye(n,dtype=bool)],1))
