From Coq Require Import Reals QArith Qreals.
From Interval Require Import Tactic.
Open Scope R_scope.
Goal Rabs (atan (sqrt (1 - (3/8)*(3/8)) / (3/8)) - 1186399552664259 / 1125899906842624 * 1.125) <= 1.
Proof. interval. Qed.
Goal Rabs (ln (5/4) / ln 2 - 0.32192809488736235) <= 1/10000000000.
Proof. interval with (i_prec 70). Qed.
Goal forall x, 0 < x -> x = Q2R (3#8) -> Rabs (cos (atan (sqrt (1 - x*x) / x)) - 0.375) <= 1/1000000000.
Proof. intros x _ ->. unfold Q2R; simpl. interval with (i_prec 70). Qed.
