(* Run/Verdict.v — tolerance predicates and the `failing` fold used by every generated
   cases_*.v file.  Everything here is executable; verdicts are evaluated by vm_compute. *)
From Coq Require Import QArith Qabs Qminmax List Bool.
From DV Require Import Base.QVec.
Import ListNotations.
Open Scope Q_scope.

(* |m - i| <= atol + rtol * |m| *)
Definition close (atol rtol m i : Q) : bool :=
  Qle_bool (Qabs (Qred (m - i))) (atol + rtol * Qabs (Qred m)).

Fixpoint vclose (atol rtol : Q) (m i : vec) : bool :=
  match m, i with
  | [], [] => true
  | a :: m', b :: i' => close atol rtol a b && vclose atol rtol m' i'
  | _, _ => false
  end.
Fixpoint mclose (atol rtol : Q) (m i : mat) : bool :=
  match m, i with
  | [], [] => true
  | a :: m', b :: i' => vclose atol rtol a b && mclose atol rtol m' i'
  | _, _ => false
  end.
Fixpoint tclose (atol rtol : Q) (m i : list mat) : bool :=
  match m, i with
  | [], [] => true
  | a :: m', b :: i' => mclose atol rtol a b && tclose atol rtol m' i'
  | _, _ => false
  end.

(* tolerances of DESIGN §9 *)
Definition tol_exact : Q := 1 # 1000000000000.      (* 1e-12 *)
Definition tol_arb   : Q := 1 # 1000000000.         (* 1e-9  *)

(* python exception classes as a small enum *)
Inductive err := ValueError | AssertionError | LinAlgError | UnboundLocalError | TypeErr
               | AttributeError | SolverError | QhullError | OtherError.
Definition err_eqb (a b : err) : bool :=
  match a, b with
  | ValueError, ValueError | AssertionError, AssertionError | LinAlgError, LinAlgError
  | UnboundLocalError, UnboundLocalError | TypeErr, TypeErr | AttributeError, AttributeError
  | SolverError, SolverError | QhullError, QhullError | OtherError, OtherError => true
  | _, _ => false
  end.
Inductive res (A : Type) := Ok (a : A) | Err (e : err).
Arguments Ok {A} a. Arguments Err {A} e.

Definition res_agree {A} (cl : A -> A -> bool) (m i : res A) : bool :=
  match m, i with
  | Ok a, Ok b => cl a b
  | Err e, Err f => err_eqb e f
  | _, _ => false
  end.

(* indices of the cases on which the verdict is false *)
Fixpoint failing_from {C} (v : C -> bool) (i : nat) (cs : list C) : list nat :=
  match cs with
  | [] => []
  | c :: cs' => if v c then failing_from v (S i) cs' else i :: failing_from v (S i) cs'
  end.
Definition failing {C} (v : C -> bool) (cs : list C) : list nat := failing_from v 0 cs.

Definition qle (a b : Q) : bool := Qle_bool a b.
Definition qlt (a b : Q) : bool := negb (Qle_bool b a).
Definition qeqb (a b : Q) : bool := Qeq_bool a b.
Fixpoint all_le (u v : vec) : bool :=
  match u, v with
  | [], [] => true
  | a :: u', b :: v' => qle a b && all_le u' v'
  | _, _ => false
  end.
Definition vred (v : vec) : vec := map Qred v.
Definition mred (m : mat) : mat := map vred m.
