(* Model/Units.v — executable model of dreye/api/units/convert.py (irr2flux, flux2irr).
   Magnitudes only; pint's unit algebra is outside the model (the correspondence check pins
   the registry constants and the unit strings). *)
From Coq Require Import QArith List.
From DV Require Import Base.QVec Run.Verdict.
Import ListNotations.
Open Scope Q_scope.

(* exact SI-2019 constants *)
Definition h_planck : Q := 662607015 # 1000000000000000000000000000000000000000000. (* J s *)
Definition c_light  : Q := 299792458 # 1.                                            (* m/s *)
Definition N_avo    : Q := 602214076000000000000000 # 1.                              (* 1/mol *)
Definition nm       : Q := 1 # 1000000000.                                            (* m *)
Definition hcN : Q := h_planck * c_light * N_avo.

(* SI prefix of the *returned* quantity: value in prefix-units = value * 10^k *)
Inductive prefix := PNone | PMilli | PMicro | PNano.
Definition pscale (p : prefix) : Q :=
  match p with PNone => 1 | PMilli => 1000#1 | PMicro => 1000000#1 | PNano => 1000000000#1 end.

(* one element: irradiance I [W/m^2/nm] at wavelength lam [nm] -> photon flux [prefix E] *)
Definition irr2flux1 (p : prefix) (I lam : Q) : Q := I * (lam * nm) / hcN * pscale p.
Definition flux2irr1 (p : prefix) (E lam : Q) : Q := E * hcN / (lam * nm) * pscale p.

(* a row along the wavelength axis; a length-1 wavelength list broadcasts (numpy scalar) *)
Fixpoint zip_with (f : Q -> Q -> Q) (u v : vec) : vec :=
  match u, v with a :: u', b :: v' => f a b :: zip_with f u' v' | _, _ => [] end.
Definition row_apply (f : Q -> Q -> Q) (row lam : vec) : vec :=
  match lam with
  | [l] => map (fun a => f a l) row
  | _ => zip_with f row lam
  end.
Definition irr2flux (p : prefix) (S : mat) (lam : vec) : mat := map (fun r => row_apply (irr2flux1 p) r lam) S.
Definition flux2irr (p : prefix) (S : mat) (lam : vec) : mat := map (fun r => row_apply (flux2irr1 p) r lam) S.

(* ---- correspondence case: inputs + the implementation's output ---- *)
Record case := { c_flux : bool;            (* false: irr2flux, true: flux2irr *)
                 c_prefix : prefix;
                 c_rows : mat;             (* spectrum, wavelength axis last *)
                 c_lam : vec;
                 c_impl : mat }.
Definition model (c : case) : mat :=
  if c_flux c then flux2irr (c_prefix c) (c_rows c) (c_lam c)
  else irr2flux (c_prefix c) (c_rows c) (c_lam c).
Definition verdict (c : case) : bool := mclose 0 tol_exact (model c) (c_impl c).
