(* Model/Domain.v — executable model of dreye/api/domain.py:equalize_domains,
   utils.arange_with_interval and linear scipy.interpolate.interp1d (fill_value=0). *)
From Coq Require Import QArith Qabs Qminmax Qround List Bool ZArith.
From DV Require Import Base.QVec Run.Verdict Model.Capture.
Import ListNotations.
Open Scope Q_scope.

Fixpoint minl (d : vec) (acc : Q) : Q := match d with [] => acc | a :: d' => minl d' (Qmin acc a) end.
Fixpoint maxl (d : vec) (acc : Q) : Q := match d with [] => acc | a :: d' => maxl d' (Qmax acc a) end.
Definition dmin (d : vec) : Q := match d with [] => 0 | a :: d' => minl d' a end.
Definition dmax (d : vec) : Q := match d with [] => 0 | a :: d' => maxl d' a end.
(* np.mean(np.diff(np.sort(d))) = (max - min) / (len - 1)   (telescoping; proved in DomainP) *)
Definition mean_step (d : vec) : Q := (dmax d - dmin d) / (inject_Z (Z.of_nat (length d)) - 1).

(* np.around: round half to even *)
Definition round_half_even (q : Q) : Z :=
  let n := Qfloor q in
  let fr := q - inject_Z n in
  match Qcompare fr (1#2) with
  | Lt => n
  | Gt => (n + 1)%Z
  | Eq => if Z.even n then n else (n + 1)%Z
  end.

(* np.linspace(lo, hi, num): lo + k * (hi - lo)/(num - 1), k = 0 .. num-1 *)
Definition grid (lo hi : Q) (num : nat) : vec :=
  map (fun k => lo + inject_Z (Z.of_nat k) * ((hi - lo) / (inject_Z (Z.of_nat num) - 1))) (seq 0 num).
(* arange_with_interval *)
Definition grid_num (lo hi step : Q) : nat := Z.to_nat (round_half_even ((hi - lo) / step) + 1).
Definition arange_with_interval (lo hi step : Q) : vec := grid lo hi (grid_num lo hi step).

(* overlap and coarsest mean step of a tuple of domains *)
Fixpoint fold_bounds (ds : list vec) (lo hi st : Q) (first : bool) : Q * Q * Q :=
  match ds with
  | [] => (lo, hi, st)
  | d :: ds' =>
      if first then fold_bounds ds' (dmin d) (dmax d) (Qmax 0 (mean_step d)) false
      else fold_bounds ds' (Qmax lo (dmin d)) (Qmin hi (dmax d)) (Qmax st (mean_step d)) false
  end.
Definition bounds_and_diff (ds : list vec) : Q * Q * Q := fold_bounds ds 0 0 0 true.

(* linear interpolation on ascending knots, 0 outside [first, last] *)
Fixpoint interp_asc (xs ys : vec) (t : Q) : Q :=
  match xs, ys with
  | x0 :: ((x1 :: xs2) as xs'), y0 :: ((y1 :: _) as ys') =>
      if Qle_bool t x1 || (match xs2 with [] => true | _ => false end)
      then y0 + (y1 - y0) * (t - x0) / (x1 - x0)
      else interp_asc xs' ys' t
  | _, _ => 0
  end.
Definition interp1 (xs ys : vec) (t : Q) : Q :=
  if Qle_bool (dmin xs) t && Qle_bool t (dmax xs) then interp_asc xs ys t else 0.

(* scipy sorts unsorted x (and y along with it): insertion sort of the pairs by x *)
Fixpoint ins (p : Q * Q) (l : list (Q * Q)) : list (Q * Q) :=
  match l with
  | [] => [p]
  | r :: l' => if Qle_bool (fst p) (fst r) then p :: l else r :: ins p l'
  end.
Fixpoint isort (l : list (Q * Q)) : list (Q * Q) := match l with [] => [] | p :: l' => ins p (isort l') end.
Definition interp_row (dom row : vec) (newdom : vec) : vec :=
  let ps := isort (combine dom row) in
  map (interp1 (map fst ps) (map snd ps)) newdom.

Fixpoint veq_dec_b (u v : vec) : bool :=
  match u, v with [], [] => true | a :: u', b :: v' => Qeq_bool a b && veq_dec_b u' v' | _, _ => false end.
Definition all_equal_domains (ds : list vec) : bool :=
  match ds with [] => true | d0 :: ds' => forallb (veq_dec_b d0) ds' end.

(* equalize_domains on a tuple of (domain, rows-along-the-domain-axis) *)
Definition equalize (ds : list vec) (arrs : list mat) : res (vec * list mat) :=
  if all_equal_domains ds then Ok (nth 0 ds [], arrs)
  else
    let '(lo, hi, st) := bounds_and_diff ds in
    if Qle_bool hi lo || negb (Qle_bool st (hi - lo)) then Err ValueError
    else
      let nd := arange_with_interval lo hi st in
      Ok (nd, map (fun da => map (fun row => interp_row (fst da) row nd) (snd da)) (combine ds arrs)).

(* ---------- correspondence ---------- *)
Record case := { c_ds : list vec; c_arrs : list mat; c_tol : Q;
                 c_impl : res (vec * list mat) }.
Fixpoint lmclose (tol : Q) (a b : list mat) : bool :=
  match a, b with
  | [], [] => true
  | x :: a', y :: b' => mclose tol tol x y && lmclose tol a' b'
  | _, _ => false
  end.
Definition verdict (c : case) : bool :=
  res_agree (fun m i => vclose (c_tol c) (c_tol c) (fst m) (fst i) && lmclose (c_tol c) (snd m) (snd i))
            (equalize (c_ds c) (c_arrs c)) (c_impl c).

(* ---------- estimator capture with a foreign signal domain (estimator._check_domain) ---------- *)
Record ecase := { e_df : vec; e_F : mat; e_ds : vec; e_S : mat; e_tol : Q; e_impl : res mat }.
Definition est_capture (df : vec) (F : mat) (dsig : vec) (S : mat) : res mat :=
  match equalize [df; dsig] [F; S] with
  | Ok (nd, [F'; S']) => Ok (cap22 (Xs nd) true F' S')
  | Ok _ => Err OtherError
  | Err e => Err e
  end.
Definition everdict (c : ecase) : bool :=
  res_agree (mclose (e_tol c) (e_tol c)) (est_capture (e_df c) (e_F c) (e_ds c) (e_S c)) (e_impl c).
Inductive gcase := GE (c : case) | GC (c : ecase).
Definition gverdict (g : gcase) : bool := match g with GE c => verdict c | GC c => everdict c end.
