(* Model/Project.v — dreye/api/project.py (C17): nearest point of a hull given by facet equations,
   boundary hit along a ray from the origin, slice of a point cloud's hull with the plane sum x = c. *)
From Coq Require Import QArith Qabs Qminmax List Bool Arith.
From DV Require Import Base.QVec Run.Verdict Model.Linear Cert.Duality Cert.Hull.
Import ListNotations.
Open Scope Q_scope.

(* facet equations: rows (n_f, o_f) with  n_f . x + o_f <= 0  inside the hull *)
Definition normals (eqs : mat) : mat := map (fun r => removelast r) eqs.
Definition offsets (eqs : mat) : vec := map (fun r => last r 0) eqs.

(* ---------- 1. nearest point (proj_B_to_hull): weak-duality certificate ---------- *)
Fixpoint ident_row (d i : nat) : vec := match d with O => [] | S d' => (match i with O => 1 | _ => 0 end) :: ident_row d' (pred i) end.
Definition ident (d : nat) : mat := map (fun i => map (fun j => if Nat.eqb i j then 1 else 0) (seq 0 d)) (seq 0 d).
Definition hull_inst (d : nat) (eqs : mat) : inst :=
  {| n := d; ilb := repeat None d; iub := repeat None d; G := normals eqs; h := vscale (-1) (offsets eqs); cones := [] |}.
Definition dist2 (b x : vec) : Q := sq (vsub x b).
Record pcase := { p_d : nat; p_eqs : mat; p_b : vec; p_x : vec;          (* query point, implementation's projection *)
                  p_lam : vec; p_x0 : vec;                                (* certificate: multipliers, tangent point *)
                  p_inside : bool;                                        (* the query point satisfies all facet inequalities *)
                  p_tol : Q; p_tolf : Q }.
Fixpoint all_le_tol (tol : Q) (u v : vec) : bool :=
  match u, v with [], [] => true | a :: u', b :: v' => Qle_bool a (b + tol) && all_le_tol tol u' v' | _, _ => false end.
Definition feasible_tol (eqs : mat) (x : vec) (tol : Q) : bool :=
  all_le_tol tol (matvec (normals eqs) x) (vscale (-1) (offsets eqs)).
Definition pverdict (c : pcase) : bool :=
  let i := hull_inst (p_d c) (p_eqs c) in
  let ce := {| lam := p_lam c; ys := []; ss := [] |} in
  feasible_tol (p_eqs c) (p_x c) (p_tolf c) &&
  (if p_inside c then vclose (p_tolf c) (p_tolf c) (p_b c) (p_x c) else true) &&
  wfb i && cert_ok i ce && Nat.eqb (length (p_x0 c)) (p_d c) && Nat.eqb (length (p_b c)) (p_d c) &&
  match dual_bound i ce (obj_ls (ident (p_d c)) (p_b c) (p_x0 c)) (grad_ls (p_d c) (ident (p_d c)) (p_b c) (p_x0 c)) (p_x0 c) with
  | Some L => Qle_bool (dist2 (p_b c) (p_x c)) (L + p_tol c)
  | None => false
  end.

(* ---------- 2. boundary hit (alpha_for_B_with_P, B_with_P) ---------- *)
(* alpha = min { -o_f / (b . n_f) : that ratio > 0 };  None when no ratio is positive (numpy: nan) *)
Fixpoint alpha_fold (b : vec) (ns : mat) (os : vec) (acc : option Q) : option Q :=
  match ns, os with
  | nf :: ns', o :: os' =>
      let den := dot b nf in
      let acc' := if Qeq_bool den 0 then acc
                  else let r := (- o) / den in
                       if Qle_bool r 0 then acc
                       else match acc with None => Some r | Some a => Some (Qmin a r) end in
      alpha_fold b ns' os' acc'
  | _, _ => acc
  end.
Definition alpha_model (b : vec) (eqs : mat) : option Q := alpha_fold b (normals eqs) (offsets eqs) None.
Record acase := { a_eqs : mat; a_b : vec; a_alpha : option Q; a_scaled : vec; a_tol : Q }.
Definition averdict (c : acase) : bool :=
  match alpha_model (a_b c) (a_eqs c), a_alpha c with
  | Some m, Some i => close (a_tol c) (a_tol c) m i && vclose (a_tol c) (a_tol c) (vscale m (a_b c)) (a_scaled c)
  | None, None => true
  | _, _ => false
  end.

(* ---------- 3. slice with the plane  sum x = c  (proj_P_to_simplex) ---------- *)
Definition line_to_simplex (x1 x2 : vec) (c : Q) : vec :=
  let t := (c - sumQ x1) / sumQ (vsub x2 x1) in vadd x1 (vscale t (vsub x2 x1)).
(* all pairs (p below or on the plane, q above) in itertools.product order *)
Definition below (c : Q) (P : mat) : mat := filter (fun p => Qle_bool (sumQ p) c) P.
Definition above (c : Q) (P : mat) : mat := filter (fun p => negb (Qle_bool (sumQ p) c)) P.
Definition all_pairs_slice (P : mat) (c : Q) : mat :=
  flat_map (fun p => map (fun q => line_to_simplex p q c) (above c P)) (below c P).
Record scase := {
  s_P : mat; s_m : nat; s_c : Q; s_out : mat;        (* cloud, dimension, plane level, returned points *)
  s_exact : bool;                                    (* P.shape[0] <= P.shape[1]: the code uses all pairs itself *)
  s_from : list (nat * nat * Q);                     (* per returned point: indices (i,j) in P and t with point = P_i + t (P_j - P_i) *)
  s_weights : mat;                                   (* per all-pairs point: convex weights over the returned points *)
  s_tol : Q }.
Fixpoint forall2b {X Y} (f : X -> Y -> bool) (a : list X) (b : list Y) : bool :=
  match a, b with [], [] => true | x :: a', y :: b' => f x y && forall2b f a' b' | _, _ => false end.
Definition sverdict (c : scase) : bool :=
  (* every returned point lies on the plane and on a segment between two cloud points *)
  forall2b (fun o ft => let '(i, j, t) := ft in
              close (s_tol c) (s_tol c) (s_c c) (sumQ o) && Qle_bool 0 t && Qle_bool t 1 &&
              Nat.ltb i (length (s_P c)) && Nat.ltb j (length (s_P c)) &&
              vclose (s_tol c) (s_tol c) (vadd (nthV (s_P c) i) (vscale t (vsub (nthV (s_P c) j) (nthV (s_P c) i)))) o)
           (s_out c) (s_from c) &&
  (if s_exact c then mclose (s_tol c) (s_tol c) (all_pairs_slice (s_P c) (s_c c)) (s_out c) else true) &&
  (* every all-pairs crossing point is a convex combination of the returned points *)
  forall2b (fun p w => forallb (fun a => Qle_bool 0 a) w && Qle_bool (Qabs (sumQ w - 1)) (s_tol c) &&
                       Nat.eqb (length w) (length (s_out c)) &&
                       vclose (s_tol c) (s_tol c) p (comb w (s_out c) (s_m c)))
           (all_pairs_slice (s_P c) (s_c c)) (s_weights c).

Inductive gcase := GP (c : pcase) | GA (c : acase) | GS (c : scase).
Definition gverdict (g : gcase) : bool := match g with GP c => pverdict c | GA c => averdict c | GS c => sverdict c end.
