(* Model/Sampling.v — the deterministic part of dreye/api/sampling.py:sample_in_hull (C13):
   given the draws (simplex indices, barycentric weights) the sample is the weighted combination of
   the simplex vertices; selection weights are the simplex volumes |det| / d!. *)
From Coq Require Import QArith Qabs Qminmax List Bool Arith.
From DV Require Import Base.QVec Run.Verdict Model.Linear Cert.Hull Model.Range.
Import ListNotations.
Open Scope Q_scope.

(* sum_j w_j * v_j   (einsum 'ijk,ij->ik' for one sample) *)
Definition sample_of (m : nat) (simplex : mat) (w : vec) : vec := comb w simplex m.
Fixpoint fact (n : nat) : nat := match n with O => 1%nat | S k => (S k * fact k)%nat end.
(* |det(v_0 - v_d, ..., v_{d-1} - v_d)| / d! *)
Definition simplex_vol (simplex : mat) : Q :=
  match rev simplex with
  | [] => 0
  | vd :: restrev => Qabs (det (map (fun v => vsub v vd) (rev restrev))) / inject_Z (Z.of_nat (fact (length restrev)))
  end.

Definition is_row_of (P : mat) (v : vec) : bool := existsb (veq_b v) P.

Record case := {
  c_P : mat; c_m : nat; c_nreq : nat;          (* point cloud, dimension, requested number of samples *)
  c_simplices : list mat; c_vols : vec;        (* hook: Delaunay simplices of the hull vertices, their volumes *)
  c_idx : list nat; c_probs : mat;             (* hook: simplex index and barycentric weights per sample *)
  c_out : mat;                                 (* returned samples *)
  c_hullvol : Q;                               (* volume of the convex hull of the cloud (scipy ConvexHull.volume) *)
  c_tol : Q; c_tolv : Q }.

Fixpoint forall2b {X Y} (f : X -> Y -> bool) (a : list X) (b : list Y) : bool :=
  match a, b with [], [] => true | x :: a', y :: b' => f x y && forall2b f a' b' | _, _ => false end.
Fixpoint forall3b {X Y Z} (f : X -> Y -> Z -> bool) (a : list X) (b : list Y) (c : list Z) : bool :=
  match a, b, c with [], [], [] => true | x :: a', y :: b', z :: c' => f x y z && forall3b f a' b' c' | _, _, _ => false end.

Definition weights_ok (tol : Q) (w : vec) : bool :=
  forallb (fun a => Qle_bool 0 a) w && Qle_bool (Qabs (sumQ w - 1)) tol.
Definition verdict (c : case) : bool :=
  Nat.eqb (length (c_out c)) (c_nreq c) &&
  (* every simplex vertex is one of the given points, every simplex has m+1 vertices *)
  forallb (fun s => Nat.eqb (length s) (S (c_m c)) && forallb (is_row_of (c_P c)) s) (c_simplices c) &&
  (* the simplices tile the hull: their volumes add up to the hull volume *)
  close (c_tolv c) (c_tolv c) (sumQ (map simplex_vol (c_simplices c))) (c_hullvol c) &&
  (* selection weights are the simplex volumes *)
  forall2b (fun s v => close (c_tolv c) (c_tolv c) (simplex_vol s) v) (c_simplices c) (c_vols c) &&
  (* every sample: valid barycentric weights, valid simplex index, sample = weighted combination *)
  forall3b (fun i w o => Nat.ltb i (length (c_simplices c)) && weights_ok (c_tol c) w &&
                         Nat.eqb (length w) (S (c_m c)) &&
                         vclose (c_tol c) (c_tol c) (sample_of (c_m c) (nth i (c_simplices c) []) w) o)
           (c_idx c) (c_probs c) (c_out c).

(* L1 variant of the estimator: every sample has the requested total and a chromaticity in the
   chromatic gamut (cone over the gamut); certificates for a subsample *)
Record lcase := {
  l_A : mat; l_n : nat; l_lb : vec; l_ub : vec; l_K : kmat; l_base : vec;
  l_l1 : Q; l_nreq : nat; l_out : mat;
  l_sub : mat; l_xs : mat;                     (* certified subsample of l_out and its cone certificates *)
  l_tol : Q; l_tolm : Q }.
Definition lverdict (c : lcase) : bool :=
  let A' := transA (l_K c) (l_A c) (l_n c) in let base' := transB (l_K c) (l_base c) in
  Nat.eqb (length (l_out c)) (l_nreq c) &&
  forallb (fun o => close (l_tol c) (l_tol c) (l_l1 c) (sumQ o)) (l_out c) &&
  forallb (is_row_of (l_out c)) (l_sub c) &&
  forall2b (fun o x => check_cone_member A' base' (map Some (l_lb c)) (map Some (l_ub c)) o x (l_tolm c)) (l_sub c) (l_xs c).

Inductive gcase := GS (c : case) | GL (c : lcase).
Definition gverdict (g : gcase) : bool := match g with GS c => verdict c | GL c => lverdict c end.
