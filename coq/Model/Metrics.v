(* Model/Metrics.v — dreye/api/metrics.py (C18): mean width over an explicit direction set, gamut
   metric (ratio of widths of L1-normalised, barycentric-reduced clouds), polygon area / simplex and
   box volumes as exact references for compute_volume. *)
From Coq Require Import QArith Qabs Qminmax List Bool Arith.
From DV Require Import Base.QVec Run.Verdict Model.Bary Model.Range Model.Sampling Model.Scaling.
Import ListNotations.
Open Scope Q_scope.

(* width of the cloud X in direction u:  max_i X_i.u + max_i (-X_i.u) *)
Definition proj (X : mat) (u : vec) : vec := map (fun x => dot x u) X.
Definition width_dir (X : mat) (u : vec) : Q := vmax (proj X u) + vmax (map Qopp (proj X u)).
Definition mean_width_U (X : mat) (U : mat) : Q := sumQ (map (width_dir X) U) / inject_Z (Z.of_nat (length U)).
(* executable twin with reduced intermediate fractions (== mean_width_U, see mean_width_U_fast_eq) *)
Fixpoint sumQr (v : vec) : Q := match v with [] => 0 | a :: v' => Qred (a + sumQr v') end.
Definition width_dir_fast (X : mat) (u : vec) : Q :=
  let p := vred (proj X u) in vmax p + vmax (map Qopp p).
Definition mean_width_U_fast (X : mat) (U : mat) : Q :=
  sumQr (map (fun u => Qred (width_dir_fast X u)) U) / inject_Z (Z.of_nat (length U)).
(* column means and centring (the code centres when center=False) *)
Definition col_mean (X : mat) (m : nat) : vec :=
  map (fun j => sumQ (map (fun x => nthQ x j) X) / inject_Z (Z.of_nat (length X))) (seq 0 m).
Definition centre (X : mat) (m : nat) : mat := map (fun x => vsub x (col_mean X m)) X.
Definition mean_width (X : mat) (m : nat) (center_flag : bool) (U : mat) : Q :=
  mean_width_U (if center_flag then X else centre X m) U.

(* gamut metric: L1-normalise rows (zero rows dropped), reduce with the implementation's simplex matrix A *)
Definition reduce_cloud (A : mat) (n : nat) (center_to_neutral : bool) (X : mat) : mat :=
  map (fun x => b2c A n center_to_neutral (normalize1 x)) (filter (fun x => negb (Qeq_bool (sumQ x) 0)) X).
Definition gamut_width (A : mat) (n : nat) (ctn center_flag : bool) (U : mat) (X : mat) : Q :=
  mean_width (reduce_cloud A n ctn X) (n - 1) center_flag U.

(* shoelace area of a polygon given by its vertices in order *)
Fixpoint shoelace2 (first prev : vec) (rest : mat) : Q :=
  match rest with
  | [] => nthQ prev 0 * nthQ first 1 - nthQ first 0 * nthQ prev 1
  | p :: rest' => (nthQ prev 0 * nthQ p 1 - nthQ p 0 * nthQ prev 1) + shoelace2 first p rest'
  end.
Definition polygon_area (V : mat) : Q := match V with [] => 0 | p :: rest => Qabs (shoelace2 p p rest) / 2 end.

Record case := {
  c_kind : nat;          (* 0 mean width, 1 gamut metric (width, optionally relative), 2 volume of a polygon (hull order given),
                            3 volume of a simplex, 4 volume of an axis-parallel box given by two opposite corners, 5 1-D extent *)
  c_X : mat; c_m : nat; c_center : bool; c_U : mat;
  c_A : mat; c_ctn : bool; c_rel : option mat;     (* gamut metric: simplex matrix of the implementation, relative_to *)
  c_impl : Q; c_tol : Q }.

Definition model (c : case) : Q :=
  match c_kind c with
  | O => mean_width (c_X c) (c_m c) (c_center c) (c_U c)
  | 1%nat => let num := gamut_width (c_A c) (c_m c) (c_ctn c) (c_center c) (c_U c) (c_X c) in
             match c_rel c with
             | None => num
             | Some R => num / gamut_width (c_A c) (c_m c) (c_ctn c) (c_center c) (c_U c) R
             end
  | 2%nat => polygon_area (c_X c)
  | 3%nat => simplex_vol (c_X c)
  | 4%nat => match c_X c with [lo; hi] => Qabs (fold_right Qmult 1 (vsub hi lo)) | _ => 0 end
  | _ => vmax (concat (c_X c)) - vminv (concat (c_X c))
  end.
(* same computation with reduced fractions *)
Definition mean_width_fast (X : mat) (m : nat) (center_flag : bool) (U : mat) : Q :=
  mean_width_U_fast (mred (if center_flag then X else centre X m)) U.
Definition gamut_width_fast (A : mat) (n : nat) (ctn center_flag : bool) (U : mat) (X : mat) : Q :=
  mean_width_fast (mred (reduce_cloud A n ctn X)) (n - 1) center_flag U.
Definition model_fast (c : case) : Q :=
  match c_kind c with
  | O => mean_width_fast (c_X c) (c_m c) (c_center c) (c_U c)
  | 1%nat => let num := gamut_width_fast (c_A c) (c_m c) (c_ctn c) (c_center c) (c_U c) (c_X c) in
             match c_rel c with
             | None => num
             | Some R => num / gamut_width_fast (c_A c) (c_m c) (c_ctn c) (c_center c) (c_U c) R
             end
  | _ => model c
  end.
Definition verdict (c : case) : bool := close (c_tol c) (c_tol c) (model_fast c) (c_impl c).

(* ---- the estimator's fractional gamut in absolute capture (ReceptorEstimator.compute_gamut(relative=False, fraction=True)) ----
   R : captures of the perfect system (one row per wavelength: filter values times integration weights, all >= 0),
   S : spectra of the stimulation system's extreme stimuli (one row per vertex of the intensity box, all >= 0),
   so that the system's capture points are the rows of S R: non-negative combinations of the perfect system's points. *)
Record fcase := { f_S : mat; f_R : mat; f_m : nat; f_U : mat; f_A : mat; f_impl : Q; f_tol : Q }.
Definition f_X (c : fcase) : mat := matmul (f_S c) (f_R c) (f_m c).
Definition nonnegm (M : mat) : bool := forallb (forallb (Qle_bool 0)) M.
Definition fmodel (c : fcase) : Q :=
  gamut_width_fast (f_A c) (f_m c) false true (f_U c) (mred (f_X c)) / gamut_width_fast (f_A c) (f_m c) false true (f_U c) (f_R c).
Definition fverdict (c : fcase) : bool :=
  nonnegm (f_S c) && nonnegm (f_R c) && forallb (fun r => Nat.eqb (length r) (f_m c)) (f_R c) &&
  forallb (fun r => Nat.eqb (length r) (length (f_R c))) (f_S c) &&
  negb (Nat.eqb (length (f_U c)) 0) &&
  close (f_tol c) (f_tol c) (fmodel c) (f_impl c) && qlt 0 (f_impl c) && qle (f_impl c) (1 + f_tol c).
Inductive gcase := GM (c : case) | GF (c : fcase).
Definition gverdict (g : gcase) : bool := match g with GM c => verdict c | GF c => fverdict c end.
