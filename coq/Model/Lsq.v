(* Model/Lsq.v — correspondence verdict of C04 (default bounded weighted least squares).
   The solver is opaque; its result X is judged against the documented objective
   spec_err by a weak-duality certificate (Cert/Duality.v) evaluated at a point x0
   supplied by the (untrusted) harness. *)
From Coq Require Import QArith Qabs Qminmax List Bool.
From DV Require Import Base.QVec Run.Verdict Model.Linear Cert.Duality.
Import ListNotations.
Open Scope Q_scope.

Record case := {
  c_A : mat; c_n : nat;                       (* capture matrix, number of sources *)
  c_lb : list (option Q); c_ub : list (option Q);
  c_K : kmat; c_base : vec; c_w : vec; c_b : vec;   (* adaptation, baseline, weights, target *)
  c_X : vec; c_Bpred : vec;                   (* implementation: intensities, predicted capture *)
  c_x0 : vec; c_s : Q;                        (* certificate: tangent point, s with s^2 <= bound *)
  c_tolc : Q; c_tolb : vec;                   (* accuracy in capture units; per-source bound slack *)
  c_tolp : Q }.

Definition box_inst (c : case) : inst :=
  {| n := c_n c; ilb := c_lb c; iub := c_ub c; G := []; h := []; cones := [] |}.
Definition nocert : cert := {| lam := []; ys := []; ss := [] |}.
Definition fM (c : case) : mat := form_M (c_w c) (transA (c_K c) (c_A c) (c_n c)).
Definition fe (c : case) : vec := form_e (c_w c) (c_b c) (transB (c_K c) (c_base c)).
Definition lower (c : case) : option Q :=
  dual_bound (box_inst c) nocert (obj_ls (fM c) (fe c) (c_x0 c))
             (grad_ls (c_n c) (fM c) (fe c) (c_x0 c)) (c_x0 c).

Fixpoint in_box_tol (x : vec) (lb ub : list (option Q)) (tol : vec) : bool :=
  match x, lb, ub, tol with
  | a :: x', l :: lb', u :: ub', t :: tol' =>
      (match l with Some lq => Qle_bool (lq - t) a | None => true end) &&
      (match u with Some uq => Qle_bool a (uq + t) | None => true end) && in_box_tol x' lb' ub' tol'
  | [], [], [], [] => true
  | _, _, _, _ => false
  end.

Definition shapes_ok (c : case) : bool :=
  let m := length (c_A c) in
  rectnb (c_n c) (c_A c) && Nat.eqb (length (c_base c)) m && Kshape_okb (c_K c) m &&
  Nat.eqb (length (c_w c)) m && Nat.eqb (length (c_b c)) m &&
  Nat.eqb (length (c_X c)) (c_n c) && Nat.eqb (length (c_x0 c)) (c_n c) && wfb (box_inst c).

(* sqrt-free form of  sqrt(f X) <= sqrt(L) + tol:  s >= 0, s^2 <= max(0,L), f X <= (s+tol)^2 *)
Definition opt_ok (c : case) : bool :=
  match lower c with
  | None => false
  | Some L => Qle_bool 0 (c_s c) && Qle_bool (c_s c * c_s c) (Qmax 0 L) &&
              Qle_bool (spec_err (c_K c) (c_A c) (c_base c) (c_w c) (c_b c) (c_X c))
                       ((c_s c + c_tolc c) * (c_s c + c_tolc c))
  end.
Definition pred_ok (c : case) : bool :=
  vclose (c_tolp c) (c_tolp c) (relcap (c_K c) (c_A c) (c_base c) (c_X c)) (c_Bpred c).
Definition bounds_ok (c : case) : bool := in_box_tol (c_X c) (c_lb c) (c_ub c) (c_tolb c).

Definition verdict (c : case) : bool := shapes_ok c && bounds_ok c && pred_ok c && opt_ok c && Qle_bool 0 (c_tolc c).
