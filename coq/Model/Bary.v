(* Model/Bary.v — rational shadow of dreye/api/barycentric.py (C16).
   The simplex matrix has irrational entries; their SQUARES are rational (closed form T2q), the
   implementation's matrix is taken as rational data, checked against T2q, and the affine maps
   built on it are re-computed exactly in Q. *)
From Coq Require Import QArith Qabs List Bool Arith.
From DV Require Import Base.QVec Run.Verdict.
Import ListNotations.
Open Scope Q_scope.

Definition qn (k : nat) : Q := inject_Z (Z.of_nat k).
(* square of entry (i,k) of barycentric_to_cartesian_transformer(n), rows i = 0..n-1, cols k = 0..n-2 *)
Definition T2q (i k : nat) : Q :=
  if Nat.ltb (S k) i then 1 / (2 * qn (k + 1) * qn (k + 2))
  else if Nat.eqb (S k) i then qn (i + 1) / (2 * qn i)
  else 0.
Definition T2mat (n : nat) : mat := map (fun i => map (fun k => T2q i k) (seq 0 (n - 1))) (seq 0 n).

(* sklearn normalize(norm='l1'): x / sum |x_i| (rows with zero norm are left unchanged) *)
Definition l1 (x : vec) : Q := sumQ (map Qabs x).
Definition normalize1 (x : vec) : vec := if Qeq_bool (l1 x) 0 then x else vscale (/ l1 x) x.

(* x @ A  for a row vector x and A : n x (n-1) *)
Definition rowmat (x : vec) (A : mat) (ncol : nat) : vec := tmatvec A x ncol.
Definition center_row (A : mat) (n ncol : nat) : vec := rowmat (repeat (1 / qn n) n) A ncol.
Definition b2c (A : mat) (n : nat) (center : bool) (x : vec) : vec :=
  let y := rowmat x A (n - 1) in if center then vsub y (center_row A n (n - 1)) else y.

Record case := {
  c_n : nat; c_A : mat;                 (* implementation's transformer for n barycentric dims *)
  c_kind : nat;                         (* 0 transformer only, 1 b2c, 2 c2b, 3 dim_reduction *)
  c_center : bool; c_X : mat; c_L1 : vec; c_Y : mat;   (* inputs, optional L1 per row, implementation output *)
  c_tol : Q }.

Definition sqm (A : mat) : mat := map (map (fun a => a * a)) A.
Definition nonneg_m (A : mat) : bool := forallb (forallb (fun a => Qle_bool 0 a)) A.
Definition transformer_ok (c : case) : bool :=
  Nat.leb 2 (c_n c) && mclose (c_tol c) (c_tol c) (T2mat (c_n c)) (sqm (c_A c)) && nonneg_m (c_A c).
(* pairwise squared distances of the implementation's rows are 1 *)
Fixpoint pairs_ok (tol : Q) (rows : mat) : bool :=
  match rows with
  | [] => true
  | r :: rows' => forallb (fun r' => close tol tol 1 (sq (vsub r r'))) rows' && pairs_ok tol rows'
  end.
Fixpoint map3 {X Y Z W} (f : X -> Y -> Z -> W) (a : list X) (b : list Y) (c : list Z) : list W :=
  match a, b, c with x :: a', y :: b', z :: c' => f x y z :: map3 f a' b' c' | _, _, _ => [] end.
Definition verdict (c : case) : bool :=
  transformer_ok c && pairs_ok (c_tol c) (c_A c) &&
  match c_kind c with
  | O => true
  | 1%nat => mclose (c_tol c) (c_tol c) (map (b2c (c_A c) (c_n c) (c_center c)) (c_X c)) (c_Y c)
  | 2%nat =>
      (* c2b: the returned barycentric rows sum to L1 and map back (after dividing by L1) to the input *)
      forallb (fun b => b) (map3 (fun x l y =>
          close (c_tol c) (c_tol c) l (sumQ y) && negb (Qeq_bool l 0) &&
          vclose (c_tol c) (c_tol c) x (b2c (c_A c) (c_n c) (c_center c) (vscale (/ l) y))) (c_X c) (c_L1 c) (c_Y c))
      && Nat.eqb (length (c_X c)) (length (c_Y c)) && Nat.eqb (length (c_X c)) (length (c_L1 c))
  | _ => mclose (c_tol c) (c_tol c) (map (fun x => b2c (c_A c) (c_n c) (c_center c) (normalize1 x)) (c_X c)) (c_Y c)
  end.
