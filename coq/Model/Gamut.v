(* Model/Gamut.v — correspondence verdict of C03 (gamut membership).  The decision procedure
   (qhull / NNLS) is opaque; every answer is judged against the spec `reproducible` through
   certificates (Cert/Hull.v) supplied by the untrusted harness. *)
From Coq Require Import QArith Qabs Qminmax List Bool Lia Lqa.
From DV Require Import Base.QVec Run.Verdict Model.Linear Cert.Hull.
Import ListNotations.
Open Scope Q_scope.

Record case := {
  c_A : mat; c_n : nat; c_lb : list (option Q); c_ub : list (option Q);
  c_K : kmat; c_base : vec;                  (* Ks 1 / zero baseline for absolute capture *)
  c_norm : bool;                             (* chromatic (L1-normalised) membership *)
  c_b : vec; c_answer : bool;                (* target, implementation's answer *)
  c_kind : nat;                              (* 0: image of a strictly interior x; 1: outside by margin; 2: no prior claim *)
  c_x : vec; c_margin : vec;                 (* member certificate; per-source interior margin (kind 0) *)
  c_y : vec; c_mu : Q;                       (* separation certificate *)
  c_tol : Q }.

Definition A' (c : case) : mat := transA (c_K c) (c_A c) (c_n c).
Definition base' (c : case) : vec := transB (c_K c) (c_base c).

Fixpoint strictly_inside (x : vec) (lb ub : list (option Q)) (marg : vec) : bool :=
  match x, lb, ub, marg with
  | a :: x', l :: lb', u :: ub', g :: marg' =>
      qlt 0 g && (match l with Some lq => Qle_bool (lq + g) a | None => true end) &&
      (match u with Some uq => Qle_bool a (uq - g) | None => true end) && strictly_inside x' lb' ub' marg'
  | [], [], [], [] => true
  | _, _, _, _ => false
  end.

Definition member_ok (c : case) (tol : Q) : bool :=
  if c_norm c then check_cone_member (A' c) (base' c) (c_lb c) (c_ub c) (c_b c) (c_x c) tol
  else check_member (A' c) (base' c) (c_lb c) (c_ub c) (c_b c) (c_x c) tol.
Definition sep_ok (c : case) : bool :=
  qlt 0 (c_mu c) && Nat.eqb (length (c_lb c)) (c_n c) &&
  if c_norm c then check_cone_sep (A' c) (base' c) (c_lb c) (c_ub c) (c_n c) (c_b c) (c_y c) (c_mu c)
  else check_sep (A' c) (base' c) (c_lb c) (c_ub c) (c_n c) (c_b c) (c_y c) (c_mu c).

Definition verdict (c : case) : bool :=
  match c_kind c with
  | O => strictly_inside (c_x c) (c_lb c) (c_ub c) (c_margin c) && member_ok c (1 # 1000000000) && c_answer c
  | 1%nat => sep_ok c && negb (c_answer c)
  | _ => if c_answer c then member_ok c (c_tol c) else true
  end.
