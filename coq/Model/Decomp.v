(* Model/Decomp.v — layered (sub-frame) decomposition, lsq_linear_decomposition (C11):
   B ~ P X A'^T + base',  X : layers x sources (bounds, mask, equal total per layer),  P : samples x layers (opacity bounds).
   The two convex sub-problems as instances of Cert/Qp.v; constraints and prediction as the verdict. *)
From Coq Require Import QArith Qabs Qminmax List Bool Arith.
From DV Require Import Base.QVec Run.Verdict Model.Linear Cert.Duality Cert.Qp Cert.QpFast.
Import ListNotations.
Open Scope Q_scope.

Fixpoint zip2 {X Y Z} (f : X -> Y -> Z) (a : list X) (b : list Y) : list Z :=
  match a, b with x :: a', y :: b' => f x y :: zip2 f a' b' | _, _ => [] end.

(* P X  (P : S x L, X : L x n)  and the predicted capture  (P X) A'^T + base' *)
Definition predictD (A' : mat) (base' : vec) (n : nat) (P X : mat) : mat :=
  map (fun r => vadd (matvec A' r) base') (matmul P X n).
(* weighted residual  W o (P X A'^T - Bs)  (Bs = targets with the baseline subtracted), flattened row major *)
Definition residual (A' : mat) (n : nat) (P X W Bs : mat) : vec :=
  concat (zip2 (fun r wb => vmul (fst wb) (vsub (matvec A' r) (snd wb))) (matmul P X n) (combine W Bs)).
Definition loss2 (A' : mat) (n : nat) (P X W Bs : mat) : Q := sq (residual A' n P X W Bs).

(* ---- X-step: variables vec X (row major, L*n); one residual row per (sample i, receptor j):
        W_ij * ( sum_l P_il (A'_j . X_l) - Bs_ij )                                              *)
Definition xstep_M (A' : mat) (P W : mat) : mat :=
  concat (zip2 (fun Pi Wi => zip2 (fun w Aj => concat (map (fun pl => vscale (w * pl) Aj) Pi)) Wi A') P W).
Definition step_e (W Bs : mat) : vec := concat (zip2 vmul W Bs).
(* ---- P-step: variables vec P (row major, S*L); residual row (i,j): W_ij * ( sum_l P_il (A'_j . X_l) - Bs_ij ) *)
Definition pstep_M (A' : mat) (X W : mat) (S L : nat) : mat :=
  concat (map (fun i => map (fun j =>
      vzero (i * L) ++ map (fun Xl => nthQ (nthV W i) j * dot (nthV A' j) Xl) X ++ vzero ((S - 1 - i) * L))
    (seq 0 (length A'))) (seq 0 S)).

(* constraints on X: bounds (masked entries forced to 0), equal totals of consecutive layers *)
Definition xbounds_lo (lb : vec) (mask : mat) : list (option Q) :=
  concat (map (fun mrow => zip2 (fun mk l => if Qeq_bool mk 0 then Some 0 else Some l) mrow lb) mask).
Definition xbounds_hi (ub : vec) (mask : mat) : list (option Q) :=
  concat (map (fun mrow => zip2 (fun mk u => if Qeq_bool mk 0 then Some 0 else Some u) mrow ub) mask).
Definition l1_rows (L n : nat) : list (vec * Q) :=
  flat_map (fun l =>
     let r := vzero (l * n) ++ repeat 1 n ++ repeat (-1) n ++ vzero ((L - 2 - l) * n) in
     [(r, 0); (vscale (-1) r, 0)]) (seq 0 (L - 1)).
Definition xstep_inst (L n : nat) (lb ub : vec) (mask : mat) (equal_l1 : bool) : inst :=
  let rows := if equal_l1 then l1_rows L n else [] in
  {| Duality.n := L * n; ilb := xbounds_lo lb mask; iub := xbounds_hi ub mask; G := map fst rows; h := map snd rows; cones := [] |}.
Definition pstep_inst (S L : nat) (lbp ubp : Q) : inst :=
  {| Duality.n := S * L; ilb := repeat (Some lbp) (S * L); iub := repeat (Some ubp) (S * L); G := []; h := []; cones := [] |}.

Record dcase := {
  d_K : kmat; d_A : mat; d_n : nat; d_lb : vec; d_ub : vec; d_base : vec;
  d_B : mat; d_W : mat; d_mask : mat; d_equal : bool; d_lbp : Q; d_ubp : Q;
  d_X : mat; d_P : mat; d_Bpred : mat;                  (* implementation *)
  d_last_is_X : bool;                                   (* the factor fitted last: X (no subsampling) or P (after subsampling) *)
  d_x0 : vec; d_cert : cert;                            (* optimality certificate of that last sub-problem: a reference point (untrusted) and multipliers *)
  d_losses : vec;                                       (* hook: loss after every alternating iteration *)
  d_tol : Q; d_tol_obj : Q; d_tol_loss : Q }.
Fixpoint nonincreasing (tol : Q) (v : vec) : bool :=
  match v with a :: ((b :: _) as v') => Qle_bool b (a + tol) && nonincreasing tol v' | _ => true end.
Definition d_A' (c : dcase) : mat := transA (d_K c) (d_A c) (d_n c).
Definition d_base' (c : dcase) : vec := transB (d_K c) (d_base c).
Definition d_Bs (c : dcase) : mat := map (fun b => vsub b (d_base' c)) (d_B c).
Definition d_xinst (c : dcase) : inst := xstep_inst (length (d_X c)) (d_n c) (d_lb c) (d_ub c) (d_mask c) (d_equal c).
Definition d_pinst (c : dcase) : inst := pstep_inst (length (d_P c)) (length (d_X c)) (d_lbp c) (d_ubp c).
Definition d_xcase (c : dcase) : lcase :=
  {| l_inst := d_xinst c; l_M := xstep_M (d_A' c) (d_P c) (d_W c); l_e := step_e (d_W c) (d_Bs c);
     l_x := concat (d_X c); l_x0 := d_x0 c; l_cert := d_cert c; l_eps := d_tol_obj c; l_tolb := d_tol c; l_tol := d_tol c |}.
Definition d_pcase (c : dcase) : lcase :=
  {| l_inst := d_pinst c; l_M := pstep_M (d_A' c) (d_X c) (d_W c) (length (d_P c)) (length (d_X c)); l_e := step_e (d_W c) (d_Bs c);
     l_x := concat (d_P c); l_x0 := d_x0 c; l_cert := d_cert c; l_eps := d_tol_obj c; l_tolb := d_tol c; l_tol := d_tol c |}.
(* shapes as a boolean: A' m x n, X L x n, P S x L, W and Bs S x m, mask L x n *)
Definition shapesb (c : dcase) : bool :=
  let m := length (d_A' c) in
  rectnb (d_n c) (d_A' c) && rectnb (d_n c) (d_X c) && rectnb (length (d_X c)) (d_P c) &&
  Nat.eqb (length (d_W c)) (length (d_P c)) && Nat.eqb (length (d_Bs c)) (length (d_P c)) &&
  rectnb m (d_W c) && rectnb m (d_Bs c) &&
  Nat.eqb (length (d_mask c)) (length (d_X c)) && rectnb (d_n c) (d_mask c) &&
  Nat.eqb (length (d_lb c)) (d_n c) && Nat.eqb (length (d_ub c)) (d_n c).
Definition lastQ (v : vec) : Q := last v 0.
Definition dverdict (c : dcase) : bool :=
  shapesb c &&
  (* every constraint on X and P *)
  feasible_tol (d_xinst c) (d_tol c) (d_tol c) (concat (d_X c)) && feasible_tol (d_pinst c) (d_tol c) (d_tol c) (concat (d_P c)) &&
  (* returned capture is the model's capture of opacities times intensities *)
  mclose (1 # 100000000) (1 # 100000000) (predictD (d_A' c) (d_base' c) (d_n c) (d_P c) (d_X c)) (d_Bpred c) &&
  (* the alternating optimisation never increased the fitting error (hook: loss after every half-step) ... *)
  forallb (Qle_bool 0) (d_losses c) && Qle_bool 0 (d_tol_loss c) && nonincreasing (d_tol_loss c) (d_losses c) &&
  (* ... including the final refit of X (without subsampling the returned pair is what that refit produced) *)
  (if d_last_is_X c then match d_losses c with [] => true | _ =>
      Qle_bool (obj_ls_r (l_M (d_xcase c)) (l_e (d_xcase c)) (l_x (d_xcase c))) ((lastQ (d_losses c) + d_tol_loss c) * (lastQ (d_losses c) + d_tol_loss c)) end
   else true) &&
  (* the factor fitted last is globally optimal given the other *)
  (if d_last_is_X c then lverdict (d_xcase c) else lverdict (d_pcase c)).
