(* Model/Range.v — executable model of dreye/api/convex.py:_range_of_solutions (enumeration of
   basic solutions) over Q, and certificate checkers for the exact per-source extents (C06). *)
From Coq Require Import QArith Qabs Qminmax List Bool Arith Lia.
From DV Require Import Base.QVec Run.Verdict Model.Linear Cert.Hull Cert.Duality Model.Lsq Model.Gauss.
Import ListNotations.
Open Scope Q_scope.

(* itertools.combinations(range(n), k) in lexicographic order *)
Fixpoint combs (k : nat) (l : list nat) : list (list nat) :=
  match k with
  | O => [[]]
  | S k' => match l with
            | [] => []
            | a :: l' => map (cons a) (combs k' l') ++ combs k l'
            end
  end.
(* itertools.product([0,1], repeat=k): false = lower bound, true = upper bound *)
Fixpoint patterns (k : nat) : list (list bool) :=
  match k with O => [[]] | S k' => map (cons false) (patterns k') ++ map (cons true) (patterns k') end.

Fixpoint remove_nth {A} (j : nat) (l : list A) : list A :=
  match l, j with [], _ => [] | _ :: l', O => l' | a :: l', S j' => a :: remove_nth j' l' end.
(* determinant by Laplace expansion along the first row (fuel = size) *)
Fixpoint altsum (f : nat -> Q -> Q) (j : nat) (r : vec) : Q :=
  match r with [] => 0 | a :: r' => f j a - altsum f (S j) r' end.
Fixpoint detf (fuel : nat) (M : mat) : Q :=
  match fuel with
  | O => 1
  | S fuel' => match M with
               | [] => 1
               | r :: M' => Qred (altsum (fun j a => a * detf fuel' (map (remove_nth j) M')) 0 r)
               end
  end.
Definition det (M : mat) : Q := detf (length M) M.
Fixpoint set_nth (j : nat) (a : Q) (l : vec) : vec :=
  match l, j with [], _ => [] | _ :: l', O => a :: l' | b :: l', S j' => b :: set_nth j' a l' end.
Definition replace_col (M : mat) (j : nat) (v : vec) : mat := map2v (fun a r => set_nth j a r) v M.
(* Cramer's rule; None when the matrix is singular (kept for Sampling/Volume; the range model solves by elimination, Model/Gauss.v) *)
Definition solveQ (M : mat) (rhs : vec) : option vec :=
  let d := det M in
  if Qeq_bool d 0 then None
  else Some (map (fun j => Qred (det (replace_col M j rhs) / d)) (seq 0 (length M))).

Definition select {A} (idx : list nat) (l : list A) (d : A) : list A := map (fun i => nth i l d) idx.
Definition complement (n : nat) (idx : list nat) : list nat :=
  filter (fun i => negb (existsb (Nat.eqb i) idx)) (seq 0 n).
Definition cols (A : mat) (idx : list nat) : mat := map (fun r => select idx r 0) A.

Fixpoint map2 {X Y Z} (f : X -> Y -> Z) (l : list X) (l' : list Y) : list Z :=
  match l, l' with a :: t, c :: t' => f a c :: map2 f t t' | _, _ => [] end.
Fixpoint veq_b (u v : vec) : bool :=
  match u, v with [], [] => true | a :: u', c :: v' => Qeq_bool a c && veq_b u' v' | _, _ => false end.
(* value attached to key i in the association (keys, vals) *)
Fixpoint assoc (i : nat) (keys : list nat) (vals : vec) : option Q :=
  match keys, vals with
  | k :: keys', v :: vals' => if Nat.eqb i k then Some v else assoc i keys' vals'
  | _, _ => None
  end.
(* fixed values at positions `idx`, solved values at the complementary positions `rest` *)
Definition assemble (n : nat) (idx : list nat) (fixedv : vec) (rest : list nat) (solv : vec) : vec :=
  map (fun i => match assoc i idx fixedv with
                | Some v => v
                | None => match assoc i rest solv with Some v => v | None => 0 end
                end) (seq 0 n).

(* one candidate: sources `idx` fixed at the bounds given by `pat`, the others solved for *)
Definition candidate (A : mat) (b lb ub : vec) (n : nat) (idx : list nat) (pat : list bool) : res (option vec) :=
  let fixedv := map2 (fun i (p : bool) => if p then nthQ ub i else nthQ lb i) idx pat in
  let rest := complement n idx in
  let rhs := vred (vsub b (matvec (cols A idx) fixedv)) in
  match solve_ge (cols A rest) rhs with
  | None => Ok None          (* singular sub-system: not a basis, skipped (fix 938ae05; LinAlgError before) *)
  | Some sol =>
      let x := assemble n idx fixedv rest sol in
      (* exact acceptance test of the code (no tolerance) on the solved part; the guard
         A x == b is always true when the solve is right and makes the theorems independent of it; likewise
         in_boxb x lb ub only adds lb <= ub for the sources fixed at a bound *)
      if in_boxb sol (select rest lb 0) (select rest ub 0) && veq_b (matvec A x) b && in_boxb x lb ub
      then Ok (Some x) else Ok None
  end.

(* all candidates, in the code's order; the first singular sub-system aborts (LinAlgError) *)
Fixpoint collect (cs : list (res (option vec))) : res (list vec) :=
  match cs with
  | [] => Ok []
  | Err e :: _ => Err e
  | Ok None :: cs' => collect cs'
  | Ok (Some x) :: cs' => match collect cs' with Ok l => Ok (x :: l) | Err e => Err e end
  end.
Definition candidates (A : mat) (b lb ub : vec) (n : nat) : res (list vec) :=
  let m := length A in
  collect (flat_map (fun idx => map (candidate A b lb ub n idx) (patterns (n - m))) (combs (n - m) (seq 0 n))).

(* some m = length A columns of A are linearly independent: decided by elimination on every m-subset of the columns *)
Definition has_basis_b (A : mat) (n : nat) : bool :=
  let m := length A in
  existsb (fun S => match solve_ge (cols A S) (vzero m) with Some _ => true | None => false end) (combs m (seq 0 n)).

(* running minimum / maximum, started at ub / lb as in the code *)
Fixpoint vmin2 (u v : vec) : vec := match u, v with a :: u', b :: v' => Qmin a b :: vmin2 u' v' | _, _ => [] end.
Fixpoint vmax2 (u v : vec) : vec := match u, v with a :: u', b :: v' => Qmax a b :: vmax2 u' v' | _, _ => [] end.
Definition range_model (A : mat) (b lb ub : vec) (n : nat) : res (vec * vec) :=
  match candidates A b lb ub n with
  | Err e => Err e
  | Ok cands => Ok (fold_left vmin2 cands ub, fold_left vmax2 cands lb)
  end.

(* the solution polytope *)
Definition sol_set (A : mat) (b lb ub : vec) (x : vec) : Prop := in_box x lb ub /\ veq (matvec A x) b.

(* ---------- certificates for the exact extents (weak LP duality) ---------- *)
Definition unitv (n k : nat) : vec := map (fun i => if Nat.eqb i k then 1 else 0) (seq 0 n).
(* for every solution x:  boxmin(e_k + A^T y) - y.b  <=  x_k  <=  - (boxmin(- e_k + A^T y') - y'.b) *)
Definition extent_lower (A : mat) (b lb ub : vec) (n k : nat) (y : vec) : Q :=
  boxmin (vadd (unitv n k) (tmatvec A y n)) lb ub - dot y b.
Definition extent_upper (A : mat) (b lb ub : vec) (n k : nat) (y : vec) : Q :=
  - (boxmin (vadd (vscale (-1) (unitv n k)) (tmatvec A y n)) lb ub - dot y b).

(* ---------- correspondence ---------- *)
Record case := {
  c_A : mat; c_n : nat; c_lb : vec; c_ub : vec; c_K : kmat; c_base : vec; c_b : vec;
  c_impl : res (vec * vec);               (* (Xmin, Xmax) or the raised error *)
  c_fullrank : bool;                      (* the harness claims that the transformed capture matrix has full row rank (checked below, not trusted) *)
  c_spaced : mat;                         (* spaced solutions returned on request ([] if none) *)
  c_ylo : mat; c_yhi : mat;               (* extent certificates, one multiplier vector per source *)
  c_expect : nat;                         (* 0: in gamut (ranges expected); 1: certified outside, error='raise';
                                             2: certified outside, error='ignore' (best fit as both ends) *)
  c_sep : vec; c_mu : Q;                  (* separation certificate for c_expect = 1, 2 *)
  c_x0 : vec; c_s : Q;                    (* c_expect = 2: least-squares certificate point and s with s^2 <= optimum *)
  c_tol : Q; c_tols : Q }.

Definition A' (c : case) : mat := transA (c_K c) (c_A c) (c_n c).
Definition b' (c : case) : vec := vsub (c_b c) (transB (c_K c) (c_base c)).

Fixpoint extents_ok (c : case) (k : nat) (mins maxs : vec) (ylo yhi : mat) : bool :=
  match mins, maxs, ylo, yhi with
  | [], [], [], [] => true
  | mn :: mins', mx :: maxs', yl :: ylo', yh :: yhi' =>
      Nat.eqb (length yl) (length (c_A c)) && Nat.eqb (length yh) (length (c_A c)) &&
      Qle_bool (mn - c_tol c) (extent_lower (A' c) (b' c) (c_lb c) (c_ub c) (c_n c) k yl) &&
      Qle_bool (extent_upper (A' c) (b' c) (c_lb c) (c_ub c) (c_n c) k yh) (mx + c_tol c) &&
      extents_ok c (S k) mins' maxs' ylo' yhi'
  | _, _, _, _ => false
  end.
Definition somesv (v : vec) : list (option Q) := map Some v.
Definition spaced_ok (c : case) : bool :=
  forallb (fun x => in_boxob (c_tols c) x (somesv (c_lb c)) (somesv (c_ub c)) &&
                    vclose_abs (c_tols c) (matvec (A' c) x) (b' c)) (c_spaced c).
Definition outside_ok (c : case) : bool :=
  qlt 0 (c_mu c) && check_sep (A' c) (vzero (length (c_A c))) (somesv (c_lb c)) (somesv (c_ub c)) (c_n c) (b' c) (c_sep c) (c_mu c).

(* the best fit returned for an out-of-gamut target, judged by the C04 certificate (unit weights) *)
Definition fit_case (c : case) (x : vec) : Lsq.case :=
  {| Lsq.c_A := c_A c; Lsq.c_n := c_n c; Lsq.c_lb := somesv (c_lb c); Lsq.c_ub := somesv (c_ub c);
     Lsq.c_K := c_K c; Lsq.c_base := c_base c; Lsq.c_w := repeat 1 (length (c_A c)); Lsq.c_b := c_b c;
     Lsq.c_X := x; Lsq.c_Bpred := relcap (c_K c) (c_A c) (c_base c) x;
     Lsq.c_x0 := c_x0 c; Lsq.c_s := c_s c; Lsq.c_tolc := 2 # 100;
     Lsq.c_tolb := map (fun lu => (fst lu - snd lu) * (1 # 100)) (combine (c_ub c) (c_lb c)); Lsq.c_tolp := 1 # 1000000000 |}.
Definition verdict (c : case) : bool :=
  match c_expect c with
  | O =>
      match c_impl c, range_model (A' c) (b' c) (c_lb c) (c_ub c) (c_n c) with
      | Ok (mins, maxs), Ok (mmins, mmaxs) =>
          vclose (c_tol c) (c_tol c) mmins mins && vclose (c_tol c) (c_tol c) mmaxs maxs &&
          all_le mins maxs && in_boxob (c_tol c) mins (somesv (c_lb c)) (somesv (c_ub c)) &&
          in_boxob (c_tol c) maxs (somesv (c_lb c)) (somesv (c_ub c)) &&
          extents_ok c 0 mins maxs (c_ylo c) (c_yhi c) && spaced_ok c &&
          (* full row rank, as claimed: then range_is_exact applies to this very case (Proofs/BasisCheckP.v: verdict_exact) *)
          (negb (c_fullrank c) || has_basis_b (A' c) (c_n c))
      | Err e, Err e' => err_eqb e e'
      | _, _ => false
      end
  | 1%nat => outside_ok c && match c_impl c with Err ValueError => true | _ => false end
  | _ => outside_ok c &&
         match c_impl c with
         | Ok (mins, maxs) => vclose (c_tol c) (c_tol c) mins maxs && Lsq.verdict (fit_case c mins)
         | Err _ => false
         end
  end.
