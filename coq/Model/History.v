(* Model/History.v — ReceptorEstimator as a state machine over its REGISTERED values (C14).
   No cache field exists to model: every query is a function of the registered values. *)
From Coq Require Import QArith Qabs List Bool Arith.
From DV Require Import Base.QVec Run.Verdict Model.Capture Model.Linear Model.Estimator.
Import ListNotations.
Open Scope Q_scope.

Record sysr := { y_S : mat; y_lb : list (option Q); y_ub : list (option Q); y_A : mat }.
Record st := { s_K : kmat; s_base : vec; s_sys : option sysr; s_tgt : option (mat * mat) }.

(* numpy broadcasting of a length-1 vector to m entries *)
Definition bcast (m : nat) (v : vec) : vec := match v with [a] => repeat a m | _ => v end.
(* ensure_bounds: None -> default (0 / +inf); a number broadcasts *)
Inductive barg := BNone | BNum (q : option Q) | BVec (v : list (option Q)).
Definition resolve_bound (b : barg) (dflt : option Q) (n : nat) : list (option Q) :=
  match b with BNone => repeat dflt n | BNum q => repeat q n | BVec v => v end.

Inductive op :=
| RegSystem (Src : mat) (lb ub : barg)
| RegBounds (lb ub : barg)
| RegAdapt (K : kmat)
| RegBaseline (b : vec)
| RegBackground (bg : vec) (add_baseline add : bool)
| RegSysAdapt (x : vec) (add_baseline add : bool)
| RegTargets (B W : mat)
| FitInternal (Bpred : mat)          (* fit() with B=None: the solver's prediction replaces the stored targets *)
| Query.                             (* any read-only query *)

Section Machine.
  Variable dom : domain.
  Variable F : mat.                  (* filters: fixed at construction *)
  Let m := length F.

  Definition step (s : st) (o : op) : st :=
    match o with
    | RegSystem Src lb ub =>
        let n := length Src in
        {| s_K := s_K s; s_base := s_base s; s_tgt := s_tgt s;
           s_sys := Some {| y_S := Src; y_lb := resolve_bound lb (Some 0) n; y_ub := resolve_bound ub None n;
                            y_A := sysA dom F Src |} |}
    | RegBounds lb ub =>
        match s_sys s with
        | None => s                                     (* the real object asserts; histories never do this *)
        | Some y =>
            let n := length (y_S y) in
            {| s_K := s_K s; s_base := s_base s; s_tgt := s_tgt s;
               s_sys := Some {| y_S := y_S y; y_A := y_A y;
                                y_lb := match lb with BNone => y_lb y | _ => resolve_bound lb (Some 0) n end;
                                y_ub := match ub with BNone => y_ub y | _ => resolve_bound ub None n end |} |}
        end
    | RegAdapt K => {| s_K := K; s_base := s_base s; s_sys := s_sys s; s_tgt := s_tgt s |}
    | RegBaseline b => {| s_K := s_K s; s_base := bcast m b; s_sys := s_sys s; s_tgt := s_tgt s |}
    | RegBackground bg addb add =>
        {| s_K := register_adapt (s_K s) (capture_all dom F bg) (s_base s) addb add;
           s_base := s_base s; s_sys := s_sys s; s_tgt := s_tgt s |}
    | RegSysAdapt x addb add =>
        match s_sys s with
        | None => s
        | Some y => {| s_K := register_adapt (s_K s) (system_capture (y_A y) x) (s_base s) addb add;
                       s_base := s_base s; s_sys := s_sys s; s_tgt := s_tgt s |}
        end
    | RegTargets B W => {| s_K := s_K s; s_base := s_base s; s_sys := s_sys s; s_tgt := Some (B, W) |}
    | FitInternal Bpred =>
        match s_tgt s with
        | None => s
        | Some (_, W) => {| s_K := s_K s; s_base := s_base s; s_sys := s_sys s; s_tgt := Some (Bpred, W) |}
        end
    | Query => s
    end.
  Definition run (s : st) (h : list op) : st := fold_left step h s.
  (* all intermediate states, one per operation *)
  Fixpoint trace (s : st) (h : list op) : list st :=
    match h with [] => [] | o :: h' => let s' := step s o in s' :: trace s' h' end.

  (* read-only probes answered from the state alone *)
  Definition q_relcap (s : st) (sig : vec) : vec := rel (s_K s) (s_base s) (capture_all dom F sig).
  Definition q_sysrel (s : st) (x : vec) : vec :=
    match s_sys s with Some y => rel (s_K s) (s_base s) (system_capture (y_A y) x) | None => [] end.
End Machine.

(* ---------- correspondence: one record per step of a history run on the real object ---------- *)
Record obs := {
  o_K : mat;                 (* np.atleast_2d(est.K) *)
  o_base : vec;              (* est.baseline broadcast to the receptor count *)
  o_A : mat; o_lb : list (option Q); o_ub : list (option Q);   (* [] / [] / [] when no system is registered *)
  o_B : mat; o_W : mat;      (* est.B and est.W (2-D) when targets are registered, else [] *)
  o_relcap : vec;            (* relative_capture(probe signal) *)
  o_sysrel : vec }.          (* system_relative_capture(probe intensities), [] without a system *)
Record case := { c_dom : domain; c_F : mat; c_K0 : kmat; c_base0 : vec;
                 c_hist : list op; c_probe_sig : vec; c_probe_x : mat;   (* one probe intensity vector per step *)
                 c_obs : list obs; c_tol : Q }.

Definition K_as_mat (K : kmat) (m : nat) : mat :=
  match K with Ks k => [[k]] | Kv k => [k] | Km k => k end.
Fixpoint obnd_close (a b : list (option Q)) : bool :=
  match a, b with
  | [], [] => true
  | None :: a', None :: b' => obnd_close a' b'
  | Some x :: a', Some y :: b' => Qeq_bool x y && obnd_close a' b'
  | _, _ => false
  end.
Definition obs_ok (dom : domain) (F : mat) (tol : Q) (sig x : vec) (s : st) (o : obs) : bool :=
  let cl := mclose tol tol in
  (* K is compared up to numpy broadcasting: a scalar K may be stored as a length-1 array *)
  (cl (K_as_mat (s_K s) (length F)) (o_K o) ||
   match s_K s with Ks k => cl [repeat k (length F)] (o_K o) | _ => false end) &&
  vclose tol tol (s_base s) (o_base o) &&
  match s_sys s with
  | None => match o_A o with [] => true | _ => false end
  | Some y => cl (y_A y) (o_A o) && obnd_close (y_lb y) (o_lb o) && obnd_close (y_ub y) (o_ub o) &&
              vclose tol tol (q_sysrel s x) (o_sysrel o)
  end &&
  match s_tgt s with
  | None => match o_B o with [] => true | _ => false end
  | Some (B, W) => cl B (o_B o) && cl W (o_W o)
  end &&
  vclose tol tol (q_relcap dom F s sig) (o_relcap o).
Fixpoint all3 (f : st -> obs -> vec -> bool) (ss : list st) (os : list obs) (xs : mat) : bool :=
  match ss, os, xs with
  | [], [], [] => true
  | s :: ss', o :: os', x :: xs' => f s o x && all3 f ss' os' xs'
  | _, _, _ => false
  end.
Definition verdict (c : case) : bool :=
  let s0 := {| s_K := c_K0 c; s_base := bcast (length (c_F c)) (c_base0 c); s_sys := None; s_tgt := None |} in
  all3 (fun s o x => obs_ok (c_dom c) (c_F c) (c_tol c) (c_probe_sig c) x s o)
       (trace (c_dom c) (c_F c) s0 (c_hist c)) (c_obs c) (c_probe_x c).
