(* Model/C16.v — sum of the two correspondence case types of C16 *)
From DV Require Import Base.QVec Run.Verdict Model.Bary Model.Sphere.
Inductive gcase := GB (c : Bary.case) | GS (c : Sphere.case).
Definition gverdict (g : gcase) : bool := match g with GB c => Bary.verdict c | GS c => Sphere.verdict c end.
