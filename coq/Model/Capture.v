(* Model/Capture.v — executable model of dreye/api/capture.py:calculate_capture and
   dreye/api/utils.py:integral.  Definitions only (proofs in Proofs/CaptureP.v). *)
From Coq Require Import QArith List.
From DV Require Import Base.QVec Run.Verdict.
Import ListNotations.
Open Scope Q_scope.

(* np.trapz(y, x=xs): sum_k (x_{k+1}-x_k) (y_k + y_{k+1}) / 2 *)
Fixpoint trapz_x (xs ys : vec) : Q :=
  match xs, ys with
  | x0 :: ((x1 :: _) as xs'), y0 :: ((y1 :: _) as ys') =>
      (x1 - x0) * (y0 + y1) / 2 + trapz_x xs' ys'
  | _, _ => 0
  end.
(* np.trapz(y, dx=dx) *)
Fixpoint trapz_dx (dx : Q) (ys : vec) : Q :=
  match ys with
  | y0 :: ((y1 :: _) as ys') => dx * (y0 + y1) / 2 + trapz_dx dx ys'
  | _ => 0
  end.
(* np.sum(y * dx) *)
Definition rect_sum (dx : Q) (ys : vec) : Q := sumQ (map (fun y => y * dx) ys).

(* the grid 0, dx, 2dx, ... *)
Fixpoint grid_from (x0 dx : Q) (n : nat) : vec :=
  match n with O => [] | S n' => x0 :: grid_from (x0 + dx) dx n' end.

Inductive domain := Dx (dx : Q) | Xs (xs : vec).

Definition integ (d : domain) (trapz : bool) (ys : vec) : Q :=
  match d with
  | Dx dx => if trapz then trapz_dx dx ys else rect_sum dx ys
  | Xs xs => trapz_x xs ys
  end.

(* numpy arrays of rank 0..3 *)
Inductive arr := A0 (q : Q) | A1 (v : vec) | A2 (m : mat) | A3 (t : list mat).

(* capture of one signal by one filter *)
Definition cap11 d tz (f s : vec) : Q := integ d tz (vmul f s).
(* 2-D x 2-D: result[i][j] = signal i with filter j *)
Definition cap22 d tz (F S : mat) : mat := map (fun s => map (fun f => cap11 d tz f s) F) S.

Fixpoint map2 {A B C} (f : A -> B -> C) (l : list A) (l' : list B) : list C :=
  match l, l' with a :: t, b :: t' => f a b :: map2 f t t' | _, _ => [] end.

(* filters[..., None, :, :] * signals[..., :, None, :] with numpy broadcasting of the
   leading batch axis (sizes must agree or be 1) *)
Definition capture (d : domain) (tz : bool) (F S : arr) : res arr :=
  match F, S with
  | A1 f, A1 s => Ok (A0 (cap11 d tz f s))
  | A2 Fm, A1 s => Ok (A1 (map (fun f => cap11 d tz f s) Fm))
  | A1 f, A2 Sm => Ok (A1 (map (fun s => cap11 d tz f s) Sm))
  | A2 Fm, A2 Sm => Ok (A2 (cap22 d tz Fm Sm))
  | A3 Fb, A2 Sm => Ok (A3 (map (fun Fm => cap22 d tz Fm Sm) Fb))
  | A2 Fm, A3 Sb => Ok (A3 (map (fun Sm => cap22 d tz Fm Sm) Sb))
  | A3 Fb, A3 Sb =>
      if Nat.eqb (length Fb) (length Sb) then Ok (A3 (map2 (cap22 d tz) Fb Sb))
      else match Fb, Sb with
           | [Fm], _ => Ok (A3 (map (fun Sm => cap22 d tz Fm Sm) Sb))
           | _, [Sm] => Ok (A3 (map (fun Fm => cap22 d tz Fm Sm) Fb))
           | _, _ => Err ValueError
           end
  (* one operand 1-D: no axis insertion, plain broadcasting over the last axis *)
  | A3 Fb, A1 s => Ok (A2 (map (fun Fm => map (fun f => cap11 d tz f s) Fm) Fb))
  | A1 f, A3 Sb => Ok (A2 (map (fun Sm => map (fun s => cap11 d tz f s) Sm) Sb))
  | _, _ => Err OtherError
  end.

(* utils.integral along the last axis (axis=-1) or the first (axis=0) of a 1-D/2-D array *)
Definition column (M : mat) (j : nat) : vec := map (fun r => nthQ r j) M.
Definition ncols (M : mat) : nat := match M with [] => O | r :: _ => length r end.
Definition cols_integ (d : domain) (M : mat) : vec := map (fun j => integ d true (column M j)) (seq 0 (ncols M)).
(* axis counted from the front: 0 .. rank-1 *)
Definition integral (d : domain) (a : arr) (axis : nat) : res arr :=
  match a, axis with
  | A1 v, O => Ok (A0 (integ d true v))
  | A2 M, 1%nat => Ok (A1 (map (integ d true) M))
  | A2 M, O => Ok (A1 (cols_integ d M))
  | A3 T, 2%nat => Ok (A2 (map (map (integ d true)) T))
  | A3 T, 1%nat => Ok (A2 (map (cols_integ d) T))
  | A3 T, O =>
      let M0 : mat := nth 0 T [] in
      Ok (A2 (map (fun j => map (fun k => integ d true (map (fun M => nthQ (nthV M j) k) T)) (seq 0 (ncols M0)))
                  (seq 0 (length M0))))
  | _, _ => Err OtherError
  end.

(* ---------- correspondence ---------- *)
Definition arr_close (tol : Q) (m i : arr) : bool :=
  match m, i with
  | A0 a, A0 b => close 0 tol a b
  | A1 a, A1 b => vclose 0 tol a b
  | A2 a, A2 b => mclose 0 tol a b
  | A3 a, A3 b => tclose 0 tol a b
  | _, _ => false
  end.
Record case := { c_kind : nat;    (* 0 calculate_capture, 1+k integral along axis k (counted from the front) *)
                 c_dom : domain; c_trapz : bool; c_F : arr; c_S : arr;
                 c_tol : Q; c_impl : res arr }.
Definition model (c : case) : res arr :=
  match c_kind c with
  | O => capture (c_dom c) (c_trapz c) (c_F c) (c_S c)
  | S k => integral (c_dom c) (c_S c) k
  end.
Definition verdict (c : case) : bool := res_agree (arr_close (c_tol c)) (model c) (c_impl c).
