(* Model/Estimator.v — the registered system of ReceptorEstimator as a linear model (C02):
   register_system (A = capture(sources).T), system_capture (X @ A.T), _relative_capture,
   register_background_adaptation / register_system_adaptation. *)
From Coq Require Import QArith List Bool.
From DV Require Import Base.QVec Run.Verdict Model.Capture Model.Linear.
Import ListNotations.
Open Scope Q_scope.

(* A[j][k] = capture of source k by filter j   (n_filters x n_sources) *)
Definition sysA (d : domain) (F S : mat) : mat := map (fun f => map (fun s => cap11 d true f s) S) F.
(* the physically mixed spectrum sum_k x_k * source_k  (nd domain points) *)
Definition mixture (nd : nat) (S : mat) (x : vec) : vec := tmatvec S x nd.
(* system_capture for one intensity vector: x @ A.T *)
Definition system_capture (A : mat) (x : vec) : vec := matvec A x.
(* _relative_capture: (q + baseline) * K   or  K @ (q + baseline) *)
Definition rel (K : kmat) (base q : vec) : vec := applyK K (vadd q base).
(* capture of one signal by all filters (estimator.capture for a 1-D signal) *)
Definition capture_all (d : domain) (F : mat) (s : vec) : vec := map (fun f => cap11 d true f s) F.

(* K := 1 / (q_background [+ baseline])  (replace)   or   K + 1/(...)  (add; vector K only) *)
Definition adaptK (qb base : vec) (add_baseline : bool) : vec :=
  map Qinv (if add_baseline then vadd qb base else qb).
Definition register_adapt (Kold : kmat) (qb base : vec) (add_baseline add : bool) : kmat :=
  if add then
    match Kold with
    | Kv k => Kv (vadd k (adaptK qb base add_baseline))
    | Ks k => Kv (vshift k (adaptK qb base add_baseline))
    | Km k => Km (map (fun r => vadd r (adaptK qb base add_baseline)) k)   (* numpy broadcasting *)
    end
  else Kv (adaptK qb base add_baseline).

(* ---------- correspondence ---------- *)
Record case := {
  c_dom : domain; c_nd : nat; c_F : mat; c_S : mat; c_K : kmat; c_base : vec;
  c_X : mat;                          (* batch of intensity vectors *)
  c_bg : vec; c_addb : bool;          (* background spectrum, add_baseline *)
  c_tol : Q;
  i_A : mat; i_syscap : mat; i_sysrel : mat;       (* est.A, system_capture(X), system_relative_capture(X) *)
  i_capmix : mat; i_relmix : mat;                  (* capture / relative_capture of the mixed spectra X @ S *)
  i_Kbg : vec; i_relbg : vec;                      (* K after register_background_adaptation(bg), relative_capture(bg) *)
  i_Ksys : vec; i_relsys : vec }.                  (* K after register_system_adaptation(X[0]), system_relative_capture(X[0]) *)

Definition verdict (c : case) : bool :=
  let A := sysA (c_dom c) (c_F c) (c_S c) in
  let cl := mclose (c_tol c) (c_tol c) in
  let clv := vclose (c_tol c) (c_tol c) in
  let mixes := map (mixture (c_nd c) (c_S c)) (c_X c) in
  let qbg := capture_all (c_dom c) (c_F c) (c_bg c) in
  let Kbg := register_adapt (c_K c) qbg (c_base c) (c_addb c) false in
  let x0 := nthV (c_X c) 0 in
  let qsys := system_capture A x0 in
  let Ksys := register_adapt (c_K c) qsys (c_base c) (c_addb c) false in
  cl A (i_A c) &&
  cl (map (system_capture A) (c_X c)) (i_syscap c) &&
  cl (map (fun x => rel (c_K c) (c_base c) (system_capture A x)) (c_X c)) (i_sysrel c) &&
  cl (map (capture_all (c_dom c) (c_F c)) mixes) (i_capmix c) &&
  cl (map (fun s => rel (c_K c) (c_base c) (capture_all (c_dom c) (c_F c) s)) mixes) (i_relmix c) &&
  clv (match Kbg with Kv k => k | _ => [] end) (i_Kbg c) &&
  clv (rel Kbg (c_base c) qbg) (i_relbg c) &&
  clv (match Ksys with Kv k => k | _ => [] end) (i_Ksys c) &&
  clv (rel Ksys (c_base c) qsys) (i_relsys c).
