(* Model/Fits.v — formulation models of the secondary fitting routines (C08, C09):
   what lsq_linear_underdetermined / lsq_linear_minimize hand to cvxpy, as instances of Cert/Qp.v. *)
From Coq Require Import QArith Qabs Qminmax List Bool Arith.
From DV Require Import Base.QVec Run.Verdict Model.Linear Cert.Duality Cert.Qp.
Import ListNotations.
Open Scope Q_scope.

Definition ones (n : nat) : vec := repeat 1 n.
Definition identm (n : nat) : mat := map (fun i => map (fun j => if Nat.eqb i j then 1 else 0) (seq 0 n)) (seq 0 n).
(* I - J/n : x |-> x - mean(x) *)
Definition centering (n : nat) : mat :=
  map (fun i => map (fun j => (if Nat.eqb i j then 1 else 0) - 1 / inject_Z (Z.of_nat n)) (seq 0 n)) (seq 0 n).
Definition somesv (v : vec) : list (option Q) := map Some v.

(* the fit-quality cone  || (A' * w) x - (b - base') * w ||_2 <= rho  *)
Definition fit_cone (K : kmat) (A : mat) (n : nat) (base w b : vec) (rho : Q) : cone :=
  {| cM := form_M w (transA K A n); ce := form_e w b (transB K base); crho := rho |}.

(* ---------- C08: underdetermined_opt ---------- *)
Inductive uopt := Ol2 | Omin | Omax | Ovar | Onum (v : Q) | Ovec (v : vec).
Definition zero_obj (n : nat) : obj := {| o_d := vzero n; o_M := []; o_e := []; o_c := vzero n |}.
Definition under_obj (n : nat) (o : uopt) : obj :=
  match o with
  | Ol2 => {| o_d := ones n; o_M := []; o_e := []; o_c := vzero n |}                     (* sum x^2: same minimisers as norm2 *)
  | Omin => {| o_d := vzero n; o_M := []; o_e := []; o_c := ones n |}                    (* sum x *)
  | Omax => {| o_d := vzero n; o_M := []; o_e := []; o_c := vscale (-1) (ones n) |}      (* maximise sum x *)
  | Ovar => {| o_d := vzero n; o_M := centering n; o_e := vzero n; o_c := vzero n |}     (* sum (x - mean x)^2 *)
  | Onum v => {| o_d := vzero n; o_M := [ones n]; o_e := [v]; o_c := vzero n |}          (* (sum x - v)^2 *)
  | Ovec v => {| o_d := vzero n; o_M := identm n; o_e := v; o_c := vzero n |}            (* sum (x_i - v_i)^2 *)
  end.
Definition under_inst (K : kmat) (A : mat) (n : nat) (lb ub base w b : vec) (l2_eps : Q) : inst :=
  {| Duality.n := n; ilb := somesv lb; iub := somesv ub; G := []; h := []; cones := [fit_cone K A n base w b l2_eps] |}.
Record ucase := { u_K : kmat; u_A : mat; u_n : nat; u_lb : vec; u_ub : vec; u_base : vec; u_w : vec; u_b : vec;
                  u_eps : Q; u_opt : uopt; u_X : vec; u_X0 : vec; u_Bpred : vec; u_cert : cert; u_tol_obj : Q; u_tol : Q }.
Definition u_qcase (c : ucase) : qcase :=
  {| q_inst := under_inst (u_K c) (u_A c) (u_n c) (u_lb c) (u_ub c) (u_base c) (u_w c) (u_b c) (u_eps c);
     q_obj := under_obj (u_n c) (u_opt c); q_x := u_X c; q_cert := u_cert c; q_x0 := u_X0 c;
     q_eps := u_tol_obj c; q_tolb := u_tol c; q_tol := u_tol c |}.
Definition uverdict (c : ucase) : bool :=
  qverdict (u_qcase c) &&
  vclose (1 # 1000000000) (1 # 1000000000) (relcap (u_K c) (u_A c) (u_base c) (u_X c)) (u_Bpred c).

(* ---------- C09: variance minimisation ---------- *)
(* utils.propagate_error: Epsilon * K[:,None]^2  /  K**2 @ Epsilon *)
Definition propagate (K : kmat) (Eps : mat) (ncol : nat) : mat :=
  match K with
  | Ks k => map (vscale (k * k)) Eps
  | Kv k => map2v vscale (map (fun a => a * a) k) Eps
  | Km k => matmul (map (map (fun a => a * a)) k) Eps ncol
  end.
Definition squares (M : mat) : mat := map (map (fun a => a * a)) M.
(* None / 'heteroscedastic' -> squared transformed capture matrix; explicit -> propagated through K *)
Definition eps_model (K : kmat) (A : mat) (n : nat) (Eps : option mat) : mat :=
  match Eps with None => squares (transA K A n) | Some E => propagate K E n end.
(* column sums d_i = sum_j Eps_ji : objective sum(Eps @ x^2) = sum_i d_i x_i^2 *)
Definition colsums (n : nat) (E : mat) : vec := tmatvec E (ones (length E)) n.
(* reported variance  X^2 @ Eps^T *)
Definition bvar (E : mat) (x : vec) : vec := matvec E (vmul x x).
Definition minvar_inst (K : kmat) (A : mat) (n : nat) (lb ub base w b : vec) (rho : Q) (l1 : option (Q * Q)) : inst :=
  {| Duality.n := n; ilb := somesv lb; iub := somesv ub;
     G := match l1 with None => [] | Some _ => [ones n; vscale (-1) (ones n)] end;
     h := match l1 with None => [] | Some (L, e) => [L + e; - (L - e)] end;
     cones := [fit_cone K A n base w b rho] |}.
Record vcase := { v_K : kmat; v_A : mat; v_n : nat; v_lb : vec; v_ub : vec; v_base : vec; v_w : vec; v_b : vec;
                  v_Eps : option mat; v_rho : Q; v_l1 : option (Q * Q);
                  v_X : vec; v_X0 : vec; v_Bpred : vec; v_Bvar : vec; v_cert : cert; v_tol_obj : Q; v_tol : Q }.
Definition v_qcase (c : vcase) : qcase :=
  {| q_inst := minvar_inst (v_K c) (v_A c) (v_n c) (v_lb c) (v_ub c) (v_base c) (v_w c) (v_b c) (v_rho c) (v_l1 c);
     q_obj := {| o_d := colsums (v_n c) (eps_model (v_K c) (v_A c) (v_n c) (v_Eps c)); o_M := []; o_e := []; o_c := vzero (v_n c) |};
     q_x := v_X c; q_cert := v_cert c; q_x0 := v_X0 c; q_eps := v_tol_obj c; q_tolb := v_tol c; q_tol := v_tol c |}.
Definition vverdict (c : vcase) : bool :=
  qverdict (v_qcase c) &&
  vclose (1 # 1000000000) (1 # 1000000000) (relcap (v_K c) (v_A c) (v_base c) (v_X c)) (v_Bpred c) &&
  vclose (1 # 1000000000) (1 # 1000000000) (bvar (eps_model (v_K c) (v_A c) (v_n c) (v_Eps c)) (v_X c)) (v_Bvar c).

Inductive gcase := GU (c : ucase) | GV (c : vcase).
Definition gverdict (g : gcase) : bool := match g with GU c => uverdict c | GV c => vverdict c end.
