(* Model/Linear.v — the linear receptor model shared by C02-C12:
   dreye/api/utils.py: apply_linear_transform, transform_values, predict_values;
   dreye/api/estimator.py: _relative_capture, system_capture. *)
From Coq Require Import QArith List Lia.
From DV Require Import Base.QVec.
Import ListNotations.
Open Scope Q_scope.

Inductive kmat := Ks (k : Q) | Kv (k : vec) | Km (k : mat).

Fixpoint map2v {B} (f : Q -> vec -> B) (k : vec) (A : mat) : list B :=
  match k, A with a :: k', r :: A' => f a r :: map2v f k' A' | _, _ => [] end.

(* K applied to a capture vector: K*v (scalar / element-wise) or K @ v *)
Definition applyK (K : kmat) (v : vec) : vec :=
  match K with Ks k => vscale k v | Kv k => vmul k v | Km k => matvec k v end.
(* relative capture  K (A x + baseline)  — estimator._relative_capture o system_capture *)
Definition relcap (K : kmat) (A : mat) (base x : vec) : vec := applyK K (vadd (matvec A x) base).
(* utils.apply_linear_transform: A * K[:, None] / K @ A, and K * baseline / K @ baseline *)
Definition transA (K : kmat) (A : mat) (ncol : nat) : mat :=
  match K with
  | Ks k => map (vscale k) A
  | Kv k => map2v vscale k A
  | Km k => matmul k A ncol
  end.
Definition transB (K : kmat) (base : vec) : vec := applyK K base.
(* utils.predict_values for one row of X:  x @ A'.T + baseline' *)
Definition predict (A' : mat) (base' x : vec) : vec := vadd (matvec A' x) base'.

Definition Kshape_ok (K : kmat) (m : nat) : Prop :=
  match K with Ks _ => True | Kv k => length k = m | Km k => length k = m /\ rect m k end.
Definition Kshape_okb (K : kmat) (m : nat) : bool :=
  match K with Ks _ => true | Kv k => Nat.eqb (length k) m
  | Km k => Nat.eqb (length k) m && forallb (fun r => Nat.eqb (length r) m) k end.

(* weighted squared capture error in receptor space: sum_j w_j^2 (K(Ax+base) - b)_j^2 *)
Definition spec_err (K : kmat) (A : mat) (base w b x : vec) : Q :=
  sq (vmul w (vsub (relcap K A base x) b)).
(* what lsq_linear hands to cvxpy: (A' * w[:,None]) x - (b - base') * w *)
Definition form_M (w : vec) (A' : mat) : mat := map2v vscale w A'.
Definition form_e (w b base' : vec) : vec := vmul w (vsub b base').
