(* Model/PoisExc.v — the Poisson and excitation fitting models (C07).
   Poisson: convex; optimality through the (rational) Frank-Wolfe gap at the returned point.
   Excitation: quasi-convex min-max; optimality through emptiness of the level set {err <= t - delta},
   which is a polyhedron in x, certified by Farkas multipliers (Cert/Duality.farkas_infeasible). *)
From Coq Require Import QArith Qabs Qminmax List Bool Arith.
From DV Require Import Base.QVec Run.Verdict Model.Linear Cert.Duality Cert.Hull.
Import ListNotations.
Open Scope Q_scope.

Fixpoint map2q (f : Q -> Q -> Q) (u v : vec) : vec :=
  match u, v with a :: u', b :: v' => f a b :: map2q f u' v' | _, _ => [] end.
Fixpoint all_pos (v : vec) : bool := match v with [] => true | a :: v' => qlt 0 a && all_pos v' end.
Fixpoint all_nonneg (v : vec) : bool := match v with [] => true | a :: v' => Qle_bool 0 a && all_nonneg v' end.

(* ---------- Poisson ---------- *)
(* objective of the code:  sum_j w_j (p_j - b_j ln p_j),  p = A' x + base'  (weights enter as b*w and A*w) *)
(* gradient coefficients  w_j (1 - b_j / p_j)  and the Frank-Wolfe gap  max_{x' in box} g.(x - x') *)
Definition pois_coef (w b p : vec) : vec := vmul w (map2q (fun bj pj => 1 - bj / pj) b p).
Definition pois_grad (A' : mat) (n : nat) (w b p : vec) : vec := tmatvec A' (pois_coef w b p) n.
Definition pois_gap (A' : mat) (base' : vec) (n : nat) (lb ub w b x : vec) : Q :=
  let g := pois_grad A' n w b (predict A' base' x) in dot g x - boxmin g lb ub.
(* excess of x over every in-bound point, through a reference point x0 (untrusted, e.g. a high-accuracy optimum):
   tangent at x towards x0  +  Frank-Wolfe gap at x0.  First-order tight, unlike the gap at x itself. *)
Definition pois_excess (A' : mat) (base' : vec) (n : nat) (lb ub w b x x0 : vec) : Q :=
  dot (pois_coef w b (predict A' base' x)) (vsub (predict A' base' x) (predict A' base' x0)) + pois_gap A' base' n lb ub w b x0.
(* the returned point may miss its bounds by the solver's accuracy, stated per source (1 % of THAT source's range with default settings):
   the clipped point and the raw one are compared coordinate by coordinate *)
Fixpoint vclose_absv (tols u v : vec) : bool :=
  match tols, u, v with
  | [], [], [] => true
  | t :: tols', a :: u', b :: v' => Qle_bool (Qabs (a - b)) t && vclose_absv tols' u' v'
  | _, _, _ => false
  end.
Record pcase := { p_K : kmat; p_A : mat; p_n : nat; p_lb : vec; p_ub : vec; p_base : vec; p_w : vec; p_b : vec;
                  p_X : vec; p_X0 : vec; p_Xraw : vec; p_Bpred : vec; p_in_gamut : bool; p_eps : Q; p_tolb : vec; p_tolc : Q }.
Definition pverdict (c : pcase) : bool :=
  let A' := transA (p_K c) (p_A c) (p_n c) in let base' := transB (p_K c) (p_base c) in
  let p := predict A' base' (p_X c) in
  (* the returned point, clipped into the box by the harness, is in the box; captures positive *)
  in_boxb (p_X c) (p_lb c) (p_ub c) && all_pos p && all_nonneg (p_b c) && all_nonneg (p_w c) &&
  forallb (fun r => Nat.eqb (length r) (p_n c)) A' && Nat.eqb (length (p_w c)) (length A') && Nat.eqb (length (p_b c)) (length A') &&
  Nat.eqb (length base') (length A') &&
  in_boxb (p_X0 c) (p_lb c) (p_ub c) && all_pos (predict A' base' (p_X0 c)) && Nat.eqb (length (p_X0 c)) (p_n c) && Nat.eqb (length (p_X c)) (p_n c) &&
  Qle_bool (pois_excess A' base' (p_n c) (p_lb c) (p_ub c) (p_w c) (p_b c) (p_X c) (p_X0 c)) (p_eps c) &&
  vclose (1 # 100000000) (1 # 100000000) (predict A' base' (p_Xraw c)) (p_Bpred c) &&
  vclose_absv (p_tolb c) (p_X c) (p_Xraw c) &&
  (if p_in_gamut c then vclose_abs (p_tolc c) p (p_b c) else true).

(* ---------- excitation ---------- *)
Definition exc (t : Q) : Q := t / (1 + t).
Fixpoint vmaxabs (v : vec) : Q := match v with [] => 0 | a :: v' => Qmax (Qabs a) (vmaxabs v') end.
(* largest absolute difference in excitation between (weighted) target and (weighted) predicted total capture *)
Definition exc_err (w b p : vec) : Q := vmaxabs (map2q (fun bj pj => exc bj - exc pj) (vmul w b) (vmul w p)).
(* level set { x : |beta_j - pi_j(x)| <= s (1+beta_j)(1+pi_j(x)) for all j }, pi = w * (A' x + base'), beta = w * b:
   two linear rows per receptor *)
Definition level_rows (A' : mat) (base' w b : vec) (s : Q) : list (vec * Q) :=
  flat_map (fun j =>
    let wj := nthQ w j in let beta := wj * nthQ b j in let c := s * (1 + beta) in
    let a := vscale wj (nthV A' j) in let k := wj * nthQ base' j in
    [ (vscale (- (1 + c)) a, c - beta + (1 + c) * k);          (* beta - pi <= c (1 + pi) *)
      (vscale (1 - c) a, beta + c - (1 - c) * k) ])             (* pi - beta <= c (1 + pi) *)
    (seq 0 (length A')).
Definition level_inst (A' : mat) (base' : vec) (n : nat) (lb ub : list (option Q)) (w b : vec) (s : Q) : inst :=
  let rows := level_rows A' base' w b s in
  {| Duality.n := n; ilb := lb; iub := ub; G := map fst rows; h := map snd rows; cones := [] |}.
Record ecase := { e_K : kmat; e_A : mat; e_n : nat; e_lb : list (option Q); e_ub : list (option Q); e_base : vec; e_w : vec; e_b : vec;
                  e_X : vec; e_Xraw : vec; e_Bpred : vec; e_in_gamut : bool; e_delta : Q; e_lam : vec; e_tolb : vec; e_tolc : Q }.
Definition everdict (c : ecase) : bool :=
  let A' := transA (e_K c) (e_A c) (e_n c) in let base' := transB (e_K c) (e_base c) in
  let p := predict A' base' (e_X c) in
  let t := exc_err (e_w c) (e_b c) p in
  in_boxob 0 (e_X c) (e_lb c) (e_ub c) && all_pos (vshift 1 (vmul (e_w c) p)) && all_nonneg (e_b c) && all_pos (e_w c) &&
  vclose (1 # 100000000) (1 # 100000000) (predict A' base' (e_Xraw c)) (e_Bpred c) &&
  vclose_absv (e_tolb c) (e_X c) (e_Xraw c) &&
  (if e_in_gamut c then vclose_abs (e_tolc c) p (e_b c) else true) &&
  (* optimality: the level set at t - delta is empty (nothing to show when t <= delta: the error is never negative) *)
  (Qle_bool t (e_delta c) ||
   let i := level_inst A' base' (e_n c) (e_lb c) (e_ub c) (e_w c) (e_b c) (t - e_delta c) in
   let ce := {| lam := e_lam c; ys := []; ss := [] |} in
   wfb i && cert_ok i ce &&
   match dual_bound i ce 0 (vzero (e_n c)) (vzero (e_n c)) with Some L => qlt 0 L | None => false end).

Inductive gcase := GPo (c : pcase) | GEx (c : ecase).
Definition gverdict (g : gcase) : bool := match g with GPo c => pverdict c | GEx c => everdict c end.
