(* Model/Scaling.v — gamut-corrective scalings of ReceptorEstimator (C12):
   hull_l1_scaling (intensity) and hull_dist_scaling (chromatic), with the chromatic-gamut
   certificates of Cert/Hull.v. *)
From Coq Require Import QArith Qabs Qminmax List Bool Arith.
From DV Require Import Base.QVec Run.Verdict Model.Linear Cert.Hull.
Import ListNotations.
Open Scope Q_scope.

(* ---------- intensity (L1) scaling ---------- *)
Fixpoint vmaxl (v : vec) (acc : Q) : Q := match v with [] => acc | a :: v' => vmaxl v' (Qmax acc a) end.
Definition vmax (v : vec) : Q := match v with [] => 0 | a :: v' => vmaxl v' a end.
Definition vminv (v : vec) : Q := - vmax (map Qopp v).
Definition mmaxall (B : mat) : Q := vmax (concat B).
(* amax = min_j max_k (A'_jk * ub_k) *)
Definition amax (A' : mat) (ub : vec) : Q := vminv (map (fun r => vmax (vmul r ub)) A').
Definition l1_scaling (A' : mat) (base' ub : vec) (B : mat) : mat :=
  let Bs := map (fun r => vsub r base') B in
  let f := amax A' ub / mmaxall Bs in
  map (fun r => vadd (vscale f r) base') Bs.

(* ---------- chromatic (distance) scaling, given the common contraction alpha ---------- *)
Definition hat (v : vec) : vec := vscale (/ sumQ v) v.
Definition is_zero_row (v : vec) : bool := forallb (fun a => Qeq_bool a 0) v.
(* out = L1 * (n^ + alpha (b^ - n^)); all-zero rows stay zero *)
Definition dist_point (nhat : vec) (alpha : Q) (b : vec) : vec := vadd nhat (vscale alpha (vsub (hat b) nhat)).
Definition dist_row (nhat : vec) (alpha : Q) (b : vec) : vec :=
  if is_zero_row b then b else vscale (sumQ b) (dist_point nhat alpha b).

(* ---------- correspondence ---------- *)
Record lcase := { l_A : mat; l_n : nat; l_ub : vec; l_K : kmat; l_base : vec; l_B : mat; l_out : mat; l_tol : Q }.
Definition lverdict (c : lcase) : bool :=
  mclose (l_tol c) (l_tol c)
         (l1_scaling (transA (l_K c) (l_A c) (l_n c)) (transB (l_K c) (l_base c)) (l_ub c) (l_B c)) (l_out c).

Record dcase := {
  d_A : mat; d_n : nat; d_lb : vec; d_ub : vec; d_K : kmat; d_base : vec;
  d_neutral : vec; d_B : mat; d_out : mat;
  d_alpha : Q;                      (* common contraction recovered from the output by the harness *)
  d_xs : mat;                       (* per row: in-bound intensities certifying the scaled chromaticity in the chromatic gamut *)
  d_all_inside : bool;              (* every input chromaticity has a membership certificate (d_xin) *)
  d_xin : mat;
  d_bind : nat; d_y : vec; d_mu : Q; d_delta : Q;   (* maximality: row d_bind at alpha + delta is separated from the cone by y *)
  d_tol : Q; d_tolm : Q }.
Definition somesv (v : vec) : list (option Q) := map Some v.
Fixpoint forall2b {X Y} (f : X -> Y -> bool) (a : list X) (b : list Y) : bool :=
  match a, b with [], [] => true | x :: a', y :: b' => f x y && forall2b f a' b' | _, _ => false end.
Definition dverdict (c : dcase) : bool :=
  let A' := transA (d_K c) (d_A c) (d_n c) in
  let base' := transB (d_K c) (d_base c) in
  let lbo := somesv (d_lb c) in let ubo := somesv (d_ub c) in
  let nhat := hat (d_neutral c) in
  let member := fun (p x : vec) => check_cone_member A' base' lbo ubo p x (d_tolm c) in
  if d_all_inside c then
    (* every input chromaticity certified inside: output must be the input *)
    forall2b (fun b x => is_zero_row b || member b x) (d_B c) (d_xin c) &&
    mclose (d_tol c) (d_tol c) (d_B c) (d_out c)
  else
    qlt 0 (d_alpha c) && Qle_bool (d_alpha c) (1 + d_tol c) &&
    (* one common alpha, totals and hue kept: the output is the model row for that alpha *)
    mclose (d_tol c) (d_tol c) (map (dist_row nhat (d_alpha c)) (d_B c)) (d_out c) &&
    (* every scaled chromaticity lies in the chromatic gamut *)
    forall2b (fun b x => is_zero_row b || member (dist_point nhat (d_alpha c) b) x) (d_B c) (d_xs c) &&
    (* alpha is maximal: a slightly larger factor pushes the binding sample out of the cone *)
    qlt 0 (d_delta c) &&
    check_cone_sep A' base' lbo ubo (d_n c)
                   (dist_point nhat (d_alpha c + d_delta c) (nthV (d_B c) (d_bind c))) (d_y c) (d_mu c).

Inductive gcase := GL (c : lcase) | GD (c : dcase).
Definition gverdict (g : gcase) : bool := match g with GL c => lverdict c | GD c => dverdict c end.
