(* Model/Adaptive.v — formulation model of lsq_linear_adaptive (C10) as an instance of Cert/Qp.v.
   Variables z = (X_0, ..., X_{S-1}, s0, s1): one intensity vector per sample, the intensity scale s0
   and the chroma (radial) scale s1. *)
From Coq Require Import QArith Qabs Qminmax List Bool Arith.
From DV Require Import Base.QVec Run.Verdict Model.Linear Cert.Duality Cert.Qp.
Import ListNotations.
Open Scope Q_scope.

(* target decomposition: total and offset from the neutral direction *)
Definition nhat (neutral : vec) : vec := vscale (/ sumQ neutral) neutral.
Definition neutral_point (neutral b : vec) : vec := vscale (sumQ b) (nhat neutral).
Definition brad (neutral b : vec) : vec := vsub b (neutral_point neutral b).

(* a row vector acting on z: block i (of width n) carries v, the two last entries carry (c0, c1) *)
Definition zrow (S n i : nat) (v : vec) (c0 c1 : Q) : vec :=
  vzero (i * n) ++ v ++ vzero ((S - 1 - i) * n) ++ [c0; c1].
Definition colsumA (A' : mat) (n : nat) : vec := tmatvec A' (repeat 1 (length A')) n.

(* rows for sample i with target b:
     | sum_j Bpred_j - s0 * sum b |      <= d1        (2 rows)
     | s1 * brad_j - (Bpred_j - s0 * np_j) | <= dr     (2 rows per receptor j)
   with Bpred = A' x_i + base' *)
Definition sample_rows (A' : mat) (base' : vec) (n S i : nat) (neutral b : vec) (d1 dr : Q) : list (vec * Q) :=
  let bs := sumQ b in
  let rs := zrow S n i (colsumA A' n) (- bs) 0 in
  let np := neutral_point neutral b in
  let br := brad neutral b in
  (rs, d1 - sumQ base') :: (vscale (-1) rs, d1 + sumQ base') ::
  flat_map (fun j =>
      let a := nthV A' j in
      (* (Bpred_j - s0 np_j) - s1 br_j <= dr   and the opposite sign *)
      let r := zrow S n i a (- nthQ np j) (- nthQ br j) in
      [(r, dr - nthQ base' j); (vscale (-1) r, dr + nthQ base' j)]) (seq 0 (length A')).
Fixpoint all_rows (A' : mat) (base' : vec) (n S i : nat) (neutral : vec) (B : mat) (d1 dr : Q) : list (vec * Q) :=
  match B with
  | [] => []
  | b :: B' => sample_rows A' base' n S i neutral b d1 dr ++ all_rows A' base' n S (Datatypes.S i) neutral B' d1 dr
  end.
Definition adaptive_inst (A' : mat) (base' : vec) (n : nat) (lb ub : vec) (neutral : vec) (B : mat) (d1 dr : Q) : inst :=
  let S := length B in
  let rows := all_rows A' base' n S 0 neutral B d1 dr in
  {| Duality.n := S * n + 2;
     ilb := concat (repeat (map Some lb) S) ++ [Some 0; Some 0];
     iub := concat (repeat (map Some ub) S) ++ [None; None];
     G := map fst rows; h := map snd rows; cones := [] |}.
(* objectives on the scales (the last two variables) *)
Definition scale_rows (N : nat) (sw : vec) : mat :=
  [vzero N ++ [nthQ sw 0; 0]; vzero N ++ [0; nthQ sw 1]].
Definition adaptive_obj (N : nat) (sw : vec) (maximise : bool) : obj :=
  if maximise then {| o_d := vzero (N + 2); o_M := []; o_e := []; o_c := vzero N ++ [- nthQ sw 0; - nthQ sw 1] |}   (* maximise sw . s *)
  else {| o_d := vzero (N + 2); o_M := scale_rows N sw; o_e := [nthQ sw 0; nthQ sw 1]; o_c := vzero (N + 2) |}.     (* sum (sw_k (s_k - 1))^2 *)

Record acase := { a_K : kmat; a_A : mat; a_n : nat; a_lb : vec; a_ub : vec; a_base : vec; a_neutral : vec; a_B : mat;
                  a_d1 : Q; a_dr : Q; a_sw : vec; a_max : bool;
                  a_X : mat; a_scales : vec; a_Z0 : vec; a_Bpred : mat; a_cert : cert; a_tol_obj : Q; a_tol : Q }.
Definition a_qcase (c : acase) : qcase :=
  let A' := transA (a_K c) (a_A c) (a_n c) in let base' := transB (a_K c) (a_base c) in
  let z := concat (a_X c) ++ a_scales c in
  {| q_inst := adaptive_inst A' base' (a_n c) (a_lb c) (a_ub c) (a_neutral c) (a_B c) (a_d1 c) (a_dr c);
     q_obj := adaptive_obj (length (a_B c) * a_n c) (a_sw c) (a_max c);
     q_x := z; q_cert := a_cert c; q_x0 := a_Z0 c; q_eps := a_tol_obj c; q_tolb := a_tol c; q_tol := a_tol c |}.
Definition averdict (c : acase) : bool :=
  qverdict (a_qcase c) &&
  forallb (fun s => qlt 0 s) (a_scales c) && Nat.eqb (length (a_scales c)) 2 &&
  mclose (1 # 1000000000) (1 # 1000000000) (map (relcap (a_K c) (a_A c) (a_base c)) (a_X c)) (a_Bpred c).
