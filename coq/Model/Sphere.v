(* Model/Sphere.v — rational relations characterising dreye/api/spherical.py (C16).
   cos/sin of the angles are supplied as rational data (computed by numpy; trusted libm) and
   checked to be a point of the unit circle; everything else is exact Q arithmetic. *)
From Coq Require Import QArith Qabs List Bool Arith.
From DV Require Import Base.QVec Run.Verdict.
Import ListNotations.
Open Scope Q_scope.

(* x_0 = r c_1 ; x_i = r c_{i+1} s_1..s_i ; x_{n-1} = r s_1..s_{n-1} *)
Fixpoint s2c_from (r prod : Q) (cs sn : vec) : vec :=
  match cs, sn with
  | [c], [s] => [r * prod * c; r * prod * s]
  | c :: cs', s :: sn' => r * prod * c :: s2c_from r (prod * s) cs' sn'
  | _, _ => []
  end.
Definition s2c (r : Q) (cs sn : vec) : vec := s2c_from r 1 cs sn.

Definition pi_lo : Q := 3141592653589793 # 1000000000000000.
Definition pi_hi : Q := 3141592653589794 # 1000000000000000.

Fixpoint all_zero (v : vec) : bool := match v with [] => true | a :: v' => Qeq_bool a 0 && all_zero v' end.
Fixpoint unit_circle (tol : Q) (cs sn : vec) : bool :=
  match cs, sn with
  | [], [] => true
  | c :: cs', s :: sn' => Qle_bool (Qabs (c * c + s * s - 1)) tol && unit_circle tol cs' sn'
  | _, _ => false
  end.
(* polar angles in [0, pi] (hence sin >= 0), azimuth (last) in [0, 2 pi]; an angle whose tail of
   coordinates is all zero must be reported as 0 *)
Fixpoint angles_ok (tol : Q) (x ang sn : vec) : bool :=
  match x, ang, sn with
  | [_; _], [a], [s] => Qle_bool 0 a && Qle_bool a (2 * pi_hi) && (if all_zero x then Qeq_bool a 0 else true)
  | _ :: x', a :: ang', s :: sn' =>
      Qle_bool 0 a && Qle_bool a pi_hi && Qle_bool (- tol) s &&
      (if all_zero x then Qeq_bool a 0 else true) && angles_ok tol x' ang' sn'
  | _, _, _ => false
  end.
(* coarse consistency of the supplied cos/sin with the angle itself: quadrant signs *)
Fixpoint quadrant_ok (tol : Q) (ang cs sn : vec) : bool :=
  match ang, cs, sn with
  | [], [], [] => true
  | a :: ang', c :: cs', s :: sn' =>
      (if Qle_bool a (pi_lo / 2) then Qle_bool (- tol) c else true) &&
      (if Qle_bool (pi_hi / 2) a && Qle_bool a (3 * pi_lo / 2) then Qle_bool c tol else true) &&
      (if Qle_bool a pi_lo then Qle_bool (- tol) s else true) &&
      (if Qle_bool pi_hi a then Qle_bool s tol else true) && quadrant_ok tol ang' cs' sn'
  | _, _, _ => false
  end.

Record case := {
  c_dir : bool;                (* false: cartesian_to_spherical, true: spherical_to_cartesian *)
  c_in : vec; c_out : vec;     (* one point: input coordinates, implementation output *)
  c_cos : vec; c_sin : vec;    (* cos / sin of the angles (of the output if c2s, of the input if s2c) *)
  c_tol : Q }.

Definition verdict (c : case) : bool :=
  if c_dir c then
    (* s2c: output = r * ... built from the cos/sin of the input angles *)
    match c_in c with
    | r :: ang => unit_circle (c_tol c) (c_cos c) (c_sin c) && quadrant_ok (c_tol c) ang (c_cos c) (c_sin c) &&
                  vclose (c_tol c) (c_tol c) (s2c r (c_cos c) (c_sin c)) (c_out c)
    | [] => false
    end
  else
    match c_out c with
    | r :: ang =>
        Qle_bool 0 r && close (c_tol c) (c_tol c) (sq (c_in c)) (r * r) &&
        unit_circle (c_tol c) (c_cos c) (c_sin c) && angles_ok (c_tol c) (c_in c) ang (c_sin c) &&
        quadrant_ok (c_tol c) ang (c_cos c) (c_sin c) &&
        (* converting back recovers the point *)
        vclose (c_tol c) (c_tol c) (c_in c) (s2c r (c_cos c) (c_sin c))
    | [] => false
    end.
