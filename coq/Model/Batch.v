(* Model/Batch.v — executable model of dreye/api/optimize/parallel.py (batched_iteration,
   ravel_iarrays, ravel_last_iarrays, diagonal_stack, concat), optimize/utils.get_batch_size and
   the scatter loop of lsq_linear._solve_problem (C05). *)
From Coq Require Import QArith List Bool Arith Lia.
From DV Require Import Base.QVec Run.Verdict Model.Linear.
Import ListNotations.
Open Scope Q_scope.

(* get_batch_size *)
Inductive bspec := BNone | BInt (k : nat) | BFull | BOtherString.
Definition get_batch_size (b : bspec) (total : nat) : res nat :=
  match b with BNone => Ok 1%nat | BInt k => Ok k | BFull => Ok total | BOtherString => Err OtherError end.

Record batch := { bidx : nat; rows : list nat; padcount : nat }.

(* batched_iteration(n, ..., batch_size=bs, pad=True): which rows go into which solve *)
Definition plan (n bs : nat) : list batch :=
  if Nat.eqb bs 1 then map (fun i => {| bidx := i; rows := [i]; padcount := 0 |}) (seq 0 n)
  else
    let nfull := (n / bs)%nat in
    let last := (n mod bs)%nat in
    let full := map (fun i => {| bidx := i; rows := seq (i * bs) bs; padcount := 0 |}) (seq 0 nfull) in
    if Nat.eqb last 0 then full
    else full ++ [{| bidx := nfull; rows := seq (n - last) last; padcount := (bs - last)%nat |}].

(* the scatter of _solve_problem: rows of X that batch idx writes, slot by slot *)
Definition written (n bs : nat) (b : batch) : list nat :=
  if Nat.ltb n (S (bidx b) * bs) then seq (bidx b * bs) (n - bidx b * bs)      (* X[idx*bs:] = x[:last] *)
  else seq (bidx b * bs) bs.                                                   (* X[idx*bs:(idx+1)*bs] = x *)

(* what is handed to the solver for one batch: the raveled rows followed by zero padding *)
Definition sent (m : nat) (D : mat) (b : batch) : vec :=
  concat (map (nthV D) (rows b)) ++ vzero (padcount b * m).

(* diagonal_stack(A, k) and concat(v, k) *)
Definition block_rows (A : mat) (ncol before after : nat) : mat :=
  map (fun r => vzero (before * ncol) ++ r ++ vzero (after * ncol)) A.
(* block-diagonal matrix of a list of blocks, each with ncol columns *)
Fixpoint bdiag_from (Ms : list mat) (ncol i total : nat) : mat :=
  match Ms with
  | [] => []
  | M :: Ms' => block_rows M ncol i (total - S i) ++ bdiag_from Ms' ncol (S i) total
  end.
Definition bdiag (Ms : list mat) (ncol : nat) : mat := bdiag_from Ms ncol 0 (length Ms).
Definition block_diag (A : mat) (ncol k : nat) : mat := bdiag (repeat A k) ncol.
Definition concat_n (v : vec) (k : nat) : vec := concat (repeat v k).

(* ---------- correspondence: hook records vs the model ---------- *)
Record hookrec := { h_idx : nat; h_padded : bool; h_rows : list nat; h_b : vec; h_w : vec }.
Record case := {
  c_n : nat; c_m : nat; c_bspec : bspec;
  c_K : kmat; c_base : vec; c_B : mat; c_W : mat;      (* targets and per-sample weights as passed *)
  c_subtract : bool;                                   (* baseline subtracted (gaussian, variance) or not (poisson, excitation) *)
  c_tol : Q;
  c_recs : list hookrec }.

Fixpoint list_eqb (a b : list nat) : bool :=
  match a, b with [], [] => true | x :: a', y :: b' => Nat.eqb x y && list_eqb a' b' | _, _ => false end.

Fixpoint map2 {A B C} (f : A -> B -> C) (l : list A) (l' : list B) : list C :=
  match l, l' with a :: t, b :: t' => f a b :: map2 f t t' | _, _ => [] end.
Definition BWrow (c : case) (b w : vec) : vec :=
  if c_subtract c then form_e w b (transB (c_K c) (c_base c)) else vmul w b.
Definition rec_ok (c : case) (bs : nat) (p : batch) (r : hookrec) : bool :=
  Nat.eqb (h_idx r) (bidx p) && Bool.eqb (h_padded r) (negb (Nat.eqb (padcount p) 0)) &&
  list_eqb (h_rows r) (rows p) && list_eqb (written (c_n c) bs p) (rows p) &&
  vclose (c_tol c) (c_tol c) (sent (c_m c) (map2 (BWrow c) (c_B c) (c_W c)) p) (h_b r) &&
  vclose (c_tol c) (c_tol c) (sent (c_m c) (c_W c) p) (h_w r).
Fixpoint recs_ok (c : case) (bs : nat) (ps : list batch) (rs : list hookrec) : bool :=
  match ps, rs with
  | [], [] => true
  | p :: ps', r :: rs' => rec_ok c bs p r && recs_ok c bs ps' rs'
  | _, _ => false
  end.
Definition verdict (c : case) : bool :=
  match get_batch_size (c_bspec c) (c_n c) with
  | Ok bs => negb (Nat.eqb bs 0) && recs_ok c bs (plan (c_n c) bs) (c_recs c)
  | Err _ => false
  end.
