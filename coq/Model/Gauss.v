(* Model/Gauss.v — Gaussian elimination over Q on lists (executable): the linear solve behind
   dreye/api/convex.py:_range_of_solutions (np.linalg.solve; LinAlgError <-> None).
   A system M z = rhs is held as augmented rows  r ++ [rhs_r]  and solved as the homogeneous
   system  M_aug (z ++ [-1]) = 0  by recursion on the number of unknowns. *)
From Coq Require Import QArith List Bool.
From DV Require Import Base.QVec.
Import ListNotations.
Open Scope Q_scope.

Definition hdQ (r : vec) : Q := match r with [] => 0 | a :: _ => a end.

(* first row whose leading entry is non-zero, and the remaining rows (order kept) *)
Fixpoint pick_pivot (M : mat) : option (vec * mat) :=
  match M with
  | [] => None
  | r :: M' => if Qeq_bool (hdQ r) 0
               then match pick_pivot M' with Some (p, rest) => Some (p, r :: rest) | None => None end
               else Some (r, M')
  end.

(* eliminate the leading unknown of row r with pivot row p; the leading entry is dropped *)
Definition reduce_row (p r : vec) : vec :=
  map Qred (vsub (tl r) (vscale (hdQ r / hdQ p) (tl p))).

(* n unknowns, rows of length n + 1 *)
Fixpoint solve_aug (n : nat) (M : mat) : option vec :=
  match n with
  | O => Some []
  | S n' =>
      match pick_pivot M with
      | None => None                                   (* leading column is zero: singular *)
      | Some (p, rest) =>
          match solve_aug n' (map (reduce_row p) rest) with
          | None => None
          | Some z' => Some (Qred (- dot (tl p) (z' ++ [-1]) / hdQ p) :: z')
          end
      end
  end.

Fixpoint augment (M : mat) (rhs : vec) : mat :=
  match M, rhs with r :: M', b :: rhs' => (r ++ [b]) :: augment M' rhs' | _, _ => [] end.

(* square solve; None when the matrix is singular *)
Definition solve_ge (M : mat) (rhs : vec) : option vec := solve_aug (length M) (augment M rhs).
