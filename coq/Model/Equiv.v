(* Model/Equiv.v — change of physical units (C15): intensities in units s times larger, captures in units
   c times smaller:  (A, lb, ub, baseline, b)  |->  (c s A, lb/s, ub/s, c baseline, c b),  K unchanged. *)
From Coq Require Import QArith Qabs List Bool Arith.
From DV Require Import Base.QVec Run.Verdict Model.Linear Cert.Duality Cert.Hull Model.Lsq Model.Range.
Import ListNotations.
Open Scope Q_scope.

Definition mscale (t : Q) (A : mat) : mat := map (vscale t) A.
Definition twinA (s c : Q) (A : mat) : mat := mscale (c * s) A.
Definition twinx (s : Q) (x : vec) : vec := vscale (/ s) x.
Definition twinb (c : Q) (b : vec) : vec := vscale c b.

(* correspondence: a problem and its rescaled twin, both run through the real code *)
Record case := {
  e_s : Q; e_c : Q;
  e_fit1 : option Lsq.case; e_fit2 : option Lsq.case;     (* certified fits of the problem and of its twin *)
  e_hull1 : list bool; e_hull2 : list bool;               (* in_hull answers on margin targets *)
  e_rng1 : option (vec * vec); e_rng2 : option (vec * vec);   (* range_of_solutions ends *)
  e_sp1 : mat; e_sp2 : mat;                               (* equally spaced solutions returned on request ([] if not asked) *)
  e_tolp : Q; e_tolr : Q }.
Fixpoint bools_eq (a b : list bool) : bool :=
  match a, b with [], [] => true | x :: a', y :: b' => Bool.eqb x y && bools_eq a' b' | _, _ => false end.
Definition verdict (c : case) : bool :=
  bools_eq (e_hull1 c) (e_hull2 c) &&
  match e_fit1 c, e_fit2 c with
  | Some f1, Some f2 =>
      Lsq.verdict f1 && Lsq.verdict f2 &&
      (* predicted captures scale by c (absolute slack e_tolp in the ORIGINAL units, i.e. c*e_tolp in the twin's) *)
      vclose (e_c c * e_tolp c) 0 (vscale (e_c c) (Lsq.c_Bpred f1)) (Lsq.c_Bpred f2)
  | None, None => true
  | _, _ => false
  end &&
  match e_rng1 c, e_rng2 c with
  | Some (mn1, mx1), Some (mn2, mx2) =>
      vclose (e_tolr c) (e_tolr c) (twinx (e_s c) mn1) mn2 && vclose (e_tolr c) (e_tolr c) (twinx (e_s c) mx1) mx2
  | None, None => true
  | _, _ => false
  end &&
  (* every sampled solution of the twin is the corresponding sampled solution divided by s *)
  mclose (e_tolr c) (e_tolr c) (map (twinx (e_s c)) (e_sp1 c)) (e_sp2 c).
