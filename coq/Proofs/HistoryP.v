(* Proofs/HistoryP.v — the estimator state machine (C14): queries are pure, re-registration replaces,
   independent registrations commute.  All statements proved, no assumptions. *)
From Coq Require Import QArith Qabs List Bool Arith Lia.
From DV Require Import Base.QVec Run.Verdict Model.Capture Model.Linear Model.Estimator Model.History.
Import ListNotations.
Open Scope Q_scope.

Section Laws.
  Variable dom : domain.
  Variable F : mat.
  Notation step := (step dom F).
  Notation run := (run dom F).

  (* ---- queries are pure, histories compose ---- *)
  Theorem queries_are_pure : forall s, step s Query = s.
  Proof. intros s. reflexivity. Qed.

  Theorem run_app : forall s h1 h2, run s (h1 ++ h2) = run (run s h1) h2.
  Proof. intros s h1 h2. unfold History.run. apply fold_left_app. Qed.

  Lemma run_cons : forall s o h, run s (o :: h) = run (step s o) h.
  Proof. intros. reflexivity. Qed.

  Lemma run_snoc : forall s h o, run s (h ++ [o]) = step (run s h) o.
  Proof. intros. rewrite run_app. reflexivity. Qed.

  Theorem queries_can_be_dropped : forall s h, run s (filter (fun o => match o with Query => false | _ => true end) h) = run s h.
  Proof.
    intros s h. revert s. induction h as [|o h IH]; intros s.
    - reflexivity.
    - destruct o; simpl filter; try (rewrite !run_cons; apply IH).
  Qed.

  (* ---- answers depend only on the registered values ---- *)
  Theorem answers_depend_on_state : forall s1 s2 sig x, s1 = s2 ->
    q_relcap dom F s1 sig = q_relcap dom F s2 sig /\ q_sysrel s1 x = q_sysrel s2 x.
  Proof. intros s1 s2 sig x H. subst. split; reflexivity. Qed.

  (* generic lifting of a step-preserved relation to whole histories *)
  Lemma run_rel : forall (R : st -> st -> Prop) (ok : op -> bool),
    (forall s s' o, R s s' -> ok o = true -> R (step s o) (step s' o)) ->
    forall h s s', R s s' -> forallb ok h = true -> R (run s h) (run s' h).
  Proof.
    intros R ok Hstep h. induction h as [|o h IH]; intros s s' HR Hok.
    - exact HR.
    - simpl in Hok. apply andb_true_iff in Hok. destruct Hok as [Ho Hh].
      rewrite !run_cons. apply IH; [apply Hstep; assumption | assumption].
  Qed.

  (* ---- re-registration fully replaces the old value ---- *)
  (* operations that neither read nor write the adaptation K *)
  Definition k_free (o : op) : bool :=
    match o with RegAdapt _ | RegBackground _ _ _ | RegSysAdapt _ _ _ => false | _ => true end.

  Definition eqK (s s' : st) : Prop := s_base s = s_base s' /\ s_sys s = s_sys s' /\ s_tgt s = s_tgt s'.

  Lemma eqK_step : forall s s' o, eqK s s' -> k_free o = true -> eqK (step s o) (step s' o).
  Proof.
    intros [K b y t] [K' b' y' t'] o [H1 [H2 H3]] Ho. simpl in H1, H2, H3. subst b' y' t'.
    destruct o; simpl in Ho; try discriminate Ho; unfold eqK; simpl.
    - repeat split.
    - destruct y; simpl; repeat split.
    - repeat split.
    - repeat split.
    - destruct t as [[B W]|]; simpl; repeat split.
    - repeat split.
  Qed.

  Theorem adaptation_replaced : forall s K1 K2 h, forallb k_free h = true ->
    run s (RegAdapt K1 :: h ++ [RegAdapt K2]) = run s (h ++ [RegAdapt K2]).
  Proof.
    intros s K1 K2 h Hh. rewrite run_cons, !run_snoc.
    assert (E : eqK (run (step s (RegAdapt K1)) h) (run s h)).
    { apply (run_rel eqK k_free eqK_step); [|exact Hh]. unfold eqK; simpl; repeat split. }
    destruct (run (step s (RegAdapt K1)) h) as [Ka ba ya ta]; destruct (run s h) as [Kb bb yb tb].
    destruct E as [E1 [E2 E3]]; simpl in E1, E2, E3; subst; reflexivity.
  Qed.

  (* operations that neither read nor write the baseline *)
  Definition base_free (o : op) : bool :=
    match o with RegBaseline _ | RegBackground _ _ _ | RegSysAdapt _ _ _ => false | _ => true end.

  Definition eqB (s s' : st) : Prop := s_K s = s_K s' /\ s_sys s = s_sys s' /\ s_tgt s = s_tgt s'.

  Lemma eqB_step : forall s s' o, eqB s s' -> base_free o = true -> eqB (step s o) (step s' o).
  Proof.
    intros [K b y t] [K' b' y' t'] o [H1 [H2 H3]] Ho. simpl in H1, H2, H3. subst K' y' t'.
    destruct o; simpl in Ho; try discriminate Ho; unfold eqB; simpl.
    - repeat split.
    - destruct y; simpl; repeat split.
    - repeat split.
    - repeat split.
    - destruct t as [[B W]|]; simpl; repeat split.
    - repeat split.
  Qed.

  Theorem baseline_replaced : forall s b1 b2 h, forallb base_free h = true ->
    run s (RegBaseline b1 :: h ++ [RegBaseline b2]) = run s (h ++ [RegBaseline b2]).
  Proof.
    intros s b1 b2 h Hh. rewrite run_cons, !run_snoc.
    assert (E : eqB (run (step s (RegBaseline b1)) h) (run s h)).
    { apply (run_rel eqB base_free eqB_step); [|exact Hh]. unfold eqB; simpl; repeat split. }
    destruct (run (step s (RegBaseline b1)) h) as [Ka ba ya ta]; destruct (run s h) as [Kb bb yb tb].
    destruct E as [E1 [E2 E3]]; simpl in E1, E2, E3; subst; reflexivity.
  Qed.

  (* operations that neither read nor write the targets *)
  Definition tgt_free (o : op) : bool :=
    match o with RegTargets _ _ | FitInternal _ => false | _ => true end.

  Definition eqT (s s' : st) : Prop := s_K s = s_K s' /\ s_base s = s_base s' /\ s_sys s = s_sys s'.

  Lemma eqT_step : forall s s' o, eqT s s' -> tgt_free o = true -> eqT (step s o) (step s' o).
  Proof.
    intros [K b y t] [K' b' y' t'] o [H1 [H2 H3]] Ho. simpl in H1, H2, H3. subst K' b' y'.
    destruct o; simpl in Ho; try discriminate Ho; unfold eqT; simpl; try (repeat split; fail).
    - destruct y; simpl; repeat split.
    - destruct y; simpl; repeat split.
  Qed.

  Theorem targets_replaced : forall s B1 W1 B2 W2 h, forallb tgt_free h = true ->
    run s (RegTargets B1 W1 :: h ++ [RegTargets B2 W2]) = run s (h ++ [RegTargets B2 W2]).
  Proof.
    intros s B1 W1 B2 W2 h Hh. rewrite run_cons, !run_snoc.
    assert (E : eqT (run (step s (RegTargets B1 W1)) h) (run s h)).
    { apply (run_rel eqT tgt_free eqT_step); [|exact Hh]. unfold eqT; simpl; repeat split. }
    destruct (run (step s (RegTargets B1 W1)) h) as [Ka ba ya ta]; destruct (run s h) as [Kb bb yb tb].
    destruct E as [E1 [E2 E3]]; simpl in E1, E2, E3; subst; reflexivity.
  Qed.

  (* a new system replaces sources, bounds and capture matrix, whatever was registered before *)
  Definition sys_free (o : op) : bool :=
    match o with RegSystem _ _ _ | RegBounds _ _ | RegSysAdapt _ _ _ => false | _ => true end.

  Definition eqS (s s' : st) : Prop := s_K s = s_K s' /\ s_base s = s_base s' /\ s_tgt s = s_tgt s'.

  Lemma eqS_step : forall s s' o, eqS s s' -> sys_free o = true -> eqS (step s o) (step s' o).
  Proof.
    intros [K b y t] [K' b' y' t'] o [H1 [H2 H3]] Ho. simpl in H1, H2, H3. subst K' b' t'.
    destruct o; simpl in Ho; try discriminate Ho; unfold eqS; simpl; try (repeat split; fail).
    destruct t as [[B W]|]; simpl; repeat split.
  Qed.

  Theorem system_replaced : forall s S1 l1 u1 S2 l2 u2 h, forallb sys_free h = true ->
    run s (RegSystem S1 l1 u1 :: h ++ [RegSystem S2 l2 u2]) = run s (h ++ [RegSystem S2 l2 u2]).
  Proof.
    intros s S1 l1 u1 S2 l2 u2 h Hh. rewrite run_cons, !run_snoc.
    assert (E : eqS (run (step s (RegSystem S1 l1 u1)) h) (run s h)).
    { apply (run_rel eqS sys_free eqS_step); [|exact Hh]. unfold eqS; simpl; repeat split. }
    destruct (run (step s (RegSystem S1 l1 u1)) h) as [Ka ba ya ta]; destruct (run s h) as [Kb bb yb tb].
    destruct E as [E1 [E2 E3]]; simpl in E1, E2, E3; subst; reflexivity.
  Qed.

  (* ---- registrations of independent fields commute ---- *)
  Theorem bounds_baseline_commute : forall s lb ub b,
    step (step s (RegBounds lb ub)) (RegBaseline b) = step (step s (RegBaseline b)) (RegBounds lb ub).
  Proof. intros [K b0 [y|] t] lb ub b; reflexivity. Qed.

  Theorem bounds_adapt_commute : forall s lb ub K,
    step (step s (RegBounds lb ub)) (RegAdapt K) = step (step s (RegAdapt K)) (RegBounds lb ub).
  Proof. intros [K0 b0 [y|] t] lb ub K; reflexivity. Qed.

  Theorem adapt_baseline_commute : forall s K b,
    step (step s (RegAdapt K)) (RegBaseline b) = step (step s (RegBaseline b)) (RegAdapt K).
  Proof. intros s K b. reflexivity. Qed.

  Theorem targets_commute_with_registrations : forall s B W o,
    match o with RegTargets _ _ | FitInternal _ => False | _ => True end ->
    step (step s (RegTargets B W)) o = step (step s o) (RegTargets B W).
  Proof.
    intros [K b0 [y|] t] B W o Ho; destruct o; try contradiction; reflexivity.
  Qed.

  Theorem system_adapt_commute : forall s S lb ub K,
    step (step s (RegSystem S lb ub)) (RegAdapt K) = step (step s (RegAdapt K)) (RegSystem S lb ub).
  Proof. intros. reflexivity. Qed.

  Theorem system_baseline_commute : forall s S lb ub b,
    step (step s (RegSystem S lb ub)) (RegBaseline b) = step (step s (RegBaseline b)) (RegSystem S lb ub).
  Proof. intros. reflexivity. Qed.
  (* background adaptation reads the baseline: order matters there (witness that they do NOT commute in general) *)
End Laws.

Theorem background_baseline_do_not_commute : exists dom F s bg b,
  step dom F (step dom F s (RegBaseline b)) (RegBackground bg true false) <>
  step dom F (step dom F s (RegBackground bg true false)) (RegBaseline b).
Proof.
  exists (Dx 1), [[1;1]], {| s_K := Ks 1; s_base := [0]; s_sys := None; s_tgt := None |}, [1;1], [1].
  intros H. apply (f_equal s_K) in H. vm_compute in H. discriminate H.
Qed.
