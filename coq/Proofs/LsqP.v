From Coq Require Import QArith Qabs Qminmax List Bool Lia Lqa.
From DV Require Import Base.QVec Run.Verdict Model.Linear Cert.Duality Model.Lsq Proofs.LinearP.
Import ListNotations.
Open Scope Q_scope.

Lemma Kshape_okb_spec K m : Kshape_okb K m = true -> Kshape_ok K m.
Proof.
  destruct K as [k|k|k]; simpl; auto.
  - apply Nat.eqb_eq.
  - rewrite andb_true_iff, Nat.eqb_eq. intros [H1 H2]. split; auto.
    unfold rect. rewrite forallb_forall in H2. apply Forall_forall. intros r Hr. apply Nat.eqb_eq; auto.
Qed.

Lemma feasible_box c x : in_boxo x (c_lb c) (c_ub c) -> feasible (box_inst c) x.
Proof. intros H. repeat split; simpl; auto. Qed.

Lemma len_form_M w A : length w = length A -> length (form_M w A) = length A.
Proof. apply len_map2v. Qed.
Lemma rect_map2v_vscale n w A : rect n A -> rect n (map2v vscale w A).
Proof.
  revert A; induction w as [|a w IH]; intros [|r A] H; simpl; try constructor.
  - rewrite len_vscale. inversion H; auto.
  - apply IH. inversion H; auto.
Qed.
Lemma len_transA K A n : Kshape_ok K (length A) -> length (transA K A n) = length A.
Proof.
  destruct K as [k|k|k]; simpl; unfold matmul; rewrite ?map_length; auto.
  - apply len_map2v. - intros [H _]; auto.
Qed.
Lemma rect_transA K A n : rect n A -> rect n (transA K A n).
Proof.
  intros HA. destruct K as [k|k|k]; simpl.
  - unfold rect in *. rewrite Forall_forall in *. intros r Hr. apply in_map_iff in Hr.
    destruct Hr as (r0 & <- & Hr0). rewrite len_vscale. auto.
  - apply rect_map2v_vscale; auto.
  - unfold matmul, rect. apply Forall_forall. intros r Hr. apply in_map_iff in Hr.
    destruct Hr as (r0 & <- & _). apply len_tmatvec; auto.
Qed.
Lemma len_transB K base : Kshape_ok K (length base) -> length (transB K base) = length base.
Proof.
  destruct K as [k|k|k]; simpl; intros H.
  - apply len_vscale. - rewrite len_vmul; auto. - destruct H. rewrite len_matvec; auto.
Qed.

(* The C04 certificate theorem: a passing verdict means that the implementation's X is, up to
   the stated accuracy, a global minimiser of the documented weighted squared capture error
   over ALL in-bound intensity vectors, stays within the (slackened) bounds, and its reported
   prediction is the model capture K(AX+baseline). *)
Theorem lsq_verdict_sound (c : case) : verdict c = true ->
  (forall x, in_boxo x (c_lb c) (c_ub c) ->
     forall t, 0 <= t -> spec_err (c_K c) (c_A c) (c_base c) (c_w c) (c_b c) x <= t * t ->
       spec_err (c_K c) (c_A c) (c_base c) (c_w c) (c_b c) (c_X c) <= (t + c_tolc c) * (t + c_tolc c))
  /\ in_box_tol (c_X c) (c_lb c) (c_ub c) (c_tolb c) = true
  /\ vclose (c_tolp c) (c_tolp c) (relcap (c_K c) (c_A c) (c_base c) (c_X c)) (c_Bpred c) = true.
Proof.
  unfold verdict. rewrite !andb_true_iff. intros [[[[Hs Hb] Hp] Ho] Htol].
  split; [|split; assumption]. apply Qle_bool_iff in Htol.
  unfold shapes_ok in Hs. rewrite !andb_true_iff in Hs.
  destruct Hs as [[[[[[[HA Hbase] HK] Hw] Hbl] HX] Hx0] Hwf].
  apply rectnb_rect in HA. apply Nat.eqb_eq in Hbase, Hw, Hbl, HX, Hx0. apply Kshape_okb_spec in HK.
  intros x Hx t Ht Hft.
  unfold opt_ok in Ho. destruct (lower c) as [L|] eqn:EL; [|discriminate].
  rewrite !andb_true_iff in Ho. destruct Ho as [[Hs0 Hss] HfX].
  apply Qle_bool_iff in Hs0, Hss, HfX.
  set (f := spec_err (c_K c) (c_A c) (c_base c) (c_w c) (c_b c)) in *.
  (* L <= f x by weak duality *)
  assert (HL : L <= f x).
  { unfold lower in EL.
    assert (Hlx : length x = c_n c).
    { destruct (in_boxo_len _ _ _ Hx) as [H1 _]. unfold wfb in Hwf. simpl in Hwf.
      rewrite !andb_true_iff in Hwf. destruct Hwf as [[[[H2 _] _] _] _]. apply Nat.eqb_eq in H2. lia. }
    assert (Hbase' : length (c_base c) = length (c_A c)) by lia.
    pose proof (dual_bound_sound (box_inst c) nocert (obj_ls (fM c) (fe c)) (obj_ls (fM c) (fe c) (c_x0 c))
      (grad_ls (c_n c) (fM c) (fe c) (c_x0 c)) (c_x0 c) L Hwf eq_refl) as H.
    assert (HrM : rect (c_n c) (fM c)).
    { unfold fM, form_M. apply rect_map2v_vscale. apply rect_transA; auto. }
    assert (HlM : length (fe c) = length (fM c)).
    { unfold fe, fM, form_e. rewrite len_form_M by (rewrite len_transA; auto; lia).
      rewrite len_transA by auto.
      assert (E1 : length (transB (c_K c) (c_base c)) = length (c_A c)) by (rewrite len_transB; rewrite Hbase'; auto).
      assert (E2 : length (vsub (c_b c) (transB (c_K c) (c_base c))) = length (c_A c)) by (rewrite len_vsub; lia).
      rewrite len_vmul; lia. }
    assert (Hg : length (grad_ls (c_n c) (fM c) (fe c) (c_x0 c)) = n (box_inst c)).
    { unfold grad_ls. rewrite len_vscale. apply len_tmatvec; auto. }
    specialize (H Hg Hx0).
    assert (Htan : forall x1, length x1 = n (box_inst c) ->
       obj_ls (fM c) (fe c) (c_x0 c) + dot (grad_ls (c_n c) (fM c) (fe c) (c_x0 c)) (vsub x1 (c_x0 c)) <= obj_ls (fM c) (fe c) x1).
    { intros x1 Hx1. apply tangent_ls; auto. }
    specialize (H Htan EL x (feasible_box c x Hx)).
    unfold fM, fe in H. rewrite (form_lsq_meets_spec (c_K c) (c_A c) (c_base c) (c_w c) (c_b c) x (c_n c)) in H; auto; lia. }
  (* s <= t *)
  assert (Hst : c_s c <= t).
  { apply le_of_sq_le; auto. apply Qle_trans with (Qmax 0 L); auto.
    apply Q.max_lub; [nra | lra]. }
  assert (0 <= c_s c + c_tolc c) by lra.
  apply Qle_trans with ((c_s c + c_tolc c) * (c_s c + c_tolc c)); auto. nra.
Qed.

(* zero weighted error <-> the target is reproduced exactly (weights non-zero) *)
Lemma vmul_zero_iff w v : length w = length v -> Forall (fun a => ~ a == 0) w ->
  (sq (vmul w v) == 0 <-> Forall (fun a => a == 0) v).
Proof.
  intros HL Hw. split.
  - intros H. apply sq_zero_all in H. revert v HL H. induction Hw as [|a w Ha Hw IH]; intros [|b v] HL H; simpl in *; try discriminate; constructor.
    + inversion H; subst. destruct (Qeq_dec b 0) as [|N]; auto. exfalso. apply Ha.
      destruct (Qeq_dec a 0) as [|Na]; auto. exfalso. assert (a * b == 0) by auto. 
      apply Qmult_integral in H0. tauto.
    + inversion H; subst. apply IH; auto.
  - intros H. revert w HL Hw. induction H as [|b v Hb Hv IH]; intros [|a w] HL Hw; simpl in *; try discriminate.
    + reflexivity.
    + unfold sq in *. simpl. inversion Hw; subst. rewrite (IH w) by (auto; lia). rewrite Hb. ring.
Qed.
Lemma vsub_zero_iff u v : length u = length v -> (Forall (fun a => a == 0) (vsub u v) <-> veq u v).
Proof.
  revert v; induction u as [|a u IH]; intros [|b v] HL; simpl in *; try discriminate.
  - split; constructor.
  - split; intros H; inversion H; subst; constructor; try lra; apply IH; auto.
Qed.
Theorem zero_error_iff_reproduced K A base w b x :
  length w = length b -> length (relcap K A base x) = length b -> Forall (fun a => ~ a == 0) w ->
  (spec_err K A base w b x == 0 <-> veq (relcap K A base x) b).
Proof.
  intros H1 H2 Hw. unfold spec_err. rewrite vmul_zero_iff by (auto; rewrite len_vsub; lia).
  apply vsub_zero_iff; auto.
Qed.
