From Coq Require Import QArith Qabs List Bool Arith Lia Lqa Setoid Morphisms.
From DV Require Import Base.QVec Run.Verdict Model.Bary.
Import ListNotations.
Open Scope Q_scope.

Lemma l1_vscale t x : 0 <= t -> l1 (vscale t x) == t * l1 x.
Proof.
  intros Ht. unfold l1, vscale. induction x as [|a x IH]; cbn [map sumQ]; [ring|].
  rewrite IH. rewrite (Qabs_Qmult t a), (Qabs_pos t Ht). ring.
Qed.
Lemma l1_nonneg x : 0 <= l1 x.
Proof. unfold l1. induction x as [|a x IH]; simpl; [lra|]. pose proof (Qabs_nonneg a). lra. Qed.

Lemma vscale_vscale s t x : veq (vscale s (vscale t x)) (vscale (s * t) x).
Proof. induction x; simpl; constructor; auto. ring. Qed.

(* chromatic reduction is invariant to the overall (positive) scale of a capture vector *)
Lemma normalize1_scale_invariant t x : 0 < t -> ~ l1 x == 0 -> veq (normalize1 (vscale t x)) (normalize1 x).
Proof.
  intros Ht Hx. unfold normalize1.
  assert (E : l1 (vscale t x) == t * l1 x) by (apply l1_vscale; lra).
  assert (Hn : ~ t * l1 x == 0).
  { intros H0. apply Qmult_integral in H0. destruct H0; [lra | contradiction]. }
  destruct (Qeq_bool (l1 (vscale t x)) 0) eqn:E1.
  - apply Qeq_bool_iff in E1. rewrite E in E1. contradiction.
  - destruct (Qeq_bool (l1 x) 0) eqn:E2.
    + apply Qeq_bool_iff in E2. contradiction.
    + rewrite vscale_vscale. apply vscale_Proper; [|reflexivity]. rewrite E. field. split; [auto | lra].
Qed.

Lemma vzero_lin a b ncol : veq (vzero ncol) (vadd (vscale a (vzero ncol)) (vscale b (vzero ncol))).
Proof. unfold vzero. induction ncol; simpl; constructor; auto. ring. Qed.
Lemma tmatvec_lin A ncol : forall a b x y, length x = length y ->
  veq (tmatvec A (vadd (vscale a x) (vscale b y)) ncol) (vadd (vscale a (tmatvec A x ncol)) (vscale b (tmatvec A y ncol))).
Proof.
  induction A as [|r A IH]; intros a b x y HL.
  - destruct x, y; simpl; apply vzero_lin.
  - destruct x as [|x0 x], y as [|y0 y]; simpl in HL; try discriminate.
    + simpl. apply vzero_lin.
    + cbn [tmatvec vadd vscale map]. rewrite (IH a b x y) by lia. clear IH.
      generalize (tmatvec A x ncol) (tmatvec A y ncol). revert r.
      induction r as [|r0 r IHr]; intros [|u0 u] [|v0 v]; simpl; try constructor; try ring. apply IHr.
Qed.

(* barycentric_to_cartesian is affine: it maps affine combinations to affine combinations *)
Lemma b2c_affine A n center a b x y : length x = length y -> a + b == 1 ->
  length (tmatvec A x (n - 1)) = length (center_row A n (n - 1)) ->
  length (tmatvec A y (n - 1)) = length (center_row A n (n - 1)) ->
  veq (b2c A n center (vadd (vscale a x) (vscale b y))) (vadd (vscale a (b2c A n center x)) (vscale b (b2c A n center y))).
Proof.
  intros HL Hab H1 H2. unfold b2c, rowmat.
  pose proof (tmatvec_lin A (n - 1) a b x y HL) as E.
  destruct center; [|exact E].
  revert E H1 H2. generalize (center_row A n (n - 1)) (tmatvec A (vadd (vscale a x) (vscale b y)) (n - 1)).
  generalize (tmatvec A x (n - 1)) (tmatvec A y (n - 1)).
  induction v as [|u0 u IH]; intros [|w0 w] [|c0 c] [|z0 z] E E1 E2; simpl in *; try discriminate;
    try (inversion E; fail); constructor.
  - inversion E; subst. rewrite H2. setoid_replace c0 with ((a + b) * c0) at 1 by (rewrite Hab; ring). ring.
  - inversion E; subst. apply IH; auto.
Qed.
