(* Proofs/FitsP.v — the secondary fitting routines (C08, C09): formulations equal the documented objectives,
   a passing verdict certifies optimality over all feasible intensities.  No axioms. *)
From Coq Require Import QArith Qabs Qminmax List Bool Arith Lia Lqa Setoid Morphisms.
From DV Require Import Base.QVec Run.Verdict Model.Linear Cert.Duality Cert.Qp Model.Fits Proofs.LinearP.
Import ListNotations.
Open Scope Q_scope.

(* ---------- helper lemmas ---------- *)
Lemma dot_ones n x : length x = n -> dot (ones n) x == sumQ x.
Proof. intros H. subst n. unfold ones. apply dot_ones_sum. Qed.

Lemma sq_nil : sq [] == 0.
Proof. reflexivity. Qed.

Lemma obj_ls_nil x : obj_ls [] [] x == 0.
Proof. reflexivity. Qed.

Lemma obj_diag_vzero n x : obj_diag (vzero n) x == 0.
Proof. unfold obj_diag. apply dot_vzero_l. Qed.

Lemma vsub_vzero v : veq (vsub v (vzero (length v))) v.
Proof. induction v as [|a v IH]; simpl; constructor; auto. ring. Qed.

Lemma nthQ_vscale t v i : nthQ (vscale t v) i == t * nthQ v i.
Proof.
  unfold nthQ, vscale. revert i; induction v as [|a v IH]; intros [|i]; simpl; try ring. apply IH.
Qed.

Lemma map_seq_veq (g : nat -> Q) v s :
  (forall k, (k < length v)%nat -> g (s + k)%nat == nthQ v k) -> veq (map g (seq s (length v))) v.
Proof.
  revert s; induction v as [|a v IH]; intros s H; simpl; constructor.
  - specialize (H 0%nat). simpl in H. rewrite Nat.add_0_r in H. apply H. lia.
  - apply IH. intros k Hk. specialize (H (S k)). simpl in H.
    replace (S s + k)%nat with (s + S k)%nat by lia. apply H. lia.
Qed.

Definition urow (i : nat) : nat -> Q := fun j => if Nat.eqb i j then 1 else 0.

Lemma dot_unit_lt i s n x : (i < s)%nat -> dot (map (urow i) (seq s n)) x == 0.
Proof.
  revert s x; induction n as [|n IH]; intros s [|a x] H; simpl; try reflexivity.
  unfold urow at 1. destruct (Nat.eqb_spec i s) as [E|E]; [lia|].
  rewrite IH by lia. ring.
Qed.

Lemma dot_unit i s n x : length x = n -> (s <= i < s + n)%nat ->
  dot (map (urow i) (seq s n)) x == nthQ x (i - s).
Proof.
  revert s x; induction n as [|n IH]; intros s [|a x] HL H; simpl in *; try discriminate; try lia.
  unfold urow at 1. destruct (Nat.eqb_spec i s) as [E|E].
  - subst i. rewrite dot_unit_lt by lia. rewrite Nat.sub_diag. unfold nthQ. simpl. ring.
  - rewrite (IH (S s) x) by lia.
    replace (i - s)%nat with (S (i - S s)) by lia. unfold nthQ. simpl. ring.
Qed.

Lemma matvec_identm n x : length x = n -> veq (matvec (identm n) x) x.
Proof.
  intros H. subst n. unfold matvec, identm. rewrite map_map.
  apply map_seq_veq. intros k Hk. simpl.
  change (dot (map (urow k) (seq 0 (length x))) x == nthQ x k).
  rewrite dot_unit by lia. rewrite Nat.sub_0_r. reflexivity.
Qed.

Lemma dot_map_sub (f : nat -> Q) c s n x : length x = n ->
  dot (map (fun j => f j - c) (seq s n)) x == dot (map f (seq s n)) x - c * sumQ x.
Proof.
  revert s x; induction n as [|n IH]; intros s [|a x] H; simpl in *; try discriminate; try ring.
  rewrite IH by lia. ring.
Qed.

Lemma nthQ_vsub_repeat x m k : (k < length x)%nat ->
  nthQ (vsub x (repeat m (length x))) k == nthQ x k - m.
Proof.
  unfold nthQ. revert k; induction x as [|a x IH]; intros [|k] H; simpl in *; try lia; try reflexivity.
  apply IH. lia.
Qed.

Lemma len_vsub_repeat x m : length (vsub x (repeat m (length x))) = length x.
Proof. rewrite len_vsub; auto. rewrite repeat_length. reflexivity. Qed.

Lemma matvec_centering x : (0 < length x)%nat ->
  veq (matvec (centering (length x)) x)
      (vsub x (repeat (sumQ x / inject_Z (Z.of_nat (length x))) (length x))).
Proof.
  intros Hn. set (m := sumQ x / inject_Z (Z.of_nat (length x))).
  unfold matvec, centering. rewrite map_map.
  pose proof (len_vsub_repeat x m) as HL.
  rewrite <- HL at 1.
  apply map_seq_veq. intros k Hk. rewrite HL in Hk. simpl.
  rewrite nthQ_vsub_repeat by lia.
  rewrite (dot_map_sub (urow k) (1 / inject_Z (Z.of_nat (length x))) 0 (length x) x eq_refl).
  rewrite dot_unit by lia. rewrite Nat.sub_0_r.
  assert (Hz : 0 < inject_Z (Z.of_nat (length x))).
  { unfold Qlt. simpl. lia. }
  unfold m. field. lra.
Qed.

(* ---------- objectives of underdetermined_opt are the documented ones (for every x of length n) ---------- *)
Definition mean (x : vec) : Q := sumQ x / inject_Z (Z.of_nat (length x)).
Theorem obj_l2_spec n x : length x = n -> objective (under_obj n Ol2) x == sumQ (vmul x x).
Proof.
  intros H. unfold objective. simpl. rewrite obj_ls_nil, dot_vzero_l. unfold obj_diag.
  rewrite dot_ones by (rewrite len_vmul; auto). ring.
Qed.
Theorem obj_min_spec n x : length x = n -> objective (under_obj n Omin) x == sumQ x.
Proof.
  intros H. unfold objective. simpl. rewrite obj_ls_nil, obj_diag_vzero, dot_ones by auto. ring.
Qed.
Theorem obj_max_spec n x : length x = n -> objective (under_obj n Omax) x == - sumQ x.
Proof.
  intros H. unfold objective. simpl. rewrite obj_ls_nil, obj_diag_vzero, dot_vscale_l, dot_ones by auto. ring.
Qed.
Theorem obj_num_spec n v x : length x = n -> objective (under_obj n (Onum v)) x == (sumQ x - v) * (sumQ x - v).
Proof.
  intros H. unfold objective. simpl. rewrite obj_diag_vzero, dot_vzero_l.
  unfold obj_ls, sq. simpl. rewrite dot_ones by auto. ring.
Qed.
Theorem obj_vec_spec n v x : length x = n -> length v = n -> objective (under_obj n (Ovec v)) x == sq (vsub x v).
Proof.
  intros H Hv. unfold objective. simpl. rewrite obj_diag_vzero, dot_vzero_l.
  unfold obj_ls. rewrite (matvec_identm n x H). ring.
Qed.
(* variance across sources (times n) *)
Theorem obj_var_spec n x : length x = n -> (0 < n)%nat ->
  objective (under_obj n Ovar) x == sq (vsub x (repeat (mean x) n)).
Proof.
  intros H Hn. subst n. unfold objective. simpl. rewrite obj_diag_vzero, dot_vzero_l.
  unfold obj_ls, mean. rewrite (matvec_centering x Hn).
  set (u := vsub x (repeat (sumQ x / inject_Z (Z.of_nat (length x))) (length x))).
  assert (HL : length u = length x) by apply len_vsub_repeat.
  assert (E : veq (vsub u (vzero (length x))) u) by (rewrite <- HL; apply vsub_vzero).
  change (repeat 0 (length x)) with (vzero (length x)).
  rewrite E. ring.
Qed.
(* minimising the Euclidean norm and minimising its square have the same minimisers (monotonicity of t^2 on t >= 0) *)
Theorem l2_same_minimisers (a b : Q) : 0 <= a -> 0 <= b -> (a * a <= b * b <-> a <= b).
Proof.
  intros Ha Hb. split; intros H.
  - destruct (Qlt_le_dec b a) as [L|L]; [|assumption]. nra.
  - nra.
Qed.

(* ---------- the fit-quality cone is the documented reproduction constraint ---------- *)
(* feasibility for the cone  ==  weighted squared capture error <= rho^2 *)
Theorem fit_cone_spec K A n base w b rho x : rect n A -> length base = length A -> Kshape_ok K (length A) ->
  length w = length A -> length b = length A ->
  (cone_feas (fit_cone K A n base w b rho) x <-> (0 <= rho /\ spec_err K A base w b x <= rho * rho)).
Proof.
  intros HA Hb HK Hw Hbl. unfold cone_feas, fit_cone. simpl.
  pose proof (form_lsq_meets_spec K A base w b x n HA Hb HK Hw Hbl) as E. unfold obj_ls in E.
  rewrite E. tauto.
Qed.

(* ---------- (C) certificates ---------- *)
(* C08: a passing verdict => among ALL in-bound intensities reproducing the target within l2_eps (weighted norm),
   the implementation's X optimises the selected secondary objective up to u_tol_obj *)
Theorem under_verdict_sound (c : ucase) : uverdict c = true ->
  rect (u_n c) (u_A c) -> length (u_base c) = length (u_A c) -> Kshape_ok (u_K c) (length (u_A c)) ->
  length (u_w c) = length (u_A c) -> length (u_b c) = length (u_A c) ->
  forall x, in_boxo x (somesv (u_lb c)) (somesv (u_ub c)) -> 0 <= u_eps c ->
    spec_err (u_K c) (u_A c) (u_base c) (u_w c) (u_b c) x <= u_eps c * u_eps c ->
    objective (under_obj (u_n c) (u_opt c)) (u_X c) <= objective (under_obj (u_n c) (u_opt c)) x + u_tol_obj c.
Proof.
  intros Hv HA Hb HK Hw Hbl x Hbox Heps Herr.
  unfold uverdict in Hv. apply andb_true_iff in Hv. destruct Hv as [Hq _].
  apply (qverdict_sound (u_qcase c) Hq x).
  unfold feasible. simpl. split; [exact Hbox|]. split; [exact I|].
  constructor; [|constructor].
  apply fit_cone_spec; auto.
Qed.

(* C09: objective of the code, sum(Epsilon @ x^2), is sum_i d_i x_i^2 with d the column sums *)
Theorem variance_objective_spec n E x : rect n E -> length x = n ->
  obj_diag (colsums n E) x == sumQ (bvar E x).
Proof.
  intros HE Hx. unfold obj_diag, colsums, bvar.
  rewrite <- (transpose_id E (ones (length E)) (vmul x x) n HE) by (unfold ones; apply repeat_length).
  apply dot_ones. apply len_matvec.
Qed.

Lemma objective_diag_only d n x :
  objective {| o_d := d; o_M := []; o_e := []; o_c := vzero n |} x == obj_diag d x.
Proof. unfold objective. simpl. rewrite obj_ls_nil, dot_vzero_l. ring. Qed.

(* a passing verdict => minimal summed capture variance among all in-bound intensities within the error budget
   (and within the L1 window when requested) *)
Theorem minvar_verdict_sound (c : vcase) : vverdict c = true ->
  rect (v_n c) (v_A c) -> length (v_base c) = length (v_A c) -> Kshape_ok (v_K c) (length (v_A c)) ->
  length (v_w c) = length (v_A c) -> length (v_b c) = length (v_A c) ->
  forall x, in_boxo x (somesv (v_lb c)) (somesv (v_ub c)) -> 0 <= v_rho c ->
    spec_err (v_K c) (v_A c) (v_base c) (v_w c) (v_b c) x <= v_rho c * v_rho c ->
    (match v_l1 c with None => True | Some (L, e) => L - e <= sumQ x /\ sumQ x <= L + e end) -> length x = v_n c ->
    obj_diag (colsums (v_n c) (eps_model (v_K c) (v_A c) (v_n c) (v_Eps c))) (v_X c)
      <= obj_diag (colsums (v_n c) (eps_model (v_K c) (v_A c) (v_n c) (v_Eps c))) x + v_tol_obj c.
Proof.
  intros Hv HA Hb HK Hw Hbl x Hbox Hrho Herr Hl1 Hx.
  unfold vverdict in Hv. rewrite !andb_true_iff in Hv. destruct Hv as [[Hq _] _].
  assert (Hf : feasible (q_inst (v_qcase c)) x).
  { unfold feasible. simpl. split; [exact Hbox|]. split.
    - destruct (v_l1 c) as [[L e]|]; simpl; [|exact I].
      rewrite dot_vscale_l, dot_ones by auto. destruct Hl1 as [H1 H2].
      split; [exact H2|]. split; [lra|exact I].
    - constructor; [|constructor]. apply fit_cone_spec; auto. }
  pose proof (qverdict_sound (v_qcase c) Hq x Hf) as H. simpl in H.
  rewrite !objective_diag_only in H. exact H.
Qed.

(* propagate_error for a per-receptor K: variance scales with K_j^2 *)
Theorem propagate_vector_spec k E n j i : (j < length E)%nat -> length k = length E ->
  nthQ (nthV (propagate (Kv k) E n) j) i == nthQ k j * nthQ k j * nthQ (nthV E j) i.
Proof.
  unfold propagate, nthV. revert E j; induction k as [|a k IH]; intros [|r E] [|j] Hj HL; simpl in *;
    try discriminate; try lia.
  - apply nthQ_vscale.
  - apply IH; lia.
Qed.
