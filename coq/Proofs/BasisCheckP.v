(* Proofs/BasisCheckP.v — the executable full-rank test is sound, and a passing C06 verdict on a full-rank case means that the
   implementation's (Xmin, Xmax) bracket EVERY in-bound solution up to the comparison tolerance (no LP certificate needed). *)
From Coq Require Import QArith Qabs Qminmax List Bool Arith Lia Lqa Setoid Morphisms.
From DV Require Import Base.QVec Run.Verdict Model.Linear Cert.Hull Model.Gauss Model.Range Proofs.RangeP
  Proofs.VertexDefs Proofs.LinAlgP Proofs.SupportP Proofs.PurifyP Proofs.RangeCompleteP.
Import ListNotations.
Open Scope Q_scope.

(* elimination succeeds only on systems whose coefficient part is injective *)
Lemma solve_aug_some_inj : forall (n : nat) (M : mat) (z : vec),
  Forall (fun r => length r = S n) M -> solve_aug n M = Some z ->
  forall d, length d = n -> kerv M (d ++ [0]) -> zerov d.
Proof.
  induction n as [|n IH]; intros M z HM Hs d Hd Hk.
  - destruct d; [constructor | discriminate].
  - cbn [solve_aug] in Hs.
    destruct (pick_pivot M) as [[p rest]|] eqn:EP; [|discriminate Hs].
    destruct (solve_aug n (map (reduce_row p) rest)) as [z'|] eqn:Es; [|discriminate Hs].
    destruct (pick_pivot_some _ _ _ EP) as (Hnz & _ & HP).
    apply HP in HM. destruct HM as [Hp Hrest].
    destruct d as [|d0 d']; [discriminate|]. cbn [length] in Hd.
    change ((d0 :: d') ++ [0]) with (d0 :: (d' ++ [0])) in Hk.
    unfold kerv in Hk. apply HP in Hk. destruct Hk as [Hpd Hkr].
    assert (Hz : zerov d').
    { apply (IH (map (reduce_row p) rest) z').
      - apply rect_map_reduce_row; assumption.
      - exact Es.
      - lia.
      - apply kerv_map_reduce_row.
        apply (kerv_map_red (S n) p rest d0 (d' ++ [0]) Hp Hrest Hnz Hpd). exact Hkr. }
    constructor; [|exact Hz].
    rewrite dot_cons_hd in Hpd by lia.
    rewrite (LinAlgP.dot_zerov_r _ _ (zerov_app_zero _ Hz)) in Hpd.
    destruct (Qmult_integral (hdQ p) d0) as [E|E]; [lra | contradiction | exact E].
Qed.

(* ---------- combinations are increasing sub-lists ---------- *)
Lemma bc_filter_false {X} (q : X -> bool) l : (forall i, In i l -> q i = false) -> filter q l = [].
Proof.
  induction l as [|a l IH]; intros H; [reflexivity|].
  cbn [filter]. rewrite (H a (or_introl eq_refl)). apply IH. intros i Hi. apply H. right. exact Hi.
Qed.

Lemma bc_combs_spec : forall l k T, NoDup l -> In T (combs k l) ->
  length T = k /\ (forall i, In i T -> In i l) /\ filter (fun i => existsb (Nat.eqb i) T) l = T.
Proof.
  induction l as [|a l IH]; intros k T ND HS.
  - destruct k as [|k]; cbn [combs] in HS.
    + destruct HS as [HS|[]]. subst T. split; [reflexivity|]. split; [intros i []|reflexivity].
    + destruct HS.
  - destruct k as [|k].
    + cbn [combs] in HS. destruct HS as [HS|[]]. subst T. split; [reflexivity|]. split; [intros i []|].
      apply bc_filter_false. intros i _. reflexivity.
    + inversion ND as [|a' l' Ha ND']; subst.
      cbn [combs] in HS. apply in_app_or in HS. destruct HS as [HS|HS].
      * apply in_map_iff in HS. destruct HS as (T' & E & HT'). subst T.
        destruct (IH k T' ND' HT') as (H1 & H2 & H3).
        split; [cbn [length]; lia|]. split.
        -- intros i [Hi|Hi]; [left; exact Hi|right; apply H2; exact Hi].
        -- cbn [filter existsb]. rewrite Nat.eqb_refl. cbn [orb]. f_equal.
           etransitivity; [|exact H3]. apply filter_ext_in. intros i Hi.
           destruct (Nat.eqb_spec i a) as [E|NE]; [subst i; contradiction|reflexivity].
      * destruct (IH (S k) T ND' HS) as (H1 & H2 & H3).
        split; [exact H1|]. split; [intros i Hi; right; apply H2; exact Hi|].
        cbn [filter].
        assert (E : existsb (Nat.eqb a) T = false).
        { destruct (existsb (Nat.eqb a) T) eqn:Ex; [|reflexivity]. exfalso.
          apply existsb_exists in Ex. destruct Ex as (j & Hj & Ej). apply Nat.eqb_eq in Ej. subst j.
          apply Ha. apply H2. exact Hj. }
        rewrite E. exact H3.
Qed.

(* ---------- the homogeneous augmented system ---------- *)
Lemma bc_kerv_augment0 d : forall M rhs, rect (length d) M -> kerv M d -> kerv (augment M rhs) (d ++ [0]).
Proof.
  induction M as [|r M IH]; intros [|q rhs] HR HK; cbn [augment]; try constructor.
  - inversion HR as [|r' M' Hr HR']; subst. inversion HK as [|r' M' Hd HK']; subst.
    rewrite dot_app_last by exact Hr. rewrite Hd. ring.
  - inversion HR; subst. inversion HK; subst. apply IH; assumption.
Qed.

Lemma has_basis_b_sound : forall A n, rect n A -> has_basis_b A n = true -> has_basis A n.
Proof.
  intros A n HA HB. unfold has_basis_b in HB. apply existsb_exists in HB.
  destruct HB as (S & HS & Hsol).
  destruct (solve_ge (cols A S) (vzero (length A))) as [z|] eqn:Ez; [clear Hsol|discriminate Hsol].
  destruct (bc_combs_spec (seq 0 n) (length A) S (seq_NoDup n 0) HS) as (HlenS & _ & Hfil).
  set (p := fun i => existsb (Nat.eqb i) S).
  assert (HL : idxs p n = S) by exact Hfil.
  exists p. split; [|rewrite HL; exact HlenS].
  unfold solve_ge in Ez. rewrite len_cols in Ez. rewrite <- HlenS in Ez.
  pose proof (solve_aug_some_inj (length S) _ z
    (rect_augment (length S) (cols A S) (vzero (length S)) (rect_cols A S)) Ez) as Hinj.
  assert (HLn : forall i, In i (idxs p n) -> (i < n)%nat) by (intros i Hi; apply sp_idxs_In in Hi; tauto).
  intros d Hd Hs Hk.
  pose proof (sp_embed_restrict n p d Hd Hs) as Hveq.
  assert (Hz : zerov (select (idxs p n) d 0)).
  { rewrite HL. apply Hinj; [apply len_select|].
    apply bc_kerv_augment0; [rewrite len_select; apply rect_cols|].
    unfold kerv, cols. rewrite Forall_map. unfold kerv in Hk.
    eapply Forall_impl; [|exact Hk]. intros r Hr. cbv beta.
    rewrite <- HL. rewrite <- sp_dot_embed by exact HLn. rewrite Hveq. exact Hr. }
  apply (sp_nth_zerov_lt d n Hd). intros i Hi.
  destruct (p i) eqn:Ep; [|apply Hs; exact Ep].
  assert (HIn : In (nthQ d i) (select (idxs p n) d 0)).
  { unfold select. apply in_map_iff. exists i. split; [reflexivity|]. apply sp_idxs_In. split; assumption. }
  unfold zerov in Hz. rewrite Forall_forall in Hz. apply Hz. exact HIn.
Qed.

(* |m - i| <= atol + rtol |m| *)
Lemma close_spec : forall atol rtol m i, close atol rtol m i = true -> Qabs (m - i) <= atol + rtol * Qabs m.
Proof.
  intros atol rtol m i H. unfold close in H. apply Qle_bool_iff in H.
  rewrite !Qred_correct in H. exact H.
Qed.

(* ---------- entrywise reading of vclose ---------- *)
Lemma vclose_len atol rtol : forall m i, vclose atol rtol m i = true -> length m = length i.
Proof.
  induction m as [|a m IH]; intros [|b i] H; cbn [vclose] in H; try discriminate H; [reflexivity|].
  apply andb_true_iff in H. destruct H as [_ H]. cbn [length]. rewrite (IH i H). reflexivity.
Qed.

Lemma vclose_nth atol rtol : forall m i k, vclose atol rtol m i = true -> (k < length m)%nat ->
  close atol rtol (nthQ m k) (nthQ i k) = true.
Proof.
  induction m as [|a m IH]; intros [|b i] k H Hk; cbn [vclose] in H; try discriminate H; cbn [length] in Hk; [lia|].
  apply andb_true_iff in H. destruct H as [H1 H2].
  destruct k as [|k].
  - rewrite !nthQ_cons_O. exact H1.
  - rewrite !nthQ_cons_S. apply IH; [exact H2|lia].
Qed.

Lemma bc_len_fold_vmin2 cands : forall init, Forall (fun x : vec => length x = length init) cands ->
  length (fold_left vmin2 cands init) = length init.
Proof.
  induction cands as [|c cands IH]; intros init HF; [reflexivity|].
  inversion HF as [|c' cands' Hc HF']; subst. cbn [fold_left].
  rewrite IH by (apply Forall_len_vmin2; assumption).
  apply len_vmin2. symmetry. exact Hc.
Qed.
Lemma bc_len_fold_vmax2 cands : forall init, Forall (fun x : vec => length x = length init) cands ->
  length (fold_left vmax2 cands init) = length init.
Proof.
  induction cands as [|c cands IH]; intros init HF; [reflexivity|].
  inversion HF as [|c' cands' Hc HF']; subst. cbn [fold_left].
  rewrite IH by (apply Forall_len_vmax2; assumption).
  apply len_vmax2. symmetry. exact Hc.
Qed.

Lemma bc_range_model_len A b lb ub n mins maxs : range_model A b lb ub n = Ok (mins, maxs) ->
  length mins = length ub /\ length maxs = length lb.
Proof.
  intros Hr. unfold range_model in Hr.
  destruct (candidates A b lb ub n) as [cands|e] eqn:Hc; [|discriminate Hr].
  injection Hr as Hmins Hmaxs. subst mins maxs.
  pose proof (candidates_sound _ _ _ _ _ _ Hc) as Hs.
  split.
  - apply bc_len_fold_vmin2. eapply Forall_impl; [|exact Hs].
    intros y [Hb _]. destruct (in_box_len _ _ _ Hb) as [_ Hl]. exact Hl.
  - apply bc_len_fold_vmax2. eapply Forall_impl; [|exact Hs].
    intros y [Hb _]. destruct (in_box_len _ _ _ Hb) as [Hl _]. exact Hl.
Qed.

Theorem verdict_exact : forall (c : case) (mins maxs : vec),
  verdict c = true -> c_expect c = 0%nat -> c_fullrank c = true -> c_impl c = Ok (mins, maxs) ->
  rect (c_n c) (A' c) -> (length (A' c) <= c_n c)%nat -> length (c_lb c) = c_n c -> length (c_ub c) = c_n c ->
  forall x k, (k < c_n c)%nat -> sol_set (A' c) (b' c) (c_lb c) (c_ub c) x ->
  exists mm MM, mm <= nthQ x k /\ nthQ x k <= MM /\
    Qabs (mm - nthQ mins k) <= c_tol c + c_tol c * Qabs mm /\ Qabs (MM - nthQ maxs k) <= c_tol c + c_tol c * Qabs MM.
Proof.
  intros c mins maxs Hv He Hfr Hi HA Hmn Hlb Hub x k Hk Hx.
  unfold verdict in Hv. rewrite He, Hi in Hv. cbv beta iota in Hv.
  destruct (range_model (A' c) (b' c) (c_lb c) (c_ub c) (c_n c)) as [[mmins mmaxs]|e] eqn:Hr; [|discriminate Hv].
  rewrite Hfr in Hv. cbn [negb orb] in Hv.
  repeat (apply andb_true_iff in Hv; destruct Hv as [Hv ?]).
  match goal with H : has_basis_b _ _ = true |- _ => rename H into Hbb end.
  match goal with H : vclose _ _ mmaxs maxs = true |- _ => rename H into Hcmax end.
  rename Hv into Hcmin.
  pose proof (has_basis_b_sound _ _ HA Hbb) as Hbas.
  destruct (range_exact _ _ _ _ _ k x _ _ HA Hmn Hlb Hub Hbas Hk Hx Hr) as [Hlo Hhi].
  destruct (bc_range_model_len _ _ _ _ _ _ _ Hr) as [Hl1 Hl2].
  exists (nthQ mmins k), (nthQ mmaxs k).
  split; [exact Hlo|]. split; [exact Hhi|]. split.
  - apply close_spec. apply vclose_nth; [exact Hcmin|lia].
  - apply close_spec. apply vclose_nth; [exact Hcmax|lia].
Qed.
