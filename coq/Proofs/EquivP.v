(* Proofs/EquivP.v — equivariance under a change of physical units (C15).  Proved, no axioms. *)
From Coq Require Import QArith Qabs List Bool Arith Lia Lqa Setoid Morphisms.
From DV Require Import Base.QVec Run.Verdict Model.Linear Cert.Duality Cert.Hull Model.Lsq Model.Range Model.Equiv.
From DV Require Import Proofs.LinearP.
Import ListNotations.
Open Scope Q_scope.

Definition obscale (t : Q) (l : list (option Q)) : list (option Q) := map (option_map (Qmult t)) l.

(* ---------- small pointwise facts ---------- *)
Lemma vscale_vscale a b u : veq (vscale a (vscale b u)) (vscale (a * b) u).
Proof. induction u as [|q u IH]; simpl; constructor; auto. ring. Qed.
Lemma vscale_1 u : veq (vscale 1 u) u.
Proof. induction u as [|q u IH]; simpl; constructor; auto. ring. Qed.
Lemma vscale_inj c u v : ~ c == 0 -> veq (vscale c u) (vscale c v) -> veq u v.
Proof.
  intros Hc. revert v; induction u as [|a u IH]; intros [|b v] H; simpl in H; inversion H; subst; constructor.
  - match goal with E : c * a == c * b |- _ => rename E into Hab end.
    assert (E1 : a == / c * (c * a)) by (field; exact Hc).
    assert (E2 : b == / c * (c * b)) by (field; exact Hc).
    rewrite E1, E2, Hab. reflexivity.
  - apply IH; assumption.
Qed.
Lemma vmul_vscale_r k c v : veq (vmul k (vscale c v)) (vscale c (vmul k v)).
Proof. revert v; induction k as [|a k IH]; intros [|b v]; simpl; constructor; [ring | apply IH]. Qed.
Lemma vsub_vscale c u v : veq (vsub (vscale c u) (vscale c v)) (vscale c (vsub u v)).
Proof. revert v; induction u as [|a u IH]; intros [|b v]; simpl; constructor; [ring | apply IH]. Qed.

Lemma twinx_undo s y : ~ s == 0 -> veq (twinx s (vscale s y)) y.
Proof.
  intros Hs. unfold twinx. rewrite vscale_vscale.
  transitivity (vscale 1 y); [|apply vscale_1].
  apply vscale_Proper; [field; exact Hs | reflexivity].
Qed.

Lemma matvec_twin s c A x : ~ s == 0 -> veq (matvec (twinA s c A) (twinx s x)) (vscale c (matvec A x)).
Proof.
  intros Hs. unfold twinA, mscale, twinx.
  rewrite matvec_map_vscale, matvec_vscale, vscale_vscale.
  apply vscale_Proper; [field; exact Hs | reflexivity].
Qed.

Lemma predict_veq A' base' x y : veq x y -> veq (predict A' base' x) (predict A' base' y).
Proof. intros H. unfold predict. rewrite H. reflexivity. Qed.

Lemma applyK_veq K u v : veq u v -> veq (applyK K u) (applyK K v).
Proof. intros H. destruct K as [k|k|k]; simpl; rewrite H; reflexivity. Qed.

Lemma spec_err_veq K A base w b x y : veq x y -> spec_err K A base w b x == spec_err K A base w b y.
Proof.
  intros H. unfold spec_err, relcap.
  assert (E : veq (applyK K (vadd (matvec A x) base)) (applyK K (vadd (matvec A y) base))).
  { apply applyK_veq. rewrite H. reflexivity. }
  rewrite E. reflexivity.
Qed.

(* ---------- boxes ---------- *)
Lemma in_boxo_veq x y lb ub : veq x y -> in_boxo x lb ub -> in_boxo y lb ub.
Proof.
  intros H. revert lb ub. induction H as [|a b x y Hab Hxy IH]; intros [|l lb] [|u ub]; simpl; try tauto.
  intros (H1 & H2 & H3). repeat split.
  - destruct l; [rewrite <- Hab; exact H1 | exact I].
  - destruct u; [rewrite <- Hab; exact H2 | exact I].
  - apply IH; exact H3.
Qed.

Lemma in_boxo_scale t x lb ub : 0 < t ->
  (in_boxo x lb ub <-> in_boxo (vscale t x) (obscale t lb) (obscale t ub)).
Proof.
  intros Ht. revert lb ub; induction x as [|a x IH]; intros [|l lb] [|u ub]; simpl; try tauto.
  specialize (IH lb ub).
  destruct l as [lq|], u as [uq|]; simpl;
    try pose proof (Qmult_le_l lq a t Ht); try pose proof (Qmult_le_l a uq t Ht); tauto.
Qed.

Lemma in_box_scale t x lb ub : 0 < t ->
  (in_box x lb ub <-> in_box (vscale t x) (vscale t lb) (vscale t ub)).
Proof.
  intros Ht. revert lb ub; induction x as [|a x IH]; intros [|l lb] [|u ub]; simpl; try tauto.
  specialize (IH lb ub).
  pose proof (Qmult_le_l l a t Ht). pose proof (Qmult_le_l a u t Ht). tauto.
Qed.

(* the model capture of the twin at x/s is c times the original capture at x *)
Lemma predict_twin A' base' s c x : 0 < s -> 
  veq (predict (twinA s c A') (vscale c base') (twinx s x)) (vscale c (predict A' base' x)).
Proof.
  intros Hs. unfold predict. rewrite matvec_twin by lra. symmetry. apply vscale_vadd.
Qed.

(* box membership is preserved by x |-> x/s with bounds divided by s *)
Lemma in_boxo_twin x lb ub s : 0 < s -> (in_boxo x lb ub <-> in_boxo (twinx s x) (obscale (/ s) lb) (obscale (/ s) ub)).
Proof. intros Hs. unfold twinx. apply in_boxo_scale. apply Qinv_lt_0_compat; exact Hs. Qed.

(* every point of the twin box is the image of a point of the original box *)
Lemma in_boxo_twin_inv y lb ub s : 0 < s -> in_boxo y (obscale (/ s) lb) (obscale (/ s) ub) ->
  in_boxo (vscale s y) lb ub /\ veq (twinx s (vscale s y)) y.
Proof.
  intros Hs Hy. assert (Hu : veq (twinx s (vscale s y)) y) by (apply twinx_undo; lra).
  split; [|exact Hu].
  apply (in_boxo_twin _ lb ub s Hs). apply (in_boxo_veq y); [symmetry; exact Hu | exact Hy].
Qed.

(* 1. gamut membership is unchanged *)
Theorem gamut_equivariant A' base' lb ub b s c : 0 < s -> 0 < c ->
  (reproducible A' base' lb ub b <-> reproducible (twinA s c A') (vscale c base') (obscale (/ s) lb) (obscale (/ s) ub) (twinb c b)).
Proof.
  intros Hs Hc. unfold reproducible, twinb. split.
  - intros [x [Hx Hv]]. exists (twinx s x). split.
    + apply in_boxo_twin; assumption.
    + rewrite predict_twin by exact Hs. rewrite Hv. reflexivity.
  - intros [y [Hy Hv]]. destruct (in_boxo_twin_inv y lb ub s Hs Hy) as [Hx Hu].
    exists (vscale s y). split; [exact Hx|].
    apply (vscale_inj c); [lra|].
    rewrite <- (predict_twin A' base' s c (vscale s y) Hs).
    rewrite (predict_veq _ _ _ _ Hu). exact Hv.
Qed.

(* 2. the solution polytope is mapped by x |-> x/s: every extent scales by exactly 1/s *)
Theorem polytope_equivariant A b lb ub x s c : 0 < s -> 0 < c ->
  (sol_set A b lb ub x <-> sol_set (twinA s c A) (twinb c b) (vscale (/ s) lb) (vscale (/ s) ub) (twinx s x)).
Proof.
  intros Hs Hc. unfold sol_set, twinb.
  assert (Hi : 0 < / s) by (apply Qinv_lt_0_compat; exact Hs).
  pose proof (in_box_scale (/ s) x lb ub Hi) as HB. unfold twinx at 1.
  assert (HV : veq (matvec A x) b <-> veq (matvec (twinA s c A) (twinx s x)) (vscale c b)).
  { rewrite matvec_twin by lra. split.
    - intros H; rewrite H; reflexivity.
    - apply vscale_inj; lra. }
  tauto.
Qed.

Lemma relcap_twin K A base x s c : ~ s == 0 ->
  veq (relcap K (twinA s c A) (vscale c base) (twinx s x)) (vscale c (relcap K A base x)).
Proof.
  intros Hs. unfold relcap.
  assert (E : veq (vadd (matvec (twinA s c A) (twinx s x)) (vscale c base))
                  (vscale c (vadd (matvec A x) base))).
  { rewrite matvec_twin by exact Hs. symmetry. apply vscale_vadd. }
  rewrite (applyK_veq K _ _ E).
  destruct K as [k|k|k]; simpl.
  - rewrite !vscale_vscale. apply vscale_Proper; [ring | reflexivity].
  - apply vmul_vscale_r.
  - apply matvec_vscale.
Qed.

(* 3. the weighted squared capture error of the twin at x/s is c^2 times the original at x
      (scalar / per-receptor / matrix adaptation K, unchanged) *)
Theorem lsq_equivariant K A base w b x s c n : 0 < s -> rect n A -> length base = length A -> Kshape_ok K (length A) ->
  length w = length A -> length b = length A -> length x = n ->
  spec_err K (twinA s c A) (vscale c base) w (twinb c b) (twinx s x) == c * c * spec_err K A base w b x.
Proof.
  intros Hs _ _ _ _ _ _. unfold spec_err, twinb.
  assert (E : veq (vmul w (vsub (relcap K (twinA s c A) (vscale c base) (twinx s x)) (vscale c b)))
                  (vscale c (vmul w (vsub (relcap K A base x) b)))).
  { rewrite relcap_twin by lra. rewrite vsub_vscale. apply vmul_vscale_r. }
  rewrite E. apply sq_vscale.
Qed.

(* hence exact minimisers correspond under x |-> x/s, and the optimal error scales by c *)
Corollary lsq_minimiser_equivariant K A base w b lb ub xs s c n : 0 < s -> 0 < c -> rect n A -> length base = length A ->
  Kshape_ok K (length A) -> length w = length A -> length b = length A -> length lb = n -> length ub = n ->
  in_boxo xs lb ub ->
  (forall x, in_boxo x lb ub -> spec_err K A base w b xs <= spec_err K A base w b x) ->
  forall y, in_boxo y (obscale (/ s) lb) (obscale (/ s) ub) ->
    spec_err K (twinA s c A) (vscale c base) w (twinb c b) (twinx s xs) <= spec_err K (twinA s c A) (vscale c base) w (twinb c b) y.
Proof.
  intros Hs Hc HA Hbase HK Hw Hb Hlb Hub Hxs Hmin y Hy.
  destruct (in_boxo_twin_inv y lb ub s Hs Hy) as [Hx Hu].
  rewrite <- (spec_err_veq K _ _ w _ _ _ Hu).
  destruct (in_boxo_len _ _ _ Hxs) as [L1 _]. destruct (in_boxo_len _ _ _ Hx) as [L2 _].
  rewrite (lsq_equivariant K A base w b xs s c n) by (auto; lia).
  rewrite (lsq_equivariant K A base w b (vscale s y) s c n) by (auto; lia).
  specialize (Hmin _ Hx).
  set (e1 := spec_err K A base w b xs) in *. set (e2 := spec_err K A base w b (vscale s y)) in *.
  assert (Hcc : 0 <= c * c) by nra.
  assert (H0 : 0 <= e2 - e1) by lra.
  pose proof (Qmult_le_0_compat _ _ Hcc H0). lra.
Qed.
