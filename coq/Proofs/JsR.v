(* Proofs/JsR.v — Jensen-Shannon divergence laws over the reals (C18).  
   Only the standard library's axioms of the reals may appear in Print Assumptions. *)
From Coq Require Import Reals Lra Lia List Arith.
Import ListNotations.
Open Scope R_scope.

Fixpoint sumR (v : list R) : R := match v with [] => 0 | a :: v' => a + sumR v' end.
Definition normalise (v : list R) : list R := map (fun a => a / sumR v) v.
(* x * log2(x / m) with the convention 0 log 0 = 0 (scipy.stats.entropy / rel_entr) *)
Definition xlog2 (x m : R) : R := if Req_EM_T x 0 then 0 else x * (ln (x / m) / ln 2).
Fixpoint kl (p m : list R) : R := match p, m with a :: p', b :: m' => xlog2 a b + kl p' m' | _, _ => 0 end.
Fixpoint mid (p q : list R) : list R := match p, q with a :: p', b :: q' => (a + b) / 2 :: mid p' q' | _, _ => [] end.
(* compute_jensen_shannon_divergence(P, Q, base=2) *)
Definition js (P Q : list R) : R := let p := normalise P in let q := normalise Q in
  (kl p (mid p q) + kl q (mid p q)) / 2.

Definition nonneg (v : list R) : Prop := Forall (fun a => 0 <= a) v.


(* ---------- scalar facts ---------- *)
Lemma ln2_pos : 0 < ln 2.
Proof. rewrite <- ln_1. apply ln_increasing; lra. Qed.

Lemma ln_le_sub1 : forall t, 0 < t -> ln t <= t - 1.
Proof.
  intros t Ht. destruct (Req_dec t 1) as [->|Hne].
  - rewrite ln_1. lra.
  - assert (H : 1 + (t - 1) < exp (t - 1)) by (apply exp_ineq1; lra).
    replace (1 + (t - 1)) with t in H by ring.
    apply (ln_increasing _ _ Ht) in H. rewrite ln_exp in H. lra.
Qed.

Lemma ln_lt_sub1 : forall t, 0 < t -> t <> 1 -> ln t < t - 1.
Proof.
  intros t Ht Hne.
  assert (H : 1 + (t - 1) < exp (t - 1)) by (apply exp_ineq1; lra).
  replace (1 + (t - 1)) with t in H by ring.
  apply (ln_increasing _ _ Ht) in H. rewrite ln_exp in H. lra.
Qed.

Lemma ln_flip : forall x m, 0 < x -> 0 < m -> ln (x / m) = - ln (m / x).
Proof.
  intros x m Hx Hm. replace (x / m) with (/ (m / x)) by (field; lra).
  apply ln_Rinv. apply Rdiv_lt_0_compat; lra.
Qed.

Lemma core : forall x m, 0 < x -> 0 < m -> x - m <= x * ln (x / m).
Proof.
  intros x m Hx Hm. rewrite ln_flip by lra.
  assert (Hr : 0 < m / x) by (apply Rdiv_lt_0_compat; lra).
  pose proof (ln_le_sub1 _ Hr) as HL.
  assert (H : x * ln (m / x) <= x * (m / x - 1)) by (apply Rmult_le_compat_l; lra).
  replace (x * (m / x - 1)) with (m - x) in H by (field; lra). lra.
Qed.

Lemma core_strict : forall x m, 0 < x -> 0 < m -> x <> m -> x - m < x * ln (x / m).
Proof.
  intros x m Hx Hm Hne. rewrite ln_flip by lra.
  assert (Hr : 0 < m / x) by (apply Rdiv_lt_0_compat; lra).
  assert (Hr1 : m / x <> 1).
  { intro E. apply Hne. apply (f_equal (fun z => z * x)) in E.
    replace (m / x * x) with m in E by (field; lra). lra. }
  pose proof (ln_lt_sub1 _ Hr Hr1) as HL.
  assert (H : x * ln (m / x) < x * (m / x - 1)) by (apply Rmult_lt_compat_l; lra).
  replace (x * (m / x - 1)) with (m - x) in H by (field; lra). lra.
Qed.

Lemma xlog2_0 : forall m, xlog2 0 m = 0.
Proof. intros m. unfold xlog2. destruct (Req_EM_T 0 0); [reflexivity | congruence]. Qed.

Lemma xlog2_ln : forall x m, x <> 0 -> xlog2 x m * ln 2 = x * ln (x / m).
Proof.
  intros x m Hx. unfold xlog2. destruct (Req_EM_T x 0); [contradiction|].
  pose proof ln2_pos. field. lra.
Qed.

Lemma xlog2_self : forall a, xlog2 a a = 0.
Proof.
  intros a. unfold xlog2. destruct (Req_EM_T a 0); [reflexivity|].
  replace (a / a) with 1 by (field; assumption). rewrite ln_1. unfold Rdiv. ring.
Qed.

Lemma scalarA : forall x y, 0 <= x -> 0 <= y -> x - (x + y) / 2 <= xlog2 x ((x + y) / 2) * ln 2.
Proof.
  intros x y Hx Hy. destruct (Req_dec x 0) as [->|Hne].
  - rewrite xlog2_0. lra.
  - rewrite xlog2_ln by assumption. apply core; lra.
Qed.

Lemma scalarB : forall x y, 0 <= x -> 0 <= y ->
  xlog2 x ((x + y) / 2) * ln 2 = x - (x + y) / 2 -> x = y.
Proof.
  intros x y Hx Hy E. destruct (Req_dec x 0) as [->|Hne].
  - rewrite xlog2_0 in E. lra.
  - rewrite xlog2_ln in E by assumption.
    destruct (Req_dec x ((x + y) / 2)) as [E'|Hne']; [lra|].
    assert (H : x - (x + y) / 2 < x * ln (x / ((x + y) / 2))) by (apply core_strict; lra).
    lra.
Qed.

Lemma scalarC : forall x y, 0 <= x -> 0 <= y -> xlog2 x ((x + y) / 2) <= x.
Proof.
  intros x y Hx Hy. destruct (Req_dec x 0) as [->|Hne].
  - rewrite xlog2_0. lra.
  - pose proof ln2_pos as L2.
    apply Rmult_le_reg_r with (ln 2); [assumption|].
    rewrite xlog2_ln by assumption.
    apply Rmult_le_compat_l; [assumption|].
    assert (Hx' : 0 < x) by lra.
    assert (Hq : 0 < x / ((x + y) / 2)) by (apply Rdiv_lt_0_compat; lra).
    assert (Hle : x / ((x + y) / 2) <= 2).
    { apply Rmult_le_reg_r with ((x + y) / 2); [lra|].
      replace (x / ((x + y) / 2) * ((x + y) / 2)) with x by (field; lra). lra. }
    destruct Hle as [Hlt|Heq].
    + left. apply ln_increasing; assumption.
    + rewrite Heq. lra.
Qed.

(* ---------- list facts ---------- *)
Lemma mid_comm : forall p q, mid p q = mid q p.
Proof.
  induction p as [|a p IH]; destruct q as [|b q]; simpl; try reflexivity.
  rewrite IH. f_equal. lra.
Qed.

Lemma mid_self : forall p, mid p p = p.
Proof. induction p as [|a p IH]; simpl; [reflexivity|]. rewrite IH. f_equal. lra. Qed.

Lemma kl_self : forall p, kl p p = 0.
Proof. induction p as [|a p IH]; simpl; [reflexivity|]. rewrite IH, xlog2_self. lra. Qed.

Lemma sumR_mid : forall p q, length p = length q -> sumR (mid p q) = (sumR p + sumR q) / 2.
Proof.
  induction p as [|a p IH]; destruct q as [|b q]; simpl; intros H; try discriminate.
  - lra.
  - injection H as H. rewrite (IH _ H). lra.
Qed.

Lemma sumR_map_div : forall s v, sumR (map (fun a => a / s) v) = sumR v / s.
Proof. intros s. induction v as [|a v IH]; simpl; [unfold Rdiv; ring|]. rewrite IH. unfold Rdiv. ring. Qed.

Lemma sumR_map_mult : forall s v, sumR (map (Rmult s) v) = s * sumR v.
Proof. intros s. induction v as [|a v IH]; simpl; [ring|]. rewrite IH. ring. Qed.

Lemma nonneg_map_div : forall s v, 0 < s -> nonneg v -> nonneg (map (fun a => a / s) v).
Proof.
  intros s v Hs H. induction H as [|a v Ha Hv IH]; simpl; constructor; [|exact IH].
  apply Rmult_le_pos; [assumption|]. left. apply Rinv_0_lt_compat. assumption.
Qed.

Lemma normalise_nonneg : forall P, nonneg P -> 0 < sumR P -> nonneg (normalise P).
Proof. intros P H Hs. unfold normalise. apply nonneg_map_div; assumption. Qed.

Lemma normalise_sum : forall P, 0 < sumR P -> sumR (normalise P) = 1.
Proof. intros P Hs. unfold normalise. rewrite sumR_map_div. field. lra. Qed.

Lemma normalise_length : forall P, length (normalise P) = length P.
Proof. intros P. unfold normalise. apply map_length. Qed.

Lemma kl_lower : forall p q, length p = length q -> nonneg p -> nonneg q ->
  sumR p - sumR (mid p q) <= kl p (mid p q) * ln 2.
Proof.
  induction p as [|a p IH]; destruct q as [|b q]; simpl; intros H Hp Hq; try discriminate.
  - lra.
  - injection H as H. inversion Hp; subst. inversion Hq; subst.
    pose proof (IH _ H H3 H5). pose proof (scalarA a b H2 H4). lra.
Qed.

Lemma kl_lower_eq : forall p q, length p = length q -> nonneg p -> nonneg q ->
  kl p (mid p q) * ln 2 = sumR p - sumR (mid p q) -> p = q.
Proof.
  induction p as [|a p IH]; destruct q as [|b q]; simpl; intros H Hp Hq E; try discriminate.
  - reflexivity.
  - injection H as H. inversion Hp; subst. inversion Hq; subst.
    pose proof (kl_lower _ _ H H3 H5) as T. pose proof (scalarA a b H2 H4) as S.
    assert (E1 : xlog2 a ((a + b) / 2) * ln 2 = a - (a + b) / 2) by lra.
    assert (E2 : kl p (mid p q) * ln 2 = sumR p - sumR (mid p q)) by lra.
    f_equal; [apply scalarB; assumption | apply IH; assumption].
Qed.

Lemma kl_upper : forall p q, nonneg p -> nonneg q -> kl p (mid p q) <= sumR p.
Proof.
  induction p as [|a p IH]; destruct q as [|b q]; simpl; intros Hp Hq; try lra.
  - inversion Hp; subst. clear - H1 H2. induction H2; simpl; lra.
  - inversion Hp; subst. inversion Hq; subst.
    pose proof (IH _ H2 H4). pose proof (scalarC a b H1 H3). lra.
Qed.

Lemma kl_mid_nonneg : forall p q, length p = length q -> nonneg p -> nonneg q ->
  sumR p = 1 -> sumR q = 1 -> 0 <= kl p (mid p q).
Proof.
  intros p q H Hp Hq Sp Sq. pose proof (kl_lower _ _ H Hp Hq) as L.
  rewrite (sumR_mid _ _ H), Sp, Sq in L. pose proof ln2_pos.
  apply Rmult_le_reg_r with (ln 2); [assumption|]. lra.
Qed.

Lemma normalise_scale : forall s P, 0 < s -> 0 < sumR P -> normalise (map (Rmult s) P) = normalise P.
Proof.
  intros s P Hs HP. unfold normalise. rewrite map_map, sumR_map_mult.
  apply map_ext. intros a. field. lra.
Qed.

(* ---------- the five laws ---------- *)
(* symmetric *)
Theorem js_sym : forall P Q, length P = length Q -> js P Q = js Q P.
Proof.
  intros P Q _. unfold js. cbv zeta. rewrite (mid_comm (normalise Q) (normalise P)). lra.
Qed.

(* invariant to normalisation / positive rescaling of either input *)
Theorem js_scale_invariant : forall P Q s t, 0 < s -> 0 < t -> nonneg P -> nonneg Q -> 0 < sumR P -> 0 < sumR Q ->
  js (map (Rmult s) P) (map (Rmult t) Q) = js P Q.
Proof.
  intros P Q s t Hs Ht _ _ HP HQ. unfold js.
  rewrite (normalise_scale s P Hs HP), (normalise_scale t Q Ht HQ). reflexivity.
Qed.

(* non-negative *)
Theorem js_nonneg : forall P Q, length P = length Q -> nonneg P -> nonneg Q -> 0 < sumR P -> 0 < sumR Q -> 0 <= js P Q.
Proof.
  intros P Q H HP HQ SP SQ. unfold js. cbv zeta.
  assert (Hl : length (normalise P) = length (normalise Q)) by (rewrite !normalise_length; exact H).
  pose proof (kl_mid_nonneg _ _ Hl (normalise_nonneg _ HP SP) (normalise_nonneg _ HQ SQ)
                (normalise_sum _ SP) (normalise_sum _ SQ)) as A.
  pose proof (kl_mid_nonneg _ _ (eq_sym Hl) (normalise_nonneg _ HQ SQ) (normalise_nonneg _ HP SP)
                (normalise_sum _ SQ) (normalise_sum _ SP)) as B.
  rewrite (mid_comm (normalise Q) (normalise P)) in B. lra.
Qed.

(* zero exactly for proportional inputs *)
Theorem js_zero_iff_proportional : forall P Q, length P = length Q -> nonneg P -> nonneg Q -> 0 < sumR P -> 0 < sumR Q ->
  (js P Q = 0 <-> normalise P = normalise Q).
Proof.
  intros P Q H HP HQ SP SQ.
  assert (Hl : length (normalise P) = length (normalise Q)) by (rewrite !normalise_length; exact H).
  pose proof (normalise_nonneg _ HP SP) as Np. pose proof (normalise_nonneg _ HQ SQ) as Nq.
  pose proof (normalise_sum _ SP) as Sp. pose proof (normalise_sum _ SQ) as Sq.
  unfold js. cbv zeta. split.
  - intros E.
    pose proof (kl_mid_nonneg _ _ Hl Np Nq Sp Sq) as A.
    pose proof (kl_mid_nonneg _ _ (eq_sym Hl) Nq Np Sq Sp) as B.
    rewrite (mid_comm (normalise Q) (normalise P)) in B.
    assert (Z : kl (normalise P) (mid (normalise P) (normalise Q)) = 0) by lra.
    apply (kl_lower_eq _ _ Hl Np Nq).
    rewrite Z, (sumR_mid _ _ Hl), Sp, Sq. lra.
  - intros E. rewrite E, mid_self, kl_self. lra.
Qed.

(* at most one bit *)
Theorem js_le_one_bit : forall P Q, length P = length Q -> nonneg P -> nonneg Q -> 0 < sumR P -> 0 < sumR Q -> js P Q <= 1.
Proof.
  intros P Q H HP HQ SP SQ.
  pose proof (normalise_nonneg _ HP SP) as Np. pose proof (normalise_nonneg _ HQ SQ) as Nq.
  pose proof (normalise_sum _ SP) as Sp. pose proof (normalise_sum _ SQ) as Sq.
  unfold js. cbv zeta.
  pose proof (kl_upper _ _ Np Nq) as A. pose proof (kl_upper _ _ Nq Np) as B.
  rewrite (mid_comm (normalise Q) (normalise P)) in B. lra.
Qed.

Print Assumptions js_sym.
Print Assumptions js_scale_invariant.
Print Assumptions js_nonneg.
Print Assumptions js_zero_iff_proportional.
Print Assumptions js_le_one_bit.
