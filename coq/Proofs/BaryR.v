(* Proofs/BaryR.v — the regular-simplex matrix of dreye/api/barycentric.py over the reals (C16).
   TO BE PROVED.  Allowed axioms: only those of the Coq standard library Reals. *)
From Coq Require Import Reals Lra Lia List Arith QArith Qreals.
From DV Require Import Base.QVec Model.Bary.
Open Scope R_scope.

(* closed form of barycentric_to_cartesian_transformer: entry (i,k), row i = 0,1,2,..., column k = 0,1,... *)
Definition cc (k : nat) : R := sqrt (1 / (2 * INR (k + 1) * INR (k + 2))).
Definition dd (i : nat) : R := sqrt (INR (i + 1) / (2 * INR i)).
Definition Tc (i k : nat) : R := if Nat.ltb (S k) i then cc k else if Nat.eqb (S k) i then dd i else 0.

Fixpoint sumf (f : nat -> R) (n : nat) : R := match n with O => 0 | S n' => sumf f n' + f n' end.

(* the recursion of the code (rows as functions of the column index):
     A[0] = 0, A[1] = e_0,
     for i >= 2:  A[i, :i-1] = mean(A[:i, :i-1], axis=0);  A[i, i-1] = sqrt(1 - mean_r |A[r,:i-1] - A[i,:i-1]|^2) *)
Definition centroid (rows : nat -> nat -> R) (i k : nat) : R := sumf (fun r => rows r k) i / INR i.
Definition dist2 (rows : nat -> nat -> R) (i r : nat) : R :=
  sumf (fun k => (rows r k - centroid rows i k) * (rows r k - centroid rows i k)) (i - 1).
Definition newcoord (rows : nat -> nat -> R) (i : nat) : R := sqrt (1 - sumf (dist2 rows i) i / INR i).
Definition satisfies_recursion (rows : nat -> nat -> R) (n : nat) : Prop :=
  (forall k, rows 0%nat k = 0) /\
  (forall k, rows 1%nat k = if Nat.eqb k 0 then 1 else 0) /\
  (forall i, (2 <= i < n)%nat ->
     (forall k, (k < i - 1)%nat -> rows i k = centroid rows i k) /\
     rows i (i - 1)%nat = newcoord rows i /\
     (forall k, (i <= k)%nat -> rows i k = 0)).

(* ---------- sumf ---------- *)
Lemma sumf_S f n : sumf f (S n) = sumf f n + f n.
Proof. reflexivity. Qed.

Lemma sumf_ext f g n : (forall k, (k < n)%nat -> f k = g k) -> sumf f n = sumf g n.
Proof.
  induction n; intros H; simpl; [reflexivity|].
  rewrite IHn by (intros; apply H; lia).
  rewrite (H n) by lia. reflexivity.
Qed.

Lemma sumf_const c n : sumf (fun _ => c) n = INR n * c.
Proof.
  induction n; [simpl; ring|].
  rewrite sumf_S, IHn, S_INR. ring.
Qed.

Lemma sumf_zero f n : (forall k, (k < n)%nat -> f k = 0) -> sumf f n = 0.
Proof.
  intros H. rewrite (sumf_ext f (fun _ => 0) n H), sumf_const. ring.
Qed.

Lemma sumf_split f m n : sumf f (m + n) = sumf f m + sumf (fun k => f (m + k)%nat) n.
Proof.
  induction n.
  - rewrite Nat.add_0_r. simpl. ring.
  - rewrite Nat.add_succ_r, !sumf_S, IHn. ring.
Qed.

(* ---------- entries ---------- *)
Lemma Tc_lt i k : (S k < i)%nat -> Tc i k = cc k.
Proof. intros H. unfold Tc. destruct (Nat.ltb_spec (S k) i); [reflexivity|lia]. Qed.

Lemma Tc_eq k : Tc (S k) k = dd (S k).
Proof.
  unfold Tc. destruct (Nat.ltb_spec (S k) (S k)); [lia|].
  destruct (Nat.eqb_spec (S k) (S k)); [reflexivity|lia].
Qed.

Lemma Tc_gt i k : (i <= k)%nat -> Tc i k = 0.
Proof.
  intros H. unfold Tc. destruct (Nat.ltb_spec (S k) i); [lia|].
  destruct (Nat.eqb_spec (S k) i); [lia|reflexivity].
Qed.

Lemma INR_p1 k : INR (k + 1) = INR k + 1.
Proof. rewrite plus_INR. simpl. ring. Qed.
Lemma INR_p2 k : INR (k + 2) = INR k + 2.
Proof. rewrite plus_INR. simpl. ring. Qed.

Lemma cc_arg_pos k : 0 < 1 / (2 * INR (k + 1) * INR (k + 2)).
Proof.
  rewrite INR_p1, INR_p2. pose proof (pos_INR k).
  apply Rdiv_lt_0_compat; [lra|].
  apply Rmult_lt_0_compat; [apply Rmult_lt_0_compat|]; lra.
Qed.

Lemma dd_arg_pos i : (1 <= i)%nat -> 0 < INR (i + 1) / (2 * INR i).
Proof.
  intros H. rewrite INR_p1. pose proof (pos_INR i).
  assert (0 < INR i) by (apply lt_0_INR; lia).
  apply Rdiv_lt_0_compat; lra.
Qed.

Lemma cc_pos k : 0 <= cc k.
Proof. apply sqrt_pos. Qed.
Lemma dd_pos i : 0 <= dd i.
Proof. apply sqrt_pos. Qed.

Lemma cc_sq k : cc k * cc k = 1 / (2 * INR (k + 1) * INR (k + 2)).
Proof. unfold cc. apply sqrt_sqrt. apply Rlt_le, cc_arg_pos. Qed.

Lemma dd_sq i : (1 <= i)%nat -> dd i * dd i = INR (i + 1) / (2 * INR i).
Proof. intros H. unfold dd. apply sqrt_sqrt. apply Rlt_le, dd_arg_pos, H. Qed.

Lemma dd_1 : dd 1 = 1.
Proof.
  unfold dd. replace (INR (1 + 1) / (2 * INR 1)) with 1 by (simpl; field).
  apply sqrt_1.
Qed.

Lemma dd_S k : dd (S k) = INR (k + 2) * cc k.
Proof.
  unfold dd. apply sqrt_lem_1.
  - apply Rlt_le, dd_arg_pos. lia.
  - apply Rmult_le_pos; [apply pos_INR|apply cc_pos].
  - replace (INR (k + 2) * cc k * (INR (k + 2) * cc k))
      with (INR (k + 2) * INR (k + 2) * (cc k * cc k)) by ring.
    rewrite cc_sq, !INR_p1, INR_p2, S_INR. pose proof (pos_INR k).
    field. split; lra.
Qed.

Lemma ddcc m : dd (S m) * cc m = 1 / (2 * INR (S m)).
Proof.
  rewrite dd_S. replace (INR (m + 2) * cc m * cc m) with (INR (m + 2) * (cc m * cc m)) by ring.
  rewrite cc_sq, INR_p1, INR_p2, S_INR. pose proof (pos_INR m).
  field. split; lra.
Qed.

Lemma sumcc2 m : sumf (fun k => cc k * cc k) m = INR m / (2 * INR (m + 1)).
Proof.
  induction m.
  - simpl. field; lra.
  - rewrite sumf_S, IHm, cc_sq, !INR_p1, INR_p2, S_INR. pose proof (pos_INR m).
    field. repeat split; lra.
Qed.

(* column sums and centroid *)
Lemma colsum i k : (S k < i)%nat -> sumf (fun r => Tc r k) i = INR i * cc k.
Proof.
  intros H.
  assert (exists m, i = (S (S k) + m)%nat) as [m ->] by (exists (i - S (S k))%nat; lia).
  rewrite sumf_split, sumf_S.
  rewrite (sumf_zero _ (S k)) by (intros; apply Tc_gt; lia).
  rewrite Tc_eq.
  rewrite (sumf_ext _ (fun _ => cc k) m) by (intros; apply Tc_lt; lia).
  rewrite sumf_const, dd_S, INR_p2, plus_INR, !S_INR. ring.
Qed.

Lemma centroid_Tc i k : (S k < i)%nat -> centroid Tc i k = cc k.
Proof.
  intros H. unfold centroid. rewrite colsum by exact H.
  field. apply not_0_INR. lia.
Qed.

(* the core sum: row r against (c_0, c_1, ...) on the first n columns *)
Lemma dist_core n r : (r <= n)%nat ->
  sumf (fun k => (Tc r k - cc k) * (Tc r k - cc k)) n = INR n / (2 * INR (S n)).
Proof.
  intros Hr. destruct r as [|r'].
  - rewrite (sumf_ext _ (fun k => cc k * cc k)) by (intros; rewrite Tc_gt by lia; ring).
    rewrite sumcc2. replace (n + 1)%nat with (S n) by lia. reflexivity.
  - assert (exists m, n = (S r' + m)%nat) as [m ->] by (exists (n - S r')%nat; lia).
    rewrite sumf_split, sumf_S.
    rewrite (sumf_zero _ r') by (intros; rewrite Tc_lt by lia; ring).
    rewrite Tc_eq.
    rewrite (sumf_ext _ (fun k => cc (S r' + k) * cc (S r' + k)) m)
      by (intros; rewrite Tc_gt by lia; ring).
    pose proof (sumf_split (fun k => cc k * cc k) (S r') m) as E.
    cbv beta in E. rewrite !sumcc2 in E.
    assert (Hs : sumf (fun k => cc (S r' + k) * cc (S r' + k)) m
                 = INR (S r' + m) / (2 * INR (S r' + m + 1)) - INR (S r') / (2 * INR (S r' + 1)))
      by lra.
    rewrite Hs.
    replace ((dd (S r') - cc r') * (dd (S r') - cc r'))
      with (dd (S r') * dd (S r') - 2 * (dd (S r') * cc r') + cc r' * cc r') by ring.
    rewrite dd_sq by lia. rewrite ddcc, cc_sq.
    rewrite !INR_p1, !INR_p2, !S_INR, !plus_INR, !S_INR.
    pose proof (pos_INR r'). pose proof (pos_INR m).
    field. repeat split; lra.
Qed.

(* ---------- extensionality of the recursion operators ---------- *)
Lemma centroid_ext f g i : (forall r, (r < i)%nat -> forall k, f r k = g r k) ->
  forall k, centroid f i k = centroid g i k.
Proof.
  intros H k. unfold centroid.
  rewrite (sumf_ext (fun r => f r k) (fun r => g r k) i) by (intros; apply H; assumption).
  reflexivity.
Qed.

Lemma dist2_ext f g i : (forall r, (r < i)%nat -> forall k, f r k = g r k) ->
  forall r, (r < i)%nat -> dist2 f i r = dist2 g i r.
Proof.
  intros H r Hr. unfold dist2. apply sumf_ext. intros k Hk.
  rewrite (centroid_ext f g i H k), (H r Hr k). reflexivity.
Qed.

Lemma newcoord_ext f g i : (forall r, (r < i)%nat -> forall k, f r k = g r k) ->
  newcoord f i = newcoord g i.
Proof.
  intros H. unfold newcoord.
  rewrite (sumf_ext (dist2 f i) (dist2 g i) i) by (intros; apply dist2_ext; assumption).
  reflexivity.
Qed.

(* 5. the code's sanity assertion holds: all previous rows are equidistant from the centroid:
      dist2 Tc i r = (i-1)/(2 i) for every r < i, i >= 2 *)
Theorem centroid_equidistant : forall i r, (2 <= i)%nat -> (r < i)%nat -> dist2 Tc i r = INR (i - 1) / (2 * INR i).
Proof.
  intros i r Hi Hr. unfold dist2.
  rewrite (sumf_ext _ (fun k => (Tc r k - cc k) * (Tc r k - cc k)))
    by (intros; rewrite centroid_Tc by lia; reflexivity).
  destruct i as [|n]; [lia|].
  replace (S n - 1)%nat with n by lia.
  apply dist_core. lia.
Qed.

Lemma newcoord_Tc i : (2 <= i)%nat -> newcoord Tc i = dd i.
Proof.
  intros Hi. unfold newcoord.
  rewrite (sumf_ext _ (fun _ => INR (i - 1) / (2 * INR i)) i)
    by (intros; apply centroid_equidistant; lia).
  rewrite sumf_const. unfold dd. f_equal.
  destruct i as [|n]; [lia|].
  replace (S n - 1)%nat with n by lia.
  rewrite INR_p1, !S_INR. pose proof (pos_INR n).
  field. lra.
Qed.

(* 1. the closed form satisfies the code's recursion, for every n *)
Theorem closed_form_satisfies_recursion : forall n, satisfies_recursion Tc n.
Proof.
  intros n. split; [|split].
  - intros k. apply Tc_gt. lia.
  - intros k. destruct k as [|k].
    + simpl Nat.eqb. rewrite Tc_eq. apply dd_1.
    + simpl Nat.eqb. apply Tc_gt. lia.
  - intros i Hi. split; [|split].
    + intros k Hk. rewrite centroid_Tc by lia. apply Tc_lt. lia.
    + rewrite newcoord_Tc by lia. destruct i as [|m]; [lia|].
      replace (S m - 1)%nat with m by lia. apply Tc_eq.
    + intros k Hk. apply Tc_gt. lia.
Qed.

(* 2. and the recursion determines the matrix: whatever satisfies it IS the closed form *)
Theorem recursion_unique : forall rows n, satisfies_recursion rows n ->
  forall i k, (i < n)%nat -> rows i k = Tc i k.
Proof.
  intros rows n [H0 [H1 H2]].
  assert (G : forall i, (i < n)%nat -> forall k, rows i k = Tc i k).
  { induction i as [i IH] using lt_wf_ind. intros Hi k.
    destruct i as [|[|i']].
    - rewrite H0. symmetry. apply Tc_gt. lia.
    - rewrite H1. destruct (closed_form_satisfies_recursion 2) as [_ [T1 _]].
      rewrite T1. reflexivity.
    - remember (S (S i')) as i eqn:Ei.
      assert (Hi2 : (2 <= i < n)%nat) by lia.
      destruct (H2 i Hi2) as [A [B C]].
      destruct (closed_form_satisfies_recursion n) as [_ [_ T2]].
      destruct (T2 i Hi2) as [A' [B' C']].
      assert (IH' : forall r, (r < i)%nat -> forall k, rows r k = Tc r k)
        by (intros r Hr k0; apply IH; lia).
      destruct (lt_eq_lt_dec k (i - 1)) as [[L|E]|L].
      + rewrite A, A' by lia. apply centroid_ext. exact IH'.
      + subst k. rewrite B, B'. apply newcoord_ext. exact IH'.
      + rewrite C, C' by lia. reflexivity. }
  intros i k Hi. apply G. exact Hi.
Qed.

(* 3. regular simplex with unit edges, in every dimension *)
Lemma T_regular_lt i j : (i < j)%nat ->
  sumf (fun k => (Tc i k - Tc j k) * (Tc i k - Tc j k)) j = 1.
Proof.
  intros H. destruct j as [|n]; [lia|].
  rewrite sumf_S.
  rewrite (sumf_ext _ (fun k => (Tc i k - cc k) * (Tc i k - cc k)) n)
    by (intros; rewrite (Tc_lt (S n)) by lia; reflexivity).
  rewrite dist_core by lia.
  rewrite (Tc_gt i n) by lia. rewrite Tc_eq.
  replace ((0 - dd (S n)) * (0 - dd (S n))) with (dd (S n) * dd (S n)) by ring.
  rewrite dd_sq by lia. rewrite INR_p1, !S_INR. pose proof (pos_INR n).
  field. lra.
Qed.

Theorem T_regular : forall i j, i <> j -> sumf (fun k => (Tc i k - Tc j k) * (Tc i k - Tc j k)) (Nat.max i j) = 1.
Proof.
  intros i j H. destruct (lt_eq_lt_dec i j) as [[L|E]|L].
  - rewrite Nat.max_r by lia. apply T_regular_lt. exact L.
  - contradiction.
  - rewrite Nat.max_l by lia.
    rewrite (sumf_ext _ (fun k => (Tc j k - Tc i k) * (Tc j k - Tc i k))) by (intros; ring).
    apply T_regular_lt. exact L.
Qed.

(* ---------- Q2R of the rational closed form ---------- *)
Lemma Q2R_0' : Q2R 0 = 0.
Proof. unfold Q2R. simpl. field. Qed.
Lemma Q2R_1' : Q2R 1 = 1.
Proof. unfold Q2R. simpl. field. Qed.
Lemma Q2R_2' : Q2R 2 = 2.
Proof. unfold Q2R. simpl. field. Qed.
Lemma Q2R_qn k : Q2R (qn k) = INR k.
Proof. unfold qn, Q2R. simpl. rewrite <- INR_IZR_INZ. field. Qed.

Lemma Q2R_neq0 q : Q2R q <> 0 -> ~ (q == 0)%Q.
Proof. intros H E. apply H. rewrite (Qeq_eqR _ _ E). apply Q2R_0'. Qed.

(* 4. entries are non-negative and their squares are the rational closed form used by the executable check *)
Theorem T_entry : forall i k, 0 <= Tc i k /\ Tc i k * Tc i k = Q2R (T2q i k).
Proof.
  intros i k. unfold Tc, T2q.
  destruct (Nat.ltb_spec (S k) i) as [L|L]; [|destruct (Nat.eqb_spec (S k) i) as [E|E]].
  - split; [apply cc_pos|]. rewrite cc_sq.
    assert (D : Q2R (2 * qn (k + 1) * qn (k + 2)) = 2 * INR (k + 1) * INR (k + 2))
      by (rewrite !Q2R_mult, !Q2R_qn, Q2R_2'; reflexivity).
    rewrite Q2R_div.
    + rewrite D, Q2R_1'. reflexivity.
    + apply Q2R_neq0. rewrite D. rewrite INR_p1, INR_p2. pose proof (pos_INR k).
      apply Rmult_integral_contrapositive_currified;
        [apply Rmult_integral_contrapositive_currified|]; lra.
  - split; [apply dd_pos|]. rewrite dd_sq by lia.
    assert (D : Q2R (2 * qn i) = 2 * INR i)
      by (rewrite Q2R_mult, Q2R_qn, Q2R_2'; reflexivity).
    rewrite Q2R_div.
    + rewrite D, Q2R_qn. reflexivity.
    + apply Q2R_neq0. rewrite D.
      assert (0 < INR i) by (apply lt_0_INR; lia). lra.
  - split; [lra|]. rewrite Q2R_0'. ring.
Qed.

Print Assumptions closed_form_satisfies_recursion.
Print Assumptions recursion_unique.
Print Assumptions T_regular.
Print Assumptions T_entry.
Print Assumptions centroid_equidistant.
