(* Proofs/SupportP.v — independent column sets: dichotomy, size bound, extension to a basis. *)
From Coq Require Import QArith Qabs List Bool Arith Lia Lqa Setoid Morphisms.
From DV Require Import Base.QVec Run.Verdict Model.Linear Cert.Hull Model.Gauss Model.Range Proofs.VertexDefs Proofs.LinAlgP.
Import ListNotations.
Open Scope Q_scope.

(* ---------- entries of vectors ---------- *)
Lemma sp_nthQ_nil k : nthQ [] k = 0.
Proof. destruct k; reflexivity. Qed.

Lemma sp_nthQ_vadd u : forall v i, length u = length v -> nthQ (vadd u v) i == nthQ u i + nthQ v i.
Proof.
  induction u as [|a u IH]; intros [|b v] i H; simpl in H; try discriminate.
  - rewrite sp_nthQ_nil. cbn [vadd]. rewrite sp_nthQ_nil. ring.
  - destruct i as [|i]; cbn [vadd]; unfold nthQ; cbn [nth]; [reflexivity|].
    apply IH. lia.
Qed.

Lemma sp_nthQ_vsub u : forall v i, length u = length v -> nthQ (vsub u v) i == nthQ u i - nthQ v i.
Proof.
  induction u as [|a u IH]; intros [|b v] i H; simpl in H; try discriminate.
  - rewrite sp_nthQ_nil. cbn [vsub]. rewrite sp_nthQ_nil. ring.
  - destruct i as [|i]; cbn [vsub]; unfold nthQ; cbn [nth]; [reflexivity|].
    apply IH. lia.
Qed.

Lemma sp_nthQ_vscale t u : forall i, nthQ (vscale t u) i == t * nthQ u i.
Proof.
  induction u as [|a u IH]; intros i.
  - unfold vscale. cbn [map]. rewrite sp_nthQ_nil. ring.
  - destruct i as [|i]; unfold vscale, nthQ; cbn [map nth]; [reflexivity|]. apply IH.
Qed.

Lemma sp_nthQ_vzero n i : nthQ (vzero n) i == 0.
Proof.
  revert i; induction n as [|n IH]; intros i.
  - unfold vzero. cbn [repeat]. rewrite sp_nthQ_nil. reflexivity.
  - destruct i as [|i]; unfold vzero, nthQ; cbn [repeat nth]; [reflexivity|]. apply IH.
Qed.

Lemma sp_nthQ_overflow d i : (length d <= i)%nat -> nthQ d i = 0.
Proof. intros H. unfold nthQ. apply nth_overflow. exact H. Qed.

Lemma sp_veq_nth u : forall v, length u = length v -> (forall i, nthQ u i == nthQ v i) -> veq u v.
Proof.
  induction u as [|a u IH]; intros [|b v] HL H; simpl in HL; try discriminate.
  - constructor.
  - constructor.
    + exact (H 0%nat).
    + apply IH; [lia|]. intros i. exact (H (S i)).
Qed.

(* ---------- zero vectors ---------- *)
Lemma sp_zerov_nth d : zerov d -> forall i, nthQ d i == 0.
Proof.
  intros H. induction H as [|a d Ha Hd IH]; intros i.
  - rewrite sp_nthQ_nil. reflexivity.
  - destruct i as [|i]; unfold nthQ; cbn [nth]; [exact Ha|]. apply IH.
Qed.

Lemma sp_nth_zerov d : (forall i, nthQ d i == 0) -> zerov d.
Proof.
  induction d as [|a d IH]; intros H; constructor.
  - exact (H 0%nat).
  - apply IH. intros i. exact (H (S i)).
Qed.

Lemma sp_nth_zerov_lt d n : length d = n -> (forall i, (i < n)%nat -> nthQ d i == 0) -> zerov d.
Proof.
  intros HL H. apply sp_nth_zerov. intros i.
  destruct (lt_dec i n) as [Hi|Hi]; [apply H; exact Hi|].
  rewrite sp_nthQ_overflow by lia. reflexivity.
Qed.

Lemma sp_zerov_veq u v : veq u v -> zerov u -> zerov v.
Proof.
  intros H. induction H as [|a b u v Hab Huv IH]; intros Hz; [constructor|].
  inversion Hz; subst. constructor; [|apply IH; assumption].
  rewrite <- Hab. assumption.
Qed.

Lemma sp_dot_zerov_l d : forall x, zerov d -> dot d x == 0.
Proof.
  induction d as [|a d IH]; intros [|b x] H; cbn [dot]; try reflexivity.
  inversion H; subst. rewrite IH by assumption. match goal with E : a == 0 |- _ => rewrite E end. ring.
Qed.

Lemma sp_dot_zerov_r d x : zerov d -> dot x d == 0.
Proof. intros H. rewrite dot_comm. apply sp_dot_zerov_l. exact H. Qed.

(* ---------- unit vectors ---------- *)
Lemma sp_len_unitv n k : length (unitv n k) = n.
Proof. unfold unitv. rewrite map_length, seq_length. reflexivity. Qed.

Lemma sp_dot_unit_seq_lt k n : forall s x, (k < s)%nat ->
  dot (map (fun i => if Nat.eqb i k then 1 else 0) (seq s n)) x == 0.
Proof.
  induction n as [|n IH]; intros s x Hs.
  - reflexivity.
  - destruct x as [|c x]; [reflexivity|].
    cbn [seq map dot]. destruct (Nat.eqb_spec s k) as [E|_]; [lia|].
    rewrite IH by lia. ring.
Qed.
Lemma sp_dot_unit_seq k n : forall s x, (s <= k)%nat -> (k < s + n)%nat ->
  dot (map (fun i => if Nat.eqb i k then 1 else 0) (seq s n)) x == nthQ x (k - s).
Proof.
  induction n as [|n IH]; intros s x Hs Hk; [lia|].
  destruct x as [|c x]; [rewrite sp_nthQ_nil; reflexivity|].
  cbn [seq map dot]. destruct (Nat.eqb_spec s k) as [E|NE].
  - subst s. rewrite Nat.sub_diag. unfold nthQ at 1. cbn [nth]. rewrite sp_dot_unit_seq_lt by lia. ring.
  - replace (k - s)%nat with (S (k - S s)) by lia. unfold nthQ at 1. cbn [nth]. fold (nthQ x (k - S s)).
    rewrite IH by lia. ring.
Qed.
Lemma sp_dot_unitv n k x : (k < n)%nat -> dot (unitv n k) x == nthQ x k.
Proof.
  intros Hk. unfold unitv. rewrite sp_dot_unit_seq by lia. rewrite Nat.sub_0_r. reflexivity.
Qed.

Lemma sp_nthQ_unitv n k i : (i < n)%nat -> nthQ (unitv n k) i == if Nat.eqb i k then 1 else 0.
Proof.
  intros Hi. unfold unitv, nthQ. set (f := fun j : nat => if Nat.eqb j k then 1 else 0).
  assert (E0 : 0 = f (S k)).
  { unfold f. destruct (Nat.eqb_spec (S k) k) as [E|_]; [lia|reflexivity]. }
  rewrite E0 at 1. rewrite map_nth. rewrite seq_nth by exact Hi. cbn [plus]. reflexivity.
Qed.

(* ---------- index lists ---------- *)
Lemma sp_idxs_In p n i : In i (idxs p n) <-> (i < n)%nat /\ p i = true.
Proof. unfold idxs. rewrite filter_In, in_seq. split; intros H; split; try tauto; lia. Qed.

Lemma sp_idxs_NoDup p n : NoDup (idxs p n).
Proof. unfold idxs. apply NoDup_filter. apply seq_NoDup. Qed.

Lemma sp_map_ext_veq (f g : nat -> Q) L : (forall i, In i L -> f i == g i) -> veq (map f L) (map g L).
Proof.
  induction L as [|k L IH]; intros H; cbn [map]; constructor.
  - apply H. left. reflexivity.
  - apply IH. intros i Hi. apply H. right. exact Hi.
Qed.

(* ---------- embedding of coefficient vectors ---------- *)
Fixpoint sp_embed (n : nat) (L : list nat) (v : vec) : vec :=
  match L, v with
  | k :: L', a :: v' => vadd (vscale a (unitv n k)) (sp_embed n L' v')
  | _, _ => vzero n
  end.

Lemma sp_len_embed n L : forall v, length (sp_embed n L v) = n.
Proof.
  induction L as [|k L IH]; intros [|a v]; cbn [sp_embed]; try apply len_vzero.
  rewrite len_vadd; rewrite len_vscale, sp_len_unitv; [reflexivity|]. rewrite IH. reflexivity.
Qed.

Lemma sp_nthQ_embed_cons n k L a v i : (i < n)%nat ->
  nthQ (sp_embed n (k :: L) (a :: v)) i == a * (if Nat.eqb i k then 1 else 0) + nthQ (sp_embed n L v) i.
Proof.
  intros Hi. cbn [sp_embed]. rewrite sp_nthQ_vadd by (rewrite len_vscale, sp_len_unitv, sp_len_embed; reflexivity).
  rewrite sp_nthQ_vscale, sp_nthQ_unitv by exact Hi. reflexivity.
Qed.

Lemma sp_embed_notin n L : forall v i, ~ In i L -> nthQ (sp_embed n L v) i == 0.
Proof.
  induction L as [|k L IH]; intros [|a v] i Hi; try (cbn [sp_embed]; apply sp_nthQ_vzero).
  destruct (lt_dec i n) as [Hn|Hn].
  - rewrite sp_nthQ_embed_cons by exact Hn.
    destruct (Nat.eqb_spec i k) as [E|NE].
    + exfalso. apply Hi. left. symmetry. exact E.
    + rewrite IH; [ring|]. intros HIn. apply Hi. right. exact HIn.
  - rewrite sp_nthQ_overflow; [reflexivity|].
    rewrite sp_len_embed. lia.
Qed.

(* key identity *)
Lemma sp_dot_embed n L : forall v r, (forall i, In i L -> (i < n)%nat) ->
  dot r (sp_embed n L v) == dot (select L r 0) v.
Proof.
  induction L as [|k L IH]; intros [|a v] r HL; cbn [sp_embed select map dot]; try apply dot_vzero_r.
  rewrite dot_vadd_r by (rewrite len_vscale, sp_len_unitv, sp_len_embed; reflexivity).
  rewrite dot_vscale_r. rewrite (dot_comm r (unitv n k)).
  rewrite sp_dot_unitv by (apply HL; left; reflexivity).
  rewrite IH by (intros i Hi; apply HL; right; exact Hi).
  unfold select, nthQ. ring.
Qed.

Lemma sp_select_embed n L : forall v, NoDup L -> (forall i, In i L -> (i < n)%nat) -> length v = length L ->
  veq (select L (sp_embed n L v) 0) v.
Proof.
  induction L as [|k L IH]; intros [|a v] HND HL Hlen; simpl in Hlen; try discriminate.
  - constructor.
  - inversion HND as [|k' L' Hnotin HND']; subst.
    unfold select. cbn [map]. constructor.
    + change (nthQ (sp_embed n (k :: L) (a :: v)) k == a).
      rewrite sp_nthQ_embed_cons by (apply HL; left; reflexivity).
      rewrite Nat.eqb_refl. rewrite sp_embed_notin by exact Hnotin. ring.
    + transitivity (select L (sp_embed n L v) 0).
      * unfold select. apply sp_map_ext_veq. intros i Hi.
        change (nthQ (sp_embed n (k :: L) (a :: v)) i == nthQ (sp_embed n L v) i).
        rewrite sp_nthQ_embed_cons by (apply HL; right; exact Hi).
        destruct (Nat.eqb_spec i k) as [E|NE]; [subst i; contradiction|]. ring.
      * apply IH; [exact HND'| |lia]. intros i Hi. apply HL. right. exact Hi.
Qed.

Lemma sp_embed_select_nth n L (f : nat -> Q) : NoDup L -> (forall i, In i L -> (i < n)%nat) ->
  forall i, In i L -> nthQ (sp_embed n L (map f L)) i == f i.
Proof.
  induction L as [|k L IH]; intros HND HL i Hi; [destruct Hi|].
  inversion HND as [|k' L' Hnotin HND']; subst.
  cbn [map]. rewrite sp_nthQ_embed_cons by (apply HL; exact Hi).
  destruct (Nat.eqb_spec i k) as [E|NE].
  - subst i. rewrite sp_embed_notin by exact Hnotin. ring.
  - destruct Hi as [Hi|Hi]; [exfalso; apply NE; symmetry; exact Hi|].
    rewrite IH; [ring|exact HND'| |exact Hi]. intros j Hj. apply HL. right. exact Hj.
Qed.

(* sp_embed (restrict d) == d when d is supported in p *)
Lemma sp_embed_restrict n p d : length d = n -> supp p d ->
  veq (sp_embed n (idxs p n) (select (idxs p n) d 0)) d.
Proof.
  intros Hd Hs. apply sp_veq_nth; [rewrite sp_len_embed; symmetry; exact Hd|].
  intros i. destruct (lt_dec i n) as [Hi|Hi].
  - destruct (p i) eqn:Ep.
    + unfold select. change (fun i0 : nat => nth i0 d 0) with (fun i0 : nat => nthQ d i0).
      apply sp_embed_select_nth; [apply sp_idxs_NoDup| |].
      * intros j Hj. apply sp_idxs_In in Hj. tauto.
      * apply sp_idxs_In. tauto.
    + rewrite sp_embed_notin; [symmetry; apply Hs; exact Ep|].
      intros HIn. apply sp_idxs_In in HIn. destruct HIn as [_ HIn]. congruence.
  - rewrite !sp_nthQ_overflow; [reflexivity|lia|rewrite sp_len_embed; lia].
Qed.

Lemma sp_cols_rect A L : Forall (fun r => length r = length L) (cols A L).
Proof.
  unfold cols. apply Forall_forall. intros r Hr. apply in_map_iff in Hr.
  destruct Hr as (r0 & E & _). subst r. unfold select. apply map_length.
Qed.

(* a non-zero kernel vector of the selected columns lifts to A *)
Lemma sp_lift_kernel A n p v : rect n A -> length v = length (idxs p n) -> ~ zerov v ->
  kerv (cols A (idxs p n)) v ->
  exists d, length d = n /\ supp p d /\ ~ zerov d /\ kerv A d.
Proof.
  intros HA Hlen Hnz Hk.
  assert (HL : forall i, In i (idxs p n) -> (i < n)%nat) by (intros i Hi; apply sp_idxs_In in Hi; tauto).
  exists (sp_embed n (idxs p n) v). split; [apply sp_len_embed|]. split; [|split].
  - intros i Hi. apply sp_embed_notin. intros HIn. apply sp_idxs_In in HIn. destruct HIn as [_ HIn]. congruence.
  - intros Hz. apply Hnz.
    apply (sp_zerov_veq (select (idxs p n) (sp_embed n (idxs p n) v) 0)).
    + apply sp_select_embed; [apply sp_idxs_NoDup|exact HL|exact Hlen].
    + unfold select. apply Forall_forall. intros a Ha. apply in_map_iff in Ha.
      destruct Ha as (i & E & _). subst a. apply (sp_zerov_nth _ Hz i).
  - unfold kerv in *. apply Forall_forall. intros r Hr.
    rewrite sp_dot_embed by exact HL.
    rewrite Forall_forall in Hk. apply Hk. unfold cols. apply in_map_iff. exists r. split; [reflexivity|exact Hr].
Qed.

Lemma kernel_dec_on : forall A n p, rect n A ->
  (exists d, length d = n /\ supp p d /\ ~ zerov d /\ kerv A d) \/ inj_on A n p.
Proof.
  intros A n p HA.
  destruct (kernel_dec (length (idxs p n)) (cols A (idxs p n)) (sp_cols_rect A (idxs p n)))
    as [(v & Hlen & Hnz & Hk)|Hinj].
  - left. apply (sp_lift_kernel A n p v HA Hlen Hnz Hk).
  - right. intros d Hd Hs Hk.
    assert (HL : forall i, In i (idxs p n) -> (i < n)%nat) by (intros i Hi; apply sp_idxs_In in Hi; tauto).
    pose proof (sp_embed_restrict n p d Hd Hs) as Hveq.
    assert (Hz : zerov (select (idxs p n) d 0)).
    { apply Hinj; [unfold select; apply map_length|].
      unfold kerv in *. apply Forall_forall. intros r' Hr'. unfold cols in Hr'. apply in_map_iff in Hr'.
      destruct Hr' as (r & E & Hr). subst r'.
      rewrite <- sp_dot_embed by exact HL. rewrite Hveq.
      rewrite Forall_forall in Hk. apply Hk. exact Hr. }
    apply (sp_zerov_veq _ _ Hveq).
    apply sp_nth_zerov. intros i.
    destruct (in_dec Nat.eq_dec i (idxs p n)) as [Hi|Hi].
    + unfold select. change (fun i0 : nat => nth i0 d 0) with (fun i0 : nat => nthQ d i0).
      rewrite sp_embed_select_nth; [|apply sp_idxs_NoDup|exact HL|exact Hi].
      assert (HIn : In (nthQ d i) (select (idxs p n) d 0)).
      { unfold select. apply in_map_iff. exists i. split; [reflexivity|exact Hi]. }
      unfold zerov in Hz. rewrite Forall_forall in Hz. apply Hz. exact HIn.
    + apply sp_embed_notin. exact Hi.
Qed.

Lemma inj_on_size : forall A n p, rect n A -> inj_on A n p -> (length (idxs p n) <= length A)%nat.
Proof.
  intros A n p HA Hinj.
  destruct (le_lt_dec (length (idxs p n)) (length A)) as [H|H]; [exact H|exfalso].
  destruct (wide_kernel (length (idxs p n)) (cols A (idxs p n)) (sp_cols_rect A (idxs p n)))
    as (v & Hlen & Hnz & Hk).
  { unfold cols. rewrite map_length. exact H. }
  destruct (sp_lift_kernel A n p v HA Hlen Hnz Hk) as (d & Hd & Hs & Hdnz & Hdk).
  apply Hdnz. apply Hinj; assumption.
Qed.

(* ---------- Steinitz ---------- *)
(* column s is a combination of the q-columns, with coefficient vector c *)
Definition sp_comb (A : mat) (n : nat) (q : nat -> bool) (s : nat) (c : vec) : Prop :=
  (s < n)%nat /\ length c = n /\ supp q c /\ kerv A (vsub c (unitv n s)).

Lemma sp_Forall2_choice {X Y} (P : X -> Y -> Prop) (L : list X) :
  (forall s, In s L -> exists c, P s c) -> exists C, Forall2 P L C.
Proof.
  induction L as [|s L IH]; intros H.
  - exists []. constructor.
  - destruct (H s (or_introl eq_refl)) as (c & Hc).
    destruct IH as (C & HC). { intros s' Hs'. apply H. right. exact Hs'. }
    exists (c :: C). constructor; assumption.
Qed.

Lemma sp_Forall2_map_veq {X Y} (R : X -> Y -> Prop) (f : X -> Q) (g : Y -> Q) L C :
  Forall2 R L C -> (forall s c, R s c -> f s == g c) -> veq (map f L) (map g C).
Proof.
  intros H HR. induction H as [|s c L C Hsc HLC IH]; cbn [map]; constructor; auto.
Qed.

(* if every S-column lies in the span of the q-columns and the S-columns are independent, |S| <= |q| *)
Lemma sp_span_size A n S q : rect n A -> inj_on A n S ->
  (forall s, In s (idxs S n) -> exists c, sp_comb A n q s c) ->
  (length (idxs S n) <= length (idxs q n))%nat.
Proof.
  intros HA HS Hall.
  destruct (le_lt_dec (length (idxs S n)) (length (idxs q n))) as [H|H]; [exact H|exfalso].
  destruct (sp_Forall2_choice _ _ Hall) as (C & HC).
  set (L := idxs S n) in *.
  assert (HLn : forall i, In i L -> (i < n)%nat) by (intros i Hi; apply sp_idxs_In in Hi; tauto).
  assert (HlenC : length C = length L).
  { clear - HC. induction HC as [|s c L C Hsc HLC IH]; cbn [length]; [reflexivity|]. rewrite IH. reflexivity. }
  assert (HrectC : rect n C).
  { unfold rect. clear - HC. induction HC as [|s c L C Hsc HLC IH]; constructor; auto. destruct Hsc as (_ & Hsc & _); assumption. }
  assert (HsuppC : Forall (fun c => supp q c) C).
  { clear - HC. induction HC as [|s c L C Hsc HLC IH]; constructor; auto. destruct Hsc as (_ & _ & Hsc & _); assumption. }
  set (M := map (fun i => matvec C (unitv n i)) (idxs q n)).
  destruct (wide_kernel (length L) M) as (w & Hw & Hwnz & Hwk).
  { apply Forall_forall. intros r Hr. unfold M in Hr. apply in_map_iff in Hr.
    destruct Hr as (i & E & _). subst r. rewrite len_matvec. exact HlenC. }
  { unfold M. rewrite map_length. exact H. }
  assert (HwC : length w = length C) by lia.
  set (D := tmatvec C w n).
  assert (HD : zerov D).
  { apply (sp_nth_zerov_lt D n); [apply len_tmatvec; exact HrectC|].
    intros i Hi. rewrite <- (sp_dot_unitv n i D Hi). rewrite dot_comm.
    unfold D. rewrite <- (transpose_id C w (unitv n i) n HrectC HwC).
    destruct (q i) eqn:Eq.
    - rewrite dot_comm. unfold kerv in Hwk. rewrite Forall_forall in Hwk. apply Hwk.
      unfold M. apply in_map_iff. exists i. split; [reflexivity|]. apply sp_idxs_In. tauto.
    - apply sp_dot_zerov_r. unfold matvec. apply Forall_forall. intros a Ha. apply in_map_iff in Ha.
      destruct Ha as (c & E & Hc). subst a. rewrite Forall_forall in HsuppC.
      rewrite dot_comm, sp_dot_unitv by exact Hi. apply (HsuppC c Hc). exact Eq. }
  set (E := sp_embed n L w).
  assert (HE : zerov E).
  { apply HS; [apply sp_len_embed| |].
    - intros i Hi. apply sp_embed_notin. intros HIn. apply sp_idxs_In in HIn. destruct HIn as [_ HIn]. congruence.
    - unfold kerv. apply Forall_forall. intros r Hr.
      unfold E. rewrite sp_dot_embed by exact HLn. rewrite dot_comm.
      assert (Hveq : veq (select L r 0) (matvec C r)).
      { unfold select, matvec. apply (sp_Forall2_map_veq (sp_comb A n q)); [exact HC|].
        intros s c (Hsn & Hc1 & Hc2 & Hc3). unfold kerv in Hc3. rewrite Forall_forall in Hc3.
        pose proof (Hc3 r Hr) as Hr0.
        rewrite dot_vsub_r in Hr0 by (rewrite sp_len_unitv; exact Hc1).
        rewrite (dot_comm r (unitv n s)), sp_dot_unitv in Hr0 by exact Hsn.
        unfold nthQ in Hr0. rewrite (dot_comm c r). lra. }
      rewrite Hveq. rewrite (transpose_id C w r n HrectC HwC). apply sp_dot_zerov_l. exact HD. }
  apply Hwnz. apply (sp_zerov_veq (select L E 0)).
  - apply sp_select_embed; [apply sp_idxs_NoDup|exact HLn|exact Hw].
  - unfold select. apply Forall_forall. intros a Ha. apply in_map_iff in Ha.
    destruct Ha as (i & Ei & _). subst a. apply (sp_zerov_nth _ HE i).
Qed.

(* p with one more index *)
Definition sp_ext (p : nat -> bool) (s : nat) : nat -> bool := fun i => p i || Nat.eqb i s.

Lemma sp_filter_ext p s : p s = false -> forall L, NoDup L ->
  (In s L -> length (filter (sp_ext p s) L) = S (length (filter p L))) /\
  (~ In s L -> length (filter (sp_ext p s) L) = length (filter p L)).
Proof.
  intros Hps. induction L as [|k L IH]; intros HND.
  - split; [intros []|reflexivity].
  - inversion HND as [|k' L' Hnotin HND']; subst. destruct (IH HND') as [IH1 IH2].
    assert (Ek : sp_ext p s k = p k || Nat.eqb k s) by reflexivity.
    cbn [filter]. rewrite Ek. destruct (Nat.eqb_spec k s) as [E|NE].
    + subst k. rewrite Hps. cbn [orb length]. split.
      * intros _. rewrite IH2 by exact Hnotin. reflexivity.
      * intros H. exfalso. apply H. left. reflexivity.
    + rewrite Bool.orb_false_r. split.
      * intros [H|H]; [contradiction|]. destruct (p k); cbn [length]; rewrite IH1 by exact H; reflexivity.
      * intros H. assert (H' : ~ In s L) by (intros H'; apply H; right; exact H').
        destruct (p k); cbn [length]; rewrite IH2 by exact H'; reflexivity.
Qed.

Lemma sp_len_idxs_ext p s n : (s < n)%nat -> p s = false ->
  length (idxs (sp_ext p s) n) = S (length (idxs p n)).
Proof.
  intros Hs Hps. unfold idxs. apply (sp_filter_ext p s Hps (seq 0 n) (seq_NoDup n 0)).
  apply in_seq. lia.
Qed.

Lemma sp_supp_unitv (p : nat -> bool) n s : p s = true -> supp p (unitv n s).
Proof.
  intros Hps i Hi. destruct (lt_dec i n) as [Hn|Hn].
  - rewrite sp_nthQ_unitv by exact Hn. destruct (Nat.eqb_spec i s) as [E|NE]; [subst i; congruence|reflexivity].
  - rewrite sp_nthQ_overflow; [reflexivity|rewrite sp_len_unitv; lia].
Qed.

(* adding column s keeps independence, or column s is a combination of the p-columns *)
Lemma sp_step A n p s : rect n A -> inj_on A n p -> (s < n)%nat -> p s = false ->
  inj_on A n (sp_ext p s) \/ exists c, sp_comb A n p s c.
Proof.
  intros HA Hinj Hs Hps.
  destruct (kernel_dec_on A n (sp_ext p s) HA) as [(d & Hd & Hsup & Hnz & Hk)|H]; [right|left; exact H].
  assert (Hds : ~ nthQ d s == 0).
  { intros E. apply Hnz. apply Hinj; [exact Hd| |exact Hk].
    intros i Hi. destruct (Nat.eqb_spec i s) as [Eis|NE]; [subst i; exact E|].
    apply Hsup. unfold sp_ext. rewrite Hi. apply Nat.eqb_neq in NE. rewrite NE. reflexivity. }
  set (t := / nthQ d s).
  exists (vsub (unitv n s) (vscale t d)).
  assert (Hlen : length (unitv n s) = length (vscale t d)) by (rewrite len_vscale, sp_len_unitv; symmetry; exact Hd).
  split; [exact Hs|]. split; [rewrite len_vsub, sp_len_unitv by exact Hlen; reflexivity|]. split.
  - intros i Hi. rewrite sp_nthQ_vsub by exact Hlen. rewrite sp_nthQ_vscale.
    destruct (lt_dec i n) as [Hn|Hn].
    + rewrite sp_nthQ_unitv by exact Hn. destruct (Nat.eqb_spec i s) as [Eis|NE].
      * subst i. unfold t. field. exact Hds.
      * rewrite (Hsup i); [ring|]. unfold sp_ext. rewrite Hi. apply Nat.eqb_neq in NE. rewrite NE. reflexivity.
    + rewrite !sp_nthQ_overflow by (rewrite ?sp_len_unitv; lia). ring.
  - unfold kerv in *. apply Forall_forall. intros r Hr. rewrite Forall_forall in Hk.
    rewrite dot_vsub_r by (rewrite len_vsub, !sp_len_unitv by exact Hlen; reflexivity).
    rewrite dot_vsub_r by exact Hlen. rewrite dot_vscale_r. rewrite (Hk r Hr). ring.
Qed.

Lemma sp_find A n p : rect n A -> inj_on A n p -> forall L, (forall s, In s L -> (s < n)%nat) ->
  (exists s, In s L /\ p s = false /\ inj_on A n (sp_ext p s)) \/
  (forall s, In s L -> exists c, sp_comb A n p s c).
Proof.
  intros HA Hinj. induction L as [|k L IH]; intros HL.
  - right. intros s [].
  - assert (Hk : (k < n)%nat) by (apply HL; left; reflexivity).
    assert (Hcase : (p k = false /\ inj_on A n (sp_ext p k)) \/ exists c, sp_comb A n p k c).
    { destruct (p k) eqn:Epk.
      - right. exists (unitv n k). split; [exact Hk|]. split; [apply sp_len_unitv|]. split.
        + apply sp_supp_unitv. exact Epk.
        + unfold kerv. apply Forall_forall. intros r Hr. rewrite dot_vsub_r by reflexivity. ring.
      - destruct (sp_step A n p k HA Hinj Hk Epk) as [H|H]; [left; split; [reflexivity|exact H]|right; exact H]. }
    destruct Hcase as [(Hpk & Hext)|Hc].
    + left. exists k. split; [left; reflexivity|]. split; assumption.
    + destruct IH as [(s & Hs & Hps & Hext)|Hall].
      * intros s Hs. apply HL. right. exact Hs.
      * left. exists s. split; [right; exact Hs|]. split; assumption.
      * right. intros s [E|Hs]; [subst s; exact Hc|apply Hall; exact Hs].
Qed.

(* Steinitz: an independent column set extends to a basis, when a basis exists *)
Lemma extend_to_basis : forall A n p, rect n A -> inj_on A n p -> has_basis A n ->
  exists p', (forall i, p i = true -> p' i = true) /\ inj_on A n p' /\ length (idxs p' n) = length A.
Proof.
  intros A n p HA Hinj (S0 & HS & HSlen).
  remember (length A - length (idxs p n))%nat as k eqn:Ek.
  revert p Hinj Ek. induction k as [|k IH]; intros p Hinj Ek.
  - exists p. split; [intros i Hi; exact Hi|]. split; [exact Hinj|].
    pose proof (inj_on_size A n p HA Hinj). lia.
  - destruct (sp_find A n p HA Hinj (idxs S0 n)) as [(s & Hs & Hps & Hext)|Hall].
    + intros s Hs. apply sp_idxs_In in Hs. tauto.
    + apply sp_idxs_In in Hs. destruct Hs as [Hsn _].
      destruct (IH (sp_ext p s) Hext) as (p' & Hsub & Hinj' & Hlen').
      * rewrite sp_len_idxs_ext by assumption. lia.
      * exists p'. split; [|split; assumption].
        intros i Hi. apply Hsub. unfold sp_ext. rewrite Hi. reflexivity.
    + exfalso. pose proof (sp_span_size A n S0 p HA HS Hall). lia.
Qed.
