From Coq Require Import QArith List Lqa Lia Setoid Morphisms.
From DV Require Import Base.QVec Run.Verdict Model.Capture.
Import ListNotations.
Open Scope Q_scope.

(* ---------- unfolding equations ---------- *)
Lemma trapz_x_cons2 x0 x1 xs y0 y1 ys :
  trapz_x (x0 :: x1 :: xs) (y0 :: y1 :: ys) = (x1 - x0) * (y0 + y1) / 2 + trapz_x (x1 :: xs) (y1 :: ys).
Proof. reflexivity. Qed.
Lemma trapz_dx_cons2 dx y0 y1 ys :
  trapz_dx dx (y0 :: y1 :: ys) = dx * (y0 + y1) / 2 + trapz_dx dx (y1 :: ys).
Proof. reflexivity. Qed.
Lemma trapz_x_short1 xs y : trapz_x xs [y] = 0.
Proof. destruct xs as [|x0 [|x1 xs]]; reflexivity. Qed.
Lemma trapz_x_nil_r xs : trapz_x xs [] = 0.
Proof. destruct xs as [|x0 [|x1 xs]]; reflexivity. Qed.
Lemma trapz_x_single_l x ys : trapz_x [x] ys = 0.
Proof. destruct ys; reflexivity. Qed.

Definition lin (a b : Q) (u v : vec) : vec := vadd (vscale a u) (vscale b v).
Lemma lin_cons a b u0 u v0 v : lin a b (u0 :: u) (v0 :: v) = (a * u0 + b * v0) :: lin a b u v.
Proof. reflexivity. Qed.
Lemma lin_length a b u v : length u = length v -> length (lin a b u v) = length u.
Proof. intros. unfold lin. rewrite len_vadd; rewrite !len_vscale; auto. Qed.

(* ---------- linearity of the three integration rules ---------- *)
Lemma trapz_x_linear a b : forall xs u v, length u = length v ->
  trapz_x xs (lin a b u v) == a * trapz_x xs u + b * trapz_x xs v.
Proof.
  induction xs as [|x0 xs IH]; intros u v H.
  - simpl. ring.
  - destruct xs as [|x1 xs].
    + rewrite !trapz_x_single_l. ring.
    + destruct u as [|u0 [|u1 u]]; destruct v as [|v0 [|v1 v]]; simpl in H; try discriminate.
      * simpl. ring.
      * rewrite lin_cons. unfold lin at 1. simpl vadd. rewrite !trapz_x_short1. ring.
      * rewrite !lin_cons, !trapz_x_cons2. rewrite <- lin_cons.
        rewrite (IH (u1 :: u) (v1 :: v)) by (simpl; lia). field.
Qed.

Lemma trapz_dx_linear a b dx : forall u v, length u = length v ->
  trapz_dx dx (lin a b u v) == a * trapz_dx dx u + b * trapz_dx dx v.
Proof.
  induction u as [|u0 u IH]; intros v H; destruct v as [|v0 v]; simpl in H; try discriminate.
  - simpl. ring.
  - destruct u as [|u1 u]; destruct v as [|v1 v]; simpl in H; try discriminate.
    + simpl. ring.
    + rewrite !lin_cons, !trapz_dx_cons2. rewrite <- lin_cons.
      rewrite (IH (v1 :: v)) by (simpl; lia). field.
Qed.

Lemma rect_sum_linear a b dx : forall u v, length u = length v ->
  rect_sum dx (lin a b u v) == a * rect_sum dx u + b * rect_sum dx v.
Proof.
  unfold rect_sum. induction u as [|u0 u IH]; intros v H; destruct v as [|v0 v]; simpl in H; try discriminate.
  - simpl. ring.
  - rewrite lin_cons. simpl. rewrite IH by lia. ring.
Qed.

Lemma integ_linear d tz a b u v : length u = length v ->
  integ d tz (lin a b u v) == a * integ d tz u + b * integ d tz v.
Proof.
  intros H. destruct d as [dx|xs]; simpl; [destruct tz|].
  - apply trapz_dx_linear; auto.
  - apply rect_sum_linear; auto.
  - apply trapz_x_linear; auto.
Qed.

(* the integration rules respect == on the integrand *)
Global Instance trapz_x_Proper xs : Proper (veq ==> Qeq) (trapz_x xs).
Proof.
  intros u v H. revert xs. induction H as [|a b u v Hab Huv IH]; intros xs.
  - reflexivity.
  - destruct xs as [|x0 [|x1 xs]]; try reflexivity.
    inversion Huv as [|a1 b1 u' v' Hab1 Huv' E1 E2]; subst.
    + rewrite !trapz_x_short1. reflexivity.
    + rewrite !trapz_x_cons2. specialize (IH (x1 :: xs)).
      set (T1 := trapz_x (x1 :: xs) (a1 :: u')) in *. set (T2 := trapz_x (x1 :: xs) (b1 :: v')) in *.
      rewrite IH. apply Qplus_comp; [|reflexivity]. apply Qmult_comp; [|reflexivity].
      apply Qmult_comp; [reflexivity|]. apply Qplus_comp; assumption.
Qed.
Global Instance trapz_dx_Proper dx : Proper (veq ==> Qeq) (trapz_dx dx).
Proof.
  intros u v H. induction H as [|a b u v Hab Huv IH]; [reflexivity|].
  inversion Huv as [|a1 b1 u' v' Hab1 Huv' E1 E2]; subst; [reflexivity|].
  rewrite !trapz_dx_cons2.
  set (T1 := trapz_dx dx (a1 :: u')) in *. set (T2 := trapz_dx dx (b1 :: v')) in *.
  rewrite IH. apply Qplus_comp; [|reflexivity]. apply Qmult_comp; [|reflexivity].
  apply Qmult_comp; [reflexivity|]. apply Qplus_comp; assumption.
Qed.
Global Instance rect_sum_Proper dx : Proper (veq ==> Qeq) (rect_sum dx).
Proof.
  intros u v H. unfold rect_sum. induction H; simpl; [reflexivity|]. rewrite H, IHForall2. reflexivity.
Qed.
Global Instance integ_Proper d tz : Proper (veq ==> Qeq) (integ d tz).
Proof. intros u v H. destruct d; simpl; [destruct tz|]; rewrite H; reflexivity. Qed.

(* element-wise product distributes over linear combinations *)
Lemma vmul_lin_r f a b u v : length u = length v -> length f = length u ->
  veq (vmul f (lin a b u v)) (lin a b (vmul f u) (vmul f v)).
Proof.
  revert u v; induction f as [|f0 f IH]; intros [|u0 u] [|v0 v] H1 H2; simpl in *; try discriminate; try constructor.
  - ring.
  - apply IH; lia.
Qed.
Lemma vmul_lin_l s a b u v : length u = length v -> length s = length u ->
  veq (vmul (lin a b u v) s) (lin a b (vmul u s) (vmul v s)).
Proof.
  revert u v; induction s as [|s0 s IH]; intros [|u0 u] [|v0 v] H1 H2; simpl in *; try discriminate; try constructor.
  - ring.
  - apply IH; lia.
Qed.

(* superposition: capture is linear in the signal ... *)
Lemma cap11_linear_signal d tz f a b s1 s2 : length s1 = length s2 -> length f = length s1 ->
  cap11 d tz f (lin a b s1 s2) == a * cap11 d tz f s1 + b * cap11 d tz f s2.
Proof.
  intros H1 H2. unfold cap11. rewrite (vmul_lin_r f a b s1 s2 H1 H2).
  apply integ_linear. rewrite !len_vmul; lia.
Qed.
(* ... and in the filter (univariance) *)
Lemma cap11_linear_filter d tz s a b f1 f2 : length f1 = length f2 -> length s = length f1 ->
  cap11 d tz (lin a b f1 f2) s == a * cap11 d tz f1 s + b * cap11 d tz f2 s.
Proof.
  intros H1 H2. unfold cap11. rewrite (vmul_lin_l s a b f1 f2 H1 H2).
  apply integ_linear. rewrite !len_vmul; lia.
Qed.

(* ---------- entry formula and locality ---------- *)
Lemma nth_map_lt {A B} (f : A -> B) l i db da : (i < length l)%nat ->
  nth i (map f l) db = f (nth i l da).
Proof. revert i; induction l as [|a l IH]; intros [|i] H; simpl in *; try lia; auto. apply IH; lia. Qed.
Lemma cap22_entry d tz F S i j : (i < length S)%nat -> (j < length F)%nat ->
  nthQ (nthV (cap22 d tz F S) i) j = cap11 d tz (nthV F j) (nthV S i).
Proof.
  intros Hi Hj. unfold cap22, nthQ, nthV.
  revert i Hi. induction S as [|s S IHS]; intros [|i] Hi; simpl in *; try lia.
  - clear IHS Hi. revert j Hj. induction F as [|f F IHF]; intros [|j] Hj; simpl in *; try lia; auto.
    apply IHF; lia.
  - apply IHS; lia.
Qed.
Lemma cap22_shape d tz F S : length (cap22 d tz F S) = length S /\
  Forall (fun r => length r = length F) (cap22 d tz F S).
Proof.
  unfold cap22. split; [apply map_length|]. apply Forall_forall. intros r Hr.
  apply in_map_iff in Hr. destruct Hr as (s & <- & _). apply map_length.
Qed.
(* entry (i,j) depends on no other filter or signal *)
Lemma cap22_local d tz F F' S S' i j :
  (i < length S)%nat -> (i < length S')%nat -> (j < length F)%nat -> (j < length F')%nat ->
  nthV F j = nthV F' j -> nthV S i = nthV S' i ->
  nthQ (nthV (cap22 d tz F S) i) j = nthQ (nthV (cap22 d tz F' S') i) j.
Proof. intros. rewrite !cap22_entry by auto. congruence. Qed.

(* batch axis: entry (b,i,j) of the 3-D result is the 2-D capture of batch element b *)
Lemma map2_nth {A B C} (f : A -> B -> C) l l' k da db dc :
  (k < length l)%nat -> (k < length l')%nat -> nth k (map2 f l l') dc = f (nth k l da) (nth k l' db).
Proof.
  revert l' k; induction l as [|a l IH]; intros [|b l'] [|k] H1 H2; simpl in *; try lia; auto.
  apply IH; lia.
Qed.
Lemma capture_batch_entry d tz Fb Sb T k : length Fb = length Sb -> (k < length Fb)%nat ->
  capture d tz (A3 Fb) (A3 Sb) = Ok (A3 T) ->
  nth k T [] = cap22 d tz (nth k Fb []) (nth k Sb []).
Proof.
  intros HL Hk. simpl. rewrite HL, Nat.eqb_refl. intros E. inversion E; subst.
  apply map2_nth; lia.
Qed.

(* ---------- scalar step == explicit grid 0, dx, 2dx, ... ---------- *)
Lemma trapz_dx_is_grid dx : forall ys x0,
  trapz_dx dx ys == trapz_x (grid_from x0 dx (length ys)) ys.
Proof.
  induction ys as [|y0 ys IH]; intros x0; [reflexivity|].
  destruct ys as [|y1 ys]; [reflexivity|].
  rewrite trapz_dx_cons2. change (length (y0 :: y1 :: ys)) with (S (S (length ys))).
  change (grid_from x0 dx (S (S (length ys)))) with (x0 :: (x0 + dx) :: grid_from (x0 + dx + dx) dx (length ys)).
  rewrite trapz_x_cons2. rewrite (IH (x0 + dx)). simpl length. simpl grid_from. field.
Qed.

(* ---------- trapz=False is the plain sum; differs from the trapezoid by the end-point term ---------- *)
Lemma last_cons (y1 : Q) ys y0 : last (y1 :: ys) y0 = last ys y1.
Proof. revert y1 y0; induction ys as [|y2 ys IH]; intros; [reflexivity|]. 
  change (last (y1 :: y2 :: ys) y0) with (last (y2 :: ys) y0). rewrite IH. 
  change (last (y2 :: ys) y1) with (match ys with [] => y2 | _ => last ys y1 end).
  destruct ys; [reflexivity|]. rewrite <- (IH y2 y1). reflexivity. Qed.
Lemma rect_vs_trapz dx : forall y0 ys,
  rect_sum dx (y0 :: ys) == trapz_dx dx (y0 :: ys) + dx * (y0 + last ys y0) / 2.
Proof.
  intros y0 ys; revert y0. induction ys as [|y1 ys IH]; intros y0.
  - unfold rect_sum. simpl. field.
  - rewrite trapz_dx_cons2. specialize (IH y1). rewrite last_cons.
    unfold rect_sum in *. cbn [map sumQ] in *.
    set (R := sumQ (map (fun y => y * dx) ys)) in *.
    set (T := trapz_dx dx (y1 :: ys)) in *. set (L := last ys y1) in *.
    rewrite IH. field.
Qed.

(* ---------- the stand-alone helper is the same rule, row by row ---------- *)
Lemma integral_rows d M : integral d (A2 M) 1 = Ok (A1 (map (integ d true) M)).
Proof. reflexivity. Qed.
Lemma integral_vec d v : integral d (A1 v) 0 = Ok (A0 (integ d true v)).
Proof. reflexivity. Qed.
Lemma cols_integ_entry d M j : (j < ncols M)%nat -> nthQ (cols_integ d M) j = integ d true (column M j).
Proof.
  intros Hj. unfold nthQ, cols_integ.
  rewrite (@nth_map_lt nat Q (fun j => integ d true (column M j)) (seq 0 (ncols M)) j 0 0%nat) by (rewrite seq_length; auto).
  rewrite seq_nth by auto. reflexivity.
Qed.
Lemma integral_cols_entry d M j : (j < ncols M)%nat ->
  exists r, integral d (A2 M) 0 = Ok (A1 r) /\ nthQ r j = integ d true (column M j).
Proof. intros Hj. eexists; split; [reflexivity|]. apply cols_integ_entry; auto. Qed.
(* rank 3: integrating along the last / middle axis leaves the other two in order *)
Lemma integral3_last d T : integral d (A3 T) 2 = Ok (A2 (map (map (integ d true)) T)).
Proof. reflexivity. Qed.
Lemma integral3_middle d T : integral d (A3 T) 1 = Ok (A2 (map (cols_integ d) T)).
Proof. reflexivity. Qed.
Lemma nth_map_seq {B} (f : nat -> B) n j d : (j < n)%nat -> nth j (map f (seq 0 n)) d = f j.
Proof. intros H. rewrite (nth_map_lt f (seq 0 n) j d 0%nat) by (rewrite seq_length; auto). rewrite seq_nth by auto. reflexivity. Qed.
Lemma integral3_first_entry d T j k : (j < length (nth 0 T []))%nat -> (k < ncols (nth 0 T []))%nat ->
  exists R, integral d (A3 T) 0 = Ok (A2 R) /\
    nthQ (nthV R j) k = integ d true (map (fun M => nthQ (nthV M j) k) T).
Proof.
  intros Hj Hk. eexists; split; [reflexivity|]. unfold nthV at 1, nthQ at 1.
  set (f := fun j0 : nat => map (fun k0 : nat => integ d true (map (fun M : mat => nthQ (nthV M j0) k0) T)) (seq 0 (ncols (nth 0 T [])))).
  assert (E : nth j (map f (seq 0 (length (nth 0 T [])))) [] = f j) by (apply nth_map_seq; auto).
  etransitivity; [apply (f_equal (fun r : list Q => nth k r 0)); exact E|].
  unfold f. apply (nth_map_seq (fun k0 : nat => integ d true (map (fun M : mat => nthQ (nthV M j) k0) T))); auto.
Qed.
