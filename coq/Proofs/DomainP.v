(* Proofs/DomainP.v — lemmas about Model/Domain.v (C19).  Every lemma is closed with Qed; nothing is assumed. *)
From Coq Require Import QArith Qabs Qminmax Qround List Bool ZArith Lia Lqa Setoid Morphisms.
From DV Require Import Base.QVec Run.Verdict Model.Capture Model.Domain.
Import ListNotations.
Open Scope Q_scope.


(* ---- 1. the grid (np.linspace) ---- *)
Lemma nth_map_seq (f : nat -> Q) n k d : (k < n)%nat -> nth k (map f (seq 0 n)) d = f k.
Proof.
  intros H. rewrite (nth_indep _ d (f 0%nat)) by (rewrite map_length, seq_length; exact H).
  rewrite map_nth. rewrite seq_nth by exact H. reflexivity.
Qed.
Lemma inj_S_Q k : inject_Z (Z.of_nat (S k)) == inject_Z (Z.of_nat k) + 1.
Proof. rewrite Nat2Z.inj_succ. unfold Z.succ. rewrite inject_Z_plus. reflexivity. Qed.

Lemma grid_length lo hi num : length (grid lo hi num) = num.
Proof. unfold grid. rewrite map_length, seq_length. reflexivity. Qed.
Lemma grid_nth lo hi num k : (k < num)%nat ->
  nth k (grid lo hi num) 0 = lo + inject_Z (Z.of_nat k) * ((hi - lo) / (inject_Z (Z.of_nat num) - 1)).
Proof. intros H. unfold grid. rewrite nth_map_seq by exact H. reflexivity. Qed.
Lemma grid_first lo hi num : (1 <= num)%nat -> nth 0 (grid lo hi num) 0 == lo.
Proof. intros H. rewrite grid_nth by lia. change (inject_Z (Z.of_nat 0)) with 0. ring. Qed.
Lemma grid_last lo hi num : (2 <= num)%nat -> nth (num - 1) (grid lo hi num) 0 == hi.
Proof.
  intros H. rewrite grid_nth by lia.
  destruct num as [|n]; [lia|]. replace (S n - 1)%nat with n by lia.
  rewrite inj_S_Q.
  assert (Hn : 0 < inject_Z (Z.of_nat n)).
  { change 0 with (inject_Z 0). rewrite <- Zlt_Qlt. lia. }
  field. lra.
Qed.
Lemma grid_uniform lo hi num k : (2 <= num)%nat -> (S k < num)%nat ->
  nth (S k) (grid lo hi num) 0 - nth k (grid lo hi num) 0 == (hi - lo) / (inject_Z (Z.of_nat num) - 1).
Proof.
  intros H Hk. rewrite !grid_nth by lia. rewrite inj_S_Q.
  set (s := (hi - lo) / (inject_Z (Z.of_nat num) - 1)). ring.
Qed.

(* ---- 2. np.around = round half to even ---- *)
Lemma floor_frac q : 0 <= q - inject_Z (Qfloor q) /\ q - inject_Z (Qfloor q) < 1.
Proof.
  pose proof (Qfloor_le q) as H1. pose proof (Qlt_floor q) as H2.
  rewrite inject_Z_plus in H2. change (inject_Z 1) with 1 in H2. split; lra.
Qed.
Lemma rhe_spec q :
  let n := Qfloor q in let fr := q - inject_Z n in
  (fr < 1#2 /\ round_half_even q = n) \/
  (1#2 < fr /\ round_half_even q = (n + 1)%Z) \/
  (fr == 1#2 /\ round_half_even q = (if Z.even n then n else (n + 1)%Z)).
Proof.
  intros n fr. unfold round_half_even. fold n. fold fr.
  destruct (Qcompare fr (1#2)) eqn:E.
  - right; right. split; [apply Qeq_alt; exact E|reflexivity].
  - left. split; [apply Qlt_alt; exact E|reflexivity].
  - right; left. split; [apply Qgt_alt in E; exact E|reflexivity].
Qed.
Lemma round_half_even_near q : Qabs (q - inject_Z (round_half_even q)) <= 1#2.
Proof.
  pose proof (floor_frac q) as [F0 F1].
  apply Qabs_Qle_condition.
  destruct (rhe_spec q) as [[Hf Hr]|[[Hf Hr]|[Hf Hr]]]; rewrite Hr.
  - split; lra.
  - rewrite inject_Z_plus. change (inject_Z 1) with 1. split; lra.
  - destruct (Z.even (Qfloor q)).
    + split; lra.
    + rewrite inject_Z_plus. change (inject_Z 1) with 1. split; lra.
Qed.
Lemma round_half_even_tie q : Qabs (q - inject_Z (round_half_even q)) == 1#2 -> Z.even (round_half_even q) = true.
Proof.
  pose proof (floor_frac q) as [F0 F1].
  destruct (rhe_spec q) as [[Hf Hr]|[[Hf Hr]|[Hf Hr]]]; rewrite Hr.
  - intros HA. exfalso. rewrite Qabs_pos in HA by lra. lra.
  - rewrite inject_Z_plus. change (inject_Z 1) with 1. intros HA. exfalso.
    rewrite Qabs_neg in HA by lra. lra.
  - intros _. destruct (Z.even (Qfloor q)) eqn:Ev; [exact Ev|].
    rewrite Z.even_add, Ev. reflexivity.
Qed.
(* CHANGED: the hypothesis `0 <= round_half_even (...)` was parsed in Q_scope although round_half_even returns a Z
   (ill-typed: "has type Z while it is expected to have type Q"); the comparison is now stated in Z_scope. *)
Lemma arange_count lo hi step : (0 <= round_half_even ((hi - lo) / step))%Z ->
  length (arange_with_interval lo hi step) = S (Z.to_nat (round_half_even ((hi - lo) / step))).
Proof.
  intros H. unfold arange_with_interval. rewrite grid_length. unfold grid_num.
  set (r := round_half_even ((hi - lo) / step)) in *.
  rewrite Z2Nat.inj_add by lia. change (Z.to_nat 1) with 1%nat. lia.
Qed.

(* ---- 3. mean of the differences of a list telescopes ---- *)
Fixpoint diffs (l : vec) : vec := match l with a :: ((b :: _) as l') => (b - a) :: diffs l' | _ => [] end.
Lemma sum_diffs_telescope a l : sumQ (diffs (a :: l)) == last l a - a.
Proof.
  revert a. induction l as [|b l IH]; intros a.
  - simpl. ring.
  - change (diffs (a :: b :: l)) with ((b - a) :: diffs (b :: l)).
    change (sumQ ((b - a) :: diffs (b :: l))) with ((b - a) + sumQ (diffs (b :: l))).
    rewrite IH.
    assert (E : forall (l0 : list Q) (a0 b0 : Q), last (b0 :: l0) a0 = last l0 b0).
    { clear. induction l0 as [|c l0 IHl]; intros a0 b0; [reflexivity|].
      change (last (b0 :: c :: l0) a0) with (last (c :: l0) a0).
      rewrite (IHl a0 c), (IHl b0 c). reflexivity. }
    rewrite E. ring.
Qed.



(* ---- 4. overlap and coarsest step ---- *)
Lemma minl_le_acc d : forall acc, minl d acc <= acc.
Proof.
  induction d as [|a d IH]; intros acc; cbn [minl]; [apply Qle_refl|].
  eapply Qle_trans; [apply IH|apply Q.le_min_l].
Qed.
Lemma maxl_ge_acc d : forall acc, acc <= maxl d acc.
Proof.
  induction d as [|a d IH]; intros acc; cbn [maxl]; [apply Qle_refl|].
  eapply Qle_trans; [apply Q.le_max_l|apply IH].
Qed.
Lemma minl_le_in d x : forall acc, In x d -> minl d acc <= x.
Proof.
  induction d as [|a d IH]; intros acc HI; [destruct HI|].
  cbn [minl]. destruct HI as [HE|HI].
  - subst a. eapply Qle_trans; [apply minl_le_acc|apply Q.le_min_r].
  - apply IH. exact HI.
Qed.
Lemma maxl_ge_in d x : forall acc, In x d -> x <= maxl d acc.
Proof.
  induction d as [|a d IH]; intros acc HI; [destruct HI|].
  cbn [maxl]. destruct HI as [HE|HI].
  - subst a. eapply Qle_trans; [apply Q.le_max_r|apply maxl_ge_acc].
  - apply IH. exact HI.
Qed.
Lemma minl_in d : forall acc, minl d acc == acc \/ exists x, In x d /\ x == minl d acc.
Proof.
  induction d as [|a d IH]; intros acc; cbn [minl]; [left; reflexivity|].
  destruct (IH (Qmin acc a)) as [HE|[x [HI HE]]].
  - destruct (Q.min_spec acc a) as [[_ HM]|[_ HM]].
    + left. rewrite HE. exact HM.
    + right. exists a. split; [left; reflexivity|]. rewrite HE. symmetry. exact HM.
  - right. exists x. split; [right; exact HI|exact HE].
Qed.
Lemma maxl_in d : forall acc, maxl d acc == acc \/ exists x, In x d /\ x == maxl d acc.
Proof.
  induction d as [|a d IH]; intros acc; cbn [maxl]; [left; reflexivity|].
  destruct (IH (Qmax acc a)) as [HE|[x [HI HE]]].
  - destruct (Q.max_spec acc a) as [[_ HM]|[_ HM]].
    + right. exists a. split; [left; reflexivity|]. rewrite HE. symmetry. exact HM.
    + left. rewrite HE. exact HM.
  - right. exists x. split; [right; exact HI|exact HE].
Qed.

Lemma dmin_le d x : In x d -> dmin d <= x.
Proof.
  destruct d as [|a d]; intros HI; [destruct HI|]. cbn [dmin].
  destruct HI as [HE|HI].
  - subst a. apply minl_le_acc.
  - apply minl_le_in. exact HI.
Qed.
Lemma dmax_ge d x : In x d -> x <= dmax d.
Proof.
  destruct d as [|a d]; intros HI; [destruct HI|]. cbn [dmax].
  destruct HI as [HE|HI].
  - subst a. apply maxl_ge_acc.
  - apply maxl_ge_in. exact HI.
Qed.
Lemma dmin_in d : d <> [] -> exists x, In x d /\ x == dmin d.
Proof.
  destruct d as [|a d]; intros HN; [congruence|]. cbn [dmin].
  destruct (minl_in d a) as [HE|[x [HI HE]]].
  - exists a. split; [left; reflexivity|symmetry; exact HE].
  - exists x. split; [right; exact HI|exact HE].
Qed.
Lemma dmax_in d : d <> [] -> exists x, In x d /\ x == dmax d.
Proof.
  destruct d as [|a d]; intros HN; [congruence|]. cbn [dmax].
  destruct (maxl_in d a) as [HE|[x [HI HE]]].
  - exists a. split; [left; reflexivity|symmetry; exact HE].
  - exists x. split; [right; exact HI|exact HE].
Qed.

Lemma fold_bounds_spec ds : forall lo0 hi0 st0 lo hi st,
  fold_bounds ds lo0 hi0 st0 false = (lo, hi, st) ->
  lo0 <= lo /\ hi <= hi0 /\ st0 <= st /\
  Forall (fun d => dmin d <= lo /\ hi <= dmax d /\ mean_step d <= st) ds /\
  (lo == lo0 \/ exists d, In d ds /\ lo == dmin d) /\
  (hi == hi0 \/ exists d, In d ds /\ hi == dmax d) /\
  (st == st0 \/ exists d, In d ds /\ st == mean_step d).
Proof.
  induction ds as [|d ds IH]; intros lo0 hi0 st0 lo hi st HF.
  - cbn [fold_bounds] in HF. inversion HF; subst.
    split; [apply Qle_refl|]. split; [apply Qle_refl|]. split; [apply Qle_refl|].
    split; [constructor|]. split; [left; reflexivity|]. split; left; reflexivity.
  - cbn [fold_bounds] in HF.
    destruct (IH _ _ _ _ _ _ HF) as (Hlo & Hhi & Hst & HA & Elo & Ehi & Est).
    pose proof (Q.le_max_l lo0 (dmin d)) as M1. pose proof (Q.le_max_r lo0 (dmin d)) as M2.
    pose proof (Q.le_min_l hi0 (dmax d)) as M3. pose proof (Q.le_min_r hi0 (dmax d)) as M4.
    pose proof (Q.le_max_l st0 (mean_step d)) as M5. pose proof (Q.le_max_r st0 (mean_step d)) as M6.
    split; [lra|]. split; [lra|]. split; [lra|].
    split; [constructor; [repeat split; lra|exact HA]|].
    split; [|split].
    + destruct Elo as [E|[d' [HI E]]].
      * destruct (Q.max_spec lo0 (dmin d)) as [[_ HM]|[_ HM]].
        -- right. exists d. split; [left; reflexivity|]. rewrite E. exact HM.
        -- left. rewrite E. exact HM.
      * right. exists d'. split; [right; exact HI|exact E].
    + destruct Ehi as [E|[d' [HI E]]].
      * destruct (Q.min_spec hi0 (dmax d)) as [[_ HM]|[_ HM]].
        -- left. rewrite E. exact HM.
        -- right. exists d. split; [left; reflexivity|]. rewrite E. exact HM.
      * right. exists d'. split; [right; exact HI|exact E].
    + destruct Est as [E|[d' [HI E]]].
      * destruct (Q.max_spec st0 (mean_step d)) as [[_ HM]|[_ HM]].
        -- right. exists d. split; [left; reflexivity|]. rewrite E. exact HM.
        -- left. rewrite E. exact HM.
      * right. exists d'. split; [right; exact HI|exact E].
Qed.

Lemma bounds_and_diff_spec ds lo hi st : ds <> [] -> bounds_and_diff ds = (lo, hi, st) ->
  Forall (fun d => dmin d <= lo /\ hi <= dmax d /\ mean_step d <= st) ds /\
  (exists d, In d ds /\ lo == dmin d) /\ (exists d, In d ds /\ hi == dmax d) /\
  (st == 0 \/ exists d, In d ds /\ st == mean_step d).
Proof.
  destruct ds as [|d ds]; intros HN HB; [congruence|].
  unfold bounds_and_diff in HB. cbn [fold_bounds] in HB.
  destruct (fold_bounds_spec _ _ _ _ _ _ _ HB) as (Hlo & Hhi & Hst & HA & Elo & Ehi & Est).
  pose proof (Q.le_max_r 0 (mean_step d)) as M6.
  split; [constructor; [repeat split; lra|exact HA]|].
  split; [|split].
  - destruct Elo as [E|[d' [HI E]]].
    + exists d. split; [left; reflexivity|exact E].
    + exists d'. split; [right; exact HI|exact E].
  - destruct Ehi as [E|[d' [HI E]]].
    + exists d. split; [left; reflexivity|exact E].
    + exists d'. split; [right; exact HI|exact E].
  - destruct Est as [E|[d' [HI E]]].
    + destruct (Q.max_spec 0 (mean_step d)) as [[_ HM]|[_ HM]].
      * right. exists d. split; [left; reflexivity|]. rewrite E. exact HM.
      * left. rewrite E. exact HM.
    + right. exists d'. split; [right; exact HI|exact E].
Qed.


(* ---- 5. linear interpolation on strictly ascending knots ---- *)
Fixpoint ascending (xs : vec) : Prop :=
  match xs with a :: ((b :: _) as xs') => a < b /\ ascending xs' | _ => True end.

Lemma interp_asc_cons2 x0 x1 xs2 y0 y1 ys t :
  interp_asc (x0 :: x1 :: xs2) (y0 :: y1 :: ys) t =
  if Qle_bool t x1 || (match xs2 with [] => true | _ => false end)
  then y0 + (y1 - y0) * (t - x0) / (x1 - x0)
  else interp_asc (x1 :: xs2) (y1 :: ys) t.
Proof. reflexivity. Qed.
Lemma interp_asc_nil ys t : interp_asc [] ys t = 0.
Proof. destruct ys; reflexivity. Qed.
Lemma interp_asc_one x0 ys t : interp_asc [x0] ys t = 0.
Proof. destruct ys; reflexivity. Qed.
Lemma interp_asc_ynil xs t : interp_asc xs [] t = 0.
Proof. destruct xs as [|x0 [|x1 xs2]]; reflexivity. Qed.
Lemma interp_asc_yone xs y0 t : interp_asc xs [y0] t = 0.
Proof. destruct xs as [|x0 [|x1 xs2]]; reflexivity. Qed.

Lemma ascending_tail a xs : ascending (a :: xs) -> ascending xs.
Proof. destruct xs as [|b xs]; intros H; [exact I|]. destruct H as [_ H]. exact H. Qed.
Lemma ascending_head_lt xs : forall a j, ascending (a :: xs) -> (j < length xs)%nat -> a < nth j xs 0.
Proof.
  induction xs as [|b xs IH]; intros a j HA Hj; [cbn [length] in Hj; lia|].
  destruct HA as [Hab HA]. destruct j as [|j].
  - exact Hab.
  - cbn [nth]. cbn [length] in Hj.
    apply Qlt_trans with b; [exact Hab|]. apply IH; [exact HA|lia].
Qed.

Definition chord (xs ys : vec) (k : nat) (t : Q) : Q :=
  nth k ys 0 + (nth (S k) ys 0 - nth k ys 0) * (t - nth k xs 0) / (nth (S k) xs 0 - nth k xs 0).

Lemma interp_asc_between xs : forall ys k t, ascending xs -> length xs = length ys -> (S k < length xs)%nat ->
  nth k xs 0 <= t -> t <= nth (S k) xs 0 -> interp_asc xs ys t == chord xs ys k t.
Proof.
  induction xs as [|x0 xs1 IH]; intros ys k t HA HL Hk H1 H2; [cbn [length] in Hk; lia|].
  destruct xs1 as [|x1 xs2]; [cbn [length] in Hk; lia|].
  destruct ys as [|y0 [|y1 ys2]]; [cbn [length] in HL; lia|cbn [length] in HL; lia|].
  rewrite interp_asc_cons2.
  pose proof HA as HA0. destruct HA0 as [H01 HA1].
  destruct (Qle_bool t x1) eqn:E.
  - cbn [orb]. apply Qle_bool_iff in E.
    destruct k as [|k'].
    + unfold chord. cbn [nth]. reflexivity.
    + destruct k' as [|k''].
      * destruct xs2 as [|x2 xs3]; [cbn [length] in Hk; lia|].
        destruct ys2 as [|y2 ys3]; [cbn [length] in HL; lia|].
        unfold chord. cbn [nth] in *. destruct HA1 as [H12 _].
        assert (Ht : t == x1) by lra. rewrite Ht. field. split; lra.
      * exfalso. cbn [nth] in H1.
        assert (HL2 : x1 < nth k'' xs2 0).
        { apply ascending_head_lt; [exact HA1|]. cbn [length] in Hk. lia. }
        lra.
  - assert (Ent : ~ t <= x1).
    { intros C. apply Qle_bool_iff in C. congruence. }
    destruct k as [|k'].
    + exfalso. cbn [nth] in H2. apply Ent. exact H2.
    + destruct xs2 as [|x2 xs3]; [cbn [length] in Hk; lia|].
      cbn [orb].
      rewrite (IH (y1 :: ys2) k' t HA1).
      * unfold chord. cbn [nth]. reflexivity.
      * cbn [length] in *. lia.
      * cbn [length] in *. lia.
      * exact H1.
      * exact H2.
Qed.

Lemma nth_between_bounds xs k : (k < length xs)%nat -> dmin xs <= nth k xs 0 /\ nth k xs 0 <= dmax xs.
Proof. intros H. split; [apply dmin_le|apply dmax_ge]; apply nth_In; exact H. Qed.

Lemma interp_between xs ys k t : ascending xs -> length xs = length ys -> (S k < length xs)%nat ->
  nth k xs 0 <= t -> t <= nth (S k) xs 0 ->
  interp1 xs ys t == nth k ys 0 + (nth (S k) ys 0 - nth k ys 0) * (t - nth k xs 0) / (nth (S k) xs 0 - nth k xs 0).
Proof.
  intros HA HL Hk H1 H2. unfold interp1.
  destruct (nth_between_bounds xs k ltac:(lia)) as [B1 _].
  destruct (nth_between_bounds xs (S k) Hk) as [_ B2].
  assert (C1 : Qle_bool (dmin xs) t = true) by (apply Qle_bool_iff; lra).
  assert (C2 : Qle_bool t (dmax xs) = true) by (apply Qle_bool_iff; lra).
  rewrite C1, C2. cbn [andb].
  apply (interp_asc_between xs ys k t HA HL Hk H1 H2).
Qed.

Lemma ascending_step xs k : ascending xs -> (S k < length xs)%nat -> nth k xs 0 < nth (S k) xs 0.
Proof.
  revert k. induction xs as [|a xs IH]; intros k HA Hk; [cbn [length] in Hk; lia|].
  destruct k as [|k].
  - apply (ascending_head_lt xs a 0%nat HA). cbn [length] in Hk. lia.
  - change (nth k xs 0 < nth (S k) xs 0). apply IH; [exact (ascending_tail _ _ HA)|cbn [length] in Hk; lia].
Qed.

Lemma interp_at_knot xs ys k : ascending xs -> length xs = length ys -> (2 <= length xs)%nat -> (k < length xs)%nat ->
  interp1 xs ys (nth k xs 0) == nth k ys 0.
Proof.
  intros HA HL H2 Hk.
  destruct (Nat.lt_ge_cases (S k) (length xs)) as [HS|HS].
  - rewrite (interp_between xs ys k (nth k xs 0) HA HL HS (Qle_refl _)).
    + unfold Qdiv. ring.
    + apply Qlt_le_weak. apply ascending_step; assumption.
  - destruct k as [|k']; [lia|].
    assert (HS' : (S k' < length xs)%nat) by lia.
    pose proof (ascending_step xs k' HA HS') as Hlt.
    rewrite (interp_between xs ys k' (nth (S k') xs 0) HA HL HS').
    + field. lra.
    + apply Qlt_le_weak. exact Hlt.
    + apply Qle_refl.
Qed.

Lemma interp_between_bounds xs ys k t : ascending xs -> length xs = length ys -> (S k < length xs)%nat ->
  nth k xs 0 <= t -> t <= nth (S k) xs 0 ->
  Qmin (nth k ys 0) (nth (S k) ys 0) <= interp1 xs ys t /\ interp1 xs ys t <= Qmax (nth k ys 0) (nth (S k) ys 0).
Proof.
  intros HA HL Hk H1 H2.
  rewrite (interp_between xs ys k t HA HL Hk H1 H2).
  pose proof (ascending_step xs k HA Hk) as Hlt.
  set (x0 := nth k xs 0) in *. set (x1 := nth (S k) xs 0) in *.
  set (y0 := nth k ys 0). set (y1 := nth (S k) ys 0).
  set (lam := (t - x0) / (x1 - x0)).
  assert (L0 : 0 <= lam).
  { unfold lam. apply Qle_shift_div_l; lra. }
  assert (L1 : lam <= 1).
  { unfold lam. apply Qle_shift_div_r; lra. }
  assert (EV : y0 + (y1 - y0) * (t - x0) / (x1 - x0) == y0 + (y1 - y0) * lam).
  { unfold lam. field. lra. }
  rewrite EV.
  pose proof (Q.le_min_l y0 y1) as M1. pose proof (Q.le_min_r y0 y1) as M2.
  pose proof (Q.le_max_l y0 y1) as M3. pose proof (Q.le_max_r y0 y1) as M4.
  destruct (Qlt_le_dec y1 y0) as [Hy|Hy].
  - assert (P1 : 0 <= (y0 - y1) * lam) by (apply Qmult_le_0_compat; lra).
    assert (P2 : 0 <= (y0 - y1) * (1 - lam)) by (apply Qmult_le_0_compat; lra).
    split; lra.
  - assert (P1 : 0 <= (y1 - y0) * lam) by (apply Qmult_le_0_compat; lra).
    assert (P2 : 0 <= (y1 - y0) * (1 - lam)) by (apply Qmult_le_0_compat; lra).
    split; lra.
Qed.

Lemma interp_asc_linear xs a b t : forall u v, length u = length v ->
  interp_asc xs (vadd (vscale a u) (vscale b v)) t == a * interp_asc xs u t + b * interp_asc xs v t.
Proof.
  induction xs as [|x0 xs1 IH]; intros u v HL.
  - rewrite !interp_asc_nil. ring.
  - destruct xs1 as [|x1 xs2]; [rewrite !interp_asc_one; ring|].
    destruct u as [|u0 [|u1 u2]]; destruct v as [|v0 [|v1 v2]]; cbn [length] in HL; try lia.
    + change (vadd (vscale a []) (vscale b [])) with (@nil Q). rewrite !interp_asc_ynil. ring.
    + change (vadd (vscale a [u0]) (vscale b [v0])) with [a * u0 + b * v0].
      rewrite !interp_asc_yone. ring.
    + change (vadd (vscale a (u0 :: u1 :: u2)) (vscale b (v0 :: v1 :: v2)))
        with ((a * u0 + b * v0) :: (a * u1 + b * v1) :: vadd (vscale a u2) (vscale b v2)).
      rewrite !interp_asc_cons2.
      destruct (Qle_bool t x1 || match xs2 with [] => true | _ :: _ => false end).
      * unfold Qdiv. ring.
      * change ((a * u1 + b * v1) :: vadd (vscale a u2) (vscale b v2))
          with (vadd (vscale a (u1 :: u2)) (vscale b (v1 :: v2))).
        apply IH. cbn [length]. lia.
Qed.

Lemma interp_linear xs a b u v t : length u = length v ->
  interp1 xs (vadd (vscale a u) (vscale b v)) t == a * interp1 xs u t + b * interp1 xs v t.
Proof.
  intros HL. unfold interp1.
  destruct (Qle_bool (dmin xs) t && Qle_bool t (dmax xs)).
  - apply interp_asc_linear. exact HL.
  - ring.
Qed.

Lemma interp_outside xs ys t : xs <> [] -> (t < dmin xs \/ dmax xs < t) -> interp1 xs ys t = 0.
Proof.
  intros _ HO. unfold interp1.
  destruct (Qle_bool (dmin xs) t) eqn:E1; [|reflexivity].
  destruct (Qle_bool t (dmax xs)) eqn:E2; [|reflexivity].
  exfalso. apply Qle_bool_iff in E1. apply Qle_bool_iff in E2. lra.
Qed.

(* ---- 6. control flow of equalize ---- *)
Lemma equal_domains_identity ds arrs : all_equal_domains ds = true -> equalize ds arrs = Ok (nth 0 ds [], arrs).
Proof. intros H. unfold equalize. rewrite H. reflexivity. Qed.
Lemma rejects_iff ds arrs lo hi st : all_equal_domains ds = false -> bounds_and_diff ds = (lo, hi, st) ->
  (equalize ds arrs = Err ValueError <-> (hi <= lo \/ hi - lo < st)).
Proof.
  intros H HB. unfold equalize. rewrite H, HB.
  destruct (Qle_bool hi lo || negb (Qle_bool st (hi - lo))) eqn:E.
  - split; [intros _|reflexivity].
    apply orb_true_iff in E. destruct E as [E|E].
    + left. apply Qle_bool_iff. exact E.
    + right. apply negb_true_iff in E. apply Qnot_le_lt. intros C.
      apply Qle_bool_iff in C. congruence.
  - split; [discriminate|]. intros HC. exfalso.
    apply orb_false_iff in E. destruct E as [E1 E2].
    apply negb_false_iff in E2. apply Qle_bool_iff in E2.
    destruct HC as [HC|HC].
    + apply Qle_bool_iff in HC. congruence.
    + lra.
Qed.
Lemma equalize_grid ds arrs lo hi st nd out : all_equal_domains ds = false -> bounds_and_diff ds = (lo, hi, st) ->
  equalize ds arrs = Ok (nd, out) -> nd = arange_with_interval lo hi st /\ length out = Nat.min (length ds) (length arrs).
Proof.
  intros H HB. unfold equalize. rewrite H, HB.
  destruct (Qle_bool hi lo || negb (Qle_bool st (hi - lo))); [discriminate|].
  intros HE. inversion HE; subst. split; [reflexivity|].
  rewrite map_length, combine_length. reflexivity.
Qed.
