(* Proofs/MetricsP.v — mean width and gamut metric laws (C18), over Q, for any explicit direction set.
   No axioms. *)
From Coq Require Import QArith Qabs Qminmax List Bool Arith Lia Lqa Setoid Morphisms.
From DV Require Import Base.QVec Run.Verdict Model.Bary Model.Range Model.Sampling Model.Scaling Model.Metrics Proofs.BaryP.
From DV Require Import Proofs.ScalingP.
Import ListNotations.
Open Scope Q_scope.

(* ---------- helpers: maxima ---------- *)
Lemma vmaxl_ge_acc v : forall acc, acc <= vmaxl v acc.
Proof.
  induction v as [|a v IH]; intros acc; simpl; [lra|].
  apply Qle_trans with (Qmax acc a); [apply Q.le_max_l | apply IH].
Qed.

Lemma vmaxl_ge_in v a : In a v -> forall acc, a <= vmaxl v acc.
Proof.
  induction v as [|b v IH]; intros Hin acc; simpl in *; [contradiction|].
  destruct Hin as [E|Hin].
  - subst b. apply Qle_trans with (Qmax acc a); [apply Q.le_max_r | apply vmaxl_ge_acc].
  - apply IH; assumption.
Qed.

Lemma vmax_ge a v : In a v -> a <= vmax v.
Proof.
  destruct v as [|b v]; simpl; [contradiction|]. intros [E|Hin].
  - subst b. apply vmaxl_ge_acc.
  - apply vmaxl_ge_in; assumption.
Qed.

Lemma vmaxl_app v w : forall acc, vmaxl (v ++ w) acc = vmaxl w (vmaxl v acc).
Proof. induction v as [|a v IH]; intros acc; simpl; [reflexivity|]. apply IH. Qed.

Lemma vmax_app_le v w : v <> [] -> vmax v <= vmax (v ++ w).
Proof.
  destruct v as [|a v]; intros Hne; [congruence|]. simpl.
  rewrite vmaxl_app. apply vmaxl_ge_acc.
Qed.

Lemma Qmax_shift a b c : Qmax (a + c) (b + c) == Qmax a b + c.
Proof.
  destruct (Qlt_le_dec a b) as [Hab|Hab].
  - assert (H1 : a <= b) by lra. assert (H2 : a + c <= b + c) by lra.
    rewrite (Q.max_r _ _ H1), (Q.max_r _ _ H2). reflexivity.
  - assert (H2 : b + c <= a + c) by lra.
    rewrite (Q.max_l _ _ Hab), (Q.max_l _ _ H2). reflexivity.
Qed.

Lemma vmaxl_shift c v : forall acc, vmaxl (map (fun a => a + c) v) (acc + c) == vmaxl v acc + c.
Proof.
  induction v as [|a v IH]; intros acc; cbn [map vmaxl]; [reflexivity|].
  rewrite <- IH. apply vmaxl_compat; [reflexivity|]. apply Qmax_shift.
Qed.

Lemma vmax_shift c v : v <> [] -> vmax (map (fun a => a + c) v) == vmax v + c.
Proof.
  destruct v as [|a v]; intros Hne; [congruence|]. cbn [map vmax]. apply vmaxl_shift.
Qed.

(* ---------- helpers: pointwise maps ---------- *)
Lemma map_veq_ext (f g : Q -> Q) v : (forall a, f a == g a) -> veq (map f v) (map g v).
Proof. intros H. induction v as [|a v IH]; simpl; constructor; auto. Qed.

Lemma map_Qopp_veq u v : veq u v -> veq (map Qopp u) (map Qopp v).
Proof. intros H. induction H as [|a b u v Hab Huv IH]; simpl; constructor; auto. rewrite Hab. reflexivity. Qed.

Lemma opp_shift c v : veq (map Qopp (map (fun a => a + c) v)) (map (fun a => a + - c) (map Qopp v)).
Proof. rewrite !map_map. apply map_veq_ext. intros a. ring. Qed.

Lemma opp_scale s v : veq (map Qopp (map (Qmult s) v)) (map (Qmult s) (map Qopp v)).
Proof. rewrite !map_map. apply map_veq_ext. intros a. ring. Qed.

Lemma map_neq_nil {A B} (f : A -> B) (l : list A) : l <> [] -> map f l <> [].
Proof. destruct l; simpl; congruence. Qed.

(* the width functional of a list of projections, shifted by a constant *)
Lemma width_shift_gen v v' c : v <> [] -> veq v' (map (fun a => a + c) v) ->
  vmax v' + vmax (map Qopp v') == vmax v + vmax (map Qopp v).
Proof.
  intros Hne Hv.
  rewrite (vmax_Proper _ _ Hv).
  rewrite (vmax_Proper _ _ (map_Qopp_veq _ _ Hv)).
  rewrite (vmax_Proper _ _ (opp_shift c v)).
  rewrite vmax_shift by assumption.
  rewrite vmax_shift by (apply map_neq_nil; assumption).
  ring.
Qed.

Lemma proj_neq_nil X u : X <> [] -> proj X u <> [].
Proof. unfold proj. apply map_neq_nil. Qed.

(* ---- width in one direction (X non-empty) ---- *)
Theorem width_nonneg X u : X <> [] -> 0 <= width_dir X u.
Proof.
  intros Hne. unfold width_dir.
  destruct (proj X u) as [|a p] eqn:E.
  - exfalso. apply (proj_neq_nil X u Hne). exact E.
  - pose proof (vmax_ge a (a :: p) (or_introl eq_refl)) as H1.
    pose proof (vmax_ge (- a) (map Qopp (a :: p)) (or_introl eq_refl)) as H2.
    lra.
Qed.

Lemma proj_translate X u t : Forall (fun x => length x = length t) X -> length u = length t ->
  veq (proj (map (fun x => vadd x t) X) u) (map (fun a => a + dot t u) (proj X u)).
Proof.
  intros HX Hu. unfold proj. induction HX as [|x X Hx HX IH]; simpl; constructor; auto.
  apply dot_vadd_l. assumption.
Qed.

Lemma proj_vsub X u c : Forall (fun x => length x = length c) X ->
  veq (proj (map (fun x => vsub x c) X) u) (map (fun a => a + - dot c u) (proj X u)).
Proof.
  intros HX. unfold proj. induction HX as [|x X Hx HX IH]; simpl; constructor; auto.
  rewrite dot_vsub_l by assumption. ring.
Qed.

(* translation invariance *)
Theorem width_translate X u t : X <> [] -> Forall (fun x => length x = length t) X -> length u = length t ->
  width_dir (map (fun x => vadd x t) X) u == width_dir X u.
Proof.
  intros Hne HX Hu. unfold width_dir.
  apply (width_shift_gen (proj X u) _ (dot t u)).
  - apply proj_neq_nil; assumption.
  - apply proj_translate; assumption.
Qed.

Lemma width_vsub X u c : X <> [] -> Forall (fun x => length x = length c) X ->
  width_dir (map (fun x => vsub x c) X) u == width_dir X u.
Proof.
  intros Hne HX. unfold width_dir.
  apply (width_shift_gen (proj X u) _ (- dot c u)).
  - apply proj_neq_nil; assumption.
  - apply proj_vsub; assumption.
Qed.

Lemma proj_scale X u s : veq (proj (map (vscale s) X) u) (vscale s (proj X u)).
Proof.
  unfold proj, vscale. induction X as [|x X IH]; simpl; constructor; auto.
  apply (dot_vscale_l s x u).
Qed.

(* positive homogeneity *)
Theorem width_scale X u s : 0 <= s -> X <> [] -> width_dir (map (vscale s) X) u == s * width_dir X u.
Proof.
  intros Hs Hne. unfold width_dir.
  pose proof (proj_scale X u s) as Hp.
  rewrite (vmax_Proper _ _ Hp).
  rewrite (vmax_Proper _ _ (map_Qopp_veq _ _ Hp)).
  unfold vscale at 2.
  rewrite (vmax_Proper _ _ (opp_scale s (proj X u))).
  fold (vscale s (map Qopp (proj X u))).
  rewrite !vmax_vscale0 by assumption. ring.
Qed.

(* adding points never decreases the width *)
Theorem width_monotone X Y u : X <> [] -> width_dir X u <= width_dir (X ++ Y) u.
Proof.
  intros Hne. unfold width_dir, proj. rewrite !map_app.
  pose proof (vmax_app_le (map (fun x => dot x u) X) (map (fun x => dot x u) Y) (map_neq_nil _ _ Hne)) as H1.
  pose proof (vmax_app_le (map Qopp (map (fun x => dot x u) X)) (map Qopp (map (fun x => dot x u) Y))
                (map_neq_nil _ _ (map_neq_nil _ _ Hne))) as H2.
  lra.
Qed.

(* ---------- helpers: sums and means ---------- *)
Lemma sumQ_map_eq {A} (f g : A -> Q) (U : list A) : (forall u, In u U -> f u == g u) ->
  sumQ (map f U) == sumQ (map g U).
Proof.
  induction U as [|u U IH]; intros H; simpl; [reflexivity|].
  rewrite (H u (or_introl eq_refl)), IH; [reflexivity|]. intros w Hw. apply H. right. exact Hw.
Qed.

Lemma sumQ_map_le {A} (f g : A -> Q) (U : list A) : (forall u, In u U -> f u <= g u) ->
  sumQ (map f U) <= sumQ (map g U).
Proof.
  induction U as [|u U IH]; intros H; simpl; [lra|].
  pose proof (H u (or_introl eq_refl)) as H1.
  assert (H2 : sumQ (map f U) <= sumQ (map g U)) by (apply IH; intros w Hw; apply H; right; exact Hw).
  lra.
Qed.

Lemma sumQ_map_scale {A} (f : A -> Q) s (U : list A) : sumQ (map (fun u => s * f u) U) == s * sumQ (map f U).
Proof. induction U as [|u U IH]; simpl; [ring|]. rewrite IH. ring. Qed.

Lemma sumQ_map_nonneg {A} (f : A -> Q) (U : list A) : (forall u, In u U -> 0 <= f u) -> 0 <= sumQ (map f U).
Proof.
  induction U as [|u U IH]; intros H; simpl; [lra|].
  pose proof (H u (or_introl eq_refl)) as H1.
  assert (H2 : 0 <= sumQ (map f U)) by (apply IH; intros w Hw; apply H; right; exact Hw).
  lra.
Qed.

Lemma qnat_nonneg k : 0 <= inject_Z (Z.of_nat k).
Proof. unfold Qle. simpl. lia. Qed.

Lemma qnat_inv_nonneg k : 0 <= / inject_Z (Z.of_nat k).
Proof. apply Qinv_le_0_compat. apply qnat_nonneg. Qed.

Lemma mean_eq {A} (f g : A -> Q) (U : list A) : (forall u, In u U -> f u == g u) ->
  sumQ (map f U) / inject_Z (Z.of_nat (length U)) == sumQ (map g U) / inject_Z (Z.of_nat (length U)).
Proof. intros H. rewrite (sumQ_map_eq f g U H). reflexivity. Qed.

Lemma mean_le {A} (f g : A -> Q) (U : list A) : (forall u, In u U -> f u <= g u) ->
  sumQ (map f U) / inject_Z (Z.of_nat (length U)) <= sumQ (map g U) / inject_Z (Z.of_nat (length U)).
Proof.
  intros H. unfold Qdiv. apply Qmult_le_compat_r; [apply sumQ_map_le; exact H | apply qnat_inv_nonneg].
Qed.

(* ---- the mean over a fixed direction set U inherits all four ---- *)
Theorem mean_width_nonneg X U : X <> [] -> U <> [] -> 0 <= mean_width_U X U.
Proof.
  intros HX HU. unfold mean_width_U, Qdiv. apply Qmult_le_0_compat; [|apply qnat_inv_nonneg].
  apply sumQ_map_nonneg. intros u _. apply width_nonneg; assumption.
Qed.

Theorem mean_width_translate X U t : X <> [] -> U <> [] -> Forall (fun x => length x = length t) X ->
  Forall (fun u => length u = length t) U ->
  mean_width_U (map (fun x => vadd x t) X) U == mean_width_U X U.
Proof.
  intros HX HU HL HLU. unfold mean_width_U. apply mean_eq. intros u Hu.
  apply width_translate; auto. rewrite Forall_forall in HLU. apply HLU; exact Hu.
Qed.

Theorem mean_width_scale X U s : 0 <= s -> X <> [] -> U <> [] -> mean_width_U (map (vscale s) X) U == s * mean_width_U X U.
Proof.
  intros Hs HX HU. unfold mean_width_U.
  rewrite (sumQ_map_eq (width_dir (map (vscale s) X)) (fun u => s * width_dir X u) U).
  - rewrite sumQ_map_scale. unfold Qdiv. ring.
  - intros u _. apply width_scale; assumption.
Qed.

Theorem mean_width_monotone X Y U : X <> [] -> U <> [] -> mean_width_U X U <= mean_width_U (X ++ Y) U.
Proof.
  intros HX HU. unfold mean_width_U. apply mean_le. intros u _. apply width_monotone; assumption.
Qed.

Lemma len_col_mean X m : length (col_mean X m) = m.
Proof. unfold col_mean. rewrite map_length, seq_length. reflexivity. Qed.

(* centring (what compute_mean_width does when center=False) does not change the mean width *)
Theorem centring_is_harmless X m U : X <> [] -> U <> [] -> Forall (fun x => length x = m) X -> Forall (fun u => length u = m) U ->
  mean_width (X) m false U == mean_width X m true U.
Proof.
  intros HX HU HL HLU. unfold mean_width, centre, mean_width_U. apply mean_eq. intros u _.
  apply width_vsub; [assumption|].
  rewrite len_col_mean. exact HL.
Qed.

(* ---------- helpers: everything respects veq / meq ---------- *)
Lemma tmatvec_veq A n : forall x y, veq x y -> veq (tmatvec A x n) (tmatvec A y n).
Proof.
  induction A as [|r A IH]; intros x y H.
  - destruct H; simpl; reflexivity.
  - destruct H as [|a b x y Hab Hxy]; cbn [tmatvec]; [reflexivity|].
    apply vadd_Proper; [apply vscale_Proper; [exact Hab | reflexivity] | apply IH; exact Hxy].
Qed.

Lemma b2c_veq A n ctn x y : veq x y -> veq (b2c A n ctn x) (b2c A n ctn y).
Proof.
  intros H. unfold b2c, rowmat. pose proof (tmatvec_veq A (n - 1) x y H) as E.
  destruct ctn; [|exact E]. apply vsub_Proper; [exact E | reflexivity].
Qed.

Lemma proj_meq X X' u : meq X X' -> veq (proj X u) (proj X' u).
Proof.
  intros H. unfold proj. induction H as [|x x' X X' Hx HX IH]; simpl; constructor; auto.
  rewrite Hx. reflexivity.
Qed.

Lemma width_dir_meq X X' u : meq X X' -> width_dir X u == width_dir X' u.
Proof.
  intros H. unfold width_dir. pose proof (proj_meq X X' u H) as Hp.
  rewrite (vmax_Proper _ _ Hp), (vmax_Proper _ _ (map_Qopp_veq _ _ Hp)). reflexivity.
Qed.

Lemma mean_width_U_meq X X' U : meq X X' -> mean_width_U X U == mean_width_U X' U.
Proof. intros H. unfold mean_width_U. apply mean_eq. intros u _. apply width_dir_meq; exact H. Qed.

Lemma meq_length (X X' : mat) : meq X X' -> length X = length X'.
Proof. intros H. induction H; simpl; auto. Qed.

Lemma col_sum_meq X X' j : meq X X' -> sumQ (map (fun x => nthQ x j) X) == sumQ (map (fun x => nthQ x j) X').
Proof.
  intros H. induction H as [|x x' X X' Hx HX IH]; simpl; [reflexivity|].
  rewrite (Forall2_nth_Q _ _ j Hx), IH. reflexivity.
Qed.

Lemma map_veq_ext_nat (f g : nat -> Q) (l : list nat) : (forall j, f j == g j) -> veq (map f l) (map g l).
Proof. intros H. induction l as [|a l IH]; simpl; constructor; auto. Qed.

Lemma col_mean_meq X X' m : meq X X' -> veq (col_mean X m) (col_mean X' m).
Proof.
  intros H. unfold col_mean. apply map_veq_ext_nat. intros j.
  rewrite (col_sum_meq X X' j H), (meq_length X X' H). reflexivity.
Qed.

Lemma centre_meq X X' m : meq X X' -> meq (centre X m) (centre X' m).
Proof.
  intros H. unfold centre. pose proof (col_mean_meq X X' m H) as Hc.
  revert Hc. generalize (col_mean X m) (col_mean X' m). intros c c' Hc.
  induction H as [|x x' X X' Hx HX IH]; simpl; constructor; auto.
  apply vsub_Proper; assumption.
Qed.

Lemma mean_width_meq X X' m cf U : meq X X' -> mean_width X m cf U == mean_width X' m cf U.
Proof.
  intros H. unfold mean_width. destruct cf; apply mean_width_U_meq; [exact H | apply centre_meq; exact H].
Qed.

Lemma l1_nonneg_sum x : Forall (fun a => 0 <= a) x -> l1 x == sumQ x.
Proof.
  intros H. unfold l1. induction H as [|a x Ha Hx IH]; simpl; [reflexivity|].
  rewrite IH, (Qabs_pos a Ha). reflexivity.
Qed.

Lemma Qeq_bool_eq_of_iff a b : (a == 0 <-> b == 0) -> Qeq_bool a 0 = Qeq_bool b 0.
Proof.
  intros H. destruct (Qeq_bool a 0) eqn:Ea, (Qeq_bool b 0) eqn:Eb; try reflexivity.
  - apply Qeq_bool_iff in Ea. apply H in Ea. apply Qeq_bool_iff in Ea. congruence.
  - apply Qeq_bool_iff in Eb. apply H in Eb. apply Qeq_bool_iff in Eb. congruence.
Qed.

Lemma reduce_cloud_scale A n ctn X t : 0 < t -> Forall (fun x => Forall (fun a => 0 <= a) x) X ->
  meq (reduce_cloud A n ctn (map (vscale t) X)) (reduce_cloud A n ctn X).
Proof.
  intros Ht HX. unfold reduce_cloud. induction HX as [|x X Hx HX IH]; cbn [map filter]; [constructor|].
  assert (Eb : Qeq_bool (sumQ (vscale t x)) 0 = Qeq_bool (sumQ x) 0).
  { apply Qeq_bool_eq_of_iff. rewrite sumQ_vscale. split; intros H0.
    - apply Qmult_integral in H0. destruct H0 as [H0|H0]; [lra | exact H0].
    - rewrite H0. ring. }
  rewrite Eb. destruct (Qeq_bool (sumQ x) 0) eqn:Ex; cbn [negb map]; [exact IH|].
  constructor; [|exact IH].
  apply b2c_veq. apply normalize1_scale_invariant; [exact Ht|].
  rewrite (l1_nonneg_sum x Hx). intros H0. apply Qeq_bool_iff in H0. congruence.
Qed.

Lemma reduce_cloud_app A n ctn X Y :
  reduce_cloud A n ctn (X ++ Y) = reduce_cloud A n ctn X ++ reduce_cloud A n ctn Y.
Proof. unfold reduce_cloud. rewrite filter_app, map_app. reflexivity. Qed.

(* ---- gamut metric ---- *)
(* invariant to the intensity scale of its input: rows are L1-normalised first *)
Theorem gamut_scale_invariant A n ctn cf U X t : 0 < t -> Forall (fun x => Forall (fun a => 0 <= a) x) X ->
  gamut_width A n ctn cf U (map (vscale t) X) == gamut_width A n ctn cf U X.
Proof.
  intros Ht HX. unfold gamut_width. apply mean_width_meq. apply reduce_cloud_scale; assumption.
Qed.

(* equals 1 relative to itself (non-degenerate cloud) *)
Theorem gamut_self_is_one A n ctn cf U X : ~ gamut_width A n ctn cf U X == 0 ->
  gamut_width A n ctn cf U X / gamut_width A n ctn cf U X == 1.
Proof. intros H. field. exact H. Qed.

(* never exceeds 1 relative to a superset (same direction set; centring off so that the two clouds are compared in the same frame) *)
Theorem gamut_le_superset A n ctn U X Y : reduce_cloud A n ctn X <> [] -> U <> [] ->
  0 < gamut_width A n ctn true U (X ++ Y) ->
  gamut_width A n ctn true U X / gamut_width A n ctn true U (X ++ Y) <= 1.
Proof.
  intros HX HU Hpos. apply Qle_shift_div_r; [exact Hpos|]. rewrite Qmult_1_l.
  unfold gamut_width, mean_width. rewrite reduce_cloud_app.
  apply mean_width_monotone; assumption.
Qed.
