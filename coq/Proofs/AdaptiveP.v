(* Proofs/AdaptiveP.v — the adaptive fit (C10): what its linear constraints mean.  No axioms. *)
From Coq Require Import QArith Qabs Qminmax List Bool Arith Lia Lqa Setoid Morphisms.
From DV Require Import Base.QVec Run.Verdict Model.Linear Cert.Duality Cert.Qp Model.Adaptive.
Import ListNotations.
Open Scope Q_scope.

(* ---- helpers ---- *)
Lemma vadd_vsub_cancel (v b : vec) : length v = length b -> veq b (vadd v (vsub b v)).
Proof.
  revert b; induction v as [|a v IH]; intros [|c b] H; simpl in *; try discriminate.
  - constructor.
  - constructor; [ring | apply IH; lia].
Qed.

Lemma len_neutral_point neutral b : length (neutral_point neutral b) = length neutral.
Proof. unfold neutral_point, nhat. rewrite !len_vscale. reflexivity. Qed.

Lemma nthQ_vsub (u v : vec) j : length u = length v -> nthQ (vsub u v) j == nthQ u j - nthQ v j.
Proof.
  unfold nthQ. revert v j; induction u as [|a u IH]; intros [|c v] [|j] H; simpl in *; try discriminate; try ring.
  apply IH. lia.
Qed.

Lemma veq_of_nth (u v : vec) : length u = length v ->
  (forall j, (j < length u)%nat -> nthQ u j == nthQ v j) -> veq u v.
Proof.
  unfold nthQ. revert v; induction u as [|a u IH]; intros [|c v] HL H; simpl in *; try discriminate.
  - constructor.
  - constructor.
    + apply (H 0%nat). lia.
    + apply IH; [lia|]. intros j Hj. apply (H (S j)). lia.
Qed.

Lemma dot_app (u u' w w' : vec) : length u = length w ->
  dot (u ++ u') (w ++ w') == dot u w + dot u' w'.
Proof.
  revert w; induction u as [|a u IH]; intros [|c w] H; simpl in *; try discriminate; try ring.
  rewrite IH by lia. ring.
Qed.

Lemma length_concat_rect n (X : mat) : Forall (fun x : vec => length x = n) X ->
  length (concat X) = (length X * n)%nat.
Proof.
  induction 1 as [|x X Hx HX IH]; simpl; [reflexivity|].
  rewrite app_length, IH, Hx. reflexivity.
Qed.

Lemma vzero_app a b : vzero (a + b) = vzero a ++ vzero b.
Proof. unfold vzero. apply repeat_app. Qed.

Lemma zrow_gen n (v tr tz : vec) (X : mat) : length v = n ->
  Forall (fun x : vec => length x = n) X -> forall i, (i < length X)%nat ->
  dot (vzero (i * n) ++ v ++ vzero ((length X - 1 - i) * n) ++ tr) (concat X ++ tz)
  == dot v (nthV X i) + dot tr tz.
Proof.
  intros Hv HX. unfold nthV. induction HX as [|x X Hx HX IH]; intros i Hi; simpl in Hi; [lia|].
  destruct i as [|i].
  - simpl. rewrite <- app_assoc. rewrite dot_app by (unfold vec in *; lia).
    replace (length X - 0 - 0)%nat with (length X) by lia.
    rewrite dot_app by (rewrite len_vzero, (length_concat_rect n X HX); reflexivity).
    rewrite dot_vzero_l. ring.
  - replace (S i * n)%nat with (n + i * n)%nat by (simpl; lia).
    rewrite vzero_app. simpl concat. rewrite <- !app_assoc.
    rewrite dot_app by (rewrite len_vzero; unfold vec in *; lia).
    rewrite dot_vzero_l.
    replace (length (x :: X) - 1 - S i)%nat with (length X - 1 - i)%nat by (simpl; lia).
    rewrite (IH i) by lia. simpl. ring.
Qed.

Lemma Qabs_le_zero t : Qabs t <= 0 -> t == 0.
Proof. intros H. apply Qabs_Qle_condition in H. lra. Qed.
Lemma Qabs_zero_le t : t == 0 -> Qabs t <= 0.
Proof. intros E. rewrite E. unfold Qle; simpl; lia. Qed.

(* ---- decomposition of a target into total (sum) and offset from the neutral direction ---- *)
Theorem target_decomposition neutral b : length neutral = length b ->
  veq b (vadd (neutral_point neutral b) (brad neutral b)).
Proof.
  intros H. unfold brad. apply vadd_vsub_cancel. rewrite len_neutral_point. exact H.
Qed.

Lemma np_total neutral b : ~ sumQ neutral == 0 -> sumQ (neutral_point neutral b) == sumQ b.
Proof.
  intros H. unfold neutral_point, nhat. rewrite !sumQ_vscale. field. exact H.
Qed.

Theorem radial_part_has_zero_total neutral b : length neutral = length b -> ~ sumQ neutral == 0 ->
  sumQ (brad neutral b) == 0.
Proof.
  intros HL H. unfold brad.
  rewrite sumQ_vsub by (rewrite len_neutral_point; symmetry; exact HL).
  rewrite (np_total neutral b H). ring.
Qed.

Theorem neutral_point_has_target_total neutral b : ~ sumQ neutral == 0 -> sumQ (neutral_point neutral b) == sumQ b.
Proof. exact (np_total neutral b). Qed.

(* ---- a row of the stacked problem acts on block i and on the two scales ---- *)
(* X : list of S intensity vectors of length n *)
Theorem zrow_action S n i v c0 c1 (X : mat) s0 s1 : length X = S -> Forall (fun x => length x = n) X -> (i < S)%nat -> length v = n ->
  dot (zrow S n i v c0 c1) (concat X ++ [s0; s1]) == dot v (nthV X i) + c0 * s0 + c1 * s1.
Proof.
  intros HS HX Hi Hv. subst S. unfold zrow.
  rewrite (zrow_gen n v [c0; c1] [s0; s1] X Hv HX i Hi). simpl. ring.
Qed.

(* column sums of A' give the total predicted light-induced capture *)
Theorem colsum_action A' n x : rect n A' -> length x = n -> dot (colsumA A' n) x == sumQ (matvec A' x).
Proof.
  intros HR _. unfold colsumA.
  rewrite <- (transpose_id A' (repeat 1 (length A')) x n HR) by apply repeat_length.
  pose proof (dot_ones_sum (matvec A' x)) as H. rewrite len_matvec in H. exact H.
Qed.

(* ---- the two constraint groups say exactly what the property says ---- *)
(* intensity constraint of sample i:  | sum Bpred_i - s0 * sum b_i | <= d1 *)
Definition total_ok (A' : mat) (base' x b : vec) (s0 d1 : Q) : Prop :=
  Qabs (sumQ (predict A' base' x) - s0 * sumQ b) <= d1.
(* chroma constraint:  | s1 * brad_j - (Bpred_j - s0 * np_j) | <= dr  for every receptor j *)
Definition radial_ok (A' : mat) (base' x neutral b : vec) (s0 s1 dr : Q) : Prop :=
  forall j, (j < length A')%nat ->
    Qabs (s1 * nthQ (brad neutral b) j - (nthQ (predict A' base' x) j - s0 * nthQ (neutral_point neutral b) j)) <= dr.

Lemma len_predict A' base' x : length base' = length A' -> length (predict A' base' x) = length A'.
Proof. intros H. unfold predict. rewrite len_vadd; rewrite len_matvec; auto. Qed.

(* with zero deltas and scales (1,1) the constraints force the prediction to equal the target *)
Theorem unity_means_exact_reproduction A' base' x neutral b :
  length base' = length A' -> length b = length A' -> length neutral = length A' -> ~ sumQ neutral == 0 ->
  (total_ok A' base' x b 1 0 /\ radial_ok A' base' x neutral b 1 1 0) <-> veq (predict A' base' x) b.
Proof.
  intros Hbase Hb Hn Hs.
  assert (HLnp : length b = length (neutral_point neutral b))
    by (rewrite len_neutral_point; unfold vec in *; lia).
  split.
  - intros [Ht Hr]. apply veq_of_nth.
    + rewrite len_predict by exact Hbase. symmetry; exact Hb.
    + intros j Hj. rewrite len_predict in Hj by exact Hbase.
      pose proof (Qabs_le_zero _ (Hr j Hj)) as E.
      unfold brad in E. rewrite (nthQ_vsub _ _ j HLnp) in E. lra.
  - intros Hv. split.
    + unfold total_ok. apply Qabs_zero_le. rewrite Hv. ring.
    + intros j Hj. apply Qabs_zero_le.
      rewrite (Forall2_nth_Q _ _ j Hv). unfold brad. rewrite (nthQ_vsub _ _ j HLnp). ring.
Qed.
