(* Proofs/VertexDefs.v — vocabulary for the completeness proof of the basic-solution enumeration (C06). *)
From Coq Require Import QArith List Bool Arith.
From DV Require Import Base.QVec Run.Verdict Model.Linear Cert.Hull Model.Gauss Model.Range.
Import ListNotations.
Open Scope Q_scope.

Definition zerov (d : vec) : Prop := Forall (fun a => a == 0) d.
(* M d == 0, row by row *)
Definition kerv (M : mat) (d : vec) : Prop := Forall (fun r => dot r d == 0) M.
(* index sets are boolean predicates, materialised below n in increasing order *)
Definition idxs (p : nat -> bool) (n : nat) : list nat := filter p (seq 0 n).
(* d vanishes outside p *)
Definition supp (p : nat -> bool) (d : vec) : Prop := forall i, p i = false -> nthQ d i == 0.
(* the columns of A selected by p are linearly independent *)
Definition inj_on (A : mat) (n : nat) (p : nat -> bool) : Prop :=
  forall d, length d = n -> supp p d -> kerv A d -> zerov d.
(* coordinates of x strictly between their bounds *)
Definition freeb (x lb ub : vec) (i : nat) : bool :=
  negb (Qeq_bool (nthQ x i) (nthQ lb i) || Qeq_bool (nthQ x i) (nthQ ub i)).
(* A has m = length A linearly independent columns *)
Definition has_basis (A : mat) (n : nat) : Prop :=
  exists S : nat -> bool, inj_on A n S /\ length (idxs S n) = length A.
