From Coq Require Import QArith List Lia Lqa Setoid Morphisms.
From DV Require Import Base.QVec Run.Verdict Model.Capture Model.Linear Model.Estimator Proofs.CaptureP Proofs.LinearP.
Import ListNotations.
Open Scope Q_scope.

(* integrating the zero function gives zero *)
Lemma vmul_vzero_r f n : length f = n -> veq (vmul f (vzero n)) (vzero n).
Proof. revert n; induction f as [|a f IH]; intros [|n] H; simpl in *; try discriminate; constructor; [ring|]. apply IH; lia. Qed.
Lemma trapz_x_zero xs : forall n, trapz_x xs (vzero n) == 0.
Proof.
  induction xs as [|x0 xs IH]; intros n; [reflexivity|].
  destruct xs as [|x1 xs]; [rewrite trapz_x_single_l; reflexivity|].
  destruct n as [|[|n]]; try reflexivity.
  change (vzero (S (S n))) with (0 :: 0 :: vzero n). rewrite trapz_x_cons2.
  change (0 :: vzero n) with (vzero (S n)). rewrite IH. field.
Qed.
Lemma trapz_dx_zero dx : forall n, trapz_dx dx (vzero n) == 0.
Proof.
  induction n as [|n IH]; [reflexivity|]. destruct n as [|n]; [reflexivity|].
  change (vzero (S (S n))) with (0 :: 0 :: vzero n). rewrite trapz_dx_cons2.
  change (0 :: vzero n) with (vzero (S n)). rewrite IH. field.
Qed.
Lemma rect_sum_zero dx n : rect_sum dx (vzero n) == 0.
Proof. unfold rect_sum. induction n; simpl; [reflexivity|]. unfold vzero in IHn. rewrite IHn. ring. Qed.
Lemma integ_zero d tz n : integ d tz (vzero n) == 0.
Proof. destruct d; simpl; [destruct tz|]; [apply trapz_dx_zero | apply rect_sum_zero | apply trapz_x_zero]. Qed.

Global Instance cap11_Proper d tz : Proper (veq ==> veq ==> Qeq) (cap11 d tz).
Proof. intros f f' Hf s s' Hs. unfold cap11. rewrite Hf, Hs. reflexivity. Qed.

Lemma cap11_zero d tz f n : length f = n -> cap11 d tz f (vzero n) == 0.
Proof. intros H. unfold cap11. rewrite (vmul_vzero_r f n H). apply integ_zero. Qed.

Lemma vscale_1 v : veq (vscale 1 v) v.
Proof. induction v; simpl; constructor; auto. ring. Qed.

Lemma cap11_axpy d tz f a u v : length u = length v -> length f = length u ->
  cap11 d tz f (vadd (vscale a u) v) == a * cap11 d tz f u + cap11 d tz f v.
Proof.
  intros H1 H2. rewrite <- (vscale_1 v) at 1.
  change (vadd (vscale a u) (vscale 1 v)) with (lin a 1 u v).
  rewrite cap11_linear_signal by auto. ring.
Qed.

(* capture of the physically mixed spectrum = linear model *)
Lemma capture_mix d tz f nd : forall S x, rect nd S -> length f = nd ->
  cap11 d tz f (tmatvec S x nd) == dot (map (cap11 d tz f) S) x.
Proof.
  induction S as [|s S IH]; intros [|a x] HS Hf; simpl.
  - apply cap11_zero; auto. - apply cap11_zero; auto. - apply cap11_zero; auto.
  - inversion HS; subst. rewrite cap11_axpy.
    + rewrite IH by auto. ring.
    + rewrite len_tmatvec; auto.
    + auto.
Qed.

Theorem system_capture_is_mixture_lemma d F S x nd :
  rect nd S -> rect nd F ->
  veq (system_capture (sysA d F S) x) (capture_all d F (mixture nd S x)).
Proof.
  intros HS HF. unfold system_capture, sysA, capture_all, mixture.
  induction F as [|f F IH]; simpl; constructor.
  - symmetry. apply capture_mix; auto. inversion HF; auto.
  - apply IH. inversion HF; auto.
Qed.

(* relative capture is K (Q + baseline) for the three kinds of K — by definition of `rel`;
   the statement that matters is that the transformed-matrix route agrees with it *)
Theorem relative_is_K_Q_plus_b_lemma K A base x n :
  rect n A -> length base = length A -> Kshape_ok K (length A) ->
  veq (predict (transA K A n) (transB K base) x) (rel K base (system_capture A x)).
Proof. intros. apply apply_linear_transform_spec; auto. Qed.

(* after adapting to a background (replace, baseline included) its relative capture is 1 *)
Lemma inv_mul_ones v : Forall (fun a => ~ a == 0) v -> veq (vmul (map Qinv v) v) (repeat 1 (length v)).
Proof. induction 1 as [|a v Ha Hv IH]; simpl; constructor; auto. field. auto. Qed.

Theorem background_adapts_to_one_lemma Kold qb base :
  length qb = length base -> Forall (fun a => ~ a == 0) (vadd qb base) ->
  veq (rel (register_adapt Kold qb base true false) base qb) (repeat 1 (length qb)).
Proof.
  intros HL Hnz. unfold register_adapt, rel, adaptK. simpl.
  rewrite inv_mul_ones by auto. rewrite len_vadd by auto. reflexivity.
Qed.
(* baseline excluded: only when the baseline is zero *)
Theorem background_adapts_nobase_lemma Kold qb n :
  length qb = n -> Forall (fun a => ~ a == 0) qb ->
  veq (rel (register_adapt Kold qb (vzero n) false false) (vzero n) qb) (repeat 1 n).
Proof.
  intros HL Hnz. unfold register_adapt, rel, adaptK. simpl.
  assert (E : veq (vadd qb (vzero n)) qb).
  { subst n. clear. induction qb; simpl; constructor; auto. ring. }
  rewrite E. rewrite inv_mul_ones by auto. rewrite HL. reflexivity.
Qed.
(* "add" accumulates and does NOT give 1: witness *)
Lemma add_refuted_lemma :
  exists Kold qb base, length qb = length base /\ Forall (fun a => ~ a == 0) (vadd qb base) /\
    ~ veq (rel (register_adapt Kold qb base true true) base qb) (repeat 1 (length qb)).
Proof.
  exists (Kv [1]), [1], [1]. split; [reflexivity|]. split; [repeat constructor; discriminate|].
  vm_compute. intros H. inversion H; subst. discriminate.
Qed.
