From Coq Require Import QArith List Lqa Lia Setoid.
From DV Require Import Base.QVec Model.Units.
Import ListNotations.
Open Scope Q_scope.

Lemma hcN_pos : 0 < hcN. Proof. reflexivity. Qed.
Lemma nm_pos : 0 < nm. Proof. reflexivity. Qed.
Lemma pscale_pos p : 0 < pscale p. Proof. destruct p; reflexivity. Qed.

Lemma flux_irr_inverse1 I lam : ~ lam == 0 ->
  flux2irr1 PNone (irr2flux1 PNone I lam) lam == I.
Proof.
  intros Hl. unfold flux2irr1, irr2flux1, pscale.
  pose proof hcN_pos. pose proof nm_pos. field. split; [|split]; lra.
Qed.
Lemma irr_flux_inverse1 E lam : ~ lam == 0 ->
  irr2flux1 PNone (flux2irr1 PNone E lam) lam == E.
Proof.
  intros Hl. unfold flux2irr1, irr2flux1, pscale.
  pose proof hcN_pos. pose proof nm_pos. field. split; [|split]; lra.
Qed.
(* with prefixes: the prefix names the unit of the *result*; undoing it is a division *)
Lemma flux_irr_inverse_prefix p p' I lam : ~ lam == 0 ->
  flux2irr1 p' (irr2flux1 p I lam / pscale p) lam == I * pscale p'.
Proof.
  intros Hl. unfold flux2irr1, irr2flux1.
  pose proof hcN_pos. pose proof nm_pos. pose proof (pscale_pos p). field. repeat split; lra.
Qed.
Lemma irr2flux1_linear p a b I J lam :
  irr2flux1 p (a * I + b * J) lam == a * irr2flux1 p I lam + b * irr2flux1 p J lam.
Proof. unfold irr2flux1. pose proof hcN_pos. field. lra. Qed.
Lemma flux2irr1_linear p a b I J lam : ~ lam == 0 ->
  flux2irr1 p (a * I + b * J) lam == a * flux2irr1 p I lam + b * flux2irr1 p J lam.
Proof. intros. unfold flux2irr1. pose proof nm_pos. field. split; lra. Qed.
Lemma irr2flux1_prefix p I lam : irr2flux1 p I lam == pscale p * irr2flux1 PNone I lam.
Proof. unfold irr2flux1. change (pscale PNone) with 1. pose proof hcN_pos. field. lra. Qed.
Lemma flux2irr1_prefix p E lam : ~ lam == 0 -> flux2irr1 p E lam == pscale p * flux2irr1 PNone E lam.
Proof. intros. unfold flux2irr1. change (pscale PNone) with 1. pose proof nm_pos. field. split; lra. Qed.
Lemma irr2flux1_pos p I lam : 0 < I -> 0 < lam -> 0 < irr2flux1 p I lam.
Proof.
  intros HI Hl. unfold irr2flux1. pose proof hcN_pos. pose proof nm_pos. pose proof (pscale_pos p).
  apply Qmult_lt_0_compat; [|assumption]. apply Qlt_shift_div_l; [assumption|].
  assert (0 < lam * nm) by (apply Qmult_lt_0_compat; assumption).
  assert (0 < I * (lam * nm)) by (apply Qmult_lt_0_compat; assumption). lra.
Qed.
(* the physical law in the words of the property: I * lambda / (h c N_A), lambda in nm *)
Lemma irr2flux1_law p I lam :
  irr2flux1 p I lam == I * (lam * (1 # 1000000000)) / (h_planck * c_light * N_avo) * pscale p.
Proof. reflexivity. Qed.

(* element-wise action along the wavelength axis *)
Lemma zip_with_nth f u v i : (i < length u)%nat -> (i < length v)%nat ->
  nth i (zip_with f u v) 0 = f (nth i u 0) (nth i v 0).
Proof.
  revert v i; induction u as [|a u IH]; intros [|b v] [|i] Hu Hv; simpl in *; try lia; auto.
  apply IH; lia.
Qed.
Lemma zip_with_length f u v : length u = length v -> length (zip_with f u v) = length u.
Proof. revert v; induction u; intros [|b v] H; simpl in *; try discriminate; auto. Qed.

Lemma row_apply_elementwise f row lam i : length lam = length row -> (i < length row)%nat ->
  nth i (row_apply f row lam) 0 = f (nth i row 0) (nth i lam 0).
Proof.
  intros HL Hi. unfold row_apply. destruct lam as [|l [|l2 lam]].
  - simpl in HL. lia.
  - destruct row as [|a [|a2 row]]; simpl in *; try lia. destruct i; [reflexivity|lia].
  - apply zip_with_nth; lia.
Qed.
Lemma row_apply_scalar f row l i : (i < length row)%nat ->
  nth i (row_apply f row [l]) 0 = f (nth i row 0) l.
Proof.
  intros Hi. unfold row_apply. revert i Hi. induction row as [|a row IH]; intros [|i] Hi; simpl in *; try lia; auto.
  apply IH; lia.
Qed.
Lemma row_apply_length f row lam : length lam = length row \/ length lam = 1%nat ->
  length (row_apply f row lam) = length row.
Proof.
  intros [H|H]; unfold row_apply.
  - destruct lam as [|l [|l2 lam]]; [destruct row; simpl in *; auto; discriminate | apply map_length | apply zip_with_length; auto].
  - destruct lam as [|l [|l2 lam]]; simpl in H; try discriminate. apply map_length.
Qed.

(* inverse on whole arrays *)
Lemma zip_inverse row lam : length lam = length row -> Forall (fun l => ~ l == 0) lam ->
  veq (zip_with (flux2irr1 PNone) (zip_with (irr2flux1 PNone) row lam) lam) row.
Proof.
  revert lam; induction row as [|a row IH]; intros [|l lam] HL HF; simpl in *; try discriminate; constructor.
  - inversion HF; subst. apply flux_irr_inverse1; auto.
  - inversion HF; subst. apply IH; auto.
Qed.
Lemma zip_inverse' row lam : length lam = length row -> Forall (fun l => ~ l == 0) lam ->
  veq (zip_with (irr2flux1 PNone) (zip_with (flux2irr1 PNone) row lam) lam) row.
Proof.
  revert lam; induction row as [|a row IH]; intros [|l lam] HL HF; simpl in *; try discriminate; constructor.
  - inversion HF; subst. apply irr_flux_inverse1; auto.
  - inversion HF; subst. apply IH; auto.
Qed.
Lemma map_inverse row l : ~ l == 0 ->
  veq (map (fun a => flux2irr1 PNone a l) (map (fun a => irr2flux1 PNone a l) row)) row.
Proof. intros; induction row; simpl; constructor; auto. apply flux_irr_inverse1; auto. Qed.
Lemma map_inverse' row l : ~ l == 0 ->
  veq (map (fun a => irr2flux1 PNone a l) (map (fun a => flux2irr1 PNone a l) row)) row.
Proof. intros; induction row; simpl; constructor; auto. apply irr_flux_inverse1; auto. Qed.

Definition shape_ok (S : mat) (lam : vec) : Prop :=
  Forall (fun r => length lam = length r) S \/ length lam = 1%nat.

Lemma flux2irr_irr2flux S lam : shape_ok S lam -> Forall (fun l => ~ l == 0) lam ->
  meq (flux2irr PNone (irr2flux PNone S lam) lam) S.
Proof.
  intros Hs Hl. unfold flux2irr, irr2flux, meq. rewrite map_map.
  induction S as [|r S IH]; simpl; constructor.
  - unfold row_apply. destruct lam as [|l [|l2 lam]].
    + destruct Hs as [Hs|Hs]; [inversion Hs; subst; destruct r; [constructor|discriminate] | discriminate].
    + inversion Hl; subst. apply map_inverse; auto.
    + destruct Hs as [Hs|Hs]; [|discriminate]. inversion Hs; subst. apply zip_inverse; auto.
  - apply IH. destruct Hs as [Hs|Hs]; [left; inversion Hs; auto | right; auto].
Qed.
Lemma irr2flux_flux2irr S lam : shape_ok S lam -> Forall (fun l => ~ l == 0) lam ->
  meq (irr2flux PNone (flux2irr PNone S lam) lam) S.
Proof.
  intros Hs Hl. unfold flux2irr, irr2flux, meq. rewrite map_map.
  induction S as [|r S IH]; simpl; constructor.
  - unfold row_apply. destruct lam as [|l [|l2 lam]].
    + destruct Hs as [Hs|Hs]; [inversion Hs; subst; destruct r; [constructor|discriminate] | discriminate].
    + inversion Hl; subst. apply map_inverse'; auto.
    + destruct Hs as [Hs|Hs]; [|discriminate]. inversion Hs; subst. apply zip_inverse'; auto.
  - apply IH. destruct Hs as [Hs|Hs]; [left; inversion Hs; auto | right; auto].
Qed.
