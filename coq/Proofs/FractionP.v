(* Proofs/FractionP.v — C18: the estimator's fractional gamut in absolute capture is at most 1.
   The system's capture points are non-negative combinations (rows of S R) of the perfect system's points (rows of R);
   after L1-normalisation and the (linear) barycentric reduction they are CONVEX combinations, so in every direction the
   width of the system's cloud is at most the width of the perfect system's cloud. *)
From Coq Require Import QArith Qabs Qminmax List Bool Arith Lia Lqa Setoid Morphisms.
From DV Require Import Base.QVec Run.Verdict Model.Bary Model.Range Model.Sampling Model.Scaling Model.Metrics Proofs.BaryP Proofs.ScalingP Proofs.MetricsP Proofs.MetricsFast.
Import ListNotations.
Open Scope Q_scope.

(* convex combination of the rows of Y with weights w *)
Definition convex_of (Y : mat) (n : nat) (x : vec) : Prop :=
  exists w : vec, length w = length Y /\ Forall (fun a => 0 <= a) w /\ sumQ w == 1 /\ veq x (tmatvec Y w n).


(* ---------- helpers: maxima and weighted averages ---------- *)
Lemma vmaxl_le v M : Forall (fun a => a <= M) v -> forall acc, acc <= M -> vmaxl v acc <= M.
Proof.
  induction 1 as [|a v Ha Hv IH]; intros acc Hacc; cbn [vmaxl]; [exact Hacc|].
  apply IH. apply Q.max_lub; assumption.
Qed.

Lemma vmax_le v M : v <> [] -> Forall (fun a => a <= M) v -> vmax v <= M.
Proof.
  destruct v as [|a v]; intros Hne H; [congruence|].
  inversion H as [|? ? Ha Hv]; subst. cbn [vmax]. apply vmaxl_le; assumption.
Qed.

Lemma dot_le_wmax w : forall v M, length w = length v -> Forall (fun a => 0 <= a) w ->
  Forall (fun a => a <= M) v -> dot w v <= M * sumQ w.
Proof.
  induction w as [|a w IH]; intros [|b v] M HL Hw Hv; cbn [dot sumQ length] in *; try discriminate; [lra|].
  inversion Hw as [|? ? Ha Hw']; subst. inversion Hv as [|? ? Hb Hv']; subst.
  assert (HL' : length w = length v) by lia.
  pose proof (IH v M HL' Hw' Hv') as H. nra.
Qed.

Lemma dot_map_opp w : forall v, dot w (map Qopp v) == - dot w v.
Proof.
  induction w as [|a w IH]; intros [|b v]; cbn [dot map]; try ring.
  rewrite IH. ring.
Qed.

Lemma all_le_vmax p : Forall (fun a => a <= vmax p) p.
Proof. apply Forall_forall. intros a Ha. apply vmax_ge. exact Ha. Qed.

Lemma convex_proj_le Y n u x : rect n Y -> convex_of Y n x ->
  dot x u <= vmax (proj Y u) /\ - dot x u <= vmax (map Qopp (proj Y u)).
Proof.
  intros HY (w & HL & Hw & Hs & Hx).
  assert (E : dot x u == dot w (proj Y u)).
  { rewrite Hx. symmetry. apply (transpose_id Y w u n HY HL). }
  assert (HLp : length w = length (proj Y u)) by (unfold proj; rewrite map_length; exact HL).
  split.
  - rewrite E.
    pose proof (dot_le_wmax w (proj Y u) (vmax (proj Y u)) HLp Hw (all_le_vmax _)) as H.
    rewrite Hs in H. lra.
  - rewrite E, <- dot_map_opp.
    assert (HLq : length w = length (map Qopp (proj Y u))) by (rewrite map_length; exact HLp).
    pose proof (dot_le_wmax w (map Qopp (proj Y u)) (vmax (map Qopp (proj Y u))) HLq Hw (all_le_vmax _)) as H.
    rewrite Hs in H. lra.
Qed.

(* TO PROVE 1: width in a direction is monotone under taking convex combinations *)
Theorem width_dir_convex (X Y : mat) (n : nat) (u : vec) : X <> [] -> rect n Y -> length u = n ->
  Forall (convex_of Y n) X -> width_dir X u <= width_dir Y u.
Proof.
  intros HX HY Hu HC. unfold width_dir. rewrite Forall_forall in HC.
  assert (H1 : vmax (proj X u) <= vmax (proj Y u)).
  { apply vmax_le; [apply proj_neq_nil; exact HX|].
    apply Forall_forall. intros a Ha. unfold proj in Ha at 1. apply in_map_iff in Ha.
    destruct Ha as (x & Ex & Hx). subst a.
    apply (convex_proj_le Y n u x HY (HC x Hx)). }
  assert (H2 : vmax (map Qopp (proj X u)) <= vmax (map Qopp (proj Y u))).
  { apply vmax_le; [apply map_neq_nil; apply proj_neq_nil; exact HX|].
    apply Forall_forall. intros a Ha. apply in_map_iff in Ha.
    destruct Ha as (b & Eb & Hb). subst a. unfold proj in Hb at 1. apply in_map_iff in Hb.
    destruct Hb as (x & Ex & Hx). subst b.
    apply (convex_proj_le Y n u x HY (HC x Hx)). }
  lra.
Qed.

Theorem mean_width_convex (X Y : mat) (n : nat) (U : mat) : X <> [] -> U <> [] -> rect n Y -> Forall (fun u => length u = n) U ->
  Forall (convex_of Y n) X -> mean_width_U X U <= mean_width_U Y U.
Proof.
  intros HX HU HY HLU HC. unfold mean_width_U. apply mean_le. intros u Hu.
  rewrite Forall_forall in HLU.
  apply (width_dir_convex X Y n u HX HY (HLU u Hu) HC).
Qed.

(* ---------- helpers: linearity of tmatvec in the weight argument ---------- *)
Definition nonneg (v : vec) : Prop := Forall (fun a => 0 <= a) v.

Lemma vscale_vadd c : forall u v, veq (vscale c (vadd u v)) (vadd (vscale c u) (vscale c v)).
Proof.
  induction u as [|a u IH]; intros [|b v]; cbn [vadd vscale map]; try constructor.
  - ring.
  - apply IH.
Qed.

Lemma vscale_vzero c n : veq (vscale c (vzero n)) (vzero n).
Proof. unfold vzero, vscale. induction n; cbn [repeat map]; constructor; auto. ring. Qed.

Lemma vscale_one v : veq (vscale 1 v) v.
Proof. unfold vscale. induction v; cbn [map]; constructor; auto. ring. Qed.

Lemma tmatvec_vscale A k c : forall x, veq (tmatvec A (vscale c x) k) (vscale c (tmatvec A x k)).
Proof.
  induction A as [|r A IH]; intros [|a x]; cbn [tmatvec vscale map]; try (symmetry; apply vscale_vzero).
  fold (vscale c x). fold (vscale c (vadd (vscale a r) (tmatvec A x k))).
  etransitivity; [|symmetry; apply vscale_vadd].
  apply vadd_Proper; [|apply IH].
  etransitivity; [|symmetry; apply vscale_vscale]. reflexivity.
Qed.

Lemma vadd_zero_l z : forall y, Forall (fun a => a == 0) z -> length z = length y -> veq (vadd z y) y.
Proof.
  induction z as [|a z IH]; intros [|b y] Hz HL; cbn [vadd length] in *; try discriminate; constructor.
  - inversion Hz as [|? ? Ha Hz']; subst. rewrite Ha. ring.
  - inversion Hz as [|? ? Ha Hz']; subst. apply IH; [exact Hz' | lia].
Qed.

Lemma vscale_zeros c z : Forall (fun a => a == 0) z -> Forall (fun a => a == 0) (vscale c z).
Proof.
  unfold vscale. induction 1 as [|a z Ha Hz IH]; cbn [map]; constructor; auto. rewrite Ha. ring.
Qed.

Lemma vzero_zeros n : Forall (fun a => a == 0) (vzero n).
Proof. unfold vzero. induction n; cbn [repeat]; constructor; auto. reflexivity. Qed.

Lemma tmatvec_vzero A k : rect k A -> forall n, veq (tmatvec A (vzero n) k) (vzero k).
Proof.
  induction 1 as [|r A Hr HA IH]; intros [|n]; cbn [tmatvec vzero repeat]; try reflexivity.
  fold (vzero n). fold (vzero k).
  etransitivity; [apply vadd_zero_l|apply IH].
  - unfold vscale. clear. induction r as [|a r IHr]; cbn [map]; constructor; auto. ring.
  - rewrite len_vscale, len_tmatvec by exact HA. exact Hr.
Qed.

Lemma tmatvec_tmatvec A k n : rect k A -> forall Y w, rect n Y ->
  veq (tmatvec A (tmatvec Y w n) k) (tmatvec (map (fun y => tmatvec A y k) Y) w k).
Proof.
  intros HA. induction Y as [|y Y IH]; intros [|l w] HY; cbn [tmatvec map]; try (apply tmatvec_vzero; exact HA).
  inversion HY as [|? ? Hy HY']; subst.
  etransitivity.
  { apply tmatvec_veq. apply vadd_Proper; [reflexivity|]. symmetry. apply vscale_one. }
  etransitivity.
  { apply tmatvec_lin. rewrite len_tmatvec by exact HY'. reflexivity. }
  apply vadd_Proper; [reflexivity|].
  etransitivity; [apply vscale_one|]. apply IH. exact HY'.
Qed.

(* ---------- helpers: non-negativity ---------- *)
Lemma nonneg_vzero n : nonneg (vzero n).
Proof. unfold nonneg, vzero. induction n; cbn [repeat]; constructor; auto. lra. Qed.

Lemma nonneg_vscale c v : 0 <= c -> nonneg v -> nonneg (vscale c v).
Proof.
  intros Hc. unfold nonneg, vscale. induction 1 as [|a v Ha Hv IH]; cbn [map]; constructor; auto.
  apply Qmult_le_0_compat; assumption.
Qed.

Lemma nonneg_vadd u : forall v, nonneg u -> nonneg v -> nonneg (vadd u v).
Proof.
  unfold nonneg. induction u as [|a u IH]; intros [|b v] Hu Hv; cbn [vadd]; try constructor.
  - inversion Hu as [|? ? Ha Hu']; inversion Hv as [|? ? Hb Hv']; subst. lra.
  - inversion Hu as [|? ? Ha Hu']; inversion Hv as [|? ? Hb Hv']; subst. apply IH; assumption.
Qed.

Lemma nonneg_tmatvec R n : Forall nonneg R -> forall s, nonneg s -> nonneg (tmatvec R s n).
Proof.
  induction 1 as [|r R Hr HR IH]; intros [|a s] Hs; cbn [tmatvec]; try apply nonneg_vzero.
  inversion Hs as [|? ? Ha Hs']; subst.
  apply nonneg_vadd; [apply nonneg_vscale; assumption | apply IH; exact Hs'].
Qed.

Lemma nonneg_sum0_zeros r : nonneg r -> sumQ r == 0 -> Forall (fun a => a == 0) r.
Proof.
  unfold nonneg. induction 1 as [|a r Ha Hr IH]; cbn [sumQ]; intros H0; constructor.
  - pose proof (sumQ_nonneg r Hr). lra.
  - apply IH. pose proof (sumQ_nonneg r Hr). lra.
Qed.

(* ---------- the (unnormalised) weights over the rows kept by the filter ---------- *)
Definition nz (x : vec) : bool := negb (Qeq_bool (sumQ x) 0).

Fixpoint cw (R : mat) (s : vec) : vec :=
  match R, s with
  | r :: R', a :: s' => if Qeq_bool (sumQ r) 0 then cw R' s' else (a * sumQ r) :: cw R' s'
  | _, _ => []
  end.

Lemma cw_length R : forall s, length s = length R -> length (cw R s) = length (filter nz R).
Proof.
  induction R as [|r R IH]; intros [|a s] HL; cbn [cw filter length] in *; try discriminate; try reflexivity.
  unfold nz at 1. destruct (Qeq_bool (sumQ r) 0); cbn [negb length]; rewrite IH by lia; reflexivity.
Qed.

Lemma cw_nonneg R : Forall nonneg R -> forall s, nonneg s -> nonneg (cw R s).
Proof.
  induction 1 as [|r R Hr HR IH]; intros [|a s] Hs; cbn [cw]; try constructor.
  inversion Hs as [|? ? Ha Hs']; subst.
  destruct (Qeq_bool (sumQ r) 0); [apply IH; exact Hs'|].
  constructor; [|apply IH; exact Hs'].
  apply Qmult_le_0_compat; [exact Ha | apply sumQ_nonneg; exact Hr].
Qed.

Lemma cw_sum R n : rect n R -> forall s, length s = length R -> sumQ (cw R s) == sumQ (tmatvec R s n).
Proof.
  induction 1 as [|r R Hr HR IH]; intros [|a s] HL; cbn [cw tmatvec length] in *; try discriminate.
  - rewrite sumQ_vzero. reflexivity.
  - rewrite sumQ_vadd by (rewrite len_vscale, len_tmatvec by exact HR; exact Hr).
    rewrite sumQ_vscale.
    destruct (Qeq_bool (sumQ r) 0) eqn:E.
    + apply Qeq_bool_iff in E. rewrite E, IH by lia. ring.
    + cbn [sumQ]. rewrite IH by lia. reflexivity.
Qed.

Lemma cw_vec R n : rect n R -> Forall nonneg R -> forall s, length s = length R ->
  veq (tmatvec R s n) (tmatvec (map normalize1 (filter nz R)) (cw R s) n).
Proof.
  induction 1 as [|r R Hr HR IH]; intros HN [|a s] HL; cbn [cw tmatvec filter map length] in *; try discriminate; try reflexivity.
  inversion HN as [|? ? Hrn HN']; subst.
  assert (HL' : length s = length R) by (unfold vec, mat in *; lia).
  unfold nz at 1. destruct (Qeq_bool (sumQ r) 0) eqn:E; cbn [negb map tmatvec].
  - apply Qeq_bool_iff in E.
    etransitivity; [|apply IH; assumption].
    apply vadd_zero_l.
    + apply vscale_zeros. apply nonneg_sum0_zeros; assumption.
    + rewrite len_vscale, len_tmatvec by exact HR. reflexivity.
  - apply vadd_Proper; [|apply IH; assumption].
    assert (El : l1 r == sumQ r) by (apply l1_nonneg_sum; exact Hrn).
    assert (Hnz : ~ sumQ r == 0) by (intros H0; apply Qeq_bool_iff in H0; congruence).
    unfold normalize1. destruct (Qeq_bool (l1 r) 0) eqn:E1.
    + apply Qeq_bool_iff in E1. rewrite El in E1. contradiction.
    + etransitivity; [|symmetry; apply vscale_vscale].
      apply vscale_Proper; [|reflexivity]. rewrite El. field. exact Hnz.
Qed.

(* one row of S *)
Lemma reduce_row_convex A n R s : rect (n - 1) A -> rect n R -> Forall nonneg R -> nonneg s ->
  length s = length R -> ~ sumQ (tmatvec R s n) == 0 ->
  convex_of (reduce_cloud A n false R) (n - 1) (b2c A n false (normalize1 (tmatvec R s n))).
Proof.
  intros HA HR HN Hs HL Hnz.
  set (x := tmatvec R s n) in *.
  assert (Hx : nonneg x) by (apply nonneg_tmatvec; assumption).
  assert (El : l1 x == sumQ x) by (apply l1_nonneg_sum; exact Hx).
  assert (Hpos : 0 < sumQ x) by (pose proof (sumQ_nonneg x Hx); lra).
  assert (ERC : reduce_cloud A n false R = map (fun y => tmatvec A y (n - 1)) (map normalize1 (filter nz R))).
  { unfold reduce_cloud. rewrite map_map. reflexivity. }
  exists (vscale (/ sumQ x) (cw R s)). repeat split.
  - rewrite len_vscale, ERC, !map_length. apply cw_length. exact HL.
  - apply nonneg_vscale; [apply Qlt_le_weak, Qinv_lt_0_compat; exact Hpos | apply cw_nonneg; assumption].
  - rewrite sumQ_vscale, (cw_sum R n HR s HL). fold x. field. exact Hnz.
  - unfold b2c, rowmat, normalize1. destruct (Qeq_bool (l1 x) 0) eqn:E1.
    { apply Qeq_bool_iff in E1. rewrite El in E1. contradiction. }
    etransitivity; [apply tmatvec_vscale|].
    etransitivity; [|symmetry; apply tmatvec_vscale].
    apply vscale_Proper; [rewrite El; reflexivity|].
    rewrite ERC.
    etransitivity; [apply tmatvec_veq; apply (cw_vec R n HR HN s HL)|].
    apply tmatvec_tmatvec; [exact HA|].
    apply Forall_forall. intros y Hy. apply in_map_iff in Hy. destruct Hy as (r & Er & Hr).
    apply filter_In in Hr. destruct Hr as [Hr _]. subst y.
    unfold rect in HR. rewrite Forall_forall in HR. unfold normalize1.
    destruct (Qeq_bool (l1 r) 0); [|rewrite len_vscale]; apply HR; exact Hr.
Qed.

(* TO PROVE 2: a non-zero non-negative combination of non-negative rows: its chromaticity point is a convex combination of the
   chromaticity points of the non-zero rows *)
Theorem reduce_cloud_convex (A : mat) (n : nat) (S R : mat) : rect (n - 1) A -> length A = n ->
  rect n R -> rect (length R) S ->
  Forall (Forall (fun a => 0 <= a)) S -> Forall (Forall (fun a => 0 <= a)) R ->
  Forall (convex_of (reduce_cloud A n false R) (n - 1)) (reduce_cloud A n false (matmul S R n)).
Proof.
  intros HA HLA HR HS HSn HRn.
  apply Forall_forall. intros x' Hx'. unfold reduce_cloud in Hx' at 1.
  apply in_map_iff in Hx'. destruct Hx' as (x & Ex & Hx). subst x'.
  apply filter_In in Hx. destruct Hx as [Hx Hnzx].
  unfold matmul in Hx. apply in_map_iff in Hx. destruct Hx as (s & Es & Hs). subst x.
  unfold rect in HS. rewrite Forall_forall in HS, HSn.
  apply reduce_row_convex; auto.
  - apply HSn; exact Hs.
  - intros H0. apply Qeq_bool_iff in H0. rewrite H0 in Hnzx. discriminate.
Qed.

Lemma rect_reduce_cloud A n X : rect (n - 1) A -> rect (n - 1) (reduce_cloud A n false X).
Proof.
  intros HA. unfold reduce_cloud. apply Forall_forall. intros y Hy. apply in_map_iff in Hy.
  destruct Hy as (x & Ex & _). subst y. unfold b2c, rowmat. apply len_tmatvec. exact HA.
Qed.

(* TO PROVE 3: the fraction is at most one *)
Theorem fraction_le_one (A : mat) (n : nat) (U S R : mat) : rect (n - 1) A -> length A = n ->
  rect n R -> rect (length R) S -> U <> [] -> Forall (fun u => length u = (n - 1)%nat) U ->
  Forall (Forall (fun a => 0 <= a)) S -> Forall (Forall (fun a => 0 <= a)) R ->
  reduce_cloud A n false (matmul S R n) <> [] ->
  gamut_width A n false true U (matmul S R n) <= gamut_width A n false true U R.
Proof.
  intros HA HLA HR HS HU HLU HSn HRn Hne.
  unfold gamut_width, mean_width.
  apply (mean_width_convex _ _ (n - 1)%nat U Hne HU (rect_reduce_cloud A n R HA) HLU).
  apply reduce_cloud_convex; assumption.
Qed.

(* ---------- helpers for the verdict ---------- *)
Lemma close_spec a r m i : close a r m i = true -> Qabs (m - i) <= a + r * Qabs m.
Proof.
  unfold close. intros H. apply Qle_bool_iff in H.
  rewrite (Qred_correct (m - i)), (Qred_correct m) in H. exact H.
Qed.

Lemma l1_veq x y : veq x y -> l1 x == l1 y.
Proof.
  unfold l1. induction 1 as [|a b x y Hab Hxy IH]; cbn [map sumQ]; [reflexivity|].
  rewrite Hab, IH. reflexivity.
Qed.

Lemma normalize1_veq x y : veq x y -> veq (normalize1 x) (normalize1 y).
Proof.
  intros H. unfold normalize1. pose proof (l1_veq x y H) as El.
  assert (Eb : Qeq_bool (l1 x) 0 = Qeq_bool (l1 y) 0) by (apply Qeq_bool_eq_of_iff; rewrite El; tauto).
  rewrite Eb. destruct (Qeq_bool (l1 y) 0); [exact H|].
  apply vscale_Proper; [rewrite El; reflexivity | exact H].
Qed.

Lemma reduce_cloud_meq A n ctn X X' : meq X X' -> meq (reduce_cloud A n ctn X) (reduce_cloud A n ctn X').
Proof.
  intros H. unfold reduce_cloud. induction H as [|x x' X X' Hx HX IH]; cbn [filter map]; [constructor|].
  assert (Eb : Qeq_bool (sumQ x) 0 = Qeq_bool (sumQ x') 0) by (apply Qeq_bool_eq_of_iff; rewrite Hx; tauto).
  rewrite Eb. destruct (Qeq_bool (sumQ x') 0); cbn [negb map]; [exact IH|].
  constructor; [|exact IH]. apply b2c_veq. apply normalize1_veq. exact Hx.
Qed.

Lemma gamut_width_meq A n ctn cf U X X' : meq X X' -> gamut_width A n ctn cf U X == gamut_width A n ctn cf U X'.
Proof. intros H. unfold gamut_width. apply mean_width_meq. apply reduce_cloud_meq. exact H. Qed.

Lemma mean_width_U_nil U : mean_width_U [] U == 0.
Proof.
  unfold mean_width_U.
  assert (E : sumQ (map (width_dir []) U) == 0).
  { induction U as [|u U IH]; cbn [map sumQ]; [reflexivity|]. rewrite IH. unfold width_dir, proj. cbn [map vmax]. ring. }
  rewrite E. unfold Qdiv. ring.
Qed.

Lemma nonnegm_spec M : nonnegm M = true -> Forall (Forall (fun a => 0 <= a)) M.
Proof.
  unfold nonnegm. intros H. rewrite forallb_forall in H. apply Forall_forall. intros r Hr.
  pose proof (H r Hr) as H1. rewrite forallb_forall in H1. apply Forall_forall. intros a Ha.
  apply Qle_bool_iff. apply H1. exact Ha.
Qed.

Lemma rect_spec k (M : mat) : forallb (fun r => Nat.eqb (length r) k) M = true -> rect k M.
Proof.
  intros H. rewrite forallb_forall in H. apply Forall_forall. intros r Hr.
  apply Nat.eqb_eq. apply H. exact Hr.
Qed.

(* TO PROVE 4: what a passing verdict means (the executable model is the spec; the implementation's value is within the tolerance of it,
   positive, and the spec value itself is at most 1 whenever the perfect system has a non-degenerate gamut) *)
Theorem fverdict_sound (c : fcase) : fverdict c = true ->
  rect (f_m c - 1) (f_A c) -> length (f_A c) = f_m c -> Forall (fun u => length u = (f_m c - 1)%nat) (f_U c) ->
  0 < gamut_width (f_A c) (f_m c) false true (f_U c) (f_R c) ->
  let spec := gamut_width (f_A c) (f_m c) false true (f_U c) (f_X c) / gamut_width (f_A c) (f_m c) false true (f_U c) (f_R c) in
  Qabs (spec - f_impl c) <= f_tol c + f_tol c * Qabs spec /\ 0 < f_impl c /\ spec <= 1.
Proof.
  intros Hv HA HLA HLU Hpos spec.
  unfold fverdict in Hv. rewrite !andb_true_iff in Hv.
  destruct Hv as [[[[[[[HS HR] HRr] HSr] HUn] Hcl] Hlt] Hle].
  assert (Em : fmodel c == spec).
  { unfold fmodel, spec. rewrite !gamut_width_fast_eq.
    rewrite (gamut_width_meq _ _ _ _ _ _ _ (mred_meq (f_X c))). reflexivity. }
  split; [|split].
  - apply close_spec in Hcl. rewrite Em in Hcl. exact Hcl.
  - unfold qlt in Hlt. apply negb_true_iff in Hlt.
    destruct (Qlt_le_dec 0 (f_impl c)) as [Hp|Hn]; [exact Hp|].
    apply Qle_bool_iff in Hn. congruence.
  - unfold spec. apply Qle_shift_div_r; [exact Hpos|]. rewrite Qmult_1_l.
    destruct (reduce_cloud (f_A c) (f_m c) false (f_X c)) as [|y0 Y0] eqn:ERC.
    + unfold gamut_width at 1, mean_width. rewrite ERC, mean_width_U_nil. apply Qlt_le_weak. exact Hpos.
    + unfold f_X in *. apply fraction_le_one; auto.
      * apply rect_spec; exact HRr.
      * apply rect_spec; exact HSr.
      * intros E. rewrite E in HUn. discriminate.
      * apply nonnegm_spec; exact HS.
      * apply nonnegm_spec; exact HR.
      * rewrite ERC. discriminate.
Qed.
