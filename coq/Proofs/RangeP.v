(* Proofs/RangeP.v — lemmas about Model/Range.v (C06).  All proved, no axioms. *)
From Coq Require Import QArith Qabs Qminmax List Bool Arith Lia Lqa Setoid Morphisms.
From DV Require Import Base.QVec Run.Verdict Model.Linear Cert.Hull Model.Gauss Model.Range.
Import ListNotations.
Open Scope Q_scope.

(* ---- 1. every accepted candidate is an in-bound solution ---- *)
Lemma veq_b_spec u v : veq_b u v = true -> veq u v.
Proof.
  revert v; induction u as [|a u IH]; intros [|c v] H; simpl in H; try discriminate.
  - constructor.
  - apply andb_true_iff in H. destruct H as [H1 H2]. constructor.
    + apply Qeq_bool_iff; exact H1.
    + apply IH; exact H2.
Qed.

Lemma candidate_sound A b lb ub n idx pat x : candidate A b lb ub n idx pat = Ok (Some x) -> sol_set A b lb ub x.
Proof.
  intros H. unfold candidate in H. cbv zeta in H.
  destruct (solve_ge _ _) as [sol|]; [|discriminate].
  match type of H with (if ?g then _ else _) = _ => destruct g eqn:G end; [|discriminate].
  injection H as H. subst x.
  apply andb_true_iff in G. destruct G as [G G3].
  apply andb_true_iff in G. destruct G as [G1 G2].
  split.
  - apply in_boxb_spec; exact G3.
  - apply veq_b_spec; exact G2.
Qed.

Lemma collect_sound (P : vec -> Prop) l : forall cands,
  (forall x, In (Ok (Some x)) l -> P x) -> collect l = Ok cands -> Forall P cands.
Proof.
  induction l as [|a l IH]; intros cands HP H.
  - simpl in H. injection H as H. subst cands. constructor.
  - destruct a as [[x|]|e]; simpl in H.
    + destruct (collect l) as [l'|e'] eqn:E; [|discriminate].
      injection H as H. subst cands. constructor.
      * apply HP. left. reflexivity.
      * apply IH; [|reflexivity]. intros y Hy. apply HP. right. exact Hy.
    + apply IH; [|exact H]. intros y Hy. apply HP. right. exact Hy.
    + discriminate.
Qed.

Lemma candidates_sound A b lb ub n cands : candidates A b lb ub n = Ok cands -> Forall (sol_set A b lb ub) cands.
Proof.
  unfold candidates. intros H.
  eapply collect_sound; [|exact H].
  intros x Hx. apply in_flat_map in Hx. destruct Hx as (idx & _ & Hx).
  apply in_map_iff in Hx. destruct Hx as (pat & Hx & _).
  eapply candidate_sound; exact Hx.
Qed.

(* ---- 2. the reported ends are attained by accepted candidates and bracket all of them ---- *)
Lemma nthQ_nil k : nthQ [] k = 0.
Proof. destruct k; reflexivity. Qed.
Lemma nthQ_cons_S a v k : nthQ (a :: v) (S k) = nthQ v k.
Proof. reflexivity. Qed.
Lemma nthQ_cons_O a v : nthQ (a :: v) 0 = a.
Proof. reflexivity. Qed.

Lemma in_box_nth x lb ub k : in_box x lb ub -> nthQ lb k <= nthQ x k /\ nthQ x k <= nthQ ub k.
Proof.
  revert lb ub k; induction x as [|a x IH]; intros [|l lb] [|u ub] k HB; simpl in HB; try tauto.
  - rewrite !nthQ_nil. split; apply Qle_refl.
  - destruct HB as (H1 & H2 & HB). destruct k as [|k].
    + rewrite !nthQ_cons_O. split; assumption.
    + rewrite !nthQ_cons_S. apply IH; exact HB.
Qed.

Lemma len_vmin2 u v : length u = length v -> length (vmin2 u v) = length u.
Proof. revert v; induction u as [|a u IH]; intros [|c v] H; simpl in *; try discriminate; auto. Qed.
Lemma len_vmax2 u v : length u = length v -> length (vmax2 u v) = length u.
Proof. revert v; induction u as [|a u IH]; intros [|c v] H; simpl in *; try discriminate; auto. Qed.

Lemma nth_vmin2 u v k : length u = length v -> nthQ (vmin2 u v) k == Qmin (nthQ u k) (nthQ v k).
Proof.
  revert v k; induction u as [|a u IH]; intros [|c v] k H; simpl in H; try discriminate.
  - simpl. rewrite !nthQ_nil. reflexivity.
  - destruct k as [|k]; cbn [vmin2].
    + rewrite !nthQ_cons_O. reflexivity.
    + rewrite !nthQ_cons_S. apply IH. lia.
Qed.
Lemma nth_vmax2 u v k : length u = length v -> nthQ (vmax2 u v) k == Qmax (nthQ u k) (nthQ v k).
Proof.
  revert v k; induction u as [|a u IH]; intros [|c v] k H; simpl in H; try discriminate.
  - simpl. rewrite !nthQ_nil. reflexivity.
  - destruct k as [|k]; cbn [vmax2].
    + rewrite !nthQ_cons_O. reflexivity.
    + rewrite !nthQ_cons_S. apply IH. lia.
Qed.

Lemma Forall_len_vmin2 cands init c : length c = length init ->
  Forall (fun x : vec => length x = length init) cands ->
  Forall (fun x : vec => length x = length (vmin2 init c)) cands.
Proof. intros Hc HF. rewrite len_vmin2 by (symmetry; exact Hc). exact HF. Qed.
Lemma Forall_len_vmax2 cands init c : length c = length init ->
  Forall (fun x : vec => length x = length init) cands ->
  Forall (fun x : vec => length x = length (vmax2 init c)) cands.
Proof. intros Hc HF. rewrite len_vmax2 by (symmetry; exact Hc). exact HF. Qed.

Lemma fold_vmin2_le_init cands : forall init k, Forall (fun x => length x = length init) cands ->
  nthQ (fold_left vmin2 cands init) k <= nthQ init k.
Proof.
  induction cands as [|a cs IH]; intros init k HF; cbn [fold_left].
  - apply Qle_refl.
  - inversion HF as [|a' cs' Ha HF']; subst.
    eapply Qle_trans; [apply IH; apply Forall_len_vmin2; assumption|].
    rewrite nth_vmin2 by (symmetry; exact Ha). apply Q.le_min_l.
Qed.
Lemma fold_vmax2_ge_init cands : forall init k, Forall (fun x => length x = length init) cands ->
  nthQ init k <= nthQ (fold_left vmax2 cands init) k.
Proof.
  induction cands as [|a cs IH]; intros init k HF; cbn [fold_left].
  - apply Qle_refl.
  - inversion HF as [|a' cs' Ha HF']; subst.
    eapply Qle_trans; [|apply IH; apply Forall_len_vmax2; assumption].
    rewrite nth_vmax2 by (symmetry; exact Ha). apply Q.le_max_l.
Qed.

(* running min/max over a non-empty list of vectors of length n, started at arbitrary vectors of length n *)
Lemma fold_vmin2_le cands init c k : Forall (fun x => length x = length init) cands -> In c cands ->
  nthQ (fold_left vmin2 cands init) k <= nthQ c k.
Proof.
  revert init; induction cands as [|a cs IH]; intros init HF HI; [destruct HI|].
  inversion HF as [|a' cs' Ha HF']; subst. cbn [fold_left].
  destruct HI as [HI|HI].
  - subst a. eapply Qle_trans; [apply fold_vmin2_le_init; apply Forall_len_vmin2; assumption|].
    rewrite nth_vmin2 by (symmetry; exact Ha). apply Q.le_min_r.
  - apply IH; [apply Forall_len_vmin2; assumption|exact HI].
Qed.
Lemma fold_vmax2_ge cands init c k : Forall (fun x => length x = length init) cands -> In c cands ->
  nthQ c k <= nthQ (fold_left vmax2 cands init) k.
Proof.
  revert init; induction cands as [|a cs IH]; intros init HF HI; [destruct HI|].
  inversion HF as [|a' cs' Ha HF']; subst. cbn [fold_left].
  destruct HI as [HI|HI].
  - subst a. eapply Qle_trans; [|apply fold_vmax2_ge_init; apply Forall_len_vmax2; assumption].
    rewrite nth_vmax2 by (symmetry; exact Ha). apply Q.le_max_r.
  - apply IH; [apply Forall_len_vmax2; assumption|exact HI].
Qed.

Lemma fold_vmin2_cases cands : forall init k, Forall (fun x => length x = length init) cands ->
  nthQ (fold_left vmin2 cands init) k == nthQ init k \/
  exists c, In c cands /\ nthQ (fold_left vmin2 cands init) k == nthQ c k.
Proof.
  induction cands as [|a cs IH]; intros init k HF; cbn [fold_left].
  - left. reflexivity.
  - inversion HF as [|a' cs' Ha HF']; subst.
    destruct (IH (vmin2 init a) k (Forall_len_vmin2 _ _ _ Ha HF')) as [E|(c & Hc & E)].
    + rewrite nth_vmin2 in E by (symmetry; exact Ha).
      destruct (Q.min_spec (nthQ init k) (nthQ a k)) as [[_ M]|[_ M]]; rewrite M in E.
      * left. exact E.
      * right. exists a. split; [left; reflexivity|exact E].
    + right. exists c. split; [right; exact Hc|exact E].
Qed.
Lemma fold_vmax2_cases cands : forall init k, Forall (fun x => length x = length init) cands ->
  nthQ (fold_left vmax2 cands init) k == nthQ init k \/
  exists c, In c cands /\ nthQ (fold_left vmax2 cands init) k == nthQ c k.
Proof.
  induction cands as [|a cs IH]; intros init k HF; cbn [fold_left].
  - left. reflexivity.
  - inversion HF as [|a' cs' Ha HF']; subst.
    destruct (IH (vmax2 init a) k (Forall_len_vmax2 _ _ _ Ha HF')) as [E|(c & Hc & E)].
    + rewrite nth_vmax2 in E by (symmetry; exact Ha).
      destruct (Q.max_spec (nthQ init k) (nthQ a k)) as [[_ M]|[_ M]]; rewrite M in E.
      * right. exists a. split; [left; reflexivity|exact E].
      * left. exact E.
    + right. exists c. split; [right; exact Hc|exact E].
Qed.

(* when every candidate is <= init (resp. >= init) componentwise the fold is attained by a candidate *)
Lemma fold_vmin2_attained cands init k : cands <> [] -> Forall (fun x => length x = length init) cands ->
  (k < length init)%nat -> Forall (fun x => nthQ x k <= nthQ init k) cands ->
  exists c, In c cands /\ nthQ (fold_left vmin2 cands init) k == nthQ c k.
Proof.
  intros Hne HF _ HL.
  destruct (fold_vmin2_cases cands init k HF) as [E|H]; [|exact H].
  destruct cands as [|a cs]; [contradiction Hne; reflexivity|].
  exists a. split; [left; reflexivity|].
  assert (H1 : nthQ (fold_left vmin2 (a :: cs) init) k <= nthQ a k)
    by (apply fold_vmin2_le; [exact HF|left; reflexivity]).
  assert (H2 : nthQ a k <= nthQ init k) by (inversion HL; assumption).
  apply Qle_antisym; [exact H1|]. rewrite E. exact H2.
Qed.
Lemma fold_vmax2_attained cands init k : cands <> [] -> Forall (fun x => length x = length init) cands ->
  (k < length init)%nat -> Forall (fun x => nthQ init k <= nthQ x k) cands ->
  exists c, In c cands /\ nthQ (fold_left vmax2 cands init) k == nthQ c k.
Proof.
  intros Hne HF _ HL.
  destruct (fold_vmax2_cases cands init k HF) as [E|H]; [|exact H].
  destruct cands as [|a cs]; [contradiction Hne; reflexivity|].
  exists a. split; [left; reflexivity|].
  assert (H1 : nthQ a k <= nthQ (fold_left vmax2 (a :: cs) init) k)
    by (apply fold_vmax2_ge; [exact HF|left; reflexivity]).
  assert (H2 : nthQ init k <= nthQ a k) by (inversion HL; assumption).
  apply Qle_antisym; [|exact H1]. rewrite E. exact H2.
Qed.

(* MAIN (F): for a non-empty set of accepted candidates both ends of every source are values taken by
   an in-bound solution, min <= max, and both lie within the bounds *)
Theorem range_ends_attained A b lb ub n mins maxs cands k :
  length lb = n -> length ub = n -> (k < n)%nat ->
  candidates A b lb ub n = Ok cands -> cands <> [] -> range_model A b lb ub n = Ok (mins, maxs) ->
  (exists x, sol_set A b lb ub x /\ nthQ mins k == nthQ x k) /\
  (exists x, sol_set A b lb ub x /\ nthQ maxs k == nthQ x k) /\
  nthQ mins k <= nthQ maxs k /\ nthQ lb k <= nthQ mins k /\ nthQ maxs k <= nthQ ub k.
Proof.
  intros Hlb Hub Hk Hc Hne Hr.
  unfold range_model in Hr. rewrite Hc in Hr. injection Hr as Hmins Hmaxs. subst mins maxs.
  pose proof (candidates_sound _ _ _ _ _ _ Hc) as Hs.
  assert (HlenU : Forall (fun x : vec => length x = length ub) cands).
  { eapply Forall_impl; [|exact Hs]. intros x [Hb _]. destruct (in_box_len _ _ _ Hb) as [_ Hl]. exact Hl. }
  assert (HlenL : Forall (fun x : vec => length x = length lb) cands).
  { eapply Forall_impl; [|exact Hs]. intros x [Hb _]. destruct (in_box_len _ _ _ Hb) as [Hl _]. exact Hl. }
  assert (HleU : Forall (fun x : vec => nthQ x k <= nthQ ub k) cands).
  { eapply Forall_impl; [|exact Hs]. intros x [Hb _]. apply (in_box_nth _ _ _ k Hb). }
  assert (HleL : Forall (fun x : vec => nthQ lb k <= nthQ x k) cands).
  { eapply Forall_impl; [|exact Hs]. intros x [Hb _]. apply (in_box_nth _ _ _ k Hb). }
  assert (HkU : (k < length ub)%nat) by lia.
  assert (HkL : (k < length lb)%nat) by lia.
  destruct (fold_vmin2_attained cands ub k Hne HlenU HkU HleU) as (cmin & Imin & Emin).
  destruct (fold_vmax2_attained cands lb k Hne HlenL HkL HleL) as (cmax & Imax & Emax).
  pose proof (proj1 (Forall_forall _ _) Hs) as Hs'.
  pose proof (Hs' _ Imin) as Smin. pose proof (Hs' _ Imax) as Smax.
  split; [exists cmin; split; assumption|].
  split; [exists cmax; split; assumption|].
  split; [|split].
  - eapply Qle_trans; [apply (fold_vmin2_le cands ub cmin k HlenU Imin)|].
    apply (fold_vmax2_ge cands lb cmin k HlenL Imin).
  - rewrite Emin. destruct Smin as [Hb _]. apply (in_box_nth _ _ _ k Hb).
  - rewrite Emax. destruct Smax as [Hb _]. apply (in_box_nth _ _ _ k Hb).
Qed.

(* ---- 3. (C) extent certificates: weak LP duality ---- *)
Lemma len_unitv n k : length (unitv n k) = n.
Proof. unfold unitv. rewrite map_length, seq_length. reflexivity. Qed.

Lemma dot_unit_seq_lt k n : forall s x, (k < s)%nat ->
  dot (map (fun i => if Nat.eqb i k then 1 else 0) (seq s n)) x == 0.
Proof.
  induction n as [|n IH]; intros s x Hs.
  - reflexivity.
  - destruct x as [|c x]; [reflexivity|].
    cbn [seq map dot]. destruct (Nat.eqb_spec s k) as [E|_]; [lia|].
    rewrite IH by lia. ring.
Qed.
Lemma dot_unit_seq k n : forall s x, (s <= k)%nat -> (k < s + n)%nat ->
  dot (map (fun i => if Nat.eqb i k then 1 else 0) (seq s n)) x == nthQ x (k - s).
Proof.
  induction n as [|n IH]; intros s x Hs Hk; [lia|].
  destruct x as [|c x]; [rewrite nthQ_nil; reflexivity|].
  cbn [seq map dot]. destruct (Nat.eqb_spec s k) as [E|NE].
  - subst s. rewrite Nat.sub_diag, nthQ_cons_O. rewrite dot_unit_seq_lt by lia. ring.
  - replace (k - s)%nat with (S (k - S s)) by lia. rewrite nthQ_cons_S.
    rewrite IH by lia. ring.
Qed.
(* the length hypothesis of dot_unitv is not needed *)
Lemma dot_unitv_gen n k x : (k < n)%nat -> dot (unitv n k) x == nthQ x k.
Proof.
  intros Hk. unfold unitv. rewrite dot_unit_seq by lia. rewrite Nat.sub_0_r. reflexivity.
Qed.
Lemma dot_unitv n k x : length x = n -> (k < n)%nat -> dot (unitv n k) x == nthQ x k.
Proof. intros _ Hk. apply dot_unitv_gen; exact Hk. Qed.

(* boxmin_le without the length hypothesis: both sides truncate to the shorter vector *)
Lemma boxmin_le_gen r x lb ub : in_box x lb ub -> boxmin r lb ub <= dot r x.
Proof.
  revert x lb ub; induction r as [|a r IH]; intros [|c x] [|l lb] [|u ub] HB; simpl in *; try tauto; try lra.
  destruct HB as (H1 & H2 & HB). specialize (IH x lb ub HB).
  assert (Qmin (a*l) (a*u) <= a*c).
  { destruct (Qlt_le_dec a 0).
    - apply Qle_trans with (a*u); [apply Q.le_min_r| nra].
    - apply Qle_trans with (a*l); [apply Q.le_min_l| nra]. }
  lra.
Qed.

Theorem extent_lower_sound A b lb ub n k y x : rect n A -> length y = length A -> (k < n)%nat ->
  sol_set A b lb ub x -> extent_lower A b lb ub n k y <= nthQ x k.
Proof.
  intros HR Hy Hk [Hb He]. unfold extent_lower.
  set (r := vadd (unitv n k) (tmatvec A y n)).
  assert (H1 : boxmin r lb ub <= dot r x) by (apply boxmin_le_gen; exact Hb).
  assert (H2 : dot r x == nthQ x k + dot y b).
  { unfold r. rewrite dot_vadd_l by (rewrite len_unitv, len_tmatvec by exact HR; reflexivity).
    rewrite dot_unitv_gen by exact Hk.
    rewrite <- (transpose_id A y x n HR Hy). rewrite He. reflexivity. }
  lra.
Qed.
Theorem extent_upper_sound A b lb ub n k y x : rect n A -> length y = length A -> (k < n)%nat ->
  sol_set A b lb ub x -> nthQ x k <= extent_upper A b lb ub n k y.
Proof.
  intros HR Hy Hk [Hb He]. unfold extent_upper.
  set (r := vadd (vscale (-1) (unitv n k)) (tmatvec A y n)).
  assert (H1 : boxmin r lb ub <= dot r x) by (apply boxmin_le_gen; exact Hb).
  assert (H2 : dot r x == (-1) * nthQ x k + dot y b).
  { unfold r. rewrite dot_vadd_l by (rewrite len_vscale, len_unitv, len_tmatvec by exact HR; reflexivity).
    rewrite dot_vscale_l. rewrite dot_unitv_gen by exact Hk.
    rewrite <- (transpose_id A y x n HR Hy). rewrite He. reflexivity. }
  lra.
Qed.

(* ---- 4. hence every in-bound solution lies between certified ends ---- *)
Theorem between_ends A b lb ub n k ylo yhi mn mx tol x : rect n A -> length ylo = length A -> length yhi = length A -> (k < n)%nat ->
  mn - tol <= extent_lower A b lb ub n k ylo -> extent_upper A b lb ub n k yhi <= mx + tol ->
  sol_set A b lb ub x -> mn - tol <= nthQ x k /\ nthQ x k <= mx + tol.
Proof.
  intros HR Hlo Hhi Hk H1 H2 Hs.
  pose proof (extent_lower_sound A b lb ub n k ylo x HR Hlo Hk Hs) as L.
  pose proof (extent_upper_sound A b lb ub n k yhi x HR Hhi Hk Hs) as U.
  split; lra.
Qed.
