(* Proofs/SphereR.v — n-sphere coordinates of dreye/api/spherical.py over the reals (C16).
   PROVED.  Assumptions: only those of the Coq standard library Reals (see Print Assumptions at the end). *)
From Coq Require Import Reals Lra Lia List Arith Bool.
Import ListNotations.
Open Scope R_scope.

Fixpoint sumsq (x : list R) : R := match x with [] => 0 | a :: x' => a * a + sumsq x' end.
Definition norm (x : list R) : R := sqrt (sumsq x).
Definition is_zero (a : R) : bool := if Req_EM_T a 0 then true else false.
Fixpoint all_zero (x : list R) : bool := match x with [] => true | a :: x' => is_zero a && all_zero x' end.

(* cartesian_to_spherical for one point of dimension >= 2: radius, then the angles.
   polar angle i:  0 if x[i:] is all zero, else acos (x_i / |x[i:]|);
   azimuth (last): 0 if x[-2:] is all zero, else acos (x_{n-2} / |x[-2:]|) if x_{n-1} >= 0, else 2 PI - that *)
Fixpoint angles (x : list R) : list R :=
  match x with
  | [a; b] => [if all_zero x then 0 else if Rle_dec 0 b then acos (a / norm x) else 2 * PI - acos (a / norm x)]
  | a :: x' => (if all_zero x then 0 else acos (a / norm x)) :: angles x'
  | [] => []
  end.
Definition c2s (x : list R) : list R := norm x :: angles x.

(* spherical_to_cartesian: x_0 = r cos p1, x_i = r cos p_{i+1} sin p_1 .. sin p_i, x_{n-1} = r sin p_1 .. sin p_{n-1} *)
Fixpoint s2c_from (r prod : R) (ang : list R) : list R :=
  match ang with
  | [p] => [r * prod * cos p; r * prod * sin p]
  | p :: ang' => r * prod * cos p :: s2c_from r (prod * sin p) ang'
  | [] => []
  end.
Definition s2c (y : list R) : list R := match y with r :: ang => s2c_from r 1 ang | [] => [] end.

(* ---------- helper lemmas ---------- *)
Lemma angles_2 : forall a b, angles [a; b] =
  [if all_zero [a; b] then 0 else if Rle_dec 0 b then acos (a / norm [a; b]) else 2 * PI - acos (a / norm [a; b])].
Proof. reflexivity. Qed.
Lemma angles_3 : forall a b c x, angles (a :: b :: c :: x) =
  (if all_zero (a :: b :: c :: x) then 0 else acos (a / norm (a :: b :: c :: x))) :: angles (b :: c :: x).
Proof. reflexivity. Qed.
Lemma angles_cons2 : forall b c x, exists q l, angles (b :: c :: x) = q :: l.
Proof. intros b c x. destruct x; eexists; eexists; reflexivity. Qed.
Lemma s2c_from_1 : forall r prod p, s2c_from r prod [p] = [r * prod * cos p; r * prod * sin p].
Proof. reflexivity. Qed.
Lemma s2c_from_2 : forall r prod p q l,
  s2c_from r prod (p :: q :: l) = r * prod * cos p :: s2c_from r (prod * sin p) (q :: l).
Proof. reflexivity. Qed.

Lemma sumsq_nonneg : forall x, 0 <= sumsq x.
Proof. induction x; simpl; [lra | nra]. Qed.

Lemma is_zero_true : forall a, is_zero a = true -> a = 0.
Proof. intros a. unfold is_zero. destruct (Req_EM_T a 0); congruence. Qed.
Lemma is_zero_false : forall a, is_zero a = false -> a <> 0.
Proof. intros a. unfold is_zero. destruct (Req_EM_T a 0); congruence. Qed.

Lemma all_zero_cons : forall a x, all_zero (a :: x) = true -> a = 0 /\ all_zero x = true.
Proof. intros a x H. simpl in H. apply andb_prop in H. destruct H as [H1 H2].
  split; [apply is_zero_true; exact H1 | exact H2]. Qed.

Lemma all_zero_sumsq : forall x, all_zero x = true -> sumsq x = 0.
Proof. induction x as [|a x IH]; intros H. reflexivity.
  apply all_zero_cons in H. destruct H as [H1 H2]. simpl. rewrite (IH H2). subst. lra. Qed.

Lemma all_zero_false_sumsq : forall x, all_zero x = false -> 0 < sumsq x.
Proof. induction x as [|a x IH]; simpl; intros H. discriminate.
  apply andb_false_iff in H. pose proof (sumsq_nonneg x) as Hx. destruct H as [H|H].
  - apply is_zero_false in H. assert (0 < a * a) by nra. lra.
  - apply IH in H. nra. Qed.

Lemma all_zero_norm : forall x, all_zero x = true -> norm x = 0.
Proof. intros x H. unfold norm. rewrite (all_zero_sumsq x H). apply sqrt_0. Qed.

Lemma polar_facts : forall a x, 0 < sumsq (a :: x) ->
  norm (a :: x) * cos (acos (a / norm (a :: x))) = a /\
  norm (a :: x) * sin (acos (a / norm (a :: x))) = norm x.
Proof.
  intros a x Hpos.
  pose proof (sumsq_nonneg x) as Hx.
  assert (Hrho : 0 < norm (a :: x)) by (apply sqrt_lt_R0; exact Hpos).
  assert (Hsq : norm (a :: x) * norm (a :: x) = a * a + sumsq x).
  { unfold norm. rewrite sqrt_sqrt by lra. reflexivity. }
  set (rho := norm (a :: x)) in *.
  assert (Hab : - rho <= a <= rho) by (split; nra).
  assert (Hi : 0 < / rho) by (apply Rinv_0_lt_compat; exact Hrho).
  assert (Hri : rho * / rho = 1) by (apply Rinv_r; lra).
  assert (Hb : -1 <= a / rho <= 1).
  { unfold Rdiv. split; nra. }
  split.
  - rewrite cos_acos by exact Hb. field. lra.
  - rewrite sin_acos by exact Hb. symmetry. unfold norm at 1. apply sqrt_lem_1.
    + exact Hx.
    + apply Rmult_le_pos; [lra | apply sqrt_pos].
    + assert (H1 : 0 <= 1 - (a / rho)²).
      { unfold Rsqr. destruct Hb. nra. }
      transitivity (rho * rho * (sqrt (1 - (a / rho)²) * sqrt (1 - (a / rho)²))); [ring|].
      rewrite sqrt_sqrt by exact H1. unfold Rsqr. rewrite Hsq. 
      assert (E : a / rho * (a / rho) * (rho * rho) = a * a) by (field; lra).
      rewrite <- Hsq. nra.
Qed.

Lemma angle_facts : forall a x,
  let p := if all_zero (a :: x) then 0 else acos (a / norm (a :: x)) in
  norm (a :: x) * cos p = a /\ norm (a :: x) * sin p = norm x.
Proof.
  intros a x. destruct (all_zero (a :: x)) eqn:E; cbv zeta.
  - rewrite (all_zero_norm _ E). apply all_zero_cons in E. destruct E as [Ea Ex].
    rewrite (all_zero_norm _ Ex). subst a. split; ring.
  - apply polar_facts. apply all_zero_false_sumsq. exact E.
Qed.

Lemma norm1 : forall b, norm [b] = Rabs b.
Proof. intros b. unfold norm. simpl. replace (b * b + 0) with (b²) by (unfold Rsqr; ring).
  apply sqrt_Rsqr_abs. Qed.

Lemma s2c_inv : forall x a b r prod, r * prod = norm (a :: b :: x) ->
  s2c_from r prod (angles (a :: b :: x)) = a :: b :: x.
Proof.
  induction x as [|c x IH]; intros a b r prod H.
  - rewrite angles_2, s2c_from_1. rewrite H.
    pose proof (angle_facts a [b]) as F. cbv zeta in F.
    destruct (all_zero [a; b]) eqn:E.
    + destruct F as [F1 F2]. rewrite F1, F2.
      apply all_zero_cons in E. destruct E as [_ E]. rewrite (all_zero_norm _ E).
      apply all_zero_cons in E. destruct E as [E _]. subst b. reflexivity.
    + destruct F as [F1 F2]. rewrite norm1 in F2. destruct (Rle_dec 0 b) as [Hb|Hb].
      * rewrite F1, F2. rewrite Rabs_right by lra. reflexivity.
      * rewrite cos_minus, sin_minus, cos_2PI, sin_2PI.
        rewrite Rabs_left in F2 by lra.
        f_equal; [|f_equal]; nra.
  - rewrite angles_3. destruct (angles_cons2 b c x) as [q [l E]]. rewrite E.
    rewrite s2c_from_2. rewrite <- E.
    pose proof (angle_facts a (b :: c :: x)) as F. cbv zeta in F. destruct F as [F1 F2].
    f_equal.
    + rewrite H. exact F1.
    + apply IH. rewrite <- F2, <- H. ring.
Qed.

(* 1. round trip, for every point of every dimension >= 2 (origin, axes, negative coordinates included) *)
Theorem s2c_c2s : forall x, (2 <= length x)%nat -> s2c (c2s x) = x.
Proof.
  intros x Hlen. destruct x as [|a [|b x]]; simpl in Hlen; try lia.
  unfold c2s, s2c. apply s2c_inv. ring.
Qed.

(* 2. the radius is the Euclidean norm; polar angles lie in [0, PI], the azimuth in [0, 2 PI] *)
Theorem c2s_radius : forall x, nth 0 (c2s x) 0 = sqrt (sumsq x) /\ 0 <= nth 0 (c2s x) 0.
Proof. intros x. unfold c2s. cbn [nth]. split; [reflexivity | apply sqrt_pos]. Qed.

Lemma angles_length : forall x a b, length (angles (a :: b :: x)) = S (length x).
Proof. induction x as [|c x IH]; intros a b. reflexivity.
  rewrite angles_3. cbn [length]. rewrite IH. reflexivity. Qed.

Lemma angles_polar : forall x a b i, (i < length x)%nat -> 0 <= nth i (angles (a :: b :: x)) 0 <= PI.
Proof. induction x as [|c x IH]; intros a b i Hi; cbn [length] in Hi. lia.
  rewrite angles_3. destruct i as [|i]; cbn [nth].
  - destruct (all_zero (a :: b :: c :: x)). pose proof PI_RGT_0; lra. apply acos_bound.
  - apply IH. lia. Qed.

Lemma angles_azimuth : forall x a b, 0 <= nth (length x) (angles (a :: b :: x)) 0 <= 2 * PI.
Proof. induction x as [|c x IH]; intros a b.
  - rewrite angles_2. cbn [length nth]. pose proof PI_RGT_0.
    pose proof (acos_bound (a / norm [a; b])).
    destruct (all_zero [a; b]). lra. destruct (Rle_dec 0 b); lra.
  - rewrite angles_3. cbn [length nth]. apply IH. Qed.

Theorem c2s_ranges : forall x, (2 <= length x)%nat ->
  length (angles x) = (length x - 1)%nat /\
  (forall i, (i < length x - 2)%nat -> 0 <= nth i (angles x) 0 <= PI) /\
  0 <= nth (length x - 2) (angles x) 0 <= 2 * PI.
Proof.
  intros x Hlen. destruct x as [|a [|b x]]; simpl in Hlen; try lia.
  replace (length (a :: b :: x) - 1)%nat with (S (length x)) by (cbn [length]; lia).
  replace (length (a :: b :: x) - 2)%nat with (length x) by (cbn [length]; lia).
  split; [apply angles_length | split; [intros i Hi; apply angles_polar; exact Hi | apply angles_azimuth]].
Qed.

Print Assumptions s2c_c2s.
Print Assumptions c2s_radius.
Print Assumptions c2s_ranges.
