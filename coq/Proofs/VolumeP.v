(* Proofs/VolumeP.v — C18: laws of the exact reference volumes used for compute_volume
   (polygon area by the shoelace formula, simplex volume |det|/d!, axis-parallel box):
   translation invariance and homogeneity of degree d. *)
From Coq Require Import QArith Qabs Qminmax Qpower List Bool Arith Lia Lqa Setoid Morphisms.
From DV Require Import Base.QVec Run.Verdict Model.Range Model.Sampling Model.Metrics.
Import ListNotations.
Open Scope Q_scope.

Definition box_vol (lo hi : vec) : Q := Qabs (fold_right Qmult 1 (vsub hi lo)).


(* ------------------------------------------------------------------ *)
(* helpers: powers                                                     *)
Fixpoint qpow (s : Q) (k : nat) : Q := match k with O => 1 | S k' => s * qpow s k' end.

Lemma qpow_spec s k : qpow s k == s ^ (Z.of_nat k).
Proof.
  induction k as [|k IH].
  - reflexivity.
  - cbn [qpow]. rewrite IH. destruct k as [|k'].
    + simpl. ring.
    + replace (Z.of_nat (S (S k'))) with (1 + Z.of_nat (S k'))%Z by lia.
      rewrite Qpower_plus' by lia. simpl (s ^ 1). reflexivity.
Qed.

Lemma qpow_nonneg s k : 0 <= s -> 0 <= qpow s k.
Proof. intros Hs. induction k as [|k IH]; cbn [qpow]; [lra|nra]. Qed.

Lemma qpow_abs s k : Qabs (qpow s k) == qpow (Qabs s) k.
Proof. induction k as [|k IH]; cbn [qpow]; [reflexivity|]. rewrite Qabs_Qmult, IH. reflexivity. Qed.

(* ------------------------------------------------------------------ *)
(* helpers: coordinates                                                *)
Lemma nthQ_nil k : nthQ [] k = 0.
Proof. destruct k; reflexivity. Qed.

Lemma nthQ_vscale s x k : nthQ (vscale s x) k == s * nthQ x k.
Proof.
  revert k; induction x as [|a x IH]; intros k.
  - cbn [vscale map]. rewrite nthQ_nil. ring.
  - destruct k as [|k]; [reflexivity|]. apply (IH k).
Qed.

(* ------------------------------------------------------------------ *)
(* polygon                                                             *)
Lemma shoelace2_scale s rest : forall f p,
  shoelace2 (vscale s f) (vscale s p) (map (vscale s) rest) == s * s * shoelace2 f p rest.
Proof.
  induction rest as [|q rest IH]; intros f p; cbn [shoelace2 map].
  - rewrite !nthQ_vscale. ring.
  - rewrite IH, !nthQ_vscale. ring.
Qed.

Lemma shoelace2_translate t rest : length t = 2%nat -> forall f p,
  length f = 2%nat -> length p = 2%nat -> Forall (fun q => length q = 2%nat) rest ->
  shoelace2 (vadd f t) (vadd p t) (map (fun q => vadd q t) rest) ==
  shoelace2 f p rest + nthQ t 0 * (nthQ f 1 - nthQ p 1) - nthQ t 1 * (nthQ f 0 - nthQ p 0).
Proof.
  intros Ht.
  destruct t as [|tx [|ty [|? ?]]]; try discriminate Ht.
  induction rest as [|q rest IH]; intros f p Hf Hp Hr; cbn [shoelace2 map].
  - destruct f as [|xf [|yf [|? ?]]]; try discriminate Hf.
    destruct p as [|xp [|yp [|? ?]]]; try discriminate Hp.
    unfold nthQ; cbn [vadd nth]. ring.
  - inversion Hr as [|q' rest' Hq Hrest]; subst.
    rewrite (IH f q Hf Hq Hrest).
    destruct f as [|xf [|yf [|? ?]]]; try discriminate Hf.
    destruct p as [|xp [|yp [|? ?]]]; try discriminate Hp.
    destruct q as [|xq [|yq [|? ?]]]; try discriminate Hq.
    unfold nthQ; cbn [vadd nth]. ring.
Qed.

Theorem polygon_area_translate (V : mat) (t : vec) : Forall (fun p => length p = 2%nat) V -> length t = 2%nat ->
  polygon_area (map (fun p => vadd p t) V) == polygon_area V.
Proof.
  intros HV Ht. destruct V as [|p rest]; [reflexivity|].
  inversion HV as [|p' rest' Hp Hrest]; subst.
  unfold polygon_area; cbn [map].
  rewrite (shoelace2_translate t rest Ht p p Hp Hp Hrest).
  assert (E : shoelace2 p p rest + nthQ t 0 * (nthQ p 1 - nthQ p 1) - nthQ t 1 * (nthQ p 0 - nthQ p 0)
              == shoelace2 p p rest) by ring.
  rewrite E. reflexivity.
Qed.

Theorem polygon_area_scale (V : mat) (s : Q) : polygon_area (map (vscale s) V) == s * s * polygon_area V.
Proof.
  destruct V as [|p rest]; [cbn [map polygon_area]; ring|].
  unfold polygon_area; cbn [map].
  rewrite shoelace2_scale, Qabs_Qmult.
  assert (Hss : 0 <= s * s) by (destruct (Qlt_le_dec s 0); nra).
  rewrite (Qabs_pos (s * s) Hss). unfold Qdiv. ring.
Qed.

(* ------------------------------------------------------------------ *)
(* determinant: compatibility with entrywise equality                  *)
Lemma remove_nth_veq j : forall u v, veq u v -> veq (remove_nth j u) (remove_nth j v).
Proof.
  induction j as [|j IH]; intros u v H; destruct H as [|a b u v Hab Huv]; cbn [remove_nth].
  - constructor.
  - exact Huv.
  - constructor.
  - constructor; [exact Hab|apply IH; exact Huv].
Qed.

Lemma meq_remove_nth j M M' : meq M M' -> meq (map (remove_nth j) M) (map (remove_nth j) M').
Proof.
  intros H; induction H as [|r r' M M' Hr HM IH]; cbn [map]; constructor.
  - apply remove_nth_veq; exact Hr.
  - exact IH.
Qed.

Lemma meq_length M M' : meq M M' -> length M = length M'.
Proof. intros H; induction H; simpl; auto. Qed.

Lemma altsum_ext (f g : nat -> Q -> Q) :
  (forall j a a', a == a' -> f j a == g j a') ->
  forall r r', veq r r' -> forall j, altsum f j r == altsum g j r'.
Proof.
  intros Hfg r r' H. induction H as [|a a' r r' Ha Hr IH]; intros j; cbn [altsum].
  - reflexivity.
  - rewrite (Hfg j a a' Ha), (IH (S j)). reflexivity.
Qed.

Lemma detf_meq : forall fuel M M', meq M M' -> detf fuel M == detf fuel M'.
Proof.
  induction fuel as [|fuel IH]; intros M M' H; cbn [detf]; [reflexivity|].
  destruct H as [|r r' M M' Hr HM]; [reflexivity|].
  rewrite !Qred_correct. apply altsum_ext; [|exact Hr].
  intros j a a' Ha. rewrite Ha, (IH _ _ (meq_remove_nth j M M' HM)). reflexivity.
Qed.

Lemma det_meq M M' : meq M M' -> det M == det M'.
Proof. intros H. unfold det. rewrite (meq_length _ _ H). apply detf_meq; exact H. Qed.

(* determinant: homogeneity                                            *)
Lemma remove_nth_map {A B} (g : A -> B) j : forall l, remove_nth j (map g l) = map g (remove_nth j l).
Proof.
  induction j as [|j IH]; intros [|a l]; cbn [remove_nth map]; try reflexivity.
  rewrite IH. reflexivity.
Qed.

Lemma minors_vscale s j (M : mat) :
  map (remove_nth j) (map (vscale s) M) = map (vscale s) (map (remove_nth j) M).
Proof.
  rewrite !map_map. apply map_ext. intros r. unfold vscale. apply remove_nth_map.
Qed.

Lemma altsum_scale (f g : nat -> Q -> Q) s c :
  (forall j a, g j (s * a) == c * f j a) ->
  forall r j, altsum g j (vscale s r) == c * altsum f j r.
Proof.
  intros Hfg. induction r as [|a r IH]; intros j; cbn [altsum vscale map].
  - ring.
  - fold (vscale s r). rewrite (Hfg j a), (IH (S j)). ring.
Qed.

Lemma detf_scale s : forall fuel (M : mat),
  detf fuel (map (vscale s) M) == qpow s (Nat.min fuel (length M)) * detf fuel M.
Proof.
  induction fuel as [|fuel IH]; intros M.
  - cbn [detf Nat.min qpow]. ring.
  - destruct M as [|r M]; [cbn [detf map length Nat.min qpow]; ring|].
    cbn [detf map length Nat.min]. rewrite !Qred_correct. cbn [qpow].
    apply altsum_scale. intros j a.
    rewrite minors_vscale, IH, map_length. unfold mat, vec in *. ring.
Qed.

Lemma det_scale s (M : mat) : det (map (vscale s) M) == qpow s (length M) * det M.
Proof. unfold det. rewrite map_length, detf_scale, Nat.min_id. reflexivity. Qed.

(* ------------------------------------------------------------------ *)
(* difference vectors                                                  *)
Lemma vsub_vadd_cancel : forall u v t, length u = length t -> length v = length t ->
  veq (vsub (vadd u t) (vadd v t)) (vsub u v).
Proof.
  induction u as [|a u IH]; intros [|b v] [|c t] Hu Hv; simpl in Hu, Hv; try discriminate; cbn [vadd vsub].
  - constructor.
  - constructor; [ring|]. apply IH; lia.
Qed.

Lemma vsub_vscale s : forall u v, veq (vsub (vscale s u) (vscale s v)) (vscale s (vsub u v)).
Proof.
  induction u as [|a u IH]; intros [|b v]; cbn [vscale map vsub]; try constructor.
  - ring.
  - apply IH.
Qed.

Lemma meq_map (g h : vec -> vec) (L : mat) :
  (forall v, In v L -> veq (g v) (h v)) -> meq (map g L) (map h L).
Proof.
  induction L as [|a L IH]; intros H; cbn [map]; constructor.
  - apply H; left; reflexivity.
  - apply IH; intros v Hv; apply H; right; exact Hv.
Qed.

(* ------------------------------------------------------------------ *)
(* simplex                                                             *)
Theorem simplex_vol_translate (S : mat) (t : vec) : Forall (fun p => length p = length t) S ->
  simplex_vol (map (fun p => vadd p t) S) == simplex_vol S.
Proof.
  intros HS. unfold simplex_vol. rewrite <- map_rev.
  assert (HR : Forall (fun p => length p = length t) (rev S)).
  { apply Forall_forall; intros x Hx. rewrite Forall_forall in HS. apply HS. apply in_rev; exact Hx. }
  destruct (rev S) as [|vd rr]; [reflexivity|]. cbn [map].
  inversion HR as [|vd' rr' Hvd Hrr]; subst.
  rewrite map_length. rewrite <- map_rev, map_map.
  assert (E : det (map (fun x => vsub (vadd x t) (vadd vd t)) (rev rr))
              == det (map (fun v => vsub v vd) (rev rr))).
  { apply det_meq. apply meq_map. intros v Hv. apply vsub_vadd_cancel; [|exact Hvd].
    rewrite Forall_forall in Hrr. apply Hrr. apply in_rev; exact Hv. }
  rewrite E. reflexivity.
Qed.

Theorem simplex_vol_scale (S : mat) (s : Q) (d : nat) : 0 <= s -> length S = Datatypes.S d -> Forall (fun p => length p = d) S ->
  simplex_vol (map (vscale s) S) == s ^ (Z.of_nat d) * simplex_vol S.
Proof.
  intros Hs HL _. unfold simplex_vol. rewrite <- map_rev.
  assert (HLr : length (rev S) = Datatypes.S d) by (rewrite rev_length; exact HL).
  destruct (rev S) as [|vd rr]; [discriminate HLr|]. cbn [map].
  assert (Hrr : length rr = d) by (simpl in HLr; lia).
  rewrite map_length. rewrite <- map_rev, map_map.
  assert (E : det (map (fun x => vsub (vscale s x) (vscale s vd)) (rev rr))
              == qpow s d * det (map (fun v => vsub v vd) (rev rr))).
  { assert (E1 : meq (map (fun x => vsub (vscale s x) (vscale s vd)) (rev rr))
                     (map (vscale s) (map (fun v => vsub v vd) (rev rr)))).
    { rewrite map_map. apply meq_map. intros v _. apply vsub_vscale. }
    rewrite (det_meq _ _ E1), det_scale, map_length, rev_length, Hrr. reflexivity. }
  rewrite E, Qabs_Qmult, (Qabs_pos _ (qpow_nonneg s d Hs)), qpow_spec.
  unfold Qdiv. ring.
Qed.

(* ------------------------------------------------------------------ *)
(* box                                                                 *)
Lemma prod_veq u v : veq u v -> fold_right Qmult 1 u == fold_right Qmult 1 v.
Proof. intros H; induction H as [|a b u v Hab Huv IH]; cbn [fold_right]; [reflexivity|]. rewrite Hab, IH. reflexivity. Qed.

Lemma prod_vscale s v : fold_right Qmult 1 (vscale s v) == qpow s (length v) * fold_right Qmult 1 v.
Proof.
  induction v as [|a v IH]; cbn [vscale map fold_right length qpow]; [ring|].
  fold (vscale s v). rewrite IH. ring.
Qed.

Theorem box_vol_translate (lo hi t : vec) : length lo = length t -> length hi = length t ->
  box_vol (vadd lo t) (vadd hi t) == box_vol lo hi.
Proof.
  intros Hlo Hhi. unfold box_vol.
  rewrite (prod_veq _ _ (vsub_vadd_cancel hi lo t Hhi Hlo)). reflexivity.
Qed.

Theorem box_vol_scale (lo hi : vec) (s : Q) : length lo = length hi ->
  box_vol (vscale s lo) (vscale s hi) == Qabs s ^ (Z.of_nat (length lo)) * box_vol lo hi.
Proof.
  intros HL. unfold box_vol.
  rewrite (prod_veq _ _ (vsub_vscale s hi lo)), prod_vscale.
  rewrite len_vsub by (symmetry; exact HL).
  rewrite Qabs_Qmult, qpow_abs, qpow_spec, HL. reflexivity.
Qed.

