(* Proofs/ScalingP.v — algebra of the gamut-corrective scalings (C12).  No axioms. *)
From Coq Require Import QArith Qabs Qminmax List Bool Arith Lia Lqa Setoid Morphisms.
From DV Require Import Base.QVec Run.Verdict Model.Linear Cert.Hull Model.Scaling.
Import ListNotations.
Open Scope Q_scope.

(* ---------- helpers: lists / vectors ---------- *)
Lemma nthV_map (g : vec -> vec) (B : mat) i : (i < length B)%nat -> nthV (map g B) i = g (nthV B i).
Proof.
  unfold nthV. revert i; induction B as [|r B IH]; intros [|i] H; simpl in *; try lia; auto.
  apply IH; lia.
Qed.

Lemma vsub_vadd_cancel u v : length u = length v -> veq (vsub (vadd u v) v) u.
Proof.
  revert v; induction u as [|a u IH]; intros [|b v] H; simpl in *; try discriminate; constructor.
  - ring.
  - apply IH; lia.
Qed.

Lemma vsub_vadd_cancel_l u v : length u = length v -> veq (vsub (vadd v u) v) u.
Proof.
  revert v; induction u as [|a u IH]; intros [|b v] H; simpl in *; try discriminate; constructor.
  - ring.
  - apply IH; lia.
Qed.

Lemma nthQ_vscale f v i : nthQ (vscale f v) i == f * nthQ v i.
Proof.
  unfold nthQ, vscale. revert i; induction v as [|a v IH]; intros [|i]; simpl; try ring.
  apply IH.
Qed.

(* ---------- helpers: maxima ---------- *)
Lemma Qmax_scale f a b : 0 <= f -> Qmax (f * a) (f * b) == f * Qmax a b.
Proof.
  intros Hf. destruct (Qlt_le_dec a b) as [Hab|Hab].
  - assert (H1 : a <= b) by lra. assert (H2 : f * a <= f * b) by nra.
    rewrite (Q.max_r _ _ H1), (Q.max_r _ _ H2). reflexivity.
  - assert (H2 : f * b <= f * a) by nra.
    rewrite (Q.max_l _ _ Hab), (Q.max_l _ _ H2). reflexivity.
Qed.

Lemma Qmax_eq a a' b b' : a == a' -> b == b' -> Qmax a b == Qmax a' b'.
Proof. intros Ha Hb. rewrite Ha, Hb. reflexivity. Qed.

Lemma vmaxl_compat u v : veq u v -> forall a b, a == b -> vmaxl u a == vmaxl v b.
Proof.
  intros H; induction H as [|x y u v Hxy Huv IH]; intros a b Hab; simpl; [exact Hab|].
  apply IH. apply Qmax_eq; assumption.
Qed.

Global Instance vmax_Proper : Proper (veq ==> Qeq) vmax.
Proof.
  intros u v H. destruct H as [|x y u v Hxy Huv]; simpl; [reflexivity|].
  apply vmaxl_compat; assumption.
Qed.

Lemma vmaxl_vscale f v : 0 <= f -> forall acc, vmaxl (vscale f v) (f * acc) == f * vmaxl v acc.
Proof.
  intros Hf. induction v as [|a v IH]; intros acc; cbn [vscale map vmaxl]; [reflexivity|].
  fold (vscale f v). rewrite <- IH.
  apply vmaxl_compat; [reflexivity|]. apply Qmax_scale; assumption.
Qed.

Lemma vmax_vscale0 f v : 0 <= f -> vmax (vscale f v) == f * vmax v.
Proof.
  intros Hf. destruct v as [|a v]; cbn [vscale map vmax]; [ring|].
  fold (vscale f v). apply vmaxl_vscale; assumption.
Qed.

Lemma concat_veq (A B : mat) : Forall2 veq A B -> veq (concat A) (concat B).
Proof.
  intros H; induction H as [|x y A B Hxy HAB IH]; simpl; [constructor|].
  apply Forall2_app; assumption.
Qed.

Lemma concat_vscale f (M : mat) : concat (map (vscale f) M) = vscale f (concat M).
Proof. unfold vscale. symmetry. apply concat_map. Qed.

(* ---------- intensity (L1) scaling ---------- *)
(* one common factor for every sample and receptor: out - base' == f * (B - base') *)
Definition l1_factor (A' : mat) (base' ub : vec) (B : mat) : Q := amax A' ub / mmaxall (map (fun r => vsub r base') B).
Theorem l1_common_factor A' base' ub B i : (i < length B)%nat -> length (nthV B i) = length base' ->
  veq (vsub (nthV (l1_scaling A' base' ub B) i) base') (vscale (l1_factor A' base' ub B) (vsub (nthV B i) base')).
Proof.
  intros Hi HL. unfold l1_scaling, l1_factor. cbv zeta. rewrite map_map.
  rewrite (nthV_map _ B i Hi).
  apply vsub_vadd_cancel. rewrite len_vscale, len_vsub; auto.
Qed.

(* hence capture ratios (chromaticity of the light-induced part) are unchanged *)
Theorem l1_keeps_ratios A' base' ub B i j k : (i < length B)%nat -> length (nthV B i) = length base' ->
  nthQ (vsub (nthV (l1_scaling A' base' ub B) i) base') j * nthQ (vsub (nthV B i) base') k ==
  nthQ (vsub (nthV (l1_scaling A' base' ub B) i) base') k * nthQ (vsub (nthV B i) base') j.
Proof.
  intros Hi HL. pose proof (l1_common_factor A' base' ub B i Hi HL) as H.
  rewrite (Forall2_nth_Q _ _ j H), (Forall2_nth_Q _ _ k H), !nthQ_vscale. ring.
Qed.

(* maximum of a non-empty vector scales with a non-negative factor *)
Lemma vmax_vscale f v : 0 <= f -> v <> [] -> vmax (vscale f v) == f * vmax v.
Proof. intros Hf _. apply vmax_vscale0; assumption. Qed.

Lemma l1_rows_back f base' (B : mat) : Forall (fun r => length r = length base') B ->
  Forall2 veq (map (fun r => vsub r base') (map (fun r => vadd (vscale f r) base') (map (fun r => vsub r base') B)))
              (map (vscale f) (map (fun r => vsub r base') B)).
Proof.
  intros H; induction H as [|r B Hr HB IH]; simpl; constructor; [|exact IH].
  apply vsub_vadd_cancel. rewrite len_vscale, len_vsub; auto.
Qed.

(* the largest light-induced capture becomes amax (the smallest single-source maximum) *)
Theorem l1_max_is_amax A' base' ub B : B <> [] -> Forall (fun r => length r = length base') B -> base' <> [] ->
  0 < mmaxall (map (fun r => vsub r base') B) -> 0 <= amax A' ub ->
  mmaxall (map (fun r => vsub r base') (l1_scaling A' base' ub B)) == amax A' ub.
Proof.
  intros _ HB _ Hm Ha. unfold l1_scaling. cbv zeta.
  set (am := amax A' ub) in *.
  assert (Hf : 0 <= am / mmaxall (map (fun r => vsub r base') B)) by (apply Qle_shift_div_l; [exact Hm | lra]).
  unfold mmaxall at 1.
  rewrite (concat_veq _ _ (l1_rows_back _ base' B HB)).
  rewrite concat_vscale, (vmax_vscale0 _ _ Hf).
  fold (mmaxall (map (fun r => vsub r base') B)).
  set (m := mmaxall (map (fun r => vsub r base') B)) in *. field. lra.
Qed.

(* ---------- chromatic (distance) scaling ---------- *)
Lemma len_hat b : length (hat b) = length b.
Proof. unfold hat. apply len_vscale. Qed.

Lemma sumQ_hat b : ~ sumQ b == 0 -> sumQ (hat b) == 1.
Proof. intros H. unfold hat. rewrite sumQ_vscale. field. exact H. Qed.

Lemma dist_point_sum nhat alpha b : sumQ nhat == 1 -> ~ sumQ b == 0 -> length nhat = length b ->
  sumQ (dist_point nhat alpha b) == 1.
Proof.
  intros Hn Hb HL. unfold dist_point.
  rewrite sumQ_vadd by (rewrite len_vscale, len_vsub; rewrite len_hat; auto).
  rewrite sumQ_vscale, sumQ_vsub by (rewrite len_hat; auto).
  rewrite (sumQ_hat b Hb), Hn. ring.
Qed.

Lemma vscale_inv_cancel c s p : c * s == 1 -> veq (vscale c (vscale s p)) p.
Proof.
  intros H. induction p as [|a p IH]; simpl; constructor; [|exact IH].
  rewrite Qmult_assoc, H. ring.
Qed.

Lemma hat_vscale s p : sumQ p == 1 -> ~ s == 0 -> veq (hat (vscale s p)) p.
Proof.
  intros Hp Hs. unfold hat. apply vscale_inv_cancel.
  rewrite sumQ_vscale, Hp. field. exact Hs.
Qed.

Theorem dist_zero_row nhat alpha b : is_zero_row b = true -> dist_row nhat alpha b = b.
Proof. intros H. unfold dist_row. rewrite H. reflexivity. Qed.

(* total capture kept *)
Theorem dist_keeps_total nhat alpha b : sumQ nhat == 1 -> ~ sumQ b == 0 -> length nhat = length b ->
  is_zero_row b = false -> sumQ (dist_row nhat alpha b) == sumQ b.
Proof.
  intros Hn Hb HL Hz. unfold dist_row. rewrite Hz.
  rewrite sumQ_vscale, (dist_point_sum nhat alpha b Hn Hb HL). ring.
Qed.

(* hue direction from the neutral point kept, saturation contracted by alpha *)
Theorem dist_keeps_hue nhat alpha b : sumQ nhat == 1 -> ~ sumQ b == 0 -> length nhat = length b ->
  is_zero_row b = false -> veq (vsub (hat (dist_row nhat alpha b)) nhat) (vscale alpha (vsub (hat b) nhat)).
Proof.
  intros Hn Hb HL Hz. unfold dist_row. rewrite Hz.
  rewrite (hat_vscale (sumQ b) _ (dist_point_sum nhat alpha b Hn Hb HL) Hb).
  unfold dist_point. apply vsub_vadd_cancel_l.
  rewrite len_vscale, len_vsub; rewrite len_hat; auto.
Qed.

Lemma dist_one_aux s : ~ s == 0 -> forall nhat b : vec, length nhat = length b ->
  veq (vscale s (vadd nhat (vscale 1 (vsub (vscale (/ s) b) nhat)))) b.
Proof.
  intros Hs. induction nhat as [|n nhat IH]; intros [|a b] HL; simpl in *; try discriminate; constructor.
  - field. exact Hs.
  - apply IH. lia.
Qed.

(* alpha = 1 is the identity *)
Theorem dist_identity_at_one nhat b : ~ sumQ b == 0 -> length nhat = length b -> is_zero_row b = false ->
  veq (dist_row nhat 1 b) b.
Proof.
  intros Hb HL Hz. unfold dist_row. rewrite Hz. unfold dist_point, hat.
  apply dist_one_aux; assumption.
Qed.
