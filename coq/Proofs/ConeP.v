(* Proofs/ConeP.v — unbounded sources (ub = inf): the gamut is the cone with apex at the capture of the lower bounds that
   in_hull_from_A tests (corner images of the box [lb, lb+1] minus the apex, non-negative combinations). *)
From Coq Require Import QArith Qabs List Bool Arith Lia Lqa Setoid Morphisms.
From DV Require Import Base.QVec Run.Verdict Model.Linear Cert.Hull Proofs.ZonoP.
Import ListNotations.
Open Scope Q_scope.

Definition nones (n : nat) : list (option Q) := repeat None n.

(* ---------- auxiliary lemmas ---------- *)
Definition nonneg (v : vec) : Prop := Forall (fun a => 0 <= a) v.

Lemma vsub_vadd_cancel u : forall v b, length u = length b -> length v = length b ->
  veq (vsub (vadd u b) (vadd v b)) (vsub u v).
Proof.
  induction u as [|a u IH]; intros [|c v] [|d b] Hu Hv; cbn [length] in Hu, Hv; try discriminate;
    cbn [vadd vsub]; constructor.
  - ring.
  - apply IH; lia.
Qed.

Lemma matvec_vzero A' n : veq (matvec A' (vzero n)) (vzero (length A')).
Proof.
  induction A' as [|r A' IH]; cbn [matvec map length vzero repeat]; constructor.
  - apply dot_vzero_r.
  - apply IH.
Qed.

Lemma rect_vsub n lb X : Forall (fun x : vec => length x = n) X -> length lb = n ->
  rect n (map (fun c => vsub c lb) X).
Proof.
  intros HX Hl. unfold rect. induction HX as [|x X Hx HX IH]; cbn [map]; constructor; auto.
  rewrite len_vsub; lia.
Qed.

Lemma link A' base' lb n mu : forall X, rect n A' -> length base' = length A' -> length lb = n ->
  Forall (fun x : vec => length x = n) X ->
  veq (comb mu (map (fun p => vsub p (predict A' base' lb)) (map (predict A' base') X)) (length A'))
      (matvec A' (comb mu (map (fun c => vsub c lb) X) n)).
Proof.
  induction mu as [|l mu IH]; intros [|x X] HA Hb Hl HX; cbn [map comb];
    try (symmetry; apply matvec_vzero).
  pose proof (Forall_inv HX) as Hx. pose proof (Forall_inv_tail HX) as HX'. cbn beta in Hx.
  rewrite matvec_vadd.
  - rewrite matvec_vscale, matvec_vsub by lia.
    rewrite (IH X HA Hb Hl HX').
    apply vadd_Proper; [|reflexivity]. apply vscale_Proper; [reflexivity|].
    unfold predict. apply vsub_vadd_cancel; rewrite len_matvec; lia.
  - rewrite len_vscale, len_vsub by lia. rewrite len_comb; [exact Hx|].
    apply rect_vsub; auto.
Qed.

Lemma vadd_vzero_r m v : length v = m -> veq (vadd v (vzero m)) v.
Proof.
  revert v; induction m as [|m IH]; intros [|b v] H; cbn [length] in H; try discriminate;
    cbn [vzero repeat vadd]; constructor; [ring | apply IH; lia].
Qed.

Lemma nonneg_vzero m : nonneg (vzero m).
Proof. unfold nonneg. induction m; cbn [vzero repeat]; constructor; [lra | assumption]. Qed.

Lemma cone_gen lb : forall t s, length t = length lb -> nonneg t -> sumQ t <= s ->
  exists mu, length mu = length (corners lb (vshift 1 lb)) /\ nonneg mu /\ sumQ mu == s /\
    veq (comb mu (map (fun c => vsub c lb) (corners lb (vshift 1 lb))) (length lb)) t.
Proof.
  induction lb as [|l lb IH]; intros [|a t] s HL HN Hs; cbn [length] in HL; try discriminate.
  - cbn [sumQ] in Hs. exists [s]. cbn [vshift map corners length comb vscale vadd sumQ vsub].
    split; [reflexivity|]. split; [constructor; [exact Hs | constructor]|]. split; [ring | constructor].
  - inversion HN as [|a0 t0 Ha HN']; subst. cbn [sumQ] in Hs.
    assert (Hst : 0 <= sumQ t) by (apply sumQ_nonneg; exact HN').
    destruct (IH t (s - a) ltac:(lia) HN' ltac:(lra)) as (mu1 & HL1 & HN1 & Hs1 & HC1).
    destruct (IH (vzero (length lb)) a ltac:(rewrite len_vzero; reflexivity) (nonneg_vzero _)
                 ltac:(rewrite sumQ_vzero; exact Ha)) as (mu2 & HL2 & HN2 & Hs2 & HC2).
    exists (mu1 ++ mu2). cbn [vshift map corners length]. fold (vshift 1 lb).
    set (C := corners lb (vshift 1 lb)) in *.
    assert (HR : rect (length lb) (map (fun c => vsub c lb) C)).
    { apply rect_vsub; [|reflexivity]. apply corners_rect. rewrite len_vshift; reflexivity. }
    split; [|split; [|split]].
    + rewrite !app_length, !map_length, HL1, HL2. reflexivity.
    + apply Forall_app; split; assumption.
    + rewrite sumQ_app, Hs1, Hs2. ring.
    + rewrite map_app, !map_map. cbn [vsub].
      rewrite <- (map_map (fun c => vsub c lb) (cons (l - l))).
      rewrite <- (map_map (fun c => vsub c lb) (cons (1 + l - l))).
      rewrite comb_app.
      * rewrite !comb_cons by (rewrite map_length; assumption).
        cbn [vadd]. constructor.
        -- rewrite Hs1, Hs2. ring.
        -- rewrite HC1, HC2. apply vadd_vzero_r. lia.
      * rewrite !map_length. assumption.
      * unfold rect in *. apply Forall_forall; intros c Hc; apply in_map_iff in Hc.
        destruct Hc as (c' & <- & Hc'). cbn [length]. f_equal. revert c' Hc'. apply Forall_forall. exact HR.
Qed.

Lemma nonneg_vadd u : forall v, nonneg u -> nonneg v -> nonneg (vadd u v).
Proof.
  unfold nonneg. induction u as [|a u IH]; intros [|b v] Hu Hv; cbn [vadd]; try constructor.
  - inversion Hu; inversion Hv; subst. lra.
  - inversion Hu; inversion Hv; subst. apply IH; assumption.
Qed.

Lemma comb_nonneg mu : forall P m, Forall nonneg P -> nonneg mu -> nonneg (comb mu P m).
Proof.
  induction mu as [|l mu IH]; intros [|p P] m HP HN; cbn [comb]; try apply nonneg_vzero.
  inversion HP; inversion HN; subst. apply nonneg_vadd.
  - apply vscale_nonneg; assumption.
  - apply IH; assumption.
Qed.

Lemma corners_diff_nonneg lb : forall c, In c (corners lb (vshift 1 lb)) -> nonneg (vsub c lb).
Proof.
  unfold nonneg. induction lb as [|l lb IH]; intros c Hc; cbn [vshift map corners] in Hc.
  - destruct Hc as [<-|[]]. constructor.
  - apply in_app_or in Hc. destruct Hc as [Hc|Hc]; apply in_map_iff in Hc; destruct Hc as (c' & <- & Hc');
      cbn [vsub]; constructor; try lra; apply IH; exact Hc'.
Qed.

Lemma in_boxo_vadd lb : forall d, length d = length lb -> nonneg d ->
  in_boxo (vadd lb d) (somes lb) (nones (length lb)).
Proof.
  unfold nonneg, somes, nones. induction lb as [|l lb IH]; intros [|a d] HL HN; cbn [length] in HL; try discriminate;
    cbn [vadd map length repeat in_boxo].
  - exact I.
  - inversion HN; subst. split; [lra | split; [exact I | apply IH; [lia | assumption]]].
Qed.

Lemma in_boxo_diff x : forall lb n, in_boxo x (somes lb) (nones n) ->
  nonneg (vsub x lb) /\ length x = length lb.
Proof.
  unfold nonneg, somes, nones. induction x as [|a x IH]; intros [|l lb] [|n]; cbn [map repeat in_boxo vsub length];
    try tauto.
  - intros _. split; [constructor | reflexivity].
  - intros (H1 & _ & H3). destruct (IH lb n H3) as [H4 H5]. split; [constructor; [lra | exact H4] | lia].
Qed.

Lemma recombine u : forall b base, length b = length u -> length base = length u ->
  veq (vadd (vadd u (vsub b (vadd u base))) base) b.
Proof.
  induction u as [|a u IH]; intros [|c b] [|d base] Hb Hc; cbn [length] in Hb, Hc; try discriminate;
    cbn [vadd vsub]; constructor.
  - ring.
  - apply IH; lia.
Qed.

Theorem unbounded_is_cone : forall A' base' lb b n,
  rect n A' -> length base' = length A' -> length lb = n -> length b = length A' ->
  (reproducible A' base' (somes lb) (nones n) b <->
   in_cone (map (fun p => vsub p (predict A' base' lb)) (get_P A' base' lb (vshift 1 lb))) (length A') (vsub b (predict A' base' lb))).
Proof.
  intros A' base' lb b n HA Hb Hlb Hlen. unfold reproducible, in_cone, get_P.
  set (C := corners lb (vshift 1 lb)).
  assert (HX : Forall (fun x : vec => length x = n) C).
  { subst n. apply corners_rect. rewrite len_vshift; reflexivity. }
  split.
  - intros (x & HB & HP). destruct (in_boxo_diff x lb n HB) as [HN Hlx].
    destruct (cone_gen lb (vsub x lb) (sumQ (vsub x lb)) ltac:(rewrite len_vsub; lia) HN ltac:(lra))
      as (mu & HL & HNmu & _ & HC).
    exists mu. split; [rewrite !map_length; exact HL|]. split; [exact HNmu|].
    rewrite (link A' base' lb n mu C HA Hb Hlb HX). fold C in HC. rewrite Hlb in HC. rewrite HC.
    rewrite matvec_vsub by lia. rewrite <- HP. unfold predict. symmetry.
    apply vsub_vadd_cancel; rewrite len_matvec; lia.
  - intros (mu & HL & HN & HC). rewrite (link A' base' lb n mu C HA Hb Hlb HX) in HC.
    set (d := comb mu (map (fun c => vsub c lb) C) n) in *.
    assert (Hd : length d = n) by (apply len_comb; apply rect_vsub; auto).
    exists (vadd lb d). split.
    + rewrite <- Hlb. apply in_boxo_vadd; [lia|].
      apply comb_nonneg; [|exact HN]. apply Forall_forall. intros p Hp. apply in_map_iff in Hp.
      destruct Hp as (c & <- & Hc). apply corners_diff_nonneg. exact Hc.
    + unfold predict in *. rewrite matvec_vadd by lia. rewrite HC.
      apply recombine; rewrite len_matvec; lia.
Qed.
