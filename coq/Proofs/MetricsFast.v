(* the reduced-fraction executable twin used by the verdict equals the specification model *)
From Coq Require Import QArith Qabs Qminmax List Bool Arith Lia Lqa Setoid Morphisms.
From DV Require Import Base.QVec Run.Verdict Model.Bary Model.Range Model.Sampling Model.Scaling Model.Metrics Proofs.ScalingP Proofs.MetricsP.
Import ListNotations.
Open Scope Q_scope.

Lemma sumQr_eq v : sumQr v == sumQ v.
Proof. induction v as [|a v IH]; cbn [sumQr sumQ]; [reflexivity|]. rewrite (Qred_correct (a + sumQr v)), IH. reflexivity. Qed.
Lemma vred_veq v : veq (vred v) v.
Proof. unfold vred. induction v; simpl; constructor; auto. apply Qred_correct. Qed.
Lemma map_opp_veq u v : veq u v -> veq (map Qopp u) (map Qopp v).
Proof. induction 1; simpl; constructor; auto. rewrite H. reflexivity. Qed.
Lemma width_dir_fast_eq X u : width_dir_fast X u == width_dir X u.
Proof.
  unfold width_dir_fast, width_dir. pose proof (vred_veq (proj X u)) as E.
  rewrite (Proofs.ScalingP.vmax_Proper _ _ E). rewrite (Proofs.ScalingP.vmax_Proper _ _ (map_opp_veq _ _ E)). reflexivity.
Qed.
Lemma mean_width_U_fast_eq X U : mean_width_U_fast X U == mean_width_U X U.
Proof.
  unfold mean_width_U_fast, mean_width_U. apply Qmult_comp; [|reflexivity].
  rewrite sumQr_eq. induction U as [|u U IH]; cbn [map sumQ]; [reflexivity|]. rewrite (Qred_correct (width_dir_fast X u)), width_dir_fast_eq, IH. reflexivity.
Qed.
Lemma mred_meq X : meq (mred X) X.
Proof. unfold mred. induction X; simpl; constructor; auto. apply vred_veq. Qed.
Lemma mean_width_fast_eq X m cf U : mean_width_fast X m cf U == mean_width X m cf U.
Proof.
  unfold mean_width_fast, mean_width. rewrite mean_width_U_fast_eq. apply mean_width_U_meq. apply mred_meq.
Qed.
Lemma gamut_width_fast_eq A n ctn cf U X : gamut_width_fast A n ctn cf U X == gamut_width A n ctn cf U X.
Proof.
  unfold gamut_width_fast, gamut_width. rewrite mean_width_fast_eq. apply mean_width_meq. apply mred_meq.
Qed.
Theorem model_fast_eq c : model_fast c == model c.
Proof.
  unfold model_fast, model. destruct (c_kind c) as [|[|k]].
  - apply mean_width_fast_eq.
  - destruct (c_rel c) as [R|]; rewrite ?gamut_width_fast_eq; reflexivity.
  - reflexivity.
Qed.
