(* Proofs/SamplingP.v — samples are convex combinations of gamut points, hence in the gamut (C13).
   All statements proved as stated; closed under the global context. *)
From Coq Require Import QArith Qabs Qminmax List Bool Arith Lia Lqa Setoid Morphisms.
From DV Require Import Base.QVec Run.Verdict Model.Linear Cert.Hull Model.Range Model.Sampling Proofs.ZonoP.
Import ListNotations.
Open Scope Q_scope.

(* ---------- helpers ---------- *)
(* comb respects pointwise equality of its point list *)
Lemma comb_veq w : forall P P' m, Forall2 veq P P' -> veq (comb w P m) (comb w P' m).
Proof.
  induction w as [|a w IH]; intros P P' m H; destruct H as [|p p' P P' Hp HP]; cbn [comb]; try reflexivity.
  apply vadd_Proper.
  - apply vscale_Proper; [reflexivity | exact Hp].
  - apply IH; exact HP.
Qed.

(* constructive extraction of a list of witnesses from a Forall-exists *)
Lemma witnesses A' base' lb ub (S : mat) :
  Forall (fun v => exists x, in_box x lb ub /\ veq (predict A' base' x) v) S ->
  exists X : mat, Forall (fun x => in_box x lb ub) X /\ length X = length S /\
                  Forall2 veq (map (predict A' base') X) S.
Proof.
  intros H. induction H as [|v S Hv HS IH].
  - exists []. split; [constructor | split; [reflexivity | constructor]].
  - destruct Hv as (x & Hx & Hp). destruct IH as (X & HX & HL & HF).
    exists (x :: X). split; [constructor; assumption|]. split.
    + cbn [length]. rewrite HL. reflexivity.
    + cbn [map]. constructor; assumption.
Qed.

(* a convex combination of captures that are reproducible by in-bound intensities is reproducible *)
Theorem reproducible_convex A' base' lb ub n (S : mat) (w : vec) :
  rect n A' -> length base' = length A' -> length lb = n -> length ub = n -> Forall2 Qle lb ub ->
  Forall (fun v => exists x, in_box x lb ub /\ veq (predict A' base' x) v) S ->
  length w = length S -> Forall (fun a => 0 <= a) w -> sumQ w == 1 ->
  reproducible A' base' (somes lb) (somes ub) (sample_of (length A') S w).
Proof.
  intros HA Hb Hlb Hub Hle HS HL HN Hsum. subst n.
  destruct (witnesses A' base' lb ub S HS) as (X & HX & HLX & HF).
  assert (HLw : length w = length X) by (rewrite HLX; exact HL).
  assert (HXn : Forall (fun x => length x = length lb) X).
  { apply Forall_forall. intros x Hx. rewrite Forall_forall in HX.
    destruct (in_box_len _ _ _ (HX x Hx)) as [H1 _]. exact H1. }
  unfold reproducible, sample_of.
  exists (comb w X (length lb)). split.
  - apply in_boxo_somes. apply comb_in_box; auto.
  - rewrite <- (predict_comb A' base' w X (length lb) HA Hb HXn HLw Hsum).
    apply comb_veq. exact HF.
Qed.

(* every vertex handed to the sampler by the estimator is the image of a corner of the intensity box *)
Theorem corner_images_reproducible A' base' lb ub v : Forall2 Qle lb ub ->
  In v (get_P A' base' lb ub) -> exists x, in_box x lb ub /\ veq (predict A' base' x) v.
Proof.
  intros Hle Hv. unfold get_P in Hv. apply in_map_iff in Hv. destruct Hv as (c & Hc & Hin).
  exists c. split.
  - apply corners_in_box; assumption.
  - rewrite Hc. reflexivity.
Qed.

(* hence: a sample built from valid barycentric weights on a simplex whose vertices are rows of the
   estimator's point cloud P = get_P is in the gamut *)
Theorem sample_in_gamut A' base' lb ub n (S : mat) (w : vec) :
  rect n A' -> length base' = length A' -> length lb = n -> length ub = n -> Forall2 Qle lb ub ->
  Forall (fun v => In v (get_P A' base' lb ub)) S ->
  length w = length S -> Forall (fun a => 0 <= a) w -> sumQ w == 1 ->
  reproducible A' base' (somes lb) (somes ub) (sample_of (length A') S w).
Proof.
  intros HA Hb Hlb Hub Hle HS HL HN Hsum.
  apply (reproducible_convex A' base' lb ub n S w); auto.
  eapply Forall_impl; [|exact HS].
  intros v Hv. apply corner_images_reproducible; assumption.
Qed.

(* the sample is, by construction, a convex combination of the simplex vertices *)
Theorem sample_in_simplex_hull m (S : mat) (w : vec) :
  length w = length S -> Forall (fun a => 0 <= a) w -> sumQ w == 1 -> in_conv S m (sample_of m S w).
Proof.
  intros HL HN Hsum. unfold in_conv, sample_of. exists w.
  split; [exact HL|]. split; [exact HN|]. split; [exact Hsum | reflexivity].
Qed.

(* a vector of barycentric weights summing to 1, scaled by L1, has total L1 (L1 variant) *)
Theorem l1_variant_total (L : Q) (y : vec) : sumQ y == 1 -> sumQ (vscale L y) == L.
Proof. intros H. rewrite sumQ_vscale, H. ring. Qed.
