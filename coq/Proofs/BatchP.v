(* Proofs/BatchP.v — lemmas about Model/Batch.v (C05).  Everything proved and closed with Qed. *)
From Coq Require Import QArith List Bool Arith Lia Lqa Setoid Morphisms.
From DV Require Import Base.QVec Run.Verdict Model.Linear Cert.Duality Model.Batch.
Import ListNotations.
Open Scope Q_scope.

(* ================= helpers: nat / seq ================= *)
Lemma divmod_facts n bs : (1 <= bs)%nat -> (n = n / bs * bs + n mod bs /\ n mod bs < bs)%nat.
Proof.
  intros Hbs. pose proof (Nat.div_mod n bs) as H1. pose proof (Nat.mod_upper_bound n bs) as H2. lia.
Qed.

Lemma concat_singletons (l : list nat) : concat (map (fun i => [i]) l) = l.
Proof. induction l as [|a l IH]; simpl; congruence. Qed.

Lemma concat_seq_blocks bs k : concat (map (fun i => seq (i * bs) bs) (seq 0 k)) = seq 0 (k * bs).
Proof.
  induction k as [|k IH].
  - reflexivity.
  - rewrite seq_S, map_app, concat_app, IH. cbn [map concat]. rewrite app_nil_r.
    replace (S k * bs)%nat with (k * bs + bs)%nat by lia. rewrite seq_app. reflexivity.
Qed.

Definition fullb (bs i : nat) : batch := {| bidx := i; rows := seq (i * bs) bs; padcount := 0 |}.
Definition lastb (n bs : nat) : batch :=
  {| bidx := (n / bs)%nat; rows := seq (n - n mod bs) (n mod bs); padcount := (bs - n mod bs)%nat |}.

Lemma plan_cases n bs : (1 <= bs)%nat ->
  plan n bs = map (fullb bs) (seq 0 (n / bs)) ++ (if Nat.eqb (n mod bs) 0 then [] else [lastb n bs]).
Proof.
  intros Hbs. unfold plan. destruct (Nat.eqb_spec bs 1) as [E|NE].
  - subst bs. rewrite Nat.div_1_r, Nat.mod_1_r. cbn [Nat.eqb]. rewrite app_nil_r.
    apply map_ext. intros i. unfold fullb. rewrite Nat.mul_1_r. reflexivity.
  - cbv zeta. destruct (Nat.eqb (n mod bs) 0).
    + rewrite app_nil_r. reflexivity.
    + reflexivity.
Qed.

Lemma map_rows_fullb bs l : map rows (map (fullb bs) l) = map (fun i => seq (i * bs) bs) l.
Proof. rewrite map_map. reflexivity. Qed.
Lemma map_bidx_fullb bs l : map bidx (map (fullb bs) l) = l.
Proof. rewrite map_map. cbn [bidx fullb]. apply map_id. Qed.

(* ---- 1. the plan partitions the rows 0..n-1, in order ---- *)
Lemma plan_partitions n bs : (1 <= bs)%nat -> concat (map rows (plan n bs)) = seq 0 n.
Proof.
  intros Hbs. rewrite (plan_cases n bs Hbs). destruct (divmod_facts n bs Hbs) as [Hd Hm].
  rewrite map_app, concat_app, map_rows_fullb, concat_seq_blocks.
  destruct (Nat.eqb_spec (n mod bs) 0) as [E|NE].
  - cbn [map concat]. rewrite app_nil_r. f_equal. lia.
  - cbn [map concat rows lastb]. rewrite app_nil_r.
    replace (n - n mod bs)%nat with (0 + n / bs * bs)%nat by lia.
    rewrite <- seq_app. f_equal. lia.
Qed.

Lemma plan_indices n bs : (1 <= bs)%nat -> map bidx (plan n bs) = seq 0 (length (plan n bs)).
Proof.
  intros Hbs. rewrite (plan_cases n bs Hbs).
  rewrite map_app, map_bidx_fullb, app_length, map_length, seq_length.
  destruct (Nat.eqb (n mod bs) 0).
  - cbn [map length]. rewrite app_nil_r, Nat.add_0_r. reflexivity.
  - cbn [map length bidx lastb]. rewrite seq_app. reflexivity.
Qed.

Lemma plan_batch_sizes n bs : (1 <= bs)%nat ->
  Forall (fun b => (length (rows b) + padcount b = bs)%nat /\ (1 <= length (rows b))%nat) (plan n bs).
Proof.
  intros Hbs. rewrite (plan_cases n bs Hbs). destruct (divmod_facts n bs Hbs) as [Hd Hm].
  apply Forall_app. split.
  - apply Forall_forall. intros b Hb. apply in_map_iff in Hb. destruct Hb as [i [Hi _]]. subst b.
    cbn [rows padcount fullb]. rewrite seq_length. lia.
  - destruct (Nat.eqb_spec (n mod bs) 0) as [E|NE]; constructor; [|constructor].
    cbn [rows padcount lastb]. rewrite seq_length. lia.
Qed.

Lemma Forall_removelast {A} (P : A -> Prop) l : Forall P l -> Forall P (removelast l).
Proof.
  induction 1 as [|a l Ha Hl IH]; [constructor|]. cbn [removelast]. destruct l; [constructor|].
  constructor; assumption.
Qed.

Lemma fullb_nopad bs l : Forall (fun b => padcount b = 0%nat) (map (fullb bs) l).
Proof. apply Forall_forall. intros b Hb. apply in_map_iff in Hb. destruct Hb as [i [Hi _]]. subst b. reflexivity. Qed.

Lemma plan_only_last_padded n bs : (1 <= bs)%nat -> Forall (fun b => padcount b = 0%nat) (removelast (plan n bs)).
Proof.
  intros Hbs. rewrite (plan_cases n bs Hbs). destruct (Nat.eqb (n mod bs) 0).
  - rewrite app_nil_r. apply Forall_removelast. apply fullb_nopad.
  - rewrite removelast_last. apply fullb_nopad.
Qed.

Lemma plan_count n bs : (1 <= bs)%nat ->
  length (plan n bs) = (n / bs + (if Nat.eqb (n mod bs) 0 then 0 else 1))%nat.
Proof.
  intros Hbs. rewrite (plan_cases n bs Hbs). rewrite app_length, map_length, seq_length.
  destruct (Nat.eqb (n mod bs) 0); reflexivity.
Qed.

(* the scatter writes each solved slot back to the very row it was built from *)
Lemma written_aligned n bs : (1 <= bs)%nat -> Forall (fun b => written n bs b = rows b) (plan n bs).
Proof.
  intros Hbs. rewrite (plan_cases n bs Hbs). destruct (divmod_facts n bs Hbs) as [Hd Hm].
  apply Forall_app. split.
  - apply Forall_forall. intros b Hb. apply in_map_iff in Hb. destruct Hb as [i [Hi Hin]]. subst b.
    apply in_seq in Hin. unfold written. cbn [bidx rows fullb].
    destruct (Nat.ltb_spec n (S i * bs)) as [Hlt|Hge]; [|reflexivity].
    exfalso. pose proof (Nat.mul_le_mono_r (S i) (n / bs) bs) as Hmul. lia.
  - destruct (Nat.eqb_spec (n mod bs) 0) as [E|NE]; constructor; [|constructor].
    unfold written. cbn [bidx rows lastb].
    destruct (Nat.ltb_spec n (S (n / bs) * bs)) as [Hlt|Hge].
    + f_equal; lia.
    + exfalso. cbn [Nat.mul] in Hge. lia.
Qed.

(* every row index occurring in the plan is < n, and occurs exactly once *)
Lemma plan_rows_NoDup n bs : (1 <= bs)%nat -> NoDup (concat (map rows (plan n bs))).
Proof. intros Hbs. rewrite (plan_partitions n bs Hbs). apply seq_NoDup. Qed.

Lemma plan_rows_range n bs b i : (1 <= bs)%nat -> In b (plan n bs) -> In i (rows b) -> (i < n)%nat.
Proof.
  intros Hbs Hb Hi.
  assert (Hin : In i (concat (map rows (plan n bs)))).
  { apply in_concat. exists (rows b). split; [apply in_map; exact Hb | exact Hi]. }
  rewrite (plan_partitions n bs Hbs) in Hin. apply in_seq in Hin. lia.
Qed.

(* ================= helpers: firstn / skipn ================= *)
Lemma nthV_len m D i : rect m D -> (i < length D)%nat -> length (nthV D i) = m.
Proof.
  intros HD Hi. unfold rect in HD. rewrite Forall_forall in HD. apply HD. unfold nthV. apply nth_In. exact Hi.
Qed.

Lemma rows_len m D l : rect m D -> Forall (fun i => (i < length D)%nat) l ->
  Forall (fun v : vec => length v = m) (map (nthV D) l).
Proof.
  intros HD Hl. induction Hl as [|i l Hi Hl IH]; cbn [map]; constructor; [|exact IH].
  apply nthV_len; assumption.
Qed.

Lemma concat_len m (l : list vec) : Forall (fun v : vec => length v = m) l -> length (concat l) = (length l * m)%nat.
Proof.
  induction 1 as [|a l Ha Hl IH]; [reflexivity|]. cbn [concat length]. rewrite app_length, IH, Ha. cbn [Nat.mul]. reflexivity.
Qed.

Lemma slot_concat m (l : list vec) tl s : Forall (fun v : vec => length v = m) l -> (s < length l)%nat ->
  firstn m (skipn (s * m) (concat l ++ tl)) = nth s l [].
Proof.
  intros Hl; revert s; induction Hl as [|a l Ha Hl IH]; intros s Hs; [simpl in Hs; lia|].
  cbn [concat]. rewrite <- app_assoc. destruct s as [|s].
  - cbn [Nat.mul skipn nth]. rewrite firstn_app. rewrite firstn_all2 by lia.
    replace (m - length a)%nat with 0%nat by lia. cbn [firstn]. apply app_nil_r.
  - cbn [nth]. rewrite skipn_app. rewrite skipn_all2 by (cbn [Nat.mul]; lia).
    replace (S s * m - length a)%nat with (s * m)%nat by (cbn [Nat.mul]; lia).
    cbn [app]. apply IH. cbn [length] in Hs. lia.
Qed.

Lemma skipn_repeat {A} (x : A) k : forall N, skipn k (repeat x N) = repeat x (N - k).
Proof. induction k as [|k IH]; intros [|N]; cbn [skipn repeat Nat.sub]; try reflexivity. apply IH. Qed.

Lemma firstn_repeat_le {A} (x : A) n : forall k, (n <= k)%nat -> firstn n (repeat x k) = repeat x n.
Proof.
  induction n as [|n IH]; intros k Hk; [reflexivity|]. destruct k as [|k]; [lia|].
  cbn [firstn repeat]. f_equal. apply IH. lia.
Qed.

(* ---- 2. what is sent for slot s of a batch is row (nth s rows) of the data, padded slots are zero ---- *)
Lemma sent_length m D b : rect m D -> Forall (fun i => (i < length D)%nat) (rows b) ->
  length (sent m D b) = ((length (rows b) + padcount b) * m)%nat.
Proof.
  intros HD Hr. unfold sent. rewrite app_length, len_vzero.
  rewrite (concat_len m _ (rows_len m D _ HD Hr)). rewrite map_length. lia.
Qed.

Lemma sent_slot m D b s : rect m D -> Forall (fun i => (i < length D)%nat) (rows b) -> (s < length (rows b))%nat ->
  firstn m (skipn (s * m) (sent m D b)) = nthV D (nth s (rows b) 0%nat).
Proof.
  intros HD Hr Hs. unfold sent.
  rewrite (slot_concat m _ _ s (rows_len m D _ HD Hr)) by (rewrite map_length; exact Hs).
  rewrite (nth_indep _ [] (nthV D 0%nat)) by (rewrite map_length; exact Hs).
  apply map_nth.
Qed.

Lemma sent_pad_slot m D b s : rect m D -> Forall (fun i => (i < length D)%nat) (rows b) ->
  (length (rows b) <= s)%nat -> (s < length (rows b) + padcount b)%nat ->
  firstn m (skipn (s * m) (sent m D b)) = vzero m.
Proof.
  intros HD Hr Hs1 Hs2. unfold sent.
  pose proof (concat_len m _ (rows_len m D _ HD Hr)) as Hlen. rewrite map_length in Hlen.
  pose proof (Nat.mul_le_mono_r _ _ m Hs1) as Hmul.
  rewrite skipn_app. rewrite skipn_all2 by lia. cbn [app]. rewrite Hlen.
  rewrite <- Nat.mul_sub_distr_r. unfold vzero. rewrite skipn_repeat. rewrite <- Nat.mul_sub_distr_r.
  apply firstn_repeat_le.
  remember (padcount b - (s - length (rows b)))%nat as q eqn:Eq.
  destruct q as [|q]; [lia|]. cbn [Nat.mul]. lia.
Qed.

(* ---- 3. get_batch_size ---- *)
Lemma get_batch_size_full n : get_batch_size BFull n = Ok n.
Proof. reflexivity. Qed.
Lemma get_batch_size_none n : get_batch_size BNone n = Ok 1%nat.
Proof. reflexivity. Qed.
Lemma get_batch_size_int n k : get_batch_size (BInt k) n = Ok k.
Proof. reflexivity. Qed.

(* ================= helpers: dot / sq over appends ================= *)
Lemma dot_app u u' v v' : length u = length v -> dot (u ++ u') (v ++ v') == dot u v + dot u' v'.
Proof.
  revert v; induction u as [|a u IH]; intros [|b v] H; simpl in *; try discriminate; [ring|].
  rewrite IH by lia. ring.
Qed.

Lemma dot_block a b r pre x post : length pre = a -> length r = length x ->
  dot (vzero a ++ r ++ vzero b) (pre ++ x ++ post) == dot r x.
Proof.
  intros Ha Hr. rewrite dot_app by (rewrite len_vzero; lia). rewrite dot_app by exact Hr.
  rewrite !dot_vzero_l. ring.
Qed.

Lemma matvec_app A B x : matvec (A ++ B) x = matvec A x ++ matvec B x.
Proof. unfold matvec. apply map_app. Qed.

Lemma block_rows_matvec M ncol a b pre x post : rect ncol M -> length x = ncol -> length pre = (a * ncol)%nat ->
  veq (matvec (block_rows M ncol a b) (pre ++ x ++ post)) (matvec M x).
Proof.
  intros HM Hx Hp. induction HM as [|r M Hr HM IH]; cbn [block_rows matvec map]; constructor.
  - apply dot_block; [exact Hp | lia].
  - exact IH.
Qed.

Lemma bdiag_from_matvec ncol Ms : forall i total pre xs,
  Forall (rect ncol) Ms -> Forall (fun x : vec => length x = ncol) xs -> length xs = length Ms ->
  Forall (fun x : vec => length x = ncol) pre -> length pre = i -> total = (i + length Ms)%nat ->
  veq (matvec (bdiag_from Ms ncol i total) (concat pre ++ concat xs)) (concat (map2 matvec Ms xs)).
Proof.
  induction Ms as [|M Ms IH]; intros i total pre xs HM Hxs Hl Hpre Hi Ht.
  - cbn. constructor.
  - destruct xs as [|x xs]; [discriminate|]. cbn [length] in Hl, Ht.
    inversion HM as [|M' Ms' HM1 HM2]; subst M' Ms'. inversion Hxs as [|x' xs' Hx1 Hx2]; subst x' xs'.
    cbn [bdiag_from map2 concat]. rewrite matvec_app. apply Forall2_app.
    + apply block_rows_matvec; [exact HM1 | exact Hx1 |]. rewrite (concat_len ncol pre Hpre). lia.
    + replace (concat pre ++ x ++ concat xs) with (concat (pre ++ [x]) ++ concat xs).
      * apply IH; try assumption.
        -- lia.
        -- apply Forall_app. split; [exact Hpre | constructor; [exact Hx1 | constructor]].
        -- rewrite app_length. cbn [length]. lia.
        -- lia.
      * rewrite concat_app. cbn [concat]. rewrite app_nil_r, <- app_assoc. reflexivity.
Qed.

(* ---- 4. block-diagonal stacking decouples the samples ---- *)
(* all blocks have ncol columns; xs are the per-slot variable vectors *)
Lemma bdiag_matvec Ms xs ncol : Forall (rect ncol) Ms -> Forall (fun x => length x = ncol) xs -> length xs = length Ms ->
  veq (matvec (bdiag Ms ncol) (concat xs)) (concat (map2 matvec Ms xs)).
Proof.
  intros HM Hxs Hl. unfold bdiag.
  apply (bdiag_from_matvec ncol Ms 0%nat (length Ms) [] xs); auto.
Qed.

Lemma sq_app u v : sq (u ++ v) == sq u + sq v.
Proof. unfold sq. apply dot_app. reflexivity. Qed.

Lemma sq_concat vs : sq (concat vs) == sumQ (map sq vs).
Proof.
  induction vs as [|v vs IH]; [reflexivity|]. cbn [concat map sumQ]. rewrite sq_app, IH. reflexivity.
Qed.

(* stacked least-squares objective = sum of the per-slot objectives *)
Fixpoint sum3 (f : mat -> vec -> vec -> Q) (Ms : list mat) (es xs : list vec) : Q :=
  match Ms, es, xs with M :: Ms', e :: es', x :: xs' => f M e x + sum3 f Ms' es' xs' | _, _, _ => 0 end.

Lemma vsub_app a A e E : length a = length e -> vsub (a ++ A) (e ++ E) = vsub a e ++ vsub A E.
Proof.
  revert e; induction a as [|p a IH]; intros [|q e] H; simpl in H; try discriminate; [reflexivity|].
  cbn [app vsub]. rewrite IH by lia. reflexivity.
Qed.

Lemma sq_stack Ms es : Forall2 (fun (M : mat) (e : vec) => length e = length M) Ms es ->
  forall xs, length xs = length Ms ->
  sq (vsub (concat (map2 matvec Ms xs)) (concat es)) == sum3 obj_ls Ms es xs.
Proof.
  induction 1 as [|M e Ms es He HF IH]; intros xs Hxs.
  - destruct xs; reflexivity.
  - destruct xs as [|x xs]; [discriminate|]. cbn [map2 concat sum3].
    rewrite vsub_app by (rewrite len_matvec; lia). rewrite sq_app.
    rewrite IH by (cbn [length] in Hxs; lia). unfold obj_ls. reflexivity.
Qed.

Lemma stacked_objective_separable Ms es xs ncol :
  Forall (rect ncol) Ms -> Forall (fun x => length x = ncol) xs -> length xs = length Ms -> length es = length Ms ->
  Forall2 (fun M e => length e = length M) Ms es ->
  obj_ls (bdiag Ms ncol) (concat es) (concat xs) == sum3 obj_ls Ms es xs.
Proof.
  intros HM Hxs Hl Hle HF. unfold obj_ls at 1.
  rewrite (bdiag_matvec Ms xs ncol HM Hxs Hl). apply sq_stack; assumption.
Qed.

Lemma vscale_vzero t k : veq (vscale t (vzero k)) (vzero k).
Proof. induction k as [|k IH]; cbn; constructor; [ring | exact IH]. Qed.

Lemma vscale_app t u v : vscale t (u ++ v) = vscale t u ++ vscale t v.
Proof. unfold vscale. apply map_app. Qed.

Lemma map2v_block_rows w : forall A ncol a b,
  meq (map2v vscale w (block_rows A ncol a b)) (block_rows (map2v vscale w A) ncol a b).
Proof.
  induction w as [|t w IH]; intros [|r A] ncol a b; unfold block_rows; cbn [map2v map]; constructor.
  - rewrite !vscale_app. repeat apply Forall2_app; try apply vscale_vzero. reflexivity.
  - apply IH.
Qed.

Lemma map2v_app {B} (f : Q -> vec -> B) w W A R : length w = length A ->
  map2v f (w ++ W) (A ++ R) = map2v f w A ++ map2v f W R.
Proof.
  revert A; induction w as [|t w IH]; intros [|r A] H; simpl in H; try discriminate; [reflexivity|].
  cbn [app map2v]. rewrite IH by lia. reflexivity.
Qed.

Lemma scaled_from A ncol ws : Forall (fun w : vec => length w = length A) ws -> forall i total,
  meq (map2v vscale (concat ws) (bdiag_from (repeat A (length ws)) ncol i total))
      (bdiag_from (map (fun w => map2v vscale w A) ws) ncol i total).
Proof.
  induction 1 as [|w ws Hw Hws IH]; intros i total.
  - constructor.
  - cbn [length repeat concat map bdiag_from].
    rewrite map2v_app by (unfold block_rows; rewrite map_length; exact Hw).
    apply Forall2_app; [apply map2v_block_rows | apply IH].
Qed.

(* the code scales the rows of diagonal_stack(A, k) by the stacked weights: that is the block-diagonal
   matrix of the per-slot scaled copies of A *)
(* CHANGED: conclusion stated with [meq] (entry-wise Qeq) instead of Leibniz [=].  With [=] the statement is
   false: scaling a structural zero gives  t * 0 = (0 # Qden t), which is == 0 but not syntactically 0 # 1, e.g.
   A = [[1]], ncol = 1, ws = [[1#2];[1#2]] gives [[1#2; 0#2]; [0#2; 1#2]] on the left and
   [[1#2; 0]; [0; 1#2]] on the right (checked with vm_compute). *)
Lemma scaled_block_diag A ncol ws : rect ncol A -> Forall (fun w => length w = length A) ws ->
  meq (map2v vscale (concat ws) (block_diag A ncol (length ws))) (bdiag (map (fun w => map2v vscale w A) ws) ncol).
Proof.
  intros HA Hws. unfold block_diag, bdiag. rewrite repeat_length, map_length. apply scaled_from. exact Hws.
Qed.

(* a padded slot (w = 0, b = 0) has the constant-zero objective *)
Lemma padded_slot_objective A ncol x : rect ncol A -> length x = ncol ->
  obj_ls (map2v vscale (vzero (length A)) A) (vzero (length A)) x == 0.
Proof.
  intros _ _. unfold obj_ls. induction A as [|r A IH]; [reflexivity|].
  cbn [length vzero repeat map2v matvec map vsub]. fold (vzero (length A)). fold (matvec (map2v vscale (vzero (length A)) A) x).
  unfold sq in *. cbn [dot]. rewrite IH. rewrite dot_vscale_l. ring.
Qed.

(* ---- 5. separability of eps-minimisers (stretch) ----
   if the stacked point is an eps-minimiser over the product of the slot boxes then every slot is an
   eps-minimiser of its own problem *)
Fixpoint in_boxes (xs : list vec) (lb ub : vec) : Prop :=
  match xs with [] => True | x :: xs' => in_box x lb ub /\ in_boxes xs' lb ub end.

Fixpoint upd (j : nat) (y : vec) (xs : list vec) : list vec :=
  match xs, j with
  | [], _ => []
  | _ :: xs', O => y :: xs'
  | x :: xs', S j' => x :: upd j' y xs'
  end.

Lemma upd_length j y xs : length (upd j y xs) = length xs.
Proof. revert j; induction xs as [|x xs IH]; intros [|j]; cbn [upd length]; auto. Qed.

Lemma upd_in_boxes j y xs lb ub : in_boxes xs lb ub -> in_box y lb ub -> in_boxes (upd j y xs) lb ub.
Proof.
  revert j; induction xs as [|x xs IH]; intros [|j] Hxs Hy; cbn [upd in_boxes] in *; try tauto.
  destruct Hxs as [H1 H2]. split; [exact H1 | apply IH; assumption].
Qed.

Lemma sum3_upd f Ms : forall es xs j y, length xs = length Ms -> length es = length Ms -> (j < length Ms)%nat ->
  sum3 f Ms es (upd j y xs) + f (nth j Ms []) (nth j es []) (nth j xs [])
  == sum3 f Ms es xs + f (nth j Ms []) (nth j es []) y.
Proof.
  induction Ms as [|M Ms IH]; intros [|e es] [|x xs] j y Hx He Hj; cbn [length] in *; try discriminate; try lia.
  destruct j as [|j]; cbn [sum3 upd nth].
  - ring.
  - pose proof (IH es xs j y ltac:(lia) ltac:(lia) ltac:(lia)) as H. lra.
Qed.

Lemma separable_argmin Ms es xs ncol lb ub eps :
  Forall (rect ncol) Ms -> length xs = length Ms -> length es = length Ms ->
  Forall2 (fun M e => length e = length M) Ms es -> length lb = ncol -> length ub = ncol ->
  in_boxes xs lb ub ->
  (forall ys, length ys = length Ms -> in_boxes ys lb ub -> sum3 obj_ls Ms es xs <= sum3 obj_ls Ms es ys + eps) ->
  forall j y, (j < length Ms)%nat -> in_box y lb ub ->
    obj_ls (nth j Ms []) (nth j es []) (nth j xs []) <= obj_ls (nth j Ms []) (nth j es []) y + eps.
Proof.
  intros _ Hxs Hes _ _ _ Hbox Hmin j y Hj Hy.
  pose proof (Hmin (upd j y xs) ltac:(rewrite upd_length; exact Hxs) (upd_in_boxes j y xs lb ub Hbox Hy)) as H1.
  pose proof (sum3_upd obj_ls Ms es xs j y Hxs Hes Hj) as H2.
  unfold vec in *. lra.
Qed.
