(* Proofs/RangeCompleteP.v — the enumeration of Model/Range.v visits every basic solution; exactness of range_model. *)
From Coq Require Import QArith Qabs Qminmax List Bool Arith Lia Lqa Setoid Morphisms.
From DV Require Import Base.QVec Run.Verdict Model.Linear Cert.Hull Model.Gauss Model.Range Proofs.RangeP
  Proofs.VertexDefs Proofs.LinAlgP Proofs.SupportP Proofs.PurifyP.
Import ListNotations.
Open Scope Q_scope.

(* ---------- auxiliary facts ---------- *)
Definition idxc (p : nat -> bool) (n : nat) : list nat := filter (fun i => negb (p i)) (seq 0 n).
Definition embed (n : nat) (keys : list nat) (vals : vec) : vec :=
  map (fun i => match assoc i keys vals with Some x => x | None => 0 end) (seq 0 n).
Definition fixv (lb ub v : vec) (l : list nat) : vec :=
  map2 (fun i (p : bool) => if p then nthQ ub i else nthQ lb i) l
       (map (fun i => Qeq_bool (nthQ v i) (nthQ ub i)) l).

Lemma nth_map_seq (f : nat -> Q) n : forall s i, (i < n)%nat -> nth i (map f (seq s n)) 0 = f (s + i)%nat.
Proof.
  induction n as [|n IH]; intros s i Hi; [lia|].
  destruct i as [|i]; cbn [seq map nth].
  - f_equal; lia.
  - rewrite IH by lia. f_equal; lia.
Qed.

Lemma select_seq_id (l : vec) : select (seq 0 (length l)) l 0 = l.
Proof.
  unfold select. induction l as [|a l IH]; [reflexivity|].
  cbn [length seq map nth]. f_equal.
  rewrite <- seq_shift, map_map. exact IH.
Qed.

Lemma len_select {X} (l : list nat) (r : list X) d : length (select l r d) = length l.
Proof. unfold select. apply map_length. Qed.

Lemma dot_select_split (q : nat -> bool) (r v : vec) l :
  dot (select l r 0) (select l v 0) ==
  dot (select (filter q l) r 0) (select (filter q l) v 0) +
  dot (select (filter (fun i => negb (q i)) l) r 0) (select (filter (fun i => negb (q i)) l) v 0).
Proof.
  unfold select. induction l as [|a l IH]; [cbn; ring|].
  cbn [filter map dot]. destruct (q a); cbn [negb map dot]; rewrite IH; ring.
Qed.

Lemma dot_partition p (r v : vec) n : length r = n -> length v = n ->
  dot r v == dot (select (idxs p n) r 0) (select (idxs p n) v 0) +
             dot (select (idxc p n) r 0) (select (idxc p n) v 0).
Proof.
  intros Hr Hv. unfold idxs, idxc. rewrite <- dot_select_split.
  rewrite <- Hr at 1. rewrite select_seq_id. rewrite <- Hv. rewrite select_seq_id. reflexivity.
Qed.

Lemma complement_idxc p n : complement n (idxc p n) = idxs p n.
Proof.
  unfold complement, idxs. apply filter_ext_in. intros i Hi.
  destruct (existsb (Nat.eqb i) (idxc p n)) eqn:E.
  - apply existsb_exists in E. destruct E as (j & Hj & Ej). apply Nat.eqb_eq in Ej. subst j.
    unfold idxc in Hj. apply filter_In in Hj. destruct Hj as [_ Hj].
    destruct (p i); [discriminate Hj|reflexivity].
  - destruct (p i) eqn:P; [reflexivity|]. exfalso.
    assert (T : existsb (Nat.eqb i) (idxc p n) = true).
    { apply existsb_exists. exists i. split; [|apply Nat.eqb_refl].
      unfold idxc. apply filter_In. split; [exact Hi|]. rewrite P. reflexivity. }
    rewrite T in E. discriminate E.
Qed.

Lemma filter_len_split {X} (q : X -> bool) l :
  (length (filter q l) + length (filter (fun i => negb (q i)) l) = length l)%nat.
Proof. induction l as [|a l IH]; [reflexivity|]. cbn [filter]. destruct (q a); cbn [negb length]; lia. Qed.

Lemma len_idxc p n : (length (idxc p n) = n - length (idxs p n))%nat.
Proof.
  unfold idxc, idxs. pose proof (filter_len_split p (seq 0 n)) as H. rewrite seq_length in H. lia.
Qed.

Lemma in_combs_filter (q : nat -> bool) l : In (filter q l) (combs (length (filter q l)) l).
Proof.
  induction l as [|a l IH]; [left; reflexivity|].
  cbn [filter]. destruct (q a).
  - cbn [length combs]. apply in_or_app. left. apply in_map. exact IH.
  - destruct (length (filter q l)) as [|k] eqn:E.
    + destruct (filter q l); [left; reflexivity|discriminate E].
    + cbn [combs]. apply in_or_app. right. exact IH.
Qed.

Lemma in_patterns (l : list bool) : In l (patterns (length l)).
Proof.
  induction l as [|a l IH]; [left; reflexivity|].
  cbn [length patterns]. apply in_or_app. destruct a; [right|left]; apply in_map; exact IH.
Qed.

Lemma collect_in l : forall cands x, collect l = Ok cands -> In (Ok (Some x)) l -> In x cands.
Proof.
  induction l as [|a l IH]; intros cands x H HI; [destruct HI|].
  destruct a as [[y|]|e]; cbn [collect] in H.
  - destruct (collect l) as [l'|e'] eqn:E; [|discriminate H].
    injection H as H. subst cands. destruct HI as [HI|HI].
    + injection HI as HI. subst y. left. reflexivity.
    + right. apply (IH l' x eq_refl HI).
  - destruct HI as [HI|HI]; [discriminate HI|]. apply (IH cands x H HI).
  - discriminate H.
Qed.

Lemma collect_ok l : (forall e, ~ In (Err e) l) -> exists cands, collect l = Ok cands.
Proof.
  induction l as [|a l IH]; intros HN; [exists []; reflexivity|].
  destruct IH as (cs & Hcs). { intros e He. apply (HN e). right. exact He. }
  destruct a as [[y|]|e]; cbn [collect].
  - rewrite Hcs. eexists; reflexivity.
  - exists cs. exact Hcs.
  - exfalso. apply (HN e). left. reflexivity.
Qed.

Lemma candidate_not_err A b lb ub n idx pat e : candidate A b lb ub n idx pat <> Err e.
Proof.
  unfold candidate. cbv zeta. destruct (solve_ge _ _) as [sol|]; [|discriminate].
  match goal with |- (if ?g then _ else _) <> _ => destruct g end; discriminate.
Qed.

Lemma veq_b_complete u v : veq u v -> veq_b u v = true.
Proof.
  intros H. induction H as [|a c u v Hac H IH]; [reflexivity|].
  cbn [veq_b]. rewrite IH. apply andb_true_iff. split; [|reflexivity]. apply Qeq_bool_iff. exact Hac.
Qed.

Lemma in_box_veq x y lb ub : veq x y -> in_box y lb ub -> in_box x lb ub.
Proof.
  intros H. revert lb ub. induction H as [|a c x y Hac H IH]; intros [|l lb] [|u ub] HB; cbn [in_box] in *; try tauto.
  destruct HB as (H1 & H2 & HB). rewrite Hac. split; [exact H1|]. split; [exact H2|]. apply IH. exact HB.
Qed.

Lemma in_box_select l v lb ub : in_box v lb ub -> in_box (select l v 0) (select l lb 0) (select l ub 0).
Proof.
  intros HB. unfold select. induction l as [|i l IH]; [exact I|].
  cbn [map in_box]. destruct (in_box_nth v lb ub i HB) as [H1 H2]. unfold nthQ in H1, H2.
  split; [exact H1|]. split; [exact H2|exact IH].
Qed.

Lemma dot_app_last r z (bq e : Q) : length r = length z -> dot (r ++ [bq]) (z ++ [e]) == dot r z + bq * e.
Proof.
  revert z; induction r as [|a r IH]; intros [|c z] H; cbn [length] in H; try discriminate H.
  - cbn [app dot]. ring.
  - cbn [app dot]. rewrite IH by lia. ring.
Qed.

Lemma dot_zerov_r x z : zerov z -> dot x z == 0.
Proof.
  intros H. revert x. induction H as [|a z Ha H IH]; intros [|c x]; cbn [dot]; try reflexivity.
  rewrite Ha, IH. ring.
Qed.

Lemma zerov_nth z i : zerov z -> nthQ z i == 0.
Proof.
  intros H. revert i. induction H as [|a z Ha H IH]; intros [|i]; unfold nthQ; cbn [nth]; try reflexivity.
  - exact Ha.
  - apply IH.
Qed.

(* association lists *)
Lemma assoc_some_veq v i keys : forall vals x, veq vals (select keys v 0) -> assoc i keys vals = Some x -> x == nthQ v i.
Proof.
  induction keys as [|k keys IH]; intros vals x HV HA.
  - cbn [assoc] in HA. discriminate HA.
  - unfold select in HV. cbn [map] in HV. inversion HV as [|a c vals' s' Hac HV']; subst.
    cbn [assoc] in HA. destruct (Nat.eqb_spec i k) as [E|NE].
    + injection HA as HA. subst x. subst k. exact Hac.
    + apply (IH vals' x HV' HA).
Qed.

Lemma assoc_none_notin i keys : forall vals, length vals = length keys -> assoc i keys vals = None -> ~ In i keys.
Proof.
  induction keys as [|k keys IH]; intros vals HL HA HI; [destruct HI|].
  destruct vals as [|a vals]; [discriminate HL|]. cbn [assoc] in HA.
  destruct (Nat.eqb_spec i k) as [E|NE]; [discriminate HA|].
  destruct HI as [HI|HI]; [congruence|]. apply (IH vals); [cbn [length] in HL; lia|exact HA|exact HI].
Qed.

Lemma assoc_notin_none i keys : forall vals, ~ In i keys -> assoc i keys vals = None.
Proof.
  induction keys as [|k keys IH]; intros vals HI; [reflexivity|].
  destruct vals as [|a vals]; [reflexivity|]. cbn [assoc].
  destruct (Nat.eqb_spec i k) as [E|NE]; [exfalso; apply HI; left; congruence|].
  apply IH. intros H. apply HI. right. exact H.
Qed.

Lemma assoc_map_id keys : forall vals, NoDup keys -> length vals = length keys ->
  map (fun i => match assoc i keys vals with Some x => x | None => 0 end) keys = vals.
Proof.
  induction keys as [|k keys IH]; intros vals ND HL.
  - destruct vals; [reflexivity|discriminate HL].
  - destruct vals as [|a vals]; [discriminate HL|]. inversion ND as [|k' keys' Hk ND']; subst.
    cbn [map assoc]. rewrite Nat.eqb_refl. f_equal.
    etransitivity; [|apply (IH vals ND'); cbn [length] in HL; lia].
    apply map_ext_in. intros i Hi. destruct (Nat.eqb_spec i k) as [E|NE]; [subst i; contradiction|reflexivity].
Qed.

(* embedding of a vector indexed by idxs p n into length n, zeros elsewhere *)
Lemma len_embed n keys vals : length (embed n keys vals) = n.
Proof. unfold embed. rewrite map_length, seq_length. reflexivity. Qed.

Lemma nth_embed n keys vals i : (i < n)%nat ->
  nth i (embed n keys vals) 0 = match assoc i keys vals with Some x => x | None => 0 end.
Proof. intros Hi. unfold embed. rewrite nth_map_seq by exact Hi. reflexivity. Qed.

Lemma in_idxs p n i : In i (idxs p n) <-> (i < n)%nat /\ p i = true.
Proof. unfold idxs. rewrite filter_In, in_seq. split; intros [H1 H2]; split; auto; lia. Qed.
Lemma in_idxc p n i : In i (idxc p n) <-> (i < n)%nat /\ p i = false.
Proof.
  unfold idxc. rewrite filter_In, in_seq. split; intros [H1 H2]; split; try lia.
  - destruct (p i); [discriminate H2|reflexivity].
  - rewrite H2. reflexivity.
Qed.
Lemma NoDup_idxs p n : NoDup (idxs p n).
Proof. unfold idxs. apply NoDup_filter. apply seq_NoDup. Qed.

Lemma select_embed p n d : length d = length (idxs p n) -> select (idxs p n) (embed n (idxs p n) d) 0 = d.
Proof.
  intros HL. unfold select.
  etransitivity; [|apply (assoc_map_id (idxs p n) d (NoDup_idxs p n) HL)].
  apply map_ext_in. intros i Hi. apply in_idxs in Hi. destruct Hi as [Hi _].
  apply nth_embed. exact Hi.
Qed.

Lemma supp_embed p n d : supp p (embed n (idxs p n) d).
Proof.
  intros i Hp. unfold nthQ. destruct (Nat.lt_ge_cases i n) as [Hi|Hi].
  - rewrite nth_embed by exact Hi. rewrite assoc_notin_none; [reflexivity|].
    intros HI. apply in_idxs in HI. destruct HI as [_ HI]. congruence.
  - rewrite nth_overflow by (rewrite len_embed; exact Hi). reflexivity.
Qed.

Lemma zerov_select_idxc p n e : supp p e -> zerov (select (idxc p n) e 0).
Proof.
  intros HS. unfold select, zerov. apply Forall_forall. intros x Hx.
  apply in_map_iff in Hx. destruct Hx as (i & Hx & Hi). subst x.
  apply in_idxc in Hi. destruct Hi as [_ Hi]. apply (HS i Hi).
Qed.

Lemma zerov_select l e : zerov e -> zerov (select l e 0).
Proof.
  intros HZ. unfold select, zerov. apply Forall_forall. intros x Hx.
  apply in_map_iff in Hx. destruct Hx as (i & Hx & Hi). subst x. apply (zerov_nth e i HZ).
Qed.

(* the fixed values chosen by the pattern read off v are the coordinates of v *)
Lemma fixv_veq lb ub v l : (forall i, In i l -> freeb v lb ub i = false) -> veq (fixv lb ub v l) (select l v 0).
Proof.
  unfold fixv, select. induction l as [|i l IH]; intros HF; [constructor|].
  cbn [map map2]. constructor.
  - destruct (Qeq_bool (nthQ v i) (nthQ ub i)) eqn:E.
    + apply Qeq_bool_iff in E. symmetry. exact E.
    + pose proof (HF i (or_introl eq_refl)) as F. unfold freeb in F. rewrite E in F.
      rewrite orb_false_r in F. apply negb_false_iff in F. apply Qeq_bool_iff in F. symmetry. exact F.
  - apply IH. intros j Hj. apply HF. right. exact Hj.
Qed.

Lemma fixv_pat_len v ub l : length (map (fun i => Qeq_bool (nthQ v i) (nthQ ub i)) l) = length l.
Proof. apply map_length. Qed.

Lemma cols_cons r A l : cols (r :: A) l = select l r 0 :: cols A l.
Proof. reflexivity. Qed.
Lemma matvec_cons r M x : matvec (r :: M) x = dot r x :: matvec M x.
Proof. reflexivity. Qed.
Lemma vred_cons a u : vred (a :: u) = Qred a :: vred u.
Proof. reflexivity. Qed.
Lemma len_cols A l : length (cols A l) = length A.
Proof. unfold cols. apply map_length. Qed.
Lemma len_vred u : length (vred u) = length u.
Proof. unfold vred. apply map_length. Qed.
Lemma vred_veq u : veq (vred u) u.
Proof. induction u as [|a u IH]; [constructor|]. rewrite vred_cons. constructor; [apply Qred_correct|exact IH]. Qed.

Lemma len_augment M : forall rhs, length rhs = length M -> length (augment M rhs) = length M.
Proof.
  induction M as [|r M IH]; intros [|q rhs] HL; cbn [length] in HL; try discriminate HL; [reflexivity|].
  cbn [augment length]. rewrite IH by lia. reflexivity.
Qed.

Lemma rect_augment k M : forall rhs, rect k M -> rect (S k) (augment M rhs).
Proof.
  induction M as [|r M IH]; intros [|q rhs] HR; try constructor.
  - inversion HR; subst. rewrite app_length. cbn [length]. lia.
  - inversion HR; subst. apply IH. assumption.
Qed.

Lemma rect_cols A l : rect (length l) (cols A l).
Proof. unfold rect, cols. apply Forall_forall. intros x Hx. apply in_map_iff in Hx. destruct Hx as (r & Hx & _). subst x. apply len_select. Qed.

(* every augmented row annihilates (v restricted to the solved positions) ++ [-1] *)
Lemma aug_kerv p n v fx : length v = n -> veq fx (select (idxc p n) v 0) ->
  forall A b, rect n A -> veq (matvec A v) b ->
  kerv (augment (cols A (idxs p n)) (vred (vsub b (matvec (cols A (idxc p n)) fx))))
       (select (idxs p n) v 0 ++ [-1]).
Proof.
  intros Hv Hfx. induction A as [|r A IH]; intros b HR HE.
  - constructor.
  - rewrite matvec_cons in HE. inversion HE as [|a br u b' Hbr HE']; subst.
    inversion HR as [|r' A' Hr HR']; subst.
    rewrite !cols_cons, matvec_cons. cbn [vsub]. rewrite vred_cons. cbn [augment].
    constructor.
    + rewrite dot_app_last by (rewrite !len_select; reflexivity).
      rewrite Qred_correct. rewrite Hfx. rewrite <- Hbr.
      rewrite (dot_partition p r v (length v) Hr eq_refl). ring.
    + apply IH; assumption.
Qed.

(* a kernel vector of the square system embeds into a kernel vector of A supported on p *)
Lemma aug_inj p n d : length d = length (idxs p n) ->
  forall A rhs, rect n A -> length rhs = length A ->
  kerv (augment (cols A (idxs p n)) rhs) (d ++ [0]) -> kerv A (embed n (idxs p n) d).
Proof.
  intros Hd. induction A as [|r A IH]; intros rhs HR HL HK.
  - constructor.
  - destruct rhs as [|q rhs]; [discriminate HL|].
    inversion HR as [|r' A' Hr HR']; subst.
    rewrite cols_cons in HK. cbn [augment] in HK. inversion HK as [|x M Hx HK']; subst.
    constructor.
    + rewrite (dot_partition p r _ (length r) eq_refl (len_embed _ _ _)).
      rewrite select_embed by exact Hd.
      rewrite (dot_zerov_r _ _ (zerov_select_idxc p (length r) _ (supp_embed p (length r) d))).
      rewrite dot_app_last in Hx by (rewrite len_select; symmetry; exact Hd).
      lra.
    + apply (IH rhs); [assumption|cbn [length] in HL; lia|assumption].
Qed.

Lemma Forall2_map_same (F G : nat -> Q) l : (forall i, In i l -> F i == G i) -> veq (map F l) (map G l).
Proof.
  induction l as [|i l IH]; intros H; [constructor|].
  cbn [map]. constructor; [apply H; left; reflexivity|]. apply IH. intros j Hj. apply H. right. exact Hj.
Qed.

Lemma assemble_veq p n v fx sol : length v = n ->
  veq fx (select (idxc p n) v 0) -> veq sol (select (idxs p n) v 0) ->
  veq (assemble n (idxc p n) fx (idxs p n) sol) v.
Proof.
  intros Hv Hfx Hsol.
  enough (H : veq (assemble n (idxc p n) fx (idxs p n) sol) (select (seq 0 n) v 0)).
  { revert H. subst n. rewrite select_seq_id. intros H; exact H. }
  unfold assemble, select. apply Forall2_map_same. intros i Hi.
  apply in_seq in Hi.
  destruct (assoc i (idxc p n) fx) as [x|] eqn:E1.
  - apply (assoc_some_veq v i _ _ _ Hfx E1).
  - destruct (assoc i (idxs p n) sol) as [x|] eqn:E2.
    + apply (assoc_some_veq v i _ _ _ Hsol E2).
    + exfalso.
      apply assoc_none_notin in E1; [|rewrite (veq_length _ _ Hfx); apply len_select].
      apply assoc_none_notin in E2; [|rewrite (veq_length _ _ Hsol); apply len_select].
      destruct (p i) eqn:P.
      * apply E2. apply in_idxs. split; [lia|exact P].
      * apply E1. apply in_idxc. split; [lia|exact P].
Qed.

Lemma candidate_ok A b lb ub n v p :
  rect n A -> length lb = n -> length ub = n -> sol_set A b lb ub v ->
  (forall i, freeb v lb ub i = true -> p i = true) -> inj_on A n p -> length (idxs p n) = length A ->
  exists xc, candidate A b lb ub n (idxc p n) (map (fun i => Qeq_bool (nthQ v i) (nthQ ub i)) (idxc p n)) = Ok (Some xc)
             /\ veq xc v.
Proof.
  intros HA Hlb Hub [HB HE] Hfree Hinj Hsz.
  destruct (in_box_len _ _ _ HB) as [Hvl _]. assert (Hv : length v = n) by lia.
  assert (Hfx : veq (fixv lb ub v (idxc p n)) (select (idxc p n) v 0)).
  { apply fixv_veq. intros i Hi. apply in_idxc in Hi. destruct Hi as [_ Hi].
    destruct (freeb v lb ub i) eqn:F; [|reflexivity]. rewrite (Hfree i F) in Hi. discriminate Hi. }
  assert (Hb : length b = length A).
  { pose proof (veq_length _ _ HE) as HL. rewrite len_matvec in HL. lia. }
  set (rhs := vred (vsub b (matvec (cols A (idxc p n)) (fixv lb ub v (idxc p n))))).
  assert (Hrhs : length rhs = length A).
  { unfold rhs. rewrite len_vred, len_vsub; rewrite ?len_matvec, ?len_cols; lia. }
  destruct (solve_aug_complete (length A) (augment (cols A (idxs p n)) rhs) (select (idxs p n) v 0))
    as (sol & Hsol & Hsv).
  - rewrite <- Hsz. apply rect_augment. apply rect_cols.
  - rewrite len_select. exact Hsz.
  - unfold rhs. apply aug_kerv; assumption.
  - intros d Hd HK. rewrite <- Hsz in Hd.
    pose proof (aug_inj p n d Hd A rhs HA Hrhs HK) as HKe.
    pose proof (Hinj _ (len_embed _ _ _) (supp_embed p n d) HKe) as HZ.
    rewrite <- (select_embed p n d Hd). apply zerov_select. exact HZ.
  - unfold candidate. cbv zeta. rewrite complement_idxc.
    change (map2 (fun (i : nat) (p0 : bool) => if p0 then nthQ ub i else nthQ lb i) (idxc p n)
                 (map (fun j => Qeq_bool (nthQ v j) (nthQ ub j)) (idxc p n)))
      with (fixv lb ub v (idxc p n)).
    fold rhs. unfold solve_ge. rewrite len_cols. rewrite Hsol.
    assert (Hx : veq (assemble n (idxc p n) (fixv lb ub v (idxc p n)) (idxs p n) sol) v)
      by (apply assemble_veq; assumption).
    assert (G1 : in_boxb sol (select (idxs p n) lb 0) (select (idxs p n) ub 0) = true).
    { apply in_boxb_spec. apply (in_box_veq _ _ _ _ Hsv). apply in_box_select. exact HB. }
    assert (G2 : veq_b (matvec A (assemble n (idxc p n) (fixv lb ub v (idxc p n)) (idxs p n) sol)) b = true).
    { apply veq_b_complete. rewrite Hx. exact HE. }
    assert (G3 : in_boxb (assemble n (idxc p n) (fixv lb ub v (idxc p n)) (idxs p n) sol) lb ub = true).
    { apply in_boxb_spec. apply (in_box_veq _ _ _ _ Hx). exact HB. }
    rewrite G1, G2, G3. cbn [andb]. eexists. split; [reflexivity|exact Hx].
Qed.

(* a solution whose free coordinates lie in an independent column set p' of size m is (up to ==) one of the candidates *)
Lemma vertex_in_candidates : forall A b lb ub n v p' cands,
  rect n A -> (length A <= n)%nat -> length lb = n -> length ub = n ->
  sol_set A b lb ub v ->
  (forall i, freeb v lb ub i = true -> p' i = true) -> inj_on A n p' -> length (idxs p' n) = length A ->
  candidates A b lb ub n = Ok cands ->
  exists c, In c cands /\ veq c v.
Proof.
  intros A b lb ub n v p' cands HA Hmn Hlb Hub Hv Hfree Hinj Hsz Hc.
  destruct (candidate_ok A b lb ub n v p' HA Hlb Hub Hv Hfree Hinj Hsz) as (xc & Hxc & Hxv).
  exists xc. split; [|exact Hxv].
  unfold candidates in Hc. eapply collect_in; [exact Hc|].
  apply in_flat_map. exists (idxc p' n). split.
  - replace (n - length A)%nat with (length (idxc p' n)) by (rewrite len_idxc; lia).
    unfold idxc. apply in_combs_filter.
  - rewrite <- Hxc. apply in_map.
    replace (n - length A)%nat with (length (map (fun i => Qeq_bool (nthQ v i) (nthQ ub i)) (idxc p' n)))
      by (rewrite map_length, len_idxc; lia).
    apply in_patterns.
Qed.

Lemma candidates_never_fail : forall A b lb ub n, exists cands, candidates A b lb ub n = Ok cands.
Proof.
  intros A b lb ub n. unfold candidates. apply collect_ok. intros e He.
  apply in_flat_map in He. destruct He as (idx & _ & He).
  apply in_map_iff in He. destruct He as (pat & He & _).
  apply (candidate_not_err _ _ _ _ _ _ _ _ He).
Qed.

Theorem range_complete : forall A b lb ub n k (s : Q) x cands,
  rect n A -> (length A <= n)%nat -> length lb = n -> length ub = n -> has_basis A n ->
  sol_set A b lb ub x -> candidates A b lb ub n = Ok cands ->
  exists c, In c cands /\ s * nthQ c k <= s * nthQ x k.
Proof.
  intros A b lb ub n k s x cands HA Hmn Hlb Hub Hbas Hx Hc.
  destruct (purify A b lb ub n k s x HA Hlb Hub Hx) as (v & Hv & Hle & Hinj).
  destruct (extend_to_basis A n _ HA Hinj Hbas) as (p' & Hsub & Hinj' & Hsz).
  destruct (vertex_in_candidates A b lb ub n v p' cands HA Hmn Hlb Hub Hv Hsub Hinj' Hsz Hc) as (c & Hin & Hcv).
  exists c. split; [exact Hin|].
  assert (E : nthQ c k == nthQ v k) by (apply Forall2_nth_Q; exact Hcv).
  rewrite E. exact Hle.
Qed.

(* the reported ends bracket EVERY in-bound solution: with range_ends_attained they are the exact extents *)
Theorem range_exact : forall A b lb ub n k x mins maxs,
  rect n A -> (length A <= n)%nat -> length lb = n -> length ub = n -> has_basis A n -> (k < n)%nat ->
  sol_set A b lb ub x -> range_model A b lb ub n = Ok (mins, maxs) ->
  nthQ mins k <= nthQ x k /\ nthQ x k <= nthQ maxs k.
Proof.
  intros A b lb ub n k x mins maxs HA Hmn Hlb Hub Hbas Hk Hx Hr.
  unfold range_model in Hr.
  destruct (candidates A b lb ub n) as [cands|e] eqn:Hc; [|discriminate Hr].
  injection Hr as Hmins Hmaxs. subst mins maxs.
  pose proof (candidates_sound _ _ _ _ _ _ Hc) as Hs.
  assert (HlenU : Forall (fun y : vec => length y = length ub) cands).
  { eapply Forall_impl; [|exact Hs]. intros y [Hb _]. destruct (in_box_len _ _ _ Hb) as [_ Hl]. exact Hl. }
  assert (HlenL : Forall (fun y : vec => length y = length lb) cands).
  { eapply Forall_impl; [|exact Hs]. intros y [Hb _]. destruct (in_box_len _ _ _ Hb) as [Hl _]. exact Hl. }
  destruct (range_complete A b lb ub n k 1 x cands HA Hmn Hlb Hub Hbas Hx Hc) as (c & Hin & Hle).
  destruct (range_complete A b lb ub n k (-1) x cands HA Hmn Hlb Hub Hbas Hx Hc) as (c' & Hin' & Hle').
  split.
  - eapply Qle_trans; [apply (fold_vmin2_le cands ub c k HlenU Hin)|]. lra.
  - eapply Qle_trans; [|apply (fold_vmax2_ge cands lb c' k HlenL Hin')]. lra.
Qed.
