(* Proofs/LinAlgP.v — elimination lemmas over Q on lists: kernel dichotomy, wide systems, completeness of solve_aug. *)
From Coq Require Import QArith Qabs List Bool Arith Lia Lqa Setoid Morphisms.
From DV Require Import Base.QVec Model.Gauss Proofs.VertexDefs.
Import ListNotations.
Open Scope Q_scope.

(* ---------- auxiliary: one elimination step ---------- *)

(* reduce_row without the normalisation *)
Definition red (p r : vec) : vec := vsub (tl r) (vscale (hdQ r / hdQ p) (tl p)).

Lemma map_Qred_veq (v : vec) : veq (map Qred v) v.
Proof. induction v as [|a v IH]; simpl; constructor; [apply Qred_correct | exact IH]. Qed.

Lemma reduce_row_red p r : veq (reduce_row p r) (red p r).
Proof. unfold reduce_row, red. apply map_Qred_veq. Qed.

Lemma len_red c p r : length p = S c -> length r = S c -> length (red p r) = c.
Proof.
  intros Hp Hr. destruct p as [|a p]; destruct r as [|b r]; simpl in *; try discriminate.
  unfold red. simpl. rewrite len_vsub; rewrite ?len_vscale; lia.
Qed.

Lemma len_reduce_row c p r : length p = S c -> length r = S c -> length (reduce_row p r) = c.
Proof. intros Hp Hr. rewrite (veq_length _ _ (reduce_row_red p r)). apply (len_red c); auto. Qed.

Lemma dot_cons_hd r d0 d' : (0 < length r)%nat -> dot r (d0 :: d') == hdQ r * d0 + dot (tl r) d'.
Proof. destruct r as [|a r]; simpl; intros H; [lia | reflexivity]. Qed.

(* the reduced row has the same residual as the original row once the pivot equation holds *)
Lemma red_dot c p r d0 d' : length p = S c -> length r = S c -> ~ hdQ p == 0 ->
  dot p (d0 :: d') == 0 -> dot (red p r) d' == dot r (d0 :: d').
Proof.
  intros Hp Hr Hnz Hpd.
  rewrite dot_cons_hd in Hpd by lia. rewrite dot_cons_hd by lia.
  unfold red. rewrite dot_vsub_l, dot_vscale_l.
  - set (X := dot (tl p) d') in *. set (Y := dot (tl r) d').
    assert (E : X == - (hdQ p * d0)) by lra. rewrite E. field. exact Hnz.
  - rewrite len_vscale. destruct p; destruct r; simpl in *; try discriminate. lia.
Qed.

Lemma pivot_value p d' : ~ hdQ p == 0 -> (0 < length p)%nat ->
  dot p ((- dot (tl p) d' / hdQ p) :: d') == 0.
Proof. intros Hnz Hl. rewrite dot_cons_hd by exact Hl. field. exact Hnz. Qed.

(* ---------- auxiliary: pivot search ---------- *)
Lemma pick_pivot_some M p rest : pick_pivot M = Some (p, rest) ->
  ~ hdQ p == 0 /\ length M = S (length rest) /\
  (forall P : vec -> Prop, Forall P M <-> (P p /\ Forall P rest)).
Proof.
  revert p rest. induction M as [|r M IH]; intros p rest H; simpl in H; [discriminate|].
  destruct (Qeq_bool (hdQ r) 0) eqn:E.
  - destruct (pick_pivot M) as [[p0 rest0]|] eqn:EP; [|discriminate].
    inversion H; subst. destruct (IH _ _ eq_refl) as (Hnz & Hlen & HP).
    split; [exact Hnz|]. split; [simpl; lia|].
    intros P. split.
    + intros HF. inversion HF as [|? ? Hr HM]; subst. apply HP in HM. destruct HM as [H1 H2].
      split; [exact H1|]. constructor; assumption.
    + intros [H1 H2]. inversion H2 as [|? ? Hr Hrest]; subst. constructor; [exact Hr|].
      apply HP. split; assumption.
  - inversion H; subst. split; [apply Qeq_bool_neq; exact E|]. split; [reflexivity|].
    intros P. split.
    + intros HF. inversion HF; subst. split; assumption.
    + intros [H1 H2]. constructor; assumption.
Qed.

Lemma pick_pivot_none M : pick_pivot M = None -> Forall (fun r => hdQ r == 0) M.
Proof.
  induction M as [|r M IH]; intros H; simpl in H; [constructor|].
  destruct (Qeq_bool (hdQ r) 0) eqn:E.
  - destruct (pick_pivot M) as [[p0 rest0]|] eqn:EP; [discriminate|].
    constructor; [apply Qeq_bool_iff; exact E | apply IH; reflexivity].
  - discriminate.
Qed.

(* ---------- auxiliary: zero vectors ---------- *)
Lemma zerov_vzero n : zerov (vzero n).
Proof. unfold zerov, vzero. induction n; simpl; constructor; [reflexivity | exact IHn]. Qed.

Lemma dot_zerov_r x d : zerov d -> dot x d == 0.
Proof.
  intros H. revert x. induction H as [|a d Ha Hd IH]; intros [|b x]; simpl; try reflexivity.
  rewrite Ha, IH. ring.
Qed.

Lemma zero_col_kernel (M : mat) (t : vec) : Forall (fun r => hdQ r == 0) M -> zerov t -> kerv M (1 :: t).
Proof.
  intros H Ht. unfold kerv. induction H as [|r M Hr HM IH]; constructor; [|exact IH].
  destruct r as [|a r]; simpl; [reflexivity|]. simpl in Hr. rewrite Hr, (dot_zerov_r r t Ht). ring.
Qed.

Lemma zerov_app_zero t : zerov t -> zerov (t ++ [0]).
Proof. intros H. unfold zerov. apply Forall_app. split; [exact H|]. constructor; [reflexivity|constructor]. Qed.

Lemma not_zerov_one t : ~ zerov (1 :: t).
Proof. intros H. inversion H as [|? ? H1 ?]; subst. discriminate H1. Qed.

(* the rows reduced against the pivot are in the kernel of d' iff the originals are in the kernel of d0::d' *)
Lemma kerv_map_red c p rest d0 d' :
  length p = S c -> Forall (fun r => length r = S c) rest -> ~ hdQ p == 0 ->
  dot p (d0 :: d') == 0 ->
  (kerv (map (red p) rest) d' <-> kerv rest (d0 :: d')).
Proof.
  intros Hp Hrest Hnz Hpd. unfold kerv. rewrite Forall_map.
  induction Hrest as [|r rest Hr Hrest IH].
  - split; constructor.
  - split; intros H; inversion H as [|? ? H1 H2]; subst; constructor.
    + rewrite <- (red_dot c p r d0 d'); assumption.
    + apply IH; assumption.
    + rewrite (red_dot c p r d0 d'); assumption.
    + apply IH; assumption.
Qed.

Lemma kerv_map_reduce_row p rest d' : kerv (map (reduce_row p) rest) d' <-> kerv (map (red p) rest) d'.
Proof.
  unfold kerv. rewrite !Forall_map.
  induction rest as [|r rest IH].
  - split; constructor.
  - split; intros H; inversion H as [|? ? H1 H2]; subst; constructor.
    + rewrite <- (reduce_row_red p r). exact H1.
    + apply IH; assumption.
    + rewrite (reduce_row_red p r). exact H1.
    + apply IH; assumption.
Qed.

Lemma rect_map_red c p rest : length p = S c -> Forall (fun r => length r = S c) rest ->
  Forall (fun r => length r = c) (map (red p) rest).
Proof.
  intros Hp H. rewrite Forall_map. induction H; constructor; auto. apply len_red; assumption.
Qed.

Lemma rect_map_reduce_row c p rest : length p = S c -> Forall (fun r => length r = S c) rest ->
  Forall (fun r => length r = c) (map (reduce_row p) rest).
Proof.
  intros Hp H. rewrite Forall_map. induction H; constructor; auto. apply len_reduce_row; assumption.
Qed.

(* every matrix with c columns either has a non-zero kernel vector or is injective *)
Lemma kernel_dec : forall (c : nat) (M : mat), Forall (fun r => length r = c) M ->
  (exists d, length d = c /\ ~ zerov d /\ kerv M d) \/ (forall d, length d = c -> kerv M d -> zerov d).
Proof.
  induction c as [|c IH]; intros M HM.
  - right. intros d Hd _. destruct d; [constructor | discriminate].
  - destruct (pick_pivot M) as [[p rest]|] eqn:EP.
    + destruct (pick_pivot_some _ _ _ EP) as (Hnz & _ & HP).
      apply HP in HM. destruct HM as [Hp Hrest].
      destruct (IH (map (red p) rest) (rect_map_red c p rest Hp Hrest)) as [(d' & Hl & Hn & Hk)|Hinj].
      * left. exists ((- dot (tl p) d' / hdQ p) :: d').
        assert (Hpd : dot p ((- dot (tl p) d' / hdQ p) :: d') == 0)
          by (apply pivot_value; [exact Hnz | lia]).
        split; [simpl; lia|]. split.
        -- intros Hz. apply Hn. inversion Hz; assumption.
        -- unfold kerv. apply HP. split; [exact Hpd|].
           apply (kerv_map_red c p rest _ d' Hp Hrest Hnz Hpd). exact Hk.
      * right. intros d Hd Hk. destruct d as [|d0 d']; [discriminate|].
        unfold kerv in Hk. apply HP in Hk. destruct Hk as [Hpd Hkr].
        assert (Hz : zerov d').
        { apply Hinj; [simpl in Hd; lia|].
          apply (kerv_map_red c p rest d0 d' Hp Hrest Hnz Hpd). exact Hkr. }
        constructor; [|exact Hz].
        rewrite dot_cons_hd in Hpd by lia. rewrite (dot_zerov_r _ _ Hz) in Hpd.
        destruct (Qmult_integral (hdQ p) d0) as [E|E]; [lra | contradiction | exact E].
    + left. exists (1 :: vzero c). split; [simpl; rewrite len_vzero; reflexivity|].
      split; [apply not_zerov_one|].
      apply zero_col_kernel; [apply pick_pivot_none; exact EP | apply zerov_vzero].
Qed.

(* more unknowns than equations: a non-zero kernel vector exists *)
Lemma wide_kernel : forall (c : nat) (M : mat), Forall (fun r => length r = c) M -> (length M < c)%nat ->
  exists d, length d = c /\ ~ zerov d /\ kerv M d.
Proof.
  induction c as [|c IH]; intros M HM Hlt; [lia|].
  destruct (pick_pivot M) as [[p rest]|] eqn:EP.
  - destruct (pick_pivot_some _ _ _ EP) as (Hnz & Hlen & HP).
    apply HP in HM. destruct HM as [Hp Hrest].
    destruct (IH (map (red p) rest) (rect_map_red c p rest Hp Hrest)) as (d' & Hl & Hn & Hk).
    { rewrite map_length. lia. }
    exists ((- dot (tl p) d' / hdQ p) :: d').
    assert (Hpd : dot p ((- dot (tl p) d' / hdQ p) :: d') == 0)
      by (apply pivot_value; [exact Hnz | lia]).
    split; [simpl; lia|]. split.
    + intros Hz. apply Hn. inversion Hz; assumption.
    + unfold kerv. apply HP. split; [exact Hpd|].
      apply (kerv_map_red c p rest _ d' Hp Hrest Hnz Hpd). exact Hk.
  - exists (1 :: vzero c). split; [simpl; rewrite len_vzero; reflexivity|].
    split; [apply not_zerov_one|].
    apply zero_col_kernel; [apply pick_pivot_none; exact EP | apply zerov_vzero].
Qed.

Lemma veq_app_r u v w : veq u v -> veq (u ++ w) (v ++ w).
Proof. intros H. induction H; simpl; [reflexivity | constructor; assumption]. Qed.

(* elimination finds the solution of every uniquely solvable system (rows: n coefficients ++ [rhs]) *)
Lemma solve_aug_complete : forall (n : nat) (M : mat) (z : vec),
  Forall (fun r => length r = S n) M -> length z = n ->
  kerv M (z ++ [-1]) ->
  (forall d, length d = n -> kerv M (d ++ [0]) -> zerov d) ->
  exists z', solve_aug n M = Some z' /\ veq z' z.
Proof.
  induction n as [|n IH]; intros M z HM Hz Hk Hinj.
  - exists []. split; [reflexivity|]. destruct z; [constructor | discriminate].
  - destruct z as [|z0 z1]; [discriminate|]. simpl in Hz.
    cbn [solve_aug].
    destruct (pick_pivot M) as [[p rest]|] eqn:EP.
    + destruct (pick_pivot_some _ _ _ EP) as (Hnz & _ & HP).
      apply HP in HM. destruct HM as [Hp Hrest].
      change ((z0 :: z1) ++ [-1]) with (z0 :: (z1 ++ [-1])) in Hk.
      unfold kerv in Hk. apply HP in Hk. destruct Hk as [Hpd Hkr].
      destruct (IH (map (reduce_row p) rest) z1) as (z' & Hs & Hv).
      * apply rect_map_reduce_row; assumption.
      * lia.
      * apply kerv_map_reduce_row.
        apply (kerv_map_red (S n) p rest z0 (z1 ++ [-1]) Hp Hrest Hnz Hpd). exact Hkr.
      * intros d' Hd' Hkd'.
        apply kerv_map_reduce_row in Hkd'.
        assert (Hpd' : dot p ((- dot (tl p) (d' ++ [0]) / hdQ p) :: (d' ++ [0])) == 0)
          by (apply pivot_value; [exact Hnz | lia]).
        assert (Hzz : zerov ((- dot (tl p) (d' ++ [0]) / hdQ p) :: d')).
        { apply Hinj; [simpl; lia|].
          change (kerv M ((- dot (tl p) (d' ++ [0]) / hdQ p) :: (d' ++ [0]))).
          unfold kerv. apply HP. split; [exact Hpd'|].
          apply (kerv_map_red (S n) p rest _ (d' ++ [0]) Hp Hrest Hnz Hpd'). exact Hkd'. }
        inversion Hzz; assumption.
      * rewrite Hs. eexists. split; [reflexivity|].
        constructor; [|exact Hv].
        rewrite Qred_correct.
        rewrite (veq_app_r z' z1 [-1] Hv).
        rewrite dot_cons_hd in Hpd by lia.
        set (X := dot (tl p) (z1 ++ [-1])) in *.
        assert (E : X == - (hdQ p * z0)) by lra. rewrite E. field. exact Hnz.
    + exfalso. apply (not_zerov_one (vzero n)).
      apply Hinj; [simpl; rewrite len_vzero; reflexivity|].
      change (kerv M (1 :: (vzero n ++ [0]))).
      apply zero_col_kernel; [apply pick_pivot_none; exact EP|].
      apply zerov_app_zero. apply zerov_vzero.
Qed.
