From Coq Require Import QArith List Lia Lqa Setoid Morphisms.
From DV Require Import Base.QVec Model.Linear Cert.Duality.
Import ListNotations.
Open Scope Q_scope.

Lemma matvec_map_vscale k A x : veq (matvec (map (vscale k) A) x) (vscale k (matvec A x)).
Proof. induction A as [|r A IH]; simpl; constructor; auto. apply dot_vscale_l. Qed.
Lemma matvec_map2v_vscale k A x : length k = length A ->
  veq (matvec (map2v vscale k A) x) (vmul k (matvec A x)).
Proof.
  revert A; induction k as [|a k IH]; intros [|r A] H; simpl in *; try discriminate; constructor.
  - apply dot_vscale_l.
  - apply IH; lia.
Qed.
Lemma matvec_matmul k A x n : rect n A -> Forall (fun r => length r = length A) k ->
  veq (matvec (matmul k A n) x) (matvec k (matvec A x)).
Proof.
  intros HA Hk. unfold matmul. induction k as [|r k IH]; simpl; constructor.
  - inversion Hk; subst. symmetry. apply transpose_id; auto.
  - apply IH. inversion Hk; auto.
Qed.

Lemma vmul_vadd_r k u v : length u = length v -> veq (vmul k (vadd u v)) (vadd (vmul k u) (vmul k v)).
Proof.
  revert u v; induction k as [|a k IH]; intros [|b u] [|c v] H; simpl in *; try discriminate; try constructor.
  - ring.
  - apply IH; lia.
Qed.
Lemma vscale_vadd k u v : veq (vscale k (vadd u v)) (vadd (vscale k u) (vscale k v)).
Proof.
  revert v; induction u as [|b u IH]; intros [|c v]; simpl; try constructor.
  - ring.
  - apply IH.
Qed.

(* apply_linear_transform is what it says: A' x + base' == K (A x + base) *)
Theorem apply_linear_transform_spec K A base x n :
  rect n A -> length base = length A -> Kshape_ok K (length A) ->
  veq (predict (transA K A n) (transB K base) x) (relcap K A base x).
Proof.
  intros HA Hb HK. unfold predict, relcap, transA, transB.
  assert (Hl : length (matvec A x) = length base) by (rewrite len_matvec; auto).
  destruct K as [k|k|k]; simpl in *.
  - rewrite matvec_map_vscale. symmetry. apply vscale_vadd.
  - rewrite matvec_map2v_vscale by auto. symmetry. apply vmul_vadd_r; auto.
  - destruct HK as [HK1 HK2]. rewrite (matvec_matmul k A x n HA) by exact HK2.
    symmetry. apply matvec_vadd; auto.
Qed.

Lemma len_map2v {B} (f : Q -> vec -> B) k A : length k = length A -> length (map2v f k A) = length A.
Proof. revert A; induction k; intros [|r A] H; simpl in *; try discriminate; auto. Qed.

(* the cvxpy objective of the default fit is the documented weighted squared error *)
Lemma form_residual w A' base' b x : length w = length A' -> length b = length A' -> length base' = length A' ->
  veq (vsub (matvec (form_M w A') x) (form_e w b base'))
      (vmul w (vsub (predict A' base' x) b)).
Proof.
  unfold form_M, form_e, predict. revert A' base' b; induction w as [|a w IH];
    intros [|r A'] [|c base'] [|d b] H1 H2 H3; simpl in *; try discriminate; constructor.
  - rewrite dot_vscale_l. ring.
  - apply IH; lia.
Qed.

Theorem form_lsq_meets_spec K A base w b x n :
  rect n A -> length base = length A -> Kshape_ok K (length A) ->
  length w = length A -> length b = length A ->
  obj_ls (form_M w (transA K A n)) (form_e w b (transB K base)) x == spec_err K A base w b x.
Proof.
  intros HA Hb HK Hw Hbl. unfold obj_ls, spec_err.
  assert (HlA : length (transA K A n) = length A).
  { destruct K; simpl in *; unfold matmul; rewrite ?map_length; auto. apply len_map2v; auto. destruct HK; auto. }
  assert (HlB : length (transB K base) = length A).
  { destruct K; simpl in *; unfold vscale; rewrite ?map_length; auto.
    - rewrite len_vmul; lia. - destruct HK; rewrite len_matvec; auto. }
  rewrite (form_residual w (transA K A n) (transB K base) b x) by lia.
  rewrite (apply_linear_transform_spec K A base x n HA Hb HK). reflexivity.
Qed.
