(* Proofs/DecompT.v — layered decomposition (C11): what the tolerance feasibility part of a passing verdict means, entry by entry. *)
From Coq Require Import QArith Qabs Qminmax List Bool Arith Lia Lqa Setoid Morphisms.
From DV Require Import Base.QVec Run.Verdict Model.Linear Cert.Duality Cert.Qp Model.Decomp Proofs.DecompP.
Import ListNotations.
Open Scope Q_scope.

(* ---------- generic helpers ---------- *)
Lemma in_boxob_nth tol x lo hi : in_boxob tol x lo hi = true -> forall k, (k < length x)%nat ->
  (match nth k lo None with Some l => l - tol <= nthQ x k | None => True end) /\
  (match nth k hi None with Some u => nthQ x k <= u + tol | None => True end).
Proof.
  unfold nthQ. revert lo hi; induction x as [|a x IH]; intros [|l0 lo] [|h0 hi] HB k Hk;
    simpl in HB, Hk; try discriminate; try lia.
  apply andb_true_iff in HB. destruct HB as [HB HB3].
  apply andb_true_iff in HB. destruct HB as [HB1 HB2].
  destruct k as [|k].
  - simpl. split.
    + destruct l0; [apply Qle_bool_iff; exact HB1 | exact I].
    + destruct h0; [apply Qle_bool_iff; exact HB2 | exact I].
  - simpl. apply IH; [exact HB3 | lia].
Qed.

Lemma in_boxob_app tol u u' lo lo' hi hi' : length u = length lo -> length u = length hi ->
  in_boxob tol (u ++ u') (lo ++ lo') (hi ++ hi') = true ->
  in_boxob tol u lo hi = true /\ in_boxob tol u' lo' hi' = true.
Proof.
  revert lo hi; induction u as [|a u IH]; intros [|l0 lo] [|h0 hi] H1 H2 HB; simpl in H1, H2; try discriminate.
  - split; [reflexivity | exact HB].
  - change (((match l0 with Some lq => Qle_bool (lq - tol) a | None => true end) &&
             (match h0 with Some uq => Qle_bool a (uq + tol) | None => true end) &&
             in_boxob tol (u ++ u') (lo ++ lo') (hi ++ hi')) = true) in HB.
    apply andb_true_iff in HB. destruct HB as [HB12 HB3].
    destruct (IH lo hi) as [I1 I2]; [lia | lia | exact HB3 |].
    split; [|exact I2].
    change (((match l0 with Some lq => Qle_bool (lq - tol) a | None => true end) &&
             (match h0 with Some uq => Qle_bool a (uq + tol) | None => true end) &&
             in_boxob tol u lo hi) = true).
    rewrite HB12, I1. reflexivity.
Qed.

Lemma nth_zip2 {A B C} (f : A -> B -> C) da db dc : forall (a : list A) (b : list B) k,
  length a = length b -> (k < length a)%nat -> nth k (zip2 f a b) dc = f (nth k a da) (nth k b db).
Proof.
  induction a as [|x a IH]; intros [|y b] k H Hk; simpl in H, Hk; try discriminate; try lia.
  destruct k as [|k]; simpl; [reflexivity|]. apply IH; lia.
Qed.

(* one row of the box *)
Lemma row_constraints tol (xr mr lb ub : vec) :
  length xr = length lb -> length mr = length lb -> length ub = length lb ->
  in_boxob tol xr (zip2 (fun mk l => if Qeq_bool mk 0 then Some 0 else Some l) mr lb)
                  (zip2 (fun mk u => if Qeq_bool mk 0 then Some 0 else Some u) mr ub) = true ->
  forall k, (k < length lb)%nat ->
    if Qeq_bool (nthQ mr k) 0 then - tol <= nthQ xr k /\ nthQ xr k <= tol
    else nthQ lb k - tol <= nthQ xr k /\ nthQ xr k <= nthQ ub k + tol.
Proof.
  intros H1 H2 H3 HB k Hk.
  assert (Hkx : (k < length xr)%nat) by lia.
  pose proof (in_boxob_nth tol xr _ _ HB k Hkx) as [Hlo Hhi].
  rewrite (nth_zip2 _ 0 0 None) in Hlo by lia.
  rewrite (nth_zip2 _ 0 0 None) in Hhi by lia.
  fold (nthQ mr k) in Hlo, Hhi. fold (nthQ lb k) in Hlo. fold (nthQ ub k) in Hhi.
  destruct (Qeq_bool (nthQ mr k) 0).
  - split; lra.
  - split; assumption.
Qed.

Lemma X_constraints_aux tol lb ub : length ub = length lb -> forall X mask,
  length X = length mask -> Forall (fun r => length r = length lb) X ->
  Forall (fun r => length r = length lb) mask ->
  in_boxob tol (concat X) (xbounds_lo lb mask) (xbounds_hi ub mask) = true ->
  forall l k, (l < length X)%nat -> (k < length lb)%nat ->
    if Qeq_bool (nthQ (nthV mask l) k) 0 then - tol <= nthQ (nthV X l) k /\ nthQ (nthV X l) k <= tol
    else nthQ lb k - tol <= nthQ (nthV X l) k /\ nthQ (nthV X l) k <= nthQ ub k + tol.
Proof.
  intros HU. unfold xbounds_lo, xbounds_hi.
  induction X as [|xr X IH]; intros [|mr mask] HL RX RM HB l k Hl Hk; simpl in HL, Hl;
    try discriminate; try lia.
  pose proof (Forall_inv RX) as Hxr. pose proof (Forall_inv_tail RX) as RX'.
  pose proof (Forall_inv RM) as Hmr. pose proof (Forall_inv_tail RM) as RM'.
  simpl in Hxr, Hmr. cbn [map concat] in HB.
  apply in_boxob_app in HB.
  - destruct HB as [HB1 HB2]. destruct l as [|l].
    + change (nthV (mr :: mask) 0) with mr. change (nthV (xr :: X) 0) with xr.
      apply (row_constraints tol xr mr lb ub); auto.
    + change (nthV (mr :: mask) (S l)) with (nthV mask l). change (nthV (xr :: X) (S l)) with (nthV X l).
      apply (IH mask); auto. lia.
  - rewrite len_zip2; lia.
  - rewrite len_zip2; lia.
Qed.

(* intensities: masked entries are zero, the others within the source bounds (all up to the tolerance) *)
Theorem verdict_X_constraints c : dverdict c = true ->
  forall l k, (l < length (d_X c))%nat -> (k < d_n c)%nat ->
    let x := nthQ (nthV (d_X c) l) k in
    if Qeq_bool (nthQ (nthV (d_mask c) l) k) 0 then - d_tol c <= x /\ x <= d_tol c
    else nthQ (d_lb c) k - d_tol c <= x /\ x <= nthQ (d_ub c) k + d_tol c.
Proof.
  intros H l k Hl Hk. cbv zeta.
  destruct (verdict_shapes c H) as ((_ & RX & _) & HM & RM & Hlb & Hub).
  destruct (verdict_parts c H) as (_ & HF & _).
  unfold feasible_tol in HF. apply andb_true_iff in HF. destruct HF as [HF _].
  apply andb_true_iff in HF. destruct HF as [HB _].
  unfold d_xinst, xstep_inst in HB. cbn [ilb iub] in HB.
  unfold rect in RX, RM. rewrite <- Hlb in RX, RM, Hk.
  apply (X_constraints_aux (d_tol c) (d_lb c) (d_ub c)); auto; lia.
Qed.

(* ---------- equal totals ---------- *)
Lemma pairs_tol tol (r : nat -> vec) z : forall s,
  rows_le_tol tol (matvec (map fst (flat_map (fun l => [(r l, 0); (vscale (-1) (r l), 0)]) s)) z)
                  (map snd (flat_map (fun l => [(r l, 0); (vscale (-1) (r l), 0)]) s)) = true ->
  forall l, In l s -> Qabs (dot (r l) z) <= tol.
Proof.
  induction s as [|a s IH]; intros Hall l Hin; simpl in Hin; [contradiction|].
  cbn [flat_map app map fst snd matvec rows_le_tol] in Hall.
  apply andb_true_iff in Hall. destruct Hall as [H1 Hall].
  apply andb_true_iff in Hall. destruct Hall as [H2 H3].
  destruct Hin as [E|Hin].
  - subst a. apply Qle_bool_iff in H1. apply Qle_bool_iff in H2.
    rewrite dot_vscale_l in H2. apply Qabs_Qle_condition. split; lra.
  - apply IH; auto.
Qed.

(* equal total intensity in consecutive layers when requested *)
Theorem verdict_equal_totals c : dverdict c = true -> d_equal c = true ->
  forall l, (S l < length (d_X c))%nat ->
    Qabs (sumQ (nthV (d_X c) l) - sumQ (nthV (d_X c) (S l))) <= d_tol c.
Proof.
  intros H HE l Hl.
  destruct (verdict_shapes c H) as ((_ & RX & _) & _).
  destruct (verdict_parts c H) as (_ & HF & _).
  unfold feasible_tol in HF. apply andb_true_iff in HF. destruct HF as [HF _].
  apply andb_true_iff in HF. destruct HF as [_ HR].
  unfold d_xinst, xstep_inst in HR. cbn [G h] in HR. rewrite HE in HR. unfold l1_rows in HR.
  set (L := length (d_X c)) in *. set (n := d_n c) in *.
  pose (r := fun l0 : nat => vzero (l0 * n) ++ repeat 1 n ++ repeat (-1) n ++ vzero ((L - 2 - l0) * n)).
  assert (Hz : Qabs (dot (r l) (concat (d_X c))) <= d_tol c).
  { apply (pairs_tol (d_tol c) r (concat (d_X c)) (seq 0 (L - 1))).
    - exact HR.
    - apply in_seq. lia. }
  unfold r in Hz. rewrite (dot_l1row n) in Hz by (auto; lia). exact Hz.
Qed.

(* ---------- opacity bounds ---------- *)
Lemma in_boxob_repeat tol a b : forall x m,
  in_boxob tol x (repeat (Some a) m) (repeat (Some b) m) = true ->
  forall q, In q x -> a - tol <= q /\ q <= b + tol.
Proof.
  induction x as [|x0 x IH]; intros [|m] HB q Hq; simpl in Hq; try contradiction; simpl in HB; try discriminate.
  apply andb_true_iff in HB. destruct HB as [HB HB3].
  apply andb_true_iff in HB. destruct HB as [HB1 HB2].
  destruct Hq as [E|Hq].
  - subst q. apply Qle_bool_iff in HB1. apply Qle_bool_iff in HB2. split; assumption.
  - apply (IH m); assumption.
Qed.

(* opacities within their bounds *)
Theorem verdict_P_bounds c : dverdict c = true ->
  forall i l, (i < length (d_P c))%nat -> (l < length (d_X c))%nat ->
    d_lbp c - d_tol c <= nthQ (nthV (d_P c) i) l /\ nthQ (nthV (d_P c) i) l <= d_ubp c + d_tol c.
Proof.
  intros H i l Hi Hl.
  destruct (verdict_shapes c H) as ((_ & _ & RP & _) & _).
  destruct (verdict_parts c H) as (_ & _ & HF & _).
  unfold feasible_tol in HF. apply andb_true_iff in HF. destruct HF as [HF _].
  apply andb_true_iff in HF. destruct HF as [HB _].
  unfold d_pinst, pstep_inst in HB. cbn [ilb iub] in HB.
  apply (in_boxob_repeat _ _ _ _ _ HB).
  apply in_concat. exists (nthV (d_P c) i). split.
  - unfold nthV. apply nth_In. exact Hi.
  - unfold nthQ. apply nth_In. rewrite (rect_nth _ _ _ RP Hi). exact Hl.
Qed.
