(* Proofs/PoisExcP.v — Poisson and excitation models (C07).
   Q-only statements are closed under the global context; the Poisson theorems over R depend on the
   standard library's axioms of the reals only. *)
From Coq Require Import QArith Qabs Qminmax Qreals Reals List Bool Arith Lia Lqa Lra Setoid Morphisms.
From DV Require Import Base.QVec Run.Verdict Model.Linear Cert.Duality Cert.Hull Model.PoisExc.
Import ListNotations.
Open Scope Q_scope.

(* both Lqa and Lra are loaded: name the rational versions explicitly *)
Ltac qlra := Lqa.lra.
Ltac qnra := Lqa.nra.

(* ================= excitation (all over Q) ================= *)
Lemma exc_diff b p : -1 < b -> -1 < p -> exc b - exc p == (b - p) / ((1 + b) * (1 + p)).
Proof. intros Hb Hp. unfold exc. field. repeat split; intro; qlra. Qed.

Lemma den_pos b p : -1 < b -> -1 < p -> 0 < (1 + b) * (1 + p).
Proof. intros Hb Hp. qnra. Qed.

(* |b/(1+b) - p/(1+p)| = |b - p| / ((1+b)(1+p))  for b, p > -1 *)
Theorem exc_identity b p : -1 < b -> -1 < p -> Qabs (exc b - exc p) == Qabs (b - p) / ((1 + b) * (1 + p)).
Proof.
  intros Hb Hp. rewrite (exc_diff b p Hb Hp). unfold Qdiv. rewrite Qabs_Qmult.
  rewrite (Qabs_pos (/ ((1 + b) * (1 + p)))); [reflexivity|].
  apply Qinv_le_0_compat. pose proof (den_pos b p Hb Hp). qlra.
Qed.

Lemma vmaxabs_nonneg v : 0 <= vmaxabs v.
Proof. induction v as [|a v IH]; simpl; [qlra|]. eapply Qle_trans; [exact IH | apply Q.le_max_r]. Qed.

Lemma vmaxabs_le_iff v s : vmaxabs v <= s <-> (0 <= s /\ Forall (fun a => Qabs a <= s) v).
Proof.
  induction v as [|a v IH]; simpl.
  - split; [intros H; split; [exact H | constructor] | intros [H _]; exact H].
  - rewrite Q.max_lub_iff, IH, Forall_cons_iff. tauto.
Qed.

(* the error is never negative, and zero exactly when the (weighted) captures agree *)
Theorem exc_err_nonneg w b p : 0 <= exc_err w b p.
Proof. unfold exc_err. apply vmaxabs_nonneg. Qed.

Theorem exc_zero_iff b p : -1 < b -> -1 < p -> (exc b - exc p == 0 <-> b == p).
Proof.
  intros Hb Hp. pose proof (den_pos b p Hb Hp) as Hd. rewrite (exc_diff b p Hb Hp). split; intros H.
  - assert (E : b - p == (b - p) / ((1 + b) * (1 + p)) * ((1 + b) * (1 + p))) by (field; repeat split; intro; qlra).
    rewrite H in E. qlra.
  - rewrite H. field. repeat split; intro; qlra.
Qed.

Lemma Forall_map2q_vmul_nth (P : Q -> Prop) (f : Q -> Q -> Q) w b p :
  length w = length b -> length b = length p ->
  (Forall P (map2q f (vmul w b) (vmul w p)) <->
   forall j, (j < length w)%nat -> P (f (nthQ w j * nthQ b j) (nthQ w j * nthQ p j))).
Proof.
  revert b p; induction w as [|a w IH]; intros [|b0 b] [|p0 p] H1 H2; simpl in *; try discriminate.
  - split; [intros _ j Hj; lia | intros _; constructor].
  - rewrite Forall_cons_iff, (IH b p) by lia. split.
    + intros [H0 H] [|j] Hj; [exact H0 | apply H; lia].
    + intros H; split; [apply (H 0%nat); lia | intros j Hj; apply (H (S j)); lia].
Qed.

(* characterisation of the maximum: exc_err <= s  iff  every receptor's difference is <= s *)
Theorem exc_err_le_iff w b p s : length w = length b -> length b = length p -> 0 <= s ->
  (exc_err w b p <= s <-> forall j, (j < length w)%nat ->
       Qabs (exc (nthQ w j * nthQ b j) - exc (nthQ w j * nthQ p j)) <= s).
Proof.
  intros H1 H2 Hs. unfold exc_err. rewrite vmaxabs_le_iff.
  rewrite (Forall_map2q_vmul_nth (fun a => Qabs a <= s) (fun bj pj => exc bj - exc pj) w b p H1 H2).
  tauto.
Qed.

(* ---------- level set ---------- *)
Lemma all_leP_app u1 v1 u2 v2 : all_leP u1 v1 -> all_leP u2 v2 -> all_leP (u1 ++ u2) (v1 ++ v2).
Proof.
  revert v1; induction u1 as [|a u1 IH]; intros [|c v1] H1 H2; simpl in *; try tauto.
  destruct H1 as [Hac H1]. split; [exact Hac | apply IH; assumption].
Qed.

Lemma all_leP_rows (rows : list (vec * Q)) x :
  Forall (fun r => dot (fst r) x <= snd r) rows -> all_leP (matvec (map fst rows) x) (map snd rows).
Proof. induction 1 as [|r rows Hr _ IH]; simpl; [exact I | split; assumption]. Qed.

Lemma nthQ_vadd u v j : length u = length v -> (j < length u)%nat -> nthQ (vadd u v) j = nthQ u j + nthQ v j.
Proof.
  unfold nthQ. revert v j; induction u as [|a u IH]; intros [|c v] [|j] HL Hj; simpl in *; try discriminate; try lia; try reflexivity.
  apply IH; lia.
Qed.

Lemma nthQ_vmul u v j : length u = length v -> (j < length u)%nat -> nthQ (vmul u v) j = nthQ u j * nthQ v j.
Proof.
  unfold nthQ. revert v j; induction u as [|a u IH]; intros [|c v] [|j] HL Hj; simpl in *; try discriminate; try lia; try reflexivity.
  apply IH; lia.
Qed.

Lemma len_predict A' base' x : length base' = length A' -> length (predict A' base' x) = length A'.
Proof. intros H. unfold predict. rewrite len_vadd; rewrite len_matvec; auto. Qed.

Lemma nthQ_predict A' base' x j : length base' = length A' -> (j < length A')%nat ->
  nthQ (predict A' base' x) j == dot (nthV A' j) x + nthQ base' j.
Proof.
  intros HL Hj. unfold predict. rewrite nthQ_vadd by (rewrite len_matvec; lia).
  rewrite nthQ_map_dot by exact Hj. reflexivity.
Qed.

(* the two linear rows of one receptor, in scalar form *)
Lemma rows_scalar s beta pi0 c : c == s * (1 + beta) ->
  - (s * ((1 + beta) * (1 + pi0))) <= beta - pi0 -> beta - pi0 <= s * ((1 + beta) * (1 + pi0)) ->
  - (1 + c) * pi0 <= c - beta /\ (1 - c) * pi0 <= beta + c.
Proof.
  intros Hc H1 H2.
  assert (E : s * ((1 + beta) * (1 + pi0)) == c + c * pi0) by (rewrite Hc; ring).
  rewrite E in H1, H2. split; qnra.
Qed.

(* every point whose error is <= s satisfies all rows of the level-set polyhedron *)
Theorem level_set_contains A' base' n lb ub w b s x :
  rect n A' -> length base' = length A' -> length w = length A' -> length b = length A' -> length x = n ->
  Forall (fun a => 0 <= a) b -> Forall (fun a => 0 < a) w -> 0 <= s ->
  in_boxo x lb ub ->
  Forall (fun a => 0 < 1 + a) (vmul w (predict A' base' x)) ->
  exc_err w b (predict A' base' x) <= s ->
  feasible (level_inst A' base' n lb ub w b s) x.
Proof.
  intros HA Hbase Hw Hb Hx Hbn Hwp Hs Hbox Hpos Herr.
  pose proof (len_predict A' base' x Hbase) as HP.
  unfold feasible, level_inst; simpl. split; [exact Hbox|]. split; [|constructor].
  apply all_leP_rows. unfold level_rows. rewrite Forall_flat_map. apply Forall_forall. intros j Hj.
  apply in_seq in Hj. assert (Hjl : (j < length A')%nat) by lia. clear Hj.
  rewrite (exc_err_le_iff w b (predict A' base' x) s) in Herr by (try exact Hs; lia).
  specialize (Herr j ltac:(lia)).
  rewrite Forall_nth in Hbn, Hwp, Hpos.
  specialize (Hbn j 0 ltac:(lia)). specialize (Hwp j 0 ltac:(lia)).
  specialize (Hpos j 0 ltac:(rewrite len_vmul; lia)).
  fold (nthQ b j) in Hbn. fold (nthQ w j) in Hwp. fold (nthQ (vmul w (predict A' base' x)) j) in Hpos.
  rewrite nthQ_vmul in Hpos by lia.
  pose proof (nthQ_predict A' base' x j Hbase Hjl) as EP.
  set (wj := nthQ w j) in *. set (bj := nthQ b j) in *. set (pj := nthQ (predict A' base' x) j) in *.
  set (D := dot (nthV A' j) x) in *. set (K := nthQ base' j) in *.
  assert (Hbeta : -1 < wj * bj) by qnra.
  assert (Hpi : -1 < wj * pj) by qlra.
  rewrite (exc_identity _ _ Hbeta Hpi) in Herr.
  pose proof (den_pos _ _ Hbeta Hpi) as Hd.
  assert (Habs : Qabs (wj * bj - wj * pj) <= s * ((1 + wj * bj) * (1 + wj * pj))).
  { assert (E : Qabs (wj * bj - wj * pj) ==
                Qabs (wj * bj - wj * pj) / ((1 + wj * bj) * (1 + wj * pj)) * ((1 + wj * bj) * (1 + wj * pj)))
      by (field; repeat split; intro; qlra).
    rewrite E. apply Qmult_le_compat_r; [exact Herr | qlra]. }
  apply Qabs_Qle_condition in Habs. destruct Habs as [Hlo Hhi].
  destruct (rows_scalar s (wj * bj) (wj * pj) (s * (1 + wj * bj)) ltac:(reflexivity) Hlo Hhi) as [R1 R2].
  assert (Epi : wj * pj == wj * D + wj * K) by (rewrite EP; ring).
  constructor; [|constructor; [|constructor]]; simpl; rewrite !dot_vscale_l; fold D.
  - rewrite Epi in R1. qlra.
  - rewrite Epi in R2. qlra.
Qed.

(* hence a Farkas certificate for the level set at s proves that EVERY in-bound x has error > s *)
Theorem exc_level_sound A' base' n lb ub w b s lamv L :
  rect n A' -> length base' = length A' -> length w = length A' -> length b = length A' ->
  Forall (fun a => 0 <= a) b -> Forall (fun a => 0 < a) w -> 0 <= s ->
  wfb (level_inst A' base' n lb ub w b s) = true ->
  cert_ok (level_inst A' base' n lb ub w b s) {| lam := lamv; ys := []; ss := [] |} = true ->
  dual_bound (level_inst A' base' n lb ub w b s) {| lam := lamv; ys := []; ss := [] |} 0 (vzero n) (vzero n) = Some L -> 0 < L ->
  forall x, in_boxo x lb ub -> length x = n -> Forall (fun a => 0 < 1 + a) (vmul w (predict A' base' x)) ->
    s < exc_err w b (predict A' base' x).
Proof.
  intros HA Hbase Hw Hb Hbn Hwp Hs Hwf Hok Hdb HL x Hbox Hx Hpos.
  destruct (Qlt_le_dec s (exc_err w b (predict A' base' x))) as [Hlt|Hle]; [exact Hlt|]. exfalso.
  apply (farkas_infeasible (level_inst A' base' n lb ub w b s) {| lam := lamv; ys := []; ss := [] |} L Hwf Hok Hdb HL x).
  apply level_set_contains; assumption.
Qed.

(* ---------- rational part of the Poisson gap ---------- *)
Lemma len_map2q f u v : length u = length v -> length (map2q f u v) = length u.
Proof. revert v; induction u as [|a u IH]; intros [|c v] H; simpl in *; try discriminate; auto. Qed.

Lemma len_pois_coef w b p : length w = length b -> length b = length p -> length (pois_coef w b p) = length w.
Proof. intros H1 H2. unfold pois_coef. rewrite len_vmul; [reflexivity|]. rewrite len_map2q; lia. Qed.

Lemma pois_gap_dot A' base' n lb ub w b x x' :
  rect n A' -> length base' = length A' -> length w = length A' -> length b = length A' ->
  length x = n -> length x' = n -> in_box x' lb ub ->
  dot (pois_coef w b (predict A' base' x)) (vsub (predict A' base' x) (predict A' base' x'))
    <= pois_gap A' base' n lb ub w b x.
Proof.
  intros HA Hbase Hw Hb Hx Hx' Hbox.
  pose proof (len_predict A' base' x Hbase) as HP. pose proof (len_predict A' base' x' Hbase) as HP'.
  set (c := pois_coef w b (predict A' base' x)).
  assert (Hc : length c = length A') by (unfold c; rewrite len_pois_coef; lia).
  unfold pois_gap, pois_grad. fold c. cbv zeta.
  rewrite dot_vsub_r by lia. unfold predict.
  rewrite !dot_vadd_r by (rewrite len_matvec; lia).
  rewrite !(transpose_id A' c _ n HA Hc).
  assert (Hg : length (tmatvec A' c n) = length x') by (rewrite len_tmatvec; auto).
  pose proof (boxmin_le (tmatvec A' c n) x' lb ub Hg Hbox) as Hm.
  qlra.
Qed.

(* ================= Poisson (statement over R, data in Q) ================= *)
Open Scope R_scope.
(* weighted Poisson negative log-likelihood (up to the constant ln b!) of target b given predicted capture p *)
Fixpoint nllR (w b p : vec) : R :=
  match w, b, p with
  | wj :: w', bj :: b', pj :: p' => Q2R wj * (Q2R pj - Q2R bj * ln (Q2R pj)) + nllR w' b' p'
  | _, _, _ => 0
  end.

Lemma ln_le_sub1 : forall t, 0 < t -> ln t <= t - 1.
Proof.
  intros t Ht. pose proof (exp_ineq1_le (ln t)) as H. rewrite (exp_ln t Ht) in H. lra.
Qed.

Lemma ln_lt_sub1 : forall t, 0 < t -> t <> 1 -> ln t < t - 1.
Proof.
  intros t Ht Hne.
  assert (H : 1 + (t - 1) < exp (t - 1)) by (apply exp_ineq1; lra).
  replace (1 + (t - 1)) with t in H by ring.
  apply (ln_increasing _ _ Ht) in H. rewrite ln_exp in H. lra.
Qed.

Lemma ln_quot x y : 0 < x -> 0 < y -> ln (x / y) = ln x - ln y.
Proof.
  intros Hx Hy. unfold Rdiv. rewrite ln_mult; [|exact Hx|apply Rinv_0_lt_compat; exact Hy].
  rewrite ln_Rinv by exact Hy. ring.
Qed.

(* per receptor: convexity of  p |-> p - b ln p  on p > 0 (tangent at p0) *)
Lemma pois_scalar_tangent (b p0 p : R) : 0 <= b -> 0 < p0 -> 0 < p ->
  (p0 - b * ln p0) + (1 - b / p0) * (p - p0) <= p - b * ln p.
Proof.
  intros Hb Hp0 Hp.
  assert (Hr : 0 < p / p0) by (apply Rdiv_lt_0_compat; lra).
  pose proof (ln_le_sub1 _ Hr) as HL. rewrite (ln_quot p p0 Hp Hp0) in HL.
  assert (H : b * (ln p - ln p0) <= b * (p / p0 - 1)) by (apply Rmult_le_compat_l; lra).
  replace ((1 - b / p0) * (p - p0)) with (p - p0 - b * (p / p0 - 1)) by (field; lra).
  lra.
Qed.

Lemma Q2R_nonneg q : (0 <= q)%Q -> 0 <= Q2R q.
Proof. intros H. apply Qle_Rle in H. rewrite RMicromega.Q2R_0 in H. exact H. Qed.
Lemma Q2R_pos q : (0 < q)%Q -> 0 < Q2R q.
Proof. intros H. apply Qlt_Rlt in H. rewrite RMicromega.Q2R_0 in H. exact H. Qed.

Lemma pois_coef_cons wj w bj b pj p :
  pois_coef (wj :: w) (bj :: b) (pj :: p) = (wj * (1 - bj / pj))%Q :: pois_coef w b p.
Proof. reflexivity. Qed.

(* sum of the per-receptor tangent inequalities *)
Lemma nll_tangent w b p p' :
  length w = length b -> length b = length p -> length p = length p' ->
  Forall (fun a => (0 <= a)%Q) w -> Forall (fun a => (0 <= a)%Q) b ->
  Forall (fun a => (0 < a)%Q) p -> Forall (fun a => (0 < a)%Q) p' ->
  nllR w b p - nllR w b p' <= Q2R (dot (pois_coef w b p) (vsub p p')).
Proof.
  revert b p p'; induction w as [|wj w IH]; intros [|bj b] [|pj p] [|pj' p'] H1 H2 H3 Hw Hb Hp Hp';
    simpl in H1, H2, H3; try discriminate.
  - simpl. rewrite RMicromega.Q2R_0. lra.
  - inversion Hw as [|? ? Hwj Hw0]; subst. inversion Hb as [|? ? Hbj Hb0]; subst.
    inversion Hp as [|? ? Hpj Hp0]; subst. inversion Hp' as [|? ? Hpj' Hp0']; subst.
    specialize (IH b p p' ltac:(lia) ltac:(lia) ltac:(lia) Hw0 Hb0 Hp0 Hp0').
    rewrite pois_coef_cons. simpl.
    assert (Hne : ~ (pj == 0)%Q) by (intro E; rewrite E in Hpj; revert Hpj; apply Qlt_irrefl).
    rewrite Q2R_plus, Q2R_mult, Q2R_mult, !Q2R_minus, (Q2R_div _ _ Hne), RMicromega.Q2R_1.
    apply Q2R_nonneg in Hwj, Hbj. apply Q2R_pos in Hpj, Hpj'.
    pose proof (pois_scalar_tangent (Q2R bj) (Q2R pj) (Q2R pj') Hbj Hpj Hpj') as HT.
    set (W := Q2R wj) in *. set (B := Q2R bj) in *. set (P := Q2R pj) in *. set (P' := Q2R pj') in *.
    set (X := P - B * ln P) in *. set (X' := P' - B * ln P') in *. set (T := 1 - B / P) in *.
    assert (HW : W * (X + T * (P' - P)) <= W * X') by (apply Rmult_le_compat_l; assumption).
    nra.
Qed.

(* the rational Frank-Wolfe gap bounds the likelihood excess of x over EVERY in-bound x' with positive capture *)
Theorem poisson_gap_sound A' base' n lb ub w b x x' :
  rect n A' -> length base' = length A' -> length w = length A' -> length b = length A' ->
  length x = n -> length x' = n ->
  Forall (fun a => (0 <= a)%Q) b -> Forall (fun a => (0 <= a)%Q) w ->
  Forall (fun a => (0 < a)%Q) (predict A' base' x) -> Forall (fun a => (0 < a)%Q) (predict A' base' x') ->
  in_box x' lb ub ->
  nllR w b (predict A' base' x) <= nllR w b (predict A' base' x') + Q2R (pois_gap A' base' n lb ub w b x).
Proof.
  intros HA Hbase Hw Hb Hx Hx' Hbn Hwn Hp Hp' Hbox.
  pose proof (len_predict A' base' x Hbase) as HP. pose proof (len_predict A' base' x' Hbase) as HP'.
  pose proof (nll_tangent w b (predict A' base' x) (predict A' base' x')
                ltac:(lia) ltac:(lia) ltac:(lia) Hwn Hbn Hp Hp') as H1.
  pose proof (pois_gap_dot A' base' n lb ub w b x x' HA Hbase Hw Hb Hx Hx' Hbox) as H2.
  apply Qle_Rle in H2. lra.
Qed.

(* the same through a reference point x0: excess of x over EVERY in-bound x' <= tangent at x towards x0 + gap at x0 *)
Theorem poisson_ref_sound A' base' n lb ub w b x x0 x' :
  rect n A' -> length base' = length A' -> length w = length A' -> length b = length A' ->
  length x = n -> length x0 = n -> length x' = n ->
  Forall (fun a => (0 <= a)%Q) b -> Forall (fun a => (0 <= a)%Q) w ->
  Forall (fun a => (0 < a)%Q) (predict A' base' x) -> Forall (fun a => (0 < a)%Q) (predict A' base' x0) ->
  Forall (fun a => (0 < a)%Q) (predict A' base' x') ->
  in_box x' lb ub ->
  nllR w b (predict A' base' x) <= nllR w b (predict A' base' x') + Q2R (pois_excess A' base' n lb ub w b x x0).
Proof.
  intros HA Hbase Hw Hb Hx Hx0 Hx' Hbn Hwn Hp Hp0 Hp' Hbox.
  pose proof (len_predict A' base' x Hbase) as HP. pose proof (len_predict A' base' x0 Hbase) as HP0.
  pose proof (nll_tangent w b (predict A' base' x) (predict A' base' x0)
                ltac:(lia) ltac:(lia) ltac:(lia) Hwn Hbn Hp Hp0) as H1.
  pose proof (poisson_gap_sound A' base' n lb ub w b x0 x' HA Hbase Hw Hb Hx0 Hx' Hbn Hwn Hp0 Hp' Hbox) as H2.
  unfold pois_excess. rewrite Q2R_plus. lra.
Qed.

(* the likelihood is minimised exactly at p = b (per receptor): in-gamut targets are reproduced *)
Theorem poisson_min_at_target (b p : R) : 0 < b -> 0 < p -> b - b * ln b <= p - b * ln p /\ (b - b * ln b = p - b * ln p -> p = b).
Proof.
  intros Hb Hp.
  assert (Hr : 0 < p / b) by (apply Rdiv_lt_0_compat; lra).
  pose proof (ln_quot p b Hp Hb) as Ed.
  split.
  - pose proof (ln_le_sub1 _ Hr) as HL. rewrite Ed in HL.
    assert (H : b * (ln p - ln b) <= b * (p / b - 1)) by (apply Rmult_le_compat_l; lra).
    replace (b * (p / b - 1)) with (p - b) in H by (field; lra). lra.
  - intros E. destruct (Req_dec p b) as [Heq|Hne]; [exact Heq|]. exfalso.
    assert (Hr1 : p / b <> 1).
    { intro E1. apply Hne. apply (f_equal (fun z => z * b)) in E1.
      replace (p / b * b) with p in E1 by (field; lra). lra. }
    pose proof (ln_lt_sub1 _ Hr Hr1) as HL. rewrite Ed in HL.
    assert (H : b * (ln p - ln b) < b * (p / b - 1)) by (apply Rmult_lt_compat_l; lra).
    replace (b * (p / b - 1)) with (p - b) in H by (field; lra). lra.
Qed.

Print Assumptions exc_identity.
Print Assumptions exc_err_nonneg.
Print Assumptions exc_zero_iff.
Print Assumptions exc_err_le_iff.
Print Assumptions level_set_contains.
Print Assumptions exc_level_sound.
Print Assumptions pois_scalar_tangent.
Print Assumptions poisson_gap_sound.
Print Assumptions poisson_min_at_target.
