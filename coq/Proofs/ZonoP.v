(* Proofs/ZonoP.v — the gamut (image of the intensity box) is the convex hull of the corner images
   (C03).  All statements proved, no axioms. *)
From Coq Require Import QArith Qabs Qminmax List Bool Lia Lqa Setoid Morphisms.
From DV Require Import Base.QVec Run.Verdict Model.Linear Cert.Hull.
Import ListNotations.
Open Scope Q_scope.

Definition somes (v : vec) : list (option Q) := map Some v.

(* ---------- elementary vector identities (all unconditional: vadd/vsub truncate) ---------- *)
Lemma vadd_assoc u v w : veq (vadd (vadd u v) w) (vadd u (vadd v w)).
Proof.
  revert v w; induction u as [|a u IH]; intros [|b v] [|c w]; simpl; try constructor; try ring; try apply IH.
Qed.

Lemma vscale_vadd s u v : veq (vscale s (vadd u v)) (vadd (vscale s u) (vscale s v)).
Proof.
  revert v; induction u as [|a u IH]; intros [|b v]; simpl; try constructor; try ring; try apply IH.
Qed.

Lemma vscale_vscale s t u : veq (vscale s (vscale t u)) (vscale (s * t) u).
Proof. induction u as [|a u IH]; simpl; constructor; [ring | apply IH]. Qed.

Lemma vscale_1 u : veq (vscale 1 u) u.
Proof. induction u as [|a u IH]; cbn [vscale map]; constructor; [ring | apply IH]. Qed.

Lemma vscale_plus s t u : veq (vadd (vscale s u) (vscale t u)) (vscale (s + t) u).
Proof. induction u as [|a u IH]; simpl; constructor; [ring | apply IH]. Qed.

Lemma vscale_vzero s m : veq (vscale s (vzero m)) (vzero m).
Proof. induction m as [|m IH]; cbn [vzero repeat vscale map]; constructor; [ring | apply IH]. Qed.

Lemma vadd_vzero_l m v : length v = m -> veq (vadd (vzero m) v) v.
Proof.
  revert v; induction m as [|m IH]; intros [|b v] H; cbn [length] in H; try discriminate;
    cbn [vzero repeat vadd].
  - constructor.
  - constructor; [ring | apply IH; lia].
Qed.

Lemma vscale_nonneg s lam : 0 <= s -> Forall (fun l => 0 <= l) lam -> Forall (fun l => 0 <= l) (vscale s lam).
Proof.
  intros Hs H. induction H as [|a lam Ha H IH]; cbn [vscale map]; constructor.
  - apply Qmult_le_0_compat; assumption.
  - apply IH.
Qed.

Global Instance predict_Proper A' base' : Proper (veq ==> veq) (predict A' base').
Proof. intros x y H. unfold predict. rewrite H. reflexivity. Qed.

(* ---------- comb: structural lemmas ---------- *)
Lemma len_comb lam P m : rect m P -> length (comb lam P m) = m.
Proof.
  revert P; induction lam as [|l lam IH]; intros [|p P] HP; cbn [comb]; try apply len_vzero.
  inversion HP as [|p0 P0 Hp HP']; subst.
  rewrite len_vadd; rewrite len_vscale; auto. rewrite IH; auto.
Qed.

Lemma comb_app lam1 lam2 P1 P2 m : length lam1 = length P1 -> rect m P2 ->
  veq (comb (lam1 ++ lam2) (P1 ++ P2) m) (vadd (comb lam1 P1 m) (comb lam2 P2 m)).
Proof.
  revert P1; induction lam1 as [|l lam1 IH]; intros [|p P1] HL HP2; cbn [length] in HL; try discriminate;
    cbn [app comb].
  - symmetry. apply vadd_vzero_l. apply len_comb; assumption.
  - rewrite IH by (try lia; assumption). symmetry. apply vadd_assoc.
Qed.

Lemma comb_vscale s lam P m : veq (comb (vscale s lam) P m) (vscale s (comb lam P m)).
Proof.
  revert P; induction lam as [|l lam IH]; intros [|p P];
    change (vscale s []) with (@nil Q); try change (vscale s (l :: lam)) with ((s * l) :: vscale s lam);
    cbn [comb]; try (symmetry; apply vscale_vzero).
  rewrite IH, vscale_vadd, vscale_vscale. reflexivity.
Qed.

Lemma comb_cons c lam P m : length lam = length P ->
  veq (comb lam (map (cons c) P) (S m)) ((c * sumQ lam) :: comb lam P m).
Proof.
  revert P; induction lam as [|l lam IH]; intros [|p P] HL; cbn [length] in HL; try discriminate;
    cbn [map comb sumQ].
  - cbn [vzero repeat]. constructor; [ring | reflexivity].
  - rewrite IH by lia. cbn [vscale map vadd]. constructor; [ring | reflexivity].
Qed.

(* ---------- corners ---------- *)
Lemma corners_length lb ub : length lb = length ub -> length (corners lb ub) = Nat.pow 2 (length lb).
Proof.
  revert ub; induction lb as [|l lb IH]; intros [|u ub] H; cbn [length] in H; try discriminate; cbn [corners length].
  - reflexivity.
  - rewrite app_length, !map_length, IH by lia. cbn [Nat.pow]. lia.
Qed.

Lemma corners_rect lb ub : length lb = length ub -> rect (length lb) (corners lb ub).
Proof.
  revert ub; induction lb as [|l lb IH]; intros [|u ub] H; cbn [length] in H; try discriminate; cbn [corners length].
  - constructor; [reflexivity | constructor].
  - specialize (IH ub ltac:(lia)). unfold rect in *. apply Forall_app; split;
      apply Forall_forall; intros c Hc; apply in_map_iff in Hc; destruct Hc as (c' & <- & Hc');
      cbn [length]; f_equal; revert c' Hc'; apply Forall_forall; exact IH.
Qed.

Lemma corners_in_box lb ub c : Forall2 Qle lb ub -> In c (corners lb ub) -> in_box c lb ub.
Proof.
  intros H; revert c; induction H as [|l u lb ub Hlu H IH]; intros c Hc; cbn [corners] in Hc.
  - destruct Hc as [<-|[]]. exact I.
  - apply in_app_or in Hc. destruct Hc as [Hc|Hc]; apply in_map_iff in Hc; destruct Hc as (c' & <- & Hc');
      cbn [in_box]; (split; [|split]); try lra; apply IH; assumption.
Qed.

(* ---------- boxes are convex ---------- *)
Lemma in_box_vzero lb ub : length lb = length ub -> in_box (vzero (length lb)) (vscale 0 lb) (vscale 0 ub).
Proof.
  revert ub; induction lb as [|l lb IH]; intros [|u ub] H; cbn [length] in H; try discriminate;
    cbn [length vzero repeat vscale map in_box].
  - exact I.
  - split; [lra | split; [lra | apply IH; lia]].
Qed.

Lemma in_box_vadd x : forall y lb ub lb' ub', in_box x lb ub -> in_box y lb' ub' ->
  in_box (vadd x y) (vadd lb lb') (vadd ub ub').
Proof.
  induction x as [|a x IH]; intros [|b y] [|l lb] [|u ub] [|l' lb'] [|u' ub']; simpl; try tauto.
  intros (H1 & H2 & H3) (H4 & H5 & H6). split; [lra | split; [lra | apply IH; assumption]].
Qed.

Lemma in_box_vscale s x : forall lb ub, 0 <= s -> in_box x lb ub -> in_box (vscale s x) (vscale s lb) (vscale s ub).
Proof.
  induction x as [|a x IH]; intros [|l lb] [|u ub] Hs; simpl; try tauto.
  intros (H1 & H2 & H3). split; [nra | split; [nra | apply IH; assumption]].
Qed.

Lemma in_box_veq x x' lb lb' ub ub' : veq x x' -> veq lb lb' -> veq ub ub' -> in_box x lb ub -> in_box x' lb' ub'.
Proof.
  intros Hx; revert lb lb' ub ub'; induction Hx as [|a a' x x' Ha Hx IH]; intros lb lb' ub ub' Hl Hu;
    destruct Hl as [|l l' lb lb' Hl Hlb]; destruct Hu as [|u u' ub ub' Hu Hub]; simpl; try tauto.
  intros (H1 & H2 & H3). split; [lra | split; [lra | eapply IH; eauto]].
Qed.

Lemma comb_in_box_gen lam : forall P lb ub, length lb = length ub -> Forall (fun p => in_box p lb ub) P ->
  length lam = length P -> Forall (fun l => 0 <= l) lam ->
  in_box (comb lam P (length lb)) (vscale (sumQ lam) lb) (vscale (sumQ lam) ub).
Proof.
  induction lam as [|l lam IH]; intros [|p P] lb ub Hlen HP HL HN; cbn [length] in HL; try discriminate;
    cbn [comb sumQ].
  - apply in_box_vzero; assumption.
  - inversion HP as [|p0 P0 Hp HP']; subst. inversion HN as [|l0 lam0 Hl HN']; subst.
    eapply in_box_veq; [reflexivity | apply vscale_plus | apply vscale_plus |].
    apply in_box_vadd; [apply in_box_vscale; assumption | apply IH; auto].
Qed.

(* a convex combination of points of a box lies in the box *)
Lemma comb_in_box lam P lb ub : length lb = length ub -> Forall (fun p => in_box p lb ub) P -> length lam = length P ->
  Forall (fun l => 0 <= l) lam -> sumQ lam == 1 -> in_box (comb lam P (length lb)) lb ub.
Proof.
  intros Hlen HP HL HN HS.
  eapply in_box_veq; [reflexivity | | | apply comb_in_box_gen; eassumption].
  - rewrite HS. apply vscale_1.
  - rewrite HS. apply vscale_1.
Qed.

(* ---------- affine maps commute with convex combinations ---------- *)
Lemma matvec_vzero_base A' base' n : length base' = length A' ->
  veq (vadd (matvec A' (vzero n)) (vscale 0 base')) (vzero (length A')).
Proof.
  revert base'; induction A' as [|r A' IH]; intros [|b base'] H; cbn [length] in H; try discriminate;
    cbn [matvec map vscale vadd length vzero repeat].
  - constructor.
  - constructor; [rewrite dot_vzero_r; ring | apply IH; lia].
Qed.

Lemma affine_ident l s u : forall b v,
  veq (vadd (vscale l (vadd u b)) (vadd v (vscale s b))) (vadd (vadd (vscale l u) v) (vscale (l + s) b)).
Proof.
  induction u as [|a u IH]; intros [|b0 b] [|c v]; simpl; try constructor; try ring; try apply IH.
Qed.

Lemma predict_comb_gen A' base' lam : forall X n, rect n A' -> length base' = length A' ->
  Forall (fun x => length x = n) X -> length lam = length X ->
  veq (comb lam (map (predict A' base') X) (length A'))
      (vadd (matvec A' (comb lam X n)) (vscale (sumQ lam) base')).
Proof.
  induction lam as [|l lam IH]; intros [|x X] n HA Hb HX HL; cbn [length] in HL; try discriminate;
    cbn [map comb sumQ].
  - symmetry. apply matvec_vzero_base; assumption.
  - inversion HX as [|x0 X0 Hx HX']; subst.
    rewrite (IH X (length x) HA Hb HX' ltac:(lia)).
    rewrite matvec_vadd by (rewrite len_vscale, len_comb; auto).
    rewrite matvec_vscale. unfold predict. apply affine_ident.
Qed.

Lemma predict_comb A' base' lam X n : rect n A' -> length base' = length A' -> Forall (fun x => length x = n) X ->
  length lam = length X -> sumQ lam == 1 ->
  veq (comb lam (map (predict A' base') X) (length A')) (predict A' base' (comb lam X n)).
Proof.
  intros HA Hb HX HL HS. rewrite (predict_comb_gen A' base' lam X n HA Hb HX HL).
  unfold predict. rewrite HS, vscale_1. reflexivity.
Qed.

(* ---------- every point of a box is a convex combination of its corners ---------- *)
Lemma convex_weight l u a : l <= a -> a <= u -> exists t, 0 <= t /\ t <= 1 /\ (1 - t) * l + t * u == a.
Proof.
  intros H1 H2. destruct (Qlt_le_dec l u) as [Hlt|Hge].
  - exists ((a - l) / (u - l)). assert (Hd : 0 < u - l) by lra.
    split; [|split].
    + unfold Qdiv. apply Qmult_le_0_compat; [lra|]. apply Qlt_le_weak, Qinv_lt_0_compat; exact Hd.
    + apply Qle_shift_div_r; lra.
    + field. intro E; lra.
  - exists 0. split; [lra | split; [lra|]]. lra.
Qed.

Lemma box_is_hull x : forall lb ub, in_box x lb ub ->
  exists lam, length lam = length (corners lb ub) /\ Forall (fun l => 0 <= l) lam /\ sumQ lam == 1 /\
              veq (comb lam (corners lb ub) (length lb)) x.
Proof.
  induction x as [|a x IH]; intros [|l lb] [|u ub] HB; cbn [in_box] in HB; try contradiction.
  - exists [1]. cbn [corners length comb vscale map vadd sumQ]. split; [reflexivity|]. split.
    + constructor; [lra | constructor].
    + split; [ring | constructor].
  - destruct HB as (H1 & H2 & HB).
    destruct (IH lb ub HB) as (lam' & HL & HN & HS & HC).
    destruct (convex_weight l u a H1 H2) as (t & Ht0 & Ht1 & Hta).
    destruct (in_box_len _ _ _ HB) as [Hlen1 Hlen2].
    assert (HR : rect (length lb) (corners lb ub)) by (apply corners_rect; lia).
    exists (vscale (1 - t) lam' ++ vscale t lam'). cbn [corners length].
    split; [|split; [|split]].
    + rewrite !app_length, !len_vscale, !map_length, HL. reflexivity.
    + apply Forall_app; split; apply vscale_nonneg; auto; lra.
    + rewrite sumQ_app, !sumQ_vscale, HS. ring.
    + rewrite comb_app.
      * rewrite !comb_cons by (rewrite len_vscale; assumption).
        cbn [vadd]. constructor.
        -- rewrite !sumQ_vscale, HS. rewrite <- Hta. ring.
        -- rewrite !comb_vscale, HC, vscale_plus.
           transitivity (vscale 1 x); [|apply vscale_1].
           apply vscale_Proper; [ring | reflexivity].
      * rewrite len_vscale, map_length. assumption.
      * unfold rect in *. apply Forall_forall; intros c Hc; apply in_map_iff in Hc.
        destruct Hc as (c' & <- & Hc'). cbn [length]. f_equal. revert c' Hc'. apply Forall_forall. exact HR.
Qed.

Lemma in_boxo_somes x lb ub : in_boxo x (somes lb) (somes ub) <-> in_box x lb ub.
Proof.
  unfold somes. revert lb ub; induction x as [|a x IH]; intros [|l lb] [|u ub]; simpl; try tauto.
  rewrite IH. tauto.
Qed.

(* ---- MAIN THEOREM: zonotope = hull of the images of the 2^n corners ---- *)
Theorem zonotope_is_hull A' base' lb ub b n :
  rect n A' -> length base' = length A' -> length lb = n -> length ub = n -> Forall2 Qle lb ub ->
  (reproducible A' base' (somes lb) (somes ub) b <-> in_conv (get_P A' base' lb ub) (length A') b).
Proof.
  intros HA Hb Hlb Hub Hle. subst n.
  assert (HR : rect (length lb) (corners lb ub)) by (apply corners_rect; lia).
  unfold reproducible, in_conv, get_P. split.
  - intros (x & HB & HP). apply in_boxo_somes in HB.
    destruct (box_is_hull x lb ub HB) as (lam & HL & HN & HS & HC).
    exists lam. split; [rewrite map_length; exact HL|]. split; [exact HN|]. split; [exact HS|].
    rewrite (predict_comb A' base' lam (corners lb ub) (length lb) HA Hb HR HL HS).
    rewrite HC. exact HP.
  - intros (lam & HL & HN & HS & HC). rewrite map_length in HL.
    exists (comb lam (corners lb ub) (length lb)). split.
    + apply in_boxo_somes. apply comb_in_box; auto.
      apply Forall_forall. intros c Hc. apply corners_in_box; assumption.
    + rewrite <- (predict_comb A' base' lam (corners lb ub) (length lb) HA Hb HR HL HS). exact HC.
Qed.

(* ---- membership is unchanged by subtracting a common offset from P and b (in_hull_from_A) ---- *)
Lemma vsub_vzero_base m off : length off = m -> veq (vsub (vzero m) (vscale 0 off)) (vzero m).
Proof.
  revert off; induction m as [|m IH]; intros [|o off] H; cbn [length] in H; try discriminate;
    cbn [vzero repeat vscale map vsub].
  - constructor.
  - constructor; [ring | apply IH; lia].
Qed.

Lemma offset_ident l s p : forall off c,
  veq (vadd (vscale l (vsub p off)) (vsub c (vscale s off))) (vsub (vadd (vscale l p) c) (vscale (l + s) off)).
Proof.
  induction p as [|a p IH]; intros [|o off] [|c0 c]; simpl; try constructor; try ring; try apply IH.
Qed.

Lemma comb_vsub lam : forall P m off, length off = m -> length lam = length P ->
  veq (comb lam (map (fun p => vsub p off) P) m) (vsub (comb lam P m) (vscale (sumQ lam) off)).
Proof.
  induction lam as [|l lam IH]; intros [|p P] m off Ho HL; cbn [length] in HL; try discriminate;
    cbn [map comb sumQ].
  - symmetry. apply vsub_vzero_base; assumption.
  - rewrite (IH P m off Ho ltac:(lia)). apply offset_ident.
Qed.

Lemma vsub_cancel u : forall v off, length u = length off -> length v = length off ->
  veq (vsub u off) (vsub v off) -> veq u v.
Proof.
  induction u as [|a u IH]; intros [|b v] [|o off] Hu Hv H; cbn [length] in Hu, Hv; try discriminate.
  - constructor.
  - cbn [vsub] in H. inversion H as [|x y X Y Hxy HXY]; subst. constructor; [lra|].
    apply (IH v off); auto; lia.
Qed.

Theorem offset_invariant P m b off : Forall (fun p => length p = m) P -> length b = m -> length off = m ->
  (in_conv P m b <-> in_conv (map (fun p => vsub p off) P) m (vsub b off)).
Proof.
  intros HP Hb Ho. unfold in_conv. split.
  - intros (lam & HL & HN & HS & HC). exists lam.
    split; [rewrite map_length; exact HL|]. split; [exact HN|]. split; [exact HS|].
    rewrite (comb_vsub lam P m off Ho HL). rewrite HS, vscale_1, HC. reflexivity.
  - intros (lam & HL & HN & HS & HC). rewrite map_length in HL. exists lam.
    split; [exact HL|]. split; [exact HN|]. split; [exact HS|].
    rewrite (comb_vsub lam P m off Ho HL) in HC. rewrite HS, vscale_1 in HC.
    apply (vsub_cancel _ _ off); [rewrite len_comb; auto; lia | lia | exact HC].
Qed.

(* ---- chromatic gamut = cone.  For points with positive coordinate sums, b/|b|_1 is a convex
   combination of the p_i/|p_i|_1 iff b is a non-negative combination of the p_i ---- *)
Definition l1normalise (p : vec) : vec := vscale (/ sumQ p) p.
Definition in_cone (P : mat) (m : nat) (b : vec) : Prop :=
  exists mu, length mu = length P /\ Forall (fun l => 0 <= l) mu /\ veq (comb mu P m) b.

(* weights computed point by point *)
Fixpoint zipw (f : Q -> vec -> Q) (lam : vec) (P : mat) : vec :=
  match lam, P with l :: lam', p :: P' => f l p :: zipw f lam' P' | _, _ => [] end.

Lemma zipw_length f lam : forall P, length lam = length P -> length (zipw f lam P) = length P.
Proof.
  induction lam as [|l lam IH]; intros [|p P] HL; cbn [length] in HL; try discriminate; cbn [zipw length].
  - reflexivity.
  - f_equal. apply IH. lia.
Qed.

Lemma zipw_nonneg f lam : forall P, (forall l p, 0 <= l -> In p P -> 0 <= f l p) ->
  Forall (fun l => 0 <= l) lam -> Forall (fun l => 0 <= l) (zipw f lam P).
Proof.
  induction lam as [|l lam IH]; intros [|p P] Hf HN; cbn [zipw]; try constructor.
  - inversion HN; subst. apply Hf; [assumption | left; reflexivity].
  - inversion HN; subst. apply IH; [|assumption]. intros l' p' Hl' Hp'. apply Hf; [assumption | right; assumption].
Qed.

(* conv -> cone:  mu_i = c * lam_i / |p_i| *)
Lemma comb_to_cone c lam : forall P m,
  veq (comb (zipw (fun l p => c * l / sumQ p) lam P) P m) (vscale c (comb lam (map l1normalise P) m)).
Proof.
  induction lam as [|l lam IH]; intros [|p P] m; cbn [zipw map comb]; try (symmetry; apply vscale_vzero).
  rewrite IH, vscale_vadd. unfold l1normalise. rewrite !vscale_vscale.
  apply vadd_Proper; [|reflexivity]. apply vscale_Proper; [|reflexivity]. unfold Qdiv. ring.
Qed.

(* cone -> conv:  lam_i = mu_i * |p_i| / c *)
Lemma cone_to_comb c mu : forall P m, Forall (fun p => length p = m /\ 0 < sumQ p) P ->
  veq (comb (zipw (fun l p => l * sumQ p / c) mu P) (map l1normalise P) m) (vscale (/ c) (comb mu P m)).
Proof.
  induction mu as [|l mu IH]; intros [|p P] m HP; cbn [zipw map comb]; try (symmetry; apply vscale_vzero).
  inversion HP as [|p0 P0 [Hp Hs] HP']; subst.
  rewrite (IH P (length p) HP'), vscale_vadd. unfold l1normalise. rewrite !vscale_vscale.
  apply vadd_Proper; [|reflexivity]. apply vscale_Proper; [|reflexivity].
  unfold Qdiv. transitivity (/ c * l * (sumQ p * / sumQ p)); [ring|].
  rewrite Qmult_inv_r by (intro E; lra). ring.
Qed.

Lemma cone_sum c mu : forall P m, Forall (fun p => length p = m /\ 0 < sumQ p) P -> length mu = length P ->
  sumQ (zipw (fun l p => l * sumQ p / c) mu P) == sumQ (comb mu P m) / c.
Proof.
  induction mu as [|l mu IH]; intros [|p P] m HP HL; cbn [length] in HL; try discriminate; cbn [zipw comb sumQ].
  - rewrite sumQ_vzero. unfold Qdiv. ring.
  - inversion HP as [|p0 P0 [Hp Hs] HP']; subst.
    assert (HR : rect (length p) P).
    { unfold rect. apply Forall_forall. intros q Hq. rewrite Forall_forall in HP'. apply (HP' q Hq). }
    rewrite sumQ_vadd by (rewrite len_vscale, len_comb; auto).
    rewrite sumQ_vscale, (IH P (length p) HP' ltac:(lia)). unfold Qdiv. ring.
Qed.

Theorem chromatic_iff_cone P m b : Forall (fun p => length p = m /\ 0 < sumQ p) P -> length b = m -> 0 < sumQ b ->
  (in_conv (map l1normalise P) m (l1normalise b) <-> in_cone P m b).
Proof.
  intros HP Hb Hc. unfold in_conv, in_cone.
  assert (Hc0 : ~ sumQ b == 0) by (intro E; lra).
  assert (Hci : 0 < / sumQ b) by (apply Qinv_lt_0_compat; exact Hc).
  split.
  - intros (lam & HL & HN & HS & HC). rewrite map_length in HL.
    exists (zipw (fun l p => sumQ b * l / sumQ p) lam P).
    split; [apply zipw_length; exact HL|]. split.
    + apply zipw_nonneg; [|exact HN]. intros l p Hl Hp.
      rewrite Forall_forall in HP. destruct (HP p Hp) as [_ Hs].
      unfold Qdiv. apply Qmult_le_0_compat.
      * apply Qmult_le_0_compat; [lra | exact Hl].
      * apply Qlt_le_weak, Qinv_lt_0_compat; exact Hs.
    + rewrite comb_to_cone, HC. unfold l1normalise. rewrite vscale_vscale.
      transitivity (vscale 1 b); [|apply vscale_1].
      apply vscale_Proper; [|reflexivity]. field. exact Hc0.
  - intros (mu & HL & HN & HC).
    exists (zipw (fun l p => l * sumQ p / sumQ b) mu P).
    split; [rewrite map_length; apply zipw_length; exact HL|]. split; [|split].
    + apply zipw_nonneg; [|exact HN]. intros l p Hl Hp.
      rewrite Forall_forall in HP. destruct (HP p Hp) as [_ Hs].
      unfold Qdiv. apply Qmult_le_0_compat.
      * apply Qmult_le_0_compat; [exact Hl | lra].
      * lra.
    + rewrite (cone_sum (sumQ b) mu P m HP HL), HC. field. exact Hc0.
    + rewrite (cone_to_comb (sumQ b) mu P m HP), HC. reflexivity.
Qed.
