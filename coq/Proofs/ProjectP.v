(* Proofs/ProjectP.v — hull projections (C17).  All statements proved as stated, no axioms. *)
From Coq Require Import QArith Qabs Qminmax List Bool Arith Lia Lqa Setoid Morphisms.
From DV Require Import Base.QVec Run.Verdict Model.Linear Cert.Duality Cert.Hull Model.Project.
From DV Require Import Proofs.ZonoP.
Import ListNotations.
Open Scope Q_scope.

(* the hull as the set of points satisfying every facet inequality  n_f . z + o_f <= 0 *)
Definition in_hull_eqs (eqs : mat) (z : vec) : Prop :=
  Forall (fun r => dot (removelast r) z + last r 0 <= 0) eqs.

(* ---- 1. nearest point ---- *)
Lemma dot_unit_zero : forall d s k x, (k < s)%nat ->
  dot (map (fun j => if Nat.eqb k j then 1 else 0) (seq s d)) x == 0.
Proof.
  induction d as [|d IH]; intros s k x Hk; simpl.
  - reflexivity.
  - destruct x as [|a x]; [reflexivity|].
    destruct (Nat.eqb_spec k s) as [E|E]; [lia|].
    rewrite IH by lia. ring.
Qed.

Lemma dot_unit : forall d s i x, length x = d -> (i < d)%nat ->
  dot (map (fun j => if Nat.eqb (s + i) j then 1 else 0) (seq s d)) x == nth i x 0.
Proof.
  induction d as [|d IH]; intros s i x Hx Hi; [lia|].
  destruct x as [|a x]; [discriminate|]. simpl in Hx.
  cbn [seq map dot].
  destruct i as [|i].
  - replace (s + 0)%nat with s by lia. rewrite Nat.eqb_refl.
    rewrite dot_unit_zero by lia. simpl. ring.
  - destruct (Nat.eqb_spec (s + S i) s) as [E|E]; [lia|].
    replace (s + S i)%nat with (S s + i)%nat by lia.
    rewrite IH by lia. simpl. ring.
Qed.

Lemma map_seq_veq (f : nat -> Q) : forall d s x, length x = d ->
  (forall i, (i < d)%nat -> f (s + i)%nat == nth i x 0) -> veq (map f (seq s d)) x.
Proof.
  induction d as [|d IH]; intros s x Hx Hf; destruct x as [|a x]; try discriminate; simpl.
  - constructor.
  - constructor.
    + specialize (Hf O ltac:(lia)). replace (s + 0)%nat with s in Hf by lia. exact Hf.
    + apply IH. simpl in Hx; lia. intros i Hi. specialize (Hf (S i) ltac:(lia)).
      replace (s + S i)%nat with (S s + i)%nat in Hf by lia. exact Hf.
Qed.

Lemma matvec_ident d x : length x = d -> veq (matvec (ident d) x) x.
Proof.
  intros Hx. unfold matvec, ident. rewrite map_map.
  apply map_seq_veq; auto. intros i Hi. simpl. apply (dot_unit d 0 i x Hx Hi).
Qed.

Lemma rect_ident d : rect d (ident d).
Proof.
  unfold rect, ident. apply Forall_forall. intros r Hr. apply in_map_iff in Hr.
  destruct Hr as [i [Hi _]]. subst r. rewrite map_length, seq_length. reflexivity.
Qed.
Lemma len_ident d : length (ident d) = d.
Proof. unfold ident. rewrite map_length, seq_length. reflexivity. Qed.

Lemma obj_ident d b x : length x = d -> length b = d -> obj_ls (ident d) b x == dist2 b x.
Proof.
  intros Hx Hb. unfold obj_ls, dist2. rewrite (matvec_ident d x Hx). reflexivity.
Qed.

Lemma in_boxo_none z : in_boxo z (repeat None (length z)) (repeat None (length z)).
Proof. induction z as [|a z IH]; simpl; auto. Qed.

Lemma hull_lin eqs z : in_hull_eqs eqs z ->
  all_leP (matvec (normals eqs) z) (vscale (-1) (offsets eqs)).
Proof.
  unfold in_hull_eqs. induction eqs as [|r eqs IH]; intros H; simpl.
  - exact I.
  - inversion H as [|r0 e0 Hr He]; subst. split.
    + lra.
    + apply IH; assumption.
Qed.

Lemma hull_feasible d eqs z : length z = d -> in_hull_eqs eqs z -> feasible (hull_inst d eqs) z.
Proof.
  intros Hz Hin. unfold feasible, hull_inst; simpl. split; [|split].
  - subst d. apply in_boxo_none.
  - apply hull_lin; assumption.
  - constructor.
Qed.

(* a passing verdict certifies: the implementation's point satisfies the facet inequalities up to p_tolf and
   NO point of the hull is closer to the query point by more than p_tol (in squared distance) *)
Theorem nearest_point_sound (c : pcase) : pverdict c = true ->
  Forall (fun r => length r = S (p_d c)) (p_eqs c) ->
  forall z, length z = p_d c -> in_hull_eqs (p_eqs c) z -> dist2 (p_b c) (p_x c) <= dist2 (p_b c) z + p_tol c.
Proof.
  intros Hv Hlen z Hz Hin. unfold pverdict in Hv. cbv zeta in Hv.
  rewrite !andb_true_iff in Hv. destruct Hv as [[[[[[Hft Hins] Hwf] Hok] Hx0] Hb] Hm].
  apply Nat.eqb_eq in Hx0, Hb.
  destruct (dual_bound _ _ _ _ _) as [L|] eqn:E; [|discriminate].
  apply Qle_bool_iff in Hm.
  assert (HL : L <= obj_ls (ident (p_d c)) (p_b c) z).
  { apply (dual_bound_sound (hull_inst (p_d c) (p_eqs c)) {| lam := p_lam c; ys := []; ss := [] |}
             (obj_ls (ident (p_d c)) (p_b c)) (obj_ls (ident (p_d c)) (p_b c) (p_x0 c))
             (grad_ls (p_d c) (ident (p_d c)) (p_b c) (p_x0 c)) (p_x0 c) L Hwf Hok).
    - unfold grad_ls. rewrite len_vscale. simpl. apply len_tmatvec. apply rect_ident.
    - simpl. exact Hx0.
    - intros x Hx. simpl in Hx. apply tangent_ls; auto.
      + apply rect_ident.
      + rewrite len_ident. exact Hb.
    - exact E.
    - apply hull_feasible; assumption. }
  rewrite obj_ident in HL by assumption. lra.
Qed.

(* ---- 2. boundary hit ---- *)
Lemma alpha_fold_spec b : forall eqs acc,
  Forall (fun r => last r 0 < 0) eqs -> (forall a0, acc = Some a0 -> 0 < a0) ->
  (alpha_fold b (normals eqs) (offsets eqs) acc = None /\ acc = None /\
     Forall (fun r => dot b (removelast r) <= 0) eqs) \/
  (exists a, alpha_fold b (normals eqs) (offsets eqs) acc = Some a /\ 0 < a /\
     (forall a0, acc = Some a0 -> a <= a0) /\
     Forall (fun r => a * dot b (removelast r) + last r 0 <= 0) eqs /\
     ((exists a0, acc = Some a0 /\ a == a0) \/
      Exists (fun r => a * dot b (removelast r) + last r 0 == 0) eqs)).
Proof.
  induction eqs as [|r eqs IH]; intros acc Hneg Hacc.
  - simpl. destruct acc as [a0|].
    + right. exists a0. split; [reflexivity|]. split; [apply Hacc; reflexivity|].
      split; [intros a1 E; inversion E; subst; lra|]. split; [constructor|].
      left. exists a0. split; [reflexivity|reflexivity].
    + left. split; [reflexivity|]. split; [reflexivity|constructor].
  - inversion Hneg as [|r0 e0 Ho Hneg']; subst.
    cbn [normals offsets map alpha_fold].
    fold (normals eqs). fold (offsets eqs).
    set (den := dot b (removelast r)) in *. set (o := last r 0) in *.
    destruct (Qeq_bool den 0) eqn:Ed.
    + (* den == 0 *)
      apply Qeq_bool_iff in Ed.
      destruct (IH acc Hneg' Hacc) as [[H1 [H2 H3]] | [a [H1 [H2 [H3 [H4 H5]]]]]].
      * left. split; [exact H1|]. split; [exact H2|]. constructor; [fold den; lra|exact H3].
      * right. exists a. split; [exact H1|]. split; [exact H2|]. split; [exact H3|]. split.
        -- constructor; [|exact H4]. fold den; fold o. assert (a * den == 0) by (rewrite Ed; ring). lra.
        -- destruct H5 as [H5|H5]; [left; exact H5|right; apply Exists_cons_tl; exact H5].
    + apply Qeq_bool_neq in Ed.
      assert (Hrd : (- o) / den * den == - o) by (field; exact Ed).
      destruct (Qle_bool (- o / den) 0) eqn:Er.
      * (* ratio <= 0, so den < 0 *)
        apply Qle_bool_iff in Er.
        assert (Hd : den < 0).
        { destruct (Qlt_le_dec den 0) as [Hd|Hd]; [exact Hd|]. exfalso.
          assert (0 < den) by (destruct (Qle_lt_or_eq _ _ Hd) as [X|X]; [exact X|exfalso; apply Ed; symmetry; exact X]).
          set (rr := - o / den) in *. nra. }
        destruct (IH acc Hneg' Hacc) as [[H1 [H2 H3]] | [a [H1 [H2 [H3 [H4 H5]]]]]].
        -- left. split; [exact H1|]. split; [exact H2|]. constructor; [fold den; lra|exact H3].
        -- right. exists a. split; [exact H1|]. split; [exact H2|]. split; [exact H3|]. split.
           ++ constructor; [|exact H4]. fold den; fold o. nra.
           ++ destruct H5 as [H5|H5]; [left; exact H5|right; apply Exists_cons_tl; exact H5].
      * (* ratio > 0, so den > 0 *)
        assert (Hr : 0 < - o / den).
        { apply Qnot_le_lt. intros X. apply Qle_bool_iff in X. congruence. }
        clear Er. set (rr := - o / den) in *.
        assert (Hd : 0 < den).
        { destruct (Qlt_le_dec 0 den) as [Hd|Hd]; [exact Hd|]. exfalso. nra. }
        assert (Hnew : exists a1, (match acc with None => Some rr | Some a => Some (Qmin a rr) end) = Some a1 /\
                   0 < a1 /\ a1 <= rr /\ (forall a0, acc = Some a0 -> a1 <= a0) /\
                   (a1 == rr \/ exists a0, acc = Some a0 /\ a1 == a0)).
        { destruct acc as [a0|].
          - exists (Qmin a0 rr). split; [reflexivity|].
            pose proof (Hacc a0 eq_refl) as Ha0.
            destruct (Q.min_spec a0 rr) as [[X1 X2]|[X1 X2]].
            + split; [lra|]. split; [lra|]. split; [intros a1 E; inversion E; subst; lra|].
              right. exists a0. split; [reflexivity|exact X2].
            + split; [lra|]. split; [lra|]. split; [intros a1 E; inversion E; subst; lra|].
              left. exact X2.
          - exists rr. split; [reflexivity|]. split; [exact Hr|]. split; [lra|].
            split; [intros a1 E; discriminate|]. left; reflexivity. }
        destruct Hnew as [a1 [En [Ha1 [Hle [Hmin Hatt]]]]]. rewrite En.
        destruct (IH (Some a1) Hneg' ltac:(intros a2 E; inversion E; subst; exact Ha1))
          as [[H1 [H2 H3]] | [a [H1 [H2 [H3 [H4 H5]]]]]]; [discriminate|].
        right. exists a. split; [exact H1|]. split; [exact H2|].
        pose proof (H3 a1 eq_refl) as Haa1.
        split; [intros a0 E; specialize (Hmin a0 E); lra|]. split.
        -- constructor; [|exact H4]. fold den; fold o. nra.
        -- destruct H5 as [[a2 [E2 H5]]|H5]; [|right; apply Exists_cons_tl; exact H5].
           inversion E2; subst a2.
           destruct Hatt as [Hatt|[a0 [E0 Hatt]]].
           ++ right. apply Exists_cons_hd. fold den; fold o.
              assert (a * den == rr * den) by (rewrite H5, Hatt; reflexivity). lra.
           ++ left. exists a0. split; [exact E0|]. lra.
Qed.

Lemma hull_vscale_iff eqs a b :
  in_hull_eqs eqs (vscale a b) <-> Forall (fun r => a * dot b (removelast r) + last r 0 <= 0) eqs.
Proof.
  unfold in_hull_eqs. rewrite !Forall_forall. split; intros H r Hr; specialize (H r Hr).
  - rewrite dot_vscale_r, dot_comm in H. exact H.
  - rewrite dot_vscale_r, dot_comm. exact H.
Qed.

(* if the origin is strictly inside (all offsets negative) and the ray leaves the hull through some facet
   (some b . n_f > 0), then alpha exists, is positive, alpha*b satisfies every facet inequality and one with equality *)
Theorem alpha_on_boundary b eqs :
  Forall (fun r => last r 0 < 0) eqs -> Exists (fun r => 0 < dot b (removelast r)) eqs ->
  exists a, alpha_model b eqs = Some a /\ 0 < a /\
    in_hull_eqs eqs (vscale a b) /\ Exists (fun r => dot (removelast r) (vscale a b) + last r 0 == 0) eqs.
Proof.
  intros Hneg Hex. unfold alpha_model.
  destruct (alpha_fold_spec b eqs None Hneg ltac:(intros a0 E; discriminate))
    as [[H1 [H2 H3]] | [a [H1 [H2 [H3 [H4 H5]]]]]].
  - exfalso. apply Exists_exists in Hex. destruct Hex as [r [Hr Hp]].
    rewrite Forall_forall in H3. specialize (H3 r Hr). lra.
  - exists a. split; [exact H1|]. split; [exact H2|]. split.
    + apply hull_vscale_iff. exact H4.
    + destruct H5 as [[a0 [E _]]|H5]; [discriminate|].
      apply Exists_exists in H5. destruct H5 as [r [Hr Hp]]. apply Exists_exists. exists r. split; [exact Hr|].
      rewrite dot_vscale_r, dot_comm. exact Hp.
Qed.

(* and no larger multiple stays inside *)
Theorem alpha_is_maximal b eqs a t :
  Forall (fun r => last r 0 < 0) eqs -> alpha_model b eqs = Some a -> a < t -> ~ in_hull_eqs eqs (vscale t b).
Proof.
  intros Hneg Ha Hat Hin. unfold alpha_model in Ha.
  destruct (alpha_fold_spec b eqs None Hneg ltac:(intros a0 E; discriminate))
    as [[H1 [H2 H3]] | [a' [H1 [H2 [H3 [H4 H5]]]]]].
  - congruence.
  - rewrite H1 in Ha. inversion Ha; subst a'. clear Ha.
    destruct H5 as [[a0 [E _]]|H5]; [discriminate|].
    apply Exists_exists in H5. destruct H5 as [r [Hr Hp]].
    apply hull_vscale_iff in Hin. rewrite Forall_forall in Hin, Hneg.
    specialize (Hin r Hr). specialize (Hneg r Hr). cbv beta in Hin, Hneg.
    set (den := dot b (removelast r)) in *. set (o := last r 0) in *.
    destruct (Qlt_le_dec 0 den) as [Hd|Hd]; nra.
Qed.

(* ---- 3. slice with the plane sum x = c ---- *)
Lemma lts_veq t : forall p q, length p = length q ->
  veq (vadd p (vscale t (vsub q p))) (vadd (vscale (1 - t) p) (vscale t q)).
Proof.
  induction p as [|a p IH]; intros [|b q] H; simpl in *; try discriminate; constructor.
  - ring.
  - apply IH. lia.
Qed.

Lemma lts_facts p q c : length p = length q -> sumQ p <= c -> c < sumQ q ->
  let t := (c - sumQ p) / sumQ (vsub q p) in
  sumQ (line_to_simplex p q c) == c /\ 0 <= t /\ t <= 1 /\ t * (sumQ q - sumQ p) == c - sumQ p /\
  veq (line_to_simplex p q c) (vadd (vscale (1 - t) p) (vscale t q)).
Proof.
  intros HL Hp Hq t. unfold line_to_simplex. fold t.
  assert (HD : sumQ (vsub q p) == sumQ q - sumQ p) by (apply sumQ_vsub; lia).
  assert (HDp : 0 < sumQ (vsub q p)) by lra.
  assert (Ht : t * sumQ (vsub q p) == c - sumQ p) by (unfold t; field; lra).
  split; [|split; [|split; [|split]]].
  - rewrite sumQ_vadd by (rewrite len_vscale, len_vsub; lia).
    rewrite sumQ_vscale. lra.
  - unfold t. apply Qle_shift_div_l; [exact HDp|]. lra.
  - unfold t. apply Qle_shift_div_r; [exact HDp|]. lra.
  - rewrite <- HD. exact Ht.
  - apply lts_veq. exact HL.
Qed.

(* the crossing point of a segment from p (sum <= c) to q (sum > c) lies on the plane and on the segment *)
Theorem line_to_simplex_on_plane p q c : length p = length q -> sumQ p <= c -> c < sumQ q ->
  sumQ (line_to_simplex p q c) == c /\
  exists t, 0 <= t /\ t <= 1 /\ veq (line_to_simplex p q c) (vadd (vscale (1 - t) p) (vscale t q)).
Proof.
  intros HL Hp Hq. destruct (lts_facts p q c HL Hp Hq) as [H1 [H2 [H3 [_ H5]]]].
  split; [exact H1|]. eexists. split; [exact H2|]. split; [exact H3|exact H5].
Qed.

(* ---- stretch: conv P cut by the plane is inside the hull of the all-pairs crossing points ---- *)
Lemma vadd_comm u : forall v, veq (vadd u v) (vadd v u).
Proof. induction u as [|a u IH]; intros [|b v]; simpl; constructor; [ring | apply IH]. Qed.

Lemma vadd_swap4 a : forall b c d, veq (vadd (vadd a b) (vadd c d)) (vadd (vadd a c) (vadd b d)).
Proof.
  induction a as [|a0 a IH]; intros [|b0 b] [|c0 c] [|d0 d]; simpl; try constructor; try ring. apply IH.
Qed.

Lemma vadd_vzero_r m v : length v = m -> veq (vadd v (vzero m)) v.
Proof. intros H. rewrite vadd_comm. apply vadd_vzero_l; exact H. Qed.

Lemma vscale_zero s p : s == 0 -> veq (vscale s p) (vzero (length p)).
Proof.
  intros Hs. induction p as [|a p IH]; cbn [vscale map length vzero repeat]; constructor.
  - rewrite Hs. ring.
  - apply IH.
Qed.

Fixpoint wsel (f : vec -> bool) (lam : vec) (P : mat) : vec :=
  match lam, P with
  | l :: lam', p :: P' => if f p then l :: wsel f lam' P' else wsel f lam' P'
  | _, _ => []
  end.

Lemma wsel_len f : forall lam P, length lam = length P -> length (wsel f lam P) = length (filter f P).
Proof.
  induction lam as [|l lam IH]; intros [|p P] H; simpl in *; try discriminate; auto.
  destruct (f p); simpl; rewrite IH by lia; reflexivity.
Qed.

Lemma wsel_nonneg f : forall lam P, Forall (fun l => 0 <= l) lam -> Forall (fun l => 0 <= l) (wsel f lam P).
Proof.
  induction lam as [|l lam IH]; intros [|p P] H; simpl; try constructor.
  inversion H; subst. destruct (f p); [constructor; auto|auto].
Qed.

Lemma wsel_sum f : forall lam P, length lam = length P ->
  sumQ lam == sumQ (wsel f lam P) + sumQ (wsel (fun p => negb (f p)) lam P).
Proof.
  induction lam as [|l lam IH]; intros [|p P] H; simpl in *; try discriminate; try ring.
  rewrite (IH P) by lia. destruct (f p); simpl; ring.
Qed.

Lemma rect_filter m (f : vec -> bool) P : rect m P -> rect m (filter f P).
Proof.
  unfold rect. rewrite !Forall_forall. intros H p Hp. apply filter_In in Hp. apply H. tauto.
Qed.

Lemma wsel_comb f m : forall lam P, length lam = length P -> rect m P ->
  veq (comb lam P m)
      (vadd (comb (wsel f lam P) (filter f P) m)
            (comb (wsel (fun p => negb (f p)) lam P) (filter (fun p => negb (f p)) P) m)).
Proof.
  induction lam as [|l lam IH]; intros [|p P] H HP; cbn [length] in H; try discriminate.
  - simpl. symmetry. apply vadd_vzero_l. apply len_vzero.
  - inversion HP as [|p0 P0 Hp HP']; subst.
    cbn [wsel filter comb]. destruct (f p); cbn [negb comb].
    + rewrite (IH P) by (try lia; assumption). symmetry. apply vadd_assoc.
    + rewrite (IH P) by (try lia; assumption).
      rewrite <- vadd_assoc. rewrite (vadd_comm (vscale l p)). apply vadd_assoc.
Qed.

Lemma sumQ_comb m : forall lam P, length lam = length P -> rect m P ->
  sumQ (comb lam P m) == dot lam (map sumQ P).
Proof.
  induction lam as [|l lam IH]; intros [|p P] H HP; cbn [length] in H; try discriminate.
  - simpl. apply sumQ_vzero.
  - inversion HP as [|p0 P0 Hp HP']; subst. cbn [comb map dot].
    rewrite sumQ_vadd by (rewrite len_vscale, len_comb; auto).
    rewrite sumQ_vscale, IH by (try lia; assumption). reflexivity.
Qed.

Fixpoint wrow (l sp : Q) (la : vec) (A : mat) : vec :=
  match la, A with
  | l' :: la', q :: A' => l * l' * (sumQ q - sp) :: wrow l sp la' A'
  | _, _ => []
  end.
Fixpoint wall (lb : vec) (B : mat) (la : vec) (A : mat) : vec :=
  match lb, B with
  | l :: lb', p :: B' => wrow l (sumQ p) la A ++ wall lb' B' la A
  | _, _ => []
  end.

Lemma wrow_len l sp : forall la A, length la = length A -> length (wrow l sp la A) = length A.
Proof. induction la as [|l' la IH]; intros [|q A] H; simpl in *; try discriminate; auto. Qed.

Lemma wrow_sum l sp : forall la A, length la = length A ->
  sumQ (wrow l sp la A) == l * (dot la (map sumQ A) - sp * sumQ la).
Proof.
  induction la as [|l' la IH]; intros [|q A] H; simpl in *; try discriminate; try ring.
  rewrite IH by lia. ring.
Qed.

Lemma wrow_nonneg l sp c : 0 <= l -> sp <= c -> forall la A, Forall (fun l => 0 <= l) la ->
  Forall (fun q => c < sumQ q) A -> Forall (fun l => 0 <= l) (wrow l sp la A).
Proof.
  intros Hl Hsp. induction la as [|l' la IH]; intros [|q A] Hla HA; simpl; try constructor.
  - inversion Hla; subst. inversion HA; subst.
    apply Qmult_le_0_compat; [apply Qmult_le_0_compat; assumption|lra].
  - inversion Hla; subst. inversion HA; subst. apply IH; assumption.
Qed.

Lemma len_lts p q c : length p = length q -> length (line_to_simplex p q c) = length p.
Proof. intros H. unfold line_to_simplex. rewrite len_vadd; [reflexivity|]. rewrite len_vscale, len_vsub; lia. Qed.

Lemma row_step (p q r X : vec) (x1 x2 x y1 y l' : Q) : x == x1 + x2 -> y1 == y * l' ->
  veq X (vadd (vscale x2 p) (vscale y r)) ->
  veq (vadd (vadd (vscale x1 p) (vscale y1 q)) X) (vadd (vscale x p) (vscale y (vadd (vscale l' q) r))).
Proof.
  intros Hx Hy HX. rewrite HX, Hx, Hy.
  rewrite <- vscale_plus, vscale_vadd, vscale_vscale. apply vadd_swap4.
Qed.

Lemma wrow_comb m c l p : length p = m -> sumQ p <= c -> forall la A, length la = length A -> rect m A ->
  Forall (fun q => c < sumQ q) A ->
  veq (comb (wrow l (sumQ p) la A) (map (fun q => line_to_simplex p q c) A) m)
      (vadd (vscale (l * (dot la (map sumQ A) - c * sumQ la)) p) (vscale (l * (c - sumQ p)) (comb la A m))).
Proof.
  intros Hp Hsp. induction la as [|l' la IH]; intros [|q A] H HA Hab; cbn [length] in H; try discriminate.
  - cbn [wrow map comb dot sumQ].
    rewrite (vscale_zero (l * (0 - c * 0)) p) by ring. rewrite vscale_vzero, Hp.
    symmetry. apply vadd_vzero_l. apply len_vzero.
  - inversion HA as [|q0 A0 Hq HA']; subst. inversion Hab as [|q1 A1 Hqc Hab']; subst.
    cbn [wrow map comb dot sumQ].
    destruct (lts_facts p q c ltac:(lia) Hsp Hqc) as [_ [_ [_ [Ht Hv]]]].
    set (t := (c - sumQ p) / sumQ (vsub q p)) in *.
    rewrite Hv, vscale_vadd, !vscale_vscale.
    apply row_step with (x2 := l * (dot la (map sumQ A) - c * sumQ la)).
    + setoid_replace (l * l' * (sumQ q - sumQ p) * (1 - t))
        with (l * l' * ((sumQ q - sumQ p) - t * (sumQ q - sumQ p))) by ring.
      rewrite Ht. ring.
    + setoid_replace (l * l' * (sumQ q - sumQ p) * t) with (l * l' * (t * (sumQ q - sumQ p))) by ring.
      rewrite Ht. ring.
    + apply IH; try assumption. lia.
Qed.

Definition crossings (B A : mat) (c : Q) : mat :=
  flat_map (fun p => map (fun q => line_to_simplex p q c) A) B.

Lemma rect_crossings m c A : rect m A -> forall B, rect m B -> rect m (crossings B A c).
Proof.
  intros HA B HB. unfold crossings, rect in *. rewrite Forall_forall in *. intros x Hx.
  apply in_flat_map in Hx. destruct Hx as [p [Hp Hx]]. apply in_map_iff in Hx. destruct Hx as [q [E Hq]].
  subst x. rewrite len_lts; [apply HB; exact Hp|]. rewrite (HB p Hp), (HA q Hq). reflexivity.
Qed.

Lemma wall_len la A : length la = length A -> forall lb B, length lb = length B ->
  forall c, length (wall lb B la A) = length (crossings B A c).
Proof.
  intros HLA. induction lb as [|l lb IH]; intros [|p B] H c; cbn [length] in H; try discriminate.
  - reflexivity.
  - unfold crossings in *. cbn [wall flat_map]. rewrite !app_length, map_length, wrow_len by assumption.
    rewrite (IH B ltac:(lia) c). reflexivity.
Qed.

Lemma wall_sum la A : length la = length A -> forall lb B, length lb = length B ->
  sumQ (wall lb B la A) == sumQ lb * dot la (map sumQ A) - dot lb (map sumQ B) * sumQ la.
Proof.
  intros HLA. induction lb as [|l lb IH]; intros [|p B] H; cbn [length] in H; try discriminate.
  - simpl. ring.
  - cbn [wall map dot sumQ]. rewrite sumQ_app, wrow_sum, IH by (try lia; assumption). ring.
Qed.

Lemma wall_nonneg c la A : Forall (fun l => 0 <= l) la -> Forall (fun q => c < sumQ q) A ->
  forall lb B, Forall (fun l => 0 <= l) lb -> Forall (fun p => sumQ p <= c) B ->
  Forall (fun l => 0 <= l) (wall lb B la A).
Proof.
  intros Hla HA. induction lb as [|l lb IH]; intros [|p B] Hlb HB; cbn [wall]; try constructor.
  inversion Hlb; subst. inversion HB; subst. apply Forall_app. split.
  - apply wrow_nonneg with (c := c); assumption.
  - apply IH; assumption.
Qed.

Lemma wall_comb m c la A : length la = length A -> rect m A -> Forall (fun q => c < sumQ q) A ->
  forall lb B, length lb = length B -> rect m B -> Forall (fun p => sumQ p <= c) B ->
  veq (comb (wall lb B la A) (crossings B A c) m)
      (vadd (vscale (dot la (map sumQ A) - c * sumQ la) (comb lb B m))
            (vscale (c * sumQ lb - dot lb (map sumQ B)) (comb la A m))).
Proof.
  intros HLA HA Hab. induction lb as [|l lb IH]; intros [|p B] H HB Hbe; cbn [length] in H; try discriminate.
  - cbn [wall crossings flat_map comb map dot sumQ].
    rewrite vscale_vzero. rewrite (vscale_zero (c * 0 - 0)) by ring. rewrite len_comb by assumption.
    symmetry. apply vadd_vzero_l. apply len_vzero.
  - inversion HB as [|p0 B0 Hp HB']; subst. inversion Hbe as [|p1 B1 Hpc Hbe']; subst.
    unfold crossings. cbn [wall flat_map comb map dot sumQ]. fold (crossings B A c).
    rewrite comb_app; [| rewrite map_length; apply wrow_len; assumption | apply rect_crossings; assumption].
    rewrite (wrow_comb (length p) c l p eq_refl Hpc la A HLA HA Hab).
    rewrite (IH B ltac:(lia) HB' Hbe').
    set (SA := dot la (map sumQ A) - c * sumQ la).
    set (cA := comb la A (length p)). set (cB := comb lb B (length p)).
    rewrite vadd_swap4, vscale_plus, vscale_vadd, vscale_vscale.
    apply vadd_Proper.
    + apply vadd_Proper; [|reflexivity]. apply vscale_Proper; [ring|reflexivity].
    + apply vscale_Proper; [ring|reflexivity].
Qed.

(* core: any nonnegative weights over the below/above points with positive excess S on the above side *)
Lemma core_slice m c lb B la A :
  length lb = length B -> rect m B -> Forall (fun p => sumQ p <= c) B -> Forall (fun l => 0 <= l) lb ->
  length la = length A -> rect m A -> Forall (fun q => c < sumQ q) A -> Forall (fun l => 0 <= l) la ->
  0 < dot la (map sumQ A) - c * sumQ la ->
  exists mu, length mu = length (crossings B A c) /\ Forall (fun l => 0 <= l) mu /\
    sumQ mu == sumQ lb + sumQ la * ((c * sumQ lb - dot lb (map sumQ B)) / (dot la (map sumQ A) - c * sumQ la)) /\
    veq (comb mu (crossings B A c) m)
        (vadd (comb lb B m)
              (vscale ((c * sumQ lb - dot lb (map sumQ B)) / (dot la (map sumQ A) - c * sumQ la)) (comb la A m))).
Proof.
  intros HLB HB Hbe Hlb HLA HA Hab Hla HS.
  set (S := dot la (map sumQ A) - c * sumQ la) in *.
  set (SB := c * sumQ lb - dot lb (map sumQ B)).
  exists (vscale (/ S) (wall lb B la A)). split; [|split; [|split]].
  - rewrite len_vscale. apply wall_len; assumption.
  - apply vscale_nonneg; [apply Qlt_le_weak, Qinv_lt_0_compat; exact HS|].
    apply wall_nonneg with (c := c); assumption.
  - rewrite sumQ_vscale, wall_sum by assumption. fold S. unfold SB.
    unfold S. field. fold S. lra.
  - rewrite comb_vscale, (wall_comb m c la A HLA HA Hab lb B HLB HB Hbe). fold S. fold SB.
    rewrite vscale_vadd, !vscale_vscale. apply vadd_Proper.
    + rewrite <- (vscale_1 (comb lb B m)) at 2. apply vscale_Proper; [field; lra|reflexivity].
    + apply vscale_Proper; [field; lra|reflexivity].
Qed.

Lemma excess_nonneg c : forall la A, length la = length A -> Forall (fun l => 0 <= l) la ->
  Forall (fun q => c < sumQ q) A -> 0 <= dot la (map sumQ A) - c * sumQ la.
Proof.
  induction la as [|l la IH]; intros [|q A] H Hla HA; cbn [length] in H; try discriminate; simpl; [lra|].
  inversion Hla; subst. inversion HA; subst. specialize (IH A ltac:(lia) H3 H5).
  set (X := dot la (map sumQ A)) in *. set (Y := sumQ la) in *. nra.
Qed.

Lemma excess_zero c : forall la A, length la = length A -> Forall (fun l => 0 <= l) la ->
  Forall (fun q => c < sumQ q) A -> dot la (map sumQ A) - c * sumQ la == 0 -> Forall (fun l => l == 0) la.
Proof.
  induction la as [|l la IH]; intros [|q A] H Hla HA HS; cbn [length] in H; try discriminate; [constructor|].
  inversion Hla; subst. inversion HA; subst. simpl in HS.
  pose proof (excess_nonneg c la A ltac:(lia) H3 H5) as Hn.
  set (X := dot la (map sumQ A)) in *. set (Y := sumQ la) in *.
  assert (Hl : l == 0). { destruct (Qlt_le_dec 0 l) as [Hl|Hl]; [exfalso; nra|lra]. }
  constructor; [exact Hl|]. apply IH with (A := A); try assumption; [lia|]. fold X Y. nra.
Qed.

Lemma comb_zero m : forall la A, length la = length A -> rect m A -> Forall (fun l => l == 0) la ->
  veq (comb la A m) (vzero m).
Proof.
  induction la as [|l la IH]; intros [|q A] H HA Hz; cbn [length] in H; try discriminate; cbn [comb]; [reflexivity|].
  inversion HA; subst. inversion Hz; subst.
  rewrite (vscale_zero l q) by assumption. rewrite IH by (try lia; assumption).
  apply vadd_vzero_l. apply len_vzero.
Qed.

Lemma sum_zero la : Forall (fun l => l == 0) la -> sumQ la == 0.
Proof. induction 1; simpl; lra. Qed.

(* every point of  conv P  on the plane is a convex combination of the all-pairs crossing points
   ( conv P  intersected with the plane  is contained in  conv (all_pairs_slice P c) ) *)
Theorem slice_contains_section P m c b : Forall (fun p => length p = m) P ->
  in_conv P m b -> sumQ b == c -> (exists p, In p P /\ sumQ p <= c) -> (exists q, In q P /\ c < sumQ q) ->
  in_conv (all_pairs_slice P c) m b.
Proof.
  intros HP [lam [HL [Hnn [Hs Hv]]]] Hsum _ [q0 [Hq0 Hq0c]].
  set (f := fun p : vec => Qle_bool (sumQ p) c).
  assert (EB : below c P = filter f P) by reflexivity.
  assert (EA : above c P = filter (fun p => negb (f p)) P) by reflexivity.
  assert (EX : all_pairs_slice P c = crossings (below c P) (above c P) c) by reflexivity.
  set (lb := wsel f lam P). set (la := wsel (fun p => negb (f p)) lam P).
  assert (HLB : length lb = length (below c P)) by (rewrite EB; apply wsel_len; exact HL).
  assert (HLA : length la = length (above c P)) by (rewrite EA; apply wsel_len; exact HL).
  assert (HB : rect m (below c P)) by (rewrite EB; apply rect_filter; exact HP).
  assert (HA : rect m (above c P)) by (rewrite EA; apply rect_filter; exact HP).
  assert (Hbe : Forall (fun p => sumQ p <= c) (below c P)).
  { rewrite EB. apply Forall_forall. intros p Hp. apply filter_In in Hp. destruct Hp as [_ Hp].
    unfold f in Hp. apply Qle_bool_iff in Hp. exact Hp. }
  assert (Hab : Forall (fun q => c < sumQ q) (above c P)).
  { rewrite EA. apply Forall_forall. intros q Hq. apply filter_In in Hq. destruct Hq as [_ Hq].
    unfold f in Hq. apply negb_true_iff in Hq. apply Qnot_le_lt. intros X. apply Qle_bool_iff in X. congruence. }
  assert (Hlb : Forall (fun l => 0 <= l) lb) by (apply wsel_nonneg; exact Hnn).
  assert (Hla : Forall (fun l => 0 <= l) la) by (apply wsel_nonneg; exact Hnn).
  assert (Hsplit : veq b (vadd (comb lb (below c P) m) (comb la (above c P) m))).
  { rewrite <- Hv. rewrite EB, EA. apply wsel_comb; assumption. }
  assert (Hsl : sumQ lb + sumQ la == 1) by (rewrite <- Hs; symmetry; apply wsel_sum; exact HL).
  assert (Hsb : dot lb (map sumQ (below c P)) + dot la (map sumQ (above c P)) == c).
  { apply Qeq_trans with (sumQ b); [|exact Hsum]. rewrite Hsplit.
    rewrite sumQ_vadd by (rewrite !len_comb; auto).
    rewrite !(sumQ_comb m) by assumption. reflexivity. }
  pose proof (excess_nonneg c la (above c P) HLA Hla Hab) as HSn.
  rewrite EX. unfold in_conv.
  destruct (Qlt_le_dec 0 (dot la (map sumQ (above c P)) - c * sumQ la)) as [HS|HS].
  - destruct (core_slice m c lb (below c P) la (above c P) HLB HB Hbe Hlb HLA HA Hab Hla HS)
      as [mu [H1 [H2 [H3 H4]]]].
    exists mu. split; [exact H1|]. split; [exact H2|].
    assert (Hk : (c * sumQ lb - dot lb (map sumQ (below c P))) / (dot la (map sumQ (above c P)) - c * sumQ la) == 1).
    { set (S := dot la (map sumQ (above c P)) - c * sumQ la) in *.
      assert (E : c * sumQ lb - dot lb (map sumQ (below c P)) == S) by (unfold S; nra).
      rewrite E. field. lra. }
    split.
    + rewrite H3, Hk. lra.
    + rewrite H4, Hk, vscale_1. symmetry. exact Hsplit.
  - assert (HS0 : dot la (map sumQ (above c P)) - c * sumQ la == 0) by lra.
    pose proof (excess_zero c la (above c P) HLA Hla Hab HS0) as Hz.
    pose proof (sum_zero la Hz) as Hsa.
    pose proof (comb_zero m la (above c P) HLA HA Hz) as Hca.
    assert (Hb' : veq b (comb lb (below c P) m)).
    { rewrite Hsplit, Hca. apply vadd_vzero_r. apply len_comb; exact HB. }
    assert (Hq0a : In q0 (above c P)).
    { rewrite EA. apply filter_In. split; [exact Hq0|]. unfold f. apply negb_true_iff.
      destruct (Qle_bool (sumQ q0) c) eqn:E; [|reflexivity]. apply Qle_bool_iff in E. lra. }
    destruct (above c P) as [|q1 A] eqn:EAb; [destruct Hq0a|].
    inversion Hab as [|q2 A2 Hq1 Hab']; subst.
    set (la' := 1 :: vzero (length A)).
    assert (HLA' : length la' = length (q1 :: A)) by (unfold la'; simpl; rewrite len_vzero; reflexivity).
    assert (Hla' : Forall (fun l => 0 <= l) la').
    { unfold la'. constructor; [lra|]. unfold vzero. apply Forall_forall. intros x Hx.
      apply repeat_spec in Hx. subst x. lra. }
    assert (Hd' : dot la' (map sumQ (q1 :: A)) == sumQ q1).
    { unfold la'. cbn [map dot]. rewrite dot_vzero_l. ring. }
    assert (Hs' : sumQ la' == 1) by (unfold la'; cbn [sumQ]; rewrite sumQ_vzero; ring).
    assert (HS' : 0 < dot la' (map sumQ (q1 :: A)) - c * sumQ la') by (rewrite Hd', Hs'; lra).
    destruct (core_slice m c lb (below c P) la' (q1 :: A) HLB HB Hbe Hlb HLA' HA Hab Hla' HS')
      as [mu [H1 [H2 [H3 H4]]]].
    assert (Hk : (c * sumQ lb - dot lb (map sumQ (below c P))) / (dot la' (map sumQ (q1 :: A)) - c * sumQ la') == 0).
    { assert (E : c * sumQ lb - dot lb (map sumQ (below c P)) == 0) by nra.
      rewrite E. field. lra. }
    exists mu. split; [exact H1|]. split; [exact H2|]. split.
    + rewrite H3, Hk. lra.
    + rewrite H4. rewrite (vscale_zero _ (comb la' (q1 :: A) m) Hk). rewrite len_comb by exact HA.
      rewrite vadd_vzero_r by (apply len_comb; exact HB). symmetry. exact Hb'.
Qed.

