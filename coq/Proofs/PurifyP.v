(* Proofs/PurifyP.v — from any in-bound solution to one whose free coordinates select independent columns,
   without increasing s * x_k (s = 1: towards the minimum of x_k, s = -1: towards the maximum). *)
From Coq Require Import QArith Qabs Qminmax List Bool Arith Lia Lqa Setoid Morphisms.
From DV Require Import Base.QVec Run.Verdict Model.Linear Cert.Hull Model.Gauss Model.Range Proofs.VertexDefs Proofs.SupportP.
Import ListNotations.
Open Scope Q_scope.

(* ---------- entrywise access ---------- *)
Lemma pu_nthQ_vscale t d i : nthQ (vscale t d) i == t * nthQ d i.
Proof.
  unfold nthQ, vscale. revert i; induction d as [|a d IH]; intros [|i]; simpl; try ring. apply IH.
Qed.

Lemma pu_nthQ_vadd x : forall y i, length x = length y -> nthQ (vadd x y) i == nthQ x i + nthQ y i.
Proof.
  unfold nthQ. induction x as [|a x IH]; intros [|b y] [|i] H; simpl in *; try discriminate; try ring.
  apply IH; lia.
Qed.

Lemma pu_nthQ_move x d t i : length d = length x ->
  nthQ (vadd x (vscale t d)) i == nthQ x i + t * nthQ d i.
Proof.
  intros H. rewrite pu_nthQ_vadd by (rewrite len_vscale; auto). rewrite pu_nthQ_vscale. reflexivity.
Qed.

Lemma pu_in_box_nth x : forall lb ub k, in_box x lb ub -> nthQ lb k <= nthQ x k /\ nthQ x k <= nthQ ub k.
Proof.
  unfold nthQ. induction x as [|a x IH]; intros [|l lb] [|u ub] [|k] H; simpl in *; try tauto; try lra.
  destruct H as (_ & _ & H). apply IH; auto.
Qed.

Lemma pu_in_box_intro x : forall lb ub, length x = length lb -> length x = length ub ->
  (forall i, (i < length x)%nat -> nthQ lb i <= nthQ x i /\ nthQ x i <= nthQ ub i) -> in_box x lb ub.
Proof.
  induction x as [|a x IH]; intros [|l lb] [|u ub] H1 H2 H; simpl in *; try discriminate; auto.
  destruct (H 0%nat ltac:(lia)) as [Ha Hb]. unfold nthQ in Ha, Hb; simpl in Ha, Hb.
  split; [|split]; auto.
  apply IH; try lia. intros i Hi. exact (H (S i) ltac:(lia)).
Qed.

(* ---------- zero vectors ---------- *)
Lemma pu_zerov_dec_ex d : zerov d \/ exists j, (j < length d)%nat /\ ~ nthQ d j == 0.
Proof.
  induction d as [|a d IH].
  - left. constructor.
  - destruct (Qeq_dec a 0) as [Ha|Ha].
    + destruct IH as [Hz|(j & Hj & Hn)].
      * left. constructor; auto.
      * right. exists (S j). split; [simpl; lia|]. exact Hn.
    + right. exists 0%nat. split; [simpl; lia|]. exact Ha.
Qed.

(* ---------- free coordinates ---------- *)
Lemma pu_freeb_false_iff x lb ub i :
  freeb x lb ub i = false <-> (nthQ x i == nthQ lb i \/ nthQ x i == nthQ ub i).
Proof.
  unfold freeb. rewrite negb_false_iff, orb_true_iff, !Qeq_bool_iff. tauto.
Qed.

Lemma pu_filter_sub_le (p p' : nat -> bool) l : (forall i, p' i = true -> p i = true) ->
  (length (filter p' l) <= length (filter p l))%nat.
Proof.
  intros Hs. induction l as [|a l IH]; simpl; auto.
  destruct (p' a) eqn:E.
  - rewrite (Hs a E). simpl. lia.
  - destruct (p a); simpl; lia.
Qed.

Lemma pu_filter_sub_lt (p p' : nat -> bool) l j : (forall i, p' i = true -> p i = true) ->
  In j l -> p j = true -> p' j = false ->
  (length (filter p' l) < length (filter p l))%nat.
Proof.
  intros Hs. induction l as [|a l IH]; simpl; intros Hin Hp Hp'; [tauto|].
  destruct Hin as [->|Hin].
  - rewrite Hp, Hp'. simpl. pose proof (pu_filter_sub_le p p' l Hs). lia.
  - specialize (IH Hin Hp Hp'). destruct (p' a) eqn:E.
    + rewrite (Hs a E). simpl. lia.
    + destruct (p a); simpl; lia.
Qed.

(* ---------- minimum over an index set ---------- *)
Lemma pu_argmin (f : nat -> Q) (P : nat -> Prop) (Pdec : forall i, P i \/ ~ P i) : forall n,
  (forall i, (i < n)%nat -> ~ P i) \/
  (exists j, (j < n)%nat /\ P j /\ forall i, (i < n)%nat -> P i -> f j <= f i).
Proof.
  induction n as [|n IH]; [left; intros i Hi; lia|].
  destruct IH as [Hnone | (j & Hj & HPj & Hmin)].
  - destruct (Pdec n) as [Pn|NPn].
    + right. exists n. split; [lia|split; [auto|]]. intros i Hi HPi.
      assert (Hc : i = n \/ (i < n)%nat) by lia. destruct Hc as [->|Hc]; [apply Qle_refl|].
      exfalso. apply (Hnone i); auto.
    + left. intros i Hi. assert (Hc : i = n \/ (i < n)%nat) by lia. destruct Hc as [->|Hc]; auto.
  - destruct (Pdec n) as [Pn|NPn].
    + destruct (Qlt_le_dec (f n) (f j)) as [Hlt|Hle].
      * right. exists n. split; [lia|split; [auto|]]. intros i Hi HPi.
        assert (Hc : i = n \/ (i < n)%nat) by lia. destruct Hc as [->|Hc]; [apply Qle_refl|].
        specialize (Hmin i Hc HPi). lra.
      * right. exists j. split; [lia|split; [auto|]]. intros i Hi HPi.
        assert (Hc : i = n \/ (i < n)%nat) by lia. destruct Hc as [->|Hc]; [exact Hle|].
        apply Hmin; auto.
    + right. exists j. split; [lia|split; [auto|]]. intros i Hi HPi.
      assert (Hc : i = n \/ (i < n)%nat) by lia. destruct Hc as [->|Hc]; [tauto|].
      apply Hmin; auto.
Qed.

(* ---------- the scalar step ---------- *)
Definition pu_step1 (a l u di : Q) : Q :=
  if Qlt_le_dec 0 di then (u - a) / di else (a - l) / (- di).

Lemma pu_step1_props a l u di : l <= a -> a <= u -> ~ di == 0 ->
  0 <= pu_step1 a l u di /\
  (forall t, 0 <= t -> t <= pu_step1 a l u di -> l <= a + t * di /\ a + t * di <= u) /\
  (a + pu_step1 a l u di * di == l \/ a + pu_step1 a l u di * di == u).
Proof.
  intros Hl Hu Hd. unfold pu_step1. destruct (Qlt_le_dec 0 di) as [Hp|Hn].
  - assert (E : (u - a) / di * di == u - a) by (field; lra).
    split; [|split].
    + apply Qle_shift_div_l; auto. lra.
    + intros t Ht0 Ht.
      assert (H1 : t * di <= (u - a) / di * di) by (apply Qmult_le_compat_r; [exact Ht|lra]).
      assert (H2 : 0 <= t * di) by (apply Qmult_le_0_compat; lra).
      rewrite E in H1. set (p := t * di) in *. lra.
    + right. rewrite E. ring.
  - assert (Hneg : di < 0) by (destruct (Qeq_dec di 0); [tauto|lra]).
    assert (E : (a - l) / (- di) * (- di) == a - l) by (field; lra).
    split; [|split].
    + apply Qle_shift_div_l; lra.
    + intros t Ht0 Ht.
      assert (H1 : t * (- di) <= (a - l) / (- di) * (- di)) by (apply Qmult_le_compat_r; [exact Ht|lra]).
      assert (H2 : 0 <= t * (- di)) by (apply Qmult_le_0_compat; lra).
      rewrite E in H1. assert (E2 : t * (- di) == - (t * di)) by ring. rewrite E2 in H1, H2.
      set (p := t * di) in *. lra.
    + left. assert (E2 : (a - l) / (- di) * di == - ((a - l) / (- di) * (- di))) by ring.
      rewrite E2, E. ring.
Qed.

(* ---------- the vector step ---------- *)
Lemma pu_step x lb ub d :
  in_box x lb ub -> length d = length x -> supp (freeb x lb ub) d -> ~ zerov d ->
  exists t, 0 <= t /\ in_box (vadd x (vscale t d)) lb ub /\
    (forall i, freeb x lb ub i = false -> freeb (vadd x (vscale t d)) lb ub i = false) /\
    exists j, (j < length x)%nat /\ freeb x lb ub j = true /\ freeb (vadd x (vscale t d)) lb ub j = false.
Proof.
  intros Hbox Hd Hsupp Hnz.
  set (f := fun i => pu_step1 (nthQ x i) (nthQ lb i) (nthQ ub i) (nthQ d i)).
  set (P := fun i => ~ nthQ d i == 0).
  assert (Pdec : forall i, P i \/ ~ P i).
  { intros i. unfold P. destruct (Qeq_dec (nthQ d i) 0); tauto. }
  assert (Hprops : forall i, P i ->
     0 <= f i /\
     (forall t, 0 <= t -> t <= f i ->
        nthQ lb i <= nthQ x i + t * nthQ d i /\ nthQ x i + t * nthQ d i <= nthQ ub i) /\
     (nthQ x i + f i * nthQ d i == nthQ lb i \/ nthQ x i + f i * nthQ d i == nthQ ub i)).
  { intros i HP. destruct (pu_in_box_nth x lb ub i Hbox) as [H1 H2].
    apply pu_step1_props; auto. }
  destruct (pu_argmin f P Pdec (length x)) as [Hnone | (j & Hj & HPj & Hmin)].
  { exfalso. destruct (pu_zerov_dec_ex d) as [Hz|(j & Hj & Hn)]; [tauto|].
    rewrite Hd in Hj. exact (Hnone j Hj Hn). }
  destruct (Hprops j HPj) as (Ht0 & _ & Htight).
  exists (f j). split; [exact Ht0|].
  destruct (in_box_len _ _ _ Hbox) as [Hl1 Hl2].
  assert (Hlen : length (vadd x (vscale (f j) d)) = length x).
  { apply len_vadd. rewrite len_vscale. auto. }
  split; [|split].
  - apply pu_in_box_intro; try congruence.
    intros i Hi. rewrite Hlen in Hi. rewrite pu_nthQ_move by exact Hd.
    destruct (Pdec i) as [HPi|HNPi].
    + destruct (Hprops i HPi) as (_ & Hin & _). apply Hin; auto.
    + assert (E : nthQ d i == 0) by (unfold P in HNPi; destruct (Qeq_dec (nthQ d i) 0); tauto).
      rewrite E. destruct (pu_in_box_nth x lb ub i Hbox) as [H1 H2]. lra.
  - intros i Hi. pose proof (Hsupp i Hi) as E.
    apply pu_freeb_false_iff. apply pu_freeb_false_iff in Hi.
    rewrite pu_nthQ_move by exact Hd. rewrite E.
    destruct Hi as [Hi|Hi]; [left|right]; rewrite <- Hi; ring.
  - exists j. split; [exact Hj|]. split.
    + destruct (freeb x lb ub j) eqn:Ef; [reflexivity|].
      exfalso. apply HPj. apply Hsupp. exact Ef.
    + apply pu_freeb_false_iff. rewrite pu_nthQ_move by exact Hd. exact Htight.
Qed.

(* ---------- moving along a kernel direction keeps the equations ---------- *)
Lemma pu_sol_move A : forall b x d t, length d = length x -> kerv A d ->
  veq (matvec A x) b -> veq (matvec A (vadd x (vscale t d))) b.
Proof.
  induction A as [|r A IH]; intros b x d t Hl Hk Hv; simpl in *.
  - exact Hv.
  - inversion Hv as [|q0 b0 qs bs Hq Hrest]; subst. inversion Hk as [|r0 A0 Hr HA]; subst.
    constructor.
    + rewrite dot_vadd_r by (rewrite len_vscale; auto). rewrite dot_vscale_r, Hr, Hq. ring.
    + apply IH; auto.
Qed.

Lemma pu_neg_len d : length (vscale (-1) d) = length d.
Proof. apply len_vscale. Qed.
Lemma pu_neg_supp p d : supp p d -> supp p (vscale (-1) d).
Proof. intros H i Hi. rewrite pu_nthQ_vscale, (H i Hi). ring. Qed.
Lemma pu_neg_kerv A d : kerv A d -> kerv A (vscale (-1) d).
Proof.
  unfold kerv. intros H. induction H as [|r A Hr HA IH]; constructor; auto.
  rewrite dot_vscale_r, Hr. ring.
Qed.
Lemma pu_neg_nz d : ~ zerov d -> ~ zerov (vscale (-1) d).
Proof.
  intros H Hz. apply H. unfold zerov, vscale in *. induction d as [|a d IH]; constructor.
  - inversion Hz; subst. lra.
  - inversion Hz; subst. apply IH; auto. intros Hd. apply H. constructor; auto. inversion Hz; subst. lra.
Qed.

Lemma purify : forall A b lb ub n k (s : Q) x,
  rect n A -> length lb = n -> length ub = n -> sol_set A b lb ub x ->
  exists v, sol_set A b lb ub v /\ s * nthQ v k <= s * nthQ x k /\ inj_on A n (freeb v lb ub).
Proof.
  intros A b lb ub n k s x HA Hlb Hub.
  assert (Hgen : forall m x, (length (idxs (freeb x lb ub) n) < m)%nat -> sol_set A b lb ub x ->
    exists v, sol_set A b lb ub v /\ s * nthQ v k <= s * nthQ x k /\ inj_on A n (freeb v lb ub)).
  { clear x. induction m as [|m IH]; intros x Hm Hx; [lia|].
    destruct (kernel_dec_on A n (freeb x lb ub) HA) as [(d0 & Hd0 & Hsupp0 & Hnz0 & Hker0) | Hinj].
    2:{ exists x. split; [exact Hx|]. split; [apply Qle_refl|exact Hinj]. }
    destruct Hx as [Hbox Heq].
    destruct (in_box_len _ _ _ Hbox) as [Hl1 Hl2].
    assert (Hxn : length x = n) by congruence.
    assert (Hd : exists d, length d = length x /\ supp (freeb x lb ub) d /\ ~ zerov d /\ kerv A d /\
                   s * nthQ d k <= 0).
    { destruct (Qlt_le_dec 0 (s * nthQ d0 k)) as [Hpos|Hnp].
      - exists (vscale (-1) d0). split; [rewrite pu_neg_len; congruence|].
        split; [apply pu_neg_supp; auto|]. split; [apply pu_neg_nz; auto|].
        split; [apply pu_neg_kerv; auto|]. rewrite pu_nthQ_vscale.
        set (q := nthQ d0 k) in *. assert (E : s * (-1 * q) == - (s * q)) by ring. rewrite E. lra.
      - exists d0. split; [congruence|]. tauto. }
    destruct Hd as (d & Hd & Hsupp & Hnz & Hker & Hsd).
    destruct (pu_step x lb ub d Hbox Hd Hsupp Hnz) as (t & Ht0 & Hbox' & Hkeep & j & Hj & Hfj & Hfj').
    set (x' := vadd x (vscale t d)) in *.
    assert (Hx' : sol_set A b lb ub x').
    { split; [exact Hbox'|]. apply pu_sol_move; auto. }
    assert (Hcount : (length (idxs (freeb x' lb ub) n) < length (idxs (freeb x lb ub) n))%nat).
    { unfold idxs. apply pu_filter_sub_lt with (j := j); auto.
      - intros i Hi. destruct (freeb x lb ub i) eqn:Ef; [reflexivity|].
        rewrite (Hkeep i Ef) in Hi. discriminate.
      - apply in_seq. lia. }
    destruct (IH x' ltac:(lia) Hx') as (v & Hv & Hle & Hinj).
    exists v. split; [exact Hv|]. split; [|exact Hinj].
    apply Qle_trans with (s * nthQ x' k); [exact Hle|].
    unfold x'. rewrite pu_nthQ_move by exact Hd.
    assert (Hprod : 0 <= t * (- (s * nthQ d k))) by (apply Qmult_le_0_compat; lra).
    assert (E : s * (nthQ x k + t * nthQ d k) == s * nthQ x k - t * (- (s * nthQ d k))) by ring.
    rewrite E. set (p := t * (- (s * nthQ d k))) in *. lra. }
  intros Hx. apply (Hgen (S (length (idxs (freeb x lb ub) n))) x); auto.
Qed.
