From Coq Require Import QArith Qabs Qminmax List Bool Lia Lqa.
From DV Require Import Base.QVec Run.Verdict Model.Linear Cert.Hull Model.Gamut.
Import ListNotations.
Open Scope Q_scope.

(* plain membership: what a passing verdict means *)
Theorem gamut_verdict_sound (c : case) : verdict c = true -> c_norm c = false ->
  (* a target reported in-gamut is (within tol) reproducible by in-bound intensities *)
  (c_answer c = true -> exists x, in_boxo x (c_lb c) (c_ub c) /\
       max_absdiff_le (match c_kind c with O => 1 # 1000000000 | _ => c_tol c end) (predict (A' c) (base' c) x) (c_b c))
  (* a target certified strictly outside was rejected, and really is not reproducible *)
  /\ (c_kind c = 1%nat -> c_answer c = false /\ ~ reproducible (A' c) (base' c) (c_lb c) (c_ub c) (c_b c))
  (* the image of a strictly interior intensity vector was accepted *)
  /\ (c_kind c = 0%nat -> c_answer c = true /\ strictly_inside (c_x c) (c_lb c) (c_ub c) (c_margin c) = true).
Proof.
  unfold verdict, member_ok, sep_ok. intros H Hn. rewrite Hn in *.
  destruct (c_kind c) as [|[|k]] eqn:Ek.
  - rewrite !andb_true_iff in H. destruct H as [[H1 H2] H3]. repeat split; auto; try discriminate.
    intros _. exists (c_x c). apply member_cert_sound; auto.
  - rewrite !andb_true_iff in H. destruct H as [[[H1 H2] H3] H4]. rewrite negb_true_iff in H4.
    split; [intros Ha; congruence|]. split; [|discriminate]. intros _. split; auto.
    apply Nat.eqb_eq in H2. unfold qlt in H1. rewrite negb_true_iff in H1.
    assert (Hmu : 0 < c_mu c). { destruct (Qlt_le_dec 0 (c_mu c)); auto. apply Qle_bool_iff in q. congruence. }
    eapply sep_not_reproducible; eauto.
  - split; [|split; discriminate]. intros Ha. rewrite Ha in H. exists (c_x c). apply member_cert_sound; auto.
Qed.

(* chromatic membership: a rejected-by-certificate target is outside the cone over the gamut *)
Theorem chromatic_verdict_sound (c : case) : verdict c = true -> c_norm c = true -> c_kind c = 1%nat ->
  c_answer c = false /\
  forall x t, in_boxo x (c_lb c) (c_ub c) -> length x = c_n c -> 0 <= t -> ~ veq (vscale t (predict (A' c) (base' c) x)) (c_b c).
Proof.
  unfold verdict, sep_ok. intros H Hn Hk. rewrite Hk, Hn in H.
  rewrite !andb_true_iff in H. destruct H as [[[H1 H2] H3] H4]. rewrite negb_true_iff in H4. split; auto.
  intros x t. eapply cone_sep_sound; eauto.
Qed.
