(* Proofs/DecompP.v — layered decomposition (C11).  All statements proved, no assumptions. *)
From Coq Require Import QArith Qabs Qminmax List Bool Arith Lia Lqa Setoid Morphisms.
From DV Require Import Base.QVec Run.Verdict Model.Linear Cert.Duality Cert.Qp Cert.QpFast Model.Decomp.
Import ListNotations.
Open Scope Q_scope.

(* ================= generic helper lemmas ================= *)
Lemma dot_app u u' v v' : length u = length v -> dot (u ++ u') (v ++ v') == dot u v + dot u' v'.
Proof.
  revert v; induction u as [|a u IH]; intros [|b v] H; simpl in *; try discriminate; [ring|].
  rewrite IH by lia. ring.
Qed.

Lemma vsub_app u u' v v' : length u = length v -> vsub (u ++ u') (v ++ v') = vsub u v ++ vsub u' v'.
Proof.
  revert v; induction u as [|a u IH]; intros [|b v] H; simpl in *; try discriminate; [reflexivity|].
  f_equal. apply IH. lia.
Qed.

Lemma veq_app u u' v v' : veq u v -> veq u' v' -> veq (u ++ u') (v ++ v').
Proof. unfold veq. apply Forall2_app. Qed.

Lemma matvec_app M1 M2 z : matvec (M1 ++ M2) z = matvec M1 z ++ matvec M2 z.
Proof. unfold matvec. apply map_app. Qed.

Lemma matvec_concat Ms z : matvec (concat Ms) z = concat (map (fun M => matvec M z) Ms).
Proof.
  induction Ms as [|M Ms IH]; [reflexivity|].
  change (concat (M :: Ms)) with (M ++ concat Ms). rewrite matvec_app, IH. reflexivity.
Qed.

Lemma veq_map_in {A} (f g : A -> Q) s : (forall a, In a s -> f a == g a) -> veq (map f s) (map g s).
Proof.
  induction s as [|a s IH]; intros H; simpl; constructor.
  - apply H. left; reflexivity.
  - apply IH. intros b Hb. apply H. right; exact Hb.
Qed.

Lemma veq_concat_map {A} (f g : A -> vec) s :
  (forall a, In a s -> veq (f a) (g a)) -> veq (concat (map f s)) (concat (map g s)).
Proof.
  induction s as [|a s IH]; intros H; simpl; [constructor|].
  apply veq_app.
  - apply H. left; reflexivity.
  - apply IH. intros b Hb. apply H. right; exact Hb.
Qed.

Lemma map_seq_nth2 {A B C} (g : A -> B -> C) (da : A) (db : B) (u : list A) (v : list B) :
  length u = length v ->
  map (fun j => g (nth j u da) (nth j v db)) (seq 0 (length v)) = zip2 g u v.
Proof.
  revert v; induction u as [|a u IH]; intros [|b v] H; simpl in *; try discriminate; [reflexivity|].
  f_equal. rewrite <- seq_shift, map_map. simpl. apply IH. lia.
Qed.

Lemma len_zip2 {A B C} (f : A -> B -> C) (a : list A) (b : list B) :
  length a = length b -> length (zip2 f a b) = length a.
Proof.
  revert b; induction a as [|x a IH]; intros [|y b] H; simpl in *; try discriminate; [reflexivity|].
  f_equal. apply IH. lia.
Qed.

Lemma dot_repeat c m x : length x = m -> dot (repeat c m) x == c * sumQ x.
Proof.
  revert x; induction m as [|m IH]; intros [|a x] H; simpl in *; try discriminate; [ring|].
  rewrite IH by lia. ring.
Qed.

Lemma rect_nth m (M : mat) i : rect m M -> (i < length M)%nat -> length (nthV M i) = m.
Proof.
  unfold rect, nthV. intros HR Hi. rewrite Forall_forall in HR. apply HR. apply nth_In. exact Hi.
Qed.

(* ---- 1. the alternating scheme never increases the loss (pure bookkeeping over the iteration list) ----
   losses after each half-step: if every half-step returns a point that is no worse than the current one up to eps
   (which an eps-optimal solve always is, the current point being feasible), consecutive losses differ by <= eps *)
Fixpoint steps_ok (eps : Q) (v : vec) : Prop :=
  match v with a :: ((b :: _) as v') => b <= a + eps /\ steps_ok eps v' | _ => True end.

Lemma steps_ok_nth eps v : steps_ok eps v ->
  forall k, (S k < length v)%nat -> nthQ v (S k) <= nthQ v k + eps.
Proof.
  induction v as [|a v IH]; intros Hs k Hk.
  - simpl in Hk. lia.
  - destruct v as [|b v'].
    + simpl in Hk. lia.
    + change (b <= a + eps /\ steps_ok eps (b :: v')) in Hs. destruct Hs as [Hab Hs].
      destruct k as [|k].
      * unfold nthQ. simpl. exact Hab.
      * change (nthQ (b :: v') (S k) <= nthQ (b :: v') k + eps).
        apply IH; [exact Hs|]. simpl in Hk. simpl. lia.
Qed.

Theorem alt_descent eps v : 0 <= eps -> steps_ok eps v ->
  forall i j, (i <= j)%nat -> (j < length v)%nat -> nthQ v j <= nthQ v i + inject_Z (Z.of_nat (j - i)) * eps.
Proof.
  intros Heps Hs i j Hij Hj.
  assert (HD : forall d, (i + d < length v)%nat ->
                 nthQ v (i + d) <= nthQ v i + inject_Z (Z.of_nat d) * eps).
  { induction d as [|d IHd]; intros Hd.
    - rewrite Nat.add_0_r. change (inject_Z (Z.of_nat 0)) with 0. lra.
    - rewrite Nat.add_succ_r.
      pose proof (steps_ok_nth eps v Hs (i + d)%nat) as Hstep.
      rewrite Nat.add_succ_r in Hd. specialize (Hstep Hd).
      assert (Hd' : (i + d < length v)%nat) by lia. specialize (IHd Hd').
      rewrite Nat2Z.inj_succ. unfold Z.succ. rewrite inject_Z_plus.
      change (inject_Z 1) with 1.
      set (t := inject_Z (Z.of_nat d)) in *. lra. }
  specialize (HD (j - i)%nat).
  replace (i + (j - i))%nat with j in HD by lia.
  apply HD. exact Hj.
Qed.

Theorem nonincreasing_spec tol v : nonincreasing tol v = true <-> steps_ok tol v.
Proof.
  induction v as [|a v IH]; [simpl; tauto|].
  destruct v as [|b v']; [simpl; tauto|].
  change (Qle_bool b (a + tol) && nonincreasing tol (b :: v') = true
          <-> b <= a + tol /\ steps_ok tol (b :: v')).
  rewrite andb_true_iff, Qle_bool_iff, IH. tauto.
Qed.

(* ---- 2. the X-step matrix is the residual as a linear function of vec X ---- *)
(* shapes: A' : m x n, P : S x L, X : L x n, W, Bs : S x m *)
Definition shapes (A' : mat) (n : nat) (P X W Bs : mat) : Prop :=
  rect n A' /\ rect n X /\ rect (length X) P /\ length W = length P /\ length Bs = length P /\
  rect (length A') W /\ rect (length A') Bs.

(* the weighted prediction  W o (P X A'^T), flattened row major: common middle term of both half-steps *)
Definition predW (A' : mat) (n : nat) (P X W : mat) : vec :=
  concat (zip2 (fun Pi Wi => vmul Wi (matvec A' (tmatvec X Pi n))) P W).

Lemma vsub_vmul w d b : veq (vsub (vmul w d) (vmul w b)) (vmul w (vsub d b)).
Proof.
  revert d b; induction w as [|a w IH]; intros [|d0 d] [|b0 b]; simpl; try (constructor; fail).
  constructor; [ring | apply IH].
Qed.

Lemma resid_pred A' n X : forall P W Bs, length W = length P -> length Bs = length P ->
  rect (length A') W -> rect (length A') Bs ->
  veq (vsub (predW A' n P X W) (step_e W Bs)) (residual A' n P X W Bs).
Proof.
  unfold predW, step_e, residual, matmul, rect.
  induction P as [|Pi P IH]; intros [|Wi W] [|Bi Bs] HW HB RW RB; simpl in HW, HB; try discriminate.
  - simpl. constructor.
  - pose proof (Forall_inv RW) as HWi. pose proof (Forall_inv_tail RW) as RW'.
    pose proof (Forall_inv RB) as HBi. pose proof (Forall_inv_tail RB) as RB'.
    simpl in HWi, HBi. simpl.
    rewrite vsub_app.
    + apply veq_app; [apply vsub_vmul|]. apply IH; auto.
    + rewrite !len_vmul; auto.
      * rewrite HWi, HBi. reflexivity.
      * rewrite len_matvec. exact HWi.
Qed.

(* X-step *)
Lemma xrow_dot w Aj n : length Aj = n -> forall Pi X, length X = length Pi -> rect n X ->
  dot (concat (map (fun pl => vscale (w * pl) Aj) Pi)) (concat X) == w * dot Aj (tmatvec X Pi n).
Proof.
  intros HA. unfold rect. induction Pi as [|p Pi IH]; intros [|x X] HL HR; simpl in HL; try discriminate.
  - simpl. rewrite dot_vzero_r. ring.
  - pose proof (Forall_inv HR) as Hx. pose proof (Forall_inv_tail HR) as HR'. simpl in Hx.
    simpl. rewrite dot_app by (rewrite len_vscale; lia).
    rewrite IH by (auto; lia).
    rewrite dot_vadd_r by (rewrite len_vscale, len_tmatvec; auto).
    rewrite dot_vscale_l, dot_vscale_r. ring.
Qed.

Lemma xsample_rows A' n Pi X : rect n A' -> rect n X -> length X = length Pi -> forall Wi,
  veq (matvec (zip2 (fun w Aj => concat (map (fun pl => vscale (w * pl) Aj) Pi)) Wi A') (concat X))
      (vmul Wi (matvec A' (tmatvec X Pi n))).
Proof.
  intros RA RX HL. unfold rect in RA.
  induction A' as [|Aj A' IH]; intros [|w Wi]; simpl; try (constructor; fail).
  pose proof (Forall_inv RA) as HAj. pose proof (Forall_inv_tail RA) as RA'. simpl in HAj.
  constructor.
  - apply xrow_dot; auto.
  - apply IH. exact RA'.
Qed.

Lemma xstep_pred A' n X : rect n A' -> rect n X -> forall P W, rect (length X) P ->
  veq (matvec (xstep_M A' P W) (concat X)) (predW A' n P X W).
Proof.
  intros RA RX. unfold xstep_M, predW, rect.
  induction P as [|Pi P IH]; intros [|Wi W] RP; simpl; try (constructor; fail).
  pose proof (Forall_inv RP) as HPi. pose proof (Forall_inv_tail RP) as RP'. simpl in HPi.
  rewrite matvec_app. apply veq_app.
  - apply xsample_rows; auto.
  - apply IH. exact RP'.
Qed.

Theorem xstep_is_residual A' n P X W Bs : shapes A' n P X W Bs ->
  veq (vsub (matvec (xstep_M A' P W) (concat X)) (step_e W Bs)) (residual A' n P X W Bs).
Proof.
  intros (RA & RX & RP & HW & HB & RW & RB).
  transitivity (vsub (predW A' n P X W) (step_e W Bs)).
  - apply vsub_Proper; [|reflexivity]. apply xstep_pred; auto.
  - apply resid_pred; auto.
Qed.

(* P-step *)
Lemma dot_embed L mid k : length mid = L -> forall i P, rect L P -> (i < length P)%nat ->
  dot (vzero (i * L) ++ mid ++ vzero k) (concat P) == dot mid (nthV P i).
Proof.
  intros Hm. unfold rect. induction i as [|i IH]; intros [|p P] RP Hi; simpl in Hi; try lia.
  - pose proof (Forall_inv RP) as Hp. simpl in Hp.
    change (dot (mid ++ vzero k) (p ++ concat P) == dot mid p).
    rewrite dot_app by lia. rewrite dot_vzero_l. ring.
  - pose proof (Forall_inv RP) as Hp. pose proof (Forall_inv_tail RP) as RP'. simpl in Hp.
    change (dot (vzero (L + i * L) ++ mid ++ vzero k) (p ++ concat P) == dot mid (nthV P i)).
    unfold vzero at 1. rewrite repeat_app, <- app_assoc.
    rewrite dot_app by (rewrite repeat_length; lia).
    rewrite (dot_vzero_l L p).
    change (repeat 0 (i * L)) with (vzero (i * L)).
    rewrite IH by (auto; lia). ring.
Qed.

Lemma pmid_dot w Aj n : length Aj = n -> forall X Pi, rect n X ->
  dot (map (fun Xl => w * dot Aj Xl) X) Pi == w * dot Aj (tmatvec X Pi n).
Proof.
  intros HA. unfold rect. induction X as [|x X IH]; intros [|p Pi] RX; simpl;
    try (rewrite dot_vzero_r; ring).
  pose proof (Forall_inv RX) as Hx. pose proof (Forall_inv_tail RX) as RX'. simpl in Hx.
  rewrite IH by exact RX'.
  rewrite dot_vadd_r by (rewrite len_vscale, len_tmatvec; auto).
  rewrite dot_vscale_r. ring.
Qed.

Lemma vmul_matvec_seq z : forall (Wi : vec) (A' : mat), length Wi = length A' ->
  vmul Wi (matvec A' z) = map (fun j => nthQ Wi j * dot (nthV A' j) z) (seq 0 (length A')).
Proof.
  induction Wi as [|w Wi IH]; intros [|Aj A'] H; simpl in *; try discriminate; [reflexivity|].
  f_equal. rewrite <- seq_shift, map_map. simpl. apply IH. lia.
Qed.

Lemma psample_rows A' n P X W k i : rect n A' -> rect n X -> rect (length X) P ->
  (i < length P)%nat -> length (nthV W i) = length A' ->
  veq (matvec (map (fun j => vzero (i * length X) ++
                             map (fun Xl => nthQ (nthV W i) j * dot (nthV A' j) Xl) X ++ vzero k)
                   (seq 0 (length A'))) (concat P))
      (vmul (nthV W i) (matvec A' (tmatvec X (nthV P i) n))).
Proof.
  intros RA RX RP Hi HWi.
  rewrite (vmul_matvec_seq _ _ _ HWi).
  unfold matvec. rewrite map_map.
  apply veq_map_in. intros j Hj. apply in_seq in Hj.
  rewrite (dot_embed (length X)); auto.
  - apply pmid_dot; auto. apply rect_nth; auto. lia.
  - apply map_length.
Qed.

Lemma pstep_pred A' n P X W : rect n A' -> rect n X -> rect (length X) P ->
  length W = length P -> rect (length A') W ->
  veq (matvec (pstep_M A' X W (length P) (length X)) (concat P)) (predW A' n P X W).
Proof.
  intros RA RX RP HW RW. unfold pstep_M, predW.
  rewrite matvec_concat, map_map.
  rewrite <- (map_seq_nth2 (fun Pi Wi => vmul Wi (matvec A' (tmatvec X Pi n))) [] [] P W) by lia.
  rewrite HW.
  apply veq_concat_map. intros i Hi. apply in_seq in Hi.
  apply (psample_rows A' n P X W); auto.
  - lia.
  - apply rect_nth; auto. lia.
Qed.

Theorem pstep_is_residual A' n P X W Bs : shapes A' n P X W Bs ->
  veq (vsub (matvec (pstep_M A' X W (length P) (length X)) (concat P)) (step_e W Bs)) (residual A' n P X W Bs).
Proof.
  intros (RA & RX & RP & HW & HB & RW & RB).
  transitivity (vsub (predW A' n P X W) (step_e W Bs)).
  - apply vsub_Proper; [|reflexivity]. apply pstep_pred; auto.
  - apply resid_pred; auto.
Qed.

Corollary xstep_objective_is_loss A' n P X W Bs : shapes A' n P X W Bs ->
  obj_ls (xstep_M A' P W) (step_e W Bs) (concat X) == loss2 A' n P X W Bs.
Proof.
  intros Hs. unfold obj_ls, loss2. apply sq_Proper. apply xstep_is_residual. exact Hs.
Qed.

Corollary pstep_objective_is_loss A' n P X W Bs : shapes A' n P X W Bs ->
  obj_ls (pstep_M A' X W (length P) (length X)) (step_e W Bs) (concat P) == loss2 A' n P X W Bs.
Proof.
  intros Hs. unfold obj_ls, loss2. apply sq_Proper. apply pstep_is_residual. exact Hs.
Qed.

(* ---- 3. what the X constraints say ---- *)
Lemma in_boxo_app u u' lo lo' hi hi' : length u = length lo -> length u = length hi ->
  in_boxo (u ++ u') (lo ++ lo') (hi ++ hi') -> in_boxo u lo hi /\ in_boxo u' lo' hi'.
Proof.
  revert lo hi; induction u as [|a u IH]; intros [|l0 lo] [|h0 hi] H1 H2 HB; simpl in *; try discriminate.
  - split; [exact I | exact HB].
  - destruct HB as (Ha & Hb & HB). destruct (IH lo hi) as [I1 I2]; auto.
Qed.

Lemma masked_row : forall (xr mr lb ub : vec),
  length xr = length lb -> length mr = length lb -> length ub = length lb ->
  in_boxo xr (zip2 (fun mk l => if Qeq_bool mk 0 then Some 0 else Some l) mr lb)
             (zip2 (fun mk u => if Qeq_bool mk 0 then Some 0 else Some u) mr ub) ->
  forall k, (k < length lb)%nat -> nthQ mr k == 0 -> nthQ xr k == 0.
Proof.
  unfold nthQ.
  induction xr as [|a xr IH]; intros [|m mr] [|l lb] [|u ub] H1 H2 H3 HB k Hk Hm; simpl in *;
    try discriminate; try lia.
  destruct k as [|k].
  - assert (E : Qeq_bool m 0 = true) by (apply Qeq_bool_iff; exact Hm).
    rewrite E in HB. destruct HB as (Ha & Hb & _). lra.
  - destruct HB as (_ & _ & HB). apply (IH mr lb ub); auto. lia.
Qed.

(* a masked entry (mask = 0) is forced to zero by the box; unmasked entries get the source bounds *)
Lemma masked_aux lb ub : length ub = length lb -> forall X mask,
  length X = length mask -> Forall (fun r => length r = length lb) X ->
  Forall (fun r => length r = length lb) mask ->
  in_boxo (concat X) (xbounds_lo lb mask) (xbounds_hi ub mask) ->
  forall l k, (l < length X)%nat -> (k < length lb)%nat -> nthQ (nthV mask l) k == 0 -> nthQ (nthV X l) k == 0.
Proof.
  intros HU. unfold xbounds_lo, xbounds_hi.
  induction X as [|xr X IH]; intros [|mr mask] HL RX RM HB l k Hl Hk Hm; simpl in HL, Hl;
    try discriminate; try lia.
  pose proof (Forall_inv RX) as Hxr. pose proof (Forall_inv_tail RX) as RX'.
  pose proof (Forall_inv RM) as Hmr. pose proof (Forall_inv_tail RM) as RM'.
  simpl in Hxr, Hmr. simpl in HB.
  apply in_boxo_app in HB.
  - destruct HB as [HB1 HB2]. destruct l as [|l].
    + change (nthQ xr k == 0). change (nthQ mr k == 0) in Hm.
      apply (masked_row xr mr lb ub); auto.
    + change (nthQ (nthV X l) k == 0). change (nthQ (nthV mask l) k == 0) in Hm.
      apply (IH mask); auto. lia.
  - rewrite len_zip2; lia.
  - rewrite len_zip2; lia.
Qed.

Theorem masked_entries_are_zero lb ub mask X : length X = length mask -> Forall (fun r => length r = length lb) X ->
  Forall (fun r => length r = length lb) mask -> length ub = length lb ->
  in_boxo (concat X) (xbounds_lo lb mask) (xbounds_hi ub mask) ->
  forall l k, (l < length X)%nat -> (k < length lb)%nat -> nthQ (nthV mask l) k == 0 -> nthQ (nthV X l) k == 0.
Proof.
  intros HL RX RM HU HB. apply (masked_aux lb ub HU X mask); auto.
Qed.

Lemma pairs_zero (r : nat -> vec) z : forall s,
  all_leP (matvec (map fst (flat_map (fun l => [(r l, 0); (vscale (-1) (r l), 0)]) s)) z)
          (map snd (flat_map (fun l => [(r l, 0); (vscale (-1) (r l), 0)]) s)) ->
  forall l, In l s -> dot (r l) z == 0.
Proof.
  induction s as [|a s IH]; intros Hall l Hin; simpl in Hin; [contradiction|].
  simpl in Hall. destruct Hall as (H1 & H2 & H3).
  destruct Hin as [E|Hin].
  - subst a. rewrite dot_vscale_l in H2. lra.
  - apply IH; auto.
Qed.

Lemma dot_l1row m k : forall l X, rect m X -> (S l < length X)%nat ->
  dot (vzero (l * m) ++ repeat 1 m ++ repeat (-1) m ++ vzero k) (concat X)
  == sumQ (nthV X l) - sumQ (nthV X (S l)).
Proof.
  unfold rect. induction l as [|l IH]; intros X RX Hl.
  - destruct X as [|x0 [|x1 X]]; simpl in Hl; try lia.
    pose proof (Forall_inv RX) as H0. pose proof (Forall_inv (Forall_inv_tail RX)) as H1. simpl in H0, H1.
    change (dot (repeat 1 m ++ repeat (-1) m ++ vzero k) (x0 ++ x1 ++ concat X) == sumQ x0 - sumQ x1).
    rewrite dot_app by (rewrite repeat_length; lia).
    rewrite dot_app by (rewrite repeat_length; lia).
    rewrite dot_vzero_l, !dot_repeat by auto. ring.
  - destruct X as [|x0 X]; simpl in Hl; try lia.
    pose proof (Forall_inv RX) as H0. pose proof (Forall_inv_tail RX) as RX'. simpl in H0.
    change (dot (vzero (m + l * m) ++ repeat 1 m ++ repeat (-1) m ++ vzero k) (x0 ++ concat X)
            == sumQ (nthV X l) - sumQ (nthV X (S l))).
    unfold vzero at 1. rewrite repeat_app, <- app_assoc.
    rewrite dot_app by (rewrite repeat_length; lia).
    rewrite (dot_vzero_l m x0).
    change (repeat 0 (l * m)) with (vzero (l * m)).
    rewrite IH by (auto; lia). ring.
Qed.

(* the equal-L1 rows say: consecutive layers have the same total intensity *)
Theorem equal_l1_rows_spec L n (X : mat) : length X = L -> Forall (fun r => length r = n) X ->
  all_leP (matvec (map fst (l1_rows L n)) (concat X)) (map snd (l1_rows L n)) ->
  forall l, (S l < L)%nat -> sumQ (nthV X l) == sumQ (nthV X (S l)).
Proof.
  intros HL RX Hall l Hl.
  pose (r := fun l0 : nat => vzero (l0 * n) ++ repeat 1 n ++ repeat (-1) n ++ vzero ((L - 2 - l0) * n)).
  assert (Hz : dot (r l) (concat X) == 0).
  { apply (pairs_zero r (concat X) (seq 0 (L - 1))).
    - exact Hall.
    - apply in_seq. lia. }
  unfold r in Hz. rewrite (dot_l1row n) in Hz by (auto; lia). lra.
Qed.

(* ---- 4. what a passing verdict means ---- *)
Lemma rectnb_rect' m M : rectnb m M = true -> rect m M.
Proof. apply rectnb_rect. Qed.

Lemma verdict_parts c : dverdict c = true ->
  shapesb c = true /\
  feasible_tol (d_xinst c) (d_tol c) (d_tol c) (concat (d_X c)) = true /\
  feasible_tol (d_pinst c) (d_tol c) (d_tol c) (concat (d_P c)) = true /\
  mclose (1 # 100000000) (1 # 100000000) (predictD (d_A' c) (d_base' c) (d_n c) (d_P c) (d_X c)) (d_Bpred c) = true /\
  (forallb (Qle_bool 0) (d_losses c) = true /\ 0 <= d_tol_loss c /\ nonincreasing (d_tol_loss c) (d_losses c) = true) /\
  (d_last_is_X c = true -> d_losses c <> [] ->
     obj_ls (l_M (d_xcase c)) (l_e (d_xcase c)) (l_x (d_xcase c))
       <= (lastQ (d_losses c) + d_tol_loss c) * (lastQ (d_losses c) + d_tol_loss c)) /\
  (if d_last_is_X c then lverdict (d_xcase c) = true else lverdict (d_pcase c) = true).
Proof.
  unfold dverdict. rewrite !andb_true_iff.
  intros [[[[[[[[Hs Hx] Hp] Hm] Hl0] Ht] Hn] Hf] Hq].
  repeat split; auto.
  - apply Qle_bool_iff; exact Ht.
  - intros HX Hne. rewrite HX in Hf. destruct (d_losses c) as [|a v] eqn:E; [congruence|].
    apply Qle_bool_iff in Hf. rewrite obj_ls_r_eq in Hf. exact Hf.
  - destruct (d_last_is_X c); exact Hq.
Qed.

Theorem verdict_shapes c : dverdict c = true ->
  shapes (d_A' c) (d_n c) (d_P c) (d_X c) (d_W c) (d_Bs c) /\
  length (d_mask c) = length (d_X c) /\ rect (d_n c) (d_mask c) /\ length (d_lb c) = d_n c /\ length (d_ub c) = d_n c.
Proof.
  intros H. destruct (verdict_parts c H) as (Hs & _). unfold shapesb in Hs. rewrite !andb_true_iff in Hs.
  destruct Hs as [[[[[[[[[[H1 H2] H3] H4] H5] H6] H7] H8] H9] H10] H11].
  apply Nat.eqb_eq in H4, H5, H8, H10, H11.
  unfold shapes. repeat split; auto using rectnb_rect.
Qed.

Lemma objective_ls_only N M e x : objective {| o_d := vzero N; o_M := M; o_e := e; o_c := vzero N |} x == obj_ls M e x.
Proof. unfold objective, obj_diag. simpl. rewrite !dot_vzero_l. ring. Qed.

(* without subsampling the returned intensities are globally optimal for the returned opacities:
   no X' of the same shape satisfying the bound, mask and equal-total constraints has a smaller weighted squared error *)
Theorem verdict_last_X_optimal c : dverdict c = true -> d_last_is_X c = true ->
  forall X' : mat, length X' = length (d_X c) -> rect (d_n c) X' -> feasible (d_xinst c) (concat X') ->
    loss2 (d_A' c) (d_n c) (d_P c) (d_X c) (d_W c) (d_Bs c) <= loss2 (d_A' c) (d_n c) (d_P c) X' (d_W c) (d_Bs c) + d_tol_obj c.
Proof.
  intros H HX X' HL HR HF.
  destruct (verdict_shapes c H) as (Hs & _).
  destruct (verdict_parts c H) as (_ & _ & _ & _ & _ & _ & Hq). rewrite HX in Hq.
  pose proof (lverdict_sound (d_xcase c) Hq (concat X') HF) as HS.
  unfold d_xcase in HS; cbn [l_M l_e l_x l_eps] in HS.
  rewrite xstep_objective_is_loss with (n := d_n c) in HS by exact Hs.
  rewrite xstep_objective_is_loss with (n := d_n c) in HS; [exact HS|].
  destruct Hs as (S1 & S2 & S3 & S4 & S5 & S6 & S7). unfold shapes. rewrite HL. repeat split; auto.
Qed.

(* with subsampling the returned opacities (refitted for every sample) are globally optimal for the returned intensities *)
Theorem verdict_last_P_optimal c : dverdict c = true -> d_last_is_X c = false ->
  forall P' : mat, length P' = length (d_P c) -> rect (length (d_X c)) P' -> feasible (d_pinst c) (concat P') ->
    loss2 (d_A' c) (d_n c) (d_P c) (d_X c) (d_W c) (d_Bs c) <= loss2 (d_A' c) (d_n c) P' (d_X c) (d_W c) (d_Bs c) + d_tol_obj c.
Proof.
  intros H HX P' HL HR HF.
  destruct (verdict_shapes c H) as (Hs & _).
  destruct (verdict_parts c H) as (_ & _ & _ & _ & _ & _ & Hq). rewrite HX in Hq.
  pose proof (lverdict_sound (d_pcase c) Hq (concat P') HF) as HS.
  unfold d_pcase in HS; cbn [l_M l_e l_x l_eps] in HS.
  rewrite pstep_objective_is_loss with (n := d_n c) in HS by exact Hs.
  rewrite <- HL in HS.
  rewrite pstep_objective_is_loss with (n := d_n c) in HS; [exact HS|].
  destruct Hs as (S1 & S2 & S3 & S4 & S5 & S6 & S7). unfold shapes. rewrite HL. repeat split; auto.
Qed.

(* the recorded loss sequence (one entry per half-step) never rises by more than the tolerance per step *)
Theorem verdict_descent c : dverdict c = true ->
  forall i j, (i <= j)%nat -> (j < length (d_losses c))%nat ->
    nthQ (d_losses c) j <= nthQ (d_losses c) i + inject_Z (Z.of_nat (j - i)) * d_tol_loss c.
Proof.
  intros H. destruct (verdict_parts c H) as (_ & _ & _ & _ & (_ & Ht & Hn) & _).
  apply alt_descent; [exact Ht|]. apply nonincreasing_spec. exact Hn.
Qed.

(* ... and the final refit of X does not raise it either (squared form; losses are norms) *)
Theorem verdict_final_refit c : dverdict c = true -> d_last_is_X c = true -> d_losses c <> [] ->
  loss2 (d_A' c) (d_n c) (d_P c) (d_X c) (d_W c) (d_Bs c)
    <= (lastQ (d_losses c) + d_tol_loss c) * (lastQ (d_losses c) + d_tol_loss c).
Proof.
  intros H HX Hne. destruct (verdict_parts c H) as (_ & _ & _ & _ & _ & Hf & _). specialize (Hf HX Hne).
  destruct (verdict_shapes c H) as (Hs & _).
  unfold d_xcase in Hf; cbn [l_M l_e l_x] in Hf. rewrite xstep_objective_is_loss with (n := d_n c) in Hf by exact Hs. exact Hf.
Qed.
