(* Props/C18.v — gamut-size and divergence metrics equal their definitions.
   NOT proved (labelled (T) in the check): mean width = geometric mean width up to Monte-Carlo error,
   rotation invariance (true only in distribution over the random directions), volume = hull volume
   for d >= 3 beyond simplices and boxes (no volume theory for polytopes in the installed libraries). *)
From Coq Require Import Reals QArith Qabs Qminmax List Bool Arith.
From DV Require Import Base.QVec Run.Verdict Model.Bary Model.Range Model.Sampling Model.Scaling Model.Metrics
                       Proofs.MetricsP Proofs.MetricsFast Proofs.FractionP Proofs.VolumeP Proofs.JsR.
Import ListNotations.
Open Scope Q_scope.

(* ---- mean width over ANY fixed direction set U ---- *)
Theorem mean_width_laws : forall X Y U s t,
  X <> [] -> U <> [] -> 0 <= s -> Forall (fun x => length x = length t) X -> Forall (fun u => length u = length t) U ->
  0 <= mean_width_U X U /\
  mean_width_U (map (fun x => vadd x t) X) U == mean_width_U X U /\
  mean_width_U (map (vscale s) X) U == s * mean_width_U X U /\
  mean_width_U X U <= mean_width_U (X ++ Y) U.
Proof.
  intros X Y U s t HX HU Hs HlX HlU. repeat split.
  - apply mean_width_nonneg; auto. - apply mean_width_translate; auto.
  - apply mean_width_scale; auto. - apply mean_width_monotone; auto.
Qed.
Print Assumptions mean_width_laws.
Theorem centring_does_not_change_width : forall X m U, X <> [] -> U <> [] ->
  Forall (fun x => length x = m) X -> Forall (fun u => length u = m) U ->
  mean_width X m false U == mean_width X m true U.
Proof. exact centring_is_harmless. Qed.
Print Assumptions centring_does_not_change_width.

(* ---- gamut metric ---- *)
Theorem gamut_scale_invariant : forall A n ctn cf U X t, 0 < t -> Forall (fun x => Forall (fun a => 0 <= a) x) X ->
  gamut_width A n ctn cf U (map (vscale t) X) == gamut_width A n ctn cf U X.
Proof. exact Proofs.MetricsP.gamut_scale_invariant. Qed.
Print Assumptions gamut_scale_invariant.
Theorem gamut_self_is_one : forall A n ctn cf U X, ~ gamut_width A n ctn cf U X == 0 ->
  gamut_width A n ctn cf U X / gamut_width A n ctn cf U X == 1.
Proof. exact Proofs.MetricsP.gamut_self_is_one. Qed.
Print Assumptions gamut_self_is_one.
Theorem gamut_le_superset : forall A n ctn U X Y, reduce_cloud A n ctn X <> [] -> U <> [] ->
  0 < gamut_width A n ctn true U (X ++ Y) ->
  gamut_width A n ctn true U X / gamut_width A n ctn true U (X ++ Y) <= 1.
Proof. exact Proofs.MetricsP.gamut_le_superset. Qed.
Print Assumptions gamut_le_superset.
(* the reduced-fraction evaluation used by the verdict is the specification model *)
Theorem executable_model_is_spec : forall c, model_fast c == model c.
Proof. exact model_fast_eq. Qed.
Print Assumptions executable_model_is_spec.

(* ---- the estimator's fractional gamut in absolute capture ---- *)
(* the system's capture points are non-negative combinations (rows of S R) of the perfect system's points (rows of R): after
   L1-normalisation and the linear barycentric reduction they are convex combinations, so the width fraction is at most 1
   for EVERY direction set U, every non-negative S and R *)
Theorem width_is_monotone_under_convex_combinations : forall (X Y : mat) (n : nat) (U : mat), X <> [] -> U <> [] -> rect n Y ->
  Forall (fun u => length u = n) U -> Forall (convex_of Y n) X -> mean_width_U X U <= mean_width_U Y U.
Proof. exact mean_width_convex. Qed.
Print Assumptions width_is_monotone_under_convex_combinations.
Theorem estimator_fraction_at_most_one : forall (A : mat) (n : nat) (U S R : mat), rect (n - 1) A -> length A = n ->
  rect n R -> rect (length R) S -> U <> [] -> Forall (fun u => length u = (n - 1)%nat) U ->
  Forall (Forall (fun a => 0 <= a)) S -> Forall (Forall (fun a => 0 <= a)) R ->
  reduce_cloud A n false (matmul S R n) <> [] ->
  gamut_width A n false true U (matmul S R n) <= gamut_width A n false true U R.
Proof. exact fraction_le_one. Qed.
Print Assumptions estimator_fraction_at_most_one.
(* (C) a passing verdict on ReceptorEstimator.compute_gamut(relative=False, fraction=True): the returned value is within the tolerance of
   the specification value for the exact capture points S R, it is positive, and the specification value is at most 1 *)
Theorem estimator_fraction_run : forall c : fcase, fverdict c = true ->
  rect (f_m c - 1) (f_A c) -> length (f_A c) = f_m c -> Forall (fun u => length u = (f_m c - 1)%nat) (f_U c) ->
  0 < gamut_width (f_A c) (f_m c) false true (f_U c) (f_R c) ->
  let spec := gamut_width (f_A c) (f_m c) false true (f_U c) (f_X c) / gamut_width (f_A c) (f_m c) false true (f_U c) (f_R c) in
  Qabs (spec - f_impl c) <= f_tol c + f_tol c * Qabs spec /\ 0 < f_impl c /\ spec <= 1.
Proof. exact fverdict_sound. Qed.
Print Assumptions estimator_fraction_run.

(* ---- the exact reference volumes (polygon area, simplex volume, box): translation invariant, homogeneous of degree d ---- *)
Theorem polygon_area_translation_invariant : forall (V : mat) (t : vec), Forall (fun p => length p = 2%nat) V -> length t = 2%nat ->
  polygon_area (map (fun p => vadd p t) V) == polygon_area V.
Proof. exact polygon_area_translate. Qed.
Print Assumptions polygon_area_translation_invariant.
Theorem polygon_area_homogeneous : forall (V : mat) (s : Q), polygon_area (map (vscale s) V) == s * s * polygon_area V.
Proof. exact polygon_area_scale. Qed.
Print Assumptions polygon_area_homogeneous.
Theorem simplex_volume_translation_invariant : forall (S : mat) (t : vec), Forall (fun p => length p = length t) S ->
  simplex_vol (map (fun p => vadd p t) S) == simplex_vol S.
Proof. exact simplex_vol_translate. Qed.
Print Assumptions simplex_volume_translation_invariant.
Theorem simplex_volume_homogeneous : forall (S : mat) (s : Q) (d : nat), 0 <= s -> length S = Datatypes.S d -> Forall (fun p => length p = d) S ->
  simplex_vol (map (vscale s) S) == s ^ (Z.of_nat d) * simplex_vol S.
Proof. exact simplex_vol_scale. Qed.
Print Assumptions simplex_volume_homogeneous.
Theorem box_volume_laws : forall (lo hi t : vec) (s : Q), length lo = length t -> length hi = length t ->
  box_vol (vadd lo t) (vadd hi t) == box_vol lo hi /\ box_vol (vscale s lo) (vscale s hi) == Qabs s ^ (Z.of_nat (length lo)) * box_vol lo hi.
Proof. intros lo hi t s H1 H2. split; [apply box_vol_translate; assumption | apply box_vol_scale; congruence]. Qed.
Print Assumptions box_volume_laws.

(* ---- Jensen-Shannon divergence (over R) ---- *)
Theorem js_symmetric : forall P Q, length P = length Q -> js P Q = js Q P.
Proof. exact js_sym. Qed.
Print Assumptions js_symmetric.
Theorem js_normalisation_invariant : forall P Q s t, (0 < s)%R -> (0 < t)%R -> nonneg P -> nonneg Q -> (0 < sumR P)%R -> (0 < sumR Q)%R ->
  js (map (Rmult s) P) (map (Rmult t) Q) = js P Q.
Proof. exact js_scale_invariant. Qed.
Print Assumptions js_normalisation_invariant.
Theorem js_zero_exactly_for_proportional : forall P Q, length P = length Q -> nonneg P -> nonneg Q -> (0 < sumR P)%R -> (0 < sumR Q)%R ->
  (js P Q = 0%R <-> normalise P = normalise Q).
Proof. exact js_zero_iff_proportional. Qed.
Print Assumptions js_zero_exactly_for_proportional.
Theorem js_between_zero_and_one_bit : forall P Q, length P = length Q -> nonneg P -> nonneg Q -> (0 < sumR P)%R -> (0 < sumR Q)%R ->
  (0 <= js P Q <= 1)%R.
Proof. intros; split; [apply js_nonneg | apply js_le_one_bit]; auto. Qed.
Print Assumptions js_between_zero_and_one_bit.
