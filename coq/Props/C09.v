(* Props/C09.v — variance minimisation keeps the fit quality and minimises capture variance. *)
From Coq Require Import QArith Qabs Qminmax List Bool Arith.
From DV Require Import Base.QVec Run.Verdict Model.Linear Cert.Duality Cert.Qp Model.Fits Proofs.FitsP.
Import ListNotations.
Open Scope Q_scope.

(* (F) the code's objective sum(Epsilon @ x^2) is the summed capture variance sum_j (Epsilon x^2)_j *)
Theorem variance_objective_spec : forall n E x, rect n E -> length x = n -> obj_diag (colsums n E) x == sumQ (bvar E x).
Proof. exact Proofs.FitsP.variance_objective_spec. Qed.
Print Assumptions variance_objective_spec.
(* (F) variance propagates through a per-receptor adaptation K with K^2 *)
Theorem variance_propagates_with_K_squared : forall k E n j i, (j < length E)%nat -> length k = length E ->
  nthQ (nthV (propagate (Kv k) E n) j) i == nthQ k j * nthQ k j * nthQ (nthV E j) i.
Proof. exact propagate_vector_spec. Qed.
Print Assumptions variance_propagates_with_K_squared.

(* (C) a passing verdict: the returned intensities have minimal summed capture variance among ALL in-bound
   intensities whose capture error stays within the budget (best error + l2_eps) and, when requested, whose
   total intensity lies in the L1 window — in particular never larger than that of the ordinary fit *)
Theorem variance_is_minimal : forall c : vcase, vverdict c = true ->
  rect (v_n c) (v_A c) -> length (v_base c) = length (v_A c) -> Kshape_ok (v_K c) (length (v_A c)) ->
  length (v_w c) = length (v_A c) -> length (v_b c) = length (v_A c) ->
  forall x, in_boxo x (somesv (v_lb c)) (somesv (v_ub c)) -> 0 <= v_rho c ->
    spec_err (v_K c) (v_A c) (v_base c) (v_w c) (v_b c) x <= v_rho c * v_rho c ->
    (match v_l1 c with None => True | Some (L, e) => L - e <= sumQ x /\ sumQ x <= L + e end) -> length x = v_n c ->
    obj_diag (colsums (v_n c) (eps_model (v_K c) (v_A c) (v_n c) (v_Eps c))) (v_X c)
      <= obj_diag (colsums (v_n c) (eps_model (v_K c) (v_A c) (v_n c) (v_Eps c))) x + v_tol_obj c.
Proof. exact minvar_verdict_sound. Qed.
Print Assumptions variance_is_minimal.
Theorem fit_quality_budget_is_documented : forall K A n base w b rho x, rect n A -> length base = length A -> Kshape_ok K (length A) ->
  length w = length A -> length b = length A ->
  (cone_feas (fit_cone K A n base w b rho) x <-> (0 <= rho /\ spec_err K A base w b x <= rho * rho)).
Proof. exact fit_cone_spec. Qed.
Print Assumptions fit_quality_budget_is_documented.
