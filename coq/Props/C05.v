(* Props/C05.v — samples are fitted independently; the batch size is only a performance setting.
   Model: Model/Batch.v; the hook records of every solve (batch index, padded?, rows written,
   stacked targets/weights handed to the solver) are compared with it by `Batch.verdict`. *)
From Coq Require Import QArith Qabs Qminmax List Bool Arith Lia Lqa.
From DV Require Import Base.QVec Run.Verdict Model.Linear Cert.Duality Model.Batch Proofs.BatchP.
Import ListNotations.
Open Scope Q_scope.

(* for EVERY number of samples n and EVERY batch size bs >= 1 (dividing or not, larger than n):
   the batches partition the rows 0..n-1 in order, every row is solved exactly once ... *)
Theorem plan_partitions_rows : forall n bs, (1 <= bs)%nat ->
  concat (map rows (plan n bs)) = seq 0 n /\ NoDup (concat (map rows (plan n bs))).
Proof. intros; split; [apply plan_partitions | apply plan_rows_NoDup]; auto. Qed.
Print Assumptions plan_partitions_rows.
(* ... every batch holds bs slots (rows + zero padding), only the last one may be padded, the
   number of solves is ceil(n/bs) and the batch indices are 0,1,2,... *)
Theorem plan_shape : forall n bs, (1 <= bs)%nat ->
  Forall (fun b => (length (rows b) + padcount b = bs)%nat /\ (1 <= length (rows b))%nat) (plan n bs) /\
  Forall (fun b => padcount b = 0%nat) (removelast (plan n bs)) /\
  length (plan n bs) = (n / bs + (if Nat.eqb (n mod bs) 0 then 0 else 1))%nat /\
  map bidx (plan n bs) = seq 0 (length (plan n bs)).
Proof. intros; repeat split; [apply plan_batch_sizes | apply plan_only_last_padded | apply plan_count | apply plan_indices]; auto. Qed.
Print Assumptions plan_shape.
(* ... and the scatter of the stacked solution writes slot s of a batch back to exactly the row
   that slot was built from, dropping the padded tail *)
Theorem scatter_aligned : forall n bs, (1 <= bs)%nat -> Forall (fun b => written n bs b = rows b) (plan n bs).
Proof. exact written_aligned. Qed.
Print Assumptions scatter_aligned.

(* row independence: what is handed to the solver for slot s is row (nth s rows) of the data and
   nothing else; padded slots are zero *)
Theorem slot_is_own_row : forall m D b s, rect m D -> Forall (fun i => (i < length D)%nat) (rows b) ->
  (s < length (rows b))%nat -> firstn m (skipn (s * m) (sent m D b)) = nthV D (nth s (rows b) 0%nat).
Proof. exact sent_slot. Qed.
Print Assumptions slot_is_own_row.
Theorem padded_slot_is_zero : forall m D b s, rect m D -> Forall (fun i => (i < length D)%nat) (rows b) ->
  (length (rows b) <= s)%nat -> (s < length (rows b) + padcount b)%nat ->
  firstn m (skipn (s * m) (sent m D b)) = vzero m.
Proof. exact sent_pad_slot. Qed.
Print Assumptions padded_slot_is_zero.

(* block-diagonal stacking decouples the samples: the stacked least-squares objective is the sum of
   the per-slot objectives, for every slot content *)
Theorem stacked_objective_is_sum : forall Ms es xs ncol,
  Forall (rect ncol) Ms -> Forall (fun x => length x = ncol) xs -> length xs = length Ms -> length es = length Ms ->
  Forall2 (fun M e => length e = length M) Ms es ->
  obj_ls (bdiag Ms ncol) (concat es) (concat xs) == sum3 obj_ls Ms es xs.
Proof. exact stacked_objective_separable. Qed.
Print Assumptions stacked_objective_is_sum.
(* the code's diagonal_stack(A, k) * w_[:, None] IS that block-diagonal matrix *)
Theorem code_stack_is_block_diagonal : forall A ncol ws, rect ncol A -> Forall (fun w => length w = length A) ws ->
  meq (map2v vscale (concat ws) (block_diag A ncol (length ws))) (bdiag (map (fun w => map2v vscale w A) ws) ncol).
Proof. exact scaled_block_diag. Qed.
Print Assumptions code_stack_is_block_diagonal.
Theorem padded_slot_has_zero_objective : forall A ncol x, rect ncol A -> length x = ncol ->
  obj_ls (map2v vscale (vzero (length A)) A) (vzero (length A)) x == 0.
Proof. exact padded_slot_objective. Qed.
Print Assumptions padded_slot_has_zero_objective.
(* hence: a stacked eps-minimiser is an eps-minimiser of every row's own problem *)
Theorem stacked_minimiser_minimises_every_row : forall Ms es xs ncol lb ub eps,
  Forall (rect ncol) Ms -> length xs = length Ms -> length es = length Ms ->
  Forall2 (fun M e => length e = length M) Ms es -> length lb = ncol -> length ub = ncol ->
  in_boxes xs lb ub ->
  (forall ys, length ys = length Ms -> in_boxes ys lb ub -> sum3 obj_ls Ms es xs <= sum3 obj_ls Ms es ys + eps) ->
  forall j y, (j < length Ms)%nat -> in_box y lb ub ->
    obj_ls (nth j Ms []) (nth j es []) (nth j xs []) <= obj_ls (nth j Ms []) (nth j es []) y + eps.
Proof. exact separable_argmin. Qed.
Print Assumptions stacked_minimiser_minimises_every_row.

(* batch size resolution *)
Theorem batch_size_resolution : forall n k,
  get_batch_size BFull n = Ok n /\ get_batch_size BNone n = Ok 1%nat /\ get_batch_size (BInt k) n = Ok k.
Proof. intros; repeat split. Qed.
Print Assumptions batch_size_resolution.

(* the max-type objective of the excitation model does NOT decouple: two rows where the stacked
   optimum leaves the easier row strictly sub-optimal (known finding D14) *)
Theorem max_couples_refuted :
  exists (e1 e2 x1 x2 y : Q), (* row errors |x - e| on [0,1]; stacked objective = max of the two *)
    let f1 := fun x => Qabs (x - e1) in let f2 := fun x => Qabs (x - e2) in
    (forall z1 z2, 0 <= z1 <= 1 -> 0 <= z2 <= 1 -> Qmax (f1 x1) (f2 x2) <= Qmax (f1 z1) (f2 z2)) /\
    0 <= y <= 1 /\ f1 y < f1 x1.
Proof.
  exists (1#2), 3, 0, 1, (1#2). cbv zeta. split; [|split; [split; discriminate | vm_compute; reflexivity]].
  intros z1 z2 [Hz1 Hz1'] [Hz2 Hz2'].
  assert (E : Qmax (Qabs (0 - (1#2))) (Qabs (1 - 3)) == 2) by (vm_compute; reflexivity). rewrite E.
  apply Qle_trans with (Qabs (z2 - 3)); [|apply Q.le_max_r].
  rewrite Qabs_neg by (apply (Qplus_le_l _ _ 3); ring_simplify; apply Qle_trans with 1; [auto|discriminate]).
  apply (Qplus_le_l _ _ (z2)). ring_simplify. apply Qle_trans with (1 + 2); [apply Qplus_le_l; auto | discriminate].
Qed.
Print Assumptions max_couples_refuted.

Example plan_concrete : plan 5 2 = [ {| bidx := 0; rows := [0;1]%nat; padcount := 0 |};
                                      {| bidx := 1; rows := [2;3]%nat; padcount := 0 |};
                                      {| bidx := 2; rows := [4]%nat; padcount := 1 |} ]
                         /\ plan 2 5 = [ {| bidx := 0; rows := [0;1]%nat; padcount := 3 |} ].
Proof. split; reflexivity. Qed.
