(* Props/C07.v — Poisson and excitation models minimise their objective; all models agree in gamut.
   The Poisson theorems are over R (standard-library axioms of the reals, listed below). *)
From Coq Require Import QArith Qabs Qminmax Qreals Reals List Bool Arith.
From DV Require Import Base.QVec Run.Verdict Model.Linear Cert.Duality Cert.Hull Model.PoisExc Proofs.PoisExcP.
Import ListNotations.
Open Scope Q_scope.

(* ---- excitation ---- *)
Theorem excitation_identity : forall b p, -1 < b -> -1 < p -> Qabs (exc b - exc p) == Qabs (b - p) / ((1 + b) * (1 + p)).
Proof. exact exc_identity. Qed.
Print Assumptions excitation_identity.
Theorem excitation_error_zero_iff_equal : forall b p, -1 < b -> -1 < p -> (exc b - exc p == 0 <-> b == p).
Proof. exact exc_zero_iff. Qed.
Print Assumptions excitation_error_zero_iff_equal.
(* a Farkas certificate for the level set at s proves that EVERY in-bound x has a larger error than s:
   the returned error t is within delta of the global minimum when the certificate is for s = t - delta *)
Theorem excitation_level_certificate_sound : forall A' base' n lb ub w b s lamv L,
  rect n A' -> length base' = length A' -> length w = length A' -> length b = length A' ->
  Forall (fun a => 0 <= a) b -> Forall (fun a => 0 < a) w -> 0 <= s ->
  wfb (level_inst A' base' n lb ub w b s) = true ->
  cert_ok (level_inst A' base' n lb ub w b s) {| lam := lamv; ys := []; ss := [] |} = true ->
  dual_bound (level_inst A' base' n lb ub w b s) {| lam := lamv; ys := []; ss := [] |} 0 (vzero n) (vzero n) = Some L -> 0 < L ->
  forall x, in_boxo x lb ub -> length x = n -> Forall (fun a => 0 < 1 + a) (vmul w (predict A' base' x)) ->
    s < exc_err w b (predict A' base' x).
Proof. exact exc_level_sound. Qed.
Print Assumptions excitation_level_certificate_sound.
Theorem excitation_error_nonnegative : forall w b p, 0 <= exc_err w b p.
Proof. exact exc_err_nonneg. Qed.
Print Assumptions excitation_error_nonnegative.

(* ---- Poisson ---- *)
(* the rational Frank-Wolfe gap at the returned point bounds its likelihood excess over EVERY in-bound
   intensity vector with positive predicted capture *)
Theorem poisson_gap_certificate_sound : forall A' base' n lb ub w b x x',
  rect n A' -> length base' = length A' -> length w = length A' -> length b = length A' ->
  length x = n -> length x' = n ->
  Forall (fun a => 0 <= a) b -> Forall (fun a => 0 <= a) w ->
  Forall (fun a => 0 < a) (predict A' base' x) -> Forall (fun a => 0 < a) (predict A' base' x') ->
  in_box x' lb ub ->
  (nllR w b (predict A' base' x) <= nllR w b (predict A' base' x') + Q2R (pois_gap A' base' n lb ub w b x))%R.
Proof. exact poisson_gap_sound. Qed.
Print Assumptions poisson_gap_certificate_sound.
(* the form the verdict uses: through an (untrusted) reference point x0 the bound is tight to first order *)
Theorem poisson_reference_certificate_sound : forall A' base' n lb ub w b x x0 x',
  rect n A' -> length base' = length A' -> length w = length A' -> length b = length A' ->
  length x = n -> length x0 = n -> length x' = n ->
  Forall (fun a => 0 <= a) b -> Forall (fun a => 0 <= a) w ->
  Forall (fun a => 0 < a) (predict A' base' x) -> Forall (fun a => 0 < a) (predict A' base' x0) -> Forall (fun a => 0 < a) (predict A' base' x') ->
  in_box x' lb ub ->
  (nllR w b (predict A' base' x) <= nllR w b (predict A' base' x') + Q2R (pois_excess A' base' n lb ub w b x x0))%R.
Proof. exact poisson_ref_sound. Qed.
Print Assumptions poisson_reference_certificate_sound.
(* the likelihood is minimised exactly at predicted capture = target: in-gamut targets are reproduced *)
Theorem poisson_minimum_is_at_target : forall b p : R, (0 < b)%R -> (0 < p)%R ->
  (b - b * ln b <= p - b * ln p)%R /\ ((b - b * ln b = p - b * ln p)%R -> p = b).
Proof. exact poisson_min_at_target. Qed.
Print Assumptions poisson_minimum_is_at_target.
