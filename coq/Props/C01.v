(* Props/C01.v — capture is the pairwise trapezoid integral, linear in signals and filters.
   Model: Model/Capture.v, tied to dreye.calculate_capture / dreye.integral /
   ReceptorEstimator.capture by the correspondence `Capture.verdict`. *)
From Coq Require Import QArith List.
From DV Require Import Base.QVec Run.Verdict Model.Capture Proofs.CaptureP.
Import ListNotations.
Open Scope Q_scope.

(* entry (i, j) of the capture of 2-D filters F and 2-D signals S is the integral of
   signal i times filter j — for every number of filters, signals and domain points, for
   the trapezoid rule on an explicit domain, with a scalar step, and for trapz=False *)
Theorem capture_entry : forall d tz F S i j, (i < length S)%nat -> (j < length F)%nat ->
  capture d tz (A2 F) (A2 S) = Ok (A2 (cap22 d tz F S)) /\
  nthQ (nthV (cap22 d tz F S) i) j = integ d tz (vmul (nthV F j) (nthV S i)).
Proof. intros; split; [reflexivity | exact (cap22_entry d tz F S i j H H0)]. Qed.
Print Assumptions capture_entry.

Theorem capture_shape : forall d tz F S,
  length (cap22 d tz F S) = length S /\ Forall (fun r => length r = length F) (cap22 d tz F S).
Proof. exact cap22_shape. Qed.
Print Assumptions capture_shape.

(* ... and depends on no other filter or signal *)
Theorem capture_entry_local : forall d tz F F' S S' i j,
  (i < length S)%nat -> (i < length S')%nat -> (j < length F)%nat -> (j < length F')%nat ->
  nthV F j = nthV F' j -> nthV S i = nthV S' i ->
  nthQ (nthV (cap22 d tz F S) i) j = nthQ (nthV (cap22 d tz F' S') i) j.
Proof. exact cap22_local. Qed.
Print Assumptions capture_entry_local.

(* leading batch axis: batch element k of the result is the 2-D capture of batch element k *)
Theorem capture_batch : forall d tz Fb Sb T k, length Fb = length Sb -> (k < length Fb)%nat ->
  capture d tz (A3 Fb) (A3 Sb) = Ok (A3 T) ->
  nth k T [] = cap22 d tz (nth k Fb []) (nth k Sb []).
Proof. exact capture_batch_entry. Qed.
Print Assumptions capture_batch.

(* superposition / univariance, for all three integration rules *)
Theorem capture_linear_in_signals : forall d tz f a b s1 s2,
  length s1 = length s2 -> length f = length s1 ->
  cap11 d tz f (lin a b s1 s2) == a * cap11 d tz f s1 + b * cap11 d tz f s2.
Proof. exact cap11_linear_signal. Qed.
Print Assumptions capture_linear_in_signals.
Theorem capture_linear_in_filters : forall d tz s a b f1 f2,
  length f1 = length f2 -> length s = length f1 ->
  cap11 d tz (lin a b f1 f2) s == a * cap11 d tz f1 s + b * cap11 d tz f2 s.
Proof. exact cap11_linear_filter. Qed.
Print Assumptions capture_linear_in_filters.

(* a scalar step dx gives the same result as the explicit domain x0, x0+dx, x0+2dx, ... *)
Theorem scalar_step_is_grid : forall dx ys x0,
  trapz_dx dx ys == trapz_x (grid_from x0 dx (length ys)) ys.
Proof. exact trapz_dx_is_grid. Qed.
Print Assumptions scalar_step_is_grid.

(* trapz=False is the plain sum; it differs from the trapezoid by exactly the end-point term *)
Theorem rect_is_trapz_plus_ends : forall dx y0 ys,
  rect_sum dx (y0 :: ys) == trapz_dx dx (y0 :: ys) + dx * (y0 + last ys y0) / 2.
Proof. exact rect_vs_trapz. Qed.
Print Assumptions rect_is_trapz_plus_ends.

(* the stand-alone integral helper obeys the same rule (row-wise / column-wise) and is linear *)
Theorem integral_helper_rows : forall d M, integral d (A2 M) 1 = Ok (A1 (map (integ d true) M)).
Proof. exact integral_rows. Qed.
Print Assumptions integral_helper_rows.
Theorem integral_helper_cols : forall d M j, (j < ncols M)%nat ->
  exists r, integral d (A2 M) 0 = Ok (A1 r) /\ nthQ r j = integ d true (column M j).
Proof. exact integral_cols_entry. Qed.
Print Assumptions integral_helper_cols.
(* rank 3, integration along the FIRST axis: entry (j,k) integrates T[.][j][k] — the other
   two axes keep their order *)
Theorem integral_helper_rank3_first : forall d T j k,
  (j < length (nth 0 T []))%nat -> (k < ncols (nth 0 T []))%nat ->
  exists R, integral d (A3 T) 0 = Ok (A2 R) /\
    nthQ (nthV R j) k = integ d true (map (fun M => nthQ (nthV M j) k) T).
Proof. exact integral3_first_entry. Qed.
Print Assumptions integral_helper_rank3_first.
Theorem integral_helper_rank3_middle : forall d T, integral d (A3 T) 1 = Ok (A2 (map (cols_integ d) T)).
Proof. exact integral3_middle. Qed.
Print Assumptions integral_helper_rank3_middle.
Theorem integral_linear : forall d tz a b u v, length u = length v ->
  integ d tz (lin a b u v) == a * integ d tz u + b * integ d tz v.
Proof. exact integ_linear. Qed.
Print Assumptions integral_linear.

(* non-vacuity: a concrete non-uniform-domain instance evaluates to the hand-computed value *)
Example capture_concrete :
  capture (Xs [0; 1; 3]) true (A2 [[1; 1; 1]; [0; 1; 2]]) (A2 [[2; 2; 2]]) = Ok (A2 [[cap11 (Xs [0;1;3]) true [1;1;1] [2;2;2]; cap11 (Xs [0;1;3]) true [0;1;2] [2;2;2]]])
  /\ cap11 (Xs [0;1;3]) true [0;1;2] [2;2;2] == 7.
Proof. split; [reflexivity | vm_compute; reflexivity]. Qed.
