(* Props/C20.v — property theorems only.  Each is closed by `exact <lemma>` and followed by
   Print Assumptions.  Model: Model/Units.v (tied to dreye.irr2flux / flux2irr by the
   correspondence check `Units.verdict`). *)
From Coq Require Import QArith List.
From DV Require Import Base.QVec Model.Units Proofs.UnitsP.
Import ListNotations.
Open Scope Q_scope.

(* the conversion is the physical law I * lambda / (h c N_A), lambda in nm, times the prefix *)
Theorem irr2flux_is_physical_law : forall p I lam,
  irr2flux1 p I lam == I * (lam * (1 # 1000000000)) / (h_planck * c_light * N_avo) * pscale p.
Proof. exact irr2flux1_law. Qed.
Print Assumptions irr2flux_is_physical_law.

(* exact inverse, both orders, on whole arrays (any number of rows, any row length,
   array-valued or scalar wavelength), for non-zero wavelengths *)
Theorem flux2irr_inverts_irr2flux : forall S lam,
  shape_ok S lam -> Forall (fun l => ~ l == 0) lam ->
  meq (flux2irr PNone (irr2flux PNone S lam) lam) S.
Proof. exact flux2irr_irr2flux. Qed.
Print Assumptions flux2irr_inverts_irr2flux.

Theorem irr2flux_inverts_flux2irr : forall S lam,
  shape_ok S lam -> Forall (fun l => ~ l == 0) lam ->
  meq (irr2flux PNone (flux2irr PNone S lam) lam) S.
Proof. exact irr2flux_flux2irr. Qed.
Print Assumptions irr2flux_inverts_flux2irr.

Theorem inverse_with_prefixes : forall p p' I lam, ~ lam == 0 ->
  flux2irr1 p' (irr2flux1 p I lam / pscale p) lam == I * pscale p'.
Proof. exact flux_irr_inverse_prefix. Qed.
Print Assumptions inverse_with_prefixes.

(* linear in the spectrum *)
Theorem irr2flux_linear : forall p a b I J lam,
  irr2flux1 p (a * I + b * J) lam == a * irr2flux1 p I lam + b * irr2flux1 p J lam.
Proof. exact irr2flux1_linear. Qed.
Print Assumptions irr2flux_linear.
Theorem flux2irr_linear : forall p a b I J lam, ~ lam == 0 ->
  flux2irr1 p (a * I + b * J) lam == a * flux2irr1 p I lam + b * flux2irr1 p J lam.
Proof. exact flux2irr1_linear. Qed.
Print Assumptions flux2irr_linear.

(* element-wise along the wavelength axis: entry i depends on entry i of the spectrum and
   of the wavelengths only *)
Theorem conversion_elementwise : forall f row lam i,
  length lam = length row -> (i < length row)%nat ->
  nth i (row_apply f row lam) 0 = f (nth i row 0) (nth i lam 0).
Proof. exact row_apply_elementwise. Qed.
Print Assumptions conversion_elementwise.
Theorem conversion_scalar_wavelength : forall f row l i, (i < length row)%nat ->
  nth i (row_apply f row [l]) 0 = f (nth i row 0) l.
Proof. exact row_apply_scalar. Qed.
Print Assumptions conversion_scalar_wavelength.

(* SI prefixes scale the number by 10^3, 10^6, 10^9 *)
Theorem prefix_scales : forall p I lam, irr2flux1 p I lam == pscale p * irr2flux1 PNone I lam.
Proof. exact irr2flux1_prefix. Qed.
Print Assumptions prefix_scales.

Theorem flux_positive : forall p I lam, 0 < I -> 0 < lam -> 0 < irr2flux1 p I lam.
Proof. exact irr2flux1_pos. Qed.
Print Assumptions flux_positive.

(* non-vacuity: the hypotheses are met by a concrete non-trivial array *)
Example inverse_hyps_met :
  shape_ok [[1#2; 3#1]; [2#1; 5#4]] [400#1; 555#2] /\ Forall (fun l => ~ l == 0) [400#1; 555#2].
Proof. split; [left; repeat constructor | repeat constructor; discriminate]. Qed.
