(* Props/C06.v — range of solutions = exact per-source extent of the solution polytope. *)
From Coq Require Import QArith Qabs Qminmax List Bool Arith Lqa.
From DV Require Import Base.QVec Run.Verdict Model.Linear Cert.Hull Model.Gauss Model.Range Proofs.RangeP Proofs.VertexDefs Proofs.RangeCompleteP Proofs.BasisCheckP.
Import ListNotations.
Open Scope Q_scope.

(* (F) every basic solution kept by the enumeration is an in-bound intensity vector reproducing the target *)
Theorem accepted_candidates_are_solutions : forall A b lb ub n cands,
  candidates A b lb ub n = Ok cands -> Forall (sol_set A b lb ub) cands.
Proof. exact candidates_sound. Qed.
Print Assumptions accepted_candidates_are_solutions.

(* (F) hence, whenever at least one is kept: both reported ends of every source are values taken by
   in-bound solutions, min <= max, and both ends lie within the bounds *)
Theorem range_ends_attained : forall A b lb ub n mins maxs cands k,
  length lb = n -> length ub = n -> (k < n)%nat ->
  candidates A b lb ub n = Ok cands -> cands <> [] -> range_model A b lb ub n = Ok (mins, maxs) ->
  (exists x, sol_set A b lb ub x /\ nthQ mins k == nthQ x k) /\
  (exists x, sol_set A b lb ub x /\ nthQ maxs k == nthQ x k) /\
  nthQ mins k <= nthQ maxs k /\ nthQ lb k <= nthQ mins k /\ nthQ maxs k <= nthQ ub k.
Proof. exact Proofs.RangeP.range_ends_attained. Qed.
Print Assumptions range_ends_attained.

(* (C) weak LP duality: a multiplier vector bounds x_k over the WHOLE solution polytope *)
Theorem extent_lower_sound : forall A b lb ub n k y x, rect n A -> length y = length A -> (k < n)%nat ->
  sol_set A b lb ub x -> extent_lower A b lb ub n k y <= nthQ x k.
Proof. exact Proofs.RangeP.extent_lower_sound. Qed.
Print Assumptions extent_lower_sound.
Theorem extent_upper_sound : forall A b lb ub n k y x, rect n A -> length y = length A -> (k < n)%nat ->
  sol_set A b lb ub x -> nthQ x k <= extent_upper A b lb ub n k y.
Proof. exact Proofs.RangeP.extent_upper_sound. Qed.
Print Assumptions extent_upper_sound.

(* with attained ends (above) the certified ends are the exact extents, and every in-bound solution —
   in particular every fitted in-gamut solution — lies between them *)
Theorem between_ends : forall A b lb ub n k ylo yhi mn mx tol x,
  rect n A -> length ylo = length A -> length yhi = length A -> (k < n)%nat ->
  mn - tol <= extent_lower A b lb ub n k ylo -> extent_upper A b lb ub n k yhi <= mx + tol ->
  sol_set A b lb ub x -> mn - tol <= nthQ x k /\ nthQ x k <= mx + tol.
Proof. exact Proofs.RangeP.between_ends. Qed.
Print Assumptions between_ends.

(* out-of-gamut contract: the separation certificate used for the 'raise' / 'ignore' cases *)
Theorem outside_certificate_sound : forall A' base' lb ub n b y mu, check_sep A' base' lb ub n b y mu = true ->
  forall x, in_boxo x lb ub -> length x = n -> dot y (predict A' base' x) + mu <= dot y b.
Proof. exact sep_cert_sound. Qed.
Print Assumptions outside_certificate_sound.

(* (F) COMPLETENESS of the enumeration (the fundamental theorem of linear programming for this polytope,
   proved from scratch over Q: elimination, Steinitz exchange, purification -- Proofs/LinAlgP, SupportP,
   PurifyP, RangeCompleteP).  Whenever the capture matrix has m independent columns (has_basis), every
   in-bound solution x is matched, for every source k and both directions (s = 1: minimum, s = -1:
   maximum), by a basic solution that the enumeration keeps: *)
Theorem enumeration_complete : forall A b lb ub n k (s : Q) x cands,
  rect n A -> (length A <= n)%nat -> length lb = n -> length ub = n -> has_basis A n ->
  sol_set A b lb ub x -> candidates A b lb ub n = Ok cands ->
  exists c, In c cands /\ s * nthQ c k <= s * nthQ x k.
Proof. exact Proofs.RangeCompleteP.range_complete. Qed.
Print Assumptions enumeration_complete.
(* hence the reported ends bracket EVERY in-bound solution; with range_ends_attained (both ends are values of
   in-bound solutions) they are the EXACT per-source extents of the solution polytope *)
Theorem range_is_exact : forall A b lb ub n k x mins maxs,
  rect n A -> (length A <= n)%nat -> length lb = n -> length ub = n -> has_basis A n -> (k < n)%nat ->
  sol_set A b lb ub x -> range_model A b lb ub n = Ok (mins, maxs) ->
  nthQ mins k <= nthQ x k /\ nthQ x k <= nthQ maxs k.
Proof. exact Proofs.RangeCompleteP.range_exact. Qed.
Print Assumptions range_is_exact.
(* the enumeration never aborts (singular sub-systems are skipped) *)
Theorem enumeration_total : forall A b lb ub n, exists cands, candidates A b lb ub n = Ok cands.
Proof. exact Proofs.RangeCompleteP.candidates_never_fail. Qed.
Print Assumptions enumeration_total.
(* the full-rank hypothesis is decided exactly, case by case, inside the verdict (elimination on every m-subset of the columns) *)
Theorem full_rank_test_sound : forall A n, rect n A -> has_basis_b A n = true -> has_basis A n.
Proof. exact Proofs.BasisCheckP.has_basis_b_sound. Qed.
Print Assumptions full_rank_test_sound.
(* (C) hence a passing verdict on a real output of a full-rank system means, WITHOUT any further certificate: the implementation's
   (Xmin, Xmax) agree within the comparison tolerance with ends mm <= x_k <= MM that bracket EVERY in-bound solution x *)
Theorem verdict_gives_exact_range : forall (c : case) (mins maxs : vec),
  verdict c = true -> c_expect c = 0%nat -> c_fullrank c = true -> c_impl c = Ok (mins, maxs) ->
  rect (c_n c) (A' c) -> (length (A' c) <= c_n c)%nat -> length (c_lb c) = c_n c -> length (c_ub c) = c_n c ->
  forall x k, (k < c_n c)%nat -> sol_set (A' c) (b' c) (c_lb c) (c_ub c) x ->
  exists mm MM, mm <= nthQ x k /\ nthQ x k <= MM /\
    Qabs (mm - nthQ mins k) <= c_tol c + c_tol c * Qabs mm /\ Qabs (MM - nthQ maxs k) <= c_tol c + c_tol c * Qabs MM.
Proof. exact Proofs.BasisCheckP.verdict_exact. Qed.
Print Assumptions verdict_gives_exact_range.
(* non-vacuity of has_basis: columns 0 and 1 of the example system below are independent *)
Example basis_concrete : has_basis [[1;1;0];[0;1;1]] 3.
Proof.
  exists (fun i => Nat.ltb i 2). split; [|reflexivity].
  intros d Hl Hs Hk. destruct d as [|d0 [|d1 [|d2 [|? ?]]]]; try discriminate.
  assert (H2 : d2 == 0) by (apply (Hs 2%nat); reflexivity).
  inversion Hk as [|r0 M0 H0 Hk']; subst. inversion Hk' as [|r1 M1 H1 _]; subst.
  cbn [dot] in H0, H1.
  repeat constructor; lra.
Qed.
Example range_concrete : range_model [[1;1;0];[0;1;1]] [1;1] [0;0;0] [1;1;1] 3 = Ok ([0;0;0], [1;1;1])
  /\ exists cands, candidates [[1;1;0];[0;1;1]] [1;1] [0;0;0] [1;1;1] 3 = Ok cands /\ cands <> [].
Proof. split; [vm_compute; reflexivity | eexists; split; [vm_compute; reflexivity | discriminate]]. Qed.
