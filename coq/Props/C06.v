(* Props/C06.v — range of solutions = exact per-source extent of the solution polytope. *)
From Coq Require Import QArith Qabs Qminmax List Bool Arith.
From DV Require Import Base.QVec Run.Verdict Model.Linear Cert.Hull Model.Range Proofs.RangeP.
Import ListNotations.
Open Scope Q_scope.

(* (F) every basic solution kept by the enumeration is an in-bound intensity vector reproducing the target *)
Theorem accepted_candidates_are_solutions : forall A b lb ub n cands,
  candidates A b lb ub n = Ok cands -> Forall (sol_set A b lb ub) cands.
Proof. exact candidates_sound. Qed.
Print Assumptions accepted_candidates_are_solutions.

(* (F) hence, whenever at least one is kept: both reported ends of every source are values taken by
   in-bound solutions, min <= max, and both ends lie within the bounds *)
Theorem range_ends_attained : forall A b lb ub n mins maxs cands k,
  length lb = n -> length ub = n -> (k < n)%nat ->
  candidates A b lb ub n = Ok cands -> cands <> [] -> range_model A b lb ub n = Ok (mins, maxs) ->
  (exists x, sol_set A b lb ub x /\ nthQ mins k == nthQ x k) /\
  (exists x, sol_set A b lb ub x /\ nthQ maxs k == nthQ x k) /\
  nthQ mins k <= nthQ maxs k /\ nthQ lb k <= nthQ mins k /\ nthQ maxs k <= nthQ ub k.
Proof. exact Proofs.RangeP.range_ends_attained. Qed.
Print Assumptions range_ends_attained.

(* (C) weak LP duality: a multiplier vector bounds x_k over the WHOLE solution polytope *)
Theorem extent_lower_sound : forall A b lb ub n k y x, rect n A -> length y = length A -> (k < n)%nat ->
  sol_set A b lb ub x -> extent_lower A b lb ub n k y <= nthQ x k.
Proof. exact Proofs.RangeP.extent_lower_sound. Qed.
Print Assumptions extent_lower_sound.
Theorem extent_upper_sound : forall A b lb ub n k y x, rect n A -> length y = length A -> (k < n)%nat ->
  sol_set A b lb ub x -> nthQ x k <= extent_upper A b lb ub n k y.
Proof. exact Proofs.RangeP.extent_upper_sound. Qed.
Print Assumptions extent_upper_sound.

(* with attained ends (above) the certified ends are the exact extents, and every in-bound solution —
   in particular every fitted in-gamut solution — lies between them *)
Theorem between_ends : forall A b lb ub n k ylo yhi mn mx tol x,
  rect n A -> length ylo = length A -> length yhi = length A -> (k < n)%nat ->
  mn - tol <= extent_lower A b lb ub n k ylo -> extent_upper A b lb ub n k yhi <= mx + tol ->
  sol_set A b lb ub x -> mn - tol <= nthQ x k /\ nthQ x k <= mx + tol.
Proof. exact Proofs.RangeP.between_ends. Qed.
Print Assumptions between_ends.

(* out-of-gamut contract: the separation certificate used for the 'raise' / 'ignore' cases *)
Theorem outside_certificate_sound : forall A' base' lb ub n b y mu, check_sep A' base' lb ub n b y mu = true ->
  forall x, in_boxo x lb ub -> length x = n -> dot y (predict A' base' x) + mu <= dot y b.
Proof. exact sep_cert_sound. Qed.
Print Assumptions outside_certificate_sound.

Example range_concrete : range_model [[1;1;0];[0;1;1]] [1;1] [0;0;0] [1;1;1] 3 = Ok ([0;0;0], [1;1;1])
  /\ exists cands, candidates [[1;1;0];[0;1;1]] [1;1] [0;0;0] [1;1;1] 3 = Ok cands /\ cands <> [].
Proof. split; [vm_compute; reflexivity | eexists; split; [vm_compute; reflexivity | discriminate]]. Qed.
