(* Props/C12.v — gamut-corrective scalings keep hue and ratios and land in the chromatic gamut. *)
From Coq Require Import QArith Qabs Qminmax List Bool Arith.
From DV Require Import Base.QVec Run.Verdict Model.Linear Cert.Hull Model.Scaling Proofs.ScalingP.
Import ListNotations.
Open Scope Q_scope.

(* intensity (L1) scaling multiplies the light-induced part of EVERY target by one common factor *)
Theorem l1_common_factor : forall A' base' ub B i, (i < length B)%nat -> length (nthV B i) = length base' ->
  veq (vsub (nthV (l1_scaling A' base' ub B) i) base') (vscale (l1_factor A' base' ub B) (vsub (nthV B i) base')).
Proof. exact Proofs.ScalingP.l1_common_factor. Qed.
Print Assumptions l1_common_factor.
(* so capture ratios / chromaticity are unchanged *)
Theorem l1_keeps_ratios : forall A' base' ub B i j k, (i < length B)%nat -> length (nthV B i) = length base' ->
  nthQ (vsub (nthV (l1_scaling A' base' ub B) i) base') j * nthQ (vsub (nthV B i) base') k ==
  nthQ (vsub (nthV (l1_scaling A' base' ub B) i) base') k * nthQ (vsub (nthV B i) base') j.
Proof. exact Proofs.ScalingP.l1_keeps_ratios. Qed.
Print Assumptions l1_keeps_ratios.
(* and the largest capture becomes the smallest single-source maximum *)
Theorem l1_max_is_amax : forall A' base' ub B, B <> [] -> Forall (fun r => length r = length base') B -> base' <> [] ->
  0 < mmaxall (map (fun r => vsub r base') B) -> 0 <= amax A' ub ->
  mmaxall (map (fun r => vsub r base') (l1_scaling A' base' ub B)) == amax A' ub.
Proof. exact Proofs.ScalingP.l1_max_is_amax. Qed.
Print Assumptions l1_max_is_amax.

(* chromatic (distance) scaling L1 * (n^ + alpha (b^ - n^)): total capture kept ... *)
Theorem dist_keeps_total : forall nhat alpha b, sumQ nhat == 1 -> ~ sumQ b == 0 -> length nhat = length b ->
  is_zero_row b = false -> sumQ (dist_row nhat alpha b) == sumQ b.
Proof. exact Proofs.ScalingP.dist_keeps_total. Qed.
Print Assumptions dist_keeps_total.
(* ... hue direction from the neutral point kept, saturation contracted by the common alpha ... *)
Theorem dist_keeps_hue : forall nhat alpha b, sumQ nhat == 1 -> ~ sumQ b == 0 -> length nhat = length b ->
  is_zero_row b = false -> veq (vsub (hat (dist_row nhat alpha b)) nhat) (vscale alpha (vsub (hat b) nhat)).
Proof. exact Proofs.ScalingP.dist_keeps_hue. Qed.
Print Assumptions dist_keeps_hue.
(* ... alpha = 1 is the identity, all-zero rows stay zero *)
Theorem dist_identity_at_one : forall nhat b, ~ sumQ b == 0 -> length nhat = length b -> is_zero_row b = false ->
  veq (dist_row nhat 1 b) b.
Proof. exact Proofs.ScalingP.dist_identity_at_one. Qed.
Print Assumptions dist_identity_at_one.
Theorem dist_zero_rows_kept : forall nhat alpha b, is_zero_row b = true -> dist_row nhat alpha b = b.
Proof. exact Proofs.ScalingP.dist_zero_row. Qed.
Print Assumptions dist_zero_rows_kept.

(* (C) the chromatic-gamut certificates used on every output row and for the maximality of alpha *)
Theorem chromatic_outside_certificate : forall A' base' lb ub n b y mu, check_cone_sep A' base' lb ub n b y mu = true ->
  forall x t, in_boxo x lb ub -> length x = n -> 0 <= t -> ~ veq (vscale t (predict A' base' x)) b.
Proof. exact cone_sep_sound. Qed.
Print Assumptions chromatic_outside_certificate.

Example dist_concrete : veq (dist_row [1#2; 1#2] (1#2) [3; 1]) [5#2; 3#2].
Proof. vm_compute. repeat constructor. Qed.
