(* Props/C16.v — barycentric and n-sphere coordinate transforms are exact mutual inverses.
   Real-number theorems (Proofs/BaryR.v, Proofs/SphereR.v) depend on the standard library's
   axioms of the reals, listed by Print Assumptions below. *)
From Coq Require Import Reals QArith Qreals List Arith.
From DV Require Import Base.QVec Run.Verdict Model.Bary Proofs.BaryP Proofs.BaryR Proofs.SphereR.
Import ListNotations.

(* ---- the simplex matrix, in EVERY dimension ---- *)
(* the closed form (entries c_k, d_i) satisfies the recursion of the code ... *)
Theorem simplex_closed_form_satisfies_code_recursion : forall n, satisfies_recursion Tc n.
Proof. exact closed_form_satisfies_recursion. Qed.
Print Assumptions simplex_closed_form_satisfies_code_recursion.
(* ... and the recursion determines the matrix uniquely: the code computes the closed form *)
Theorem simplex_recursion_unique : forall rows n, satisfies_recursion rows n ->
  forall i k, (i < n)%nat -> rows i k = Tc i k.
Proof. exact recursion_unique. Qed.
Print Assumptions simplex_recursion_unique.
(* the n corners are mapped to a REGULAR simplex with UNIT edges *)
Theorem simplex_is_regular_unit : forall i j, i <> j ->
  sumf (fun k => (Tc i k - Tc j k) * (Tc i k - Tc j k))%R (Nat.max i j) = 1%R.
Proof. exact T_regular. Qed.
Print Assumptions simplex_is_regular_unit.
(* entries are >= 0 and their squares are the rational closed form T2q that the executable
   correspondence compares the implementation's matrix with *)
Theorem simplex_entries_squared : forall i k, (0 <= Tc i k)%R /\ (Tc i k * Tc i k)%R = Q2R (T2q i k).
Proof. exact T_entry. Qed.
Print Assumptions simplex_entries_squared.
(* the code's own sanity assertion (all previous rows equidistant from their centroid) always holds *)
Theorem simplex_centroid_equidistant : forall i r, (2 <= i)%nat -> (r < i)%nat ->
  dist2 Tc i r = (INR (i - 1) / (2 * INR i))%R.
Proof. exact centroid_equidistant. Qed.
Print Assumptions simplex_centroid_equidistant.

(* ---- affine map and scale invariance (rational shadow, any simplex matrix A) ---- *)
Theorem barycentric_to_cartesian_is_affine : forall A n center a b x y,
  length x = length y -> (a + b == 1)%Q ->
  length (tmatvec A x (n - 1)) = length (center_row A n (n - 1)) ->
  length (tmatvec A y (n - 1)) = length (center_row A n (n - 1)) ->
  veq (b2c A n center (vadd (vscale a x) (vscale b y))) (vadd (vscale a (b2c A n center x)) (vscale b (b2c A n center y))).
Proof. exact b2c_affine. Qed.
Print Assumptions barycentric_to_cartesian_is_affine.
Theorem chromatic_reduction_scale_invariant : forall t x, (0 < t)%Q -> ~ (l1 x == 0)%Q ->
  veq (normalize1 (vscale t x)) (normalize1 x).
Proof. exact normalize1_scale_invariant. Qed.
Print Assumptions chromatic_reduction_scale_invariant.

(* ---- n-sphere coordinates, every dimension >= 2, every point (origin, axes, negative coordinates) ---- *)
Theorem sphere_round_trip : forall x, (2 <= length x)%nat -> s2c (c2s x) = x.
Proof. exact s2c_c2s. Qed.
Print Assumptions sphere_round_trip.
Theorem sphere_radius_is_norm : forall x, nth 0 (c2s x) 0%R = sqrt (sumsq x) /\ (0 <= nth 0 (c2s x) 0)%R.
Proof. exact c2s_radius. Qed.
Print Assumptions sphere_radius_is_norm.
Theorem sphere_angle_ranges : forall x, (2 <= length x)%nat ->
  length (angles x) = (length x - 1)%nat /\
  (forall i, (i < length x - 2)%nat -> (0 <= nth i (angles x) 0 <= PI)%R) /\
  (0 <= nth (length x - 2) (angles x) 0 <= 2 * PI)%R.
Proof. exact c2s_ranges. Qed.
Print Assumptions sphere_angle_ranges.
