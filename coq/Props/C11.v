(* Props/C11.v — layer decomposition honours every constraint and never worsens its fit. *)
From Coq Require Import QArith Qabs Qminmax List Bool Arith.
From DV Require Import Base.QVec Run.Verdict Model.Linear Cert.Duality Cert.Qp Model.Decomp Proofs.DecompP Proofs.DecompT.
Import ListNotations.
Open Scope Q_scope.

(* (F) the two convex sub-problems of the formulation model are the fitting error itself: with A' m x n, P S x L, X L x n, W and Bs S x m,
   the X-step matrix applied to vec X (and the P-step matrix applied to vec P) minus the weighted targets is the weighted residual W o (P X A'^T - Bs) *)
Theorem xstep_objective_is_the_fitting_error : forall A' n P X W Bs, shapes A' n P X W Bs ->
  obj_ls (xstep_M A' P W) (step_e W Bs) (concat X) == loss2 A' n P X W Bs.
Proof. exact xstep_objective_is_loss. Qed.
Print Assumptions xstep_objective_is_the_fitting_error.
Theorem pstep_objective_is_the_fitting_error : forall A' n P X W Bs, shapes A' n P X W Bs ->
  obj_ls (pstep_M A' X W (length P) (length X)) (step_e W Bs) (concat P) == loss2 A' n P X W Bs.
Proof. exact pstep_objective_is_loss. Qed.
Print Assumptions pstep_objective_is_the_fitting_error.

(* (F) what the X constraints of the formulation say, exactly: masked entries are 0, consecutive layers have equal totals *)
Theorem mask_constraint_forces_zero : forall lb ub mask X, length X = length mask -> Forall (fun r => length r = length lb) X ->
  Forall (fun r => length r = length lb) mask -> length ub = length lb ->
  in_boxo (concat X) (xbounds_lo lb mask) (xbounds_hi ub mask) ->
  forall l k, (l < length X)%nat -> (k < length lb)%nat -> nthQ (nthV mask l) k == 0 -> nthQ (nthV X l) k == 0.
Proof. exact masked_entries_are_zero. Qed.
Print Assumptions mask_constraint_forces_zero.
Theorem equal_l1_constraint_equalises_totals : forall L n (X : mat), length X = L -> Forall (fun r => length r = n) X ->
  all_leP (matvec (map fst (l1_rows L n)) (concat X)) (map snd (l1_rows L n)) ->
  forall l, (S l < L)%nat -> sumQ (nthV X l) == sumQ (nthV X (S l)).
Proof. exact equal_l1_rows_spec. Qed.
Print Assumptions equal_l1_constraint_equalises_totals.

(* (F) alternating minimisation is a descent method whatever the start and the number of iterations: if every half-step returns a point no worse
   (up to eps) than the one it started from -- which an eps-optimal solve does, its starting point being feasible -- the error after step j is at
   most the error after step i <= j plus (j - i) eps *)
Theorem alternating_scheme_descends : forall eps v, 0 <= eps -> steps_ok eps v ->
  forall i j, (i <= j)%nat -> (j < length v)%nat -> nthQ v j <= nthQ v i + inject_Z (Z.of_nat (j - i)) * eps.
Proof. exact alt_descent. Qed.
Print Assumptions alternating_scheme_descends.

(* (C) a passing verdict on one run of the implementation (returned X, P, B_pred, the hook's loss sequence, a dual certificate) means: *)
Theorem run_intensities_in_bounds_and_masked : forall c, dverdict c = true ->
  forall l k, (l < length (d_X c))%nat -> (k < d_n c)%nat ->
    let x := nthQ (nthV (d_X c) l) k in
    if Qeq_bool (nthQ (nthV (d_mask c) l) k) 0 then - d_tol c <= x /\ x <= d_tol c
    else nthQ (d_lb c) k - d_tol c <= x /\ x <= nthQ (d_ub c) k + d_tol c.
Proof. exact verdict_X_constraints. Qed.
Print Assumptions run_intensities_in_bounds_and_masked.
Theorem run_layers_have_equal_totals : forall c, dverdict c = true -> d_equal c = true ->
  forall l, (S l < length (d_X c))%nat -> Qabs (sumQ (nthV (d_X c) l) - sumQ (nthV (d_X c) (S l))) <= d_tol c.
Proof. exact verdict_equal_totals. Qed.
Print Assumptions run_layers_have_equal_totals.
Theorem run_opacities_in_bounds : forall c, dverdict c = true ->
  forall i l, (i < length (d_P c))%nat -> (l < length (d_X c))%nat ->
    d_lbp c - d_tol c <= nthQ (nthV (d_P c) i) l /\ nthQ (nthV (d_P c) i) l <= d_ubp c + d_tol c.
Proof. exact verdict_P_bounds. Qed.
Print Assumptions run_opacities_in_bounds.
Theorem run_prediction_is_model_capture : forall c, dverdict c = true ->
  mclose (1 # 100000000) (1 # 100000000) (predictD (d_A' c) (d_base' c) (d_n c) (d_P c) (d_X c)) (d_Bpred c) = true.
Proof. intros c H. destruct (verdict_parts c H) as (_ & _ & _ & Hm & _). exact Hm. Qed.
Print Assumptions run_prediction_is_model_capture.
Theorem run_error_never_increased : forall c, dverdict c = true ->
  forall i j, (i <= j)%nat -> (j < length (d_losses c))%nat ->
    nthQ (d_losses c) j <= nthQ (d_losses c) i + inject_Z (Z.of_nat (j - i)) * d_tol_loss c.
Proof. exact verdict_descent. Qed.
Print Assumptions run_error_never_increased.
Theorem run_final_refit_did_not_increase_error : forall c, dverdict c = true -> d_last_is_X c = true -> d_losses c <> [] ->
  loss2 (d_A' c) (d_n c) (d_P c) (d_X c) (d_W c) (d_Bs c) <= (lastQ (d_losses c) + d_tol_loss c) * (lastQ (d_losses c) + d_tol_loss c).
Proof. exact verdict_final_refit. Qed.
Print Assumptions run_final_refit_did_not_increase_error.
(* the factor fitted last is globally optimal given the other: over ALL admissible factors of the same shape *)
Theorem run_last_intensities_globally_optimal : forall c, dverdict c = true -> d_last_is_X c = true ->
  forall X' : mat, length X' = length (d_X c) -> rect (d_n c) X' -> feasible (d_xinst c) (concat X') ->
    loss2 (d_A' c) (d_n c) (d_P c) (d_X c) (d_W c) (d_Bs c) <= loss2 (d_A' c) (d_n c) (d_P c) X' (d_W c) (d_Bs c) + d_tol_obj c.
Proof. exact verdict_last_X_optimal. Qed.
Print Assumptions run_last_intensities_globally_optimal.
Theorem run_last_opacities_globally_optimal : forall c, dverdict c = true -> d_last_is_X c = false ->
  forall P' : mat, length P' = length (d_P c) -> rect (length (d_X c)) P' -> feasible (d_pinst c) (concat P') ->
    loss2 (d_A' c) (d_n c) (d_P c) (d_X c) (d_W c) (d_Bs c) <= loss2 (d_A' c) (d_n c) P' (d_X c) (d_W c) (d_Bs c) + d_tol_obj c.
Proof. exact verdict_last_P_optimal. Qed.
Print Assumptions run_last_opacities_globally_optimal.
