(* Props/C13.v — samples drawn in the gamut are in the gamut (and have the requested total).
   NOT provable here (no measure theory for polytopes in the installed libraries): uniformity of the
   distribution and same-seed determinism; both are only TESTED by the check (labelled (T)). *)
From Coq Require Import QArith Qabs List Bool Arith.
From DV Require Import Base.QVec Run.Verdict Model.Linear Cert.Hull Model.Range Model.Sampling Proofs.ZonoP Proofs.SamplingP.
Import ListNotations.
Open Scope Q_scope.

(* every sample is a convex combination of the vertices of its simplex ... *)
Theorem sample_in_simplex_hull : forall m (S : mat) (w : vec),
  length w = length S -> Forall (fun a => 0 <= a) w -> sumQ w == 1 -> in_conv S m (sample_of m S w).
Proof. exact Proofs.SamplingP.sample_in_simplex_hull. Qed.
Print Assumptions sample_in_simplex_hull.
(* ... the vertices handed to the sampler by the estimator are images of corners of the intensity box ... *)
Theorem corner_images_reproducible : forall A' base' lb ub v, Forall2 Qle lb ub ->
  In v (get_P A' base' lb ub) -> exists x, in_box x lb ub /\ veq (predict A' base' x) v.
Proof. exact Proofs.SamplingP.corner_images_reproducible. Qed.
Print Assumptions corner_images_reproducible.
(* ... hence every sample with valid barycentric weights is in the gamut: reproducible by in-bound intensities *)
Theorem sample_in_gamut : forall A' base' lb ub n (S : mat) (w : vec),
  rect n A' -> length base' = length A' -> length lb = n -> length ub = n -> Forall2 Qle lb ub ->
  Forall (fun v => In v (get_P A' base' lb ub)) S ->
  length w = length S -> Forall (fun a => 0 <= a) w -> sumQ w == 1 ->
  reproducible A' base' (somes lb) (somes ub) (sample_of (length A') S w).
Proof. exact Proofs.SamplingP.sample_in_gamut. Qed.
Print Assumptions sample_in_gamut.
Theorem reproducible_convex : forall A' base' lb ub n (S : mat) (w : vec),
  rect n A' -> length base' = length A' -> length lb = n -> length ub = n -> Forall2 Qle lb ub ->
  Forall (fun v => exists x, in_box x lb ub /\ veq (predict A' base' x) v) S ->
  length w = length S -> Forall (fun a => 0 <= a) w -> sumQ w == 1 ->
  reproducible A' base' (somes lb) (somes ub) (sample_of (length A') S w).
Proof. exact Proofs.SamplingP.reproducible_convex. Qed.
Print Assumptions reproducible_convex.
(* L1 variant: barycentric coordinates summing to 1, scaled by the requested total, have that total *)
Theorem l1_variant_total : forall (L : Q) (y : vec), sumQ y == 1 -> sumQ (vscale L y) == L.
Proof. exact Proofs.SamplingP.l1_variant_total. Qed.
Print Assumptions l1_variant_total.

Example vol_concrete : simplex_vol [[0;0];[2;0];[0;3]] == 3.
Proof. vm_compute. reflexivity. Qed.
