(* Props/C17.v — hull projections: nearest point, boundary hit, exact slice. *)
From Coq Require Import QArith Qabs Qminmax List Bool Arith.
From DV Require Import Base.QVec Run.Verdict Model.Linear Cert.Duality Cert.Hull Model.Project Proofs.ProjectP.
Import ListNotations.
Open Scope Q_scope.

(* (C) a passing verdict certifies that NO point of the hull (all z satisfying every facet inequality)
   is closer to the query point than the implementation's answer, up to p_tol in squared distance *)
Theorem nearest_point_sound : forall c : pcase, pverdict c = true ->
  Forall (fun r => length r = S (p_d c)) (p_eqs c) ->
  forall z, length z = p_d c -> in_hull_eqs (p_eqs c) z -> dist2 (p_b c) (p_x c) <= dist2 (p_b c) z + p_tol c.
Proof. exact Proofs.ProjectP.nearest_point_sound. Qed.
Print Assumptions nearest_point_sound.

(* (F) boundary hit: origin strictly inside and the ray leaves through some facet => alpha exists, is positive,
   alpha*b satisfies every facet inequality and one with equality; no larger multiple stays inside *)
Theorem alpha_on_boundary : forall b eqs,
  Forall (fun r => last r 0 < 0) eqs -> Exists (fun r => 0 < dot b (removelast r)) eqs ->
  exists a, alpha_model b eqs = Some a /\ 0 < a /\
    in_hull_eqs eqs (vscale a b) /\ Exists (fun r => dot (removelast r) (vscale a b) + last r 0 == 0) eqs.
Proof. exact Proofs.ProjectP.alpha_on_boundary. Qed.
Print Assumptions alpha_on_boundary.
Theorem alpha_is_maximal : forall b eqs a t,
  Forall (fun r => last r 0 < 0) eqs -> alpha_model b eqs = Some a -> a < t -> ~ in_hull_eqs eqs (vscale t b).
Proof. exact Proofs.ProjectP.alpha_is_maximal. Qed.
Print Assumptions alpha_is_maximal.

(* (F) slice: every crossing point is on the plane and on its segment (hence in conv P) ... *)
Theorem crossing_on_plane_and_segment : forall p q c, length p = length q -> sumQ p <= c -> c < sumQ q ->
  sumQ (line_to_simplex p q c) == c /\
  exists t, 0 <= t /\ t <= 1 /\ veq (line_to_simplex p q c) (vadd (vscale (1 - t) p) (vscale t q)).
Proof. exact line_to_simplex_on_plane. Qed.
Print Assumptions crossing_on_plane_and_segment.
(* ... and EVERY point of conv P on the plane is a convex combination of the all-pairs crossing points:
   conv(all_pairs_slice P c) is exactly conv P intersected with the plane *)
Theorem slice_is_exact : forall P m c b, Forall (fun p => length p = m) P ->
  in_conv P m b -> sumQ b == c -> (exists p, In p P /\ sumQ p <= c) -> (exists q, In q P /\ c < sumQ q) ->
  in_conv (all_pairs_slice P c) m b.
Proof. exact slice_contains_section. Qed.
Print Assumptions slice_is_exact.
